(* C07 - the cipher object: what one encrypt/decrypt call does to counters and to the ghost log;
   the log invariant from which nonce freshness follows. *)
From Coq Require Import List NArith ZArith Bool Arith Lia ZifyBool.
From PV Require Import Common.Endian Common.Framing Common.Cases C07.Model C07.ProofsBase.
Import ListNotations.
Local Open Scope N_scope.

(* the calls of a log carry the nonces of the counters c0, c0+1, ... in this order *)
Definition log_from (k : ckind) (c0 : N) (L : list call) : Prop :=
  forall i cl, nth_error L i = Some cl -> nonce_of k (c0 + N.of_nat i) = Ok (c_nonce cl).

Lemma log_from_nil k c0 : log_from k c0 [].
Proof. intros i cl H. destruct i; discriminate. Qed.

Lemma log_from_snoc k c0 L cl : log_from k c0 L ->
  nonce_of k (c0 + N.of_nat (length L)) = Ok (c_nonce cl) -> log_from k c0 (L ++ [cl]).
Proof.
  intros HL Hn i x Hi.
  destruct (Nat.lt_ge_cases i (length L)) as [Hlt|Hge].
  - rewrite nth_error_app1 in Hi by exact Hlt. now apply HL.
  - rewrite nth_error_app2 in Hi by exact Hge.
    destruct (i - length L)%nat as [|d] eqn:Ed.
    + simpl in Hi. inversion Hi; subst x.
      replace i with (length L) by lia. exact Hn.
    + simpl in Hi. destruct d; discriminate.
Qed.

(* the i-th call is determined by its nonce *)
Lemma log_from_lookup k c0 L cl j : log_from k c0 L -> In cl L ->
  nonce_of k (c0 + j) = Ok (c_nonce cl) -> nth_error L (N.to_nat j) = Some cl.
Proof.
  intros HL Hin Hn. apply In_nth_error in Hin as [i Hi].
  pose proof (HL _ _ Hi) as Hi'.
  pose proof (nonce_of_inj _ _ _ _ Hi' Hn) as E.
  replace (N.to_nat j) with i by lia. exact Hi.
Qed.

Lemma log_from_nodup k c0 L : log_from k c0 L -> NoDup (map c_nonce L).
Proof.
  intro HL. apply NoDup_nth_error. intros i j Hi E.
  rewrite map_length in Hi.
  rewrite !nth_error_map in E.
  destruct (nth_error L i) as [ci|] eqn:Ei; [|apply nth_error_None in Ei; lia].
  destruct (nth_error L j) as [cj|] eqn:Ej; [|discriminate].
  simpl in E. inversion E as [En].
  pose proof (HL _ _ Ei) as Hi'. pose proof (HL _ _ Ej) as Hj'. rewrite <- En in Hj'.
  pose proof (nonce_of_inj _ _ _ _ Hi' Hj'). lia.
Qed.

Lemma nth_error_skipn' {A} : forall j (l : list A) i, nth_error (skipn j l) i = nth_error l (j + i).
Proof.
  induction j as [|j IH]; intros l i; [reflexivity|].
  destruct l as [|x t]; simpl; [now destruct i|]. apply IH.
Qed.

Lemma log_from_skipn k c0 L j : log_from k c0 L -> log_from k (c0 + N.of_nat j) (skipn j L).
Proof.
  intros HL i cl Hi. rewrite nth_error_skipn' in Hi. apply HL in Hi.
  replace (c0 + N.of_nat j + N.of_nat i) with (c0 + N.of_nat (j + i)) by lia. exact Hi.
Qed.

Section Cipher.
Variable key : Type.
Variable enc : key -> bytes -> bytes -> bytes -> bytes.
Variable dec : key -> bytes -> bytes -> bytes -> option bytes.

Notation cipher := (cipher key).

(* same object: kind and keys unchanged *)
Definition same_obj (c c' : cipher) : Prop := kd c' = kd c /\ kout c' = kout c /\ kin c' = kin c.

Lemma same_obj_refl c : same_obj c c.
Proof. repeat split. Qed.

Lemma same_obj_trans a b c : same_obj a b -> same_obj b c -> same_obj a c.
Proof. unfold same_obj. intuition congruence. Qed.

Lemma c_encrypt_spec c data aad ct c' : c_encrypt key enc c data aad = Ok (ct, c') ->
  exists n, nonce_of (kd c) (cout c) = Ok n /\ ct = enc (kout c) n aad data /\
            c' = mkcipher (kd c) (kout c) (kin c) (cout c + 1) (cin c) (olog c ++ [mkcall n aad data]).
Proof.
  unfold c_encrypt, logged. destruct (nonce_of (kd c) (cout c)) as [n|] eqn:E; [|discriminate].
  intro H. inversion H; subst. eauto.
Qed.

Lemma c_encrypt_ok c data aad : cout c < nonce_limit (kd c) ->
  exists ct c', c_encrypt key enc c data aad = Ok (ct, c').
Proof.
  intro H. unfold c_encrypt. destruct (nonce_of_some _ _ H) as [n ->]. eauto.
Qed.

Lemma c_encrypt_raise c data aad e : c_encrypt key enc c data aad = Raise e -> nonce_limit (kd c) <= cout c.
Proof.
  unfold c_encrypt. intro H. destruct (N.lt_ge_cases (cout c) (nonce_limit (kd c))) as [L|L]; [|exact L].
  destruct (nonce_of_some _ _ L) as [n E]. rewrite E in H. discriminate.
Qed.

Lemma c_decrypt_spec c data aad r c' : c_decrypt key dec c data aad = Ok (r, c') ->
  exists n, nonce_of (kd c) (cin c) = Ok n /\ r = dec (kin c) n aad data /\
            c' = mkcipher (kd c) (kout c) (kin c) (cout c) (cin c + 1) (olog c).
Proof.
  unfold c_decrypt. destruct (nonce_of (kd c) (cin c)) as [n|] eqn:E; [|discriminate].
  intro H. inversion H; subst. eauto.
Qed.

(* The log invariant: everything in the log was encrypted under the counters c0, c0+1, ...
   and the out counter is the next unused one. *)
Definition log_ok (c0 : N) (c : cipher) : Prop :=
  cout c = c0 + N.of_nat (length (olog c)) /\ log_from (kd c) c0 (olog c).

Lemma log_ok_start k ko ki co ci : log_ok co (mkcipher k ko ki co ci []).
Proof. split; simpl; [lia | apply log_from_nil]. Qed.

Lemma c_encrypt_log_ok c0 c data aad ct c' : log_ok c0 c ->
  c_encrypt key enc c data aad = Ok (ct, c') -> log_ok c0 c'.
Proof.
  intros [Hc HL] H. apply c_encrypt_spec in H as (n & Hn & _ & ->).
  split; cbn [cout olog kd].
  - rewrite app_length. simpl. lia.
  - apply log_from_snoc; [exact HL|]. cbn [c_nonce]. rewrite <- Hc. exact Hn.
Qed.

Lemma log_ok_nodup c0 c : log_ok c0 c -> NoDup (map c_nonce (olog c)).
Proof. intros [_ HL]. eapply log_from_nodup; eauto. Qed.

End Cipher.

Arguments same_obj {key}.
Arguments log_ok {key}.

(* ================================================================== ideal authenticity *)
(* Idealisation of INT-CTXT security of the AEAD, relative to the list L of encryptions the
   legitimate sender made under the key: nothing verifies under the key except a ciphertext the
   sender produced, and only under the nonce and associated data it was produced with.
   (A premise of the tamper theorems only; never used for the round-trip theorems.) *)
Definition ideal_auth {key : Type} (dec : key -> bytes -> bytes -> bytes -> option bytes)
    (k : key) (L : list call) : Prop :=
  forall n a c p, dec k n a c = Some p -> In (mkcall n a p) L.

Lemma nth_skipn_cons {A} : forall (l : list A) j x, nth_error l j = Some x -> skipn j l = x :: skipn (S j) l.
Proof.
  induction l as [|y t IH]; intros j x H; [destruct j; discriminate|].
  destruct j as [|j]; simpl in *; [now inversion H|]. now apply IH.
Qed.

Section Receiver.
Variable key : Type.
Variable dec : key -> bytes -> bytes -> bytes -> option bytes.
Variables (k0 : ckind) (k : key) (c0 : N) (L : list call).
Hypothesis HL : log_from k0 c0 L.
Hypothesis Hauth : ideal_auth dec k L.

(* a receiving cipher object that has made j decryption attempts since the sender's counter c0 *)
Definition at_pos (c : cipher key) (j : nat) : Prop :=
  kd c = k0 /\ kin c = k /\ cin c = c0 + N.of_nat j.

Lemma decrypt_auth c j data aad p c' : at_pos c j ->
  c_decrypt key dec c data aad = Ok (Some p, c') ->
  (exists n, nth_error L j = Some (mkcall n aad p)) /\ at_pos c' (S j).
Proof.
  intros (A1 & A2 & A3) H. apply c_decrypt_spec in H as (n & Hn & Hd & ->).
  split.
  - exists n. symmetry in Hd. rewrite A2 in Hd. apply Hauth in Hd.
    rewrite A1, A3 in Hn.
    pose proof (log_from_lookup _ _ _ _ (N.of_nat j) HL Hd Hn) as Hl.
    now rewrite Nat2N.id in Hl.
  - unfold at_pos. cbn. repeat split; auto. rewrite A3. lia.
Qed.

Lemma decrypt_any c j data aad r c' : at_pos c j ->
  c_decrypt key dec c data aad = Ok (r, c') -> at_pos c' (S j).
Proof.
  intros (A1 & A2 & A3) H. apply c_decrypt_spec in H as (n & Hn & Hd & ->).
  unfold at_pos. cbn. repeat split; auto. rewrite A3. lia.
Qed.

End Receiver.

Arguments at_pos {key}.
