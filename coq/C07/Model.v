(* C07 - model of the encrypted channels of pyatv.

   Mirrors, branch for branch, the code as it stands in /repo:

     pyatv/support/chacha20.py                      Chacha20Cipher (out_nonce, in_nonce, _pad_nonce,
                                                    encrypt, decrypt), Chacha20Cipher8byteNonce ('<LQ')
     pyatv/auth/hap_session.py                      HAPSession.encrypt / decrypt (1024-byte frames)
     pyatv/protocols/companion/connection.py        CompanionConnection.send / data_received
     pyatv/protocols/mrp/connection.py              MrpConnection.send / send_raw / data_received /
                                                    _handle_message (up to the bytes given to protobuf)
     pyatv/support/variant.py                       read_variant / write_variant
     pyatv/protocols/raop/protocols/airplayv2.py    AirPlayV2.send_audio_packet

   Bytes are [list N].  The AEAD (ChaCha20-Poly1305 from the cryptography library) is a pair of
   Section variables [enc]/[dec]; everything the theorems rely on about it is a Section hypothesis
   of the proof files - never a global assumption.  For the correspondence run the pair is instantiated by a
   table of the calls the real library answered in that run ([tenc]/[tdec] below).

   Every cipher object carries a GHOST field [olog]: the (nonce, aad, plaintext) triples it
   handed to the AEAD encryptor, in order.  It is what the recorder placed in front of the real
   AEAD object logs in the harness.

   A receive loop is a [Framing] parser [p1 : state -> buffer -> Need | Fail e | Frame m s' rest];
   [run] is the "while buffer: take one frame" loop of one data_received/decrypt call and
   [feeds] a sequence of such calls.  For Companion and MRP, where the code swallows every
   exception raised while handling one frame and carries on with the next, a frame that is
   dropped is the message [None].

   NO proofs in this file. *)
From Coq Require Import List NArith Bool Arith.
From PV Require Import Common.Endian Common.Framing Common.Cases.
Import ListNotations.
Local Open Scope N_scope.

Arguments Need {B S M E}.
Arguments Fail {B S M E} e.
Arguments Frame {B S M E} m s' rest.
Arguments Out {B S M E} ms s buf.
Arguments Failed {B S M E} ms e.
Arguments OutOfFuel {B S M E}.
Arguments run {B S M E} p1 s buf.
Arguments drain {B S M E} p1 fuel s buf.
Arguments feeds {B S M E} p1 s buf chunks.

Definition bytes := list N.

Inductive exn := InvalidTag | OverflowError | StructError | ValueError.
Inductive result (A : Type) := Ok (a : A) | Raise (e : exn).
Arguments Ok {A} a.
Arguments Raise {A} e.

Definition blen (b : bytes) : N := N.of_nat (length b).
Definition zeros (n : nat) : bytes := repeat 0 n.
Definition nonempty (b : bytes) : bool := match b with [] => false | _ => true end.
Definition lastn (n : nat) (b : bytes) : bytes := skipn (length b - n) b.

(* int.to_bytes(k, byteorder="little" / "big"): OverflowError when the value does not fit *)
Definition to_bytes_le (k : nat) (c : N) : result bytes :=
  if c <? 256 ^ N.of_nat k then Ok (le_enc k c) else Raise OverflowError.
Definition to_bytes_be (k : nat) (c : N) : result bytes :=
  if c <? 256 ^ N.of_nat k then Ok (be_enc k c) else Raise OverflowError.

(* ------------------------------------------------------------------ nonces (chacha20.py) *)
(* Gen nl : Chacha20Cipher(nonce_length=nl): counter.to_bytes(nl, "little"), left-padded with
            zero bytes to 12 (nl = 8: HAP sessions; nl = 12: Companion - no padding);
   LQ     : Chacha20Cipher8byteNonce: Struct("<LQ").pack(0, counter) (MRP, AirPlay 2 audio). *)
Inductive ckind := Gen (nl : nat) | LQ.

Definition NONCE_LENGTH : nat := 12.
Definition pad_nonce (n : bytes) : bytes := zeros (NONCE_LENGTH - length n) ++ n.

Definition nonce_of (k : ckind) (c : N) : result bytes :=
  match k with
  | Gen nl => match to_bytes_le nl c with
              | Ok b => Ok (if Nat.eqb nl NONCE_LENGTH then b else pad_nonce b)
              | Raise e => Raise e
              end
  | LQ => if c <? 2 ^ 64 then Ok (le_enc 4 0 ++ le_enc 8 c) else Raise StructError
  end.

Record call := mkcall { c_nonce : bytes; c_aad : bytes; c_pt : bytes }.

Section Channels.
Variable key : Type.
Variable enc : key -> bytes -> bytes -> bytes -> bytes.          (* key nonce aad plaintext *)
Variable dec : key -> bytes -> bytes -> bytes -> option bytes.   (* None = InvalidTag *)

(* ------------------------------------------------------------------ Chacha20Cipher *)
Record cipher := mkcipher {
  kd : ckind; kout : key; kin : key; cout : N; cin : N;
  olog : list call                                  (* ghost *)
}.

Definition new_cipher (k : ckind) (ko ki : key) : cipher := mkcipher k ko ki 0 0 [].

Definition logged (c : cipher) (cnt : N) (n a p : bytes) : cipher :=
  mkcipher (kd c) (kout c) (kin c) cnt (cin c) (olog c ++ [mkcall n a p]).

(* encrypt(data, aad=aad): nonce = self.out_nonce; self._out_counter += 1 *)
Definition c_encrypt (c : cipher) (data aad : bytes) : result (bytes * cipher) :=
  match nonce_of (kd c) (cout c) with
  | Raise e => Raise e
  | Ok n => Ok (enc (kout c) n aad data, logged c (cout c + 1) n aad data)
  end.

(* encrypt(data, nonce=nonce, aad=aad): counter untouched, short nonces padded *)
Definition c_encrypt_n (c : cipher) (nonce data aad : bytes) : result (bytes * cipher) :=
  let n := if Nat.ltb (length nonce) NONCE_LENGTH then pad_nonce nonce else nonce in
  Ok (enc (kout c) n aad data, logged c (cout c) n aad data).

(* decrypt(data, aad=aad): nonce = self.in_nonce; self._in_counter += 1; then the AEAD may raise *)
Definition c_decrypt (c : cipher) (data aad : bytes) : result (option bytes * cipher) :=
  match nonce_of (kd c) (cin c) with
  | Raise e => Raise e
  | Ok n => Ok (dec (kin c) n aad data,
                mkcipher (kd c) (kout c) (kin c) (cout c) (cin c + 1) (olog c))
  end.

(* ------------------------------------------------------------------ HAPSession *)
Definition FRAME_LENGTH : nat := 1024.
Definition AUTH_TAG_LENGTH : N := 16.

(* while data: frame = data[0:1024]; data = data[1024:]      (fuel = len(data) is enough) *)
Fixpoint frames_of (fuel : nat) (data : bytes) : list bytes :=
  match data with
  | [] => []
  | _ => match fuel with
         | O => []
         | S f => firstn FRAME_LENGTH data :: frames_of f (skipn FRAME_LENGTH data)
         end
  end.

Fixpoint hap_enc_frames (c : cipher) (frames : list bytes) : result (bytes * cipher) :=
  match frames with
  | [] => Ok ([], c)
  | f :: t =>
    match to_bytes_le 2 (blen f) with                     (* int.to_bytes(len(frame), 2, "little") *)
    | Raise e => Raise e
    | Ok lb =>
      match c_encrypt c f lb with                         (* aad = length *)
      | Raise e => Raise e
      | Ok (ct, c') =>
        match hap_enc_frames c' t with
        | Raise e => Raise e
        | Ok (out, c'') => Ok (lb ++ ct ++ out, c'')
        end
      end
    end
  end.

(* HAPSession.encrypt; [None] = encryption not enabled (data passed through) *)
Definition hap_encrypt (c : option cipher) (data : bytes) : result (bytes * option cipher) :=
  match c with
  | None => Ok (data, None)
  | Some c =>
    match hap_enc_frames c (frames_of (length data) data) with
    | Raise e => Raise e
    | Ok (out, c') => Ok (out, Some c')
    end
  end.

(* one lap of the while loop of HAPSession.decrypt *)
Definition hap_p1 (c : cipher) (buf : bytes) : step N cipher bytes exn :=
  let lb := firstn 2 buf in                                (* self._encrypted_data[0:2] *)
  let block_length := le_dec lb + AUTH_TAG_LENGTH in
  if blen buf <? block_length + 2 then Need                (* return output *)
  else
    let block := firstn (N.to_nat block_length) (skipn 2 buf) in
    match c_decrypt c block lb with
    | Raise e => Fail e
    | Ok (None, _) => Fail InvalidTag
    | Ok (Some p, c') => Frame p c' (skipn (2 + N.to_nat block_length) buf)
    end.

Record hap := mkhap { h_c : option cipher; h_buf : bytes }.

(* HAPSession.decrypt(data): the plaintext of the frames completed by this call, or the
   exception (in which case the plaintext of frames decrypted earlier IN THIS CALL is lost
   with it, the local variable output is dropped) *)
Definition hap_decrypt (h : hap) (data : bytes) : result (bytes * hap) :=
  match h_c h with
  | None => Ok (data, h)
  | Some c =>
    match run hap_p1 c (h_buf h ++ data) with
    | Out ms c' r => Ok (concat ms, mkhap (Some c') r)
    | Failed _ e => Raise e
    | OutOfFuel => Raise ValueError                        (* unreachable (drain_fuel) *)
    end
  end.

(* successive decrypt calls; an exception ends the connection (asyncio closes a transport
   whose protocol raised in data_received).  Returns the outputs of the calls that returned. *)
Fixpoint hap_recv (h : hap) (chunks : list bytes) : list bytes * result hap :=
  match chunks with
  | [] => ([], Ok h)
  | d :: t =>
    match hap_decrypt h d with
    | Raise e => ([], Raise e)
    | Ok (o, h') => let '(os, r) := hap_recv h' t in (o :: os, r)
    end
  end.

(* ------------------------------------------------------------------ Companion *)
Definition HEADER_LENGTH : nat := 4.

(* CompanionConnection.send(frame_type, data); [ft] is frame_type.value *)
Definition comp_send (c : option cipher) (ft : N) (data : bytes) : result (bytes * option cipher) :=
  let encrypted := match c with Some _ => nonempty data | None => false end in
  let payload_length := blen data + (if encrypted then AUTH_TAG_LENGTH else 0) in
  match to_bytes_be 3 payload_length with
  | Raise e => Raise e
  | Ok lb =>
    let header := ft :: lb in
    match c with
    | Some ci =>
      if nonempty data then
        match c_encrypt ci data header with               (* aad = header *)
        | Raise e => Raise e
        | Ok (ct, ci') => Ok (header ++ ct, Some ci')
        end
      else Ok (header ++ data, c)
    | None => Ok (header ++ data, c)
    end
  end.

(* The part of send() that depends on the SIZE of the payload only: the header, or the
   OverflowError of payload_length.to_bytes(3) - raised before anything is encrypted or written.
   [tagged] = encryption is on and the payload is not empty. *)
Definition comp_header_of_size (tagged : bool) (ft n : N) : result bytes :=
  match to_bytes_be 3 (n + (if tagged then AUTH_TAG_LENGTH else 0)) with
  | Ok lb => Ok (ft :: lb)
  | Raise e => Raise e
  end.

(* one lap of the while loop of data_received.  [known] = the values of the FrameType enum.
   Everything raised inside the try (InvalidTag, a counter that no longer fits, ValueError of
   FrameType(..)) is logged and swallowed: the frame is dropped and the loop continues. *)
Definition comp_deliver (known : list N) (header payload : bytes) : option (N * bytes) :=
  let ft := hd 0 header in
  if existsb (N.eqb ft) known then Some (ft, payload) else None.

(* the body of the try block: decrypt when encryption is on and the payload is not empty,
   then hand the frame to the listener *)
Definition comp_handle (known : list N) (c : option cipher) (header payload rest : bytes)
  : step N (option cipher) (option (N * bytes)) exn :=
  match c with
  | Some ci =>
    if nonempty payload then
      match c_decrypt ci payload header with
      | Raise _ => Frame None c rest
      | Ok (None, ci') => Frame None (Some ci') rest
      | Ok (Some p, ci') => Frame (comp_deliver known header p) (Some ci') rest
      end
    else Frame (comp_deliver known header payload) c rest
  | None => Frame (comp_deliver known header payload) c rest
  end.

Definition comp_p1 (known : list N) (c : option cipher) (buf : bytes)
  : step N (option cipher) (option (N * bytes)) exn :=
  if Nat.ltb (length buf) HEADER_LENGTH then Need
  else
    let payload_length := N.of_nat HEADER_LENGTH + be_dec (firstn 3 (skipn 1 buf)) in
    if blen buf <? payload_length then Need
    else
      comp_handle known c
        (firstn HEADER_LENGTH buf)                                                   (* header *)
        (firstn (N.to_nat payload_length - HEADER_LENGTH) (skipn HEADER_LENGTH buf)) (* payload *)
        (skipn (N.to_nat payload_length) buf).                                       (* new buffer *)

(* ------------------------------------------------------------------ MRP *)
(* write_variant(number); fuel = number of 7-bit groups *)
Fixpoint write_variant (fuel : nat) (n : N) : bytes :=
  match fuel with
  | O => [n]
  | S f => if n <? 128 then [n] else (n mod 128 + 128) :: write_variant f (n / 128)
  end.
Definition write_var (n : N) : bytes := write_variant (N.to_nat (N.size n)) n.

(* read_variant(variant): None = ValueError (ran out of bytes) *)
Fixpoint read_variant (l : bytes) : option (N * bytes) :=
  match l with
  | [] => None
  | b :: t =>
    if b <? 128 then Some (b, t)
    else match read_variant t with
         | Some (v, r) => Some (b mod 128 + 128 * v, r)
         | None => None
         end
  end.

(* MrpConnection.send_raw(data) (send(message) is send_raw(message.SerializeToString())) *)
Definition mrp_send (c : option cipher) (data : bytes) : result (bytes * option cipher) :=
  match c with
  | Some ci =>
    match c_encrypt ci data [] with                        (* aad = None *)
    | Raise e => Raise e
    | Ok (ct, ci') => Ok (write_var (blen ct) ++ ct, Some ci')
    end
  | None => Ok (write_var (blen data) ++ data, c)
  end.

(* _handle_message up to the byte string handed to the protobuf parser; exceptions are swallowed
   by the caller *)
Definition mrp_handle (c : option cipher) (data rest : bytes)
  : step N (option cipher) (option bytes) exn :=
  match c with
  | Some ci =>
    match c_decrypt ci data [] with
    | Raise _ => Frame None c rest
    | Ok (None, ci') => Frame None (Some ci') rest
    | Ok (Some p, ci') => Frame (Some p) (Some ci') rest
    end
  | None => Frame (Some data) c rest
  end.

(* one lap of data_received *)
Definition mrp_p1 (c : option cipher) (buf : bytes) : step N (option cipher) (option bytes) exn :=
  match read_variant buf with
  | None => Need                                          (* except ValueError: break *)
  | Some (length_, raw) =>
    if blen raw <? length_ then Need
    else mrp_handle c (firstn (N.to_nat length_) raw) (skipn (N.to_nat length_) raw)
  end.

(* ------------------------------------------------------------------ AirPlay 2 audio *)
(* AirPlayV2.send_audio_packet(transport, rtp_header, audio) -> the datagram *)
Definition ap2_send_audio (c : option cipher) (rtp_header audio : bytes) : result (bytes * option cipher) :=
  match c with
  | None => Ok (rtp_header ++ audio ++ lastn 8 [], None)
  | Some ci =>
    match nonce_of (kd ci) (cout ci) with                  (* nonce = self._cipher.out_nonce *)
    | Raise e => Raise e
    | Ok nonce =>
      let aad := firstn 8 (skipn 4 rtp_header) in          (* rtp_header[4:12] *)
      match c_encrypt ci audio aad with
      | Raise e => Raise e
      | Ok (ct, ci') => Ok (rtp_header ++ ct ++ lastn 8 nonce, Some ci')
      end
    end
  end.

(* The receiver of an audio packet is the device, not pyatv.  This is the decoding rule of
   the packet format (12-byte RTP header, ciphertext+tag, 8 nonce bytes), used to STATE that
   the packets are decodable. *)
Definition ap2_peer_decode (k : key) (pkt : bytes) : option bytes :=
  if Nat.ltb (length pkt) 36 then None
  else
    let header := firstn 12 pkt in
    let body := skipn 12 pkt in
    let ct := firstn (length body - 8) body in
    let n8 := lastn 8 pkt in
    dec k (zeros 4 ++ n8) (skipn 4 header) ct.

(* ------------------------------------------------------------------ sequences of sends *)
(* successive send calls on one connection; the outputs are what is written to the transport *)
Fixpoint send_all {M : Type} (f : option cipher -> M -> result (bytes * option cipher))
    (c : option cipher) (msgs : list M) : result (list bytes * option cipher) :=
  match msgs with
  | [] => Ok ([], c)
  | m :: t =>
    match f c m with
    | Raise e => Raise e
    | Ok (o, c') =>
      match send_all f c' t with
      | Raise e => Raise e
      | Ok (os, c'') => Ok (o :: os, c'')
      end
    end
  end.

Definition hap_send_all := send_all hap_encrypt.
Definition comp_send_all := send_all (fun c (m : N * bytes) => comp_send c (fst m) (snd m)).
Definition mrp_send_all := send_all mrp_send.
Definition ap2_send_all := send_all (fun c (m : bytes * bytes) => ap2_send_audio c (fst m) (snd m)).

End Channels.

Arguments mkcipher {key}.
Arguments kd {key}. Arguments kout {key}. Arguments kin {key}.
Arguments cout {key}. Arguments cin {key}. Arguments olog {key}.
Arguments mkhap {key}. Arguments h_c {key}. Arguments h_buf {key}.
Arguments new_cipher {key}.

(* ================================================================== correspondence helpers *)
(* Byte strings in the generated case files. *)
Fixpoint pat_from (a b i : N) (n : nat) : bytes :=
  match n with O => [] | S m => ((i * a + b) mod 251) :: pat_from a b (i + 1) m end.
(* bytes (i*a+b) mod 251 for off <= i < off+n *)
Definition pat (a b off n : N) : bytes := pat_from a b off (N.to_nat n).
Definition slice (off n : N) (l : bytes) : bytes := firstn (N.to_nat n) (skipn (N.to_nat off) l).
Fixpoint upd_nat (i : nat) (v : N) (l : bytes) : bytes :=
  match l, i with
  | [], _ => []
  | _ :: t, O => v :: t
  | x :: t, S j => x :: upd_nat j v t
  end.
Definition upd (i v : N) (l : bytes) : bytes := upd_nat (N.to_nat i) v l.
(* cut a stream into chunks of the given lengths (the remainder is the last chunk) *)
Fixpoint cut (lens : list N) (l : bytes) : list bytes :=
  match lens with
  | [] => match l with [] => [] | _ => [l] end
  | n :: t => firstn (N.to_nat n) l :: cut t (skipn (N.to_nat n) l)
  end.

(* The AEAD answered by table: (key id, nonce, aad, plaintext, ciphertext) as recorded from the
   real library in this run.  Unknown encryptions give [], unknown decryptions InvalidTag. *)
Definition tab := list (N * bytes * bytes * bytes * bytes).
Definition tenc (t : tab) (k : N) (n a p : bytes) : bytes :=
  match find (fun e => let '(k', n', a', p', _) := e in
                       N.eqb k k' && bytes_beq n n' && bytes_beq a a' && bytes_beq p p') t with
  | Some (_, _, _, _, c) => c
  | None => []
  end.
Definition tdec (t : tab) (k : N) (n a c : bytes) : option bytes :=
  match find (fun e => let '(k', n', a', _, c') := e in
                       N.eqb k k' && bytes_beq n n' && bytes_beq a a' && bytes_beq c c') t with
  | Some (_, _, _, p, _) => Some p
  | None => None
  end.

Definition call_beq (x y : call) : bool :=
  bytes_beq (c_nonce x) (c_nonce y) && bytes_beq (c_aad x) (c_aad y) && bytes_beq (c_pt x) (c_pt y).
Definition exn_beq (x y : exn) : bool :=
  match x, y with
  | InvalidTag, InvalidTag | OverflowError, OverflowError
  | StructError, StructError | ValueError, ValueError => true
  | _, _ => false
  end.

(* the encryptions of key 0 in table order = what the recorder saw *)
Definition tab_log (t : tab) : list call :=
  flat_map (fun e => let '(k, n, a, p, _) := e in if N.eqb k 0 then [mkcall n a p] else []) t.

(* a cipher object of the implementation: kind, out counter, in counter (keys: out = 0, in = 1) *)
Definition mk (k : ckind) (co ci : N) : cipher N := mkcipher k 0 1 co ci [].
Definition mko (enabled : bool) (k : ckind) (co ci : N) : option (cipher N) :=
  if enabled then Some (mk k co ci) else None.

(* what the implementation did: outputs of the calls that returned, then either the final
   counter or the exception of the call that raised *)
Definition outcome := (list bytes * (N + exn))%type.

Definition outs_beq (a b : list bytes) := list_beq bytes_beq a b.
Definition fin_beq (log : list call) (st : option (cipher N)) (cnt : option (cipher N) -> N)
    (t : tab) (expect : N) : bool :=
  N.eqb (cnt st) expect &&
  match st with Some c => list_beq call_beq (olog c) log | None => true end.

Definition cnt_out (st : option (cipher N)) : N := match st with Some c => cout c | None => 0 end.
Definition cnt_in (st : option (cipher N)) : N := match st with Some c => cin c | None => 0 end.

(* ---- nonce_of: (kind, counter, Some nonce | None = raised) *)
Definition check_nonce (c : ckind * N * option bytes) : bool :=
  let '(k, n, r) := c in
  match nonce_of k n, r with
  | Ok b, Some b' => bytes_beq b b'
  | Raise _, None => true
  | _, _ => false
  end.

(* ---- explicit nonce: (table, kind, nonce, data, aad, ciphertext) *)
Definition check_enc_n (c : tab * ckind * bytes * bytes * bytes * bytes * N) : bool :=
  let '(t, k, nonce, data, aad, ct, co) := c in
  match c_encrypt_n N (tenc t) (mk k co 0) nonce data aad with
  | Ok (o, c') => bytes_beq o ct && N.eqb (cout c') co && list_beq call_beq (olog c') (tab_log t)
  | Raise _ => false
  end.

(* ---- senders: the model is run message by message with the table AEAD *)
Fixpoint send_seq {M} (f : option (cipher N) -> M -> result (bytes * option (cipher N)))
    (st : option (cipher N)) (msgs : list M) : list bytes * result (option (cipher N)) :=
  match msgs with
  | [] => ([], Ok st)
  | m :: t =>
    match f st m with
    | Raise e => ([], Raise e)
    | Ok (o, st') => let '(os, r) := send_seq f st' t in (o :: os, r)
    end
  end.

Definition check_send {M} (f : tab -> option (cipher N) -> M -> result (bytes * option (cipher N)))
    (c : tab * option (cipher N) * list M * outcome) : bool :=
  let '(t, st, msgs, (outs, fin)) := c in
  let '(mo, mr) := send_seq (f t) st msgs in
  outs_beq mo outs &&
  match mr, fin with
  | Ok st', inl n => fin_beq (tab_log t) st' cnt_out t n
  | Raise e, inr e' => exn_beq e e'
  | _, _ => false
  end.

Definition check_hap_send := check_send (fun t st m => hap_encrypt N (tenc t) st m).
Definition check_comp_send := check_send (fun t st (m : N * bytes) => comp_send N (tenc t) st (fst m) (snd m)).
Definition check_mrp_send := check_send (fun t st m => mrp_send N (tenc t) st m).
Definition check_ap2_send := check_send (fun t st (m : bytes * bytes) => ap2_send_audio N (tenc t) st (fst m) (snd m)).

(* ---- receivers: (table, initial cipher, stream, chunk lengths, what the implementation delivered) *)
(* HAP: outputs per returning call; final in-counter and residual buffer length, or the exception *)
Definition check_hap_recv (c : tab * option (cipher N) * bytes * list N * list bytes * (N * N + exn)) : bool :=
  let '(t, st, stream, lens, outs, fin) := c in
  let '(mo, mr) := hap_recv N (tdec t) (mkhap st []) (cut lens stream) in
  outs_beq mo outs &&
  match mr, fin with
  | Ok h, inl (n, r) => N.eqb (cnt_in (h_c h)) n && N.eqb (blen (h_buf h)) r
  | Raise e, inr e' => exn_beq e e'
  | _, _ => false
  end.

Definition frame_beq (a b : N * bytes) := N.eqb (fst a) (fst b) && bytes_beq (snd a) (snd b).
Fixpoint somes {A} (l : list (option A)) : list A :=
  match l with [] => [] | Some x :: t => x :: somes t | None :: t => somes t end.

(* Companion: frames given to the listener, final in-counter, residual buffer length *)
Definition check_comp_recv (c : tab * list N * option (cipher N) * bytes * list N * list (N * bytes) * N * N) : bool :=
  let '(t, known, st, stream, lens, got, n, r) := c in
  match feeds (comp_p1 N (tdec t) known) st [] (cut lens stream) with
  | Out ms st' buf => list_beq frame_beq (somes ms) got && N.eqb (cnt_in st') n && N.eqb (blen buf) r
  | _ => false
  end.

(* MRP: byte strings given to the protobuf parser, final in-counter, residual buffer length *)
Definition check_mrp_recv (c : tab * option (cipher N) * bytes * list N * list bytes * N * N) : bool :=
  let '(t, st, stream, lens, got, n, r) := c in
  match feeds (mrp_p1 N (tdec t)) st [] (cut lens stream) with
  | Out ms st' buf => outs_beq (somes ms) got && N.eqb (cnt_in st') n && N.eqb (blen buf) r
  | _ => false
  end.

(* Companion header / refusal as a function of the payload size: (tagged, type, size, header on the
   wire or None = refused with OverflowError before anything was written) *)
Definition check_comp_bound (c : bool * N * N * option bytes) : bool :=
  let '(tagged, ft, n, r) := c in
  match comp_header_of_size tagged ft n, r with
  | Ok h, Some h' => bytes_beq h h'
  | Raise OverflowError, None => true
  | _, _ => false
  end.

(* write_variant / read_variant alone *)
Definition check_variant (c : N * bytes) : bool :=
  let '(n, b) := c in
  bytes_beq (write_var n) b &&
  match read_variant (b ++ [7]) with Some (v, r) => N.eqb v n && bytes_beq r [7] | None => false end.
Definition check_read_variant (c : bytes * option (N * N)) : bool :=
  let '(b, r) := c in
  match read_variant b, r with
  | Some (v, rest), Some (v', l) => N.eqb v v' && N.eqb (blen rest) l
  | None, None => true
  | _, _ => false
  end.
