(* C07 - AirPlay 2 audio packets: header ++ ciphertext ++ the eight counter bytes of the nonce
   that was used for THIS packet; associated data = header[4:12]. *)
From Coq Require Import List NArith ZArith Bool Arith Lia ZifyBool.
From PV Require Import Common.Endian Common.Framing Common.Cases
  C07.Model C07.ProofsBase C07.ProofsCipher C07.ProofsHap.
Import ListNotations.
Local Open Scope N_scope.

Lemma lastn_app (n : nat) (a b : bytes) : length b = n -> lastn n (a ++ b) = b.
Proof.
  intro H. unfold lastn. rewrite app_length, H.
  replace (length a + n - n)%nat with (length a) by lia. apply skipn_exact.
Qed.

(* both 8-byte-counter layouts give: four zero bytes, then the counter little endian *)
Lemma nonce8_shape k c n : k = LQ \/ k = Gen 8 -> nonce_of k c = Ok n -> n = zeros 4 ++ le_enc 8 c.
Proof.
  intros [->| ->] H.
  - now apply nonce_of_lq in H.
  - now apply nonce_of_gen in H.
Qed.

Section Ap2.
Variable key : Type.
Variable enc : key -> bytes -> bytes -> bytes -> bytes.
Variable dec : key -> bytes -> bytes -> bytes -> option bytes.

Notation cipher := (cipher key).

Definition ap2_call_ok (m : bytes * bytes) (cl : call) : Prop :=
  c_pt cl = snd m /\ c_aad cl = firstn 8 (skipn 4 (fst m)).

(* shape of one packet and what the call did to the cipher object *)
Lemma ap2_send_spec c header audio pkt st' :
  ap2_send_audio key enc (Some c) header audio = Ok (pkt, st') ->
  exists c' n, st' = Some c' /\ nonce_of (kd c) (cout c) = Ok n /\
    pkt = header ++ enc (kout c) n (firstn 8 (skipn 4 header)) audio ++ lastn 8 n /\
    c' = mkcipher (kd c) (kout c) (kin c) (cout c + 1) (cin c)
                  (olog c ++ [mkcall n (firstn 8 (skipn 4 header)) audio]).
Proof.
  unfold ap2_send_audio. destruct (nonce_of (kd c) (cout c)) as [n|e] eqn:En; [|discriminate].
  destruct (c_encrypt key enc c audio (firstn 8 (skipn 4 header))) as [[ct c']|e] eqn:Ee; [|discriminate].
  intro H. inversion H; subst; clear H.
  apply c_encrypt_spec in Ee as (n' & Hn' & -> & ->).
  assert (n' = n) by congruence. subst n'. eauto 10.
Qed.

Hypothesis dec_enc : forall k n a p, dec k n a (enc k n a p) = Some p.
Hypothesis enc_len : forall k n a p, length (enc k n a p) = (length p + 16)%nat.

Lemma ap2_decodable c header audio pkt st' :
  (kd c = LQ \/ kd c = Gen 8) -> length header = 12%nat ->
  ap2_send_audio key enc (Some c) header audio = Ok (pkt, st') ->
  ap2_peer_decode key dec (kout c) pkt = Some audio.
Proof.
  intros Hk H12 H. destruct (ap2_send_spec _ _ _ _ _ H) as (c' & n & -> & Hn & -> & ->).
  pose proof (nonce8_shape _ _ _ Hk Hn) as ->.
  set (aad := firstn 8 (skipn 4 header)).
  set (ct := enc (kout c) (zeros 4 ++ le_enc 8 (cout c)) aad audio).
  assert (Hl8 : lastn 8 (zeros 4 ++ le_enc 8 (cout c)) = le_enc 8 (cout c)).
  { apply lastn_app. apply le_enc_length. }
  rewrite Hl8. unfold ap2_peer_decode.
  assert (Hct : length ct = (length audio + 16)%nat) by apply enc_len.
  assert (Hlen : Nat.ltb (length (header ++ ct ++ le_enc 8 (cout c))) 36 = false).
  { apply Nat.ltb_ge. rewrite !app_length, le_enc_length. lia. }
  rewrite Hlen.
  rewrite (firstn_exact_n 12 header) by auto.
  rewrite (skipn_exact_n 12 header) by auto.
  rewrite (firstn_exact_n (length (ct ++ le_enc 8 (cout c)) - 8) ct)
    by (rewrite app_length, le_enc_length; lia).
  rewrite app_assoc, lastn_app by apply le_enc_length.
  assert (Ha : skipn 4 header = aad).
  { unfold aad. symmetry. apply firstn_all2. rewrite skipn_length. lia. }
  rewrite Ha. apply dec_enc.
Qed.

Lemma ap2_send_all_spec : forall pkts c outs st',
  (kd c = LQ \/ kd c = Gen 8) -> Forall (fun m => length (fst m) = 12%nat) pkts ->
  ap2_send_all key enc (Some c) pkts = Ok (outs, st') ->
  exists c' L', st' = Some c' /\ same_obj c c' /\
    olog c' = olog c ++ L' /\ Forall2 ap2_call_ok pkts L' /\
    cout c' = cout c + N.of_nat (length pkts) /\
    (forall c0, log_ok c0 c -> log_ok c0 c') /\
    Forall2 (fun m o => ap2_peer_decode key dec (kout c) o = Some (snd m)) pkts outs.
Proof.
  unfold ap2_send_all.
  induction pkts as [|[h a] t IH]; intros c outs st' Hk H12 H.
  - cbn in H. inversion H; subst. exists c, []. rewrite app_nil_r.
    split; [reflexivity|]. split; [apply same_obj_refl|]. split; [reflexivity|].
    split; [constructor|]. split; [cbn; lia|]. split; [auto|constructor].
  - cbn [send_all fst snd] in H. inversion H12 as [|? ? Hh Ht]; subst. cbn [fst] in Hh.
    destruct (ap2_send_audio key enc (Some c) h a) as [[o st1]|e] eqn:E1; [|discriminate].
    pose proof (ap2_decodable _ _ _ _ _ Hk Hh E1) as Hd.
    destruct (ap2_send_spec _ _ _ _ _ E1) as (c1 & n & -> & Hn & Ho & Hc1).
    match type of H with match ?x with _ => _ end = _ => destruct x as [[os st2]|e] eqn:E2; [|discriminate] end.
    inversion H; subst st' outs; clear H.
    assert (Hk1 : kd c1 = LQ \/ kd c1 = Gen 8) by (rewrite Hc1; exact Hk).
    destruct (IH _ _ _ Hk1 Ht E2) as (c2 & L2 & -> & S2 & O2 & F2 & C2 & K2 & D2).
    exists c2, (mkcall n (firstn 8 (skipn 4 h)) a :: L2).
    split; [reflexivity|].
    split. { destruct S2 as (A & B & C). rewrite Hc1 in A, B, C. cbn in A, B, C. repeat split; assumption. }
    split. { rewrite O2, Hc1. cbn [olog]. now rewrite <- app_assoc. }
    split. { constructor; [split; reflexivity|exact F2]. }
    split. { rewrite C2, Hc1. cbn [cout length]. lia. }
    split.
    { intros c0 H0. apply K2. rewrite Hc1. destruct H0 as [H1 H2]. split; cbn [cout olog kd].
      - rewrite app_length. cbn [length]. lia.
      - apply log_from_snoc; [exact H2|]. cbn [c_nonce]. rewrite <- H1. exact Hn. }
    constructor; [exact Hd|].
    replace (kout c) with (kout c1) by (rewrite Hc1; reflexivity). exact D2.
Qed.

End Ap2.

(* whatever packet the receiver accepts carries audio bytes the sender encrypted, with the
   timestamp/ssrc bytes it was sent under and the sender's nonce *)
Lemma ap2_tamper {key} (dec : key -> bytes -> bytes -> bytes -> option bytes) k L pkt a :
  ideal_auth dec k L -> ap2_peer_decode key dec k pkt = Some a ->
  In (mkcall (zeros 4 ++ lastn 8 pkt) (skipn 4 (firstn 12 pkt)) a) L.
Proof.
  intros Hauth. unfold ap2_peer_decode. destruct (Nat.ltb (length pkt) 36); [discriminate|].
  apply Hauth.
Qed.
