(* C07 - Companion frames: header as associated data, encryption only for non-empty payloads,
   round trip for every segmentation, and what an arbitrary byte stream can make the receiver
   deliver. *)
From Coq Require Import List NArith ZArith Bool Arith Lia ZifyBool.
From PV Require Import Common.Endian Common.Framing Common.Cases
  C07.Model C07.ProofsBase C07.ProofsCipher C07.ProofsHap.
Import ListNotations.
Local Open Scope N_scope.

(* subsequence *)
Inductive Sub {A : Type} : list A -> list A -> Prop :=
| Sub_nil l : Sub [] l
| Sub_skip x a l : Sub a l -> Sub a (x :: l)
| Sub_take x a l : Sub a l -> Sub (x :: a) (x :: l).

Lemma Sub_skipn_S {A} (a : list A) : forall l j, Sub a (skipn (S j) l) -> Sub a (skipn j l).
Proof.
  induction l as [|x t IH]; intros j H.
  - now rewrite skipn_nil in *.
  - destruct j as [|j]; [cbn in *; now constructor|]. cbn [skipn] in *. now apply IH.
Qed.

Lemma Sub_refl {A} (l : list A) : Sub l l.
Proof. induction l; [apply Sub_nil | now apply Sub_take]. Qed.

Lemma Sub_length {A} (a l : list A) : Sub a l -> (length a <= length l)%nat.
Proof. induction 1; simpl; lia. Qed.

Lemma Sub_in {A} (a l : list A) : Sub a l -> forall x, In x a -> In x l.
Proof. induction 1; intros y Hy; simpl in *; intuition. Qed.

Definition frame_of_call (cl : call) : N * bytes := (hd 0 (c_aad cl), c_pt cl).
Definition has_payload (fr : N * bytes) : bool := nonempty (snd fr).

Section Comp.
Variable key : Type.
Variable enc : key -> bytes -> bytes -> bytes -> bytes.
Variable dec : key -> bytes -> bytes -> bytes -> option bytes.
Variable known : list N.

Notation cipher := (cipher key).
Notation comp_p1 := (comp_p1 key dec known).
Notation comp_handle := (comp_handle key dec known).

Definition deliv (fr : N * bytes) : option (N * bytes) :=
  if existsb (N.eqb (fst fr)) known then Some fr else None.

Lemma comp_deliver_deliv ft lb p : comp_deliver known (ft :: lb) p = deliv (ft, p).
Proof. reflexivity. Qed.

(* ------------------------------------------------------------------ parser laws *)
Lemma comp_handle_app c h p r y :
  comp_handle c h p (r ++ y) = match comp_handle c h p r with
                               | Frame m c' r' => Frame m c' (r' ++ y)
                               | other => other
                               end.
Proof.
  unfold Model.comp_handle. destruct c as [ci|]; [|reflexivity].
  destruct (nonempty p); [|reflexivity].
  destruct (c_decrypt key dec ci p h) as [[[q|] c1]|e]; reflexivity.
Qed.

Lemma comp_handle_frame c h p r : exists m c', comp_handle c h p r = Frame m c' r.
Proof.
  unfold Model.comp_handle. destruct c as [ci|]; [|eauto].
  destruct (nonempty p); [|eauto].
  destruct (c_decrypt key dec ci p h) as [[[q|] c1]|e]; eauto.
Qed.

Lemma comp_handle_rest c h p r0 m c' r : comp_handle c h p r0 = Frame m c' r -> r = r0.
Proof. destruct (comp_handle_frame c h p r0) as (m' & c'' & E). rewrite E. congruence. Qed.

Lemma comp_p1_frame_inv c x m c' r : comp_p1 c x = Frame m c' r ->
  exists h p, comp_handle c h p r = Frame m c' r.
Proof.
  unfold Model.comp_p1. cbv zeta.
  destruct (Nat.ltb _ _); [discriminate|]. destruct (_ <? _); [discriminate|].
  intro H. pose proof (comp_handle_rest _ _ _ _ _ _ _ H) as ->. eauto.
Qed.

Lemma comp_p1_app c x y : (4 <= length x)%nat -> 4 + be_dec (firstn 3 (skipn 1 x)) <= blen x ->
  comp_p1 c (x ++ y) = match comp_p1 c x with
                       | Frame m c' r => Frame m c' (r ++ y)
                       | other => other
                       end.
Proof.
  intros H4 Hl. unfold Model.comp_p1, HEADER_LENGTH. cbv zeta.
  assert (E1 : Nat.ltb (length (x ++ y)) 4 = false) by (apply Nat.ltb_ge; rewrite app_length; lia).
  assert (E2 : Nat.ltb (length x) 4 = false) by (apply Nat.ltb_ge; lia).
  rewrite E1, E2.
  rewrite (skipn_app_le 1 x y) by lia.
  rewrite (firstn_app_le 3 (skipn 1 x) y) by (rewrite skipn_length; lia).
  set (pl := N.of_nat 4 + be_dec (firstn 3 (skipn 1 x))) in *.
  assert (E3 : (blen (x ++ y) <? pl) = false) by (apply N.ltb_ge; rewrite blen_app; unfold pl; lia).
  assert (E4 : (blen x <? pl) = false) by (apply N.ltb_ge; unfold pl; lia).
  rewrite E3, E4.
  assert (Hp : (N.to_nat pl <= length x)%nat) by (unfold blen, pl in *; lia).
  rewrite (firstn_app_le 4 x y H4), (skipn_app_le 4 x y H4).
  rewrite (firstn_app_le (N.to_nat pl - 4) (skipn 4 x) y) by (rewrite skipn_length; lia).
  rewrite (skipn_app_le (N.to_nat pl) x y Hp).
  apply comp_handle_app.
Qed.

Lemma comp_p1_inv c x : comp_p1 c x <> Need ->
  (4 <= length x)%nat /\ 4 + be_dec (firstn 3 (skipn 1 x)) <= blen x /\
  exists m c', comp_p1 c x = Frame m c' (skipn (N.to_nat (4 + be_dec (firstn 3 (skipn 1 x)))) x).
Proof.
  unfold Model.comp_p1, HEADER_LENGTH. cbv zeta. intro H.
  destruct (Nat.ltb (length x) 4) eqn:E1; [congruence|]. apply Nat.ltb_ge in E1.
  change (N.of_nat 4) with 4 in *.
  destruct (blen x <? 4 + be_dec (firstn 3 (skipn 1 x))) eqn:E2; [congruence|]. apply N.ltb_ge in E2.
  split; [exact E1|]. split; [exact E2|]. apply comp_handle_frame.
Qed.

Lemma comp_never_fails c x e : comp_p1 c x <> Fail e.
Proof.
  destruct (comp_p1 c x) eqn:E; try discriminate.
  assert (Hn : comp_p1 c x <> Need) by congruence.
  destruct (comp_p1_inv c x Hn) as (_ & _ & m & c' & H). congruence.
Qed.

Lemma comp_stable : forall s x m s' r y, comp_p1 s x = Frame m s' r -> comp_p1 s (x ++ y) = Frame m s' (r ++ y).
Proof.
  intros s x m s' r y H. assert (Hn : comp_p1 s x <> Need) by congruence.
  destruct (comp_p1_inv s x Hn) as (H4 & Hl & _). rewrite comp_p1_app by assumption. now rewrite H.
Qed.

Lemma comp_progress : forall s x m s' r, comp_p1 s x = Frame m s' r -> (length r < length x)%nat.
Proof.
  intros s x m s' r H. assert (Hn : comp_p1 s x <> Need) by congruence.
  destruct (comp_p1_inv s x Hn) as (H4 & Hl & m' & c' & H'). rewrite H in H'.
  assert (Hr : r = skipn (N.to_nat (4 + be_dec (firstn 3 (skipn 1 x)))) x) by congruence.
  rewrite Hr, skipn_length. unfold blen in Hl. lia.
Qed.

Lemma comp_failpfx : forall s x y e, comp_p1 s x = Fail e -> exists e', comp_p1 s (x ++ y) = Fail e'.
Proof. intros s x y e H. now apply comp_never_fails in H. Qed.

Lemma comp_drain_never_fails : forall fuel c buf ms e, drain comp_p1 fuel c buf <> Failed ms e.
Proof.
  induction fuel as [|f IH]; intros c buf ms e.
  - cbn. destruct buf; discriminate.
  - cbn [Framing.drain]. destruct buf as [|b t]; [discriminate|].
    destruct (comp_p1 c (b :: t)) as [|e'|m c' r] eqn:E; [discriminate| |].
    + now apply comp_never_fails in E.
    + specialize (IH c' r). destruct (drain comp_p1 f c' r); try discriminate.
      intro H. inversion H; subst. eapply IH; eauto.
Qed.

Lemma comp_p1_exact c ft lb body rest : length lb = 3%nat -> be_dec lb = blen body ->
  comp_p1 c (ft :: lb ++ body ++ rest) = comp_handle c (ft :: lb) body rest.
Proof.
  intros H3 Hb. unfold Model.comp_p1, HEADER_LENGTH. cbv zeta.
  assert (E1 : Nat.ltb (length (ft :: lb ++ body ++ rest)) 4 = false).
  { apply Nat.ltb_ge. cbn [length]. rewrite app_length. lia. }
  rewrite E1. change (skipn 1 (ft :: lb ++ body ++ rest)) with (lb ++ body ++ rest).
  rewrite (firstn_exact_n 3 lb (body ++ rest)) by auto. rewrite Hb.
  assert (E2 : (blen (ft :: lb ++ body ++ rest) <? N.of_nat 4 + blen body) = false).
  { apply N.ltb_ge. unfold blen. cbn [length]. rewrite !app_length. lia. }
  rewrite E2.
  change (firstn 4 (ft :: lb ++ body ++ rest)) with (ft :: firstn 3 (lb ++ body ++ rest)).
  change (skipn 4 (ft :: lb ++ body ++ rest)) with (skipn 3 (lb ++ body ++ rest)).
  rewrite (firstn_exact_n 3 lb (body ++ rest)) by auto.
  rewrite (skipn_exact_n 3 lb (body ++ rest)) by auto.
  rewrite (firstn_exact_n (N.to_nat (N.of_nat 4 + blen body) - 4) body rest) by (unfold blen; lia).
  f_equal.
  change (ft :: lb ++ body ++ rest) with ((ft :: lb) ++ body ++ rest).
  rewrite app_assoc. apply skipn_exact_n. rewrite app_length. cbn [length]. unfold blen. lia.
Qed.

(* ------------------------------------------------------------------ sender *)
Definition comp_call_ok (fr : N * bytes) (cl : call) : Prop :=
  c_pt cl = snd fr /\ c_aad cl = fst fr :: be_enc 3 (blen (snd fr) + 16) /\ snd fr <> [].

Lemma comp_send_log c ft data out st' :
  comp_send key enc (Some c) ft data = Ok (out, st') ->
  exists c', st' = Some c' /\ same_obj c c' /\ cin c' = cin c /\
    (forall c0, log_ok c0 c -> log_ok c0 c') /\
    ((data = [] /\ c' = c /\ out = ft :: be_enc 3 0) \/
     (data <> [] /\ exists cl, olog c' = olog c ++ [cl] /\ comp_call_ok (ft, data) cl /\
        out = c_aad cl ++ enc (kout c) (c_nonce cl) (c_aad cl) data)).
Proof.
  unfold comp_send, AUTH_TAG_LENGTH. destruct (nonempty data) eqn:En.
  - destruct (to_bytes_be 3 (blen data + 16)) as [lb|e] eqn:Elb; [|discriminate].
    destruct (c_encrypt key enc c data (ft :: lb)) as [[ct c']|e] eqn:Ee; [|discriminate].
    intro H. inversion H; subst; clear H. exists c'.
    pose proof (c_encrypt_log_ok key enc dec) as Hok.
    pose proof Ee as Ee'. apply c_encrypt_spec in Ee as (n & Hn & -> & ->).
    apply to_bytes_be_ok in Elb as [_ ->]. apply nonempty_true in En.
    split; [reflexivity|]. split; [repeat split|]. split; [reflexivity|].
    split; [intros c0 H0; eapply Hok; eauto|].
    right. split; [exact En|]. eexists. split; [reflexivity|]. cbn. repeat split; auto.
  - apply nonempty_false in En. subst data. cbn [blen length N.of_nat N.add].
    destruct (to_bytes_be 3 0) as [lb|e] eqn:Elb; [|discriminate].
    apply to_bytes_be_ok in Elb as [_ ->].
    intro H. inversion H; subst; clear H. exists c.
    split; [reflexivity|]. split; [apply same_obj_refl|]. split; [reflexivity|]. split; [auto|].
    left. split; [reflexivity|]. split; reflexivity.
Qed.

Lemma comp_send_all_log : forall frames c outs st',
  comp_send_all key enc (Some c) frames = Ok (outs, st') ->
  exists c' L', st' = Some c' /\ same_obj c c' /\ cin c' = cin c /\
    olog c' = olog c ++ L' /\
    Forall2 comp_call_ok (filter has_payload frames) L' /\
    (forall c0, log_ok c0 c -> log_ok c0 c').
Proof.
  unfold comp_send_all.
  induction frames as [|[ft d] t IH]; intros c outs st' H.
  - cbn in H. inversion H; subst. exists c, []. rewrite app_nil_r.
    split; [reflexivity|]. split; [apply same_obj_refl|]. split; [reflexivity|].
    split; [reflexivity|]. split; [constructor|auto].
  - cbn [send_all fst snd] in H.
    destruct (comp_send key enc (Some c) ft d) as [[o st1]|e] eqn:E1; [|discriminate].
    destruct (comp_send_log _ _ _ _ _ E1) as (c1 & -> & S1 & I1 & K1 & D1).
    destruct (send_all key _ (Some c1) t) as [[os st2]|e] eqn:E2; [|discriminate].
    inversion H; subst; clear H.
    destruct (IH _ _ _ E2) as (c2 & L2 & -> & S2 & I2 & O2 & F2 & K2).
    destruct D1 as [(-> & -> & _)|(Hne & cl & O1 & C1 & _)].
    + exists c2, L2. cbn [filter has_payload snd nonempty].
      split; [reflexivity|]. split; [exact S2|]. split; [exact I2|]. split; [exact O2|]. split; [exact F2|exact K2].
    + exists c2, (cl :: L2). assert (Hp : has_payload (ft, d) = true) by (now apply nonempty_true).
      cbn [filter]. rewrite Hp.
      split; [reflexivity|]. split; [eapply same_obj_trans; eauto|]. split; [congruence|].
      split; [rewrite O2, O1; now rewrite <- app_assoc|]. split; [constructor; auto|auto].
Qed.

(* ------------------------------------------------------------------ lock step *)
Definition osync (cs cr : option cipher) : Prop :=
  match cs, cr with
  | Some a, Some b => sync key a b
  | None, None => True
  | _, _ => False
  end.

Hypothesis dec_enc : forall k n a p, dec k n a (enc k n a p) = Some p.
Hypothesis enc_len : forall k n a p, length (enc k n a p) = (length p + 16)%nat.

Lemma comp_honest1 cs ft data out cs' cr rest :
  comp_send key enc cs ft data = Ok (out, cs') -> osync cs cr ->
  exists cr', comp_p1 cr (out ++ rest) = Frame (deliv (ft, data)) cr' rest /\ osync cs' cr'.
Proof.
  unfold comp_send, AUTH_TAG_LENGTH. intros H Hs.
  destruct cs as [ci|]; destruct cr as [cri|]; try contradiction.
  - destruct (nonempty data) eqn:En.
    + destruct (to_bytes_be 3 (blen data + 16)) as [lb|e] eqn:Elb; [|discriminate].
      destruct (c_encrypt key enc ci data (ft :: lb)) as [[ct ci']|e] eqn:Ee; [|discriminate].
      inversion H; subst; clear H.
      apply to_bytes_be_ok in Elb as [Hlt ->].
      apply c_encrypt_spec in Ee as (n & Hn & -> & ->).
      destruct Hs as (K1 & K2 & K3).
      exists (Some (adv key cri 1)). split.
      * change ((ft :: be_enc 3 (blen data + 16)) ++ enc (kout ci) n (ft :: be_enc 3 (blen data + 16)) data)
          with (ft :: be_enc 3 (blen data + 16) ++ enc (kout ci) n (ft :: be_enc 3 (blen data + 16)) data).
        cbn [app]. rewrite <- app_assoc.
        rewrite comp_p1_exact.
        -- unfold Model.comp_handle.
           assert (Hne : nonempty (enc (kout ci) n (ft :: be_enc 3 (blen data + 16)) data) = true).
           { apply nonempty_true. intro Hc. apply (f_equal (@length N)) in Hc. rewrite enc_len in Hc.
             simpl in Hc. lia. }
           rewrite Hne.
           assert (Hn' : nonce_of (kd cri) (cin cri) = Ok n) by (rewrite <- K1, <- K3; exact Hn).
           unfold c_decrypt. rewrite Hn', K2, dec_enc. reflexivity.
        -- apply be_enc_length.
        -- rewrite be_dec_enc by exact Hlt. unfold blen. rewrite enc_len. lia.
      * cbn. unfold sync, adv. cbn. repeat split; congruence.
    + apply nonempty_false in En. subst data. cbn [blen length N.of_nat N.add] in H.
      destruct (to_bytes_be 3 0) as [lb|e] eqn:Elb; [|discriminate].
      apply to_bytes_be_ok in Elb as [Hlt ->]. inversion H; subst; clear H.
      exists (Some cri). split; [|exact Hs].
      change (comp_p1 (Some cri) (ft :: be_enc 3 0 ++ [] ++ rest) = Frame (deliv (ft, [])) (Some cri) rest).
      rewrite comp_p1_exact; [reflexivity|apply be_enc_length|reflexivity].
  - destruct (to_bytes_be 3 (blen data + 0)) as [lb|e] eqn:Elb; [|discriminate].
    apply to_bytes_be_ok in Elb as [Hlt ->]. inversion H; subst; clear H.
    exists None. split; [|exact I].
    change (comp_p1 None (ft :: be_enc 3 (blen data + 0) ++ data ++ rest) = Frame (deliv (ft, data)) None rest).
    rewrite comp_p1_exact; [reflexivity|apply be_enc_length|].
    rewrite be_dec_enc by exact Hlt. lia.
Qed.

Lemma comp_honest : forall frames cs outs cs' cr,
  comp_send_all key enc cs frames = Ok (outs, cs') -> osync cs cr ->
  exists cr', run comp_p1 cr (concat outs) = Out (map deliv frames) cr' [] /\ osync cs' cr'.
Proof.
  unfold comp_send_all.
  induction frames as [|[ft d] t IH]; intros cs outs cs' cr H Hs.
  - cbn in H. inversion H; subst. exists cr. split; [reflexivity|exact Hs].
  - cbn [send_all fst snd] in H.
    destruct (comp_send key enc cs ft d) as [[o st1]|e] eqn:E1; [|discriminate].
    destruct (send_all key _ st1 t) as [[os st2]|e] eqn:E2; [|discriminate].
    inversion H; subst; clear H.
    destruct (comp_honest1 _ _ _ _ _ cr (concat os) E1 Hs) as (cr1 & Hp & Hs1).
    destruct (IH _ _ _ cr1 E2 Hs1) as (cr2 & R & Hs2).
    exists cr2. split; [|exact Hs2]. cbn [concat map].
    assert (Hne : o ++ concat os <> []).
    { intro Hc. rewrite Hc in Hp. unfold Model.comp_p1 in Hp. cbn in Hp. discriminate. }
    rewrite (run_frame _ _ _ comp_p1 comp_progress _ _ _ _ _ Hne Hp). now rewrite R.
Qed.

Lemma somes_deliv_known frames :
  Forall (fun fr => existsb (N.eqb (fst fr)) known = true) frames -> somes (map deliv frames) = frames.
Proof.
  induction 1 as [|fr t Hk _ IH]; [reflexivity|].
  cbn [map]. unfold deliv at 1. rewrite Hk. cbn [somes]. now rewrite IH.
Qed.

Lemma comp_roundtrip : forall frames cs outs cs' cr chunks,
  comp_send_all key enc cs frames = Ok (outs, cs') -> osync cs cr ->
  concat chunks = concat outs ->
  exists cr', feeds comp_p1 cr [] chunks = Out (map deliv frames) cr' [] /\ osync cs' cr'.
Proof.
  intros frames cs outs cs' cr chunks Hsend Hs Hc.
  destruct (comp_honest _ _ _ _ cr Hsend Hs) as (cr' & R & Hs').
  exists cr'. split; [|exact Hs'].
  rewrite (feed_chunks N (option cipher) (option (N * bytes)) exn comp_p1
             comp_stable comp_progress comp_failpfx).
  - cbn [app]. now rewrite Hc.
  - reflexivity.
  - intros ms e. apply comp_drain_never_fails.
Qed.

End Comp.

(* ------------------------------------------------------------------ arbitrary input *)
Section CompTamper.
Variable key : Type.
Variable enc : key -> bytes -> bytes -> bytes -> bytes.
Variable dec : key -> bytes -> bytes -> bytes -> option bytes.
Variable known : list N.
Variables (k0 : ckind) (k : key) (c0 : N) (L : list call).
Hypothesis HL : log_from k0 c0 L.
Hypothesis Hauth : ideal_auth dec k L.

Notation comp_p1 := (comp_p1 key dec known).
Let F := map frame_of_call L.

(* the frames with a non-empty payload that reached the listener *)
Definition authd (ms : list (option (N * bytes))) : list (N * bytes) := filter has_payload (somes ms).

Lemma comp_handle_auth ci j h p r m c' : at_pos k0 k c0 ci j ->
  comp_handle key dec known (Some ci) h p r = Frame m c' r ->
  exists ci', c' = Some ci' /\
    ((at_pos k0 k c0 ci' j /\ authd [m] = []) \/
     (at_pos k0 k c0 ci' (S j) /\ authd [m] = []) \/
     (at_pos k0 k c0 ci' (S j) /\ exists fr, authd [m] = [fr] /\ nth_error F j = Some fr)).
Proof.
  intros Hp. unfold comp_handle. destruct (nonempty p) eqn:Ene.
  - destruct (c_decrypt key dec ci p h) as [[[q|] c1]|e] eqn:Ed; intro H.
    + assert (m = comp_deliver known h q /\ c' = Some c1) as [-> ->] by (split; congruence).
      destruct (decrypt_auth key dec k0 k c0 L HL Hauth _ _ _ _ _ _ Hp Ed) as [[n Hn] Hp'].
      exists c1. split; [reflexivity|].
      unfold comp_deliver. destruct (existsb (N.eqb (hd 0 h)) known).
      * destruct (nonempty q) eqn:Eq.
        -- right. right. split; [exact Hp'|]. exists (hd 0 h, q). split.
           ++ unfold authd. cbn [somes filter]. unfold has_payload. cbn [snd]. now rewrite Eq.
           ++ unfold F. rewrite nth_error_map, Hn. reflexivity.
        -- right. left. split; [exact Hp'|].
           unfold authd. cbn [somes filter]. unfold has_payload. cbn [snd]. now rewrite Eq.
      * right. left. split; [exact Hp'|reflexivity].
    + assert (m = None /\ c' = Some c1) as [-> ->] by (split; congruence).
      exists c1. split; [reflexivity|]. right. left. split; [|reflexivity].
      eapply decrypt_any; eauto.
    + assert (m = None /\ c' = Some ci) as [-> ->] by (split; congruence).
      exists ci. split; [reflexivity|]. left. split; [exact Hp|reflexivity].
  - intro H. assert (m = comp_deliver known h p /\ c' = Some ci) as [-> ->] by (split; congruence).
    exists ci. split; [reflexivity|]. left. split; [exact Hp|].
    unfold comp_deliver, authd. destruct (existsb (N.eqb (hd 0 h)) known); [|reflexivity].
    cbn [somes filter]. unfold has_payload. cbn [snd]. now rewrite Ene.
Qed.

Lemma authd_cons m ms : authd (m :: ms) = authd [m] ++ authd ms.
Proof. unfold authd. destruct m; cbn [somes]; [|reflexivity]. cbn [filter]. destruct (has_payload p); reflexivity. Qed.

Lemma comp_drain_auth : forall fuel ci buf j, at_pos k0 k c0 ci j ->
  match drain comp_p1 fuel (Some ci) buf with
  | Out ms _ _ => Sub (authd ms) (skipn j F)
  | Failed _ _ => False
  | OutOfFuel => True
  end.
Proof.
  induction fuel as [|fuel IH]; intros ci buf j Hp.
  - cbn. destruct buf; [constructor|exact I].
  - cbn [Framing.drain]. destruct buf as [|b t]; [constructor|].
    destruct (comp_p1 (Some ci) (b :: t)) as [|e|m c' rest] eqn:Ep.
    + constructor.
    + now apply comp_never_fails in Ep.
    + destruct (comp_p1_frame_inv key dec known _ _ _ _ _ Ep) as (h & p & Hh).
      destruct (comp_handle_auth _ _ _ _ _ _ _ Hp Hh) as (ci' & -> & D).
      destruct D as [(Hp' & Ea)|[(Hp' & Ea)|(Hp' & fr & Ea & Hnth)]].
      * specialize (IH ci' rest j Hp').
        destruct (drain comp_p1 fuel (Some ci') rest); auto.
        rewrite authd_cons, Ea. exact IH.
      * specialize (IH ci' rest (S j) Hp').
        destruct (drain comp_p1 fuel (Some ci') rest); auto.
        rewrite authd_cons, Ea. apply Sub_skipn_S. exact IH.
      * specialize (IH ci' rest (S j) Hp').
        destruct (drain comp_p1 fuel (Some ci') rest); auto.
        rewrite authd_cons, Ea. rewrite (nth_skipn_cons _ _ _ Hnth). cbn [app].
        apply Sub_take. exact IH.
Qed.

(* Whatever bytes arrive, in whatever pieces, on an encrypted connection: the frames WITH A
   PAYLOAD handed to the listener are, in order, frames the sender encrypted - same type
   byte, same payload. *)
Lemma comp_tamper : forall chunks ci, at_pos k0 k c0 ci 0 ->
  exists ms c' r, feeds comp_p1 (Some ci) [] chunks = Out ms c' r /\ Sub (authd ms) F.
Proof.
  intros chunks ci Hp.
  rewrite (feed_chunks N (option (cipher key)) (option (N * bytes)) exn comp_p1
             (comp_stable key enc dec known) (comp_progress key enc dec known) (comp_failpfx key dec known)).
  - cbn [app]. pose proof (comp_drain_auth (length (concat chunks)) ci (concat chunks) 0 Hp) as D.
    unfold run. destruct (drain comp_p1 _ (Some ci) (concat chunks)) as [ms c' r| |] eqn:E.
    + exists ms, c', r. split; [reflexivity|exact D].
    + contradiction.
    + exfalso. revert E. apply (drain_fuel N _ _ exn comp_p1 (comp_progress key enc dec known)). lia.
  - reflexivity.
  - intros ms e. apply comp_drain_never_fails.
Qed.

End CompTamper.
