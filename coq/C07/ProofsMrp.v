(* C07 - MRP messages: varint length + AEAD of the serialized message (no associated data),
   round trip for every segmentation, arbitrary input. *)
From Coq Require Import List NArith ZArith Bool Arith Lia ZifyBool.
From PV Require Import Common.Endian Common.Framing Common.Cases
  C07.Model C07.ProofsBase C07.ProofsCipher C07.ProofsHap C07.ProofsComp.
Import ListNotations.
Local Open Scope N_scope.

Section Mrp.
Variable key : Type.
Variable enc : key -> bytes -> bytes -> bytes -> bytes.
Variable dec : key -> bytes -> bytes -> bytes -> option bytes.

Notation cipher := (cipher key).
Notation mrp_p1 := (mrp_p1 key dec).
Notation mrp_handle := (mrp_handle key dec).

Lemma mrp_handle_app c d r y :
  mrp_handle c d (r ++ y) = match mrp_handle c d r with
                            | Frame m c' r' => Frame m c' (r' ++ y)
                            | other => other
                            end.
Proof.
  unfold Model.mrp_handle. destruct c as [ci|]; [|reflexivity].
  destruct (c_decrypt key dec ci d []) as [[[q|] c1]|e]; reflexivity.
Qed.

Lemma mrp_handle_frame c d r : exists m c', mrp_handle c d r = Frame m c' r.
Proof.
  unfold Model.mrp_handle. destruct c as [ci|]; [|eauto].
  destruct (c_decrypt key dec ci d []) as [[[q|] c1]|e]; eauto.
Qed.

Lemma mrp_handle_rest c d r0 m c' r : mrp_handle c d r0 = Frame m c' r -> r = r0.
Proof. destruct (mrp_handle_frame c d r0) as (m' & c'' & E). rewrite E. congruence. Qed.

Lemma mrp_p1_inv c x : mrp_p1 c x <> Need ->
  exists n raw, read_variant x = Some (n, raw) /\ n <= blen raw /\
                exists m c', mrp_p1 c x = Frame m c' (skipn (N.to_nat n) raw).
Proof.
  unfold Model.mrp_p1. destruct (read_variant x) as [[n raw]|]; [|congruence].
  destruct (blen raw <? n) eqn:E; [congruence|]. apply N.ltb_ge in E. intros _.
  exists n, raw. split; [reflexivity|]. split; [exact E|]. apply mrp_handle_frame.
Qed.

Lemma mrp_p1_frame_inv c x m c' r : mrp_p1 c x = Frame m c' r ->
  exists d, mrp_handle c d r = Frame m c' r.
Proof.
  unfold Model.mrp_p1. destruct (read_variant x) as [[n raw]|]; [|discriminate].
  destruct (blen raw <? n); [discriminate|].
  intro H. pose proof (mrp_handle_rest _ _ _ _ _ _ H) as ->. eauto.
Qed.

Lemma mrp_p1_app c x y n raw : read_variant x = Some (n, raw) -> n <= blen raw ->
  mrp_p1 c (x ++ y) = match mrp_p1 c x with
                      | Frame m c' r => Frame m c' (r ++ y)
                      | other => other
                      end.
Proof.
  intros Hr Hn. unfold Model.mrp_p1. rewrite (read_variant_app _ y _ _ Hr), Hr.
  assert (E1 : (blen (raw ++ y) <? n) = false) by (apply N.ltb_ge; rewrite blen_app; lia).
  assert (E2 : (blen raw <? n) = false) by (apply N.ltb_ge; lia).
  rewrite E1, E2.
  rewrite (firstn_app_le (N.to_nat n) raw y) by (unfold blen in Hn; lia).
  rewrite (skipn_app_le (N.to_nat n) raw y) by (unfold blen in Hn; lia).
  apply mrp_handle_app.
Qed.

Lemma mrp_never_fails c x e : mrp_p1 c x <> Fail e.
Proof.
  destruct (mrp_p1 c x) eqn:E; try discriminate.
  assert (Hn : mrp_p1 c x <> Need) by congruence.
  destruct (mrp_p1_inv c x Hn) as (n & raw & _ & _ & m & c' & H). congruence.
Qed.

Lemma mrp_stable : forall s x m s' r y, mrp_p1 s x = Frame m s' r -> mrp_p1 s (x ++ y) = Frame m s' (r ++ y).
Proof.
  intros s x m s' r y H. assert (Hn : mrp_p1 s x <> Need) by congruence.
  destruct (mrp_p1_inv s x Hn) as (n & raw & Hr & Hl & _).
  rewrite (mrp_p1_app s x y n raw Hr Hl). now rewrite H.
Qed.

Lemma mrp_progress : forall s x m s' r, mrp_p1 s x = Frame m s' r -> (length r < length x)%nat.
Proof.
  intros s x m s' r H. assert (Hn : mrp_p1 s x <> Need) by congruence.
  destruct (mrp_p1_inv s x Hn) as (n & raw & Hr & Hl & m' & c' & H'). rewrite H in H'.
  assert (E : r = skipn (N.to_nat n) raw) by congruence.
  apply read_variant_shorter in Hr. rewrite E, skipn_length. lia.
Qed.

Lemma mrp_failpfx : forall s x y e, mrp_p1 s x = Fail e -> exists e', mrp_p1 s (x ++ y) = Fail e'.
Proof. intros s x y e H. now apply mrp_never_fails in H. Qed.

Lemma mrp_drain_never_fails : forall fuel c buf ms e, drain mrp_p1 fuel c buf <> Failed ms e.
Proof.
  induction fuel as [|f IH]; intros c buf ms e.
  - cbn. destruct buf; discriminate.
  - cbn [Framing.drain]. destruct buf as [|b t]; [discriminate|].
    destruct (mrp_p1 c (b :: t)) as [|e'|m c' r] eqn:E; [discriminate| |].
    + now apply mrp_never_fails in E.
    + specialize (IH c' r). destruct (drain mrp_p1 f c' r); try discriminate.
      intro H. inversion H; subst. eapply IH; eauto.
Qed.

Lemma mrp_p1_exact c body rest :
  mrp_p1 c (write_var (blen body) ++ body ++ rest) = mrp_handle c body rest.
Proof.
  unfold Model.mrp_p1. rewrite read_write_var.
  assert (E : (blen (body ++ rest) <? blen body) = false) by (apply N.ltb_ge; rewrite blen_app; lia).
  rewrite E. unfold blen. rewrite Nat2N.id. now rewrite firstn_exact, skipn_exact.
Qed.

(* ------------------------------------------------------------------ sender *)
Definition mrp_call_ok (d : bytes) (cl : call) : Prop := c_pt cl = d /\ c_aad cl = [].

Lemma mrp_send_log c data out st' :
  mrp_send key enc (Some c) data = Ok (out, st') ->
  exists c' cl, st' = Some c' /\ same_obj c c' /\ cin c' = cin c /\
    olog c' = olog c ++ [cl] /\ mrp_call_ok data cl /\
    out = write_var (blen (enc (kout c) (c_nonce cl) [] data)) ++ enc (kout c) (c_nonce cl) [] data /\
    (forall c0, log_ok c0 c -> log_ok c0 c').
Proof.
  unfold mrp_send. destruct (c_encrypt key enc c data []) as [[ct c']|e] eqn:Ee; [|discriminate].
  intro H. inversion H; subst; clear H.
  pose proof (c_encrypt_log_ok key enc dec) as Hok. pose proof Ee as Ee'.
  apply c_encrypt_spec in Ee as (n & Hn & -> & ->).
  eexists. eexists. split; [reflexivity|]. split; [repeat split|]. split; [reflexivity|].
  split; [reflexivity|]. split; [split; reflexivity|]. split; [reflexivity|].
  intros c0 H0. eapply Hok; eauto.
Qed.

Lemma mrp_send_all_log : forall msgs c outs st',
  mrp_send_all key enc (Some c) msgs = Ok (outs, st') ->
  exists c' L', st' = Some c' /\ same_obj c c' /\ cin c' = cin c /\
    olog c' = olog c ++ L' /\ Forall2 mrp_call_ok msgs L' /\
    (forall c0, log_ok c0 c -> log_ok c0 c').
Proof.
  unfold mrp_send_all.
  induction msgs as [|d t IH]; intros c outs st' H.
  - cbn in H. inversion H; subst. exists c, []. rewrite app_nil_r.
    split; [reflexivity|]. split; [apply same_obj_refl|]. split; [reflexivity|].
    split; [reflexivity|]. split; [constructor|auto].
  - cbn [send_all] in H.
    destruct (mrp_send key enc (Some c) d) as [[o st1]|e] eqn:E1; [|discriminate].
    destruct (mrp_send_log _ _ _ _ E1) as (c1 & cl & -> & S1 & I1 & O1 & C1 & _ & K1).
    destruct (send_all key _ (Some c1) t) as [[os st2]|e] eqn:E2; [|discriminate].
    inversion H; subst; clear H.
    destruct (IH _ _ _ E2) as (c2 & L2 & -> & S2 & I2 & O2 & F2 & K2).
    exists c2, (cl :: L2).
    split; [reflexivity|]. split; [eapply same_obj_trans; eauto|]. split; [congruence|].
    split; [rewrite O2, O1; now rewrite <- app_assoc|]. split; [constructor; auto|auto].
Qed.

(* ------------------------------------------------------------------ lock step *)
Hypothesis dec_enc : forall k n a p, dec k n a (enc k n a p) = Some p.

Lemma mrp_honest1 cs data out cs' cr rest :
  mrp_send key enc cs data = Ok (out, cs') -> osync key cs cr ->
  exists cr', mrp_p1 cr (out ++ rest) = Frame (Some data) cr' rest /\ osync key cs' cr'.
Proof.
  unfold mrp_send. intros H Hs.
  destruct cs as [ci|]; destruct cr as [cri|]; try contradiction.
  - destruct (c_encrypt key enc ci data []) as [[ct ci']|e] eqn:Ee; [|discriminate].
    inversion H; subst; clear H.
    apply c_encrypt_spec in Ee as (n & Hn & -> & ->).
    destruct Hs as (K1 & K2 & K3).
    exists (Some (adv key cri 1)). split.
    + rewrite <- app_assoc, mrp_p1_exact. unfold Model.mrp_handle.
      assert (Hn' : nonce_of (kd cri) (cin cri) = Ok n) by (rewrite <- K1, <- K3; exact Hn).
      unfold c_decrypt. rewrite Hn', K2, dec_enc. reflexivity.
    + cbn. unfold sync, adv. cbn. repeat split; congruence.
  - inversion H; subst; clear H. exists None. split; [|exact I].
    rewrite <- app_assoc, mrp_p1_exact. reflexivity.
Qed.

Lemma mrp_out_nonempty cs data out cs' : mrp_send key enc cs data = Ok (out, cs') -> out <> [].
Proof.
  unfold mrp_send, write_var. intro H.
  assert (W : forall f n, write_variant f n <> []).
  { intros f n. destruct f; cbn; [discriminate|]. destruct (n <? 128); discriminate. }
  destruct cs as [ci|].
  - destruct (c_encrypt key enc ci data []) as [[ct ci']|e]; [|discriminate].
    inversion H; subst. intro Hc. apply app_eq_nil in Hc as [Hc _]. now apply W in Hc.
  - inversion H; subst. intro Hc. apply app_eq_nil in Hc as [Hc _]. now apply W in Hc.
Qed.

Lemma mrp_honest : forall msgs cs outs cs' cr,
  mrp_send_all key enc cs msgs = Ok (outs, cs') -> osync key cs cr ->
  exists cr', run mrp_p1 cr (concat outs) = Out (map Some msgs) cr' [] /\ osync key cs' cr'.
Proof.
  unfold mrp_send_all.
  induction msgs as [|d t IH]; intros cs outs cs' cr H Hs.
  - cbn in H. inversion H; subst. exists cr. split; [reflexivity|exact Hs].
  - cbn [send_all] in H.
    destruct (mrp_send key enc cs d) as [[o st1]|e] eqn:E1; [|discriminate].
    destruct (send_all key _ st1 t) as [[os st2]|e] eqn:E2; [|discriminate].
    inversion H; subst; clear H.
    destruct (mrp_honest1 _ _ _ _ cr (concat os) E1 Hs) as (cr1 & Hp & Hs1).
    destruct (IH _ _ _ cr1 E2 Hs1) as (cr2 & R & Hs2).
    exists cr2. split; [|exact Hs2]. cbn [concat map].
    assert (Hne : o ++ concat os <> []).
    { intro Hc. apply app_eq_nil in Hc as [Hc _]. now apply (mrp_out_nonempty _ _ _ _ E1) in Hc. }
    rewrite (run_frame _ _ _ mrp_p1 mrp_progress _ _ _ _ _ Hne Hp). now rewrite R.
Qed.

Lemma somes_map_some {A} (l : list A) : somes (map Some l) = l.
Proof. induction l; cbn; congruence. Qed.

Lemma mrp_roundtrip : forall msgs cs outs cs' cr chunks,
  mrp_send_all key enc cs msgs = Ok (outs, cs') -> osync key cs cr ->
  concat chunks = concat outs ->
  exists cr', feeds mrp_p1 cr [] chunks = Out (map Some msgs) cr' [] /\ osync key cs' cr'.
Proof.
  intros msgs cs outs cs' cr chunks Hsend Hs Hc.
  destruct (mrp_honest _ _ _ _ cr Hsend Hs) as (cr' & R & Hs').
  exists cr'. split; [|exact Hs'].
  rewrite (feed_chunks N (option cipher) (option bytes) exn mrp_p1
             mrp_stable mrp_progress mrp_failpfx).
  - cbn [app]. now rewrite Hc.
  - reflexivity.
  - intros ms e. apply mrp_drain_never_fails.
Qed.

End Mrp.

(* ------------------------------------------------------------------ arbitrary input *)
Section MrpTamper.
Variable key : Type.
Variable enc : key -> bytes -> bytes -> bytes -> bytes.
Variable dec : key -> bytes -> bytes -> bytes -> option bytes.
Variables (k0 : ckind) (k : key) (c0 : N) (L : list call).
Hypothesis HL : log_from k0 c0 L.
Hypothesis Hauth : ideal_auth dec k L.

Notation mrp_p1 := (mrp_p1 key dec).
Let P := map c_pt L.

Lemma mrp_handle_auth ci j d r m c' : at_pos k0 k c0 ci j ->
  mrp_handle key dec (Some ci) d r = Frame m c' r ->
  exists ci', c' = Some ci' /\
    ((at_pos k0 k c0 ci' j /\ m = None) \/
     (at_pos k0 k c0 ci' (S j) /\ m = None) \/
     (at_pos k0 k c0 ci' (S j) /\ exists p, m = Some p /\ nth_error P j = Some p)).
Proof.
  intros Hp. unfold mrp_handle.
  destruct (c_decrypt key dec ci d []) as [[[q|] c1]|e] eqn:Ed; intro H.
  - assert (m = Some q /\ c' = Some c1) as [-> ->] by (split; congruence).
    destruct (decrypt_auth key dec k0 k c0 L HL Hauth _ _ _ _ _ _ Hp Ed) as [[n Hn] Hp'].
    exists c1. split; [reflexivity|]. right. right. split; [exact Hp'|]. exists q. split; [reflexivity|].
    unfold P. rewrite nth_error_map, Hn. reflexivity.
  - assert (m = None /\ c' = Some c1) as [-> ->] by (split; congruence).
    exists c1. split; [reflexivity|]. right. left. split; [|reflexivity]. eapply decrypt_any; eauto.
  - assert (m = None /\ c' = Some ci) as [-> ->] by (split; congruence).
    exists ci. split; [reflexivity|]. left. split; [exact Hp|reflexivity].
Qed.

Lemma mrp_drain_auth : forall fuel ci buf j, at_pos k0 k c0 ci j ->
  match drain mrp_p1 fuel (Some ci) buf with
  | Out ms _ _ => Sub (somes ms) (skipn j P)
  | Failed _ _ => False
  | OutOfFuel => True
  end.
Proof.
  induction fuel as [|fuel IH]; intros ci buf j Hp.
  - cbn. destruct buf; [constructor|exact I].
  - cbn [Framing.drain]. destruct buf as [|b t]; [constructor|].
    destruct (mrp_p1 (Some ci) (b :: t)) as [|e|m c' rest] eqn:Ep.
    + constructor.
    + now apply mrp_never_fails in Ep.
    + destruct (mrp_p1_frame_inv key dec _ _ _ _ _ Ep) as (d & Hh).
      destruct (mrp_handle_auth _ _ _ _ _ _ Hp Hh) as (ci' & -> & D).
      destruct D as [(Hp' & ->)|[(Hp' & ->)|(Hp' & p & -> & Hnth)]].
      * specialize (IH ci' rest j Hp').
        destruct (drain mrp_p1 fuel (Some ci') rest); auto.
      * specialize (IH ci' rest (S j) Hp').
        destruct (drain mrp_p1 fuel (Some ci') rest); auto.
        cbn [somes]. apply Sub_skipn_S. exact IH.
      * specialize (IH ci' rest (S j) Hp').
        destruct (drain mrp_p1 fuel (Some ci') rest); auto.
        cbn [somes]. rewrite (nth_skipn_cons _ _ _ Hnth). apply Sub_take. exact IH.
Qed.

(* Whatever bytes arrive, in whatever pieces, on an encrypted connection: the byte strings
   handed to the protobuf parser are, in order, messages the sender encrypted. *)
Lemma mrp_tamper : forall chunks ci, at_pos k0 k c0 ci 0 ->
  exists ms c' r, feeds mrp_p1 (Some ci) [] chunks = Out ms c' r /\ Sub (somes ms) P.
Proof.
  intros chunks ci Hp.
  rewrite (feed_chunks N (option (cipher key)) (option bytes) exn mrp_p1
             (mrp_stable key enc dec) (mrp_progress key enc dec) (mrp_failpfx key dec)).
  - cbn [app]. pose proof (mrp_drain_auth (length (concat chunks)) ci (concat chunks) 0 Hp) as D.
    unfold run. destruct (drain mrp_p1 _ (Some ci) (concat chunks)) as [ms c' r| |] eqn:E.
    + exists ms, c', r. split; [reflexivity|exact D].
    + contradiction.
    + exfalso. revert E. apply (drain_fuel N _ _ exn mrp_p1 (mrp_progress key enc dec)). lia.
  - reflexivity.
  - intros ms e. apply mrp_drain_never_fails.
Qed.

End MrpTamper.
