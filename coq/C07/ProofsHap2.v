(* C07 - HAPSession: successive decrypt calls, the round trip for every segmentation, and the
   prefix property for arbitrary input under ideal authenticity. *)
From Coq Require Import List NArith ZArith Bool Arith Lia ZifyBool.
From PV Require Import Common.Endian Common.Framing Common.Cases
  C07.Model C07.ProofsBase C07.ProofsCipher C07.ProofsHap.
Import ListNotations.
Local Open Scope N_scope.

Section Hap2.
Variable key : Type.
Variable enc : key -> bytes -> bytes -> bytes -> bytes.
Variable dec : key -> bytes -> bytes -> bytes -> option bytes.

Notation cipher := (cipher key).
Notation hap_p1 := (hap_p1 key dec).

(* successive decrypt calls = the framing library's [feeds] *)
Lemma hap_recv_feeds : forall chunks c buf ms c' r,
  feeds hap_p1 c buf chunks = Out ms c' r ->
  exists os, hap_recv key dec (mkhap (Some c) buf) chunks = (os, Ok (mkhap (Some c') r)) /\
             concat os = concat ms.
Proof.
  induction chunks as [|d t IH]; intros c buf ms c' r H.
  - cbn in H. inversion H; subst. exists []. split; reflexivity.
  - cbn [Framing.feeds] in H.
    destruct (run hap_p1 c (buf ++ d)) as [ms1 c1 r1| |] eqn:E1; try discriminate.
    destruct (feeds hap_p1 c1 r1 t) as [ms2 c2 r2| |] eqn:E2; try discriminate.
    inversion H; subst. destruct (IH _ _ _ _ _ E2) as (os & Hr & Hc).
    exists (concat ms1 :: os). split.
    + cbn [hap_recv]. unfold hap_decrypt. cbn [h_c h_buf]. rewrite E1, Hr. reflexivity.
    + cbn [concat]. rewrite concat_app. now rewrite Hc.
Qed.

Section RoundTrip.
Hypothesis dec_enc : forall k n a p, dec k n a (enc k n a p) = Some p.
Hypothesis enc_len : forall k n a p, length (enc k n a p) = (length p + 16)%nat.

Lemma hap_roundtrip : forall msgs cs outs st' cr chunks,
  hap_send_all key enc (Some cs) msgs = Ok (outs, st') -> sync key cs cr ->
  concat chunks = concat outs ->
  exists cs' os,
    st' = Some cs' /\
    hap_recv key dec (mkhap (Some cr) []) chunks
      = (os, Ok (mkhap (Some (adv key cr (N.of_nat (length (all_frames msgs))))) [])) /\
    concat os = concat msgs /\
    sync key cs' (adv key cr (N.of_nat (length (all_frames msgs)))).
Proof.
  intros msgs cs outs st' cr chunks Hs Hsync Hc.
  destruct (hap_send_all_frames key enc _ _ _ _ Hs) as (cs' & -> & Hf).
  destruct (hap_honest key enc dec dec_enc enc_len _ _ _ _ cr Hf Hsync) as [R S'].
  assert (F : feeds hap_p1 cr [] chunks = run hap_p1 cr ([] ++ concat chunks)).
  { apply (feed_chunks N cipher bytes exn hap_p1
             (hap_stable key enc dec) (hap_progress key enc dec) (hap_failpfx key enc dec)).
    - reflexivity.
    - intros ms e. cbn [app]. rewrite Hc, R. discriminate. }
  cbn [app] in F. rewrite Hc, R in F.
  destruct (hap_recv_feeds _ _ _ _ _ _ F) as (os & Hr & Hcc).
  exists cs', os. split; [reflexivity|]. split; [exact Hr|]. split; [|exact S'].
  rewrite Hcc. apply all_frames_concat.
Qed.

End RoundTrip.

(* ------------------------------------------------------------------ arbitrary input *)
Section Tamper.
Variables (k0 : ckind) (k : key) (c0 : N) (L : list call).
Hypothesis HL : log_from k0 c0 L.
Hypothesis Hauth : ideal_auth dec k L.

Let P := map c_pt L.

Lemma hap_p1_frame_inv c buf m c' rest : hap_p1 c buf = Frame m c' rest ->
  exists block lb, c_decrypt key dec c block lb = Ok (Some m, c').
Proof.
  unfold Model.hap_p1. cbv zeta.
  destruct (blen buf <? _); [discriminate|].
  match goal with |- context [c_decrypt key dec c ?b ?l] =>
    destruct (c_decrypt key dec c b l) as [[[p|] c1]|e] eqn:E; try discriminate;
    intro H; exists b, l end.
  congruence.
Qed.

Lemma hap_drain_auth : forall fuel c buf j, at_pos k0 k c0 c j ->
  match drain hap_p1 fuel c buf with
  | Out ms c' r => skipn j P = ms ++ skipn (j + length ms) P /\ at_pos k0 k c0 c' (j + length ms)
  | Failed ms e => skipn j P = ms ++ skipn (j + length ms) P
  | OutOfFuel => True
  end.
Proof.
  induction fuel as [|fuel IH]; intros c buf j Hp.
  - cbn [Framing.drain]. destruct buf; [|exact I]. cbn [length app]. rewrite Nat.add_0_r. auto.
  - cbn [Framing.drain]. destruct buf as [|b t].
    { cbn [length app]. rewrite Nat.add_0_r. auto. }
    destruct (hap_p1 c (b :: t)) as [|e|m c' rest] eqn:Ep.
    + cbn [length app]. rewrite Nat.add_0_r. auto.
    + cbn [length app]. now rewrite Nat.add_0_r.
    + destruct (hap_p1_frame_inv _ _ _ _ _ Ep) as (block & lb & Hd).
      destruct (decrypt_auth key dec k0 k c0 L HL Hauth _ _ _ _ _ _ Hp Hd) as [[n Hn] Hp'].
      assert (Hm : nth_error P j = Some m).
      { unfold P. rewrite nth_error_map, Hn. reflexivity. }
      apply nth_skipn_cons in Hm.
      specialize (IH c' rest (S j) Hp').
      destruct (drain hap_p1 fuel c' rest) as [ms c2 r2|ms e|].
      * destruct IH as [I1 I2]. cbn [length app].
        replace (j + S (length ms))%nat with (S j + length ms)%nat by lia.
        split; [|exact I2]. rewrite Hm. f_equal. exact I1.
      * cbn [length app].
        replace (j + S (length ms))%nat with (S j + length ms)%nat by lia.
        rewrite Hm. f_equal. exact IH.
      * exact I.
Qed.

Lemma hap_recv_auth : forall chunks c buf j, at_pos k0 k c0 c j ->
  exists ms, concat (fst (hap_recv key dec (mkhap (Some c) buf) chunks)) = concat ms /\
             skipn j P = ms ++ skipn (j + length ms) P.
Proof.
  induction chunks as [|d t IH]; intros c buf j Hp.
  - cbn. exists []. cbn. rewrite Nat.add_0_r. auto.
  - cbn [hap_recv]. unfold hap_decrypt. cbn [h_c h_buf].
    pose proof (hap_drain_auth (length (buf ++ d)) c (buf ++ d) j Hp) as D.
    unfold run. destruct (drain hap_p1 (length (buf ++ d)) c (buf ++ d)) as [ms1 c1 r1|ms1 e|].
    + destruct D as [E1 A1]. destruct (IH c1 r1 _ A1) as (ms2 & C2 & E2).
      destruct (hap_recv key dec (mkhap (Some c1) r1) t) as [os r] eqn:Er.
      cbn [fst] in *. exists (ms1 ++ ms2). split.
      * cbn [concat]. rewrite concat_app. now rewrite C2.
      * rewrite E1, E2, app_length, app_assoc, Nat.add_assoc. reflexivity.
    + cbn [fst]. exists []. cbn. rewrite Nat.add_0_r. auto.
    + cbn [fst]. exists []. cbn. rewrite Nat.add_0_r. auto.
Qed.

(* Whatever bytes arrive, in whatever pieces: the plaintext handed to the application is the
   concatenation of the first m frames the sender encrypted, for some m. *)
Lemma hap_tamper : forall chunks c, at_pos k0 k c0 c 0 ->
  exists m, concat (fst (hap_recv key dec (mkhap (Some c) []) chunks)) = concat (firstn m P).
Proof.
  intros chunks c Hp. destruct (hap_recv_auth chunks c [] 0 Hp) as (ms & C & E).
  exists (length ms). rewrite C. f_equal. cbn [skipn] in E. rewrite E at 1.
  now rewrite firstn_exact.
Qed.

End Tamper.

End Hap2.
