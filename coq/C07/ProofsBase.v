(* C07 - basic lemmas: list slicing, nonce encodings, the cipher-log invariant, the generic
   one-step unfolding of the receive loop, varints. *)
From Coq Require Import List NArith ZArith Bool Arith Lia ZifyBool.
Ltac Zify.zify_post_hook ::= Z.to_euclidean_division_equations.
From PV Require Import Common.Endian Common.Framing Common.Cases C07.Model.
Import ListNotations.
Local Open Scope N_scope.

(* ------------------------------------------------------------------ lists *)
Lemma firstn_app_le {A} (n : nat) (x y : list A) : (n <= length x)%nat -> firstn n (x ++ y) = firstn n x.
Proof.
  intro H. rewrite firstn_app. replace (n - length x)%nat with 0%nat by lia.
  cbn [firstn]. now rewrite app_nil_r.
Qed.

Lemma skipn_app_le {A} (n : nat) (x y : list A) : (n <= length x)%nat -> skipn n (x ++ y) = skipn n x ++ y.
Proof.
  intro H. rewrite skipn_app. replace (n - length x)%nat with 0%nat by lia. reflexivity.
Qed.

Lemma firstn_exact {A} (x y : list A) : firstn (length x) (x ++ y) = x.
Proof. rewrite firstn_app_le by lia. apply firstn_all. Qed.

Lemma skipn_exact {A} (x y : list A) : skipn (length x) (x ++ y) = y.
Proof. rewrite skipn_app_le by lia. now rewrite skipn_all. Qed.

Lemma firstn_exact_n {A} n (x y : list A) : n = length x -> firstn n (x ++ y) = x.
Proof. intros ->. apply firstn_exact. Qed.

Lemma skipn_exact_n {A} n (x y : list A) : n = length x -> skipn n (x ++ y) = y.
Proof. intros ->. apply skipn_exact. Qed.

Lemma blen_app a b : blen (a ++ b) = blen a + blen b.
Proof. unfold blen. rewrite app_length. lia. Qed.

Lemma nonempty_true b : nonempty b = true <-> b <> [].
Proof. destruct b; simpl; split; congruence. Qed.

Lemma nonempty_false b : nonempty b = false <-> b = [].
Proof. destruct b; simpl; split; congruence. Qed.

Lemma zeros_length n : length (zeros n) = n.
Proof. apply repeat_length. Qed.

(* ------------------------------------------------------------------ fixed-width integers *)
Lemma to_bytes_le_ok k c b : to_bytes_le k c = Ok b -> c < 256 ^ N.of_nat k /\ b = le_enc k c.
Proof.
  unfold to_bytes_le. destruct (c <? 256 ^ N.of_nat k) eqn:E; [|discriminate].
  intro H. inversion H. apply N.ltb_lt in E. auto.
Qed.

Lemma to_bytes_le_lt k c : c < 256 ^ N.of_nat k -> to_bytes_le k c = Ok (le_enc k c).
Proof. intro H. unfold to_bytes_le. apply N.ltb_lt in H. now rewrite H. Qed.

Lemma to_bytes_be_ok k c b : to_bytes_be k c = Ok b -> c < 256 ^ N.of_nat k /\ b = be_enc k c.
Proof.
  unfold to_bytes_be. destruct (c <? 256 ^ N.of_nat k) eqn:E; [|discriminate].
  intro H. inversion H. apply N.ltb_lt in E. auto.
Qed.

Lemma le_enc_inj k a b : a < 256 ^ N.of_nat k -> b < 256 ^ N.of_nat k -> le_enc k a = le_enc k b -> a = b.
Proof.
  intros Ha Hb E. rewrite <- (le_dec_enc k a Ha), <- (le_dec_enc k b Hb). now rewrite E.
Qed.

(* ------------------------------------------------------------------ nonces *)
Definition nonce_limit (k : ckind) : N :=
  match k with Gen nl => 256 ^ N.of_nat nl | LQ => 2 ^ 64 end.

Lemma nonce_of_some k c : c < nonce_limit k -> exists n, nonce_of k c = Ok n.
Proof.
  destruct k as [nl|]; cbn [nonce_of nonce_limit]; intro H.
  - rewrite to_bytes_le_lt by exact H. eauto.
  - apply N.ltb_lt in H. rewrite H. eauto.
Qed.

Lemma nonce_of_lt k c n : nonce_of k c = Ok n -> c < nonce_limit k.
Proof.
  destruct k as [nl|]; cbn [nonce_of nonce_limit].
  - destruct (to_bytes_le nl c) eqn:E; [|discriminate]. intros _. now apply to_bytes_le_ok in E.
  - destruct (c <? 2 ^ 64) eqn:E; [|discriminate]. intros _. now apply N.ltb_lt.
Qed.

(* the value of the nonce, spelled out: 12 - nl zero bytes, then the counter little endian *)
Lemma nonce_of_gen nl c n : nonce_of (Gen nl) c = Ok n -> n = zeros (12 - nl) ++ le_enc nl c.
Proof.
  cbn [nonce_of]. destruct (to_bytes_le nl c) eqn:E; [|discriminate].
  apply to_bytes_le_ok in E as [_ ->]. intro H. inversion H; subst; clear H.
  unfold pad_nonce, NONCE_LENGTH. rewrite le_enc_length.
  destruct (Nat.eqb nl 12) eqn:E12; [|reflexivity].
  apply Nat.eqb_eq in E12. subst nl. reflexivity.
Qed.

Lemma nonce_of_lq c n : nonce_of LQ c = Ok n -> n = zeros 4 ++ le_enc 8 c.
Proof. cbn [nonce_of]. destruct (c <? 2 ^ 64); [|discriminate]. intro H. now inversion H. Qed.

Lemma pow64 : 256 ^ N.of_nat 8 = 2 ^ 64.
Proof. reflexivity. Qed.

(* Under one kind, two counters that produce the same nonce are equal. *)
Lemma nonce_of_inj k c1 c2 n : nonce_of k c1 = Ok n -> nonce_of k c2 = Ok n -> c1 = c2.
Proof.
  intros H1 H2. pose proof (nonce_of_lt _ _ _ H1) as L1. pose proof (nonce_of_lt _ _ _ H2) as L2.
  destruct k as [nl|].
  - apply nonce_of_gen in H1. apply nonce_of_gen in H2. rewrite H1 in H2.
    apply app_inv_head in H2. cbn [nonce_limit] in L1, L2. eapply le_enc_inj; eauto.
  - apply nonce_of_lq in H1. apply nonce_of_lq in H2. rewrite H1 in H2.
    apply app_inv_head in H2. cbn [nonce_limit] in L1, L2. rewrite <- pow64 in L1, L2. eapply le_enc_inj; eauto.
Qed.

Lemma nonce_of_length k c n : nonce_of k c = Ok n ->
  match k with Gen nl => (nl <= 12)%nat | LQ => True end -> length n = 12%nat.
Proof.
  intros H Hk. destruct k as [nl|].
  - apply nonce_of_gen in H. subst. rewrite app_length, zeros_length, le_enc_length. lia.
  - apply nonce_of_lq in H. subst. reflexivity.
Qed.

(* ------------------------------------------------------------------ generic receive loop *)
Section Loop.
Variables (S M E : Type).
Variable p1 : S -> list N -> step N S M E.
Hypothesis progress : forall s x m s' r, p1 s x = Frame m s' r -> (length r < length x)%nat.

Lemma run_nil s : run p1 s [] = Out [] s [].
Proof. reflexivity. Qed.

Lemma run_need s x : x <> [] -> p1 s x = Need -> run p1 s x = Out [] s x.
Proof.
  intros Hx Hp. unfold run. destruct x as [|b t]; [congruence|].
  cbn [length drain]. now rewrite Hp.
Qed.

Lemma run_fail s x e : x <> [] -> p1 s x = Fail e -> run p1 s x = Failed [] e.
Proof.
  intros Hx Hp. unfold run. destruct x as [|b t]; [congruence|].
  cbn [length drain]. now rewrite Hp.
Qed.

Lemma run_frame s x m s' r : x <> [] -> p1 s x = Frame m s' r ->
  run p1 s x = match run p1 s' r with
               | Out ms s2 b => Out (m :: ms) s2 b
               | Failed ms e => Failed (m :: ms) e
               | OutOfFuel => OutOfFuel
               end.
Proof.
  intros Hx Hp. pose proof (progress _ _ _ _ _ Hp) as Hl.
  unfold run. destruct x as [|b t]; [congruence|].
  cbn [length drain]. rewrite Hp.
  rewrite (drain_fuel_irrel N S M E p1 progress (length t) (length r) s' r); [reflexivity| |lia].
  simpl in Hl. lia.
Qed.

Lemma run_not_oof s x : run p1 s x <> OutOfFuel.
Proof. unfold run. apply (drain_fuel N S M E p1 progress). lia. Qed.

End Loop.

(* ------------------------------------------------------------------ varints *)
Lemma read_write_variant : forall fuel n rest, n < 128 ^ N.of_nat (Datatypes.S fuel) ->
  read_variant (write_variant fuel n ++ rest) = Some (n, rest).
Proof.
  induction fuel as [|f IH]; intros n rest Hn.
  - cbn [write_variant app read_variant]. change (128 ^ N.of_nat 1) with 128 in Hn.
    apply N.ltb_lt in Hn. now rewrite Hn.
  - cbn [write_variant]. destruct (n <? 128) eqn:E.
    + cbn [app read_variant]. now rewrite E.
    + apply N.ltb_ge in E. cbn [app read_variant].
      assert (Hm : n mod 128 < 128) by (apply N.mod_lt; discriminate).
      assert (Hb : (n mod 128 + 128 <? 128) = false) by (apply N.ltb_ge; lia).
      rewrite Hb. rewrite IH.
      * f_equal. f_equal.
        replace ((n mod 128 + 128) mod 128) with (n mod 128).
        -- pose proof (N.div_mod' n 128). lia.
        -- rewrite <- N.add_mod_idemp_r by discriminate. rewrite N.mod_same by discriminate.
           rewrite N.add_0_r. now rewrite N.mod_mod by discriminate.
      * rewrite Nat2N.inj_succ, N.pow_succ_r' in Hn.
        apply N.div_lt_upper_bound; [discriminate|lia].
Qed.

Lemma size_bound n : n < 128 ^ N.of_nat (Datatypes.S (N.to_nat (N.size n))).
Proof.
  rewrite Nat2N.inj_succ, N2Nat.id.
  destruct n as [|p]; [reflexivity|].
  pose proof (N.size_gt (N.pos p)) as H.
  assert (2 ^ N.size (N.pos p) <= 128 ^ N.succ (N.size (N.pos p))).
  { change 128 with (2 ^ 7). rewrite <- N.pow_mul_r. apply N.pow_le_mono_r; lia. }
  lia.
Qed.

Lemma read_write_var n rest : read_variant (write_var n ++ rest) = Some (n, rest).
Proof. unfold write_var. apply read_write_variant. apply size_bound. Qed.

Lemma read_variant_app : forall x y n raw, read_variant x = Some (n, raw) ->
  read_variant (x ++ y) = Some (n, raw ++ y).
Proof.
  induction x as [|b t IH]; intros y n raw H; [discriminate|].
  cbn [app read_variant] in *. destruct (b <? 128).
  - now inversion H.
  - destruct (read_variant t) as [[v r]|] eqn:E; [|discriminate].
    inversion H; subst. now rewrite (IH y _ _ eq_refl).
Qed.

Lemma read_variant_shorter : forall x n raw, read_variant x = Some (n, raw) -> (length raw < length x)%nat.
Proof.
  induction x as [|b t IH]; intros n raw H; [discriminate|].
  cbn [read_variant] in H. destruct (b <? 128).
  - inversion H; subst. simpl. lia.
  - destruct (read_variant t) as [[v r]|] eqn:E; [|discriminate].
    inversion H; subst. specialize (IH _ _ eq_refl). simpl. lia.
Qed.
