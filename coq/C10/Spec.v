(* C10 - the property as plain mathematical objects, written from the property text.

   Protocols are identified by their priority rank (0 = MRP, the highest, ... 4 = RAOP).
   A play status, a volume, an output-device list and a focus state are values of a small
   domain, identified by numbers; only equality matters. *)
From Coq Require Import List Arith Bool.
Import ListNotations.

Inductive iface := IPush | IKbd.

Inductive op :=
  | Post (p s : nat)              (* protocol p's updater produces play status s (post_update) *)
  | Err (p : nat)                 (* protocol p's updater reports a play status error *)
  | Start | Stop                  (* user: push_updater.start() / .stop() *)
  | Close                         (* user: atv.close() *)
  | Take (p : nat) (l : list iface)   (* atv.takeover(p, *l) *)
  | Rel (l : list iface)          (* release of the takeover of the listed interfaces *)
  | DispVol (p v : nat) | DispDev (p v : nat) | DispFocus (p v : nat)   (* state dispatched by protocol p *)
  | Run1                          (* the event loop runs the oldest scheduled call-back *)
  | RunAll                        (* the event loop runs everything scheduled so far *)
  (* the user changes the volume through the facade: audio.set_volume(v) / volume_up() / volume_down();
     the protocol serving audio applies it and announces the new level like a device-side change *)
  | SetVol (v : nat) | VolUp | VolDown.

Definition opt_eqb (a b : option nat) : bool :=
  match a, b with
  | Some x, Some y => x =? y
  | None, None => true
  | _, _ => false
  end.

Definition upd {A} (f : nat -> A) (p : nat) (v : A) : nat -> A := fun q => if q =? p then v else f q.

(* "a play status that differs from the status previously produced by that updater", in
   production order: the only statuses a listener may ever be told about *)
Fixpoint produced (last : nat -> option nat) (ops : list op) : list (nat * nat) :=
  match ops with
  | [] => []
  | Post p s :: t =>
      if opt_eqb (last p) (Some s) then produced last t
      else (p, s) :: produced (upd last p (Some s)) t
  | _ :: t => produced last t
  end.

(* order-preserving selection *)
Inductive Subseq {A} : list A -> list A -> Prop :=
  | sub_nil : forall l, Subseq [] l
  | sub_take : forall x a b, Subseq a b -> Subseq (x :: a) (x :: b)
  | sub_skip : forall x a b, Subseq a b -> Subseq a (x :: b).

(* "called only when the value actually changes, with the correct old and new values":
   the calls a comparer must make when it is fed the values l, starting from value old *)
Fixpoint pairs (old : nat) (l : list nat) : list (nat * nat) :=
  match l with
  | [] => []
  | v :: t => (if v =? old then [] else [(old, v)]) ++ pairs v t
  end.

Definition prio : list nat := [0; 1; 2; 3; 4].
