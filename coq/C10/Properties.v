(* C10 - property theorems only.  For EVERY configuration (which protocols registered a
   push updater / a keyboard) and EVERY sequence of ops (posts by any protocol, start, stop,
   close, takeover/release, dispatched volume / output devices / focus, loop steps). *)
From Coq Require Import List Arith Bool Lia.
From PV Require Import C10.Spec C10.Model C10.Proofs.
Import ListNotations.

(* Only on change, in order: what the push listener receives is an order-preserving
   selection of `produced` - the statuses that differ from the status the same updater
   produced before, in production order (all updaters together). *)
Theorem C10_only_on_change_in_order :
  forall c ops, Subseq (plays (outs c init ops)) (produced (fun _ => None) ops).
Proof. intros c ops. exact (order_gen c ops init). Qed.
Print Assumptions C10_only_on_change_in_order.

(* consequences spelled out: never more notifications than changes, and every delivered
   (updater, status) pair was produced as a change *)
Theorem C10_delivered_was_a_change :
  forall c ops p x,
    In (p, x) (plays (outs c init ops)) -> In (p, x) (produced (fun _ => None) ops).
Proof. intros c ops p x. apply subseq_in. apply C10_only_on_change_in_order. Qed.
Print Assumptions C10_delivered_was_a_change.

(* Only from the active protocol: whenever an op makes the user's push listener receive
   a status or an error of protocol p, then - in the state in which that op runs - updates
   are being forwarded and p is the main instance: a registered protocol that holds the
   takeover, or, when no registered protocol holds one, the registered protocol of highest
   priority. *)
Theorem C10_only_active_protocol :
  forall c ops s o d r,
    In (s, (d, r)) (steps c init ops) -> In o d -> is_push o = true ->
    let p := match o with DPlay p _ | DErr p => p | _ => 0 end in
    fwd s = true /\ In p (regs c) /\
    (take s = Some p \/
     ((forall q, take s = Some q -> ~ In q (regs c)) /\ In p prio /\
      forall q, In q (regs c) -> In q prio -> p <= q)).
Proof.
  intros c ops s o d r I Io P p.
  pose proof (active_steps c ops init) as F. rewrite Forall_forall in F.
  specialize (F _ I). simpl in F. destruct (F o Io P) as [F1 F2].
  split; [assumption|]. now apply main_spec.
Qed.
Print Assumptions C10_only_active_protocol.

(* After stop() nothing more is delivered - including updates that were already
   scheduled on the loop when stop() was called - until the user starts again.  This holds
   whether stop() returned or raised (a protocol updater whose own stop() fails: cfg.sraise). *)
Theorem C10_silent_after_stop :
  forall c pre post,
    no_start post = true ->
    outs c init (pre ++ Stop :: post) =
      outs c init (pre ++ [Stop]) ++ outs c (final c init (pre ++ [Stop])) post /\
    pushes (outs c (final c init (pre ++ [Stop])) post) = [].
Proof.
  intros c pre post N. split.
  - change (pre ++ Stop :: post) with (pre ++ [Stop] ++ post). rewrite app_assoc. apply outs_app.
  - apply silent_gen; [|assumption].
    rewrite final_app, final_cons. cbn [final].
    apply fwd_after_stop_or_close; [apply inv_final, inv_init | now left].
Qed.
Print Assumptions C10_silent_after_stop.

(* The same for close(), also for a close() that is aborted because stopping a protocol
   updater raised ... *)
Theorem C10_silent_after_any_close :
  forall c pre post,
    no_start post = true -> pushes (outs c (final c init (pre ++ [Close])) post) = [].
Proof.
  intros c pre post N. apply silent_gen; [|assumption].
  rewrite final_app, final_cons. cbn [final].
  apply fwd_after_stop_or_close; [apply inv_final, inv_init | now right].
Qed.
Print Assumptions C10_silent_after_any_close.

(* ... and once close() has completed nothing is ever delivered again, whatever follows
   (start is blocked). *)
Theorem C10_silent_after_close :
  forall c pre post,
    blocked (final c init (pre ++ [Close])) = true ->
    pushes (outs c (final c init (pre ++ [Close])) post) = [].
Proof.
  intros c pre post B. apply silent_blocked; [assumption|].
  now apply (inv_final c (pre ++ [Close]) init inv_init).
Qed.
Print Assumptions C10_silent_after_close.

(* close() does complete when no registered updater's stop() raises *)
Theorem C10_close_completes :
  forall c pre,
    forallb (fun p => negb (memb p (sraise c))) (regs c) = true ->
    blocked (final c init (pre ++ [Close])) = true.
Proof.
  intros c pre H. rewrite final_app, final_cons. simpl.
  destruct (blocked (final c init pre)) eqn:B; [exact B|].
  pose proof (stop_all_ok (sraise c) (regs c) (lis (final c init pre)) H) as K.
  destruct (stop_all (sraise c) (regs c) (lis (final c init pre))) as [l ok]. simpl in K. subst ok.
  reflexivity.
Qed.
Print Assumptions C10_close_completes.

(* Notified whenever it changes (steady regime): after start, as long as nobody stops,
   closes or takes over, once the loop has run the listener has received exactly the
   changed statuses of the main protocol m, in order - nothing lost, nothing else. *)
Theorem C10_notify_iff_changed :
  forall c m body,
    main_of (regs c) None = Some m -> quiet body = true ->
    plays (outs c init (Start :: body ++ [RunAll])) =
      filter (fun x => fst x =? m) (produced (fun _ => None) body).
Proof.
  intros c m body M Q.
  rewrite outs_cons. simpl.
  set (s1 := set_push init (set_lis_all (regs c) (lis init) true) true false).
  assert (S1 : streaming c m s1).
  { unfold streaming. simpl. repeat split; [exact M|].
    unfold set_lis_all. apply main_spec in M as [M _]. apply memb_in in M. now rewrite M. }
  assert (Q' : quiet (body ++ [RunAll]) = true).
  { unfold quiet. rewrite forallb_app. unfold quiet in Q. now rewrite Q. }
  pose proof (complete_gen c m (body ++ [RunAll]) s1 S1 Q') as H.
  rewrite final_runall_queue, produced_snoc_run in H. simpl in H.
  now rewrite app_nil_r in H.
Qed.
Print Assumptions C10_notify_iff_changed.

(* The same for the error path: in the steady regime every error reported by the main
   protocol's updater reaches playstatus_error of the user's listener, in order, and no
   error of another protocol does.  (That errors obey "only the active protocol" and
   "nothing after stop/close" in general is part of C10_only_active_protocol,
   C10_silent_after_stop and C10_silent_after_close: is_push covers DErr.) *)
Theorem C10_errors_forwarded_in_steady_state :
  forall c m body,
    main_of (regs c) None = Some m -> quiet body = true ->
    errs (outs c init (Start :: body ++ [RunAll])) =
      filter (fun p => p =? m) (posted_errs body).
Proof.
  intros c m body M Q.
  rewrite outs_cons. simpl.
  set (s1 := set_push init (set_lis_all (regs c) (lis init) true) true false).
  assert (S1 : streaming c m s1).
  { unfold streaming. simpl. repeat split; [exact M|].
    unfold set_lis_all. apply main_spec in M as [M _]. apply memb_in in M. now rewrite M. }
  assert (Q' : quiet (body ++ [RunAll]) = true).
  { unfold quiet. rewrite forallb_app. unfold quiet in Q. now rewrite Q. }
  pose proof (errors_gen c m (body ++ [RunAll]) s1 S1 Q') as H.
  rewrite final_runall_queue, posted_errs_snoc_run in H. simpl in H.
  now rewrite app_nil_r in H.
Qed.
Print Assumptions C10_errors_forwarded_in_steady_state.

(* an error scheduled before stop() / close() is not delivered after it: instances of the two
   silence theorems, spelled out because this path was once forgotten *)
Theorem C10_error_queued_before_stop_or_close :
  forall c p,
    pushes (outs c init [Start; Err p; Stop; RunAll]) = [] /\
    pushes (outs c init [Start; Err p; Close; RunAll]) = [].
Proof.
  intros c p. split.
  - destruct (C10_silent_after_stop c [Start; Err p] [RunAll] eq_refl) as [E S].
    change ([Start; Err p; Stop; RunAll]) with ([Start; Err p] ++ Stop :: [RunAll]).
    rewrite E, pushes_app, S, app_nil_r. now rewrite outs_norun.
  - change ([Start; Err p; Close; RunAll]) with (([Start; Err p] ++ [Close]) ++ [RunAll]).
    rewrite outs_app, pushes_app, (C10_silent_after_any_close c [Start; Err p] [RunAll] eq_refl), app_nil_r.
    now rewrite outs_norun.
Qed.
Print Assumptions C10_error_queued_before_stop_or_close.

(* Volume: the listener calls are exactly the adjacent unequal pairs (old, new) of the
   levels announced by the protocols (dvols: device-side changes AND the levels that result
   from the user's own set_volume / volume_up / volume_down through the facade), starting from
   the initial value - so the old value of a call is always the value the listener saw last;
   stated for any moment of any run: calls made so far ++ calls still owed for the scheduled
   values = the calls owed for everything announced. *)
Theorem C10_volume_old_new_correct :
  forall c ops,
    vols (outs c init ops) ++ pairs (vol (final c init ops)) (qvols (queue (final c init ops))) =
      pairs 0 (dvols c init ops).
Proof. intros c ops. exact (vol_gen c ops init). Qed.
Print Assumptions C10_volume_old_new_correct.

Theorem C10_outputdevices_old_new_correct :
  forall c ops,
    devs (outs c init ops) ++ pairs (dev (final c init ops)) (qdevs (queue (final c init ops))) =
      pairs 0 (ddevs ops).
Proof. intros c ops. exact (dev_gen c ops init). Qed.
Print Assumptions C10_outputdevices_old_new_correct.

(* focus: the inputs are the values dispatched by the protocol that is the keyboard's main
   protocol at dispatch time (dfocs) *)
Theorem C10_focus_old_new_correct :
  forall c ops,
    focs (outs c init ops) ++ pairs (foc (final c init ops)) (qfocs (queue (final c init ops))) =
      pairs 0 (dfocs c init ops).
Proof. intros c ops. exact (foc_gen c ops init). Qed.
Print Assumptions C10_focus_old_new_correct.

(* once the loop has been drained the calls are exactly the pairs *)
Theorem C10_volume_calls_after_drain :
  forall c ops, vols (outs c init (ops ++ [RunAll])) = pairs 0 (dvols c init ops).
Proof.
  intros c ops. pose proof (C10_volume_old_new_correct c (ops ++ [RunAll])) as H.
  rewrite final_runall_queue in H. simpl in H. rewrite app_nil_r in H. rewrite H.
  clear H. f_equal. generalize init as s.
  induction ops as [|o t IH]; intro s; [reflexivity|].
  change ((o :: t) ++ [RunAll]) with (o :: (t ++ [RunAll])).
  change (dvols c s (o :: t ++ [RunAll])) with (hvol c s o ++ dvols c (fst (fst (step c s o))) (t ++ [RunAll])).
  now rewrite IH.
Qed.
Print Assumptions C10_volume_calls_after_drain.

(* the user's own change is reported like any other: set_volume(v) on an open device with an
   Audio provider, then the loop runs: the listener is called with (initial value, v) iff v
   differs from it - and a following device-side change is reported with old = v *)
Theorem C10_user_set_volume_is_reported :
  forall c m p v w,
    main_of (aregs c) None = Some m ->
    vols (outs c init ([SetVol v; DispVol p w] ++ [RunAll])) = pairs 0 [v; w].
Proof.
  intros c m p v w M. rewrite C10_volume_calls_after_drain.
  simpl. unfold uvol. simpl. now rewrite M.
Qed.
Print Assumptions C10_user_set_volume_is_reported.

(* "only when the value actually changes": no call has old = new, and each call's old value
   is the previous call's new value (the first one's is the initial value) *)
Theorem C10_pairs_are_changes :
  forall l o a b, In (a, b) (pairs o l) -> a <> b.
Proof.
  induction l as [|v l IH]; intros o a b I; [destruct I|].
  simpl in I. apply in_app_or in I as [I|I].
  - destruct (v =? o) eqn:E; [destruct I|]. destruct I as [I|[]]. inversion I; subst.
    apply Nat.eqb_neq in E. congruence.
  - now apply IH with v.
Qed.
Print Assumptions C10_pairs_are_changes.

(* A user listener that raises (at whichever notifications: cfg.lfault) changes nothing: the
   states passed through, what every later notification carries and the results of all ops are
   the same as with listeners that never raise.  In particular "previously delivered" includes
   a delivery whose listener raised. *)
Theorem C10_listener_faults_do_not_matter :
  forall c c' ops,
    regs c = regs c' -> kregs c = kregs c' -> sraise c = sraise c' -> aregs c = aregs c' ->
    steps c init ops = steps c' init ops.
Proof. intros c c' ops R K S A. apply steps_cfg. repeat split; assumption. Qed.
Print Assumptions C10_listener_faults_do_not_matter.

(* ---- non-vacuity ------------------------------------------------------------------------------ *)

Definition ex_cfg : cfg := {| regs := [1; 0]; kregs := [0; 3]; sraise := []; aregs := [0]; lfault := [] |}.

Example C10_ex_run :
  outs ex_cfg init [Start; Post 0 0; Post 1 0; Post 0 0; Post 0 1; RunAll;
                    Take 1 [IPush]; Post 1 2; Post 0 2; RunAll; Post 0 1; Stop; RunAll;
                    DispVol 1 1; DispVol 0 1; DispVol 0 2; RunAll] =
    [DPlay 0 0; DPlay 0 1; DPlay 1 2; DVol 0 1; DVol 1 2].
Proof. vm_compute. reflexivity. Qed.

Example C10_ex_user_volume :
  outs ex_cfg init [DispVol 1 2; RunAll; SetVol 6; RunAll; DispVol 0 10; VolUp; VolDown; VolDown; RunAll] =
    [DVol 0 2; DVol 2 6; DVol 6 10; DVol 10 11; DVol 11 10; DVol 10 9].
Proof. vm_compute. reflexivity. Qed.

Example C10_ex_steady :
  plays (outs ex_cfg init (Start :: [Post 0 1; Post 1 1; Post 0 1; Run1; Post 0 2] ++ [RunAll])) =
    [(0, 1); (0, 2)].
Proof. rewrite (C10_notify_iff_changed ex_cfg 0); reflexivity. Qed.

(* the updater of protocol 1 (iterated first) fails in stop(): stop() raises, protocol 0's updater keeps
   its listener, yet neither the scheduled nor a later status is delivered *)
Example C10_ex_stop_raises :
  run {| regs := [1; 0]; kregs := []; sraise := [1]; aregs := []; lfault := [0] |} init [Start; Post 0 1; Stop; RunAll; Post 0 2; RunAll] =
    [([], ROk); ([], ROk); ([], RRaise); ([], ROk); ([], ROk); ([], ROk)].
Proof. vm_compute. reflexivity. Qed.

Example C10_ex_stop_race : pushes (outs ex_cfg init [Start; Post 0 1; Stop; RunAll]) = [].
Proof. vm_compute. reflexivity. Qed.
