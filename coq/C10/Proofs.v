(* C10 - lemmas.  Every theorem is an induction over the op list, generalised over the
   current state (whose queue may already hold scheduled call-backs). *)
From Coq Require Import List Arith Bool Lia.
From PV Require Import Common.Cases C10.Spec C10.Model.
Import ListNotations.

(* ---- projections of what the user received / of what is scheduled -------------------- *)

Fixpoint plays (l : list out) : list (nat * nat) :=
  match l with [] => [] | DPlay p x :: t => (p, x) :: plays t | _ :: t => plays t end.
Definition is_push (o : out) : bool := match o with DPlay _ _ | DErr _ => true | _ => false end.
Definition pushes (l : list out) : list out := filter is_push l.
Fixpoint vols (l : list out) : list (nat * nat) :=
  match l with [] => [] | DVol a b :: t => (a, b) :: vols t | _ :: t => vols t end.
Fixpoint devs (l : list out) : list (nat * nat) :=
  match l with [] => [] | DDev a b :: t => (a, b) :: devs t | _ :: t => devs t end.
Fixpoint focs (l : list out) : list (nat * nat) :=
  match l with [] => [] | DFocus a b :: t => (a, b) :: focs t | _ :: t => focs t end.

Fixpoint qplays (l : list qitem) : list (nat * nat) :=
  match l with [] => [] | QPlay p x :: t => (p, x) :: qplays t | _ :: t => qplays t end.
Fixpoint qvols (l : list qitem) : list nat :=
  match l with [] => [] | QVol v :: t => v :: qvols t | _ :: t => qvols t end.
Fixpoint qdevs (l : list qitem) : list nat :=
  match l with [] => [] | QDev v :: t => v :: qdevs t | _ :: t => qdevs t end.
Fixpoint qfocs (l : list qitem) : list nat :=
  match l with [] => [] | QFocus v :: t => v :: qfocs t | _ :: t => qfocs t end.

Lemma plays_app a b : plays (a ++ b) = plays a ++ plays b.
Proof. induction a as [|x a IH]; simpl; [reflexivity|]. destruct x; simpl; now rewrite IH. Qed.
Lemma vols_app a b : vols (a ++ b) = vols a ++ vols b.
Proof. induction a as [|x a IH]; simpl; [reflexivity|]. destruct x; simpl; now rewrite IH. Qed.
Lemma devs_app a b : devs (a ++ b) = devs a ++ devs b.
Proof. induction a as [|x a IH]; simpl; [reflexivity|]. destruct x; simpl; now rewrite IH. Qed.
Lemma focs_app a b : focs (a ++ b) = focs a ++ focs b.
Proof. induction a as [|x a IH]; simpl; [reflexivity|]. destruct x; simpl; now rewrite IH. Qed.
Lemma pushes_app a b : pushes (a ++ b) = pushes a ++ pushes b.
Proof. apply filter_app. Qed.
Lemma qplays_app a b : qplays (a ++ b) = qplays a ++ qplays b.
Proof. induction a as [|x a IH]; simpl; [reflexivity|]. destruct x; simpl; now rewrite IH. Qed.
Lemma qvols_app a b : qvols (a ++ b) = qvols a ++ qvols b.
Proof. induction a as [|x a IH]; simpl; [reflexivity|]. destruct x; simpl; now rewrite IH. Qed.
Lemma qdevs_app a b : qdevs (a ++ b) = qdevs a ++ qdevs b.
Proof. induction a as [|x a IH]; simpl; [reflexivity|]. destruct x; simpl; now rewrite IH. Qed.
Lemma qfocs_app a b : qfocs (a ++ b) = qfocs a ++ qfocs b.
Proof. induction a as [|x a IH]; simpl; [reflexivity|]. destruct x; simpl; now rewrite IH. Qed.

(* ---- order-preserving selections --------------------------------------------------------- *)

Lemma subseq_refl {A} (l : list A) : Subseq l l.
Proof. induction l; constructor; assumption. Qed.

Lemma subseq_app {A} (a b a' b' : list A) : Subseq a b -> Subseq a' b' -> Subseq (a ++ a') (b ++ b').
Proof.
  intros H H'. induction H as [l | x a b H IH | x a b H IH]; simpl.
  - induction l as [|y l IHl]; simpl; [assumption|]. now constructor.
  - now constructor.
  - now constructor.
Qed.

Lemma subseq_skip_mid {A} (a l r : list A) x : Subseq a (l ++ r) -> Subseq a (l ++ x :: r).
Proof.
  revert a. induction l as [|y l IH]; intros a H; simpl in *.
  - now constructor.
  - inversion H; subst.
    + constructor.
    + constructor. now apply IH.
    + apply sub_skip. now apply IH.
Qed.

Lemma subseq_length {A} (a b : list A) : Subseq a b -> length a <= length b.
Proof. induction 1; simpl; lia. Qed.

Lemma subseq_in {A} (a b : list A) x : Subseq a b -> In x a -> In x b.
Proof.
  induction 1 as [l | y a b H IH | y a b H IH]; intro I.
  - destruct I.
  - destruct I as [->|I]; [now left | right; now apply IH].
  - right. now apply IH.
Qed.

(* ---- frame lemmas --------------------------------------------------------------------------- *)

Definition same_ctl (s s' : st) : Prop :=
  prev s' = prev s /\ lis s' = lis s /\ fwd s' = fwd s /\ take s' = take s /\
  ktake s' = ktake s /\ blocked s' = blocked s.

Lemma same_ctl_refl s : same_ctl s s.
Proof. repeat split. Qed.

Lemma deliver_frame c s q :
  same_ctl s (fst (deliver c s q)) /\ queue (fst (deliver c s q)) = queue s.
Proof. destruct q; simpl; repeat split. Qed.

Lemma drain_frame c l : forall s,
  same_ctl s (fst (drain c s l)) /\ queue (fst (drain c s l)) = queue s.
Proof.
  induction l as [|q l IH]; intro s; simpl; [repeat split|].
  destruct (deliver c s q) as [s1 o1] eqn:E1.
  destruct (drain c s1 l) as [s2 o2] eqn:E2. simpl.
  pose proof (deliver_frame c s q) as F1. rewrite E1 in F1. simpl in F1.
  pose proof (IH s1) as F2. rewrite E2 in F2. simpl in F2.
  destruct F1 as ((A1 & A2 & A3 & A4 & A5 & A6) & A7).
  destruct F2 as ((B1 & B2 & B3 & B4 & B5 & B6) & B7).
  unfold same_ctl. repeat split; congruence.
Qed.

Definition same_data (s s' : st) : Prop :=
  prev s' = prev s /\ lis s' = lis s /\ fwd s' = fwd s /\ blocked s' = blocked s /\
  vol s' = vol s /\ dev s' = dev s /\ foc s' = foc s /\ queue s' = queue s.

Lemma put_take_data s i v : same_data s (put_take s i v).
Proof. destruct i; repeat split. Qed.

Lemma same_data_trans a b c : same_data a b -> same_data b c -> same_data a c.
Proof. unfold same_data. intuition congruence. Qed.

Lemma release_data l : forall s, same_data s (fold_left (fun a j => put_take a j None) l s).
Proof.
  induction l as [|i l IH]; intro s; simpl; [repeat split|].
  eapply same_data_trans; [apply (put_take_data s i None) | apply IH].
Qed.

Lemma takeover_data p todo : forall s taken, same_data s (fst (takeover s p todo taken)).
Proof.
  induction todo as [|i t IH]; intros s taken; simpl; [repeat split|].
  destruct (get_take s i); simpl.
  - apply release_data.
  - eapply same_data_trans; [apply (put_take_data s i (Some p)) | apply IH].
Qed.

(* ---- plumbing -------------------------------------------------------------------------------- *)

Lemma outs_cons c s o t :
  outs c s (o :: t) = snd (fst (step c s o)) ++ outs c (fst (fst (step c s o))) t.
Proof. unfold outs, run. simpl. destruct (step c s o) as [[s' d] r]. reflexivity. Qed.

Lemma final_cons c s o t : final c s (o :: t) = final c (fst (fst (step c s o))) t.
Proof. simpl. destruct (step c s o) as [[s' d] r]. reflexivity. Qed.

Lemma steps_cons c s o t :
  steps c s (o :: t) = (s, (snd (fst (step c s o)), snd (step c s o))) :: steps c (fst (fst (step c s o))) t.
Proof. simpl. destruct (step c s o) as [[s' d] r]. reflexivity. Qed.

Lemma steps_app c : forall a s b, steps c s (a ++ b) = steps c s a ++ steps c (final c s a) b.
Proof.
  induction a as [|o a IH]; intros s b; [reflexivity|].
  rewrite <- app_comm_cons, !steps_cons, final_cons, IH. reflexivity.
Qed.

Lemma final_app c : forall a s b, final c s (a ++ b) = final c (final c s a) b.
Proof.
  induction a as [|o a IH]; intros s b; [reflexivity|].
  rewrite <- app_comm_cons, !final_cons. apply IH.
Qed.

Lemma outs_app c a s b : outs c s (a ++ b) = outs c s a ++ outs c (final c s a) b.
Proof. unfold outs, run. rewrite steps_app, !map_app, concat_app. reflexivity. Qed.

Lemma opt_eqb_true a p : opt_eqb a (Some p) = true -> a = Some p.
Proof. destruct a as [x|]; simpl; [|discriminate]. intro H. apply Nat.eqb_eq in H. now subst. Qed.

Lemma produced_ext : forall ops f g, (forall q, f q = g q) -> produced f ops = produced g ops.
Proof.
  induction ops as [|o t IH]; intros f g E; [reflexivity|].
  destruct o; simpl; try (now apply IH).
  rewrite (E p). destruct (opt_eqb (g p) (Some s)); [now apply IH|].
  f_equal. apply IH. intro q. unfold upd. destruct (q =? p); [reflexivity | apply E].
Qed.

(* ---- the step, op by op: what it delivers and what it does to queue / prev -------------------- *)

(* ops that do not run the loop deliver nothing *)
Definition is_run (o : op) : bool := match o with Run1 | RunAll => true | _ => false end.

(* the three user-initiated volume ops share user_vol: blocked | not supported | announced *)
Ltac uv tac :=
  unfold user_vol;
  match goal with |- context [blocked ?s] => destruct (blocked s) eqn:?B end; [tac|];
  match goal with |- context [main_of (aregs ?c) None] => destruct (main_of (aregs c) None) eqn:?M end; tac.

Lemma step_norun c s o : is_run o = false -> snd (fst (step c s o)) = [].
Proof.
  destruct o; simpl; try discriminate; intros _; try reflexivity; try (uv reflexivity).
  - destruct (opt_eqb (prev s p) (Some s0)); reflexivity.
  - destruct (blocked s); reflexivity.
  - destruct (blocked s); [reflexivity|]. destruct (stop_all (sraise c) (regs c) (lis s)); reflexivity.
  - destruct (blocked s); [reflexivity|]. destruct (stop_all (sraise c) (regs c) (lis s)) as [l []]; reflexivity.
  - destruct (takeover s p l []); reflexivity.
  - destruct (opt_eqb (main_of (kregs c) (ktake s)) (Some p)); reflexivity.
Qed.

Lemma outs_norun c : forall ops s,
  forallb (fun o => negb (is_run o)) ops = true -> outs c s ops = [].
Proof.
  induction ops as [|o t IH]; intros s H; [reflexivity|].
  simpl in H. apply andb_true_iff in H as [H1 H2].
  rewrite outs_cons, step_norun; [now apply IH|]. now destruct (is_run o).
Qed.

(* ---- 0. the listener's faults are no input of anything ------------------------------------- *)

Definition same_but_faults (c c' : cfg) : Prop :=
  regs c = regs c' /\ kregs c = kregs c' /\ sraise c = sraise c' /\ aregs c = aregs c'.

Lemma deliver_cfg c c' s q : same_but_faults c c' -> deliver c s q = deliver c' s q.
Proof. intros (R & _). destruct q; simpl; now rewrite ?R. Qed.

Lemma drain_cfg c c' l : same_but_faults c c' -> forall s, drain c s l = drain c' s l.
Proof.
  intro E. induction l as [|q l IH]; intro s; [reflexivity|].
  simpl. rewrite (deliver_cfg c c' s q E). destruct (deliver c' s q) as [s1 o1]. now rewrite IH.
Qed.

Lemma step_cfg c c' s o : same_but_faults c c' -> step c s o = step c' s o.
Proof.
  intro E. pose proof E as (R & K & S & A).
  destruct o; simpl; unfold user_vol; rewrite ?R, ?K, ?S, ?A; try reflexivity.
  - destruct (queue s) as [|q tl]; [reflexivity|]. now rewrite (deliver_cfg c c' _ q E).
  - now rewrite (drain_cfg c c' (queue s) E).
Qed.

Lemma steps_cfg c c' : same_but_faults c c' -> forall ops s, steps c s ops = steps c' s ops.
Proof.
  intro E. induction ops as [|o t IH]; intro s; [reflexivity|].
  rewrite !steps_cons, (step_cfg c c' s o E), IH. reflexivity.
Qed.

(* ---- 1. only on change, in order ------------------------------------------------------------ *)

Lemma plays_deliver c s q :
  Subseq (plays (snd (deliver c s q))) (qplays [q]).
Proof.
  destruct q; simpl.
  - destruct (fwd s && opt_eqb (main_of (regs c) (take s)) (Some p)); simpl.
    + apply sub_take. apply sub_nil.
    + apply sub_nil.
  - destruct (fwd s && opt_eqb (main_of (regs c) (take s)) (Some p)); simpl; apply sub_nil.
  - apply sub_nil.
  - destruct (v =? vol s); apply sub_nil.
  - destruct (v =? dev s); apply sub_nil.
  - destruct (v =? foc s); apply sub_nil.
Qed.

Lemma plays_drain c l : forall s, Subseq (plays (snd (drain c s l))) (qplays l).
Proof.
  induction l as [|q l IH]; intro s; [simpl; constructor|].
  cbn [drain].
  destruct (deliver c s q) as [s1 o1] eqn:E1.
  destruct (drain c s1 l) as [s2 o2] eqn:E2. cbn [snd].
  rewrite plays_app. change (q :: l) with ([q] ++ l). rewrite qplays_app.
  apply subseq_app.
  - pose proof (plays_deliver c s q) as H. now rewrite E1 in H.
  - pose proof (IH s1) as H. now rewrite E2 in H.
Qed.

Lemma order_gen c : forall ops s,
  Subseq (plays (outs c s ops)) (qplays (queue s) ++ produced (prev s) ops).
Proof.
  induction ops as [|o t IH]; intro s.
  - unfold outs. simpl. constructor.
  - rewrite outs_cons, plays_app.
    specialize (IH (fst (fst (step c s o)))).
    destruct o.
    + (* Post *)
      rewrite (step_norun c s (Post p s0) eq_refl). simpl app.
      simpl in IH |- *. destruct (opt_eqb (prev s p) (Some s0)) eqn:E; simpl in IH.
      * rewrite (produced_ext t (upd (prev s) p (Some s0)) (prev s)) in IH; [assumption|].
        intro q. unfold upd. destruct (q =? p) eqn:Q; [|reflexivity].
        apply Nat.eqb_eq in Q. subst q. symmetry. now apply opt_eqb_true.
      * rewrite qplays_app in IH. destruct (lis s p); simpl in IH.
        -- now rewrite <- app_assoc in IH.
        -- rewrite app_nil_r in IH. now apply subseq_skip_mid.
    + (* Err *)
      rewrite (step_norun c s (Err p) eq_refl). simpl in IH |- *.
      rewrite qplays_app in IH. destruct (lis s p); simpl in IH; now rewrite app_nil_r in IH.
    + rewrite (step_norun c s Start eq_refl). simpl in IH |- *. destruct (blocked s); exact IH.
    + rewrite (step_norun c s Stop eq_refl). simpl in IH |- *. destruct (blocked s); [exact IH|].
      destruct (stop_all (sraise c) (regs c) (lis s)); exact IH.
    + rewrite (step_norun c s Close eq_refl). simpl in IH |- *. destruct (blocked s); [exact IH|].
      destruct (stop_all (sraise c) (regs c) (lis s)) as [l []]; exact IH.
    + (* Take *)
      rewrite (step_norun c s (Take p l) eq_refl). simpl in IH |- *.
      pose proof (takeover_data p l s []) as D.
      destruct (takeover s p l []) as [s' r]. simpl in *.
      destruct D as (D1 & _ & _ & _ & _ & _ & _ & D8). now rewrite D1, D8 in IH.
    + (* Rel *)
      rewrite (step_norun c s (Rel l) eq_refl). simpl in IH |- *.
      destruct (release_data l s) as (D1 & _ & _ & _ & _ & _ & _ & D8). now rewrite D1, D8 in IH.
    + rewrite (step_norun c s (DispVol p v) eq_refl). simpl in IH |- *.
      destruct (memb p (aregs c)); simpl in IH;
        rewrite qplays_app in IH; simpl in IH; now rewrite app_nil_r in IH.
    + rewrite (step_norun c s (DispDev p v) eq_refl). simpl in IH |- *.
      rewrite qplays_app in IH. simpl in IH. now rewrite app_nil_r in IH.
    + rewrite (step_norun c s (DispFocus p v) eq_refl). simpl in IH |- *.
      destruct (opt_eqb (main_of (kregs c) (ktake s)) (Some p)); simpl in IH; [|exact IH].
      rewrite qplays_app in IH. simpl in IH. now rewrite app_nil_r in IH.
    + (* Run1 *)
      simpl in IH |- *. destruct (queue s) as [|q tl] eqn:Q; simpl in IH |- *; [rewrite Q in IH; exact IH|].
      set (s0 := set_vals s (vol s) (dev s) (foc s) tl) in *.
      pose proof (deliver_frame c s0 q) as ((F1 & _) & F7).
      pose proof (plays_deliver c s0 q) as P.
      destruct (deliver c s0 q) as [s' d]. simpl in *.
      rewrite F1, F7 in IH. destruct q; exact (subseq_app _ _ _ _ P IH).
    + (* RunAll *)
      simpl in IH |- *.
      set (s0 := set_vals s (vol s) (dev s) (foc s) []) in *.
      pose proof (drain_frame c (queue s) s0) as ((F1 & _) & F7).
      pose proof (plays_drain c (queue s) s0) as P.
      destruct (drain c s0 (queue s)) as [s' d]. simpl in *.
      rewrite F1, F7 in IH. simpl in IH. now apply subseq_app.
    + rewrite (step_norun c s (SetVol v) eq_refl). simpl in IH |- *. unfold user_vol in IH |- *.
      destruct (blocked s); [simpl in IH |- *; exact IH|]. destruct (main_of (aregs c) None); [|simpl in IH |- *; exact IH].
      simpl in IH |- *. rewrite qplays_app in IH. simpl in IH. now rewrite app_nil_r in IH.
    + rewrite (step_norun c s VolUp eq_refl). simpl in IH |- *. unfold user_vol in IH |- *.
      destruct (blocked s); [simpl in IH |- *; exact IH|]. destruct (main_of (aregs c) None); [|simpl in IH |- *; exact IH].
      simpl in IH |- *. rewrite qplays_app in IH. simpl in IH. now rewrite app_nil_r in IH.
    + rewrite (step_norun c s VolDown eq_refl). simpl in IH |- *. unfold user_vol in IH |- *.
      destruct (blocked s); [simpl in IH |- *; exact IH|]. destruct (main_of (aregs c) None); [|simpl in IH |- *; exact IH].
      simpl in IH |- *. rewrite qplays_app in IH. simpl in IH. now rewrite app_nil_r in IH.
Qed.

(* ---- 2. only from the active protocol, only while forwarding --------------------------------- *)

Definition from_active (c : cfg) (s : st) (d : list out) : Prop :=
  forall o, In o d -> is_push o = true ->
    fwd s = true /\
    main_of (regs c) (take s) = Some (match o with DPlay p _ | DErr p => p | _ => 0 end).

Lemma active_deliver c s q : from_active c s (snd (deliver c s q)).
Proof.
  intros o I P. destruct q; simpl in I.
  - destruct (fwd s && opt_eqb (main_of (regs c) (take s)) (Some p)) eqn:E; [|destruct I].
    destruct I as [<-|[]]. apply andb_true_iff in E as [E1 E2]. split; [assumption|].
    now apply opt_eqb_true.
  - destruct (fwd s && opt_eqb (main_of (regs c) (take s)) (Some p)) eqn:E; [|destruct I].
    destruct I as [<-|[]]. apply andb_true_iff in E as [E1 E2]. split; [assumption|].
    now apply opt_eqb_true.
  - destruct I.
  - destruct (v =? vol s); [destruct I|]. destruct I as [<-|[]]. discriminate.
  - destruct (v =? dev s); [destruct I|]. destruct I as [<-|[]]. discriminate.
  - destruct (v =? foc s); [destruct I|]. destruct I as [<-|[]]. discriminate.
Qed.

Lemma active_drain c l : forall s, from_active c s (snd (drain c s l)).
Proof.
  induction l as [|q l IH]; intros s o I P; simpl in I; [destruct I|].
  pose proof (active_deliver c s q) as A.
  pose proof (deliver_frame c s q) as ((_ & _ & F3 & F4 & _) & _).
  destruct (deliver c s q) as [s1 o1]. simpl in *.
  pose proof (IH s1) as B.
  destruct (drain c s1 l) as [s2 o2]. simpl in *.
  apply in_app_or in I as [I|I].
  - now apply A.
  - rewrite <- F3, <- F4. now apply B.
Qed.

Lemma active_step c s o : from_active c s (snd (fst (step c s o))).
Proof.
  destruct (is_run o) eqn:R.
  - destruct o; try discriminate; simpl.
    + destruct (queue s) as [|q tl]; simpl; [intros x []|].
      pose proof (active_deliver c (set_vals s (vol s) (dev s) (foc s) tl) q) as A.
      destruct (deliver c (set_vals s (vol s) (dev s) (foc s) tl) q) as [s' d]. exact A.
    + pose proof (active_drain c (queue s) (set_vals s (vol s) (dev s) (foc s) [])) as A.
      destruct (drain c (set_vals s (vol s) (dev s) (foc s) []) (queue s)) as [s' d]. exact A.
  - rewrite (step_norun c s o R). intros x [].
Qed.

Lemma active_steps c : forall ops s,
  Forall (fun x => from_active c (fst x) (fst (snd x))) (steps c s ops).
Proof.
  induction ops as [|o t IH]; intro s; [constructor|].
  rewrite steps_cons. constructor; [apply active_step | apply IH].
Qed.

(* what "main instance" means, in words: a registered protocol that either holds the
   takeover or - when no registered protocol holds one - has the highest priority *)
Lemma memb_in x l : memb x l = true <-> In x l.
Proof.
  unfold memb. rewrite existsb_exists. split.
  - intros (y & I & E). apply Nat.eqb_eq in E. now subst.
  - intro I. exists x. split; [assumption | apply Nat.eqb_refl].
Qed.

Lemma main_prio r p :
  find (fun q => memb q r) prio = Some p ->
  In p r /\ In p prio /\ forall q, In q r -> In q prio -> p <= q.
Proof.
  unfold prio. simpl.
  destruct (memb 0 r) eqn:M0; [intro H; inversion H; subst; split; [now apply memb_in|]; split; [simpl; tauto|]; intros; lia|].
  destruct (memb 1 r) eqn:M1.
  { intro H; inversion H; subst. split; [now apply memb_in|]. split; [simpl; tauto|].
    intros q I [<-|P]; [apply memb_in in I; congruence | simpl in P; lia]. }
  destruct (memb 2 r) eqn:M2.
  { intro H; inversion H; subst. split; [now apply memb_in|]. split; [simpl; tauto|].
    intros q I [<-|[<-|P]]; try (apply memb_in in I; congruence). simpl in P; lia. }
  destruct (memb 3 r) eqn:M3.
  { intro H; inversion H; subst. split; [now apply memb_in|]. split; [simpl; tauto|].
    intros q I [<-|[<-|[<-|P]]]; try (apply memb_in in I; congruence). simpl in P; lia. }
  destruct (memb 4 r) eqn:M4; [|discriminate].
  intro H; inversion H; subst. split; [now apply memb_in|]. split; [simpl; tauto|].
  intros q I [<-|[<-|[<-|[<-|P]]]]; try (apply memb_in in I; congruence). simpl in P; lia.
Qed.

Lemma main_spec r t p :
  main_of r t = Some p ->
  In p r /\
  (t = Some p \/
   ((forall q, t = Some q -> ~ In q r) /\ In p prio /\ forall q, In q r -> In q prio -> p <= q)).
Proof.
  unfold main_of. destruct t as [h|]; simpl.
  - destruct (memb h r) eqn:M.
    + intro H. inversion H; subst. split; [now apply memb_in | now left].
    + intro H. apply main_prio in H as (A & B & C). split; [assumption|]. right.
      split; [|split; assumption]. intros q E I. inversion E; subst.
      apply memb_in in I. congruence.
  - intro H. apply main_prio in H as (A & B & C). split; [assumption|]. right.
    split; [|split; assumption]. intros q E. discriminate.
Qed.

(* ---- 3. silent after stop / close ----------------------------------------------------------- *)

Definition is_start (o : op) : bool := match o with Start => true | _ => false end.
Definition no_start (ops : list op) : bool := forallb (fun o => negb (is_start o)) ops.

Lemma pushes_deliver_off c s q : fwd s = false -> pushes (snd (deliver c s q)) = [].
Proof.
  intro F. destruct q; simpl; rewrite ?F; simpl; try reflexivity.
  - destruct (v =? vol s); reflexivity.
  - destruct (v =? dev s); reflexivity.
  - destruct (v =? foc s); reflexivity.
Qed.

Lemma pushes_drain_off c l : forall s, fwd s = false -> pushes (snd (drain c s l)) = [].
Proof.
  induction l as [|q l IH]; intros s F; simpl; [reflexivity|].
  pose proof (pushes_deliver_off c s q F) as A.
  pose proof (deliver_frame c s q) as ((_ & _ & F3 & _) & _).
  destruct (deliver c s q) as [s1 o1]. simpl in *.
  assert (F1 : fwd s1 = false) by congruence.
  pose proof (IH s1 F1) as B.
  destruct (drain c s1 l) as [s2 o2]. simpl in *.
  now rewrite pushes_app, A, B.
Qed.

Lemma pushes_step_off c s o : fwd s = false -> pushes (snd (fst (step c s o))) = [].
Proof.
  intro F. destruct (is_run o) eqn:R.
  - destruct o; try discriminate; simpl.
    + destruct (queue s) as [|q tl]; simpl; [reflexivity|].
      pose proof (pushes_deliver_off c (set_vals s (vol s) (dev s) (foc s) tl) q F) as A.
      destruct (deliver c (set_vals s (vol s) (dev s) (foc s) tl) q) as [s' d]. exact A.
    + pose proof (pushes_drain_off c (queue s) (set_vals s (vol s) (dev s) (foc s) []) F) as A.
      destruct (drain c (set_vals s (vol s) (dev s) (foc s) []) (queue s)) as [s' d]. exact A.
  - now rewrite (step_norun c s o R).
Qed.

(* fwd and blocked after one step *)
Lemma step_ctl c s o :
  let s' := fst (fst (step c s o)) in
  match o with
  | Start => if blocked s then s' = s else (fwd s' = true /\ blocked s' = false)
  | Stop => if blocked s then s' = s else (fwd s' = false /\ blocked s' = false)
  | Close => if blocked s then s' = s else fwd s' = false
  | _ => fwd s' = fwd s /\ blocked s' = blocked s
  end.
Proof.
  destruct o; simpl; try (split; reflexivity).
  - destruct (opt_eqb (prev s p) (Some s0)); split; reflexivity.
  - destruct (blocked s); [reflexivity | split; reflexivity].
  - destruct (blocked s); [reflexivity|].
    destruct (stop_all (sraise c) (regs c) (lis s)); split; reflexivity.
  - destruct (blocked s); [reflexivity|].
    destruct (stop_all (sraise c) (regs c) (lis s)) as [l []]; reflexivity.
  - pose proof (takeover_data p l s []) as D. destruct (takeover s p l []) as [s' r]. simpl in *.
    destruct D as (_ & _ & D3 & D4 & _). split; assumption.
  - destruct (release_data l s) as (_ & _ & D3 & D4 & _). split; assumption.
  - destruct (memb p (aregs c)); split; reflexivity.
  - destruct (opt_eqb (main_of (kregs c) (ktake s)) (Some p)); split; reflexivity.
  - destruct (queue s) as [|q tl]; simpl; [split; reflexivity|].
    pose proof (deliver_frame c (set_vals s (vol s) (dev s) (foc s) tl) q) as ((_ & _ & F3 & _ & _ & F6) & _).
    destruct (deliver c (set_vals s (vol s) (dev s) (foc s) tl) q) as [s' d]. simpl in *. split; assumption.
  - pose proof (drain_frame c (queue s) (set_vals s (vol s) (dev s) (foc s) [])) as ((_ & _ & F3 & _ & _ & F6) & _).
    destruct (drain c (set_vals s (vol s) (dev s) (foc s) []) (queue s)) as [s' d]. simpl in *. split; assumption.
  - uv ltac:(simpl; split; congruence).
  - uv ltac:(simpl; split; congruence).
  - uv ltac:(simpl; split; congruence).
Qed.

Definition inv (s : st) : Prop := blocked s = true -> fwd s = false.

Lemma inv_init : inv init.
Proof. intro H. discriminate. Qed.

Lemma inv_step c s o : inv s -> inv (fst (fst (step c s o))).
Proof.
  intro I. pose proof (step_ctl c s o) as H. cbv zeta in H. unfold inv in *.
  destruct o; try (destruct H as [H1 H2]; rewrite H1, H2; exact I).
  - destruct (blocked s) eqn:B; [rewrite H; intros _; now apply I | destruct H as [H1 H2]; rewrite H2; discriminate].
  - destruct (blocked s) eqn:B; [rewrite H; intros _; now apply I | destruct H as [H1 H2]; rewrite H2; discriminate].
  - destruct (blocked s) eqn:B; [rewrite H; intros _; now apply I | intros _; exact H].
Qed.

Lemma inv_final c : forall ops s, inv s -> inv (final c s ops).
Proof.
  induction ops as [|o t IH]; intros s I; [assumption|].
  rewrite final_cons. apply IH. now apply inv_step.
Qed.

Lemma silent_gen c : forall ops s,
  fwd s = false -> no_start ops = true -> pushes (outs c s ops) = [].
Proof.
  induction ops as [|o t IH]; intros s F N; [reflexivity|].
  simpl in N. apply andb_true_iff in N as [N1 N2].
  rewrite outs_cons, pushes_app, (pushes_step_off c s o F). simpl.
  apply IH; [|assumption].
  pose proof (step_ctl c s o) as H. cbv zeta in H.
  destruct o; try discriminate; try (destruct H as [H1 _]; congruence).
  - destruct (blocked s); [now rewrite H | now destruct H].
  - destruct (blocked s); [now rewrite H | exact H].
Qed.

Lemma stop_all_ok bad : forall r f,
  forallb (fun p => negb (memb p bad)) r = true -> snd (stop_all bad r f) = true.
Proof.
  induction r as [|p r IH]; intros f H; [reflexivity|].
  simpl in H. apply andb_true_iff in H as [H1 H2]. simpl.
  destruct (memb p bad); [discriminate|]. now apply IH.
Qed.

(* stop() and close() switch forwarding off whether or not they run to the end *)
Lemma fwd_after_stop_or_close c s o :
  inv s -> (o = Stop \/ o = Close) -> fwd (fst (fst (step c s o))) = false.
Proof.
  intros I O. pose proof (step_ctl c s o) as H. cbv zeta in H. unfold inv in I.
  destruct O as [-> | ->]; destruct (blocked s) eqn:B.
  - rewrite H. now apply I.
  - now destruct H.
  - rewrite H. now apply I.
  - exact H.
Qed.

Lemma silent_blocked c : forall ops s,
  blocked s = true -> fwd s = false -> pushes (outs c s ops) = [].
Proof.
  induction ops as [|o t IH]; intros s B F; [reflexivity|].
  rewrite outs_cons, pushes_app, (pushes_step_off c s o F). simpl.
  pose proof (step_ctl c s o) as H. cbv zeta in H. rewrite B in H.
  destruct o; try (destruct H as [H1 H2]; apply IH; congruence);
    rewrite H; now apply IH.
Qed.

(* ---- 4. the comparers: exactly the adjacent unequal pairs, with the right old value ---------- *)

Lemma last_cons {A} : forall (a : list A) v o, last (v :: a) o = last a v.
Proof.
  induction a as [|x a IH]; intros v o; [reflexivity|].
  change (last (v :: x :: a) o) with (last (x :: a) o). now rewrite !IH.
Qed.

Lemma pairs_app : forall a o b, pairs o (a ++ b) = pairs o a ++ pairs (last a o) b.
Proof.
  induction a as [|v a IH]; intros o b; [reflexivity|].
  rewrite last_cons. simpl pairs. rewrite IH, <- app_assoc. reflexivity.
Qed.

Lemma last_app_gen {A} : forall (a b : list A) d, last (a ++ b) d = last b (last a d).
Proof.
  induction a as [|x a IH]; intros b d; [reflexivity|].
  rewrite <- app_comm_cons, !last_cons. apply IH.
Qed.

(* volume levels announced by the protocols, in order: device-side changes and the levels that
   result from the user's set_volume / volume_up / volume_down (when not blocked and some
   protocol provides Audio) *)
Definition uvol (c : cfg) (s : st) (f : nat -> nat) : list nat :=
  if blocked s then []
  else match main_of (aregs c) None with None => [] | Some m => [f (alev s m)] end.
Definition hvol (c : cfg) (s : st) (o : op) : list nat :=
  match o with
  | DispVol _ v => [v]
  | SetVol v => uvol c s (fun _ => v)
  | VolUp => uvol c s (fun a => Nat.min (S a) max_level)
  | VolDown => uvol c s (fun a => a - 1)
  | _ => []
  end.
Fixpoint dvols (c : cfg) (s : st) (ops : list op) : list nat :=
  match ops with
  | [] => []
  | o :: t => hvol c s o ++ dvols c (fst (fst (step c s o))) t
  end.
Fixpoint ddevs (ops : list op) : list nat :=
  match ops with [] => [] | DispDev _ v :: t => v :: ddevs t | _ :: t => ddevs t end.

(* focus values that pass the dispatch-time filter (sent by the keyboard's main protocol) *)
Fixpoint dfocs (c : cfg) (s : st) (ops : list op) : list nat :=
  match ops with
  | [] => []
  | o :: t =>
      (match o with
       | DispFocus p v => if opt_eqb (main_of (kregs c) (ktake s)) (Some p) then [v] else []
       | _ => []
       end) ++ dfocs c (fst (fst (step c s o))) t
  end.

Lemma vol_deliver c s q :
  vols (snd (deliver c s q)) ++ pairs (vol (fst (deliver c s q))) [] = pairs (vol s) (qvols [q])
  /\ vol (fst (deliver c s q)) = last (qvols [q]) (vol s).
Proof.
  destruct q; simpl; try (split; reflexivity).
  - destruct (fwd s && opt_eqb (main_of (regs c) (take s)) (Some p)); split; reflexivity.
  - destruct (fwd s && opt_eqb (main_of (regs c) (take s)) (Some p)); split; reflexivity.
  - destruct (v =? vol s); split; reflexivity.
  - destruct (v =? dev s); split; reflexivity.
  - destruct (v =? foc s); split; reflexivity.
Qed.

Lemma vol_drain c l : forall s,
  vols (snd (drain c s l)) = pairs (vol s) (qvols l) /\ vol (fst (drain c s l)) = last (qvols l) (vol s).
Proof.
  induction l as [|q l IH]; intro s; [simpl; split; reflexivity|].
  cbn [drain].
  pose proof (vol_deliver c s q) as (A1 & A2).
  destruct (deliver c s q) as [s1 o1]. cbn [fst snd] in A1, A2.
  pose proof (IH s1) as (B1 & B2).
  destruct (drain c s1 l) as [s2 o2]. cbn [fst snd] in *.
  cbn [pairs] in A1. rewrite app_nil_r in A1.
  change (q :: l) with ([q] ++ l). rewrite qvols_app, pairs_app, vols_app, last_app_gen, <- A2.
  rewrite A1, B1. split; [reflexivity | exact B2].
Qed.

Ltac fin_q :=
  simpl; rewrite ?qvols_app, ?qdevs_app, ?qfocs_app; simpl; rewrite ?app_nil_r; split; reflexivity.

Lemma vol_norun c s o :
  is_run o = false ->
  vol (fst (fst (step c s o))) = vol s /\
  qvols (queue (fst (fst (step c s o)))) = qvols (queue s) ++ hvol c s o.
Proof.
  destruct o; simpl; try discriminate; intros _; try fin_q.
  - destruct (opt_eqb (prev s p) (Some s0)); [|destruct (lis s p)]; fin_q.
  - destruct (lis s p); fin_q.
  - destruct (blocked s); fin_q.
  - destruct (blocked s); [fin_q|]. destruct (stop_all (sraise c) (regs c) (lis s)); fin_q.
  - destruct (blocked s); [fin_q|]. destruct (stop_all (sraise c) (regs c) (lis s)) as [l []]; fin_q.
  - pose proof (takeover_data p l s []) as D. destruct (takeover s p l []) as [s' r]. simpl in *.
    destruct D as (_ & _ & _ & _ & D5 & D6 & D7 & D8). rewrite ?D5, ?D6, ?D7, D8. fin_q.
  - destruct (release_data l s) as (_ & _ & _ & _ & D5 & D6 & D7 & D8). rewrite ?D5, ?D6, ?D7, D8. fin_q.
  - destruct (memb p (aregs c)); fin_q.
  - destruct (opt_eqb (main_of (kregs c) (ktake s)) (Some p)); fin_q.
  - unfold uvol. uv fin_q.
  - unfold uvol. uv fin_q.
  - unfold uvol. uv fin_q.
Qed.

Lemma vol_gen c : forall ops s,
  vols (outs c s ops) ++ pairs (vol (final c s ops)) (qvols (queue (final c s ops))) =
    pairs (vol s) (qvols (queue s) ++ dvols c s ops).
Proof.
  induction ops as [|o t IH]; intro s.
  - unfold outs. simpl. now rewrite app_nil_r.
  - rewrite outs_cons, final_cons, vols_app, <- app_assoc, IH. clear IH.
    change (dvols c s (o :: t)) with (hvol c s o ++ dvols c (fst (fst (step c s o))) t).
    destruct (is_run o) eqn:R.
    + destruct o; try discriminate; simpl.
      * destruct (queue s) as [|q tl] eqn:Q; simpl; [now rewrite Q|].
        set (s0 := set_vals s (vol s) (dev s) (foc s) tl).
        pose proof (vol_deliver c s0 q) as (A1 & A2).
        pose proof (deliver_frame c s0 q) as (_ & F7).
        destruct (deliver c s0 q) as [s' d]. cbn [fst snd] in *.
        cbn [pairs] in A1. rewrite app_nil_r in A1. rewrite A1, A2, F7. simpl vol. simpl queue.
        rewrite <- pairs_app. destruct q; reflexivity.
      * set (s0 := set_vals s (vol s) (dev s) (foc s) []).
        pose proof (vol_drain c (queue s) s0) as (A1 & A2).
        pose proof (drain_frame c (queue s) s0) as (_ & F7).
        destruct (drain c s0 (queue s)) as [s' d]. cbn [fst snd] in *.
        rewrite A1, A2, F7. simpl. now rewrite pairs_app.
    + rewrite (step_norun c s o R). destruct (vol_norun c s o R) as (V1 & V2).
      rewrite V1, V2, <- app_assoc. reflexivity.
Qed.

(* the same for the output devices (generated from the volume proofs by renaming) *)
Lemma dev_deliver c s q :
  devs (snd (deliver c s q)) ++ pairs (dev (fst (deliver c s q))) [] = pairs (dev s) (qdevs [q])
  /\ dev (fst (deliver c s q)) = last (qdevs [q]) (dev s).
Proof.
  destruct q; simpl; try (split; reflexivity).
  - destruct (fwd s && opt_eqb (main_of (regs c) (take s)) (Some p)); split; reflexivity.
  - destruct (fwd s && opt_eqb (main_of (regs c) (take s)) (Some p)); split; reflexivity.
  - destruct (v =? vol s); split; reflexivity.
  - destruct (v =? dev s); split; reflexivity.
  - destruct (v =? foc s); split; reflexivity.
Qed.

Lemma dev_drain c l : forall s,
  devs (snd (drain c s l)) = pairs (dev s) (qdevs l) /\ dev (fst (drain c s l)) = last (qdevs l) (dev s).
Proof.
  induction l as [|q l IH]; intro s; [simpl; split; reflexivity|].
  cbn [drain].
  pose proof (dev_deliver c s q) as (A1 & A2).
  destruct (deliver c s q) as [s1 o1]. cbn [fst snd] in A1, A2.
  pose proof (IH s1) as (B1 & B2).
  destruct (drain c s1 l) as [s2 o2]. cbn [fst snd] in *.
  cbn [pairs] in A1. rewrite app_nil_r in A1.
  change (q :: l) with ([q] ++ l). rewrite qdevs_app, pairs_app, devs_app, last_app_gen, <- A2.
  rewrite A1, B1. split; [reflexivity | exact B2].
Qed.

Lemma dev_norun c s o :
  is_run o = false ->
  dev (fst (fst (step c s o))) = dev s /\
  qdevs (queue (fst (fst (step c s o)))) = qdevs (queue s) ++ ddevs [o].
Proof.
  destruct o; simpl; try discriminate; intros _; try fin_q.
  - destruct (opt_eqb (prev s p) (Some s0)); [|destruct (lis s p)]; fin_q.
  - destruct (lis s p); fin_q.
  - destruct (blocked s); fin_q.
  - destruct (blocked s); [fin_q|]. destruct (stop_all (sraise c) (regs c) (lis s)); fin_q.
  - destruct (blocked s); [fin_q|]. destruct (stop_all (sraise c) (regs c) (lis s)) as [l []]; fin_q.
  - pose proof (takeover_data p l s []) as D. destruct (takeover s p l []) as [s' r]. simpl in *.
    destruct D as (_ & _ & _ & _ & D5 & D6 & D7 & D8). rewrite ?D5, ?D6, ?D7, D8. fin_q.
  - destruct (release_data l s) as (_ & _ & _ & _ & D5 & D6 & D7 & D8). rewrite ?D5, ?D6, ?D7, D8. fin_q.
  - destruct (memb p (aregs c)); fin_q.
  - destruct (opt_eqb (main_of (kregs c) (ktake s)) (Some p)); fin_q.
  - unfold uvol. uv fin_q.
  - unfold uvol. uv fin_q.
  - unfold uvol. uv fin_q.
Qed.

Lemma ddevs_cons o t : ddevs (o :: t) = ddevs [o] ++ ddevs t.
Proof. destruct o; reflexivity. Qed.

Lemma dev_gen c : forall ops s,
  devs (outs c s ops) ++ pairs (dev (final c s ops)) (qdevs (queue (final c s ops))) =
    pairs (dev s) (qdevs (queue s) ++ ddevs ops).
Proof.
  induction ops as [|o t IH]; intro s.
  - unfold outs. simpl. now rewrite app_nil_r.
  - rewrite outs_cons, final_cons, devs_app, <- app_assoc, IH. clear IH.
    destruct (is_run o) eqn:R.
    + destruct o; try discriminate; simpl.
      * destruct (queue s) as [|q tl] eqn:Q; simpl; [now rewrite Q|].
        set (s0 := set_vals s (vol s) (dev s) (foc s) tl).
        pose proof (dev_deliver c s0 q) as (A1 & A2).
        pose proof (deliver_frame c s0 q) as (_ & F7).
        destruct (deliver c s0 q) as [s' d]. cbn [fst snd] in *.
        cbn [pairs] in A1. rewrite app_nil_r in A1. rewrite A1, A2, F7. simpl dev. simpl queue.
        rewrite <- pairs_app. destruct q; reflexivity.
      * set (s0 := set_vals s (vol s) (dev s) (foc s) []).
        pose proof (dev_drain c (queue s) s0) as (A1 & A2).
        pose proof (drain_frame c (queue s) s0) as (_ & F7).
        destruct (drain c s0 (queue s)) as [s' d]. cbn [fst snd] in *.
        rewrite A1, A2, F7. simpl. now rewrite pairs_app.
    + rewrite (step_norun c s o R). destruct (dev_norun c s o R) as (V1 & V2).
      rewrite V1, V2, (ddevs_cons o t), <- app_assoc. reflexivity.
Qed.

(* ... and for the keyboard focus state, whose inputs are the values that pass the dispatch-time filter *)
Lemma foc_deliver c s q :
  focs (snd (deliver c s q)) ++ pairs (foc (fst (deliver c s q))) [] = pairs (foc s) (qfocs [q])
  /\ foc (fst (deliver c s q)) = last (qfocs [q]) (foc s).
Proof.
  destruct q; simpl; try (split; reflexivity).
  - destruct (fwd s && opt_eqb (main_of (regs c) (take s)) (Some p)); split; reflexivity.
  - destruct (fwd s && opt_eqb (main_of (regs c) (take s)) (Some p)); split; reflexivity.
  - destruct (v =? vol s); split; reflexivity.
  - destruct (v =? dev s); split; reflexivity.
  - destruct (v =? foc s); split; reflexivity.
Qed.

Lemma foc_drain c l : forall s,
  focs (snd (drain c s l)) = pairs (foc s) (qfocs l) /\ foc (fst (drain c s l)) = last (qfocs l) (foc s).
Proof.
  induction l as [|q l IH]; intro s; [simpl; split; reflexivity|].
  cbn [drain].
  pose proof (foc_deliver c s q) as (A1 & A2).
  destruct (deliver c s q) as [s1 o1]. cbn [fst snd] in A1, A2.
  pose proof (IH s1) as (B1 & B2).
  destruct (drain c s1 l) as [s2 o2]. cbn [fst snd] in *.
  cbn [pairs] in A1. rewrite app_nil_r in A1.
  change (q :: l) with ([q] ++ l). rewrite qfocs_app, pairs_app, focs_app, last_app_gen, <- A2.
  rewrite A1, B1. split; [reflexivity | exact B2].
Qed.


Definition hfoc (c : cfg) (s : st) (o : op) : list nat :=
  match o with
  | DispFocus p v => if opt_eqb (main_of (kregs c) (ktake s)) (Some p) then [v] else []
  | _ => []
  end.

Lemma foc_norun c s o :
  is_run o = false ->
  foc (fst (fst (step c s o))) = foc s /\
  qfocs (queue (fst (fst (step c s o)))) = qfocs (queue s) ++ hfoc c s o.
Proof.
  destruct o; simpl; try discriminate; intros _; try fin_q.
  - destruct (opt_eqb (prev s p) (Some s0)); [|destruct (lis s p)]; fin_q.
  - destruct (lis s p); fin_q.
  - destruct (blocked s); fin_q.
  - destruct (blocked s); [fin_q|]. destruct (stop_all (sraise c) (regs c) (lis s)); fin_q.
  - destruct (blocked s); [fin_q|]. destruct (stop_all (sraise c) (regs c) (lis s)) as [l []]; fin_q.
  - pose proof (takeover_data p l s []) as D. destruct (takeover s p l []) as [s' r]. simpl in *.
    destruct D as (_ & _ & _ & _ & D5 & D6 & D7 & D8). rewrite ?D5, ?D6, ?D7, D8. fin_q.
  - destruct (release_data l s) as (_ & _ & _ & _ & D5 & D6 & D7 & D8). rewrite ?D5, ?D6, ?D7, D8. fin_q.
  - destruct (memb p (aregs c)); fin_q.
  - destruct (opt_eqb (main_of (kregs c) (ktake s)) (Some p)); fin_q.
  - unfold uvol. uv fin_q.
  - unfold uvol. uv fin_q.
  - unfold uvol. uv fin_q.
Qed.

Lemma foc_gen c : forall ops s,
  focs (outs c s ops) ++ pairs (foc (final c s ops)) (qfocs (queue (final c s ops))) =
    pairs (foc s) (qfocs (queue s) ++ dfocs c s ops).
Proof.
  induction ops as [|o t IH]; intro s.
  - unfold outs. simpl. now rewrite app_nil_r.
  - rewrite outs_cons, final_cons, focs_app, <- app_assoc, IH. clear IH.
    change (dfocs c s (o :: t)) with (hfoc c s o ++ dfocs c (fst (fst (step c s o))) t).
    destruct (is_run o) eqn:R.
    + destruct o; try discriminate; simpl.
      * destruct (queue s) as [|q tl] eqn:Q; simpl; [now rewrite Q|].
        set (s0 := set_vals s (vol s) (dev s) (foc s) tl).
        pose proof (foc_deliver c s0 q) as (A1 & A2).
        pose proof (deliver_frame c s0 q) as (_ & F7).
        destruct (deliver c s0 q) as [s' d]. cbn [fst snd] in *.
        cbn [pairs] in A1. rewrite app_nil_r in A1. rewrite A1, A2, F7. simpl foc. simpl queue.
        rewrite <- pairs_app. destruct q; reflexivity.
      * set (s0 := set_vals s (vol s) (dev s) (foc s) []).
        pose proof (foc_drain c (queue s) s0) as (A1 & A2).
        pose proof (drain_frame c (queue s) s0) as (_ & F7).
        destruct (drain c s0 (queue s)) as [s' d]. cbn [fst snd] in *.
        rewrite A1, A2, F7. simpl. now rewrite pairs_app.
    + rewrite (step_norun c s o R). destruct (foc_norun c s o R) as (V1 & V2).
      rewrite V1, V2, <- app_assoc. reflexivity.
Qed.

(* ---- 5. completeness in the steady regime: started, nobody stops or takes over ---------------- *)

Definition quiet_op (o : op) : bool :=
  match o with
  | Post _ _ | Err _ | DispVol _ _ | DispDev _ _ | DispFocus _ _ | Run1 | RunAll => true
  | _ => false
  end.
Definition quiet (ops : list op) : bool := forallb quiet_op ops.

Definition streaming (c : cfg) (m : nat) (s : st) : Prop :=
  fwd s = true /\ main_of (regs c) (take s) = Some m /\ lis s m = true.

Definition fm (m : nat) (l : list (nat * nat)) : list (nat * nat) := filter (fun x => fst x =? m) l.

Lemma fm_app m a b : fm m (a ++ b) = fm m a ++ fm m b.
Proof. apply filter_app. Qed.

Lemma streaming_same c m s s' :
  fwd s' = fwd s -> take s' = take s -> lis s' = lis s -> streaming c m s -> streaming c m s'.
Proof. intros F T L (A & B & C). unfold streaming. rewrite F, T, L. auto. Qed.

Lemma plays_deliver_streaming c m s q :
  streaming c m s -> plays (snd (deliver c s q)) = fm m (qplays [q]).
Proof.
  intros (F & M & _). destruct q; simpl; rewrite ?F, ?M; simpl; try reflexivity.
  - rewrite (Nat.eqb_sym p m). destruct (m =? p); reflexivity.
  - destruct (m =? p); reflexivity.
  - destruct (v =? vol s); reflexivity.
  - destruct (v =? dev s); reflexivity.
  - destruct (v =? foc s); reflexivity.
Qed.

Lemma plays_drain_streaming c m l : forall s,
  streaming c m s -> plays (snd (drain c s l)) = fm m (qplays l).
Proof.
  induction l as [|q l IH]; intros s S; [reflexivity|].
  cbn [drain].
  pose proof (plays_deliver_streaming c m s q S) as A.
  pose proof (deliver_frame c s q) as ((_ & F2 & F3 & F4 & _) & _).
  destruct (deliver c s q) as [s1 o1]. cbn [fst snd] in *.
  pose proof (IH s1 (streaming_same c m s s1 F3 F4 F2 S)) as B.
  destruct (drain c s1 l) as [s2 o2]. cbn [fst snd] in *.
  change (q :: l) with ([q] ++ l). now rewrite plays_app, qplays_app, fm_app, A, B.
Qed.

Lemma complete_gen c m : forall ops s,
  streaming c m s -> quiet ops = true ->
  plays (outs c s ops) ++ fm m (qplays (queue (final c s ops))) =
    fm m (qplays (queue s) ++ produced (prev s) ops).
Proof.
  induction ops as [|o t IH]; intros s S Q.
  - unfold outs. simpl. now rewrite app_nil_r.
  - simpl in Q. apply andb_true_iff in Q as [Q1 Q2].
    rewrite outs_cons, final_cons, plays_app, <- app_assoc.
    pose proof S as (SF & SM & SL).
    destruct o; try discriminate.
    + (* Post *)
      rewrite (step_norun c s (Post p s0) eq_refl). simpl.
      destruct (opt_eqb (prev s p) (Some s0)) eqn:E.
      * rewrite IH; [|apply (streaming_same c m s); auto|assumption]. simpl.
        rewrite (produced_ext t (upd (prev s) p (Some s0)) (prev s)); [reflexivity|].
        intro q. unfold upd. destruct (q =? p) eqn:QP; [|reflexivity].
        apply Nat.eqb_eq in QP. subst q. symmetry. now apply opt_eqb_true.
      * rewrite IH; [|apply (streaming_same c m s); auto|assumption]. simpl.
        rewrite qplays_app, <- app_assoc, !fm_app. f_equal.
        change ((p, s0) :: produced (upd (prev s) p (Some s0)) t)
          with ([(p, s0)] ++ produced (upd (prev s) p (Some s0)) t).
        rewrite fm_app. f_equal.
        destruct (p =? m) eqn:PM.
        -- apply Nat.eqb_eq in PM. subst p. rewrite SL. reflexivity.
        -- destruct (lis s p); simpl; rewrite PM; reflexivity.
    + (* Err *)
      rewrite (step_norun c s (Err p) eq_refl). simpl.
      rewrite IH; [|apply (streaming_same c m s); auto|assumption]. simpl.
      rewrite qplays_app. destruct (lis s p); simpl; now rewrite app_nil_r.
    + rewrite (step_norun c s (DispVol p v) eq_refl). simpl.
      destruct (memb p (aregs c));
        (rewrite IH; [|apply (streaming_same c m s); auto|assumption]); simpl;
        rewrite qplays_app; simpl; now rewrite app_nil_r.
    + rewrite (step_norun c s (DispDev p v) eq_refl). simpl.
      rewrite IH; [|apply (streaming_same c m s); auto|assumption]. simpl.
      rewrite qplays_app. simpl. now rewrite app_nil_r.
    + rewrite (step_norun c s (DispFocus p v) eq_refl). simpl.
      destruct (opt_eqb (main_of (kregs c) (ktake s)) (Some p)); simpl.
      * rewrite IH; [|apply (streaming_same c m s); auto|assumption]. simpl.
        rewrite qplays_app. simpl. now rewrite app_nil_r.
      * now rewrite IH.
    + (* Run1 *)
      simpl. destruct (queue s) as [|q tl] eqn:QQ; simpl.
      * rewrite IH; [|assumption|assumption]. now rewrite QQ.
      * set (s0 := set_vals s (vol s) (dev s) (foc s) tl).
        assert (S0 : streaming c m s0) by (apply (streaming_same c m s); auto).
        pose proof (plays_deliver_streaming c m s0 q S0) as A.
        pose proof (deliver_frame c s0 q) as ((F1 & F2 & F3 & F4 & _) & F7).
        destruct (deliver c s0 q) as [s' d]. cbn [fst snd] in *.
        rewrite IH; [|apply (streaming_same c m s0); auto|assumption].
        rewrite A, F1, F7. simpl. rewrite <- fm_app. destruct q; reflexivity.
    + (* RunAll *)
      simpl. set (s0 := set_vals s (vol s) (dev s) (foc s) []).
      assert (S0 : streaming c m s0) by (apply (streaming_same c m s); auto).
      pose proof (plays_drain_streaming c m (queue s) s0 S0) as A.
      pose proof (drain_frame c (queue s) s0) as ((F1 & F2 & F3 & F4 & _) & F7).
      destruct (drain c s0 (queue s)) as [s' d]. cbn [fst snd] in *.
      rewrite IH; [|apply (streaming_same c m s0); auto|assumption].
      rewrite A, F1, F7. simpl. now rewrite fm_app.
Qed.

Lemma produced_snoc_run f : forall ops, produced f (ops ++ [RunAll]) = produced f ops.
Proof.
  intro ops. revert f. induction ops as [|o t IH]; intro f; [reflexivity|].
  destruct o; simpl; try apply IH.
  destruct (opt_eqb (f p) (Some s)); [apply IH | f_equal; apply IH].
Qed.

Lemma final_runall_queue c : forall ops s, queue (final c s (ops ++ [RunAll])) = [].
Proof.
  intros ops s. rewrite final_app. simpl.
  set (s1 := final c s ops).
  pose proof (drain_frame c (queue s1) (set_vals s1 (vol s1) (dev s1) (foc s1) [])) as (_ & F7).
  destruct (drain c (set_vals s1 (vol s1) (dev s1) (foc s1) []) (queue s1)) as [s' d]. exact F7.
Qed.

(* ---- 6. the error path in the steady regime: every error of the main protocol's updater is forwarded ---- *)

Fixpoint errs (l : list out) : list nat :=
  match l with [] => [] | DErr p :: t => p :: errs t | _ :: t => errs t end.
Fixpoint qerrs (l : list qitem) : list nat :=
  match l with [] => [] | QErr p :: t => p :: qerrs t | _ :: t => qerrs t end.
Fixpoint posted_errs (ops : list op) : list nat :=
  match ops with [] => [] | Err p :: t => p :: posted_errs t | _ :: t => posted_errs t end.
Definition fe (m : nat) (l : list nat) : list nat := filter (fun p => p =? m) l.

Lemma errs_app a b : errs (a ++ b) = errs a ++ errs b.
Proof. induction a as [|x a IH]; simpl; [reflexivity|]. destruct x; simpl; now rewrite IH. Qed.
Lemma qerrs_app a b : qerrs (a ++ b) = qerrs a ++ qerrs b.
Proof. induction a as [|x a IH]; simpl; [reflexivity|]. destruct x; simpl; now rewrite IH. Qed.
Lemma fe_app m a b : fe m (a ++ b) = fe m a ++ fe m b.
Proof. apply filter_app. Qed.

Lemma errs_deliver_streaming c m s q :
  streaming c m s -> errs (snd (deliver c s q)) = fe m (qerrs [q]).
Proof.
  intros (F & M & _). destruct q; simpl; rewrite ?F, ?M; simpl; try reflexivity.
  - destruct (m =? p); reflexivity.
  - rewrite (Nat.eqb_sym p m). destruct (m =? p); reflexivity.
  - destruct (v =? vol s); reflexivity.
  - destruct (v =? dev s); reflexivity.
  - destruct (v =? foc s); reflexivity.
Qed.

Lemma errs_drain_streaming c m l : forall s,
  streaming c m s -> errs (snd (drain c s l)) = fe m (qerrs l).
Proof.
  induction l as [|q l IH]; intros s S; [reflexivity|].
  cbn [drain].
  pose proof (errs_deliver_streaming c m s q S) as A.
  pose proof (deliver_frame c s q) as ((_ & F2 & F3 & F4 & _) & _).
  destruct (deliver c s q) as [s1 o1]. cbn [fst snd] in *.
  pose proof (IH s1 (streaming_same c m s s1 F3 F4 F2 S)) as B.
  destruct (drain c s1 l) as [s2 o2]. cbn [fst snd] in *.
  change (q :: l) with ([q] ++ l). now rewrite errs_app, qerrs_app, fe_app, A, B.
Qed.

Lemma errors_gen c m : forall ops s,
  streaming c m s -> quiet ops = true ->
  errs (outs c s ops) ++ fe m (qerrs (queue (final c s ops))) =
    fe m (qerrs (queue s) ++ posted_errs ops).
Proof.
  induction ops as [|o t IH]; intros s S Q.
  - unfold outs. simpl. now rewrite app_nil_r.
  - simpl in Q. apply andb_true_iff in Q as [Q1 Q2].
    rewrite outs_cons, final_cons, errs_app, <- app_assoc.
    pose proof S as (SF & SM & SL).
    destruct o; try discriminate.
    + rewrite (step_norun c s (Post p s0) eq_refl). simpl.
      destruct (opt_eqb (prev s p) (Some s0)).
      * rewrite IH; [|apply (streaming_same c m s); auto|assumption]. reflexivity.
      * rewrite IH; [|apply (streaming_same c m s); auto|assumption]. simpl.
        rewrite qerrs_app. destruct (lis s p); simpl; now rewrite app_nil_r.
    + (* Err *)
      rewrite (step_norun c s (Err p) eq_refl). simpl.
      rewrite IH; [|apply (streaming_same c m s); auto|assumption]. simpl.
      rewrite qerrs_app, <- app_assoc, !fe_app. f_equal.
      change (p :: posted_errs t) with ([p] ++ posted_errs t). rewrite fe_app. f_equal.
      destruct (p =? m) eqn:PM.
      * apply Nat.eqb_eq in PM. subst p. rewrite SL. reflexivity.
      * destruct (lis s p); simpl; rewrite PM; reflexivity.
    + rewrite (step_norun c s (DispVol p v) eq_refl). simpl.
      destruct (memb p (aregs c));
        (rewrite IH; [|apply (streaming_same c m s); auto|assumption]); simpl;
        rewrite qerrs_app; simpl; now rewrite app_nil_r.
    + rewrite (step_norun c s (DispDev p v) eq_refl). simpl.
      rewrite IH; [|apply (streaming_same c m s); auto|assumption]. simpl.
      rewrite qerrs_app. simpl. now rewrite app_nil_r.
    + rewrite (step_norun c s (DispFocus p v) eq_refl). simpl.
      destruct (opt_eqb (main_of (kregs c) (ktake s)) (Some p)); simpl.
      * rewrite IH; [|apply (streaming_same c m s); auto|assumption]. simpl.
        rewrite qerrs_app. simpl. now rewrite app_nil_r.
      * now rewrite IH.
    + simpl. destruct (queue s) as [|q tl] eqn:QQ; simpl.
      * rewrite IH; [|assumption|assumption]. now rewrite QQ.
      * set (s0 := set_vals s (vol s) (dev s) (foc s) tl).
        assert (S0 : streaming c m s0) by (apply (streaming_same c m s); auto).
        pose proof (errs_deliver_streaming c m s0 q S0) as A.
        pose proof (deliver_frame c s0 q) as ((F1 & F2 & F3 & F4 & _) & F7).
        destruct (deliver c s0 q) as [s' d]. cbn [fst snd] in *.
        rewrite IH; [|apply (streaming_same c m s0); auto|assumption].
        rewrite A, F7. simpl. rewrite <- fe_app. destruct q; reflexivity.
    + simpl. set (s0 := set_vals s (vol s) (dev s) (foc s) []).
      assert (S0 : streaming c m s0) by (apply (streaming_same c m s); auto).
      pose proof (errs_drain_streaming c m (queue s) s0 S0) as A.
      pose proof (drain_frame c (queue s) s0) as ((F1 & F2 & F3 & F4 & _) & F7).
      destruct (drain c s0 (queue s)) as [s' d]. cbn [fst snd] in *.
      rewrite IH; [|apply (streaming_same c m s0); auto|assumption].
      rewrite A, F7. simpl. now rewrite fe_app.
Qed.

Lemma posted_errs_snoc_run : forall ops, posted_errs (ops ++ [RunAll]) = posted_errs ops.
Proof. induction ops as [|o t IH]; [reflexivity|]. destruct o; simpl; now rewrite ?IH. Qed.
