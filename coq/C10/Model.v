(* C10 - model of the push-update path and of the facade's old/new comparers.

   Mirrors, branch for branch:
     pyatv/core/__init__.py   AbstractPushUpdater.post_update: compare with _previous_state,
                              loop.call_soon(self.listener.playstatus_update, self, playing) - the
                              listener method is resolved WHEN POSTING (a null function if the
                              updater has no listener), _previous_state is always overwritten
     pyatv/core/facade.py     FacadePushUpdater.start/stop (guarded; set/clear the listener of
                              every registered updater and the _forward_updates flag),
                              playstatus_update/playstatus_error: forwarded iff _forward_updates and
                              updater == main_instance, tested WHEN THE CALL-BACK RUNS;
                              FacadeAppleTV.takeover (left to right, rollback on InvalidStateError),
                              FacadeAppleTV.close (push_updater.stop(), block);
                              FacadeAudio._volume_changed/_output_devices_changed,
                              FacadeKeyboard._focus_state_changed + message_filter (main_protocol,
                              tested when DISPATCHING)
     pyatv/core/relayer.py    main_instance/main_protocol: first registered in takeover ++ priorities
     pyatv/core/protocol.py   MessageDispatcher.dispatch: loop.call_soon(func, message) per listener
   The event loop is a FIFO of scheduled call-backs. *)
From Coq Require Import List Arith Bool.
From PV Require Import Common.Cases C10.Spec.
Import ListNotations.

(* which protocols (ranks) registered a push updater / a keyboard instance *)
(* sraise: protocols whose push updater's stop() raises (fault while tearing the protocol down) *)
(* aregs: protocols that registered an Audio instance *)
(* lfault: the notifications (numbered over all user listeners) at which the user's listener
   raises after having been called.  It is an input of a run that NO definition below looks at:
   the facade stores the new value before it calls the listener, and a listener that raises
   only aborts that one call-back (the loop contains the exception) - see
   C10_listener_faults_do_not_matter. *)
Record cfg := { regs : list nat; kregs : list nat; sraise : list nat; aregs : list nat;
                lfault : list nat }.

Inductive qitem :=
  | QPlay (p s : nat)      (* FacadePushUpdater.playstatus_update(updater p, s) *)
  | QErr (p : nat)         (* FacadePushUpdater.playstatus_error(updater p, exc) *)
  | QNoop                  (* the proxy's null function *)
  | QVol (v : nat) | QDev (v : nat) | QFocus (v : nat).

(* calls received by the user's listeners *)
Inductive out :=
  | DPlay (p s : nat) | DErr (p : nat)
  | DVol (o n : nat) | DDev (o n : nat) | DFocus (o n : nat).

Inductive res := ROk | RBlocked | RInvalid | RRaise | RNotSup.

Record st := {
  prev : nat -> option nat;       (* _previous_state of protocol p's updater *)
  lis : nat -> bool;              (* does protocol p's updater have the facade as listener? *)
  fwd : bool;                     (* FacadePushUpdater._forward_updates *)
  take : option nat;              (* takeover holder of the PushUpdater relayer *)
  ktake : option nat;             (* takeover holder of the Keyboard relayer *)
  blocked : bool;
  vol : nat; dev : nat; foc : nat;
  queue : list qitem;
  alev : nat -> nat               (* volume level held by protocol p's Audio instance (unit: one
                                     volume step of 5 percent, 0..20) *)
}.

Definition max_level : nat := 20.

Definition init : st :=
  {| prev := fun _ => None; lis := fun _ => false; fwd := false; take := None; ktake := None;
     blocked := false; vol := 0; dev := 0; foc := 0; queue := []; alev := fun _ => 0 |}.

Definition memb (x : nat) (l : list nat) : bool := existsb (Nat.eqb x) l.

(* Relayer.main_instance / main_protocol: chain(takeover, priorities), first one registered *)
Definition main_of (r : list nat) (t : option nat) : option nat :=
  find (fun p => memb p r) ((match t with Some p => [p] | None => [] end) ++ prio).

Definition set_lis_all (r : list nat) (f : nat -> bool) (b : bool) : nat -> bool :=
  fun q => if memb q r then b else f q.

(* FacadePushUpdater.stop: for instance in self.instances: instance.listener = None; instance.stop()
   - the loop ends at the first stop() that raises; the flag says whether it ran to the end *)
Fixpoint stop_all (bad r : list nat) (f : nat -> bool) : (nat -> bool) * bool :=
  match r with
  | [] => (f, true)
  | p :: t => if memb p bad then (upd f p false, false) else stop_all bad t (upd f p false)
  end.

Definition enqueue (s : st) (q : qitem) : st :=
  {| prev := prev s; lis := lis s; fwd := fwd s; take := take s; ktake := ktake s;
     blocked := blocked s; vol := vol s; dev := dev s; foc := foc s; queue := queue s ++ [q]; alev := alev s |}.

Definition set_prev (s : st) (f : nat -> option nat) : st :=
  {| prev := f; lis := lis s; fwd := fwd s; take := take s; ktake := ktake s;
     blocked := blocked s; vol := vol s; dev := dev s; foc := foc s; queue := queue s; alev := alev s |}.

Definition set_push (s : st) (l : nat -> bool) (f : bool) (b : bool) : st :=
  {| prev := prev s; lis := l; fwd := f; take := take s; ktake := ktake s;
     blocked := b; vol := vol s; dev := dev s; foc := foc s; queue := queue s; alev := alev s |}.

Definition set_takes (s : st) (t k : option nat) : st :=
  {| prev := prev s; lis := lis s; fwd := fwd s; take := t; ktake := k;
     blocked := blocked s; vol := vol s; dev := dev s; foc := foc s; queue := queue s; alev := alev s |}.

Definition set_vals (s : st) (v d f : nat) (q : list qitem) : st :=
  {| prev := prev s; lis := lis s; fwd := fwd s; take := take s; ktake := ktake s;
     blocked := blocked s; vol := v; dev := d; foc := f; queue := q; alev := alev s |}.

Definition set_alev (s : st) (a : nat -> nat) : st :=
  {| prev := prev s; lis := lis s; fwd := fwd s; take := take s; ktake := ktake s;
     blocked := blocked s; vol := vol s; dev := dev s; foc := foc s; queue := queue s; alev := a |}.

Definition get_take (s : st) (i : iface) : option nat :=
  match i with IPush => take s | IKbd => ktake s end.
Definition put_take (s : st) (i : iface) (v : option nat) : st :=
  match i with IPush => set_takes s v (ktake s) | IKbd => set_takes s (take s) v end.

(* FacadeAppleTV.takeover: for iface in interfaces: relayer.takeover(protocol), on
   InvalidStateError release what was taken so far and re-raise *)
Fixpoint takeover (s : st) (p : nat) (todo taken : list iface) : st * res :=
  match todo with
  | [] => (s, ROk)
  | i :: t =>
      match get_take s i with
      | Some _ => (fold_left (fun a j => put_take a j None) taken s, RInvalid)
      | None => takeover (put_take s i (Some p)) p t (taken ++ [i])
      end
  end.

(* one scheduled call-back runs *)
Definition deliver (c : cfg) (s : st) (q : qitem) : st * list out :=
  match q with
  | QPlay p x =>
      (s, if fwd s && opt_eqb (main_of (regs c) (take s)) (Some p) then [DPlay p x] else [])
  | QErr p =>
      (s, if fwd s && opt_eqb (main_of (regs c) (take s)) (Some p) then [DErr p] else [])
  | QNoop => (s, [])
  | QVol v => (set_vals s v (dev s) (foc s) (queue s), if v =? vol s then [] else [DVol (vol s) v])
  | QDev v => (set_vals s (vol s) v (foc s) (queue s), if v =? dev s then [] else [DDev (dev s) v])
  | QFocus v => (set_vals s (vol s) (dev s) v (queue s), if v =? foc s then [] else [DFocus (foc s) v])
  end.

(* run the call-backs l one after the other (they do not schedule anything themselves) *)
Fixpoint drain (c : cfg) (s : st) (l : list qitem) : st * list out :=
  match l with
  | [] => (s, [])
  | q :: t => let '(s1, o1) := deliver c s q in
              let '(s2, o2) := drain c s1 t in (s2, o1 ++ o2)
  end.

(* FacadeAudio.set_volume / volume_up / volume_down (guarded): relayed to the Audio instance of
   highest priority, which applies the new level f(current) and announces it -
   state_dispatcher.dispatch(UpdatedState.Volume, level), as RAOP, MRP and Companion do.  The
   facade itself does NOT touch its cached volume: only _volume_changed does, when the
   announcement is delivered. *)
Definition user_vol (c : cfg) (s : st) (f : nat -> nat) : st * list out * res :=
  if blocked s then (s, [], RBlocked)
  else match main_of (aregs c) None with
       | None => (s, [], RNotSup)
       | Some m => let v := f (alev s m) in
                   (enqueue (set_alev s (upd (alev s) m v)) (QVol v), [], ROk)
       end.

Definition step (c : cfg) (s : st) (o : op) : st * list out * res :=
  match o with
  | Post p x =>
      if opt_eqb (prev s p) (Some x) then (set_prev s (upd (prev s) p (Some x)), [], ROk)
      else (set_prev (enqueue s (if lis s p then QPlay p x else QNoop)) (upd (prev s) p (Some x)), [], ROk)
  | Err p => (enqueue s (if lis s p then QErr p else QNoop), [], ROk)
  | Start =>
      if blocked s then (s, [], RBlocked)
      else (set_push s (set_lis_all (regs c) (lis s) true) true false, [], ROk)
  | Stop =>
      if blocked s then (s, [], RBlocked)
      else                                        (* _forward_updates = False comes first *)
        let '(l, ok) := stop_all (sraise c) (regs c) (lis s) in
        (set_push s l false false, [], if ok then ROk else RRaise)
  | Close =>
      if blocked s then (s, [], ROk)              (* _pending_tasks is set: returns at once *)
      else
        let '(l, ok) := stop_all (sraise c) (regs c) (lis s) in
        if ok then (set_push s l false true, [], ROk)
        else (set_push s l false false, [], RRaise)   (* push_updater.stop() raised: close() is aborted
                                                         before anything else is torn down or blocked *)
  | Take p l => let '(s', r) := takeover s p l [] in (s', [], r)
  | Rel l => (fold_left (fun a j => put_take a j None) l s, [], ROk)
  | DispVol p v =>                               (* device-side change seen by protocol p *)
      (enqueue (if memb p (aregs c) then set_alev s (upd (alev s) p v) else s) (QVol v), [], ROk)
  | SetVol v => user_vol c s (fun _ => v)
  | VolUp => user_vol c s (fun a => Nat.min (S a) max_level)
  | VolDown => user_vol c s (fun a => a - 1)
  | DispDev p v => (enqueue s (QDev v), [], ROk)
  | DispFocus p v =>
      if opt_eqb (main_of (kregs c) (ktake s)) (Some p) then (enqueue s (QFocus v), [], ROk)
      else (s, [], ROk)
  | Run1 =>
      match queue s with
      | [] => (s, [], ROk)
      | q :: t => let '(s', o) := deliver c (set_vals s (vol s) (dev s) (foc s) t) q in (s', o, ROk)
      end
  | RunAll =>
      let '(s', o) := drain c (set_vals s (vol s) (dev s) (foc s) []) (queue s) in (s', o, ROk)
  end.

(* per-op record: state before the op, what the user listeners received, result *)
Fixpoint steps (c : cfg) (s : st) (ops : list op) : list (st * (list out * res)) :=
  match ops with
  | [] => []
  | o :: t => let '(s', d, r) := step c s o in (s, (d, r)) :: steps c s' t
  end.

Fixpoint final (c : cfg) (s : st) (ops : list op) : st :=
  match ops with
  | [] => s
  | o :: t => let '(s', _, _) := step c s o in final c s' t
  end.

Definition run (c : cfg) (s : st) (ops : list op) : list (list out * res) := map snd (steps c s ops).

Definition outs (c : cfg) (s : st) (ops : list op) : list out := concat (map fst (run c s ops)).

(* ---- correspondence ------------------------------------------------------------------- *)

Definition out_eqb (a b : out) : bool :=
  match a, b with
  | DPlay p x, DPlay q y => (p =? q) && (x =? y)
  | DErr p, DErr q => p =? q
  | DVol p x, DVol q y | DDev p x, DDev q y | DFocus p x, DFocus q y => (p =? q) && (x =? y)
  | _, _ => false
  end.
Definition res_eqb (a b : res) : bool :=
  match a, b with
  | ROk, ROk | RBlocked, RBlocked | RInvalid, RInvalid | RRaise, RRaise | RNotSup, RNotSup => true
  | _, _ => false
  end.
Definition rec_eqb (a b : list out * res) : bool :=
  list_beq out_eqb (fst a) (fst b) && res_eqb (snd a) (snd b).

Definition check_case (x : cfg * list op * list (list out * res)) : bool :=
  let '(c, ops, obs) := x in list_beq rec_eqb (run c init ops) obs.
