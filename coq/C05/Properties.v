(* C05 - hostile input is contained.
   (a) decoder termination: the fuel given to each decoder model is a fixed polynomial of the
       input length and is never exhausted - for EVERY byte string.  (The models are tied to the
       code by the C02/C04 correspondence runs and by the step-count run of harness/c05.py.)
   (b) discovery containment: in the scan pipeline (skeletons regenerated from /repo's AST into
       Gen.v) an exception raised by the per-datagram / per-service / per-service-info stage never
       escapes the loop that calls it. *)
From Coq Require Import Arith NArith List Bool.
From PV Require C04.OpackModel C04.OpackProperties C04.DnsModel C04.DnsProperties.
From PV Require Import Common.Framing Common.Skeleton
  C04.TlvModel C04.TlvProofs C04.VarintModel C04.VarintProofs
  C02.Model C02.Properties C05.Gen.
Import ListNotations.

(* TLV8: two bytes are consumed per step; fuel = length *)
Theorem C05_tlv_terminates : forall data, read_tlv data <> TOutOfFuel.
Proof. exact read_tlv_terminates. Qed.
Print Assumptions C05_tlv_terminates.

(* varint: structurally recursive on the input, stops at the first byte without continuation bit *)
Theorem C05_varint_consumes : forall l mul acc v r, read_var l mul acc = Some (v, r) ->
  exists pre, l = pre ++ r /\ 0 < length pre.
Proof. exact read_var_consumes. Qed.
Print Assumptions C05_varint_consumes.

(* OPACK: fuel length+1, at least one byte per (recursive) call *)
Theorem C05_opack_terminates : forall data, OpackModel.unpack data <> OpackModel.OutOfFuel.
Proof. exact OpackProperties.C05_opack_fuel_enough. Qed.
Print Assumptions C05_opack_terminates.

(* DNS: a name within (len+1)^2 iterations whatever the pointers do (cycles raise ValueError);
   a whole message never runs out of its (cubic) fuel *)
Theorem C05_dns_name_terminates : forall buf p,
  DnsModel.parse_name_loop (S (length buf) * S (length buf)) buf p [] None [] <> DnsModel.DOutOfFuel.
Proof. exact DnsProperties.C05_dns_parse_name_fuel_enough. Qed.
Print Assumptions C05_dns_name_terminates.

Theorem C05_dns_message_terminates : forall buf, DnsModel.unpack_msg buf <> DnsModel.DOutOfFuel.
Proof. exact DnsProperties.C05_dns_unpack_never_out_of_fuel. Qed.
Print Assumptions C05_dns_message_terminates.

(* the seven receive loops (MRP, Companion, HAP session, data stream, HTTP client/server, event
   channel): fuel = buffer length, every delivered frame consumes at least one byte *)
Theorem C05_receive_loops_terminate :
  (forall dec pb_ok s buf, run (mrp_p1 dec pb_ok) s buf <> OutOfFuel) /\
  (forall dec kt s buf, run (comp_p1 dec kt) s buf <> OutOfFuel) /\
  (forall dec c buf, run (hap_p1 dec) c buf <> OutOfFuel) /\
  (forall ok s buf, run (ds_p1 ok) s buf <> OutOfFuel) /\
  (forall u f s buf, run (httpc_p1 u f) s buf <> OutOfFuel) /\
  (forall u f s buf, run (httpd_p1 u f) s buf <> OutOfFuel) /\
  (forall u f s buf, run (ev_p1 u f) s buf <> OutOfFuel).
Proof. exact C02_loops_terminate. Qed.
Print Assumptions C05_receive_loops_terminate.

(* (b) exception barriers *)
Definition P_no_escape (o : outcome) (_ : st) : bool := match o with Exn => false | _ => true end.

Lemma no_escape c : (exists r, an 4 c [s_init] = Some r /\ check P_no_escape r = true) ->
  forall s', ~ exec c s_init Exn s'.
Proof.
  intros (r & Ha & Hc) s' He.
  pose proof (check_sound 4 c s_init r _ Ha Hc Exn s' He) as P. discriminate.
Qed.

(* whatever one service makes _service_discovered raise, handle_response goes on with the next
   service and returns normally *)
Theorem C05_handle_response_contains : forall s', ~ exec sk_handle_response s_init Exn s'.
Proof. apply no_escape. eexists; split; vm_compute; reflexivity. Qed.
Print Assumptions C05_handle_response_contains.

(* whatever one protocol's service_info raises, discover() still returns the devices *)
Theorem C05_discover_contains : forall s', ~ exec sk_discover s_init Exn s'.
Proof. apply no_escape. eexists; split; vm_compute; reflexivity. Qed.
Print Assumptions C05_discover_contains.

(* whatever one service's properties make a device info extractor raise, the scan result is
   still assembled *)
Theorem C05_device_info_contains : forall s', ~ exec sk_get_device_info s_init Exn s'.
Proof. apply no_escape. eexists; split; vm_compute; reflexivity. Qed.
Print Assumptions C05_device_info_contains.

(* whatever one datagram makes the protocol's datagram_received raise, the receiver survives *)
Theorem C05_receive_delegate_contains : forall s', ~ exec sk_receive_delegate s_init Exn s'.
Proof. apply no_escape. eexists; split; vm_compute; reflexivity. Qed.
Print Assumptions C05_receive_delegate_contains.

(* non-vacuity: the stage calls are present (a cancellation of the awaited service_info is the
   one abnormal way out) and the loops can run *)
Example C05_ex_stage_present :
  exists r, an 4 sk_discover [s_init] = Some r /\ rC r <> [] /\ rR r <> [].
Proof. eexists; split; [vm_compute; reflexivity|]. split; discriminate. Qed.
