(* C14 - property theorems only.  Each is closed by the lemmas of ProofsA-D; Print Assumptions follows.
   `schema` is Gen.schema, regenerated from pyatv/settings.py on every run; the general
   theorems hold for every schema that passes the computable check schema_okb.                *)
From Coq Require Import List Bool Arith NArith ZArith String.
From PV Require Import Common.Cases C14.Model C14.Gen C14.ProofsA C14.ProofsB C14.ProofsC C14.ProofsD.
Import ListNotations.
Open Scope string_scope.
Open Scope list_scope.

(* The schema generated from the source this run has unique section and field names, the five
   protocol sections get_settings inspects, each with identifier/credentials, identifier
   defaulting to None.  Re-evaluated whenever settings.py changes. *)
Theorem C14_schema_ok : schema_okb schema = true.
Proof. vm_compute. reflexivity. Qed.
Print Assumptions C14_schema_ok.

(* get_settings, for every state of the storage and every configuration: a record that was
   already stored is returned only if it shares an identifier with the configuration. *)
Theorem C14_lookup_shares_identifier : forall (sch : Model.schema) c st h st' r,
  get_settings sch c st = (Ok h, st') ->
  nth_error (heap st) h = Some r ->
  In h (cur st) /\ st' = st /\ shares r c.
Proof.
  intros sch c st h st' r G N. pose proof (get_spec sch c st) as S. rewrite G in S.
  destruct S as [_ [(Hin & E & r' & N' & Sh)|(-> & _)]].
  - rewrite N in N'. inversion N'; subst. auto.
  - exfalso. assert (L : List.length (heap st) < List.length (heap st)) by (apply nth_error_Some; congruence).
    exact (Nat.lt_irrefl _ L).
Qed.
Print Assumptions C14_lookup_shares_identifier.

(* ... never the settings of a device whose identifiers are disjoint from the configuration's. *)
Theorem C14_never_disjoint : forall (sch : Model.schema) c st h st' r,
  get_settings sch c st = (Ok h, st') ->
  nth_error (heap st) h = Some r ->
  (forall i, In i (all_identifiers c) -> ~ rec_has_id r i) -> False.
Proof. intros sch c st h st' r. exact (never_disjoint sch c st h st' r). Qed.
Print Assumptions C14_never_disjoint.

(* Otherwise a new record is created from the configuration alone, appended, and it carries no
   identifier the configuration does not have; nothing else in the storage is touched. *)
Theorem C14_created_from_config_only : forall c st h st',
  get_settings schema c st = (Ok h, st') ->
  nth_error (heap st) h = None ->
  heap st' = heap st ++ [update_from_config c (default_rec schema)]
  /\ cur st' = cur st ++ [h] /\ h = List.length (heap st)
  /\ saved st' = saved st /\ file st' = file st
  /\ (forall h' r', In h' (cur st) -> nth_error (heap st) h' = Some r' -> ~ shares r' c)
  /\ (forall i, rec_has_id (update_from_config c (default_rec schema)) i -> In i (all_identifiers c)).
Proof.
  intros c st h st' G N. pose proof (get_spec schema c st) as S. rewrite G in S.
  destruct S as [_ [(_ & _ & r & N' & _)|(-> & Hno & Hh & Hc & Hs & Hf & _)]]; [congruence|].
  repeat split; try assumption.
  intros i. apply new_record_own_ids. apply (ok_default schema (schema_okb_sound schema C14_schema_ok)).
Qed.
Print Assumptions C14_created_from_config_only.

(* A record created from a configuration is found again - same object, storage untouched - by
   any configuration made of identifiers of the creating one, whichever of its services
   (enabled or disabled, any protocol) carried them. *)
Theorem C14_created_found_by_own_identifiers : forall c c2 st h st',
  handles_ok st -> NoDup (map sproto c) ->
  get_settings schema c st = (Ok h, st') -> nth_error (heap st) h = None ->
  all_identifiers c2 <> [] -> (forall i, In i (all_identifiers c2) -> In i (all_identifiers c)) ->
  get_settings schema c2 st' = (Ok h, st').
Proof.
  intros c c2 st h st' HO ND. apply created_found_by_own_identifiers; try assumption.
  apply (ok_present schema (schema_okb_sound schema C14_schema_ok)).
Qed.
Print Assumptions C14_created_found_by_own_identifiers.

(* The same object for ANY configuration that shares an identifier with the stored record,
   provided no record stored before it shares an identifier with that configuration as well
   (the reading of "shares at least one identifier with it" fixed in DESIGN.md). *)
Theorem C14_lookup_stable : forall (sch : Model.schema) c st pre h post r,
  cur st = pre ++ h :: post ->
  nth_error (heap st) h = Some r ->
  shares r c ->
  (forall h' r', In h' pre -> nth_error (heap st) h' = Some r' -> ~ shares r' c) ->
  get_settings sch c st = (Ok h, st).
Proof. intros sch c st pre h post r. exact (lookup_stable sch c st pre h post r). Qed.
Print Assumptions C14_lookup_stable.

(* The object handed out for a configuration (found or created) is handed out again - and the
   storage left untouched - after any further history of look-ups and scans of any devices,
   saves, changed-queries and assignments to non-identifier fields of any object. *)
Theorem C14_identity_stable : forall k c st h st1 ops,
  handles_ok st -> NoDup (map sproto c) ->
  get_settings schema c st = (Ok h, st1) ->
  Forall benign ops ->
  let st2 := snd (run schema k ops st1) in get_settings schema c st2 = (Ok h, st2).
Proof.
  intros k c st h st1 ops HO ND. apply identity_stable; try assumption.
  apply (ok_present schema (schema_okb_sound schema C14_schema_ok)).
Qed.
Print Assumptions C14_identity_stable.

(* scan()/connect(): the credentials and password a service ends up with are its own or the
   non-empty ones stored for ITS protocol in the record get_settings returned for ITS
   configuration - a record that shares an identifier with the configuration or was just
   created from it (the two theorems above).  No other record is read. *)
Theorem C14_apply_only_own : forall (sch : Model.schema) k c st h c' st',
  step sch k (Scan c) st = (OApplied h c', st') ->
  exists r, nth_error (heap st') h = Some r
    /\ fst (get_settings sch c st) = Ok h
    /\ Forall2 (fun s s' => sproto s' = sproto s /\ sid s' = sid s /\ senabled s' = senabled s
                  /\ own_or_stored r "credentials" (sproto s) (screds s) (screds s')
                  /\ own_or_stored r "password" (sproto s) (spw s) (spw s')) c c'.
Proof.
  intros sch k c st h c' st' S. simpl in S.
  pose proof (get_spec sch c st) as G.
  destruct (get_settings sch c st) as [[h0|e] st0] eqn:E; [|discriminate].
  inversion S; subst h0 st0. clear S.
  assert (X : exists r, nth_error (heap st') h = Some r).
  { destruct G as [_ [(_ & -> & r & N & _)|(-> & _ & Hh & _)]]; [now exists r|].
    rewrite Hh. rewrite nth_error_app2 by apply Nat.le_refl. rewrite Nat.sub_diag. now eexists. }
  destruct X as [r N]. exists r.
  split; [assumption|]. split; [reflexivity|]. rewrite N. apply apply_only_own.
Qed.
Print Assumptions C14_apply_only_own.

(* Dump with exclude_defaults, then load: every record that holds exactly the declared fields
   comes back identical - for every schema with unique names, every value of every field. *)
Theorem C14_load_dump_id : forall (sch : Model.schema) r,
  schema_nodup sch -> conforms sch r -> load_rec sch (dump_rec sch r) = r.
Proof. intros sch r. exact (load_dump_rec sch r). Qed.
Print Assumptions C14_load_dump_id.

(* The side condition is exact: for a protocol whose settings class declares no password
   (Gen.undeclared_pw, found by the translator this run; Companion on the pinned tree) model_copy
   plants the key, the dump writes it, load drops it.
   Known finding C14:roundtrip:undeclared-key-dropped. *)
Definition cfg_undeclared_pw (p : proto) : cfg :=
  [{| sproto := p; sid := Some [88]%N; screds := None; spw := Some [112; 119]%N; senabled := true |}].

Theorem C14_roundtrip_refuted_undeclared_key : forall p,
  undeclared_pw = Some p ->
  let st := snd (run schema File [Get (cfg_undeclared_pw p)] (fresh [] None)) in
  contents (reload schema (save schema File st)) <> contents st
  /\ ~ Forall (conforms schema) (heap st).
Proof.
  intros p E. vm_compute in E.
  first [ discriminate E
        | inversion E; subst p; split;
          [ vm_compute; discriminate
          | intro F; remember (heap _) as hp eqn:H in F; vm_compute in H; subst hp;
            apply Forall_inv in F; apply conforms_keys in F; vm_compute in F; discriminate ] ].
Qed.
Print Assumptions C14_roundtrip_refuted_undeclared_key.

(* Over every history (any length, any operations, memory or file storage, any initial file)
   whose configurations carry a password only where the schema declares one: the changed
   indicator is true exactly when the ordered contents differ from the contents at the last
   save or load (synced: ghost field set by mark_as_saved only). *)
Theorem C14_changed_iff : forall k f0 ops,
  Forall (wf_op schema) ops ->
  let st := snd (run schema k ops (fresh [] f0)) in
  changed schema st = true <-> contents st <> synced st.
Proof.
  intros k f0 ops W st.
  apply (changed_iff schema (schema_okb_sound schema C14_schema_ok)).
  apply run_Inv; [exact (schema_okb_sound schema C14_schema_ok)|assumption|].
  apply Inv_fresh. constructor.
Qed.
Print Assumptions C14_changed_iff.

(* ... and every Settings object that exists after such a history holds exactly the declared fields. *)
Theorem C14_history_conforms : forall k f0 ops,
  Forall (wf_op schema) ops ->
  Forall (conforms schema) (heap (snd (run schema k ops (fresh [] f0)))).
Proof.
  intros k f0 ops W.
  apply (inv_heap schema). apply run_Inv; [exact (schema_okb_sound schema C14_schema_ok)|assumption|].
  apply Inv_fresh. constructor.
Qed.
Print Assumptions C14_history_conforms.

(* Save, then load into a fresh storage: the contents - any number of devices, in order, all
   values - are read back identically, after every such history on a file storage that
   starts without a file (first theorem) or at any later point after the storage object has
   loaded the file or written it (second and third). *)
Theorem C14_roundtrip_history : forall ops,
  Forall (wf_op schema) ops -> Forall (fun o => o <> Fresh) ops ->
  let st := snd (run schema File ops (fresh [] None)) in
  contents (reload schema (save schema File st)) = contents st.
Proof.
  intros ops W NF st.
  pose proof (schema_okb_sound schema C14_schema_ok) as OK.
  assert (I0 : Inv schema (fresh [] None)) by (apply Inv_fresh; constructor).
  apply (roundtrip schema OK).
  - apply run_Inv; assumption.
  - apply run_file_sync; try assumption. reflexivity.
Qed.
Print Assumptions C14_roundtrip_history.

Theorem C14_roundtrip_after_sync : forall st ops,
  Inv schema st -> file_sync schema st ->
  Forall (wf_op schema) ops -> Forall (fun o => o <> Fresh) ops ->
  let st' := snd (run schema File ops st) in
  contents (reload schema (save schema File st')) = contents st'.
Proof.
  intros st ops I FS W NF st'.
  pose proof (schema_okb_sound schema C14_schema_ok) as OK.
  apply (roundtrip schema OK).
  - apply run_Inv; assumption.
  - apply run_file_sync; assumption.
Qed.
Print Assumptions C14_roundtrip_after_sync.

Theorem C14_sync_established : forall st,
  Inv schema st ->
  (changed schema st = true -> file_sync schema (save schema File st))
  /\ (forall st', file st <> None -> load schema File st = (Ok tt, st') -> file_sync schema st').
Proof.
  intros st I. pose proof (schema_okb_sound schema C14_schema_ok) as OK. split.
  - now apply file_sync_after_write.
  - intros st'. apply file_sync_after_load.
Qed.
Print Assumptions C14_sync_established.

(* A save() that fails part-way (the environment makes open / write / os.replace raise): the
   exception surfaces exactly when there was something to write, and NOTHING changes - not the
   file, not the saved-marker, not the contents; so changed stays true.  A failing load()
   likewise leaves everything as it was. *)
Theorem C14_failed_save_changes_nothing : forall st,
  step schema File SaveFault st = (if changed schema st then ORaise Fault else OUnit, st)
  /\ step schema File LoadFault st = (match file st with Some _ => ORaise Fault | None => OUnit end, st).
Proof. intro st. simpl. split; [now destruct (changed schema st)|now destruct (file st)]. Qed.
Print Assumptions C14_failed_save_changes_nothing.

(* C14_changed_iff and the round-trip theorems quantify over ALL operations, failed saves and
   loads included.  Spelled out for the case at hand: after any history that ends in a failed
   save, changed is still exact, and a retry followed by a load into a fresh storage reads
   back everything that is in the storage. *)
Theorem C14_failed_save_then_retry : forall ops,
  Forall (wf_op schema) ops -> Forall (fun o => o <> Fresh) ops ->
  let st := snd (run schema File (ops ++ [SaveFault]) (fresh [] None)) in
  (changed schema st = true <-> contents st <> synced st)
  /\ contents (reload schema (save schema File st)) = contents st.
Proof.
  intros ops W NF st. split.
  - apply C14_changed_iff. apply Forall_app. split; [assumption|]. repeat constructor.
  - apply C14_roundtrip_history; apply Forall_app; split; try assumption; repeat constructor. discriminate.
Qed.
Print Assumptions C14_failed_save_then_retry.

(* Non-vacuity: a concrete history with two devices whose identifier sets overlap, credentials
   with a non-ASCII character, an assignment, a save and a reload.  The hypotheses of the
   theorems above hold for it, it is not trivial (two records, changed flips), and the
   lookup hypothesis of C14_lookup_stable is met by a configuration of a different shape. *)
Definition ex_a : cfg := [{| sproto := MRP; sid := Some [65]%N; screds := Some [99; 252]%N; spw := None; senabled := false |};
                          {| sproto := AirPlay; sid := Some [66]%N; screds := None; spw := Some [112]%N; senabled := true |}].
Definition ex_b : cfg := [{| sproto := RAOP; sid := Some [67]%N; screds := None; spw := None; senabled := true |}].
Definition ex_ops : list op :=
  [Get ex_a; Get ex_b; SetF 1 "raop" "credentials" (VStr [120]%N); Save;
   SetF 0 "info" "name" (VStr []); SaveFault; Changed].

Example C14_ex_wf : Forall (wf_op schema) ex_ops /\ Forall (fun o => o <> Fresh) ex_ops /\ Forall benign (skipn 1 ex_ops).
Proof.
  assert (A : cfg_ok schema ex_a).
  { constructor; [left; reflexivity|]. constructor; [|constructor]. right. vm_compute. intuition. }
  assert (B : cfg_ok schema ex_b) by (constructor; [left; reflexivity|constructor]).
  repeat split.
  - unfold ex_ops. constructor; [exact A|]. constructor; [exact B|]. repeat (constructor; [exact I|]). constructor.
  - repeat constructor; discriminate.
  - unfold ex_ops. simpl. repeat (constructor; [simpl; try exact I; discriminate|]). constructor.
Qed.

Example C14_ex_run :
  let '(xs, st) := run schema File ex_ops (fresh [] None) in
  xs = [OHandle 0; OHandle 1; OUnit; OUnit; OUnit; ORaise Fault; OBool true]
  /\ cur st = [0; 1]
  /\ fst (get_settings schema [{| sproto := Companion; sid := Some [66]%N; screds := None; spw := None; senabled := true |}] st) = Ok 0
  /\ contents (reload schema (save schema File st)) = contents st
  /\ List.length (contents st) = 2.
Proof. vm_compute. repeat split. Qed.
