(* C14 - model of pyatv's settings storage:
     pyatv/storage/__init__.py   AbstractStorage (get_settings, update_settings, remove_settings,
                                 changed, mark_as_saved, storage_model)
     pyatv/storage/file_storage.py / memory_storage.py   save, load
     pyatv/settings.py           the pydantic schema (generated into Gen.v on every run)
     pyatv/interface.py          BaseConfig.all_identifiers / apply, BaseService.apply / settings
     pyatv/support/pydantic_compat.py   model_copy

   A Settings object is a record of named sections (info, airplay, companion, dmap, mrp, raop;
   the `protocols` level is flattened), each an association list field -> value in schema
   order.  Python object identity is modelled by a heap: every Settings object ever created
   gets the next handle; the storage holds a list of handles.  Text is a list of code points.
   SHA-256 and the JSON encoder are taken injective: the hash is modelled by the list of
   per-device dumps it is computed from, the file by the version and the device dumps.     *)
From Coq Require Import List Bool Arith NArith ZArith String.
From PV Require Import Common.Cases.
Import ListNotations.
Open Scope string_scope.

Definition str := list N.
Definition str_eqb : str -> str -> bool := list_beq N.eqb.

Inductive val := VNone | VStr (s : str) | VInt (z : Z).

Definition val_eqb (a b : val) : bool :=
  match a, b with
  | VNone, VNone => true
  | VStr x, VStr y => str_eqb x y
  | VInt x, VInt y => Z.eqb x y
  | _, _ => false
  end.

(* field types of the schema; enumerations are stored by their (string) value *)
Inductive fty := TOptStr | TStr | TInt | TEnum (allowed : list str).

Record fdef := { fname : string; ftype : fty; fdefault : val }.
Definition sdef := (string * list fdef)%type.
Definition schema := list sdef.

Definition section := list (string * val).
Definition rec := list (string * section).
Definition ddev := list (string * section).     (* one device as dumped with exclude_defaults *)

Fixpoint assoc {A} (k : string) (l : list (string * A)) : option A :=
  match l with
  | [] => None
  | (k', v) :: t => if String.eqb k k' then Some v else assoc k t
  end.

(* attribute assignment / dict(..., **update): an existing key keeps its position *)
Fixpoint sset (k : string) (v : val) (s : section) : section :=
  match s with
  | [] => [(k, v)]
  | (k', v') :: t => if String.eqb k k' then (k', v) :: t else (k', v') :: sset k v t
  end.

Fixpoint upd_sec (name : string) (f : section -> section) (r : rec) : rec :=
  match r with
  | [] => []
  | (n, s) :: t => if String.eqb name n then (n, f s) :: t else (n, s) :: upd_sec name f t
  end.

Definition get_sec (r : rec) (name : string) : section :=
  match assoc name r with Some s => s | None => [] end.

Definition field (r : rec) (sec key : string) : val :=
  match assoc key (get_sec r sec) with Some v => v | None => VNone end.

Definition section_eqb (a b : section) : bool :=
  list_beq (fun x y => String.eqb (fst x) (fst y) && val_eqb (snd x) (snd y)) a b.
Definition rec_eqb (a b : rec) : bool :=
  list_beq (fun x y => String.eqb (fst x) (fst y) && section_eqb (snd x) (snd y)) a b.
Definition ddevs_eqb (a b : list ddev) : bool := list_beq rec_eqb a b.

(* ---- configurations (pyatv.conf.AppleTV with its services) ----------------------- *)

Inductive proto := AirPlay | Companion | DMAP | MRP | RAOP.

Definition proto_eqb (a b : proto) : bool :=
  match a, b with
  | AirPlay, AirPlay | Companion, Companion | DMAP, DMAP | MRP, MRP | RAOP, RAOP => true
  | _, _ => false
  end.

(* the if-chains of _update_settings_from_config and BaseConfig.apply *)
Definition sec_of (p : proto) : string :=
  match p with
  | AirPlay => "airplay" | Companion => "companion" | DMAP => "dmap" | MRP => "mrp" | RAOP => "raop"
  end.

(* the sections get_settings inspects, in the order of its `or` chain *)
Definition lookup_secs : list string := ["airplay"; "companion"; "dmap"; "mrp"; "raop"].

(* senabled: BaseService.enabled.  Nothing in the storage reads it: the identifiers, credentials
   and passwords of disabled services are recorded, matched and applied like all others. *)
Record service := { sproto : proto; sid : option str; screds : option str; spw : option str; senabled : bool }.
Definition cfg := list service.

(* BaseConfig.all_identifiers *)
Fixpoint all_identifiers (c : cfg) : list str :=
  match c with
  | [] => []
  | s :: t => match sid s with Some i => i :: all_identifiers t | None => all_identifiers t end
  end.

Definition mem (i : str) (l : list str) : bool := existsb (str_eqb i) l.

(* `settings.protocols.<p>.identifier in identifiers` (identifiers never contains None) *)
Definition sec_matches (r : rec) (ids : list str) (sec : string) : bool :=
  match field r sec "identifier" with
  | VStr i => mem i ids
  | _ => false
  end.

Definition matches (r : rec) (ids : list str) : bool := existsb (sec_matches r ids) lookup_secs.

Definition optval (o : option str) : val := match o with Some s => VStr s | None => VNone end.

(* pydantic_compat.model_copy: keys with a None value are dropped from the update *)
Fixpoint model_copy (s : section) (upd : list (string * option str)) : section :=
  match upd with
  | [] => s
  | (k, Some v) :: t => model_copy (sset k (VStr v) s) t
  | (_, None) :: t => model_copy s t
  end.

(* one iteration of the loop in _update_settings_from_config; BaseService.settings() is
   {"credentials": ..., "password": ...} *)
Definition update_one (s : service) (r : rec) : rec :=
  upd_sec (sec_of (sproto s))
    (fun sec => sset "identifier" (optval (sid s))
                  (model_copy sec [("credentials", screds s); ("password", spw s)])) r.

Fixpoint update_from_config (c : cfg) (r : rec) : rec :=
  match c with
  | [] => r
  | s :: t => update_from_config t (update_one s r)
  end.

(* `settings.get(k) or old` of BaseService.apply: None and "" keep the old value *)
Definition or_else (v : option val) (old : option str) : option str :=
  match v with
  | Some (VStr (c :: s)) => Some (c :: s)
  | _ => old
  end.

(* BaseConfig.apply *)
Definition apply_one (r : rec) (s : service) : service :=
  let sec := get_sec r (sec_of (sproto s)) in
  {| sproto := sproto s; sid := sid s;
     screds := or_else (assoc "credentials" sec) (screds s);
     spw := or_else (assoc "password" sec) (spw s);
     senabled := senabled s |}.

Definition apply_rec (r : rec) (c : cfg) : cfg := map (apply_one r) c.

(* ---- schema-driven parts ---------------------------------------------------------- *)

Section WithSchema.
Variable sch : schema.

Definition fdefs (sec : string) : list fdef :=
  match assoc sec sch with Some l => l | None => [] end.

Fixpoint find_fdef (k : string) (l : list fdef) : option fdef :=
  match l with
  | [] => None
  | f :: t => if String.eqb k (fname f) then Some f else find_fdef k t
  end.

(* Settings() *)
Definition default_section (l : list fdef) : section := map (fun f => (fname f, fdefault f)) l.
Definition default_rec : rec := map (fun sd : sdef => (fst sd, default_section (snd sd))) sch.

(* .dict(exclude_defaults=True) of one sub-model: a key is left out iff it is a declared
   field whose default equals the value; undeclared keys stay *)
Definition is_default (l : list fdef) (k : string) (v : val) : bool :=
  match find_fdef k l with
  | Some f => val_eqb (fdefault f) v
  | None => false
  end.

Definition dump_section (l : list fdef) (s : section) : section :=
  filter (fun kv => negb (is_default l (fst kv) (snd kv))) s.

(* sub-models have a default_factory, so they are never "equal to the default": every
   section is present in the dump, possibly empty - and the `device != {}` filter of
   _save_file therefore never removes a device *)
Definition dump_rec (r : rec) : ddev := map (fun ns : string * section => (fst ns, dump_section (fdefs (fst ns)) (snd ns))) r.

(* Settings(device dict): declared fields from the file or their default; the rest ignored *)
Definition load_section (l : list fdef) (d : section) : section :=
  map (fun f => (fname f, match assoc (fname f) d with Some v => v | None => fdefault f end)) l.

Definition load_rec (d : ddev) : rec :=
  map (fun sd : sdef => (fst sd, load_section (snd sd) (match assoc (fst sd) d with Some s => s | None => [] end))) sch.

(* ---- the storage -------------------------------------------------------------------- *)

Inductive kind := Memory | File.

Record state := {
  heap : list rec;                    (* every Settings object created so far; handle = index *)
  cur : list nat;                     (* self._settings *)
  saved : list ddev;                  (* what self._settings_hash is the hash of *)
  file : option (Z * list ddev);      (* the storage file: version, devices *)
  synced : list rec                   (* GHOST, read by no operation: the contents at the last mark_as_saved *)
}.

Definition contents_of (hp : list rec) (hs : list nat) : list rec :=
  flat_map (fun h => match nth_error hp h with Some r => [r] | None => [] end) hs.

Definition contents (st : state) : list rec := contents_of (heap st) (cur st).
Definition dumps (st : state) : list ddev := map dump_rec (contents st).

(* a new storage object on the given file *)
Definition fresh (hp : list rec) (f : option (Z * list ddev)) : state :=
  {| heap := hp; cur := []; saved := []; file := f; synced := [] |}.

Definition changed (st : state) : bool := negb (ddevs_eqb (dumps st) (saved st)).

Definition mark_as_saved (st : state) : state :=
  {| heap := heap st; cur := cur st; saved := dumps st; file := file st; synced := contents st |}.

(* Fault: the environment makes a file-system call of save()/load() fail (OSError), or the
   file read by load() does not parse (JSONDecodeError) *)
Inductive exn := DeviceIdMissing | SettingsError | ValueError | Fault.
Inductive res (A : Type) := Ok (a : A) | Raise (e : exn).
Arguments Ok {A} a.
Arguments Raise {A} e.

Definition find_match (hp : list rec) (ids : list str) (hs : list nat) : option nat :=
  find (fun h => match nth_error hp h with Some r => matches r ids | None => false end) hs.

Definition get_settings (c : cfg) (st : state) : res nat * state :=
  match all_identifiers c with
  | [] => (Raise DeviceIdMissing, st)
  | ids =>
      match find_match (heap st) ids (cur st) with
      | Some h => (Ok h, st)
      | None =>
          let h := List.length (heap st) in
          (Ok h, {| heap := heap st ++ [update_from_config c default_rec]; cur := cur st ++ [h];
                    saved := saved st; file := file st; synced := synced st |})
      end
  end.

Fixpoint set_nth {A} (n : nat) (x : A) (l : list A) : list A :=
  match l, n with
  | [], _ => []
  | _ :: t, O => x :: t
  | y :: t, S n' => y :: set_nth n' x t
  end.

Definition with_heap (st : state) (hp : list rec) : state :=
  {| heap := hp; cur := cur st; saved := saved st; file := file st; synced := synced st |}.

Definition update_settings (c : cfg) (st : state) : res unit * state :=
  match get_settings c st with
  | (Ok h, st') =>
      match nth_error (heap st') h with
      | Some r => (Ok tt, with_heap st' (set_nth h (update_from_config c r) (heap st')))
      | None => (Ok tt, st')
      end
  | (Raise e, st') => (Raise e, st')
  end.

(* `if settings in self._settings: self._settings.remove(settings)`: both by ==, i.e. by
   value - the first stored object EQUAL to the argument goes *)
Fixpoint remove_first (hp : list rec) (r : rec) (hs : list nat) : option (list nat) :=
  match hs with
  | [] => None
  | h :: t =>
      if match nth_error hp h with Some r' => rec_eqb r' r | None => false end
      then Some t
      else match remove_first hp r t with Some t' => Some (h :: t') | None => None end
  end.

Definition remove_settings (h : nat) (st : state) : bool * state :=
  match nth_error (heap st) h with
  | Some r =>
      match remove_first (heap st) r (cur st) with
      | Some hs => (true, {| heap := heap st; cur := hs; saved := saved st; file := file st; synced := synced st |})
      | None => (false, st)
      end
  | None => (false, st)
  end.

(* settings.<sec>.<key> = v on the object with handle h; pydantic refuses undeclared fields *)
Definition set_field (h : nat) (sec key : string) (v : val) (st : state) : res unit * state :=
  match nth_error (heap st) h with
  | Some r =>
      match find_fdef key (fdefs sec) with
      | Some _ => (Ok tt, with_heap st (set_nth h (upd_sec sec (sset key v) r) (heap st)))
      | None => (Raise ValueError, st)
      end
  | None => (Ok tt, st)
  end.

Definition save (k : kind) (st : state) : state :=
  match k with
  | Memory => mark_as_saved st
  | File =>
      if changed st
      then mark_as_saved {| heap := heap st; cur := cur st; saved := saved st;
                            file := Some (1%Z, dumps st); synced := synced st |}
      else st
  end.

Definition load (k : kind) (st : state) : res unit * state :=
  match k with
  | Memory => (Ok tt, st)
  | File =>
      match file st with
      | None => (Ok tt, st)
      | Some (v, ds) =>
          if Z.eqb v 1
          then let n := List.length (heap st) in
               (Ok tt, mark_as_saved {| heap := heap st ++ map load_rec ds; cur := seq n (List.length ds);
                                        saved := saved st; file := file st; synced := synced st |})
          else (Raise SettingsError, st)
      end
  end.

(* ---- histories ------------------------------------------------------------------------ *)

Inductive op :=
| Get (c : cfg)                               (* await storage.get_settings(config) *)
| Update (c : cfg)                            (* await storage.update_settings(config) *)
| Remove (h : nat)                            (* await storage.remove_settings(<object h>) *)
| SetF (h : nat) (sec key : string) (v : val) (* <object h>.<sec>.<key> = v *)
| Save | Load                                 (* await storage.save() / load() *)
| Fresh                                       (* a new storage object on the same file *)
| SaveFault                                   (* await storage.save() while the environment makes open / write /
                                                 os.replace of _save_file raise *)
| LoadFault                                   (* await storage.load() while reading the file raises or yields garbage *)
| Changed                                     (* storage.changed *)
| Scan (c : cfg).                             (* get_settings + config.apply, as scan()/connect() do *)

Inductive obs :=
| OHandle (h : nat) | OUnit | OBool (b : bool) | ORaise (e : exn)
| OApplied (h : nat) (c : cfg).

Definition step (k : kind) (o : op) (st : state) : obs * state :=
  match o with
  | Get c => match get_settings c st with (Ok h, st') => (OHandle h, st') | (Raise e, st') => (ORaise e, st') end
  | Update c => match update_settings c st with (Ok _, st') => (OUnit, st') | (Raise e, st') => (ORaise e, st') end
  | Remove h => let (b, st') := remove_settings h st in (OBool b, st')
  | SetF h sec key v => match set_field h sec key v st with (Ok _, st') => (OUnit, st') | (Raise e, st') => (ORaise e, st') end
  | Save => (OUnit, save k st)
  | Load => match load k st with (Ok _, st') => (OUnit, st') | (Raise e, st') => (ORaise e, st') end
  (* save(): `if self.changed: _save_file(); mark_as_saved()` - the exception of _save_file
     propagates before mark_as_saved; the write goes to a temporary file that is moved in
     place last (C15), so the storage file is as before.  Unchanged storage: no I/O, no fault. *)
  | SaveFault =>
      match k with
      | Memory => (OUnit, save k st)
      | File => if changed st then (ORaise Fault, st) else (OUnit, st)
      end
  (* load(): the exception is raised before storage_model is assigned; no file: no I/O *)
  | LoadFault =>
      match k with
      | Memory => (OUnit, st)
      | File => match file st with Some _ => (ORaise Fault, st) | None => (OUnit, st) end
      end
  | Fresh => (OUnit, fresh (heap st) (match k with File => file st | Memory => None end))
  | Changed => (OBool (changed st), st)
  | Scan c =>
      match get_settings c st with
      | (Ok h, st') =>
          (OApplied h (match nth_error (heap st') h with Some r => apply_rec r c | None => c end), st')
      | (Raise e, st') => (ORaise e, st')
      end
  end.

Fixpoint run (k : kind) (ops : list op) (st : state) : list obs * state :=
  match ops with
  | [] => ([], st)
  | o :: t => let (x, st') := step k o st in
              let (xs, st'') := run k t st' in (x :: xs, st'')
  end.

End WithSchema.

Arguments Ok {A} a.
Arguments Raise {A} e.

(* ---- correspondence --------------------------------------------------------------------- *)

Definition ostr_eqb := opt_beq str_eqb.

Definition service_eqb (a b : service) : bool :=
  proto_eqb (sproto a) (sproto b) && ostr_eqb (sid a) (sid b)
  && ostr_eqb (screds a) (screds b) && ostr_eqb (spw a) (spw b) && Bool.eqb (senabled a) (senabled b).

Definition exn_eqb (a b : exn) : bool :=
  match a, b with
  | DeviceIdMissing, DeviceIdMissing | SettingsError, SettingsError | ValueError, ValueError | Fault, Fault => true
  | _, _ => false
  end.

Definition obs_eqb (a b : obs) : bool :=
  match a, b with
  | OHandle x, OHandle y => Nat.eqb x y
  | OUnit, OUnit => true
  | OBool x, OBool y => Bool.eqb x y
  | ORaise x, ORaise y => exn_eqb x y
  | OApplied h c, OApplied h' c' => Nat.eqb h h' && list_beq service_eqb c c'
  | _, _ => false
  end.

Definition file_eqb (a b : option (Z * list ddev)) : bool :=
  opt_beq (fun x y => Z.eqb (fst x) (fst y) && ddevs_eqb (snd x) (snd y)) a b.

(* one history run on the implementation:
     kind, the storage file before the history, the operations,
     what each operation returned, and afterwards: the handles in storage.settings, the
     content of EVERY Settings object handed out so far, storage.changed, the file        *)
Definition check_case (sch : schema)
  (c : kind * option (Z * list ddev) * list op
       * (list obs * list nat * list rec * bool * option (Z * list ddev))) : bool :=
  let '(k, f0, ops, (xs, hs, hp, ch, f1)) := c in
  let (mxs, st) := run sch k ops (fresh [] f0) in
  list_beq obs_eqb mxs xs
  && list_beq Nat.eqb (cur st) hs
  && list_beq rec_eqb (heap st) hp
  && Bool.eqb (changed sch st) ch
  && file_eqb (match k with File => file st | Memory => None end) f1.
