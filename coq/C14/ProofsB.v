(* C14 - lookup by identifier, creation from a configuration, applying settings to a configuration. *)
From Coq Require Import List Bool Arith NArith ZArith String Lia.
From PV Require Import Common.Cases C14.Model C14.ProofsA.
Import ListNotations.
Open Scope string_scope.
Open Scope list_scope.

(* the stored record carries identifier i (for one of the five protocols) *)
Definition rec_has_id (r : rec) (i : str) : Prop :=
  exists sec, In sec lookup_secs /\ field r sec "identifier" = VStr i.

(* record and configuration have an identifier in common *)
Definition shares (r : rec) (c : cfg) : Prop :=
  exists i, In i (all_identifiers c) /\ rec_has_id r i.

Lemma matches_iff r ids : matches r ids = true <-> exists i, In i ids /\ rec_has_id r i.
Proof.
  unfold matches. rewrite existsb_exists. split.
  - intros (sec & Hs & M). unfold sec_matches in M.
    destruct (field r sec "identifier") as [|i|] eqn:F; try discriminate.
    exists i. split; [now apply mem_In|]. now exists sec.
  - intros (i & Hi & sec & Hs & F). exists sec. split; [assumption|].
    unfold sec_matches. rewrite F. now apply mem_In.
Qed.

Lemma matches_shares r c : matches r (all_identifiers c) = true <-> shares r c.
Proof. apply matches_iff. Qed.

Lemma find_first {A} (p : A -> bool) pre x post :
  (forall y, In y pre -> p y = false) -> p x = true -> find p (pre ++ x :: post) = Some x.
Proof.
  induction pre as [|y pre IH]; simpl; intros Hp Hx.
  - now rewrite Hx.
  - rewrite (Hp y (or_introl eq_refl)). apply IH; [|assumption]. intros z Hz. apply Hp. now right.
Qed.

Definition handles_ok (st : state) : Prop := Forall (fun h => h < List.length (heap st)) (cur st).

Section WithSchema.
Variable sch : schema.

Notation get_settings := (get_settings sch).

(* ---- what get_settings returns ---------------------------------------------------------------- *)

Theorem get_spec c st :
  match get_settings c st with
  | (Raise e, st') => e = DeviceIdMissing /\ st' = st /\ all_identifiers c = []
  | (Ok h, st') =>
      all_identifiers c <> [] /\
      ((In h (cur st) /\ st' = st /\ exists r, nth_error (heap st) h = Some r /\ shares r c)
       \/
       (h = List.length (heap st)
        /\ (forall h' r', In h' (cur st) -> nth_error (heap st) h' = Some r' -> ~ shares r' c)
        /\ heap st' = heap st ++ [update_from_config c (default_rec sch)]
        /\ cur st' = cur st ++ [h]
        /\ saved st' = saved st /\ file st' = file st /\ synced st' = synced st))
  end.
Proof.
  unfold Model.get_settings.
  destruct (all_identifiers c) as [|i0 ids] eqn:I; [repeat split|].
  rewrite <- I.
  assert (NE : all_identifiers c <> []) by (rewrite I; discriminate).
  destruct (find_match (heap st) (all_identifiers c) (cur st)) as [h|] eqn:F.
  - split; [assumption|]. left. unfold find_match in F. apply find_some in F as [Hin M].
    destruct (nth_error (heap st) h) as [r|] eqn:N; [|discriminate].
    repeat split; [assumption|]. exists r. split; [reflexivity|]. now apply matches_shares.
  - split; [assumption|]. right. simpl. repeat split.
    intros h' r' Hin N S. unfold find_match in F.
    pose proof (find_none _ _ F h' Hin) as M. simpl in M. rewrite N in M.
    apply matches_shares in S. congruence.
Qed.

(* never the settings of a device with disjoint identifiers *)
Theorem never_disjoint c st h st' r :
  get_settings c st = (Ok h, st') ->
  nth_error (heap st) h = Some r ->
  (forall i, In i (all_identifiers c) -> ~ rec_has_id r i) -> False.
Proof.
  intros G N D. pose proof (get_spec c st) as S. rewrite G in S.
  destruct S as [_ [(_ & _ & r' & N' & (i & Hi & Hr))|(-> & _)]].
  - rewrite N in N'. inversion N'; subst. exact (D i Hi Hr).
  - assert (L : List.length (heap st) < List.length (heap st)) by (apply nth_error_Some; congruence). lia.
Qed.

(* the same object for any configuration sharing an identifier with the stored record,
   provided no record stored before it shares one with that configuration too *)
Theorem lookup_stable c st pre h post r :
  cur st = pre ++ h :: post ->
  nth_error (heap st) h = Some r ->
  shares r c ->
  (forall h' r', In h' pre -> nth_error (heap st) h' = Some r' -> ~ shares r' c) ->
  get_settings c st = (Ok h, st).
Proof.
  intros Hc N S Hpre. unfold Model.get_settings.
  destruct (all_identifiers c) as [|i0 ids] eqn:I.
  - destruct S as (i & Hi & _). rewrite I in Hi. contradiction.
  - rewrite <- I. unfold find_match. rewrite Hc. rewrite find_first; [reflexivity| |].
    + intros y Hy. destruct (nth_error (heap st) y) as [r'|] eqn:N'; [|reflexivity].
      destruct (matches r' (all_identifiers c)) eqn:M; [|reflexivity].
      exfalso. apply (Hpre y r' Hy N'). now apply matches_shares.
    + rewrite N. now apply matches_shares.
Qed.

(* ---- what _update_settings_from_config writes -------------------------------------------------- *)

Lemma names_update_one s r : map fst (update_one s r) = map fst r.
Proof. apply names_upd_sec. Qed.

Lemma names_update_from_config c : forall r, map fst (update_from_config c r) = map fst r.
Proof. induction c as [|s c IH]; intro r; simpl; [reflexivity|]. now rewrite IH, names_update_one. Qed.

Lemma field_update_one_other s r sec key :
  sec <> sec_of (sproto s) -> field (update_one s r) sec key = field r sec key.
Proof.
  intro N. unfold field, get_sec, update_one. now rewrite assoc_upd_sec_other.
Qed.

Lemma field_update_one_id s r :
  In (sec_of (sproto s)) (map fst r) ->
  field (update_one s r) (sec_of (sproto s)) "identifier" = optval (sid s).
Proof.
  intro H. unfold field, get_sec, update_one.
  destruct (assoc (sec_of (sproto s)) r) as [x|] eqn:A.
  - rewrite (assoc_upd_sec_same _ _ _ _ A). now rewrite assoc_sset_same.
  - apply assoc_None in A. contradiction.
Qed.

Lemma field_update_one_absent s r sec key :
  ~ In (sec_of (sproto s)) (map fst r) -> field (update_one s r) sec key = field r sec key.
Proof.
  intro H. unfold update_one. rewrite assoc_upd_sec_none; [reflexivity|]. now apply assoc_None.
Qed.

Lemma sec_of_inj p q : sec_of p = sec_of q -> p = q.
Proof. destruct p, q; simpl; intro H; try reflexivity; discriminate. Qed.

Lemma sec_of_lookup p : In (sec_of p) lookup_secs.
Proof. destruct p; simpl; auto 6. Qed.

(* an identifier found in a record after the copy was there before or is one of the configuration's *)
Lemma update_ids_source c : forall r sec i,
  field (update_from_config c r) sec "identifier" = VStr i ->
  field r sec "identifier" = VStr i \/ In i (all_identifiers c).
Proof.
  induction c as [|s c IH]; intros r sec i H; simpl in *; [now left|].
  destruct (IH _ _ _ H) as [H1|H1].
  - destruct (string_dec sec (sec_of (sproto s))) as [->|N].
    + destruct (in_dec string_dec (sec_of (sproto s)) (map fst r)) as [P|P].
      * rewrite (field_update_one_id s r P) in H1. right.
        destruct (sid s) as [j|]; simpl in H1; [|discriminate]. inversion H1. now left.
      * rewrite (field_update_one_absent s r _ _ P) in H1. now left.
    + rewrite (field_update_one_other s r sec _ N) in H1. now left.
  - right. destruct (sid s); [now right|assumption].
Qed.

Lemma field_update_from_config_other c p key : forall r,
  (forall s, In s c -> sproto s <> p) ->
  field (update_from_config c r) (sec_of p) key = field r (sec_of p) key.
Proof.
  induction c as [|s c IH]; intros r H; simpl; [reflexivity|].
  rewrite IH by (intros s' Hs'; apply H; now right).
  apply field_update_one_other. intro E. apply sec_of_inj in E. exact (H s (or_introl eq_refl) (eq_sym E)).
Qed.

(* with one service per protocol (what pyatv.conf.AppleTV guarantees) every identifier of the
   configuration ends up in the record *)
Lemma update_ids_complete c : forall r s i,
  NoDup (map sproto c) -> In s c -> sid s = Some i ->
  In (sec_of (sproto s)) (map fst r) ->
  field (update_from_config c r) (sec_of (sproto s)) "identifier" = VStr i.
Proof.
  induction c as [|s0 c IH]; intros r s i ND Hin Hi Hsec; simpl in *; [contradiction|].
  inversion ND as [|? ? Hn ND']; subst.
  destruct Hin as [->|Hin].
  - rewrite field_update_from_config_other.
    + rewrite field_update_one_id by assumption. now rewrite Hi.
    + intros s' Hs' E. apply Hn. rewrite <- E. now apply in_map.
  - apply IH; try assumption. now rewrite names_update_one.
Qed.

Definition sections_present : Prop := forall sec, In sec lookup_secs -> In sec (map fst sch).
Definition ids_default_none : Prop :=
  forall sec, In sec lookup_secs -> field (default_rec sch) sec "identifier" = VNone.

Lemma names_default_rec : map fst (default_rec sch) = map fst sch.
Proof. unfold default_rec. now rewrite map_map. Qed.

(* a freshly created record carries identifiers of its configuration only *)
Theorem new_record_own_ids c i :
  ids_default_none ->
  rec_has_id (update_from_config c (default_rec sch)) i -> In i (all_identifiers c).
Proof.
  intros D (sec & Hs & F). apply update_ids_source in F as [F|F]; [|assumption].
  rewrite (D sec Hs) in F. discriminate.
Qed.

Lemma all_identifiers_In c i : In i (all_identifiers c) <-> exists s, In s c /\ sid s = Some i.
Proof.
  induction c as [|s c IH]; simpl.
  - split; [contradiction|]. intros (s & [] & _).
  - destruct (sid s) as [j|] eqn:E; simpl; rewrite IH; split.
    + intros [->|(s' & H1 & H2)]; [exists s; auto|exists s'; auto].
    + intros (s' & [->|H1] & H2); [left; congruence|right; now exists s'].
    + intros (s' & H1 & H2). exists s'. auto.
    + intros (s' & [->|H1] & H2); [congruence|now exists s'].
Qed.

Theorem new_record_shares c :
  sections_present -> NoDup (map sproto c) -> all_identifiers c <> [] ->
  shares (update_from_config c (default_rec sch)) c.
Proof.
  intros P ND NE. destruct (all_identifiers c) as [|i ids] eqn:I; [congruence|].
  assert (Hi : In i (all_identifiers c)) by (rewrite I; now left).
  destruct (proj1 (all_identifiers_In c i) Hi) as (s & Hs & E).
  exists i. split; [assumption|]. exists (sec_of (sproto s)). split; [apply sec_of_lookup|].
  apply update_ids_complete; try assumption.
  rewrite names_default_rec. apply P. apply sec_of_lookup.
Qed.

(* the same object when asked again: a second get_settings returns the same handle and
   leaves the storage as it is *)
Theorem get_idempotent c st h st' :
  handles_ok st -> sections_present -> NoDup (map sproto c) ->
  get_settings c st = (Ok h, st') -> get_settings c st' = (Ok h, st').
Proof.
  intros HO P ND G. pose proof (get_spec c st) as S. rewrite G in S.
  destruct S as [NE [(_ & -> & _)|(-> & Hno & Hh & Hc & _)]]; [assumption|].
  apply (lookup_stable c st' (cur st) (List.length (heap st)) [] (update_from_config c (default_rec sch))).
  - assumption.
  - rewrite Hh. rewrite nth_error_app2 by lia. now rewrite Nat.sub_diag.
  - now apply new_record_shares.
  - intros h' r' Hin N. unfold handles_ok in HO. rewrite Forall_forall in HO.
    rewrite Hh in N. rewrite nth_error_app1 in N by now apply HO.
    now apply (Hno h' r').
Qed.

(* a record created from a configuration is found again through every identifier of that
   configuration - whatever protocol it belonged to, enabled or not *)
Theorem created_found_by_own_identifiers c c2 st h st' :
  handles_ok st -> sections_present -> NoDup (map sproto c) ->
  get_settings c st = (Ok h, st') -> nth_error (heap st) h = None ->
  all_identifiers c2 <> [] -> (forall i, In i (all_identifiers c2) -> In i (all_identifiers c)) ->
  get_settings c2 st' = (Ok h, st').
Proof.
  intros HO P ND G N NE Sub. pose proof (get_spec c st) as S. rewrite G in S.
  destruct S as [_ [(_ & _ & r & N' & _)|(-> & Hno & Hh & Hc & _)]]; [congruence|].
  apply (lookup_stable c2 st' (cur st) (List.length (heap st)) [] (update_from_config c (default_rec sch))).
  - assumption.
  - rewrite Hh. rewrite nth_error_app2 by lia. now rewrite Nat.sub_diag.
  - assert (X : exists i, In i (all_identifiers c2)).
    { destruct (all_identifiers c2) as [|i l]; [congruence|]. exists i. now left. }
    destruct X as [i Hi2].
    exists i. split; [assumption|].
    destruct (proj1 (all_identifiers_In c i) (Sub i Hi2)) as (s & Hs & E).
    exists (sec_of (sproto s)). split; [apply sec_of_lookup|].
    apply update_ids_complete; try assumption.
    rewrite names_default_rec. apply P. apply sec_of_lookup.
  - intros h' r' Hin Nh (i & Hi & Hr). unfold handles_ok in HO. rewrite Forall_forall in HO.
    rewrite Hh in Nh. rewrite nth_error_app1 in Nh by now apply HO.
    apply (Hno h' r' Hin Nh). exists i. split; [now apply Sub|assumption].
Qed.

(* ---- BaseConfig.apply ------------------------------------------------------------------------------ *)

(* what a service holds after apply is its own value or the non-empty value stored for its
   own protocol in the record that was applied *)
Definition own_or_stored (r : rec) (key : string) (p : proto) (before after : option str) : Prop :=
  after = before \/ exists x, after = Some x /\ x <> [] /\ field r (sec_of p) key = VStr x.

Lemma or_else_source r key p old :
  own_or_stored r key p old (or_else (assoc key (get_sec r (sec_of p))) old).
Proof.
  unfold own_or_stored, field.
  destruct (assoc key (get_sec r (sec_of p))) as [[|[|c x]|]|]; simpl; try (now left).
  right. exists (c :: x). repeat split. discriminate.
Qed.

Theorem apply_only_own r c :
  Forall2 (fun s s' => sproto s' = sproto s /\ sid s' = sid s /\ senabled s' = senabled s
                       /\ own_or_stored r "credentials" (sproto s) (screds s) (screds s')
                       /\ own_or_stored r "password" (sproto s) (spw s) (spw s'))
          c (apply_rec r c).
Proof.
  unfold apply_rec. induction c as [|s c IH]; simpl; constructor; [|assumption].
  simpl. repeat split; apply or_else_source.
Qed.

End WithSchema.
