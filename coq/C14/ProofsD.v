(* C14 - the object handed out for a configuration stays the same over a history. *)
From Coq Require Import List Bool Arith NArith ZArith String Lia.
From PV Require Import Common.Cases C14.Model C14.ProofsA C14.ProofsB C14.ProofsC.
Import ListNotations.
Open Scope string_scope.
Open Scope list_scope.

Lemma find_ext {A} (p q : A -> bool) l : (forall x, In x l -> p x = q x) -> find p l = find q l.
Proof.
  induction l as [|x l IH]; simpl; intro H; [reflexivity|].
  rewrite <- (H x (or_introl eq_refl)). destruct (p x); [reflexivity|].
  apply IH. intros y Hy. apply H. now right.
Qed.

Lemma find_app_Some {A} (p : A -> bool) l l' x : find p l = Some x -> find p (l ++ l') = Some x.
Proof.
  induction l as [|y l IH]; simpl; [discriminate|]. destruct (p y); [auto|assumption].
Qed.

Lemma nth_error_set_nth {A} (x : A) : forall l n m,
  nth_error (set_nth n x l) m = if Nat.eqb m n then (if Nat.ltb n (List.length l) then Some x else None)
                                else nth_error l m.
Proof.
  induction l as [|y l IH]; intros n m.
  - assert (E : set_nth n x (@nil A) = []) by now destruct n. rewrite E.
    destruct (Nat.eqb m n); destruct m; reflexivity.
  - destruct n, m; simpl; try reflexivity.
    rewrite IH. destruct (Nat.eqb m n); [|reflexivity].
    reflexivity.
Qed.

(* matching looks at the five identifier fields only *)
Lemma matches_ext r r' ids :
  (forall sec, In sec lookup_secs -> field r' sec "identifier" = field r sec "identifier") ->
  matches r' ids = matches r ids.
Proof.
  intro H. unfold matches. induction lookup_secs as [|s l IH]; simpl; [reflexivity|].
  unfold sec_matches at 1 3. rewrite (H s (or_introl eq_refl)). f_equal.
  apply IH. intros sec Hs. apply H. now right.
Qed.

Lemma field_upd_sset_other r sec key v sec' key' :
  key' <> key -> field (upd_sec sec (sset key v) r) sec' key' = field r sec' key'.
Proof.
  intro N. unfold field, get_sec.
  destruct (string_dec sec' sec) as [->|Ns].
  - destruct (assoc sec r) as [s|] eqn:A.
    + rewrite (assoc_upd_sec_same _ _ _ _ A). now rewrite assoc_sset_other.
    + now rewrite (assoc_upd_sec_none _ _ _ A), A.
  - now rewrite assoc_upd_sec_other.
Qed.

Section WithSchema.
Variable sch : schema.

(* operations that neither remove records, nor replace the list, nor rewrite identifiers *)
Definition benign (o : op) : Prop :=
  match o with
  | Get _ | Scan _ | Changed | Save | SaveFault | LoadFault => True
  | SetF _ _ key _ => key <> "identifier"
  | Update _ | Remove _ | Load | Fresh => False
  end.

Definition found (ids : list str) (h : nat) (st : state) : Prop :=
  find_match (heap st) ids (cur st) = Some h.

Lemma handles_ok_get c st : handles_ok st -> handles_ok (snd (get_settings sch c st)).
Proof.
  intro H. pose proof (get_spec sch c st) as S.
  destruct (get_settings sch c st) as [[h|e] st']; simpl.
  - destruct S as [_ [(_ & -> & _)|(-> & _ & Hh & Hc & _)]]; [assumption|].
    unfold handles_ok in *. rewrite Hh, Hc, app_length. simpl. apply Forall_app. split.
    + eapply Forall_impl; [|exact H]. simpl. intros; lia.
    + constructor; [lia|constructor].
  - destruct S as (_ & -> & _). assumption.
Qed.

Lemma found_get ids h c st : handles_ok st -> found ids h st -> found ids h (snd (get_settings sch c st)).
Proof.
  intros HO F. pose proof (get_spec sch c st) as S.
  destruct (get_settings sch c st) as [[h'|e] st']; simpl.
  - destruct S as [_ [(_ & -> & _)|(-> & _ & Hh & Hc & _)]]; [assumption|].
    unfold found, find_match in *. rewrite Hh, Hc. apply find_app_Some.
    rewrite <- F. apply find_ext. intros x Hx.
    unfold handles_ok in HO. rewrite Forall_forall in HO.
    now rewrite nth_error_app1 by now apply HO.
  - destruct S as (_ & -> & _). assumption.
Qed.

Lemma found_set_field ids h h0 sec key v st :
  key <> "identifier" -> found ids h st -> found ids h (snd (set_field sch h0 sec key v st)).
Proof.
  intros N F. unfold set_field.
  destruct (nth_error (heap st) h0) as [r|] eqn:E; [|assumption].
  destruct (find_fdef key (fdefs sch sec)); [|assumption]. simpl.
  unfold found, find_match in *. simpl. rewrite <- F. apply find_ext. intros x _.
  rewrite nth_error_set_nth. destruct (Nat.eqb x h0) eqn:Q; [|reflexivity].
  apply Nat.eqb_eq in Q. subst x. rewrite E.
  assert (L : h0 < List.length (heap st)) by (apply nth_error_Some; congruence).
  apply Nat.ltb_lt in L. rewrite L. apply matches_ext. intros s _.
  apply field_upd_sset_other. intro X. apply N. now symmetry.
Qed.

Lemma handles_ok_set_field h0 sec key v st :
  handles_ok st -> handles_ok (snd (set_field sch h0 sec key v st)).
Proof.
  intro H. unfold set_field. destruct (nth_error (heap st) h0); [|assumption].
  destruct (find_fdef key (fdefs sch sec)); [|assumption]. simpl.
  unfold handles_ok in *. simpl. now rewrite length_set_nth.
Qed.

Lemma benign_step k o ids h st :
  benign o -> handles_ok st -> found ids h st ->
  handles_ok (snd (step sch k o st)) /\ found ids h (snd (step sch k o st)).
Proof.
  intros B HO F. destruct o; simpl in B; try contradiction; simpl.
  - pose proof (handles_ok_get c st HO). pose proof (found_get ids h c st HO F).
    now destruct (get_settings sch c st) as [[?|?] ?].
  - pose proof (handles_ok_set_field h0 sec key v st HO). pose proof (found_set_field ids h h0 sec key v st B F).
    now destruct (set_field sch h0 sec key v st) as [[?|?] ?].
  - destruct k; simpl; [now split|]. destruct (changed sch st); now split.
  - destruct k; simpl; [now split|]. destruct (changed sch st); now split.
  - destruct k; simpl; [now split|]. destruct (file st); now split.
  - now split.
  - pose proof (handles_ok_get c st HO). pose proof (found_get ids h c st HO F).
    now destruct (get_settings sch c st) as [[?|?] ?].
Qed.

Lemma benign_run k ids h : forall ops st,
  Forall benign ops -> handles_ok st -> found ids h st ->
  found ids h (snd (run sch k ops st)).
Proof.
  induction ops as [|o ops IH]; intros st B HO F; simpl; [assumption|].
  inversion B; subst. destruct (benign_step k o ids h st H1 HO F) as [HO' F'].
  destruct (step sch k o st) as [x st']. simpl in *.
  specialize (IH st' H2 HO' F'). now destruct (run sch k ops st').
Qed.

(* Once get_settings has answered a configuration with object h, it answers it with h after
   any further history of look-ups, scans, saves and assignments to non-identifier fields -
   whatever other devices are looked up, created or edited in between. *)
Theorem identity_stable k c st h st1 ops :
  handles_ok st -> sections_present sch -> NoDup (map sproto c) ->
  get_settings sch c st = (Ok h, st1) ->
  Forall benign ops ->
  let st2 := snd (run sch k ops st1) in get_settings sch c st2 = (Ok h, st2).
Proof.
  intros HO P ND G B st2.
  pose proof (get_idempotent sch c st h st1 HO P ND G) as G1.
  assert (HO1 : handles_ok st1) by (pose proof (handles_ok_get c st HO) as X; now rewrite G in X).
  assert (NE : all_identifiers c <> []).
  { pose proof (get_spec sch c st) as S. rewrite G in S. apply S. }
  assert (F1 : found (all_identifiers c) h st1).
  { unfold found. unfold get_settings in G1. destruct (all_identifiers c) as [|i l] eqn:I; [congruence|].
    destruct (find_match (heap st1) (i :: l) (cur st1)) as [h'|]; inversion G1; subst; try reflexivity.
    exfalso. assert (X : List.length (heap st1) = List.length (heap st1 ++ [update_from_config c (default_rec sch)]))
      by (rewrite <- H1 at 1; reflexivity).
    rewrite app_length in X. simpl in X. lia. }
  pose proof (benign_run k (all_identifiers c) h ops st1 B HO1 F1) as F2. fold st2 in F2.
  unfold found in F2. unfold get_settings.
  destruct (all_identifiers c) as [|i l] eqn:I; [congruence|]. now rewrite F2.
Qed.

End WithSchema.
