(* C14 - association lists, decidable equalities, dump / load of one record. *)
From Coq Require Import List Bool Arith NArith ZArith String Lia.
From PV Require Import Common.Cases C14.Model.
Import ListNotations.
Open Scope string_scope.

(* ---- decidable equalities ---------------------------------------------------------------- *)

Lemma str_eqb_eq a b : str_eqb a b = true <-> a = b.
Proof. apply list_beq_eq. intros x y. apply N.eqb_eq. Qed.

Lemma val_eqb_eq a b : val_eqb a b = true <-> a = b.
Proof.
  destruct a, b; simpl; split; intro H; try discriminate; try reflexivity.
  - apply str_eqb_eq in H. now subst.
  - inversion H. now apply str_eqb_eq.
  - apply Z.eqb_eq in H. now subst.
  - inversion H. apply Z.eqb_refl.
Qed.

Lemma pair_eqb_eq {A} (eqb : A -> A -> bool) :
  (forall x y, eqb x y = true <-> x = y) ->
  forall x y : string * A, (String.eqb (fst x) (fst y) && eqb (snd x) (snd y) = true) <-> x = y.
Proof.
  intros H [k v] [k' v']; simpl. rewrite andb_true_iff, String.eqb_eq, H. split.
  - intros [-> ->]. reflexivity.
  - intro E. inversion E. auto.
Qed.

Lemma section_eqb_eq a b : section_eqb a b = true <-> a = b.
Proof. apply list_beq_eq. apply (pair_eqb_eq val_eqb). apply val_eqb_eq. Qed.

Lemma rec_eqb_eq a b : rec_eqb a b = true <-> a = b.
Proof. apply list_beq_eq. apply (pair_eqb_eq section_eqb). apply section_eqb_eq. Qed.

Lemma ddevs_eqb_eq a b : ddevs_eqb a b = true <-> a = b.
Proof. apply list_beq_eq. apply rec_eqb_eq. Qed.

Lemma mem_In i l : mem i l = true <-> In i l.
Proof.
  unfold mem. rewrite existsb_exists. split.
  - intros (x & Hx & E). apply str_eqb_eq in E. now subst.
  - intro H. exists i. split; [assumption|]. now apply str_eqb_eq.
Qed.

(* ---- association lists --------------------------------------------------------------------- *)

Lemma assoc_In {A} k (v : A) l : assoc k l = Some v -> In (k, v) l.
Proof.
  induction l as [|[k' v'] t IH]; simpl; [discriminate|].
  destruct (String.eqb k k') eqn:E.
  - apply String.eqb_eq in E. subst. intro H. inversion H. now left.
  - intro H. right. now apply IH.
Qed.

Lemma assoc_None {A} k (l : list (string * A)) : assoc k l = None <-> ~ In k (map fst l).
Proof.
  induction l as [|[k' v'] t IH]; simpl.
  - split; auto.
  - destruct (String.eqb k k') eqn:E.
    + apply String.eqb_eq in E. subst. split; [discriminate|]. intro H. exfalso. apply H. now left.
    + apply String.eqb_neq in E. rewrite IH. split.
      * intros H [H'|H']; [congruence|auto].
      * intros H H'. apply H. now right.
Qed.

Lemma In_assoc {A} k (v : A) l : NoDup (map fst l) -> In (k, v) l -> assoc k l = Some v.
Proof.
  induction l as [|[k' v'] t IH]; simpl; intros ND H; [contradiction|].
  inversion ND as [|? ? Hn ND']; subst.
  destruct H as [H|H].
  - inversion H; subst. now rewrite String.eqb_refl.
  - destruct (String.eqb k k') eqn:E.
    + apply String.eqb_eq in E. subst. exfalso. apply Hn. apply in_map_iff. now exists (k', v).
    + now apply IH.
Qed.

Lemma assoc_map {A B} (f : string -> A -> B) k l :
  assoc k (map (fun kv => (fst kv, f (fst kv) (snd kv))) l)
  = match assoc k l with Some v => Some (f k v) | None => None end.
Proof.
  induction l as [|[k' v'] t IH]; simpl; [reflexivity|].
  destruct (String.eqb k k') eqn:E; [|assumption].
  apply String.eqb_eq in E. now subst.
Qed.

Lemma assoc_filter {A} (g : string * A -> bool) k l :
  NoDup (map fst l) ->
  assoc k (filter g l) = match assoc k l with
                         | Some v => if g (k, v) then Some v else None
                         | None => None
                         end.
Proof.
  induction l as [|[k' v'] t IH]; simpl; intro ND; [reflexivity|].
  inversion ND as [|? ? Hn ND']; subst.
  destruct (String.eqb k k') eqn:E.
  - apply String.eqb_eq in E. subst k'. destruct (g (k, v')) eqn:G.
    + simpl. now rewrite String.eqb_refl.
    + rewrite (IH ND'). replace (assoc k t) with (@None A); [reflexivity|].
      symmetry. now apply assoc_None.
  - destruct (g (k', v')); simpl; [rewrite E|]; now apply IH.
Qed.

(* a list with the keys of l, in the order of l, is determined by its look-ups *)
Lemma repr_gen {A B} (key : B -> string) (dflt : B -> A) :
  forall (l : list B) (s : list (string * A)) (look : string -> option A),
  map fst s = map key l ->
  (forall k v, In (k, v) s -> look k = Some v) ->
  s = map (fun f => (key f, match look (key f) with Some v => v | None => dflt f end)) l.
Proof.
  induction l as [|f l IH]; intros [|[k v] s] look Hk Hl; simpl in *; try discriminate; [reflexivity|].
  inversion Hk; subst. rewrite (Hl (key f) v (or_introl eq_refl)). f_equal.
  apply IH; [assumption|]. intros k' v' H. apply Hl. now right.
Qed.

Lemma keys_sset_in k v s : In k (map fst s) -> map fst (sset k v s) = map fst s.
Proof.
  induction s as [|[k' v'] t IH]; simpl; [contradiction|].
  destruct (String.eqb k k') eqn:E; simpl; [reflexivity|].
  intros [H|H]; [apply String.eqb_neq in E; congruence|]. f_equal. now apply IH.
Qed.

Lemma assoc_sset_same k v s : assoc k (sset k v s) = Some v.
Proof.
  induction s as [|[k' v'] t IH]; simpl.
  - now rewrite String.eqb_refl.
  - destruct (String.eqb k k') eqn:E; simpl; rewrite E; [reflexivity|assumption].
Qed.

Lemma assoc_sset_other k k2 v s : k2 <> k -> assoc k2 (sset k v s) = assoc k2 s.
Proof.
  intro N. induction s as [|[k' v'] t IH]; simpl.
  - destruct (String.eqb k2 k) eqn:E; [apply String.eqb_eq in E; congruence|reflexivity].
  - destruct (String.eqb k k') eqn:E; simpl.
    + apply String.eqb_eq in E. subst k'.
      destruct (String.eqb k2 k) eqn:E2; [apply String.eqb_eq in E2; congruence|reflexivity].
    + destruct (String.eqb k2 k'); [reflexivity|assumption].
Qed.

Lemma names_upd_sec n f r : map fst (upd_sec n f r) = map fst r.
Proof.
  induction r as [|[n' s] t IH]; simpl; [reflexivity|].
  destruct (String.eqb n n'); simpl; [reflexivity|]. now f_equal.
Qed.

Lemma assoc_upd_sec_same n f r s : assoc n r = Some s -> assoc n (upd_sec n f r) = Some (f s).
Proof.
  induction r as [|[n' s'] t IH]; simpl; [discriminate|].
  destruct (String.eqb n n') eqn:E; simpl; rewrite E.
  - intro H. now inversion H.
  - assumption.
Qed.

Lemma assoc_upd_sec_other n n2 f r : n2 <> n -> assoc n2 (upd_sec n f r) = assoc n2 r.
Proof.
  intro N. induction r as [|[n' s'] t IH]; simpl; [reflexivity|].
  destruct (String.eqb n n') eqn:E; simpl.
  - apply String.eqb_eq in E. subst n'.
    destruct (String.eqb n2 n) eqn:E2; [apply String.eqb_eq in E2; congruence|reflexivity].
  - destruct (String.eqb n2 n'); [reflexivity|assumption].
Qed.

Lemma assoc_upd_sec_none n f r : assoc n r = None -> upd_sec n f r = r.
Proof.
  induction r as [|[n' s'] t IH]; simpl; [reflexivity|].
  destruct (String.eqb n n') eqn:E; [discriminate|]. intro H. f_equal. now apply IH.
Qed.

(* ---- schema ------------------------------------------------------------------------------------ *)

Section WithSchema.
Variable sch : schema.

(* no two sections and no two fields of a section share a name *)
Definition schema_nodup : Prop :=
  NoDup (map fst sch) /\ Forall (fun sd : sdef => NoDup (map fname (snd sd))) sch.

(* the keys of a section are exactly the declared fields, in order *)
Definition conforms_sec (l : list fdef) (s : section) : Prop := map fst s = map fname l.

(* a Settings object that only holds what the schema declares *)
Definition conforms (r : rec) : Prop :=
  Forall2 (fun (ns : string * section) (sd : sdef) => fst ns = fst sd /\ conforms_sec (snd sd) (snd ns)) r sch.

Lemma find_fdef_In l f : NoDup (map fname l) -> In f l -> find_fdef (fname f) l = Some f.
Proof.
  induction l as [|g l IH]; simpl; intros ND H; [contradiction|].
  inversion ND as [|? ? Hn ND']; subst.
  destruct H as [->|H]; [now rewrite String.eqb_refl|].
  destruct (String.eqb (fname f) (fname g)) eqn:E.
  - apply String.eqb_eq in E. exfalso. apply Hn. rewrite <- E. now apply in_map.
  - now apply IH.
Qed.

Lemma find_fdef_name k l f : find_fdef k l = Some f -> In f l /\ fname f = k.
Proof.
  induction l as [|g l IH]; simpl; [discriminate|].
  destruct (String.eqb k (fname g)) eqn:E.
  - intro H. inversion H; subst. apply String.eqb_eq in E. split; [now left|now symmetry].
  - intro H. destruct (IH H). split; [now right|assumption].
Qed.

Theorem load_dump_section l s :
  NoDup (map fname l) -> conforms_sec l s -> load_section l (dump_section l s) = s.
Proof.
  intros ND C. unfold conforms_sec in C.
  assert (NDs : NoDup (map fst s)) by now rewrite C.
  pose proof (repr_gen fname fdefault l s (fun k => assoc k s) C (fun k v H => In_assoc k v s NDs H)) as R.
  etransitivity; [|symmetry; exact R].
  unfold load_section. apply map_ext_in. intros f Hf. f_equal.
  unfold dump_section. rewrite assoc_filter by assumption.
  destruct (assoc (fname f) s) as [v|] eqn:A; [|reflexivity].
  simpl. unfold is_default. rewrite (find_fdef_In l f ND Hf).
  destruct (val_eqb (fdefault f) v) eqn:E; simpl; [|reflexivity].
  now apply val_eqb_eq in E.
Qed.

Lemma load_section_conforms l d : conforms_sec l (load_section l d).
Proof. unfold conforms_sec, load_section. rewrite map_map. reflexivity. Qed.

Lemma conforms_keys r : conforms r ->
  map (fun ns : string * section => (fst ns, map fst (snd ns))) r
  = map (fun sd : sdef => (fst sd, map fname (snd sd))) sch.
Proof.
  induction 1 as [|[n s] sd r s' [E C] _ IH]; simpl; [reflexivity|].
  simpl in E. unfold conforms_sec in C. simpl in C. now rewrite E, C, IH.
Qed.

Lemma conforms_names r : conforms r -> map fst r = map fst sch.
Proof. induction 1 as [|ns sd r s [E _] _ IH]; simpl; [reflexivity|]. now rewrite E, IH. Qed.

Lemma conforms_lookup r : NoDup (map fst sch) -> conforms r ->
  forall sd, In sd sch -> exists s, assoc (fst sd) r = Some s /\ conforms_sec (snd sd) s.
Proof.
  intros ND C. induction C as [|[n s] sd0 r sch' [E Cs] C IH]; intros sd H; [contradiction|].
  simpl in *. subst n. inversion ND as [|? ? Hn ND']; subst.
  destruct H as [->|H].
  - exists s. now rewrite String.eqb_refl.
  - destruct (String.eqb (fst sd) (fst sd0)) eqn:E.
    + apply String.eqb_eq in E. exfalso. apply Hn. rewrite <- E. now apply in_map.
    + now apply IH.
Qed.

Lemma fdefs_In sd : NoDup (map fst sch) -> In sd sch -> fdefs sch (fst sd) = snd sd.
Proof.
  intros ND H. unfold fdefs. destruct sd as [n l]. simpl.
  now rewrite (In_assoc n l sch ND H).
Qed.

(* load after dump gives back every record that conforms to the schema *)
Theorem load_dump_rec r : schema_nodup -> conforms r -> load_rec sch (dump_rec sch r) = r.
Proof.
  intros [ND NDf] C.
  assert (NDr : NoDup (map fst r)) by (rewrite (conforms_names r C); assumption).
  pose proof (repr_gen (@fst string (list fdef)) (fun _ => @nil (string * val)) sch r (fun k => assoc k r)
             (conforms_names r C) (fun k v H => In_assoc k v r NDr H)) as R.
  etransitivity; [|symmetry; exact R].
  unfold load_rec. apply map_ext_in. intros sd Hsd. f_equal.
  unfold dump_rec. rewrite (assoc_map (fun n s => dump_section (fdefs sch n) s)).
  destruct (conforms_lookup r ND C sd Hsd) as (s & A & Cs). rewrite A.
  rewrite (fdefs_In sd ND Hsd). apply load_dump_section; [|assumption].
  rewrite Forall_forall in NDf. now apply NDf.
Qed.

Lemma load_rec_conforms d : conforms (load_rec sch d).
Proof.
  unfold conforms, load_rec. induction sch as [|sd t IH]; simpl; constructor.
  - split; [reflexivity|]. apply load_section_conforms.
  - apply IH.
Qed.

Lemma default_rec_conforms : conforms (default_rec sch).
Proof.
  unfold conforms, default_rec. induction sch as [|sd t IH]; simpl; constructor.
  - split; [reflexivity|]. unfold conforms_sec, default_section. simpl. now rewrite map_map.
  - apply IH.
Qed.

Theorem load_dump_all rs : schema_nodup -> Forall conforms rs ->
  map (load_rec sch) (map (dump_rec sch) rs) = rs.
Proof.
  intros S. induction 1 as [|r rs C _ IH]; simpl; [reflexivity|].
  now rewrite load_dump_rec, IH.
Qed.

(* hence the dump - and with it the hash and the file - determines conforming contents *)
Theorem dump_injective a b : schema_nodup -> Forall conforms a -> Forall conforms b ->
  map (dump_rec sch) a = map (dump_rec sch) b -> a = b.
Proof.
  intros S Ca Cb E. rewrite <- (load_dump_all a S Ca), <- (load_dump_all b S Cb). now rewrite E.
Qed.

End WithSchema.
