(* C14 - invariants of the storage over arbitrary histories: changed flag, save/load round trip. *)
From Coq Require Import List Bool Arith NArith ZArith String Lia.
From PV Require Import Common.Cases C14.Model C14.ProofsA C14.ProofsB.
Import ListNotations.
Open Scope string_scope.
Open Scope list_scope.

(* ---- the facts about the schema the proofs rely on, as a computable check ------------------- *)

Fixpoint nodupb (l : list string) : bool :=
  match l with
  | [] => true
  | x :: t => negb (existsb (String.eqb x) t) && nodupb t
  end.

Definition memb (x : string) (l : list string) : bool := existsb (String.eqb x) l.

Definition schema_okb (sch : schema) : bool :=
  nodupb (map fst sch)
  && forallb (fun sd : sdef => nodupb (map fname (snd sd))) sch
  && forallb (fun sec => memb sec (map fst sch)
                         && memb "identifier" (map fname (fdefs sch sec))
                         && memb "credentials" (map fname (fdefs sch sec))
                         && val_eqb (field (default_rec sch) sec "identifier") VNone) lookup_secs.

Lemma memb_In x l : memb x l = true <-> In x l.
Proof.
  unfold memb. rewrite existsb_exists. split.
  - intros (y & Hy & E). apply String.eqb_eq in E. now subst.
  - intro H. exists x. split; [assumption|apply String.eqb_refl].
Qed.

Lemma nodupb_NoDup l : nodupb l = true -> NoDup l.
Proof.
  induction l as [|x t IH]; simpl; intro H; constructor.
  - apply andb_true_iff in H as [H _]. intro Hin. apply memb_In in Hin.
    unfold memb in Hin. rewrite Hin in H. discriminate.
  - apply IH. now apply andb_true_iff in H as [_ H].
Qed.

Section WithSchema.
Variable sch : schema.

Record schema_ok : Prop := {
  ok_nodup : schema_nodup sch;
  ok_present : sections_present sch;
  ok_ids : forall sec, In sec lookup_secs -> In "identifier" (map fname (fdefs sch sec));
  ok_creds : forall sec, In sec lookup_secs -> In "credentials" (map fname (fdefs sch sec));
  ok_default : ids_default_none sch }.

Lemma schema_okb_sound : schema_okb sch = true -> schema_ok.
Proof.
  unfold schema_okb. rewrite !andb_true_iff. intros [[H1 H2] H3].
  rewrite forallb_forall in H2, H3.
  assert (H3' : forall sec, In sec lookup_secs ->
     In sec (map fst sch) /\ In "identifier" (map fname (fdefs sch sec))
     /\ In "credentials" (map fname (fdefs sch sec))
     /\ field (default_rec sch) sec "identifier" = VNone).
  { intros sec Hs. specialize (H3 sec Hs). rewrite !andb_true_iff in H3.
    destruct H3 as [[[A B] C] D]. repeat split; try (now apply memb_In). now apply val_eqb_eq. }
  constructor.
  - split; [now apply nodupb_NoDup|]. apply Forall_forall. intros sd Hsd. apply nodupb_NoDup. now apply H2.
  - intros sec Hs. now apply H3'.
  - intros sec Hs. now apply H3'.
  - intros sec Hs. now apply H3'.
  - intros sec Hs. now apply H3'.
Qed.

Hypothesis OK : schema_ok.

Notation conforms := (conforms sch).

(* a configuration only carries a password for a protocol whose settings declare one *)
Definition pw_ok (s : service) : Prop :=
  spw s = None \/ In "password" (map fname (fdefs sch (sec_of (sproto s)))).
Definition cfg_ok (c : cfg) : Prop := Forall pw_ok c.

Definition wf_op (o : op) : Prop :=
  match o with
  | Get c | Update c | Scan c => cfg_ok c
  | _ => True
  end.

(* ---- conformance is preserved ------------------------------------------------------------------ *)

Lemma Forall2_upd_sec sec f (sc : list sdef) r :
  Forall2 (fun (ns : string * section) (sd : sdef) => fst ns = fst sd /\ conforms_sec (snd sd) (snd ns)) r sc ->
  (forall sd s, In sd sc -> fst sd = sec -> conforms_sec (snd sd) s -> conforms_sec (snd sd) (f s)) ->
  Forall2 (fun (ns : string * section) (sd : sdef) => fst ns = fst sd /\ conforms_sec (snd sd) (snd ns)) (upd_sec sec f r) sc.
Proof.
  induction 1 as [|[n s] sd r sc' [E C] HT IH]; intro Hf; simpl; [constructor|].
  simpl in E. destruct (String.eqb sec n) eqn:Q.
  - apply String.eqb_eq in Q. constructor; [|assumption].
    simpl. split; [assumption|]. apply Hf; [now left|congruence|assumption].
  - constructor; [now split|]. apply IH. intros sd' s' Hin. apply Hf. now right.
Qed.

Lemma conforms_upd_sec sec f r :
  conforms r ->
  (forall s, In sec (map fst sch) -> conforms_sec (fdefs sch sec) s -> conforms_sec (fdefs sch sec) (f s)) ->
  conforms (upd_sec sec f r).
Proof.
  intros C Hf. apply Forall2_upd_sec; [assumption|].
  intros sd s Hin E Cs. destruct OK as [[ND _] _ _ _ _].
  rewrite <- (fdefs_In sch sd ND Hin) in *. rewrite E in *. apply Hf; [|assumption].
  rewrite <- E. now apply in_map.
Qed.

Lemma conforms_update_one s r : pw_ok s -> conforms r -> conforms (update_one s r).
Proof.
  intros P C. unfold pw_ok in P. unfold update_one. apply conforms_upd_sec; [assumption|].
  intros x Hin Cx. unfold conforms_sec in *.
  pose proof (ok_ids OK _ (sec_of_lookup (sproto s))) as Hi.
  pose proof (ok_creds OK _ (sec_of_lookup (sproto s))) as Hc.
  rewrite <- Cx in Hi, Hc.
  assert (M : map fst (model_copy x [("credentials", screds s); ("password", spw s)]) = map fst x).
  { simpl. destruct (screds s) as [c|], (spw s) as [p|] eqn:Ep; try reflexivity.
    - destruct P as [P|P]; [discriminate|]. rewrite <- Cx in P.
      rewrite keys_sset_in; [now apply keys_sset_in|]. now rewrite keys_sset_in.
    - now apply keys_sset_in.
    - destruct P as [P|P]; [discriminate|]. rewrite <- Cx in P. now apply keys_sset_in. }
  rewrite keys_sset_in; rewrite M; assumption.
Qed.

Lemma conforms_update_from_config c : forall r, cfg_ok c -> conforms r -> conforms (update_from_config c r).
Proof.
  induction c as [|s c IH]; intros r P C; simpl; [assumption|].
  inversion P; subst. apply IH; [assumption|]. now apply conforms_update_one.
Qed.

Lemma conforms_set_field sec key v r :
  find_fdef key (fdefs sch sec) <> None -> conforms r -> conforms (upd_sec sec (sset key v) r).
Proof.
  intros F C. apply conforms_upd_sec; [assumption|].
  intros s _ Cs. unfold conforms_sec in *. rewrite keys_sset_in; [assumption|].
  rewrite Cs. destruct (find_fdef key (fdefs sch sec)) as [f|] eqn:E; [|congruence].
  apply find_fdef_name in E as [Hin <-]. now apply in_map.
Qed.

(* ---- small list facts ------------------------------------------------------------------------------ *)

Lemma Forall_set_nth {A} (P : A -> Prop) n x l : Forall P l -> P x -> Forall P (set_nth n x l).
Proof.
  intros H Hx. revert n. induction H as [|y l Hy H IH]; intro n; simpl; [destruct n; constructor|].
  destruct n; constructor; auto.
Qed.

Lemma length_set_nth {A} n (x : A) l : List.length (set_nth n x l) = List.length l.
Proof. revert n. induction l as [|y l IH]; intro n; simpl; [now destruct n|]. destruct n; simpl; auto. Qed.

Lemma Forall_contents (P : rec -> Prop) hp hs : Forall P hp -> Forall P (contents_of hp hs).
Proof.
  intro H. unfold contents_of. apply Forall_forall. intros r Hr.
  apply in_flat_map in Hr as (h & _ & Hr).
  destruct (nth_error hp h) as [r'|] eqn:N; [|contradiction].
  destruct Hr as [<-|[]]. rewrite Forall_forall in H. apply H. eapply nth_error_In; eassumption.
Qed.

Lemma remove_first_Forall (P : nat -> Prop) hp r : forall hs hs',
  remove_first hp r hs = Some hs' -> Forall P hs -> Forall P hs'.
Proof.
  induction hs as [|h t IH]; simpl; intros hs' E F; [discriminate|].
  inversion F; subst.
  destruct (match nth_error hp h with Some r' => rec_eqb r' r | None => false end).
  - now inversion E; subst.
  - destruct (remove_first hp r t) as [t'|]; [|discriminate]. inversion E; subst.
    constructor; [assumption|]. now apply IH.
Qed.

Lemma contents_of_fresh hp new :
  contents_of (hp ++ new) (seq (List.length hp) (List.length new)) = new.
Proof.
  unfold contents_of. revert hp. induction new as [|r new IH]; intro hp; simpl; [reflexivity|].
  rewrite nth_error_app2 by lia. rewrite Nat.sub_diag. simpl. f_equal.
  specialize (IH (hp ++ [r])). rewrite <- app_assoc in IH. simpl in IH.
  rewrite app_length in IH. simpl in IH. rewrite Nat.add_1_r in IH. exact IH.
Qed.

(* ---- the invariant ------------------------------------------------------------------------------------ *)

Record Inv (st : state) : Prop := {
  inv_handles : handles_ok st;
  inv_heap : Forall conforms (heap st);
  inv_synced : Forall conforms (synced st);
  inv_saved : saved st = map (dump_rec sch) (synced st) }.

Lemma Inv_fresh hp f : Forall conforms hp -> Inv (fresh hp f).
Proof. intro H. constructor; simpl; try constructor; assumption. Qed.

Lemma Inv_mark st : handles_ok st -> Forall conforms (heap st) -> Inv (mark_as_saved sch st).
Proof.
  intros H1 H2. constructor; simpl; try assumption.
  - now apply Forall_contents.
  - reflexivity.
Qed.

Lemma Inv_get c st : cfg_ok c -> Inv st -> Inv (snd (get_settings sch c st)).
Proof.
  intros P [H1 H2 H3 H4]. pose proof (get_spec sch c st) as S.
  destruct (get_settings sch c st) as [[h|e] st']; simpl.
  - destruct S as [_ [(_ & -> & _)|(-> & _ & Hh & Hc & Hs & _ & Hy)]]; [now constructor|].
    constructor.
    + unfold handles_ok in *. rewrite Hh, Hc, app_length. simpl. apply Forall_app. split.
      * eapply Forall_impl; [|exact H1]. simpl. intros; lia.
      * constructor; [lia|constructor].
    + rewrite Hh. apply Forall_app. split; [assumption|]. constructor; [|constructor].
      apply conforms_update_from_config; [assumption|]. apply default_rec_conforms.
    + now rewrite Hy.
    + now rewrite Hs, Hy.
  - destruct S as (_ & -> & _). now constructor.
Qed.

Lemma Inv_with_heap st hp :
  Inv st -> List.length hp = List.length (heap st) -> Forall conforms hp -> Inv (with_heap st hp).
Proof.
  intros [H1 H2 H3 H4] L F. constructor; simpl; try assumption.
  unfold handles_ok in *. simpl. now rewrite L.
Qed.

Lemma Inv_update c st : cfg_ok c -> Inv st -> Inv (snd (update_settings sch c st)).
Proof.
  intros P I. unfold update_settings. pose proof (Inv_get c st P I) as I'.
  destruct (get_settings sch c st) as [[h|e] st']; simpl in *; [|assumption].
  destruct (nth_error (heap st') h) as [r|] eqn:N; simpl; [|assumption].
  apply Inv_with_heap; [assumption|apply length_set_nth|].
  apply Forall_set_nth; [apply I'|]. apply conforms_update_from_config; [assumption|].
  pose proof (inv_heap _ I') as F. rewrite Forall_forall in F. apply F. eapply nth_error_In; eassumption.
Qed.

Lemma Inv_remove h st : Inv st -> Inv (snd (remove_settings h st)).
Proof.
  intros [H1 H2 H3 H4]. unfold remove_settings.
  destruct (nth_error (heap st) h) as [r|]; [|now constructor].
  destruct (remove_first (heap st) r (cur st)) as [hs|] eqn:E; [|now constructor].
  constructor; simpl; try assumption.
  unfold handles_ok in *. simpl. eapply remove_first_Forall; eassumption.
Qed.

Lemma Inv_set_field h sec key v st : Inv st -> Inv (snd (set_field sch h sec key v st)).
Proof.
  intro I. unfold set_field.
  destruct (nth_error (heap st) h) as [r|] eqn:N; [|assumption].
  destruct (find_fdef key (fdefs sch sec)) as [f|] eqn:F; [|assumption].
  simpl. apply Inv_with_heap; [assumption|apply length_set_nth|].
  apply Forall_set_nth; [apply I|]. apply conforms_set_field; [congruence|].
  pose proof (inv_heap _ I) as Fh. rewrite Forall_forall in Fh. apply Fh. eapply nth_error_In; eassumption.
Qed.

Lemma Inv_save k st : Inv st -> Inv (save sch k st).
Proof.
  intro I. destruct I as [H1 H2 H3 H4]. destruct k; simpl.
  - now apply Inv_mark.
  - destruct (changed sch st); [|now constructor]. now apply Inv_mark.
Qed.

Lemma Inv_load k st : Inv st -> Inv (snd (load sch k st)).
Proof.
  intro I. destruct k; simpl; [assumption|].
  destruct (file st) as [[v ds]|]; [|assumption].
  destruct (Z.eqb v 1); [|assumption]. simpl.
  destruct I as [H1 H2 H3 H4]. apply Inv_mark; simpl.
  - unfold handles_ok. simpl. apply Forall_forall. intros h Hh. apply in_seq in Hh.
    rewrite app_length, map_length. lia.
  - apply Forall_app. split; [assumption|]. apply Forall_forall. intros r Hr.
    apply in_map_iff in Hr as (d & <- & _). apply load_rec_conforms.
Qed.

Theorem step_Inv k o st : wf_op o -> Inv st -> Inv (snd (step sch k o st)).
Proof.
  intros W I. destruct o; simpl in *.
  - pose proof (Inv_get c st W I) as H. now destruct (get_settings sch c st) as [[?|?] ?].
  - pose proof (Inv_update c st W I) as H. now destruct (update_settings sch c st) as [[?|?] ?].
  - pose proof (Inv_remove h st I) as H. now destruct (remove_settings h st).
  - pose proof (Inv_set_field h sec key v st I) as H. now destruct (set_field sch h sec key v st) as [[?|?] ?].
  - now apply Inv_save.
  - pose proof (Inv_load k st I) as H. now destruct (load sch k st) as [[?|?] ?].
  - apply Inv_fresh. apply I.
  - destruct k; simpl; [now apply (Inv_save Memory)|]. now destruct (changed sch st).
  - destruct k; simpl; [assumption|]. now destruct (file st).
  - assumption.
  - pose proof (Inv_get c st W I) as H. now destruct (get_settings sch c st) as [[?|?] ?].
Qed.

Theorem run_Inv k : forall ops st, Forall wf_op ops -> Inv st -> Inv (snd (run sch k ops st)).
Proof.
  induction ops as [|o ops IH]; intros st W I; simpl; [assumption|].
  inversion W; subst. pose proof (step_Inv k o st H1 I) as I'.
  destruct (step sch k o st) as [x st']. simpl in I'.
  specialize (IH st' H2 I'). now destruct (run sch k ops st').
Qed.

(* ---- changed ---------------------------------------------------------------------------------------------- *)

Theorem changed_iff st : Inv st -> (changed sch st = true <-> contents st <> synced st).
Proof.
  intros [H1 H2 H3 H4]. unfold changed, dumps. rewrite H4, negb_true_iff. split.
  - intros E C. rewrite C in E.
    assert (T : ddevs_eqb (map (dump_rec sch) (synced st)) (map (dump_rec sch) (synced st)) = true)
      by now apply ddevs_eqb_eq.
    congruence.
  - intro N. destruct (ddevs_eqb _ _) eqn:E; [|reflexivity].
    apply ddevs_eqb_eq in E. exfalso. apply N.
    apply (dump_injective sch); [apply OK|now apply Forall_contents|assumption|assumption].
Qed.

(* ---- save, then load into a fresh storage ------------------------------------------------------------- *)

(* the storage object and the file agree about what was last saved or loaded *)
Definition file_sync (st : state) : Prop :=
  match file st with
  | None => synced st = []
  | Some (v, ds) => v = 1%Z /\ map (load_rec sch) ds = synced st
  end.

Definition reload (st : state) : state := snd (load sch File (fresh (heap st) (file st))).

Theorem roundtrip st : Inv st -> file_sync st -> contents (reload (save sch File st)) = contents st.
Proof.
  intros I FS. unfold reload. simpl save.
  destruct (changed sch st) eqn:C.
  - simpl. unfold contents. simpl.
    rewrite <- (map_length (load_rec sch) (dumps sch st)).
    rewrite contents_of_fresh. unfold dumps.
    apply (load_dump_all sch); [apply OK|]. apply Forall_contents. apply I.
  - assert (E : contents st = synced st).
    { destruct (list_eq_dec (list_eq_dec (fun x y : string * section =>
          ltac:(decide equality; [repeat decide equality|apply string_dec]))) (contents st) (synced st))
        as [E|N]; [assumption|]. apply (changed_iff st I) in N. congruence. }
    unfold file_sync in FS. simpl. destruct (file st) as [[v ds]|]; simpl.
    + destruct FS as [-> FS]. simpl. unfold contents. simpl.
      rewrite <- (map_length (load_rec sch) ds) at 1. rewrite contents_of_fresh.
      rewrite FS. symmetry. exact E.
    + unfold contents at 1. simpl. rewrite E. symmetry. exact FS.
Qed.

Lemma file_sync_save st : Inv st -> file_sync st -> file_sync (save sch File st).
Proof.
  intros I FS. simpl. destruct (changed sch st); [|assumption].
  unfold file_sync. simpl. split; [reflexivity|]. unfold dumps.
  apply (load_dump_all sch); [apply OK|]. apply Forall_contents. apply I.
Qed.

(* a save that writes, and a load that finds a file, establish the agreement *)
Lemma file_sync_after_write st : Inv st -> changed sch st = true -> file_sync (save sch File st).
Proof.
  intros I C. simpl. rewrite C. unfold file_sync. simpl. split; [reflexivity|]. unfold dumps.
  apply (load_dump_all sch); [apply OK|]. apply Forall_contents. apply I.
Qed.

Lemma file_sync_after_load st st' :
  file st <> None -> load sch File st = (Ok tt, st') -> file_sync st'.
Proof.
  intros F L. simpl in L. destruct (file st) as [[v ds]|] eqn:E; [|congruence].
  destruct (Z.eqb v 1) eqn:V; [|discriminate]. apply Z.eqb_eq in V. subst v.
  inversion L; subst. unfold file_sync. simpl. split; [reflexivity|].
  unfold contents. simpl. rewrite <- (map_length (load_rec sch) ds) at 1. now rewrite contents_of_fresh.
Qed.

Lemma get_file_synced c st : let st' := snd (get_settings sch c st) in file st' = file st /\ synced st' = synced st.
Proof.
  pose proof (get_spec sch c st) as S. destruct (get_settings sch c st) as [[h|e] st']; simpl.
  - destruct S as [_ [(_ & -> & _)|(_ & _ & _ & _ & _ & Hf & Hy)]]; auto.
  - destruct S as (_ & -> & _). auto.
Qed.

Theorem step_file_sync o st :
  o <> Fresh -> Inv st -> file_sync st -> file_sync (snd (step sch File o st)).
Proof.
  intros NF I FS. destruct o; simpl.
  - destruct (get_file_synced c st) as [A B]. destruct (get_settings sch c st) as [[?|?] s']; simpl in *;
      unfold file_sync in *; now rewrite A, B.
  - unfold update_settings. destruct (get_file_synced c st) as [A B].
    destruct (get_settings sch c st) as [[h|?] s']; simpl in *.
    + destruct (nth_error (heap s') h); simpl; unfold file_sync in *; simpl; now rewrite A, B.
    + unfold file_sync in *; now rewrite A, B.
  - unfold remove_settings. destruct (nth_error (heap st) h) as [r|]; [|assumption].
    destruct (remove_first (heap st) r (cur st)); assumption.
  - unfold set_field. destruct (nth_error (heap st) h) as [r|]; [|assumption].
    destruct (find_fdef key (fdefs sch sec)); assumption.
  - now apply file_sync_save.
  - destruct (file st) as [[v ds]|] eqn:E; [|assumption].
    destruct (Z.eqb v 1) eqn:V; [|assumption]. simpl.
    apply (file_sync_after_load st); [congruence|]. simpl. now rewrite E, V.
  - congruence.
  - now destruct (changed sch st).
  - now destruct (file st).
  - assumption.
  - destruct (get_file_synced c st) as [A B]. destruct (get_settings sch c st) as [[?|?] s']; simpl in *;
      unfold file_sync in *; now rewrite A, B.
Qed.

Theorem run_file_sync : forall ops st,
  Forall wf_op ops -> Forall (fun o => o <> Fresh) ops -> Inv st -> file_sync st ->
  file_sync (snd (run sch File ops st)).
Proof.
  induction ops as [|o ops IH]; intros st W NF I FS; simpl; [assumption|].
  inversion W; subst. inversion NF; subst.
  pose proof (step_Inv File o st H1 I) as I'. pose proof (step_file_sync o st H3 I FS) as FS'.
  destruct (step sch File o st) as [x st']. simpl in *.
  specialize (IH st' H2 H4 I' FS'). now destruct (run sch File ops st').
Qed.

End WithSchema.
