(* C17 - lemmas about run-length encoded byte strings and their denotation. *)
From Coq Require Import List Bool NArith Arith Lia.
From PV Require Import Common.Cases C17.Model C17.Spec.
Import ListNotations.
Local Open Scope N_scope.

(* ---------------------------------------------------------------- nseq *)

Lemma nseq_nat_length o n : length (nseq_nat o n) = n.
Proof. revert o; induction n as [|n IH]; intro o; simpl; [reflexivity | now rewrite IH]. Qed.

Lemma nseq_nat_app o a b :
  nseq_nat o (a + b) = nseq_nat o a ++ nseq_nat (o + N.of_nat a) b.
Proof.
  revert o; induction a as [|a IH]; intro o.
  - simpl. now rewrite N.add_0_r.
  - cbn [Nat.add nseq_nat app]. rewrite IH. f_equal. f_equal. f_equal. lia.
Qed.

Lemma nseq_length o l : length (nseq o l) = N.to_nat l.
Proof. apply nseq_nat_length. Qed.

Lemma nseq_0 o : nseq o 0 = [].
Proof. reflexivity. Qed.

Lemma nseq_app o a b : nseq o (a + b) = nseq o a ++ nseq (o + a) b.
Proof.
  unfold nseq. rewrite N2Nat.inj_add, nseq_nat_app. now rewrite N2Nat.id.
Qed.

Lemma nseq_split o l n : n <= l -> nseq o l = nseq o n ++ nseq (o + n) (l - n).
Proof. intro H. rewrite <- nseq_app. f_equal. lia. Qed.

(* ---------------------------------------------------------------- ntake / nskip *)

Lemma ntake_0 l : ntake 0 l = [].
Proof. reflexivity. Qed.

Lemma nskip_0 l : nskip 0 l = l.
Proof. reflexivity. Qed.

Lemma ntake_all n l : N.of_nat (length l) <= n -> ntake n l = l.
Proof. intro H. unfold ntake. apply firstn_all2. lia. Qed.

Lemma nskip_all n l : N.of_nat (length l) <= n -> nskip n l = [].
Proof. intro H. unfold nskip. apply skipn_all2. lia. Qed.

Lemma ntake_app n l1 l2 :
  ntake n (l1 ++ l2) = ntake n l1 ++ ntake (n - N.of_nat (length l1)) l2.
Proof.
  unfold ntake. rewrite firstn_app. f_equal. f_equal. lia.
Qed.

Lemma nskip_app n l1 l2 :
  nskip n (l1 ++ l2) = nskip n l1 ++ nskip (n - N.of_nat (length l1)) l2.
Proof.
  unfold nskip. rewrite skipn_app. f_equal. f_equal. lia.
Qed.

Lemma nskip_app_le n l1 l2 :
  n <= N.of_nat (length l1) -> nskip n (l1 ++ l2) = nskip n l1 ++ l2.
Proof.
  intro H. rewrite nskip_app. replace (n - N.of_nat (length l1)) with 0 by lia. reflexivity.
Qed.

Lemma skipn_skipn' {A} (x y : nat) (l : list A) : skipn x (skipn y l) = skipn (y + x)%nat l.
Proof.
  revert l; induction y as [|y IH]; intro l; [reflexivity|].
  destruct l as [|h t]; [now rewrite !skipn_nil|]. simpl. apply IH.
Qed.

Lemma nskip_nskip a b l : nskip a (nskip b l) = nskip (b + a) l.
Proof.
  unfold nskip. rewrite skipn_skipn'. f_equal. lia.
Qed.

Lemma nskip_length n l : N.of_nat (length (nskip n l)) = N.of_nat (length l) - n.
Proof. unfold nskip. rewrite skipn_length. lia. Qed.

Lemma ntake_length n l : N.of_nat (length (ntake n l)) = N.min n (N.of_nat (length l)).
Proof. unfold ntake. rewrite firstn_length. lia. Qed.

Lemma ntake_nseq n o l : ntake n (nseq o l) = nseq o (N.min n l).
Proof.
  destruct (N.le_gt_cases l n) as [H|H].
  - rewrite ntake_all by (rewrite nseq_length; lia). f_equal. lia.
  - rewrite (nseq_split o l n) by lia. rewrite ntake_app.
    rewrite ntake_all by (rewrite nseq_length; lia).
    rewrite nseq_length. replace (n - N.of_nat (N.to_nat n)) with 0 by lia.
    rewrite ntake_0, app_nil_r. f_equal. lia.
Qed.

Lemma nskip_nseq n o l : nskip n (nseq o l) = nseq (o + n) (l - n).
Proof.
  destruct (N.le_gt_cases l n) as [H|H].
  - rewrite nskip_all by (rewrite nseq_length; lia).
    replace (l - n) with 0 by lia. reflexivity.
  - rewrite (nseq_split o l n) by lia. rewrite nskip_app.
    rewrite nskip_all by (rewrite nseq_length; lia).
    rewrite nseq_length. replace (n - N.of_nat (N.to_nat n)) with 0 by lia.
    reflexivity.
Qed.

Lemma slice_nseq s c n : slice (nseq 0 s) c n = nseq c (N.min n (s - c)).
Proof. unfold slice. rewrite nskip_nseq, ntake_nseq. f_equal. Qed.

(* ---------------------------------------------------------------- bytes_of *)

Lemma bytes_app a b : bytes_of (a ++ b) = bytes_of a ++ bytes_of b.
Proof.
  induction a as [|[o l] a IH]; simpl; [reflexivity|]. now rewrite IH, app_assoc.
Qed.

Lemma bytes_length d : N.of_nat (length (bytes_of d)) = dlen d.
Proof.
  induction d as [|[o l] d IH]; simpl; [reflexivity|].
  rewrite app_length, nseq_length. lia.
Qed.

Lemma dlen_app a b : dlen (a ++ b) = dlen a + dlen b.
Proof. induction a as [|[o l] a IH]; simpl; [reflexivity|]. rewrite IH. lia. Qed.

Lemma dlen_dtake n d : dlen (dtake n d) = N.min n (dlen d).
Proof.
  revert n; induction d as [|[o l] d IH]; intro n; simpl.
  - lia.
  - destruct (n =? 0) eqn:E0.
    + apply N.eqb_eq in E0. simpl. lia.
    + apply N.eqb_neq in E0. destruct (n <=? l) eqn:E1.
      * apply N.leb_le in E1. simpl. lia.
      * apply N.leb_gt in E1. simpl. rewrite IH. lia.
Qed.

Lemma dlen_ddrop n d : dlen (ddrop n d) = dlen d - n.
Proof.
  revert n; induction d as [|[o l] d IH]; intro n; simpl.
  - lia.
  - destruct (n <? l) eqn:E.
    + apply N.ltb_lt in E. simpl. lia.
    + apply N.ltb_ge in E. rewrite IH. lia.
Qed.

Lemma bytes_dtake n d : bytes_of (dtake n d) = ntake n (bytes_of d).
Proof.
  revert n; induction d as [|[o l] d IH]; intro n; simpl.
  - unfold ntake. now rewrite firstn_nil.
  - destruct (n =? 0) eqn:E0.
    + apply N.eqb_eq in E0. subst n. reflexivity.
    + apply N.eqb_neq in E0. destruct (n <=? l) eqn:E1.
      * apply N.leb_le in E1. simpl. rewrite app_nil_r.
        rewrite ntake_app, ntake_nseq, nseq_length.
        replace (n - N.of_nat (N.to_nat l)) with 0 by lia.
        rewrite ntake_0, app_nil_r. f_equal. lia.
      * apply N.leb_gt in E1. simpl. rewrite IH.
        rewrite ntake_app, nseq_length, N2Nat.id.
        rewrite (ntake_all n (nseq o l)) by (rewrite nseq_length; lia). reflexivity.
Qed.

Lemma bytes_ddrop n d : bytes_of (ddrop n d) = nskip n (bytes_of d).
Proof.
  revert n; induction d as [|[o l] d IH]; intro n; simpl.
  - unfold nskip. now rewrite skipn_nil.
  - destruct (n <? l) eqn:E.
    + apply N.ltb_lt in E. simpl.
      rewrite nskip_app, nskip_nseq, nseq_length.
      replace (n - N.of_nat (N.to_nat l)) with 0 by lia. reflexivity.
    + apply N.ltb_ge in E. rewrite IH.
      rewrite nskip_app, nseq_length, N2Nat.id.
      rewrite (nskip_all n (nseq o l)) by (rewrite nseq_length; lia). reflexivity.
Qed.

(* canonical form has the same meaning: the comparison used by the correspondence run
   identifies only byte strings with equal denotation *)
Lemma bytes_norm d : bytes_of (norm d) = bytes_of d.
Proof.
  induction d as [|[o l] d IH]; simpl; [reflexivity|].
  destruct (l =? 0) eqn:E0.
  - apply N.eqb_eq in E0. subst l. simpl. exact IH.
  - destruct (norm d) as [|[o' l'] t'] eqn:En.
    + simpl. rewrite <- IH. reflexivity.
    + destruct (o' =? o + l) eqn:E1.
      * apply N.eqb_eq in E1. subst o'. rewrite <- IH. simpl.
        rewrite nseq_app, <- app_assoc. reflexivity.
      * rewrite <- IH. reflexivity.
Qed.

Lemma chunk_eqb_eq a b : chunk_eqb a b = true <-> a = b.
Proof.
  destruct a as [a1 a2], b as [b1 b2]; unfold chunk_eqb; simpl.
  rewrite andb_true_iff, !N.eqb_eq. split; [intros [-> ->]; reflexivity | intro E; inversion E; auto].
Qed.

Lemma data_eqb_sound a b : data_eqb a b = true -> bytes_of a = bytes_of b.
Proof.
  unfold data_eqb. intro H. apply (list_beq_eq chunk_eqb chunk_eqb_eq) in H.
  rewrite <- (bytes_norm a), <- (bytes_norm b). now rewrite H.
Qed.
