(* C17 - model of pyatv/support/buffer.py (SemiSeekableBuffer) and of the stream wrappers
   in pyatv/protocols/raop/audio_source.py (BufferedIOBaseWrapper, StreamReaderWrapper,
   StreamableIOBaseWrapper over BufferedIOBaseWrapper, StreamableSourceWrapper over
   StreamReaderWrapper, PatchedIceCastClient reduced to its buffer logic), as the code
   stands after commits b9f861e, ff5b434, 205aad4 and bdf53a0.

   BYTE STRINGS are run-length encoded: a chunk (o, l) is the l bytes o, o+1, ..., o+l-1
   ("the byte IS its name"), a byte string is a list of chunks.  Any byte string can be
   written that way (l = 1 chunks), so nothing is lost in generality, and a read of 64 KiB
   from the identity source 0,1,2,... is one chunk.  [bytes_of] in Spec.v gives the
   denotation as a plain list.  The code never inspects the content of a byte, only
   lengths (the correspondence run checks this by running the implementation on three
   different contents of the same shape).

   Numbers are N.  Python's `len(buf) - position` and `buffer_size - len(buf)` become
   truncated subtractions; Proofs.v shows they never truncate on reachable states
   (C17_model_no_truncation), so the N model and the int code agree.  Arguments that are
   negative in Python are outside the model except -1 for read sizes (None). *)
From Coq Require Import List Bool NArith ZArith.
From PV Require Import Common.Cases.
Import ListNotations.
Local Open Scope N_scope.

(* ------------------------------------------------------------------ byte strings *)

Definition chunk := (N * N)%type.
Definition data := list chunk.

Fixpoint dlen (d : data) : N :=
  match d with [] => 0 | (_, l) :: t => l + dlen t end.

(* d[0:n] *)
Fixpoint dtake (n : N) (d : data) : data :=
  match d with
  | [] => []
  | (o, l) :: t =>
      if n =? 0 then []
      else if n <=? l then [(o, n)]
      else (o, l) :: dtake (n - l) t
  end.

(* d[n:] *)
Fixpoint ddrop (n : N) (d : data) : data :=
  match d with
  | [] => []
  | (o, l) :: t => if n <? l then (o + n, l - n) :: t else ddrop (n - l) t
  end.

(* canonical form: no empty chunk, adjacent chunks that continue each other merged *)
Fixpoint norm (d : data) : data :=
  match d with
  | [] => []
  | (o, l) :: t =>
      if l =? 0 then norm t
      else match norm t with
           | (o', l') :: t' => if o' =? o + l then (o, l + l') :: t' else (o, l) :: (o', l') :: t'
           | [] => [(o, l)]
           end
  end.

Definition chunk_eqb (a b : chunk) : bool := (fst a =? fst b) && (snd a =? snd b).
Definition data_eqb (a b : data) : bool := list_beq chunk_eqb (norm a) (norm b).

(* ------------------------------------------------------------------ SemiSeekableBuffer *)

Record sbuf := mkbuf {
  b_buf : data;      (* _buffer *)
  b_size : N;        (* _buffer_size *)
  b_head : N;        (* _headroom *)
  b_pos : N;         (* _position *)
  b_hr : bool;       (* _has_headroom_data *)
  b_prot : bool      (* _protected *)
}.

(* __init__: ValueError when the headroom is larger than the buffer *)
Definition buf_new (size head : N) (prot : bool) : option sbuf :=
  if size <? head then None else Some (mkbuf [] size head 0 true prot).

Definition set_pos (b : sbuf) (p : N) : sbuf :=
  mkbuf (b_buf b) (b_size b) (b_head b) p (b_hr b) (b_prot b).
Definition set_buf (b : sbuf) (d : data) : sbuf :=
  mkbuf d (b_size b) (b_head b) (b_pos b) (b_hr b) (b_prot b).

(* size: len(_buffer) - (_position if _has_headroom_data else 0) *)
Definition buf_size (b : sbuf) : N :=
  dlen (b_buf b) - (if b_hr b then b_pos b else 0).

(* remaining: _buffer_size - len(_buffer)   (after b9f861e) *)
Definition buf_remaining (b : sbuf) : N := b_size b - dlen (b_buf b).

(* add: room = min(len(data), _buffer_size - len(_buffer)); _buffer += data[0:room]; return room *)
Definition buf_add (d : data) (b : sbuf) : N * sbuf :=
  let room := N.min (dlen d) (b_size b - dlen (b_buf b)) in
  (room, set_buf b (b_buf b ++ dtake room d)).

(* get *)
Definition buf_get (n : N) (b : sbuf) : data * sbuf :=
  let d := if b_hr b then dtake n (ddrop (b_pos b) (b_buf b)) else dtake n (b_buf b) in
  let pos' := b_pos b + dlen d in
  if b_prot b then (d, set_pos b pos')
  else if b_hr b then
    if b_head b <=? pos'
    then (d, mkbuf (ddrop pos' (b_buf b)) (b_size b) (b_head b) pos' false (b_prot b))
    else (d, set_pos b pos')
  else (d, mkbuf (ddrop (dlen d) (b_buf b)) (b_size b) (b_head b) pos' (b_hr b) (b_prot b)).

(* seek; `position > headroom_data_in_buffer - 1` is written `min(..) <= position` *)
Definition buf_seek (p : N) (b : sbuf) : bool * sbuf :=
  if p =? b_pos b then (true, b)
  else if negb (b_hr b) then (false, b)
  else if b_head b <=? p then (false, b)
  else if N.min (b_head b) (dlen (b_buf b)) <=? p then (false, b)
  else (true, set_pos b p).

(* seek with an arbitrary integer argument: `if position < 0: return False` (205aad4), then as above *)
Definition buf_seek_z (p : Z) (b : sbuf) : bool * sbuf :=
  if (p <? 0)%Z then (false, b) else buf_seek (Z.to_N p) b.

(* fits(n) *)
Definition buf_fits (n : N) (b : sbuf) : bool := dlen (b_buf b) + n <=? b_size b.

(* protected_headroom setter: None = InvalidStateError *)
Definition buf_protect (v : bool) (b : sbuf) : option sbuf :=
  if Bool.eqb v (b_prot b) then Some b
  else if negb (b_pos b =? 0) then None
  else Some (mkbuf (b_buf b) (b_size b) (b_head b) (b_pos b) (b_hr b) v).

(* ------------------------------------------------------------------ the source *)

(* The underlying reader is the identity source of length w_len: byte i of the source is
   i.  One read(n) returns min(n, what is left, cap) bytes where cap is chosen by the
   environment for every call (short reads of pipes / StreamReader); read(-1) returns
   everything that is left. *)
Record wst := mkw { w_buf : sbuf; w_cur : N; w_len : N }.

(* [full] = false: ONE reader.read(n) call, which returns min(n, what is left, cap) bytes.
   [full] = true: StreamReaderWrapper._read_from_source(n) (bdf53a0), which keeps calling
   reader.read(n - len(data)) until n bytes have arrived or a call returns nothing: whatever the
   short reads of the individual calls are, min(n, what is left) bytes come out (nothing if the
   calls are capped at 0, i.e. the reader reports the end).  [read_loop] below is the loop
   itself; Proofs show it computes this closed form for every pattern of short reads.
   n = None is read(-1): everything that is left, one call, in both cases. *)
Definition src_amount_g (full : bool) (n : option N) (cap : option N) (w : wst) : N :=
  let avail := w_len w - w_cur w in
  match n with
  | None => avail
  | Some n => let m := N.min n avail in
              match cap with
              | None => m
              | Some c => if full then (if c =? 0 then 0 else m) else N.min m c
              end
  end.

Definition src_read_g (full : bool) (n : option N) (cap : option N) (w : wst) : data * wst :=
  let k := src_amount_g full n cap w in
  ((if k =? 0 then [] else [(w_cur w, k)]), mkw (w_buf w) (w_cur w + k) (w_len w)).

Notation src_amount := (src_amount_g false).
Notation src_read := (src_read_g false).

(* _read_from_source(n), n >= 0, as a loop over the individual reader.read() calls: [caps] are the
   short-read limits of the successive calls (None: the call returns all it was asked for), [avail]
   what the source still has, [got] = len(data).  Returns the total number of bytes. *)
Fixpoint read_loop (caps : list (option N)) (n avail got : N) : N :=
  if n <=? got then got
  else match caps with
       | [] => got + N.min (n - got) avail            (* the remaining calls are not shortened *)
       | c :: t =>
           let k := match c with None => N.min (n - got) avail | Some c => N.min (N.min (n - got) avail) c end in
           if k =? 0 then got                           (* `if not chunk: break` *)
           else read_loop t n (avail - k) (got + k)
       end.

Definition with_buf (w : wst) (b : sbuf) : wst := mkw b (w_cur w) (w_len w).

(* ------------------------------------------------------------------ BufferedIOBaseWrapper *)

Definition bio_read (size : option N) (cap : option N) (w : wst) : data * wst :=
  match size with
  | Some 0 => ([], w)
  | _ =>
    let left := buf_remaining (w_buf w) in
    let w1 :=
      match size with
      | Some n =>
          if (0 <? left) && (buf_size (w_buf w) <? n) then
            let '(d, w') := src_read (Some (N.min n left)) cap w in
            with_buf w' (snd (buf_add d (w_buf w')))       (* result of add() ignored *)
          else w
      | None => w
      end in
    let to_read := match size with
                   | None => buf_size (w_buf w1)
                   | Some n => N.min n (buf_size (w_buf w1))
                   end in
    let '(d, b') := buf_get to_read (w_buf w1) in (d, with_buf w1 b')
  end.

(* seek(pos, origin): returns buffer.position *)
Definition bio_seek (p : N) (is_set : bool) (w : wst) : N * wst :=
  let w' := if is_set then with_buf w (snd (buf_seek p (w_buf w))) else w in
  (b_pos (w_buf w'), w').

(* ------------------------------------------------------------------ StreamReaderWrapper *)

Definition srw_bypass (w : wst) : bool :=
  (0 <? b_pos (w_buf w)) && (buf_size (w_buf w) =? 0).

Definition srw_read (num : option N) (cap : option N) (w : wst) : data * wst :=
  match num with
  | Some 0 => ([], w)
  | _ =>
    if srw_bypass w then src_read_g true num cap w          (* straight from the reader (_read_from_source) *)
    else
      let to_read := match num with None => buf_size (w_buf w) | Some n => n end in
      let from_source := N.min to_read (buf_remaining (w_buf w)) in
      let '(d, w') := src_read_g true (Some from_source) cap w in
      let w1 := with_buf w' (snd (buf_add d (w_buf w'))) in
      let '(r, b') := buf_get to_read (w_buf w1) in (r, with_buf w1 b')
  end.

Definition srw_seek (p : N) (is_start : bool) (w : wst) : bool * wst :=
  if is_start then let '(r, b') := buf_seek p (w_buf w) in (r, with_buf w b')
  else (false, w).

(* ------------------------------------------------------------------ operations *)

Inductive kind :=
| KBuf     (* SemiSeekableBuffer driven directly *)
| KBio     (* BufferedIOBaseWrapper(reader, buffer) *)
| KSrw     (* StreamReaderWrapper(reader, buffer) *)
| KSio     (* StreamableIOBaseWrapper(BufferedIOBaseWrapper(reader, buffer)) *)
| KSsw.    (* StreamableSourceWrapper(StreamReaderWrapper(reader, buffer), buffer) *)

Inductive op :=
| OAdd (d : data)                        (* KBuf: buffer.add(d) *)
| OGet (n : N)                           (* KBuf: buffer.get(n) *)
| OFits (n : N)                          (* KBuf: buffer.fits(n) *)
| OSeek (p : N) (start : bool)           (* seek(p, START/SEEK_SET) or, start=false, seek(p, CURRENT/SEEK_CUR) *)
| OSeekX (p : Z) (wh : N)                (* seek(p, whence) for any integer p; whence 0 START/SEEK_SET, 1 CURRENT/SEEK_CUR,
                                            2 SEEK_END (io-style wrappers only: miniaudio has no END) *)
| OProt (v : bool)                       (* buffer.protected_headroom = v *)
| ORead (n : option N) (cap : option N). (* wrapper.read(n); None is -1; cap: see src_read *)

Inductive res :=
| RNum (k : N) | RData (d : data) | RBool (v : bool) | RNone | RRaise | RBadOp.

Definition step (k : kind) (o : op) (w : wst) : res * wst :=
  match o with
  | OProt v =>
      match buf_protect v (w_buf w) with
      | Some b' => (RNone, with_buf w b')
      | None => (RRaise, w)
      end
  | OAdd d =>
      match k with
      | KBuf => let '(r, b') := buf_add d (w_buf w) in (RNum r, with_buf w b')
      | _ => (RBadOp, w)
      end
  | OGet n =>
      match k with
      | KBuf => let '(d, b') := buf_get n (w_buf w) in (RData d, with_buf w b')
      | _ => (RBadOp, w)
      end
  | OFits n =>
      match k with
      | KBuf => (RBool (buf_fits n (w_buf w)), w)
      | _ => (RBadOp, w)
      end
  | OSeek p st =>
      match k with
      | KBuf => if st then let '(r, b') := buf_seek p (w_buf w) in (RBool r, with_buf w b')
                else (RBadOp, w)
      | KBio => let '(r, w') := bio_seek p st w in (RNum r, w')
      | KSrw => let '(r, w') := srw_seek p st w in (RBool r, w')
      | KSio => (* reader.seekable() is True; expected = offset + (reader.tell() if CURRENT else 0);
                   return reader.seek(offset, whence) == expected     (after ff5b434) *)
                let expected := if st then p else p + b_pos (w_buf w) in
                let '(r, w') := bio_seek p st w in (RBool (r =? expected), w')
      | KSsw => (* if origin == SEEK_SET: source.seek(pos, START); return buffer.position *)
                let w' := if st then snd (srw_seek p true w) else w in
                (RNum (b_pos (w_buf w')), w')
      end
  | OSeekX p wh =>
      match k with
      | KBuf => if wh =? 0 then let '(r, b') := buf_seek_z p (w_buf w) in (RBool r, with_buf w b')
                else (RBadOp, w)
      | KBio | KSsw =>
          (* if origin == SEEK_SET: (buffer|source).seek(pos); return buffer.position *)
          let w' := if wh =? 0 then with_buf w (snd (buf_seek_z p (w_buf w))) else w in
          (RNum (b_pos (w_buf w')), w')
      | KSrw =>
          (* if origin in (START, 0): return buffer.seek(offset); return False *)
          if wh =? 0 then let '(r, b') := buf_seek_z p (w_buf w) in (RBool r, with_buf w b')
          else (RBool false, w)
      | KSio =>
          (* whence = 1 if CURRENT else 0; expected = offset + (tell() if whence == 1 else 0);
             return reader.seek(offset, whence) == expected *)
          let cur := wh =? 1 in
          let expected := if cur then (p + Z.of_N (b_pos (w_buf w)))%Z else p in
          let w' := if cur then w else with_buf w (snd (buf_seek_z p (w_buf w))) in
          (RBool (Z.of_N (b_pos (w_buf w')) =? expected)%Z, w')
      end
  | ORead n cap =>
      match k with
      | KBuf => (RBadOp, w)
      | KBio | KSio => let '(d, w') := bio_read n cap w in (RData d, w')
      | KSrw | KSsw => let '(d, w') := srw_read n cap w in (RData d, w')
      end
  end.

(* what the harness observes after every operation *)
Record obs := mkobs {
  o_res : res;
  o_pos : N;     (* buffer.position *)
  o_size : N;    (* buffer.size *)
  o_rem : N;     (* buffer.remaining *)
  o_src : N      (* bytes the wrapper has taken from the reader so far *)
}.

Definition observe (r : res) (w : wst) : obs :=
  mkobs r (b_pos (w_buf w)) (buf_size (w_buf w)) (buf_remaining (w_buf w)) (w_cur w).

Fixpoint run (k : kind) (ops : list op) (w : wst) : list obs :=
  match ops with
  | [] => []
  | o :: t => let '(r, w') := step k o w in observe r w' :: run k t w'
  end.

Fixpoint run_state (k : kind) (ops : list op) (w : wst) : wst :=
  match ops with
  | [] => w
  | o :: t => run_state k t (snd (step k o w))
  end.

Definition init (size head : N) (prot : bool) (len : N) : option wst :=
  match buf_new size head prot with
  | Some b => Some (mkw b 0 len)
  | None => None
  end.

(* ------------------------------------------------------------------ PatchedIceCastClient *)

(* Buffer logic of the HTTP client: the download thread waits until fits(BLOCK_SIZE),
   then reads one chunk (BLOCK_SIZE bytes of the response, or - with icy-metaint - one
   meta interval of audio) and add()s it, ignoring the result; read(n) polls until
   len(buffer) >= n or the stream has stopped and then get(n)s.  One IDownload is one
   iteration of the download loop once fits() holds (nothing happens while it does not);
   chunk = number of audio bytes the iteration obtains (the harness reports it). *)
Inductive iop :=
| IDownload (chunk : N)
| IRead (n : N)
| ISeek (p : N)
| IProt (v : bool).

Definition ice_step (block : N) (o : iop) (w : wst) : res * wst :=
  match o with
  | IDownload c =>
      if buf_fits block (w_buf w) then
        let '(d, w') := src_read (Some c) None w in
        (RNone, with_buf w' (snd (buf_add d (w_buf w'))))
      else (RNone, w)
  | IRead n => let '(d, b') := buf_get n (w_buf w) in (RData d, with_buf w b')
  | ISeek p => let '(r, b') := buf_seek p (w_buf w) in (RBool r, with_buf w b')
  | IProt v =>
      match buf_protect v (w_buf w) with
      | Some b' => (RNone, with_buf w b')
      | None => (RRaise, w)
      end
  end.

Fixpoint ice_run (block : N) (ops : list iop) (w : wst) : list obs :=
  match ops with
  | [] => []
  | o :: t => let '(r, w') := ice_step block o w in observe r w' :: ice_run block t w'
  end.

(* ------------------------------------------------------------------ correspondence *)

Definition opt_N_eqb := opt_beq N.eqb.

Definition res_eqb (a b : res) : bool :=
  match a, b with
  | RNum x, RNum y => x =? y
  | RData x, RData y => data_eqb x y
  | RBool x, RBool y => Bool.eqb x y
  | RNone, RNone | RRaise, RRaise => true
  | _, _ => false
  end.

Definition obs_eqb (a b : obs) : bool :=
  res_eqb (o_res a) (o_res b) && (o_pos a =? o_pos b) && (o_size a =? o_size b)
  && (o_rem a =? o_rem b) && (o_src a =? o_src b).

(* (kind, buffer size, headroom, protected, source length, operations, observations made on
   the implementation); a constructor that raises ValueError is the case with no
   observations and size < headroom *)
Definition check_case (c : kind * N * N * bool * N * list op * list obs) : bool :=
  let '(k, size, head, prot, len, ops, seen) := c in
  match init size head prot len with
  | Some w => list_beq obs_eqb (run k ops w) seen
  | None => match seen with [] => true | _ => false end
  end.

Definition check_ice (c : N * N * N * bool * N * list iop * list obs) : bool :=
  let '(block, size, head, prot, len, ops, seen) := c in
  match init size head prot len with
  | Some w => list_beq obs_eqb (ice_run block ops w) seen
  | None => false
  end.

(* ------------------------------------------------------------------ PatchedIceCastClient._download_stream *)

(* The producer side in detail: how the body of the HTTP response is read.

   The body is a byte string in which every byte carries a NAME: an audio byte is named by
   its offset in the audio stream (0, 1, 2, ...), an ICY length byte with value v is named
   1000+v, the i-th byte of a metadata block 2000+i (audio streams in this model are shorter
   than 1000 bytes).  [name_value] is the value of the byte the harness puts on the wire; the
   code inspects a value in one place only (`16 * self._readall(result, 1)[0]`).

   raw.read(n) returns min(n, what is left of the body, cap) bytes; the caps are scripted
   per call (short reads, at least one byte unless the body has ended); when the script is
   used up reads are exact. *)
Definition name_value (n : N) : N :=
  if n <? 1000 then (16 + n) mod 256 else if n <? 2000 then n - 1000 else 240 + (n - 2000).

Fixpoint dfirst (d : data) : N :=
  match d with [] => 0 | (o, l) :: t => if l =? 0 then dfirst t else o end.

Definition cap_amount (n : N) (cap : option N) (avail : N) : N :=
  let m := N.min n avail in
  match cap with None => m | Some c => N.min m (N.max 1 c) end.

(* _readall(fileobject, size):
       buffer = b""
       while len(buffer) < size: buffer += fileobject.read(size)     # asks for `size` again
       return buffer
   RSpin: the body has ended and the loop reads b"" for ever. *)
Inductive rres := ROk (got rest : data) (caps : list (option N)) | RSpin.

Fixpoint readall (size : N) (acc body : data) (caps : list (option N)) : rres :=
  match caps with
  | c :: t =>
      if size <=? dlen acc then ROk acc body caps
      else if dlen body =? 0 then RSpin
      else let k := cap_amount size c (dlen body) in
           readall size (acc ++ dtake k body) (ddrop k body) t
  | [] =>
      if size <=? dlen acc then ROk acc body []
      else let k := N.min size (dlen body) in
           if size <=? dlen acc + k then ROk (acc ++ dtake k body) (ddrop k body) [] else RSpin
  end.

Record ist := mki {
  i_buf : sbuf;
  i_body : data;                 (* what is left of the HTTP body *)
  i_caps : list (option N);      (* script of short reads *)
  i_taken : N;                   (* bytes read from the body so far *)
  i_stop : bool;                 (* _stop_stream *)
  i_spin : bool                  (* the download loop is stuck in _readall for ever *)
}.

Definition ist_buf (s : ist) (b : sbuf) : ist :=
  mki b (i_body s) (i_caps s) (i_taken s) (i_stop s) (i_spin s).

(* one pass of `while not self._stop_stream:` once the block fits; meta = icy-metaint or 0 *)
Definition ice2_download (block meta : N) (s : ist) : ist :=
  if i_stop s || i_spin s then s
  else if negb (buf_fits block (i_buf s)) then s
  else
    let spin := mki (i_buf s) [] [] (i_taken s + dlen (i_body s)) false true in
    if meta =? 0 then
      (* chunk = result.read(BLOCK_SIZE); if chunk == b"": stop; add(chunk) *)
      let k := cap_amount block (hd None (i_caps s)) (dlen (i_body s)) in
      mki (snd (buf_add (dtake k (i_body s)) (i_buf s))) (ddrop k (i_body s)) (tl (i_caps s))
          (i_taken s + k) (k =? 0) false
    else
      (* chunk = _readall(meta); meta_size = 16 * _readall(1)[0]; _readall(meta_size); add(chunk) *)
      match readall meta [] (i_body s) (i_caps s) with
      | RSpin => spin
      | ROk chunk body1 caps1 =>
          match readall 1 [] body1 caps1 with
          | RSpin => spin
          | ROk lb body2 caps2 =>
              match readall (16 * name_value (dfirst lb)) [] body2 caps2 with
              | RSpin => spin
              | ROk _ body3 caps3 =>
                  mki (snd (buf_add chunk (i_buf s))) body3 caps3
                      (i_taken s + (dlen (i_body s) - dlen body3)) false false
              end
          end
      end.

Definition ice2_step (block meta : N) (o : iop) (s : ist) : res * ist :=
  match o with
  | IDownload _ => (RNone, ice2_download block meta s)
  | IRead n => let '(d, b') := buf_get n (i_buf s) in (RData d, ist_buf s b')
  | ISeek p => let '(r, b') := buf_seek p (i_buf s) in (RBool r, ist_buf s b')
  | IProt v =>
      match buf_protect v (i_buf s) with
      | Some b' => (RNone, ist_buf s b')
      | None => (RRaise, s)
      end
  end.

Record obs2 := mkobs2 {
  p_res : res; p_pos : N; p_size : N; p_rem : N; p_taken : N; p_stop : bool; p_spin : bool
}.

Definition observe2 (r : res) (s : ist) : obs2 :=
  mkobs2 r (b_pos (i_buf s)) (buf_size (i_buf s)) (buf_remaining (i_buf s)) (i_taken s) (i_stop s) (i_spin s).

Fixpoint ice2_run (block meta : N) (ops : list iop) (s : ist) : list obs2 :=
  match ops with
  | [] => []
  | o :: t => let '(r, s') := ice2_step block meta o s in observe2 r s' :: ice2_run block meta t s'
  end.

Definition obs2_eqb (a b : obs2) : bool :=
  res_eqb (p_res a) (p_res b) && (p_pos a =? p_pos b) && (p_size a =? p_size b)
  && (p_rem a =? p_rem b) && (p_taken a =? p_taken b) && Bool.eqb (p_stop a) (p_stop b)
  && Bool.eqb (p_spin a) (p_spin b).

(* (BLOCK_SIZE, icy-metaint or 0, buffer size, headroom, protected, body, short-read script,
   operations, observations) *)
Definition check_ice2
  (c : N * N * N * N * bool * data * list (option N) * list iop * list obs2) : bool :=
  let '(block, meta, size, head, prot, body, caps, ops, seen) := c in
  match buf_new size head prot with
  | Some b => list_beq obs2_eqb (ice2_run block meta ops (mki b body caps 0 false false)) seen
  | None => false
  end.

(* ------------------------------------------------------------------ two threads on one buffer *)

(* PatchedIceCastClient runs the download loop in its own thread; the reader calls
   read()/seek() from another.  add() is a read-modify-write of the shared attribute:

       room = min(len(data), self._buffer_size - len(self._buffer))     (load 1)
       self._buffer += data[0:room]                                      (load 2 ... store)

   [add_room], [add_load], [add_store] are these three accesses; another thread's operation
   may run between any two of them unless both sides hold _buffer_lock. *)
Definition add_room (d : data) (b : sbuf) : N := N.min (dlen d) (b_size b - dlen (b_buf b)).
Definition add_load (b : sbuf) : data := b_buf b.
Definition add_store (old : data) (room : N) (d : data) (b : sbuf) : sbuf :=
  set_buf b (old ++ dtake room d).

(* One turn of the download loop raced with one reader operation: with the lock in place the
   outcome is that of one of the two serial orders.  The harness drives the real code through
   explicit schedules (the other party runs at the k-th access to the shared state) and
   reports the reader's result and the state after both have finished. *)
Inductive rop := RPlain (o : iop) | RRace (c : iop).

Fixpoint race_check (block meta : N) (ops : list rop) (seen : list obs2) (s : ist) : bool :=
  match ops, seen with
  | [], [] => true
  | RPlain o :: t, ob :: seen' =>
      let '(r, s') := ice2_step block meta o s in
      obs2_eqb (observe2 r s') ob && race_check block meta t seen' s'
  | RRace c :: t, ob :: seen' =>
      let '(r1, s1) := ice2_step block meta c (ice2_download block meta s) in      (* loop turn, then reader *)
      let '(r2, sc) := ice2_step block meta c s in                                 (* reader, then loop turn *)
      let s2 := ice2_download block meta sc in
      (obs2_eqb (observe2 r1 s1) ob && race_check block meta t seen' s1)
      || (obs2_eqb (observe2 r2 s2) ob && race_check block meta t seen' s2)
  | _, _ => false
  end.

Definition check_race
  (c : N * N * N * N * bool * data * list (option N) * list rop * list obs2) : bool :=
  let '(block, meta, size, head, prot, body, caps, ops, seen) := c in
  match buf_new size head prot with
  | Some b => race_check block meta ops seen (mki b body caps 0 false false)
  | None => false
  end.
