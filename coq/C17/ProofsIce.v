(* C17 - PatchedIceCastClient._download_stream: how the HTTP body reaches the buffer. *)
From Coq Require Import List Bool NArith Arith Lia.
From PV Require Import Common.Cases C17.Model C17.Spec C17.ProofsData C17.ProofsBuf C17.ProofsWrap.
Import ListNotations.
Local Open Scope N_scope.

(* ---------------------------------------------------------------- small list facts *)

Lemma ntake_app_exact n (l1 l2 : list N) : N.of_nat (length l1) = n -> ntake n (l1 ++ l2) = l1.
Proof.
  intro H. rewrite ntake_app. rewrite (ntake_all n l1) by lia.
  replace (n - N.of_nat (length l1)) with 0 by lia. rewrite ntake_0. apply app_nil_r.
Qed.

Lemma nskip_app_exact n (l1 l2 : list N) : N.of_nat (length l1) = n -> nskip n (l1 ++ l2) = l2.
Proof.
  intro H. rewrite nskip_app. rewrite (nskip_all n l1) by lia.
  replace (n - N.of_nat (length l1)) with 0 by lia. reflexivity.
Qed.

Lemma nseq_cons o l : l <> 0 -> nseq o l = o :: nseq (o + 1) (l - 1).
Proof.
  intro H. rewrite (nseq_split o l 1) by lia. reflexivity.
Qed.

Lemma dfirst_head d : dfirst d = hd 0 (bytes_of d).
Proof.
  induction d as [|[o l] d IH]; simpl; [reflexivity|].
  destruct (l =? 0) eqn:E.
  - apply N.eqb_eq in E. subst l. simpl. exact IH.
  - apply N.eqb_neq in E. rewrite (nseq_cons o l E). reflexivity.
Qed.

(* ---------------------------------------------------------------- _readall with exact reads *)

Lemma readall_exact size body :
  size <= dlen body ->
  exists got rest,
    readall size [] body [] = ROk got rest [] /\
    bytes_of got = ntake size (bytes_of body) /\
    bytes_of rest = nskip size (bytes_of body) /\
    dlen got = size /\ dlen rest = dlen body - size.
Proof.
  intro H. cbn [readall dlen]. destruct (size <=? 0) eqn:E.
  - apply N.leb_le in E. assert (size = 0) by lia. subst size.
    exists [], body. repeat split; try reflexivity. simpl. lia.
  - replace (N.min size (dlen body)) with size by lia.
    replace (size <=? 0 + size) with true by (symmetry; apply N.leb_le; lia).
    exists (dtake size body), (ddrop size body). cbn [app].
    rewrite bytes_dtake, bytes_ddrop, dlen_dtake, dlen_ddrop. repeat split; try reflexivity. lia.
Qed.

Lemma readall_end size body :
  0 < size -> dlen body < size -> readall size [] body [] = RSpin.
Proof.
  intros H1 H2. cbn [readall dlen].
  replace (size <=? 0) with false by (symmetry; apply N.leb_gt; lia).
  replace (size <=? 0 + N.min size (dlen body)) with false by (symmetry; apply N.leb_gt; lia).
  reflexivity.
Qed.

(* ---------------------------------------------------------------- generic history lemma *)

Definition bw (s : ist) (a total : N) : wst := mkw (i_buf s) a total.

(* reader operations touch the buffer only, exactly as in the simple model *)
Lemma ice2_reader_step block meta o o' s a total :
  iop_op o = Some o' -> winv (bw s a total) ->
  let '(r, s') := ice2_step block meta o s in
  winv (bw s' a total) /\
  wrap_spec total (b_pos (i_buf s)) [(o', r)] /\
  b_pos (i_buf s') = spec_cursor total (b_pos (i_buf s)) [(o', r)] /\
  i_body s' = i_body s /\ i_caps s' = i_caps s /\ i_taken s' = i_taken s /\
  i_stop s' = i_stop s /\ i_spin s' = i_spin s.
Proof.
  intros Ho Hw.
  assert (Hc : forall c, o = IDownload c -> c <= block) by (intros c ->; discriminate Ho).
  pose proof (ice_step_ok block o (bw s a total) Hw Hc) as S.
  destruct o as [c|n|p|v]; [discriminate Ho| | |]; cbn [ice_step ice2_step bw w_buf] in *;
    rewrite Ho in S.
  - destruct (buf_get n (i_buf s)) as [d b']. destruct S as (S1 & _ & S2 & S3).
    cbn [with_buf w_buf w_len ist_buf i_buf i_body i_caps i_taken i_stop i_spin] in *. auto 10.
  - destruct (buf_seek p (i_buf s)) as [r b']. destruct S as (S1 & _ & S2 & S3).
    cbn [with_buf w_buf w_len ist_buf i_buf i_body i_caps i_taken i_stop i_spin] in *. auto 10.
  - destruct (buf_protect v (i_buf s)) as [b'|]; destruct S as (S1 & _ & S2 & S3);
      cbn [with_buf w_buf w_len ist_buf i_buf i_body i_caps i_taken i_stop i_spin] in *; auto 10.
Qed.

Section Histories.
  Variables block meta total : N.
  (* [Inv a s]: a = number of audio bytes add()ed so far; says nothing about the buffer *)
  Variable Inv : N -> ist -> Prop.
  Hypothesis Inv_buf : forall a s s',
    Inv a s -> i_body s' = i_body s -> i_caps s' = i_caps s -> i_taken s' = i_taken s ->
    i_stop s' = i_stop s -> i_spin s' = i_spin s -> Inv a s'.
  Hypothesis Inv_download : forall a s,
    Inv a s -> winv (bw s a total) ->
    exists a', Inv a' (ice2_download block meta s) /\
               winv (bw (ice2_download block meta s) a' total) /\
               b_pos (i_buf (ice2_download block meta s)) = b_pos (i_buf s).

  Lemma ice2_histories : forall ops a s,
    Inv a s -> winv (bw s a total) ->
    wrap_spec total (b_pos (i_buf s)) (ice2_trace block meta ops s) /\
    (exists a', Inv a' (ice2_state block meta ops s) /\ winv (bw (ice2_state block meta ops s) a' total)) /\
    b_pos (i_buf (ice2_state block meta ops s)) =
      spec_cursor total (b_pos (i_buf s)) (ice2_trace block meta ops s).
  Proof.
    induction ops as [|o ops IH]; intros a s Hi Hw.
    - simpl. split; [exact I|]. split; [exists a; auto | reflexivity].
    - cbn [ice2_trace ice2_state]. destruct (iop_op o) as [o'|] eqn:Ho.
      + pose proof (ice2_reader_step block meta o o' s a total Ho Hw) as S.
        destruct (ice2_step block meta o s) as [r s']. cbn [snd].
        destruct S as (Hw' & S1 & S2 & E1 & E2 & E3 & E4 & E5).
        assert (Hi' : Inv a s') by (apply (Inv_buf a s s'); assumption).
        destruct (IH a s' Hi' Hw') as (T1 & T2 & T3).
        rewrite wrap_spec_cons. rewrite S2 in T1, T3.
        split; [split; [exact S1 | exact T1]|]. split; [exact T2|].
        rewrite (spec_cursor_cons _ _ o' r). exact T3.
      + destruct o as [c|n|p|v]; try discriminate Ho. cbn [ice2_step snd].
        destruct (Inv_download a s Hi Hw) as (a' & Hi' & Hw' & Hp).
        destruct (IH a' _ Hi' Hw') as (T1 & T2 & T3). rewrite Hp in T1, T3. auto.
  Qed.
End Histories.

(* ---------------------------------------------------------------- no icy-metaint: any short reads *)

(* the body is audio only; [i_taken] bytes of it have been read and add()ed *)
Definition plain_inv (total : N) (a : N) (s : ist) : Prop :=
  a = i_taken s /\
  bytes_of (i_body s) = nseq (i_taken s) (dlen (i_body s)) /\
  i_taken s + dlen (i_body s) = total /\
  i_spin s = false /\
  (i_stop s = true -> dlen (i_body s) = 0).

Lemma cap_amount_bounds n cap avail :
  cap_amount n cap avail <= n /\ cap_amount n cap avail <= avail /\
  (cap_amount n cap avail = 0 -> n = 0 \/ avail = 0).
Proof. unfold cap_amount. destruct cap as [c|]; lia. Qed.

Lemma plain_download block total a s :
  1 <= block -> plain_inv total a s -> winv (bw s a total) ->
  exists a', plain_inv total a' (ice2_download block 0 s) /\
             winv (bw (ice2_download block 0 s) a' total) /\
             b_pos (i_buf (ice2_download block 0 s)) = b_pos (i_buf s).
Proof.
  intros Hb (-> & Hbody & Htot & Hspin & Hstop) Hw. unfold ice2_download.
  destruct (i_stop s || i_spin s) eqn:E1.
  { exists (i_taken s). split; [repeat split; auto | split; [exact Hw | reflexivity]]. }
  destruct (negb (buf_fits block (i_buf s))) eqn:E2.
  { exists (i_taken s). split; [repeat split; auto | split; [exact Hw | reflexivity]]. }
  cbn [N.eqb]. apply negb_false_iff in E2. unfold buf_fits in E2. apply N.leb_le in E2.
  set (k := cap_amount block (hd None (i_caps s)) (dlen (i_body s))).
  destruct (cap_amount_bounds block (hd None (i_caps s)) (dlen (i_body s))) as (K1 & K2 & K3). fold k in K1, K2, K3.
  destruct Hw as [Hbi Hle]. cbn [bw w_buf w_cur w_len] in Hbi, Hle.
  assert (Bchunk : bytes_of (dtake k (i_body s)) = nseq (i_taken s) k).
  { rewrite bytes_dtake, Hbody, ntake_nseq. f_equal. lia. }
  assert (Fit : dlen (dtake k (i_body s)) <= buf_remaining (i_buf s)).
  { rewrite dlen_dtake. unfold buf_remaining. lia. }
  destruct (add_fits _ _ _ Hbi Fit) as [_ Hb'].
  pose proof (add_spec _ (dtake k (i_body s)) _ Hbi) as S.
  destruct (buf_add (dtake k (i_body s)) (i_buf s)) as [r b'] eqn:Ea. cbn [snd] in *.
  destruct S as (_ & _ & Hp & _).
  exists (i_taken s + k). unfold plain_inv, winv. cbn [i_taken i_body i_spin i_stop i_buf bw w_buf w_cur w_len].
  rewrite dlen_ddrop, bytes_ddrop, Hbody, nskip_nseq.
  split; [|split; [split|exact Hp]].
  - repeat split; try lia. intro Hk. apply N.eqb_eq in Hk. lia.
  - rewrite nseq_app, N.add_0_l, <- Bchunk. exact Hb'.
  - lia.
Qed.

(* one more turn after the body has been read completely signals the end *)
Lemma plain_end_signalled block s :
  i_stop s = false -> i_spin s = false -> buf_fits block (i_buf s) = true -> dlen (i_body s) = 0 ->
  i_stop (ice2_download block 0 s) = true.
Proof.
  intros H1 H2 H3 H4. unfold ice2_download. rewrite H1, H2, H3. cbn [orb negb N.eqb i_stop].
  apply N.eqb_eq. destruct (cap_amount_bounds block (hd None (i_caps s)) (dlen (i_body s))) as (_ & K & _). lia.
Qed.

(* ---------------------------------------------------------------- icy-metaint, exact reads, whole frames *)

Definition icy_inv (m total : N) (a : N) (s : ist) : Prop :=
  exists ls,
    i_caps s = [] /\ i_stop s = false /\
    bytes_of (i_body s) = bytes_of (icy_body m a ls) /\
    Forall (fun l => l < 1000) ls /\
    a + m * N.of_nat (length ls) = total.

Lemma icy_body_bytes m o l t :
  bytes_of (icy_body m o (l :: t)) =
  nseq o m ++ [1000 + l] ++ nseq 2000 (16 * l) ++ bytes_of (icy_body m (o + m) t).
Proof. reflexivity. Qed.

Lemma name_value_len l : l < 1000 -> name_value (1000 + l) = l.
Proof.
  intro H. unfold name_value.
  replace (1000 + l <? 1000) with false by (symmetry; apply N.ltb_ge; lia).
  replace (1000 + l <? 2000) with true by (symmetry; apply N.ltb_lt; lia). lia.
Qed.

Lemma icy_download block m total a s :
  1 <= m -> m <= block -> icy_inv m total a s -> winv (bw s a total) ->
  exists a', icy_inv m total a' (ice2_download block m s) /\
             winv (bw (ice2_download block m s) a' total) /\
             b_pos (i_buf (ice2_download block m s)) = b_pos (i_buf s).
Proof.
  intros Hm Hmb (ls & Hcaps & Hstop & Hbody & Hls & Htot) Hw. unfold ice2_download.
  rewrite Hstop. cbn [orb].
  destruct (i_spin s) eqn:Espin.
  { exists a. split; [exists ls; repeat split; auto | split; [exact Hw | reflexivity]]. }
  destruct (negb (buf_fits block (i_buf s))) eqn:E2.
  { exists a. split; [exists ls; repeat split; auto | split; [exact Hw | reflexivity]]. }
  apply negb_false_iff in E2. unfold buf_fits in E2. apply N.leb_le in E2.
  replace (m =? 0) with false by (symmetry; apply N.eqb_neq; lia).
  rewrite Hcaps.
  destruct ls as [|l t].
  - (* the body has ended: _readall spins *)
    assert (L0 : dlen (i_body s) = 0).
    { rewrite <- bytes_length, Hbody. reflexivity. }
    rewrite readall_end by lia.
    exists a. cbn [i_buf i_caps i_stop i_body bw w_buf]. split; [|auto].
    exists []. repeat split; auto.
  - pose proof (Forall_inv Hls) as Hl. pose proof (Forall_inv_tail Hls) as Hls'. cbv beta in Hl.
    rewrite icy_body_bytes in Hbody.
    assert (Lb : dlen (i_body s) = m + 1 + 16 * l + dlen (icy_body m (a + m) t)).
    { rewrite <- bytes_length, Hbody, !app_length, !nseq_length. cbn [length].
      rewrite <- (bytes_length (icy_body m (a + m) t)). lia. }
    (* chunk = _readall(meta_interval) *)
    destruct (readall_exact m (i_body s) ltac:(lia)) as (chunk & body1 & R1 & B1 & B1' & L1 & L1').
    rewrite R1.
    rewrite Hbody in B1, B1'.
    rewrite ntake_app_exact in B1 by (rewrite nseq_length; lia).
    rewrite nskip_app_exact in B1' by (rewrite nseq_length; lia).
    (* the length byte *)
    destruct (readall_exact 1 body1 ltac:(lia)) as (lb & body2 & R2 & B2 & B2' & L2 & L2').
    rewrite R2. rewrite B1' in B2, B2'.
    change (ntake 1 ([1000 + l] ++ nseq 2000 (16 * l) ++ bytes_of (icy_body m (a + m) t))) with [1000 + l] in B2.
    change (nskip 1 ([1000 + l] ++ nseq 2000 (16 * l) ++ bytes_of (icy_body m (a + m) t)))
      with (nseq 2000 (16 * l) ++ bytes_of (icy_body m (a + m) t)) in B2'.
    rewrite dfirst_head, B2. cbn [hd]. rewrite (name_value_len l Hl).
    (* the metadata block *)
    destruct (readall_exact (16 * l) body2 ltac:(lia)) as (md & body3 & R3 & _ & B3' & _ & L3').
    rewrite R3. rewrite B2' in B3'.
    rewrite nskip_app_exact in B3' by (rewrite nseq_length; lia).
    (* add(chunk) *)
    destruct Hw as [Hbi Hle]. cbn [bw w_buf w_cur w_len] in Hbi, Hle.
    assert (Fit : dlen chunk <= buf_remaining (i_buf s)) by (unfold buf_remaining; lia).
    destruct (add_fits _ _ _ Hbi Fit) as [_ Hb'].
    pose proof (add_spec _ chunk _ Hbi) as S.
    destruct (buf_add chunk (i_buf s)) as [r b'] eqn:Ea. cbn [snd] in *.
    destruct S as (_ & _ & Hp & _).
    exists (a + m). unfold winv. cbn [i_buf i_caps i_stop i_body bw w_buf w_cur w_len].
    split; [|split; [split|exact Hp]].
    + exists t. repeat split; auto. cbn [length] in Htot. lia.
    + rewrite nseq_app, N.add_0_l, <- B1. exact Hb'.
    + cbn [length] in Htot. lia.
Qed.
