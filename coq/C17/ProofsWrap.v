(* C17 - the wrappers composed with the identity source. *)
From Coq Require Import List Bool NArith ZArith Arith Lia.
From PV Require Import Common.Cases C17.Model C17.Spec C17.ProofsData C17.ProofsBuf.
Import ListNotations.
Local Open Scope N_scope.

(* Everything taken from the source went through the buffer: the accepted stream is the
   source prefix 0 .. w_cur-1. *)
Definition winv (w : wst) : Prop :=
  binv (nseq 0 (w_cur w)) (w_buf w) /\ w_cur w <= w_len w.

Lemma nseq_len_N o l : N.of_nat (length (nseq o l)) = l.
Proof. rewrite nseq_length. lia. Qed.

Lemma winv_new size head prot len w :
  1 <= head -> init size head prot len = Some w -> winv w /\ w_len w = len /\ b_pos (w_buf w) = 0.
Proof.
  unfold init. intros H1 H. destruct (buf_new size head prot) as [b|] eqn:E; [|discriminate].
  inversion H; subst w. unfold winv; simpl. split; [split; [|lia]|split; [reflexivity|]].
  - exact (binv_new _ _ _ _ H1 E).
  - unfold buf_new in E. destruct (size <? head); [discriminate|]. now inversion E.
Qed.

Lemma winv_pos w : winv w ->
  b_pos (w_buf w) + buf_size (w_buf w) = w_cur w /\ b_pos (w_buf w) <= w_cur w.
Proof.
  intros [H _]. pose proof (binv_size _ _ H) as S. rewrite nseq_len_N in S. exact S.
Qed.

Lemma winv_synced w : winv w -> synced w = true.
Proof. intro H. unfold synced. apply N.eqb_eq. destruct (winv_pos w H). lia. Qed.

(* what is stored and unread is exactly the source from the position to the source cursor *)
Lemma winv_unread w : winv w ->
  bytes_of (unread (w_buf w)) = nseq (b_pos (w_buf w)) (w_cur w - b_pos (w_buf w)).
Proof.
  intros [H _]. destruct (binv_unread _ _ H) as [E _]. rewrite E, nskip_nseq. reflexivity.
Qed.

Lemma bytes_nseq_len d c x : bytes_of d = nseq c x -> x = dlen d.
Proof.
  intro E. rewrite <- (bytes_length d), E, nseq_len_N. reflexivity.
Qed.

(* ---------------------------------------------------------------- source *)

Lemma src_read_spec full n cap w :
  w_cur w <= w_len w ->
  let '(d, w') := src_read_g full n cap w in
  bytes_of d = nseq (w_cur w) (dlen d) /\
  w_cur w' = w_cur w + dlen d /\ w_cur w' <= w_len w /\
  w_buf w' = w_buf w /\ w_len w' = w_len w /\
  dlen d = src_amount_g full n cap w.
Proof.
  intro Hc. unfold src_read_g. set (k := src_amount_g full n cap w).
  assert (Hk : k <= w_len w - w_cur w).
  { unfold k, src_amount_g. destruct n as [m|]; [destruct cap as [c|]; [destruct full; [destruct (c =? 0)|]|]|]; lia. }
  destruct (k =? 0) eqn:E; simpl.
  - apply N.eqb_eq in E. rewrite E. repeat split; try reflexivity; lia.
  - rewrite app_nil_r, N.add_0_r. repeat split; try reflexivity; lia.
Qed.

Lemma src_amount_le full m cap w : src_amount_g full (Some m) cap w <= m.
Proof. unfold src_amount_g. destruct cap as [c|]; [destruct full; [destruct (c =? 0)|]|]; lia. Qed.

(* read at most what the buffer has room for, add it: still in sync *)
Lemma fill_ok full w m cap :
  winv w -> m <= buf_remaining (w_buf w) ->
  let '(d, w') := src_read_g full (Some m) cap w in
  let w1 := with_buf w' (snd (buf_add d (w_buf w'))) in
  winv w1 /\ b_pos (w_buf w1) = b_pos (w_buf w) /\ w_len w1 = w_len w /\
  b_prot (w_buf w1) = b_prot (w_buf w) /\
  w_cur w1 = w_cur w + src_amount_g full (Some m) cap w /\
  buf_size (w_buf w1) = buf_size (w_buf w) + src_amount_g full (Some m) cap w /\
  buf_remaining (w_buf w1) = buf_remaining (w_buf w) - src_amount_g full (Some m) cap w.
Proof.
  intros [Hb Hc] Hm. pose proof (src_read_spec full (Some m) cap w Hc) as S.
  destruct (src_read_g full (Some m) cap w) as [d w'].
  destruct S as (Hd & Hcur & Hle & Hbuf & Hlen & Hamt).
  pose proof (src_amount_le full m cap w) as Ham.
  rewrite Hbuf.
  assert (Hfit : dlen d <= buf_remaining (w_buf w)) by lia.
  destruct (add_fits _ d _ Hb Hfit) as [_ Hb'].
  pose proof (add_spec _ d _ Hb) as S2. destruct (buf_add d (w_buf w)) as [k b'] eqn:Ea.
  destruct S2 as (Hk & _ & Hp & Hhr & Hpr & Hsz & Hhd & Hdl). simpl in Hb'.
  assert (k = dlen d) by lia. subst k.
  cbn [snd]. cbv zeta.
  assert (Hw1 : winv (with_buf w' b')).
  { split; cbn [with_buf w_buf w_cur w_len].
    - rewrite Hcur, nseq_app, N.add_0_l, <- Hd. exact Hb'.
    - rewrite Hlen. exact Hle. }
  split; [exact Hw1|]. cbn [with_buf w_buf w_cur w_len].
  repeat split; try assumption; try lia.
  - unfold buf_size. rewrite Hhr, Hp, Hdl.
    pose proof (binv_no_truncation _ _ Hb) as [T _]. lia.
  - unfold buf_remaining. rewrite Hsz, Hdl. lia.
Qed.

(* get() on an in-sync wrapper *)
Lemma get_ok w n :
  winv w ->
  let '(d, b') := buf_get n (w_buf w) in
  bytes_of d = nseq (b_pos (w_buf w)) (dlen d) /\
  b_pos (w_buf w) + dlen d <= w_len w /\
  dlen d = N.min n (buf_size (w_buf w)) /\
  winv (with_buf w b') /\ b_pos b' = b_pos (w_buf w) + dlen d.
Proof.
  intros Hw. pose proof Hw as [Hb Hc]. pose proof (get_spec _ n _ Hb) as S.
  destruct (buf_get n (w_buf w)) as [d b'].
  destruct S as (Hd & Hl & Hp & Hb' & _).
  rewrite slice_nseq in Hd. pose proof (bytes_nseq_len _ _ _ Hd) as X. rewrite X in Hd.
  destruct (winv_pos w Hw) as [P1 P2].
  split; [exact Hd|]. split; [lia|]. split; [exact Hl|]. split; [|exact Hp].
  split; [exact Hb' | exact Hc].
Qed.

(* ---------------------------------------------------------------- one-step form of the spec *)

Lemma wrap_spec_cons len c o r t :
  wrap_spec len c ((o, r) :: t) <->
  wrap_spec len c [(o, r)] /\ wrap_spec len (spec_cursor len c [(o, r)]) t.
Proof.
  destruct o as [d|n|n|p st|z wh|v|n cap]; destruct r as [k|d'|[|]| | | ]; cbn [wrap_spec spec_cursor]; tauto.
Qed.

Lemma spec_cursor_cons len c o r t :
  spec_cursor len c ((o, r) :: t) = spec_cursor len (spec_cursor len c [(o, r)]) t.
Proof.
  destruct o as [d|n|n|p st|z wh|v|n cap]; destruct r as [k|d'|[|]| | | ]; reflexivity.
Qed.

(* per-operation side condition threaded through a history *)
Fixpoint chain (P : wst -> op -> Prop) (k : kind) (ops : list op) (w : wst) : Prop :=
  match ops with
  | [] => True
  | o :: t => P w o /\ chain P k t (snd (step k o w))
  end.

Lemma histories (k : kind) (I : N -> wst -> Prop) (P : wst -> op -> Prop) :
  (forall c w o, I c w -> applicable k o -> P w o ->
     wrap_spec (w_len w) c [(o, fst (step k o w))] /\
     I (spec_cursor (w_len w) c [(o, fst (step k o w))]) (snd (step k o w)) /\
     w_len (snd (step k o w)) = w_len w) ->
  forall ops c w, I c w -> Forall (applicable k) ops -> chain P k ops w ->
    wrap_spec (w_len w) c (trace k ops w) /\
    I (spec_cursor (w_len w) c (trace k ops w)) (run_state k ops w) /\
    w_len (run_state k ops w) = w_len w.
Proof.
  intros Hstep. induction ops as [|o ops IH]; intros c w Hi Hap Hch.
  - simpl. auto.
  - inversion Hap as [|? ? Ho Hap']; subst. destruct Hch as [Hp Hch].
    destruct (Hstep c w o Hi Ho Hp) as (S1 & S2 & S3).
    cbn [trace run_state]. destruct (step k o w) as [r w'] eqn:E. cbn [fst snd] in *.
    destruct (IH _ _ S2 Hap' Hch) as (T1 & T2 & T3).
    rewrite wrap_spec_cons, (spec_cursor_cons (w_len w) c o r (trace k ops w')). rewrite S3 in T1, T2.
    split; [split; [exact S1 | exact T1]|]. split; [exact T2|]. rewrite T3. exact S3.
Qed.

Lemma chain_true k ops w : chain (fun _ _ => True) k ops w.
Proof. revert w; induction ops as [|o t IH]; intro w; simpl; auto. Qed.

(* ---------------------------------------------------------------- BufferedIOBaseWrapper *)

Lemma bio_read_spec size cap w :
  winv w ->
  let '(d, w') := bio_read size cap w in
  read_ok (w_len w) (b_pos (w_buf w)) size d /\
  winv w' /\ b_pos (w_buf w') = b_pos (w_buf w) + dlen d /\ w_len w' = w_len w.
Proof.
  intro Hw. destruct (winv_pos w Hw) as [P1 P2]. pose proof Hw as [_ Hc].
  unfold bio_read.
  assert (Z : size = Some 0 \/ size <> Some 0) by (destruct size as [[|?]|]; auto; right; discriminate).
  destruct Z as [-> | Hnz].
  - unfold read_ok. cbn [dlen]. split; [split; [reflexivity | split; lia]|].
    split; [exact Hw|]. split; [lia | reflexivity].
  - set (w1 := match size with
               | Some n => if (0 <? buf_remaining (w_buf w)) && (buf_size (w_buf w) <? n)
                           then let '(d, w') := src_read (Some (N.min n (buf_remaining (w_buf w)))) cap w in
                                with_buf w' (snd (buf_add d (w_buf w')))
                           else w
               | None => w end).
    assert (H1 : winv w1 /\ b_pos (w_buf w1) = b_pos (w_buf w) /\ w_len w1 = w_len w).
    { unfold w1. destruct size as [n|]; [|auto].
      destruct ((0 <? buf_remaining (w_buf w)) && (buf_size (w_buf w) <? n)); [|auto].
      pose proof (fill_ok false w (N.min n (buf_remaining (w_buf w))) cap Hw ltac:(lia)) as F.
      destruct (src_read (Some (N.min n (buf_remaining (w_buf w)))) cap w) as [d w'].
      cbv zeta in F. destruct F as (F1 & F2 & F3 & _). auto. }
    destruct H1 as (Hw1 & Hp1 & Hl1).
    set (to_read := match size with None => buf_size (w_buf w1) | Some n => N.min n (buf_size (w_buf w1)) end).
    assert (G : (let '(d, w') := (let '(d, b') := buf_get to_read (w_buf w1) in (d, with_buf w1 b')) in
                 read_ok (w_len w) (b_pos (w_buf w)) size d /\
                 winv w' /\ b_pos (w_buf w') = b_pos (w_buf w) + dlen d /\ w_len w' = w_len w)).
    { pose proof (get_ok w1 to_read Hw1) as S. destruct (buf_get to_read (w_buf w1)) as [d b'].
      destruct S as (Hd & Hle & Hdl & Hw' & Hp').
      rewrite Hp1 in *. rewrite Hl1 in *. unfold read_ok.
      split; [split; [exact Hd | split; [exact Hle|]]|].
      { destruct size as [n|]; [|exact I]. unfold to_read in Hdl. lia. }
      split; [exact Hw'|]. split; [exact Hp'|]. cbn [with_buf w_len]. exact Hl1. }
    destruct size as [[|q]|]; [congruence| exact G | exact G].
Qed.

Lemma bio_seek_spec p st w :
  winv w ->
  let '(r, w') := bio_seek p st w in
  winv w' /\ r = b_pos (w_buf w') /\ w_len w' = w_len w /\
  ((st = true /\ r = p) \/ w' = w).
Proof.
  intros Hw. pose proof Hw as [Hb Hc]. unfold bio_seek. destruct st; [|simpl; auto].
  destruct (buf_seek p (w_buf w)) as [[|] b'] eqn:E; cbn [snd].
  - destruct (seek_true _ _ _ _ Hb E) as (Hp & Hb' & _).
    cbn [with_buf w_buf w_len w_cur]. split; [split; assumption|].
    split; [reflexivity|]. split; [reflexivity|]. left. split; [reflexivity | exact Hp].
  - apply seek_false in E. subst b'. destruct w as [b c l]. cbn [with_buf w_buf w_cur w_len]. auto.
Qed.

Lemma protect_wrap v w b' :
  winv w -> buf_protect v (w_buf w) = Some b' ->
  winv (with_buf w b') /\ b_pos b' = b_pos (w_buf w).
Proof.
  intros [Hb Hc] E. destruct (protect_spec _ _ _ _ Hb E) as (Hb' & Hp & _).
  split; [split; assumption | exact Hp].
Qed.

(* ---- seeks that OSeek cannot express: negative offsets, CURRENT/END origins *)

Lemma buf_seek_z_neg p b : (p < 0)%Z -> buf_seek_z p b = (false, b).
Proof.
  intro H. unfold buf_seek_z. replace (p <? 0)%Z with true by (symmetry; apply Z.ltb_lt; exact H). reflexivity.
Qed.

Lemma with_buf_same w : with_buf w (w_buf w) = w.
Proof. destruct w; reflexivity. Qed.

Lemma seekx_unmoved z wh w :
  wh <> 0 \/ (z < 0)%Z ->
  (if wh =? 0 then with_buf w (snd (buf_seek_z z (w_buf w))) else w) = w.
Proof.
  intro H. destruct (wh =? 0) eqn:E; [|reflexivity]. apply N.eqb_eq in E.
  destruct H as [H|H]; [congruence|]. rewrite (buf_seek_z_neg z _ H). apply with_buf_same.
Qed.

Definition bio_inv (c : N) (w : wst) : Prop := winv w /\ c = b_pos (w_buf w).

Lemma bio_step_ok c w o :
  bio_inv c w -> applicable KBio o -> True ->
  wrap_spec (w_len w) c [(o, fst (step KBio o w))] /\
  bio_inv (spec_cursor (w_len w) c [(o, fst (step KBio o w))]) (snd (step KBio o w)) /\
  w_len (snd (step KBio o w)) = w_len w.
Proof.
  intros [Hw ->] Ho _. destruct o as [d|n|n|p st|z wh|v|n cap]; try (simpl in Ho; contradiction).
  - (* seek *)
    cbn [step]. pose proof (bio_seek_spec p st w Hw) as S.
    destruct (bio_seek p st w) as [r w']. destruct S as (Hw' & Hr & Hl & Hcase).
    cbn [fst snd wrap_spec spec_cursor]. split; [exact I|]. split; [|exact Hl].
    split; [exact Hw'|].
    destruct (r =? seek_target (b_pos (w_buf w)) p st) eqn:E; [exact Hr|].
    destruct Hcase as [[-> ->] | ->]; [|reflexivity].
    simpl in E. rewrite N.eqb_refl in E. discriminate.
  - (* negative offset or CURRENT/END origin: nothing moves, the unchanged position is returned *)
    cbn [step]. simpl in Ho. rewrite (seekx_unmoved z wh w Ho).
    cbn [fst snd wrap_spec spec_cursor]. split; [exact I|]. split; [|reflexivity].
    split; [exact Hw|]. destruct (Z.of_N (b_pos (w_buf w)) =? _)%Z; reflexivity.
  - (* protect *)
    cbn [step]. destruct (buf_protect v (w_buf w)) as [b'|] eqn:E; cbn [fst snd wrap_spec spec_cursor].
    + destruct (protect_wrap v w b' Hw E) as [Hw' Hp].
      split; [exact I|]. split; [|reflexivity]. split; [exact Hw'|]. cbn [with_buf w_buf]. auto.
    + split; [exact I|]. split; [|reflexivity]. split; [exact Hw|reflexivity].
  - (* read *)
    cbn [step]. pose proof (bio_read_spec n cap w Hw) as S.
    destruct (bio_read n cap w) as [d w']. destruct S as (Hr & Hw' & Hp & Hl).
    cbn [fst snd wrap_spec spec_cursor]. split; [split; [exact Hr | exact I]|].
    split; [|exact Hl]. split; [exact Hw'|]. auto.
Qed.

(* StreamableIOBaseWrapper over BufferedIOBaseWrapper (after ff5b434) *)
Lemma sio_step_ok c w o :
  bio_inv c w -> applicable KSio o -> True ->
  wrap_spec (w_len w) c [(o, fst (step KSio o w))] /\
  bio_inv (spec_cursor (w_len w) c [(o, fst (step KSio o w))]) (snd (step KSio o w)) /\
  w_len (snd (step KSio o w)) = w_len w.
Proof.
  intros [Hw ->] Ho _. destruct o as [d|n|n|p st|z wh|v|n cap]; try (simpl in Ho; contradiction).
  - cbn [step]. pose proof (bio_seek_spec p st w Hw) as S.
    destruct (bio_seek p st w) as [r w']. destruct S as (Hw' & Hr & Hl & Hcase).
    cbn [fst snd].
    destruct (r =? (if st then p else p + b_pos (w_buf w))) eqn:E; cbn [wrap_spec spec_cursor].
    + split; [exact I|]. split; [|exact Hl]. split; [exact Hw'|].
      apply N.eqb_eq in E. rewrite <- Hr, E. unfold seek_target. destruct st; lia.
    + split; [exact I|]. split; [|exact Hl]. split; [exact Hw'|].
      destruct Hcase as [[-> ->] | ->]; [|reflexivity].
      rewrite N.eqb_refl in E. discriminate.
  - (* negative offset (START) or CURRENT origin *)
    cbn [step]. simpl in Ho. destruct Ho as [-> | [-> Hneg]].
    + (* CURRENT: reader.seek(offset, 1) does not move; success only for offset 0 *)
      cbn [N.eqb Pos.eqb fst snd].
      destruct (Z.of_N (b_pos (w_buf w)) =? z + Z.of_N (b_pos (w_buf w)))%Z eqn:E;
        cbn [wrap_spec spec_cursor]; unfold seek_target_z; cbn [N.eqb Pos.eqb].
      * apply Z.eqb_eq in E. assert (z = 0%Z) by lia. subst z. rewrite Z.add_0_r, N2Z.id.
        split; [split; [lia | exact I]|]. split; [|reflexivity]. split; [exact Hw | reflexivity].
      * split; [exact I|]. split; [|reflexivity]. split; [exact Hw | reflexivity].
    + cbn [N.eqb]. rewrite (buf_seek_z_neg z _ Hneg). cbn [snd]. rewrite with_buf_same. cbn [fst snd].
      replace (Z.of_N (b_pos (w_buf w)) =? z)%Z with false by (symmetry; apply Z.eqb_neq; lia).
      cbn [wrap_spec spec_cursor]. split; [exact I|]. split; [|reflexivity]. split; [exact Hw | reflexivity].
  - cbn [step]. destruct (buf_protect v (w_buf w)) as [b'|] eqn:E; cbn [fst snd wrap_spec spec_cursor].
    + destruct (protect_wrap v w b' Hw E) as [Hw' Hp].
      split; [exact I|]. split; [|reflexivity]. split; [exact Hw'|]. cbn [with_buf w_buf]. auto.
    + split; [exact I|]. split; [|reflexivity]. split; [exact Hw|reflexivity].
  - cbn [step]. pose proof (bio_read_spec n cap w Hw) as S.
    destruct (bio_read n cap w) as [d w']. destruct S as (Hr & Hw' & Hp & Hl).
    cbn [fst snd wrap_spec spec_cursor]. split; [split; [exact Hr | exact I]|].
    split; [|exact Hl]. split; [exact Hw'|]. auto.
Qed.

(* ---------------------------------------------------------------- StreamReaderWrapper *)

(* [c] is the true stream offset.  Either the wrapper is in sync (c is buffer.position), or
   reads have bypassed the drained buffer: the buffer still holds (part of) the first
   `position` bytes, all of them read, and c is the source cursor. *)
Definition sinv (c : N) (w : wst) : Prop :=
  w_cur w <= w_len w /\
  ((winv w /\ c = b_pos (w_buf w)) \/
   (binv (nseq 0 (b_pos (w_buf w))) (w_buf w) /\ srw_bypass w = true /\
    b_pos (w_buf w) <= w_cur w /\ c = w_cur w)).

Lemma srw_bypass_buf w b' :
  b_pos b' = b_pos (w_buf w) -> buf_size b' = buf_size (w_buf w) ->
  srw_bypass (with_buf w b') = srw_bypass w.
Proof. intros H1 H2. unfold srw_bypass. cbn [with_buf w_buf]. now rewrite H1, H2. Qed.

Lemma bypass_true w : srw_bypass w = true -> 0 < b_pos (w_buf w) /\ buf_size (w_buf w) = 0.
Proof.
  unfold srw_bypass. rewrite andb_true_iff, N.ltb_lt, N.eqb_eq. auto.
Qed.

(* in sync and drained: the position IS the source cursor, so the bypass form holds too *)
Lemma sinv_bypass_form c w :
  sinv c w -> srw_bypass w = true ->
  binv (nseq 0 (b_pos (w_buf w))) (w_buf w) /\ b_pos (w_buf w) <= w_cur w /\ c = w_cur w.
Proof.
  intros [Hc [[Hw ->] | (Hb & _ & Hp & ->)]] Hby; [|auto].
  destruct (bypass_true w Hby) as [_ Hz]. destruct (winv_pos w Hw) as [P1 P2].
  assert (E : b_pos (w_buf w) = w_cur w) by lia.
  destruct Hw as [Hb _]. rewrite E. split; [exact Hb | split; [lia | reflexivity]].
Qed.

Lemma srw_read_spec c num cap w :
  sinv c w ->
  let '(d, w') := srw_read num cap w in
  read_ok (w_len w) c num d /\ sinv (c + dlen d) w' /\ w_len w' = w_len w.
Proof.
  intro Hs. pose proof Hs as [Hc Hd]. unfold srw_read.
  assert (Cle : c <= w_len w).
  { destruct Hd as [[Hw ->] | (_ & _ & _ & ->)]; [|exact Hc]. destruct (winv_pos w Hw). lia. }
  assert (Z : num = Some 0 \/ num <> Some 0) by (destruct num as [[|?]|]; auto; right; discriminate).
  destruct Z as [-> | Hnz].
  - unfold read_ok. simpl. rewrite N.add_0_r. repeat split; auto; lia.
  - assert (G : (let '(d, w') :=
        (if srw_bypass w then src_read_g true num cap w
         else let to_read := match num with None => buf_size (w_buf w) | Some n => n end in
              let from_source := N.min to_read (buf_remaining (w_buf w)) in
              let '(d, w') := src_read_g true (Some from_source) cap w in
              let w1 := with_buf w' (snd (buf_add d (w_buf w'))) in
              let '(r, b') := buf_get to_read (w_buf w1) in (r, with_buf w1 b')) in
        read_ok (w_len w) c num d /\ sinv (c + dlen d) w' /\ w_len w' = w_len w)).
    { destruct (srw_bypass w) eqn:Eby.
      - (* straight from the reader *)
        destruct (sinv_bypass_form c w Hs Eby) as (Hb & Hp & ->).
        pose proof (src_read_spec true num cap w Hc) as S.
        destruct (src_read_g true num cap w) as [d w']. destruct S as (Hd' & Hcur & Hle & Hbuf & Hlen & Hamt).
        unfold read_ok. split; [split; [exact Hd' | split; [lia|]]|].
        { destruct num as [m|]; [|exact I]. rewrite Hamt. apply src_amount_le. }
        split; [|exact Hlen].
        unfold sinv. rewrite Hlen. split; [exact Hle|]. right.
        unfold srw_bypass in *. rewrite Hbuf. split; [exact Hb|]. split; [exact Eby|]. split; lia.
      - (* through the buffer: only possible while in sync *)
        destruct Hd as [[Hw ->] | (_ & Hby & _)]; [|congruence].
        cbv zeta.
        set (to_read := match num with None => buf_size (w_buf w) | Some n => n end).
        pose proof (fill_ok true w (N.min to_read (buf_remaining (w_buf w))) cap Hw ltac:(lia)) as F.
        destruct (src_read_g true (Some (N.min to_read (buf_remaining (w_buf w)))) cap w) as [d0 w0].
        cbv zeta in F |- *. set (w1 := with_buf w0 (snd (buf_add d0 (w_buf w0)))) in *.
        destruct F as (Hw1 & Hp1 & Hl1 & _).
        pose proof (get_ok w1 to_read Hw1) as S. destruct (buf_get to_read (w_buf w1)) as [d b'].
        destruct S as (Hd' & Hle & Hdl & Hw' & Hp').
        rewrite Hp1 in *. rewrite Hl1 in *. unfold read_ok.
        split; [split; [exact Hd' | split; [exact Hle|]]|].
        { destruct num as [n|]; [|exact I]. unfold to_read in Hdl. lia. }
        split; [|cbn [with_buf w_len]; exact Hl1].
        split; [destruct Hw' as [_ X]; cbn [with_buf w_len w_cur] in *; lia|].
        left. split; [exact Hw'|]. cbn [with_buf w_buf]. lia. }
    destruct num as [[|q]|]; [congruence| exact G | exact G].
Qed.

Definition sync_cond (k : kind) (w : wst) (o : op) : Prop :=
  match o with
  | OSeek p true => fst (buf_seek p (w_buf w)) = true -> synced w = true
  | OSeekX p wh => match k with KSsw => synced w = true | _ => True end
  | _ => True
  end.

Lemma chain_sync k ops w : seeks_in_sync k ops w <-> chain (sync_cond k) k ops w.
Proof.
  revert w; induction ops as [|o t IH]; intro w; simpl; [tauto|].
  rewrite IH. unfold sync_cond. tauto.
Qed.

(* a seek that succeeds while the source cursor agrees with position+size finds the wrapper in sync *)
Lemma sinv_synced c w : sinv c w -> synced w = true -> winv w /\ c = b_pos (w_buf w).
Proof.
  intros [Hc [H | (Hb & Hby & Hp & ->)]] Hs; [exact H|].
  destruct (bypass_true w Hby) as [_ Hz]. unfold synced in Hs. apply N.eqb_eq in Hs.
  assert (E : w_cur w = b_pos (w_buf w)) by lia.
  split; [|exact E]. split; [|exact Hc]. rewrite E. exact Hb.
Qed.

Lemma srw_seek_spec k c p w :
  sinv c w -> sync_cond k w (OSeek p true) ->
  let '(r, w') := srw_seek p true w in
  w_len w' = w_len w /\
  ((r = true /\ sinv p w' /\ b_pos (w_buf w') = p /\ winv w') \/ (r = false /\ w' = w)).
Proof.
  intros Hs Hsync. unfold srw_seek. destruct (buf_seek p (w_buf w)) as [[|] b'] eqn:E.
  - simpl in Hsync. rewrite E in Hsync. specialize (Hsync eq_refl).
    destruct (sinv_synced c w Hs Hsync) as [Hw ->]. pose proof Hw as [Hb Hc].
    destruct (seek_true _ _ _ _ Hb E) as (Hp & Hb' & _).
    split; [reflexivity|]. left. split; [reflexivity|].
    assert (Hw' : winv (with_buf w b')) by (split; assumption).
    split; [|split; [exact Hp | exact Hw']].
    split; [exact Hc|]. left. split; [exact Hw'|]. cbn [with_buf w_buf]. auto.
  - apply seek_false in E. subst b'. destruct w as [b cu l]. cbn [with_buf w_buf w_cur w_len].
    split; [reflexivity|]. right. auto.
Qed.

Lemma srw_protect c v w b' :
  sinv c w -> buf_protect v (w_buf w) = Some b' -> sinv c (with_buf w b').
Proof.
  intros [Hc Hd] E. split; [exact Hc|]. destruct Hd as [[Hw ->] | (Hb & Hby & Hp & ->)].
  - left. destruct (protect_wrap v w b' Hw E) as [Hw' Hp]. split; [exact Hw'|]. cbn [with_buf w_buf]. auto.
  - right. destruct (protect_spec _ _ _ _ Hb E) as (Hb' & Hp' & Hbuf & Hhr & _).
    assert (Hby' : srw_bypass (with_buf w b') = true).
    { rewrite srw_bypass_buf; [exact Hby | exact Hp' |]. unfold buf_size. now rewrite Hp', Hbuf, Hhr. }
    cbn [with_buf w_buf w_cur]. rewrite Hp'. split; [exact Hb'|]. split; [exact Hby'|]. split; [exact Hp | reflexivity].
Qed.

Lemma srw_step_ok c w o :
  sinv c w -> applicable KSrw o -> sync_cond KSrw w o ->
  wrap_spec (w_len w) c [(o, fst (step KSrw o w))] /\
  sinv (spec_cursor (w_len w) c [(o, fst (step KSrw o w))]) (snd (step KSrw o w)) /\
  w_len (snd (step KSrw o w)) = w_len w.
Proof.
  intros Hs Ho Hsync. destruct o as [d|n|n|p st|z wh|v|n cap]; try (simpl in Ho; contradiction).
  - (* seek *)
    cbn [step]. destruct st.
    + pose proof (srw_seek_spec _ c p w Hs Hsync) as S. destruct (srw_seek p true w) as [r w'].
      destruct S as (Hl & [(-> & Hs' & _) | (-> & ->)]); cbn [fst snd wrap_spec spec_cursor seek_target]; auto.
    + cbn [srw_seek fst snd wrap_spec spec_cursor]. auto.
  - (* negative offset or CURRENT origin: False, nothing moves *)
    cbn [step]. simpl in Ho. destruct Ho as [-> | [-> Hneg]].
    + cbn [N.eqb Pos.eqb fst snd wrap_spec spec_cursor]. split; [exact I|]. split; [exact Hs | reflexivity].
    + cbn [N.eqb]. rewrite (buf_seek_z_neg z _ Hneg). rewrite with_buf_same.
      cbn [fst snd wrap_spec spec_cursor]. split; [exact I|]. split; [exact Hs | reflexivity].
  - (* protect *)
    cbn [step]. destruct (buf_protect v (w_buf w)) as [b'|] eqn:E; cbn [fst snd wrap_spec spec_cursor].
    + pose proof (srw_protect c v w b' Hs E) as Hs'. split; [exact I|]. split; [exact Hs' | reflexivity].
    + split; [exact I|]. split; [exact Hs | reflexivity].
  - (* read *)
    cbn [step]. pose proof (srw_read_spec c n cap w Hs) as S.
    destruct (srw_read n cap w) as [d w']. destruct S as (Hr & Hs' & Hl).
    cbn [fst snd wrap_spec spec_cursor]. split; [split; [exact Hr | exact I]|]. split; [exact Hs' | exact Hl].
Qed.

(* StreamableSourceWrapper over StreamReaderWrapper: io-style seek result *)
Lemma ssw_step_ok c w o :
  sinv c w -> applicable KSsw o -> sync_cond KSsw w o ->
  wrap_spec (w_len w) c [(o, fst (step KSsw o w))] /\
  sinv (spec_cursor (w_len w) c [(o, fst (step KSsw o w))]) (snd (step KSsw o w)) /\
  w_len (snd (step KSsw o w)) = w_len w.
Proof.
  intros Hs Ho Hsync. destruct o as [d|n|n|p st|z wh|v|n cap]; try (simpl in Ho; contradiction).
  - (* seek *)
    cbn [step]. destruct st.
    + pose proof (srw_seek_spec _ c p w Hs Hsync) as S. destruct (srw_seek p true w) as [r w'] eqn:Esk.
      destruct S as (Hl & [(-> & Hs' & Hp & _) | (-> & ->)]); cbn [fst snd wrap_spec spec_cursor seek_target].
      * rewrite Hp, N.eqb_refl. auto.
      * split; [exact I|]. split; [|reflexivity].
        destruct (b_pos (w_buf w) =? p) eqn:E; [|exact Hs].
        (* a failed seek never reports the requested offset: seek(position) always succeeds *)
        apply N.eqb_eq in E. exfalso.
        unfold srw_seek, buf_seek in Esk. rewrite <- E, N.eqb_refl in Esk. discriminate.
    + cbn [fst snd wrap_spec spec_cursor seek_target].
      split; [exact I|]. split; [|reflexivity].
      destruct (b_pos (w_buf w) =? c + p) eqn:E; [|exact Hs].
      apply N.eqb_eq in E.
      destruct Hs as [Hc [[Hw ->] | (Hb & Hby & Hp & ->)]].
      * split; [exact Hc|]. left. split; [exact Hw | reflexivity].
      * assert (X : b_pos (w_buf w) = w_cur w) by lia.
        split; [exact Hc|]. right. split; [exact Hb|]. split; [exact Hby|]. split; [exact Hp | exact X].
  - (* negative offset or CURRENT/END origin: nothing moves; the position is returned, which is the
       true offset because the wrapper is in sync *)
    cbn [step]. simpl in Ho. rewrite (seekx_unmoved z wh w Ho). simpl in Hsync.
    destruct (sinv_synced c w Hs Hsync) as [Hw ->].
    cbn [fst snd wrap_spec spec_cursor]. split; [exact I|]. split; [|reflexivity].
    destruct (Z.of_N (b_pos (w_buf w)) =? _)%Z; exact Hs.
  - cbn [step]. destruct (buf_protect v (w_buf w)) as [b'|] eqn:E; cbn [fst snd wrap_spec spec_cursor].
    + pose proof (srw_protect c v w b' Hs E) as Hs'. split; [exact I|]. split; [exact Hs' | reflexivity].
    + split; [exact I|]. split; [exact Hs | reflexivity].
  - cbn [step]. pose proof (srw_read_spec c n cap w Hs) as S.
    destruct (srw_read n cap w) as [d w']. destruct S as (Hr & Hs' & Hl).
    cbn [fst snd wrap_spec spec_cursor]. split; [split; [exact Hr | exact I]|]. split; [exact Hs' | exact Hl].
Qed.

(* ---------------------------------------------------------------- end of stream is reported honestly *)

(* no room and nothing unread: only possible with a protected headroom *)
Lemma full_and_drained acc b :
  binv acc b -> buf_remaining b = 0 -> buf_size b = 0 -> b_prot b = true.
Proof.
  destruct b as [buf size head pos hr prot]. unfold binv, buf_remaining, buf_size; simpl.
  intros (H1 & H2 & H3 & H) Hr Hs. destruct hr.
  - destruct H as (_ & Hp & Hu). destruct prot; [reflexivity|]. specialize (Hu eq_refl). lia.
  - lia.
Qed.

Lemma src_amount_zero full m cap w :
  0 < m -> cap <> Some 0 -> src_amount_g full (Some m) cap w = 0 -> w_len w <= w_cur w.
Proof.
  unfold src_amount_g. intros Hm Hc. destruct cap as [c|].
  - assert (Hc0 : c <> 0) by (intro; subst; congruence). destruct full.
    + replace (c =? 0) with false by (symmetry; apply N.eqb_neq; exact Hc0). lia.
    + lia.
  - lia.
Qed.

Lemma bio_progress n cap w :
  winv w -> 0 < n -> cap <> Some 0 ->
  dlen (fst (bio_read (Some n) cap w)) = 0 ->
  b_pos (w_buf w) = w_len w \/ (b_prot (w_buf w) = true /\ buf_remaining (w_buf w) = 0).
Proof.
  intros Hw Hn Hcap. destruct (winv_pos w Hw) as [P1 P2]. pose proof Hw as [Hb Hc].
  unfold bio_read. destruct n as [|q]; [lia|]. set (n := N.pos q) in *.
  destruct ((0 <? buf_remaining (w_buf w)) && (buf_size (w_buf w) <? n)) eqn:Ebr.
  - apply andb_true_iff in Ebr. destruct Ebr as [E1 E2]. apply N.ltb_lt in E1, E2.
    pose proof (fill_ok false w (N.min n (buf_remaining (w_buf w))) cap Hw ltac:(lia)) as F.
    destruct (src_read (Some (N.min n (buf_remaining (w_buf w)))) cap w) as [d0 w0].
    cbv zeta in F. set (w1 := with_buf w0 (snd (buf_add d0 (w_buf w0)))) in *.
    destruct F as (Hw1 & _ & _ & _ & _ & Hsz & _).
    pose proof (get_ok w1 (N.min n (buf_size (w_buf w1))) Hw1) as S.
    destruct (buf_get (N.min n (buf_size (w_buf w1))) (w_buf w1)) as [d b'].
    destruct S as (_ & _ & Hdl & _). cbn [fst]. intro Hz.
    assert (K : src_amount (Some (N.min n (buf_remaining (w_buf w)))) cap w = 0) by lia.
    apply src_amount_zero in K; [|lia|exact Hcap]. left. lia.
  - pose proof (get_ok w (N.min n (buf_size (w_buf w))) Hw) as S.
    destruct (buf_get (N.min n (buf_size (w_buf w))) (w_buf w)) as [d b'].
    destruct S as (_ & _ & Hdl & _). cbn [fst]. intro Hz.
    assert (Z : buf_size (w_buf w) = 0) by lia.
    apply andb_false_iff in Ebr. rewrite N.ltb_ge, N.ltb_ge in Ebr.
    assert (R : buf_remaining (w_buf w) = 0) by lia.
    right. split; [|exact R]. exact (full_and_drained _ _ Hb R Z).
Qed.

Lemma srw_progress c n cap w :
  sinv c w -> 0 < n -> cap <> Some 0 ->
  dlen (fst (srw_read (Some n) cap w)) = 0 ->
  c = w_len w \/ (b_prot (w_buf w) = true /\ buf_remaining (w_buf w) = 0).
Proof.
  intros Hs Hn Hcap. pose proof Hs as [Hc Hd].
  unfold srw_read. destruct n as [|q]; [lia|]. set (n := N.pos q) in *.
  destruct (srw_bypass w) eqn:Eby.
  - destruct (sinv_bypass_form c w Hs Eby) as (_ & _ & ->).
    pose proof (src_read_spec true (Some n) cap w Hc) as S.
    destruct (src_read_g true (Some n) cap w) as [d w']. destruct S as (_ & _ & _ & _ & _ & Hamt).
    cbn [fst]. intro Hz. rewrite Hz in Hamt. symmetry in Hamt.
    apply src_amount_zero in Hamt; [|lia|exact Hcap]. left. lia.
  - destruct Hd as [[Hw ->] | (_ & Hby & _)]; [|congruence].
    destruct (winv_pos w Hw) as [P1 P2]. pose proof Hw as [Hb _].
    cbv zeta.
    pose proof (fill_ok true w (N.min n (buf_remaining (w_buf w))) cap Hw ltac:(lia)) as F.
    destruct (src_read_g true (Some (N.min n (buf_remaining (w_buf w)))) cap w) as [d0 w0].
    cbv zeta in F. set (w1 := with_buf w0 (snd (buf_add d0 (w_buf w0)))) in *.
    destruct F as (Hw1 & _ & _ & _ & _ & Hsz & _).
    pose proof (get_ok w1 n Hw1) as S. destruct (buf_get n (w_buf w1)) as [d b'].
    destruct S as (_ & _ & Hdl & _). cbn [fst]. intro Hz.
    assert (Z : buf_size (w_buf w) = 0) by lia.
    assert (K : src_amount_g true (Some (N.min n (buf_remaining (w_buf w)))) cap w = 0) by lia.
    destruct (N.eq_dec (buf_remaining (w_buf w)) 0) as [R|R].
    + right. split; [|exact R]. exact (full_and_drained _ _ Hb R Z).
    + apply src_amount_zero in K; [|lia|exact Hcap]. left. lia.
Qed.

(* ---------------------------------------------------------------- PatchedIceCastClient *)

Lemma ice_step_ok block o w :
  winv w -> (forall c, o = IDownload c -> c <= block) ->
  let '(r, w') := ice_step block o w in
  winv w' /\ w_len w' = w_len w /\
  match iop_op o with
  | Some o' => wrap_spec (w_len w) (b_pos (w_buf w)) [(o', r)] /\
               b_pos (w_buf w') = spec_cursor (w_len w) (b_pos (w_buf w)) [(o', r)]
  | None => b_pos (w_buf w') = b_pos (w_buf w)
  end.
Proof.
  intros Hw Hc. pose proof Hw as [Hb Hcur]. destruct o as [c|n|p|v]; cbn [ice_step iop_op].
  - (* download *)
    specialize (Hc c eq_refl). destruct (buf_fits block (w_buf w)) eqn:Ef.
    + unfold buf_fits in Ef. apply N.leb_le in Ef.
      assert (Hm : c <= buf_remaining (w_buf w)) by (unfold buf_remaining; lia).
      pose proof (fill_ok false w c None Hw Hm) as F.
      destruct (src_read (Some c) None w) as [d w']. cbv zeta in F.
      destruct F as (F1 & F2 & F3 & _). split; [exact F1|]. split; [exact F3 | exact F2].
    + split; [exact Hw|]. split; reflexivity.
  - (* read *)
    pose proof (get_ok w n Hw) as S. destruct (buf_get n (w_buf w)) as [d b'].
    destruct S as (Hd & Hle & Hdl & Hw' & Hp).
    split; [exact Hw'|]. split; [reflexivity|]. cbn [wrap_spec spec_cursor with_buf w_buf].
    split; [|exact Hp]. split; [|exact I]. unfold read_ok. split; [exact Hd|]. split; [exact Hle|]. lia.
  - (* seek *)
    destruct (buf_seek p (w_buf w)) as [[|] b'] eqn:E.
    + destruct (seek_true _ _ _ _ Hb E) as (Hp & Hb' & _).
      split; [split; assumption|]. split; [reflexivity|]. cbn [wrap_spec spec_cursor seek_target with_buf w_buf]. auto.
    + apply seek_false in E. subst b'. destruct w as [b cu l]. cbn [with_buf w_buf w_cur w_len wrap_spec spec_cursor].
      auto.
  - (* protect *)
    destruct (buf_protect v (w_buf w)) as [b'|] eqn:E.
    + destruct (protect_wrap v w b' Hw E) as [Hw' Hp].
      split; [exact Hw'|]. split; [reflexivity|]. cbn [wrap_spec spec_cursor with_buf w_buf]. auto.
    + cbn [wrap_spec spec_cursor]. auto.
Qed.

Lemma ice_histories block : forall ops w,
  winv w -> chunks_within block ops ->
  wrap_spec (w_len w) (b_pos (w_buf w)) (ice_trace block ops w) /\
  winv (ice_state block ops w) /\
  b_pos (w_buf (ice_state block ops w)) = spec_cursor (w_len w) (b_pos (w_buf w)) (ice_trace block ops w).
Proof.
  induction ops as [|o ops IH]; intros w Hw Hch; [simpl; auto|].
  assert (Hc : forall c, o = IDownload c -> c <= block).
  { intros c ->. apply Hch. left. reflexivity. }
  assert (Hch' : chunks_within block ops).
  { intros c Hin. apply Hch. right. exact Hin. }
  pose proof (ice_step_ok block o w Hw Hc) as S.
  cbn [ice_trace ice_state]. destruct (ice_step block o w) as [r w'] eqn:E. cbn [snd].
  destruct S as (Hw' & Hl & Hm). destruct (IH w' Hw' Hch') as (T1 & T2 & T3).
  destruct (iop_op o) as [o'|].
  - destruct Hm as [M1 M2]. rewrite wrap_spec_cons, (spec_cursor_cons _ _ o' r).
    rewrite Hl, M2 in T1. rewrite Hl, M2 in T3.
    split; [split; [exact M1 | exact T1]|]. split; [exact T2 |].
    rewrite (spec_cursor_cons _ _ o' r). exact T3.
  - rewrite Hl, Hm in T1. rewrite Hl, Hm in T3. split; [exact T1|]. split; [exact T2 | exact T3].
Qed.

(* ---------------------------------------------------------------- nothing is lost (state form) *)

Lemma bytes_empty d : dlen d = 0 -> bytes_of d = [].
Proof.
  intro H. apply length_zero_iff_nil. pose proof (bytes_length d) as L. lia.
Qed.

(* everything taken from the source and not yet delivered is stored, in order *)
Lemma sinv_unread c w : sinv c w ->
  bytes_of (unread (w_buf w)) = nseq c (w_cur w - c) /\ c <= w_cur w /\ w_cur w <= w_len w.
Proof.
  intros [Hc [[Hw ->] | (Hb & Hby & Hp & ->)]].
  - split; [exact (winv_unread w Hw)|]. destruct (winv_pos w Hw). split; [lia | exact Hc].
  - destruct (bypass_true w Hby) as [_ Hz]. destruct (binv_unread _ _ Hb) as [_ E2].
    rewrite bytes_empty by lia. replace (w_cur w - w_cur w) with 0 by lia.
    split; [reflexivity|]. split; [lia | exact Hc].
Qed.

Lemma bio_inv_unread c w : bio_inv c w ->
  bytes_of (unread (w_buf w)) = nseq c (w_cur w - c) /\ c <= w_cur w /\ w_cur w <= w_len w.
Proof.
  intros [Hw ->]. apply sinv_unread. destruct Hw as [Hb Hc]. split; [exact Hc|]. left. split; [split; assumption | reflexivity].
Qed.

Lemma sinv_init size head prot len w :
  1 <= head -> init size head prot len = Some w -> sinv 0 w /\ bio_inv 0 w /\ w_len w = len.
Proof.
  intros H1 H. destruct (winv_new _ _ _ _ _ H1 H) as (Hw & Hl & Hp).
  split; [|split; [split; [exact Hw | now rewrite Hp] | exact Hl]].
  destruct Hw as [Hb Hc]. split; [exact Hc|]. left. split; [split; assumption | now rewrite Hp].
Qed.

(* ---------------------------------------------------------------- _read_from_source absorbs short reads *)

Lemma read_loop_total : forall caps n avail got,
  (forall c, In (Some c) caps -> 1 <= c) -> got <= n ->
  read_loop caps n avail got = got + N.min (n - got) avail.
Proof.
  induction caps as [|c t IH]; intros n avail got Hc Hg; cbn [read_loop].
  - destruct (n <=? got) eqn:E; [apply N.leb_le in E; lia | reflexivity].
  - destruct (n <=? got) eqn:E; [apply N.leb_le in E; lia|]. apply N.leb_gt in E.
    set (k := match c with None => N.min (n - got) avail | Some c0 => N.min (N.min (n - got) avail) c0 end).
    assert (Hk : k <= n - got /\ k <= avail /\ (k = 0 -> avail = 0)).
    { unfold k. destruct c as [c0|]; [|lia]. assert (1 <= c0) by (apply Hc; left; reflexivity). lia. }
    destruct Hk as (K1 & K2 & K3).
    destruct (k =? 0) eqn:Ek.
    + apply N.eqb_eq in Ek. rewrite (K3 Ek). lia.
    + apply N.eqb_neq in Ek. rewrite IH; [lia | intros c0 Hin; apply Hc; right; exact Hin | lia].
Qed.
