(* C17 - buffered audio input is read without loss or duplication: property theorems.

   Reading guide.  [bytes_of d] is the list of bytes of a run-length encoded byte string,
   [nseq o l] the bytes o, o+1, .., o+l-1 of the identity source.  [buf_spec s c tr] /
   [wrap_spec len c tr] (Spec.v) say that the observable history [tr] is one that a
   reference stream with cursor [c] accepts: reads continue at the cursor without gap or
   repeat, successful seeks move the cursor to the requested offset, failed seeks and
   everything else leave it alone.  All theorems quantify over ALL operation lists, all
   sizes with 1 <= headroom <= size (64 KiB / 32 KiB included), all source lengths and all
   short-read behaviours of the source. *)
From Coq Require Import List Bool NArith ZArith Lia.
From PV Require Import Common.Cases C17.Model C17.Spec C17.ProofsData C17.ProofsBuf C17.ProofsWrap C17.ProofsIce C17.ProofsProbe.
Import ListNotations.
Local Open Scope N_scope.

(* ================================================================ SemiSeekableBuffer *)

(* Every history of add/get/seek/protect/fits on a fresh buffer is accepted by the reference
   whose stream is "what add() said it stored": get returns exactly stream[cursor : cursor+n].
   At the end the stream-fidelity invariant holds: the buffer stores precisely the unread
   tail of that stream (nothing accepted is lost, nothing is stored twice) and position is
   the cursor. *)
Theorem C17_buffer_fidelity : forall size head prot b ops cur len,
  1 <= head -> buf_new size head prot = Some b -> Forall (applicable KBuf) ops ->
  let tr := trace KBuf ops (mkw b cur len) in
  let b' := w_buf (run_state KBuf ops (mkw b cur len)) in
  buf_spec [] 0 tr /\
  b_pos b' = spec_cursor 0 0 tr /\
  bytes_of (unread b') = nskip (b_pos b') (spec_stream [] tr) /\
  b_pos b' <= N.of_nat (length (spec_stream [] tr)).
Proof.
  intros size head prot b ops cur len H1 Hn Hap. cbv zeta.
  pose proof (binv_new _ _ _ _ H1 Hn) as Hb.
  destruct (buffer_histories ops [] b cur len Hb Hap) as (T1 & T2 & T3).
  assert (P0 : b_pos b = 0).
  { unfold buf_new in Hn. destruct (size <? head); [discriminate|]. now inversion Hn. }
  rewrite P0 in T1, T3.
  split; [exact T1|]. split; [exact T3|].
  destruct (binv_unread _ _ T2) as [U _]. destruct (binv_size _ _ T2) as [_ L]. auto.
Qed.
Print Assumptions C17_buffer_fidelity.

(* The invariant is preserved by every single operation from ANY state satisfying it (not
   only from states reached from a fresh buffer); add() extends the stream by exactly the
   prefix it reports, the other operations leave the stream alone. *)
Theorem C17_buffer_invariant_step : forall acc b o cur len,
  binv acc b -> applicable KBuf o ->
  let '(r, w') := step KBuf o (mkw b cur len) in
  match o, r with
  | OAdd d, RNum k => k = N.min (dlen d) (buf_remaining b) /\ binv (acc ++ ntake k (bytes_of d)) (w_buf w')
  | OGet n, RData d => bytes_of d = slice acc (b_pos b) n /\ binv acc (w_buf w')
  | _, _ => binv acc (w_buf w')
  end.
Proof.
  intros acc b o cur len Hb Ho. destruct o as [d|n|n|p st|z wh|v|n cap]; cbn [step w_buf with_buf].
  - pose proof (add_spec acc d b Hb) as S. destruct (buf_add d b) as [k b']. cbn [w_buf with_buf]. tauto.
  - pose proof (get_spec acc n b Hb) as S. destruct (buf_get n b) as [d b']. cbn [w_buf with_buf]. tauto.
  - exact Hb.
  - simpl in Ho. subst st. destruct (buf_seek p b) as [[|] b'] eqn:E; cbn [w_buf with_buf].
    + destruct (seek_true _ _ _ _ Hb E) as (_ & Hb' & _). exact Hb'.
    + apply seek_false in E. now subst b'.
  - simpl in Ho. destruct Ho as [Hneg ->]. cbn [N.eqb]. rewrite (buf_seek_z_neg z b Hneg). exact Hb.
  - destruct (buf_protect v b) as [b'|] eqn:E; cbn [w_buf with_buf].
    + destruct (protect_spec _ _ _ _ Hb E) as (Hb' & _). exact Hb'.
    + exact Hb.
  - simpl in Ho. contradiction.
Qed.
Print Assumptions C17_buffer_invariant_step.

(* A seek that reports success repositions: position is p and the next get returns the
   stream from offset p. *)
Theorem C17_seek_true_repositions : forall acc b p b',
  binv acc b -> buf_seek p b = (true, b') ->
  b_pos b' = p /\ binv acc b' /\
  forall n, bytes_of (fst (buf_get n b')) = slice acc p n.
Proof.
  intros acc b p b' Hb E. destruct (seek_true _ _ _ _ Hb E) as (Hp & Hb' & _).
  split; [exact Hp|]. split; [exact Hb'|]. intro n.
  pose proof (get_spec acc n b' Hb') as S. destruct (buf_get n b') as [d b'']. cbn [fst].
  destruct S as (Hd & _). now rewrite Hp in Hd.
Qed.
Print Assumptions C17_seek_true_repositions.

(* A seek that reports failure changes nothing at all (in any state, invariant or not). *)
Theorem C17_seek_false_noop : forall p b b', buf_seek p b = (false, b') -> b' = b.
Proof. exact seek_false. Qed.
Print Assumptions C17_seek_false_noop.

(* seek() with ANY integer: a negative position is refused and nothing changes (205aad4); a
   non-negative one is the seek above.  Together with OSeek/OSeekX in the history theorems this
   covers every integer offset and the three whence values START, CURRENT, END on every
   wrapper: the only seeks that ever report success are START seeks to an offset >= 0 that the
   buffer honours and relative seeks that ask for the offset the stream is already at. *)
Theorem C17_seek_any_integer : forall p b,
  ((p < 0)%Z -> buf_seek_z p b = (false, b)) /\
  ((0 <= p)%Z -> buf_seek_z p b = buf_seek (Z.to_N p) b).
Proof.
  intros p b. split; intro H.
  - exact (buf_seek_z_neg p b H).
  - unfold buf_seek_z. replace (p <? 0)%Z with false by (symmetry; apply Z.ltb_ge; exact H). reflexivity.
Qed.
Print Assumptions C17_seek_any_integer.

(* The N model never truncates a subtraction that Python performs on ints. *)
Theorem C17_model_no_truncation : forall acc b,
  binv acc b ->
  (if b_hr b then b_pos b else 0) <= dlen (b_buf b) /\ dlen (b_buf b) <= b_size b.
Proof. exact binv_no_truncation. Qed.
Print Assumptions C17_model_no_truncation.

(* ================================================================ BufferedIOBaseWrapper *)

(* BufferedIOBaseWrapper over a non-seekable source: every history of read/seek/protect is
   accepted by the reference stream = the source; afterwards everything taken from the
   source and not yet returned is still stored, in order (nothing lost, even at the tail),
   and tell() is the true offset. *)
Theorem C17_bufferedio_fidelity : forall size head prot len w ops,
  1 <= head -> init size head prot len = Some w -> Forall (applicable KBio) ops ->
  let tr := trace KBio ops w in
  let w' := run_state KBio ops w in
  let c := spec_cursor len 0 tr in
  wrap_spec len 0 tr /\
  b_pos (w_buf w') = c /\
  bytes_of (unread (w_buf w')) = nseq c (w_cur w' - c) /\ c <= w_cur w' /\ w_cur w' <= len.
Proof.
  intros size head prot len w ops H1 Hi Hap. cbv zeta.
  destruct (sinv_init _ _ _ _ _ H1 Hi) as (_ & Hb & Hl).
  destruct (histories KBio bio_inv (fun _ _ => True) bio_step_ok ops 0 w Hb Hap (chain_true _ _ _))
    as (T1 & T2 & T3).
  rewrite Hl in *. split; [exact T1|]. destruct (bio_inv_unread _ _ T2) as (U1 & U2 & U3).
  destruct T2 as [_ T2]. rewrite T3 in U3. auto.
Qed.
Print Assumptions C17_bufferedio_fidelity.

(* The same through the miniaudio adapter StreamableIOBaseWrapper (True/False seek result,
   code after ff5b434). *)
Theorem C17_streamable_io_fidelity : forall size head prot len w ops,
  1 <= head -> init size head prot len = Some w -> Forall (applicable KSio) ops ->
  let tr := trace KSio ops w in
  let w' := run_state KSio ops w in
  let c := spec_cursor len 0 tr in
  wrap_spec len 0 tr /\
  bytes_of (unread (w_buf w')) = nseq c (w_cur w' - c) /\ c <= w_cur w' /\ w_cur w' <= len.
Proof.
  intros size head prot len w ops H1 Hi Hap. cbv zeta.
  destruct (sinv_init _ _ _ _ _ H1 Hi) as (_ & Hb & Hl).
  destruct (histories KSio bio_inv (fun _ _ => True) sio_step_ok ops 0 w Hb Hap (chain_true _ _ _))
    as (T1 & T2 & T3).
  rewrite Hl in *. split; [exact T1|]. destruct (bio_inv_unread _ _ T2) as (U1 & U2 & U3).
  rewrite T3 in U3. auto.
Qed.
Print Assumptions C17_streamable_io_fidelity.

(* End of stream is reported honestly: a read of n > 0 bytes that returns nothing means the
   source is exhausted at the cursor, or the documented limitation applies (headroom
   protected and the buffer full). *)
Theorem C17_bufferedio_eof_honest : forall n cap w,
  winv w -> 0 < n -> cap <> Some 0 ->
  dlen (fst (bio_read (Some n) cap w)) = 0 ->
  b_pos (w_buf w) = w_len w \/ (b_prot (w_buf w) = true /\ buf_remaining (w_buf w) = 0).
Proof. exact bio_progress. Qed.
Print Assumptions C17_bufferedio_eof_honest.

(* Metadata probing (get_buffered_io_metadata) on a BufferedIOBaseWrapper, for EVERY tag parser
   (any sequence of reads and seeks of any origin on the file object):
   - if the stream cannot be rewound, nothing at all happens (no byte is consumed) and no
     metadata is returned;
   - otherwise the stream-fidelity invariant still holds afterwards (nothing lost, position
     honest), and with a protected headroom - the way the library probes - the position is
     the one before the probe, or 0 when that one lies beyond the headroom. *)
Theorem C17_probe_bufferedio : forall script w,
  winv w -> Forall (applicable KBio) script -> Forall no_protect script ->
  let '(ran, w') := io_probe KBio script w in
  winv w' /\ w_len w' = w_len w /\
  (ran = false -> w' = w) /\
  (ran = true -> b_prot (w_buf w) = true ->
     b_pos (w_buf w') = b_pos (w_buf w) \/ b_pos (w_buf w') = 0).
Proof. exact probe_bufferedio. Qed.
Print Assumptions C17_probe_bufferedio.

(* Past the headroom of an unprotected buffer the rewind is refused: the probe is a no-op
   (8 bytes buffer, headroom 4, six bytes read; the parser would read 4 bytes). *)
Example C17_ex_probe_past_headroom :
  exists w, init 8 4 false 40 = Some w /\
  let w6 := run_state KBio [ORead (Some 6) None] w in
  b_pos (w_buf w6) = 6 /\
  io_probe KBio [OSeekX 0 2; OSeek 0 true; ORead (Some 4) None] w6 = (false, w6).
Proof. eexists. split; [reflexivity|]. vm_compute. split; reflexivity. Qed.

(* ================================================================ StreamReaderWrapper *)

(* StreamReaderWrapper._read_from_source(n) (bdf53a0) absorbs the short reads of the
   StreamReader: whatever the limits of the individual reader.read() calls are (each delivers at
   least one byte while the source has data), the loop returns min(n, what the source has left) -
   which is what the model's [src_amount_g true] uses. *)
Theorem C17_read_from_source_absorbs_short_reads : forall caps n cap w,
  (forall c, In (Some c) caps -> 1 <= c) -> cap <> Some 0 ->
  read_loop caps n (w_len w - w_cur w) 0 = N.min n (w_len w - w_cur w) /\
  src_amount_g true (Some n) cap w = N.min n (w_len w - w_cur w).
Proof.
  intros caps n cap w Hc Hcap. split.
  - rewrite read_loop_total by (auto; lia). rewrite N.sub_0_r. reflexivity.
  - unfold src_amount_g. destruct cap as [c|]; [|reflexivity].
    replace (c =? 0) with false; [reflexivity|]. symmetry. apply N.eqb_neq. congruence.
Qed.
Print Assumptions C17_read_from_source_absorbs_short_reads.

(* StreamReaderWrapper over a source that may deliver short reads on every call ([cap] of each
   ORead): accepted by the reference for every history in which every seek that
   reports success is made while the wrapper is in sync - i.e. not after a read that
   bypassed the drained buffer (finding C17:streamreader:bypass-stale-position).  The
   no-loss state invariant holds at the end. *)
Theorem C17_streamreader_fidelity : forall size head prot len w ops,
  1 <= head -> init size head prot len = Some w -> Forall (applicable KSrw) ops ->
  seeks_in_sync KSrw ops w ->
  let tr := trace KSrw ops w in
  let w' := run_state KSrw ops w in
  let c := spec_cursor len 0 tr in
  wrap_spec len 0 tr /\
  bytes_of (unread (w_buf w')) = nseq c (w_cur w' - c) /\ c <= w_cur w' /\ w_cur w' <= len.
Proof.
  intros size head prot len w ops H1 Hi Hap Hsync. cbv zeta.
  destruct (sinv_init _ _ _ _ _ H1 Hi) as (Hs & _ & Hl).
  apply chain_sync in Hsync.
  destruct (histories KSrw sinv (sync_cond KSrw) srw_step_ok ops 0 w Hs Hap Hsync) as (T1 & T2 & T3).
  rewrite Hl in *. split; [exact T1|]. destruct (sinv_unread _ _ T2) as (U1 & U2 & U3).
  rewrite T3 in U3. auto.
Qed.
Print Assumptions C17_streamreader_fidelity.

(* Without the side condition the statement is false for the code as it stands: buffer size
   2, headroom 2, protected; read 4; read 4 (bypass); seek 2 -> True; read 1 returns source
   offset 6 instead of 2. *)
Theorem C17_streamreader_bypass_refuted :
  exists size head prot len w ops,
    1 <= head /\ init size head prot len = Some w /\ Forall (applicable KSrw) ops /\
    ~ wrap_spec len 0 (trace KSrw ops w) /\
    trace KSrw ops w =
      [(ORead (Some 4) None, RData [(0, 2)]); (ORead (Some 4) None, RData [(2, 4)]);
       (OSeek 2 true, RBool true); (ORead (Some 1) None, RData [(6, 1)])].
Proof.
  exists 2, 2, true, 16, (mkw (mkbuf [] 2 2 0 true true) 0 16),
    [ORead (Some 4) None; ORead (Some 4) None; OSeek 2 true; ORead (Some 1) None].
  split; [lia|]. split; [reflexivity|]. split; [repeat constructor|]. split; [|reflexivity].
  vm_compute. intros (_ & _ & (H & _) & _). discriminate H.
Qed.
Print Assumptions C17_streamreader_bypass_refuted.

(* The side condition is exactly about that witness class: it fails on the witness. *)
Theorem C17_streamreader_side_condition_excludes_witness :
  ~ seeks_in_sync KSrw [ORead (Some 4) None; ORead (Some 4) None; OSeek 2 true; ORead (Some 1) None]
      (mkw (mkbuf [] 2 2 0 true true) 0 16).
Proof.
  vm_compute. intros (_ & _ & H & _). specialize (H eq_refl). discriminate H.
Qed.
Print Assumptions C17_streamreader_side_condition_excludes_witness.

(* The metadata-facing StreamableSourceWrapper over StreamReaderWrapper (io-style seek). *)
Theorem C17_streamable_source_fidelity : forall size head prot len w ops,
  1 <= head -> init size head prot len = Some w -> Forall (applicable KSsw) ops ->
  seeks_in_sync KSsw ops w ->
  let tr := trace KSsw ops w in
  let w' := run_state KSsw ops w in
  let c := spec_cursor len 0 tr in
  wrap_spec len 0 tr /\
  bytes_of (unread (w_buf w')) = nseq c (w_cur w' - c) /\ c <= w_cur w' /\ w_cur w' <= len.
Proof.
  intros size head prot len w ops H1 Hi Hap Hsync. cbv zeta.
  destruct (sinv_init _ _ _ _ _ H1 Hi) as (Hs & _ & Hl).
  apply chain_sync in Hsync.
  destruct (histories KSsw sinv (sync_cond KSsw) ssw_step_ok ops 0 w Hs Hap Hsync) as (T1 & T2 & T3).
  rewrite Hl in *. split; [exact T1|]. destruct (sinv_unread _ _ T2) as (U1 & U2 & U3).
  rewrite T3 in U3. auto.
Qed.
Print Assumptions C17_streamable_source_fidelity.

Theorem C17_streamreader_eof_honest : forall c n cap w,
  sinv c w -> 0 < n -> cap <> Some 0 ->
  dlen (fst (srw_read (Some n) cap w)) = 0 ->
  c = w_len w \/ (b_prot (w_buf w) = true /\ buf_remaining (w_buf w) = 0).
Proof. exact srw_progress. Qed.
Print Assumptions C17_streamreader_eof_honest.

(* ================================================================ PatchedIceCastClient *)

(* HTTP client: for every interleaving of download iterations with read/seek/protect, if
   every chunk a download iteration obtains is at most the BLOCK_SIZE that fits() checked,
   the reader's history is accepted by the reference and nothing downloaded is lost. *)
Theorem C17_icecast_fidelity : forall block size head prot len w ops,
  1 <= head -> init size head prot len = Some w -> chunks_within block ops ->
  let tr := ice_trace block ops w in
  let w' := ice_state block ops w in
  let c := spec_cursor len 0 tr in
  wrap_spec len 0 tr /\
  b_pos (w_buf w') = c /\
  bytes_of (unread (w_buf w')) = nseq c (w_cur w' - c) /\ c <= w_cur w'.
Proof.
  intros block size head prot len w ops H1 Hi Hch. cbv zeta.
  destruct (winv_new _ _ _ _ _ H1 Hi) as (Hw & Hl & Hp).
  destruct (ice_histories block ops w Hw Hch) as (T1 & T2 & T3).
  rewrite Hl, Hp in *. split; [exact T1|]. split; [exact T3|].
  rewrite <- T3. split; [exact (winv_unread _ T2)|]. destruct (winv_pos _ T2). lia.
Qed.
Print Assumptions C17_icecast_fidelity.

(* With icy-metaint larger than BLOCK_SIZE the chunk is larger than the room that was checked
   and add() silently stores a prefix (finding C17:icecast:chunk-larger-than-checked-room):
   BLOCK_SIZE 2, buffer (4,1), meta interval 3. *)
Theorem C17_icecast_large_chunk_refuted :
  exists block size head prot len w ops,
    1 <= head /\ init size head prot len = Some w /\
    ~ wrap_spec len 0 (ice_trace block ops w) /\
    ice_trace block ops w =
      [(ORead (Some 1) None, RData [(0, 1)]); (ORead (Some 4) None, RData [(1, 2); (3, 2)]);
       (ORead (Some 3) None, RData [(6, 3)])].
Proof.
  exists 2, 4, 1, false, 100, (mkw (mkbuf [] 4 1 0 true false) 0 100),
    [IDownload 3; IRead 1; IDownload 3; IRead 4; IDownload 3; IRead 3].
  split; [lia|]. split; [reflexivity|]. split; [|reflexivity].
  vm_compute. intros (_ & _ & (H & _) & _). discriminate H.
Qed.
Print Assumptions C17_icecast_large_chunk_refuted.

(* ---------------------------------------------------------------- the producer side in detail *)

(* _download_stream without icy-metaint, for EVERY pattern of short reads of the HTTP body (one
   byte, n-1 bytes, exact; empty only at the real end) and every interleaving with the
   reader: the reader's history is accepted by the reference whose stream is the body; what
   was read from the body and not delivered is stored; the unread rest of the body is intact;
   the end is signalled only when the whole body has been read (a short non-empty read is
   not the end) and the loop never gets stuck. *)
Theorem C17_icecast_plain_body_fidelity : forall block size head prot audio caps b ops,
  1 <= head -> 1 <= block -> buf_new size head prot = Some b ->
  let s0 := mki b [(0, audio)] caps 0 false false in
  let tr := ice2_trace block 0 ops s0 in
  let s' := ice2_state block 0 ops s0 in
  let c := spec_cursor audio 0 tr in
  wrap_spec audio 0 tr /\
  b_pos (i_buf s') = c /\
  bytes_of (unread (i_buf s')) = nseq c (i_taken s' - c) /\ c <= i_taken s' /\
  bytes_of (i_body s') = nseq (i_taken s') (audio - i_taken s') /\
  (i_stop s' = true -> i_taken s' = audio) /\
  i_spin s' = false.
Proof.
  intros block size head prot audio caps b ops H1 Hbl Hn. cbv zeta.
  set (s0 := mki b [(0, audio)] caps 0 false false).
  pose proof (binv_new _ _ _ _ H1 Hn) as Hb.
  assert (P0 : b_pos b = 0).
  { unfold buf_new in Hn. destruct (size <? head); [discriminate|]. now inversion Hn. }
  assert (Hi : plain_inv audio 0 s0).
  { unfold plain_inv, s0. cbn [i_taken i_body i_spin i_stop dlen bytes_of].
    rewrite app_nil_r, N.add_0_r. repeat split; try reflexivity. discriminate. }
  assert (Hw : winv (bw s0 0 audio)).
  { unfold winv, bw, s0. cbn [w_buf w_cur w_len i_buf]. split; [exact Hb | lia]. }
  assert (Ibuf : forall a s s', plain_inv audio a s -> i_body s' = i_body s -> i_caps s' = i_caps s ->
                 i_taken s' = i_taken s -> i_stop s' = i_stop s -> i_spin s' = i_spin s -> plain_inv audio a s').
  { intros a s s' Hp E1 E2 E3 E4 E5. unfold plain_inv in *. rewrite E1, E3, E4, E5. exact Hp. }
  destruct (ice2_histories block 0 audio (plain_inv audio) Ibuf
              (fun a s Hp Hq => plain_download block audio a s Hbl Hp Hq)
              ops 0 s0 Hi Hw) as (T1 & (a' & (Ea & Tb & Tt & Tspin & Tstop) & Tw) & T3).
  change (b_pos (i_buf s0)) with (b_pos b) in T1, T3. rewrite P0 in T1, T3.
  split; [exact T1|]. split; [exact T3|]. subst a'.
  pose proof (winv_unread _ Tw) as U. destruct (winv_pos _ Tw) as [_ U2].
  cbn [bw w_buf w_cur] in U, U2. rewrite T3 in U, U2.
  split; [exact U|]. split; [exact U2|].
  split; [rewrite Tb; f_equal; lia|]. split; [|exact Tspin].
  intro Hs. specialize (Tstop Hs). lia.
Qed.
Print Assumptions C17_icecast_plain_body_fidelity.

(* ... and once the body has been read completely, the next turn of the loop signals it. *)
Theorem C17_icecast_plain_end_signalled : forall block s,
  i_stop s = false -> i_spin s = false -> buf_fits block (i_buf s) = true -> dlen (i_body s) = 0 ->
  i_stop (ice2_download block 0 s) = true.
Proof. exact plain_end_signalled. Qed.
Print Assumptions C17_icecast_plain_end_signalled.

(* With icy-metaint m <= BLOCK_SIZE, EXACT reads and a body made of complete frames (m audio
   bytes, a length byte l < 1000, 16*l metadata bytes; empty and non-empty blocks): for every
   interleaving the reader's history is accepted by the reference whose stream is the audio
   alone - no length or metadata byte ever reaches the reader, no audio byte is lost - and
   the unread rest of the body is again a sequence of complete frames. *)
Theorem C17_icecast_icy_exact_fidelity : forall block m size head prot ls b ops,
  1 <= head -> 1 <= m -> m <= block -> Forall (fun l => l < 1000) ls ->
  buf_new size head prot = Some b ->
  let total := m * N.of_nat (length ls) in
  let s0 := mki b (icy_body m 0 ls) [] 0 false false in
  let tr := ice2_trace block m ops s0 in
  let s' := ice2_state block m ops s0 in
  let c := spec_cursor total 0 tr in
  wrap_spec total 0 tr /\
  b_pos (i_buf s') = c /\
  exists a ls',
    bytes_of (unread (i_buf s')) = nseq c (a - c) /\ c <= a /\
    bytes_of (i_body s') = bytes_of (icy_body m a ls') /\
    a + m * N.of_nat (length ls') = total /\ i_stop s' = false.
Proof.
  intros block m size head prot ls b ops H1 Hm Hmb Hls Hn. cbv zeta.
  set (total := m * N.of_nat (length ls)). set (s0 := mki b (icy_body m 0 ls) [] 0 false false).
  pose proof (binv_new _ _ _ _ H1 Hn) as Hb.
  assert (P0 : b_pos b = 0).
  { unfold buf_new in Hn. destruct (size <? head); [discriminate|]. now inversion Hn. }
  assert (Hi : icy_inv m total 0 s0).
  { exists ls. unfold s0. cbn [i_caps i_stop i_body]. repeat split; auto. }
  assert (Hw : winv (bw s0 0 total)).
  { unfold winv, bw, s0. cbn [w_buf w_cur w_len i_buf]. split; [exact Hb | lia]. }
  assert (Ibuf : forall a s s', icy_inv m total a s -> i_body s' = i_body s -> i_caps s' = i_caps s ->
                 i_taken s' = i_taken s -> i_stop s' = i_stop s -> i_spin s' = i_spin s -> icy_inv m total a s').
  { intros a s s' Hp E1 E2 E3 E4 E5. unfold icy_inv in *. rewrite E1, E2, E4. exact Hp. }
  destruct (ice2_histories block m total (icy_inv m total) Ibuf
              (fun a s Hp Hq => icy_download block m total a s Hm Hmb Hp Hq)
              ops 0 s0 Hi Hw) as (T1 & (a' & (ls' & Tc & Tstop & Tb & _ & Ttot) & Tw) & T3).
  change (b_pos (i_buf s0)) with (b_pos b) in T1, T3. rewrite P0 in T1, T3.
  split; [exact T1|]. split; [exact T3|]. exists a', ls'.
  pose proof (winv_unread _ Tw) as U. destruct (winv_pos _ Tw) as [_ U2].
  cbn [bw w_buf w_cur] in U, U2. rewrite T3 in U, U2. auto.
Qed.
Print Assumptions C17_icecast_icy_exact_fidelity.

(* The two side conditions are needed for the code as it stands.
   (a) End of the body (finding C17:icecast:end-of-body-spins-tail-lost): icy-metaint 5, 17
   audio bytes: after three frames _readall(5) gets the last 2 audio bytes and then reads b""
   for ever: the loop is stuck, the end is never signalled, the reader gets 15 of 17 bytes. *)
Theorem C17_icecast_icy_end_spins_refuted :
  exists block m b body ops,
    let s' := ice2_state block m ops (mki b body [] 0 false false) in
    bytes_of body = nseq 0 5 ++ [1000] ++ nseq 5 5 ++ [1001] ++ nseq 2000 16 ++ nseq 10 5 ++ [1000] ++ nseq 15 2 /\
    i_spin s' = true /\ i_stop s' = false /\ i_body s' = [] /\ buf_size (i_buf s') = 0 /\
    ice2_trace block m ops (mki b body [] 0 false false) = [(ORead (Some 64) None, RData [(0, 5); (5, 5); (10, 5)])].
Proof.
  exists 8, 5, (mkbuf [] 64 32 0 true false),
    [(0, 5); (1000, 1); (5, 5); (1001, 1); (2000, 16); (10, 5); (1000, 1); (15, 2)],
    [IDownload 0; IDownload 0; IDownload 0; IDownload 0; IRead 64].
  vm_compute. repeat split; reflexivity.
Qed.
Print Assumptions C17_icecast_icy_end_spins_refuted.

(* (b) Short read (finding C17:icecast:readall-overreads-on-short-read): icy-metaint 2, the first
   raw.read(2) returns 1 byte: _readall asks for 2 bytes again and returns 3 - the length
   byte is add()ed as audio and reaches the reader. *)
Theorem C17_icecast_icy_short_read_refuted :
  exists block m b ls cap ops d,
    Forall (fun l => l < 1000) ls /\ 1 <= m /\ m <= block /\
    let s0 := mki b (icy_body m 0 ls) [cap] 0 false false in
    ice2_trace block m ops s0 = [(ORead (Some 3) None, RData d)] /\
    bytes_of d = [0; 1; 1000] /\
    ~ wrap_spec (m * N.of_nat (length ls)) 0 (ice2_trace block m ops s0).
Proof.
  exists 4, 2, (mkbuf [] 64 32 0 true false), (repeat 0 150), (Some 1), [IDownload 0; IRead 3],
    [(0, 1); (1, 1); (1000, 1)].
  split; [apply Forall_forall; intros x Hx; apply repeat_spec in Hx; subst x; lia|].
  split; [lia|]. split; [lia|]. cbv zeta.
  assert (E : ice2_trace 4 2 [IDownload 0; IRead 3]
                (mki (mkbuf [] 64 32 0 true false) (icy_body 2 0 (repeat 0 150)) [Some 1] 0 false false)
              = [(ORead (Some 3) None, RData [(0, 1); (1, 1); (1000, 1)])]) by (vm_compute; reflexivity).
  rewrite E. split; [reflexivity|]. split; [reflexivity|].
  cbn [wrap_spec]. unfold read_ok. intros ((H & _) & _). vm_compute in H. discriminate H.
Qed.
Print Assumptions C17_icecast_icy_short_read_refuted.

(* ---------------------------------------------------------------- two threads on one buffer *)

(* The three accesses add() makes to the shared attribute, run without anything in between
   (which is what holding _buffer_lock on both sides guarantees), are the sequential add(). *)
Theorem C17_add_steps_atomic : forall d b,
  buf_add d b = (add_room d b, add_store (add_load b) (add_room d b) d b).
Proof. reflexivity. Qed.
Print Assumptions C17_add_steps_atomic.

(* seek() does not take the lock in PatchedIceCastClient - and need not: a seek that runs at any
   point between add()'s accesses gives exactly the serial outcome "seek, then add" (seek
   writes only the position, add never reads it, and add only makes the buffer longer). *)
Theorem C17_seek_inside_add_is_serial : forall d b p,
  let '(r, b1) := buf_seek p b in
  buf_add d b1 = (add_room d b, add_store (add_load b) (add_room d b) d b1).
Proof.
  intros d b p. unfold buf_seek.
  destruct (p =? b_pos b); [reflexivity|].
  destruct (negb (b_hr b)); [reflexivity|].
  destruct (b_head b <=? p); [reflexivity|].
  destruct (N.min (b_head b) (dlen (b_buf b)) <=? p); reflexivity.
Qed.
Print Assumptions C17_seek_inside_add_is_serial.

(* get() must be excluded: if a get() that trims the buffer runs between add()'s load and
   store, the store puts the trimmed bytes back and the next get() delivers them a second
   time - from a state that satisfies the invariant, so no serial order explains it.
   Schedule: loop loads _buffer; reader get(2) -> bytes 1,2; loop stores; reader get(2) -> 1,2. *)
Theorem C17_unlocked_get_inside_add_refuted :
  exists acc b d n,
    binv acc b /\
    let room := add_room d b in
    let old := add_load b in
    let '(r1, b1) := buf_get n b in
    let b2 := add_store old room d b1 in
    let '(r2, _) := buf_get n b2 in
    bytes_of r1 = [1; 2] /\ bytes_of r2 = [1; 2] /\
    (* both serial orders deliver 1,2 and then 3,4 *)
    bytes_of (fst (buf_get n (snd (buf_add d b1)))) = [3; 4] /\
    bytes_of (fst (buf_get n (snd (buf_get n (snd (buf_add d b)))))) = [3; 4].
Proof.
  exists [0; 1; 2; 3], (mkbuf [(1, 3)] 8 1 1 false false), [(4, 2)], 2.
  split.
  - unfold binv; simpl. repeat split; try lia; reflexivity.
  - vm_compute. repeat split; reflexivity.
Qed.
Print Assumptions C17_unlocked_get_inside_add_refuted.

(* ================================================================ adequacy of the comparison *)

(* The comparison used by the correspondence run (canonical forms) identifies only byte
   strings with the same meaning. *)
Theorem C17_data_eqb_sound : forall a b, data_eqb a b = true -> bytes_of a = bytes_of b.
Proof. exact data_eqb_sound. Qed.
Print Assumptions C17_data_eqb_sound.

(* ================================================================ non-vacuity *)

(* production sizes, a history with a rewind and an un-protect, evaluated in the model *)
Example C17_ex_production :
  exists w, init 65536 32768 true 200000 = Some w /\
  let ops := [ORead (Some 40000) None; OSeek 0 true; OProt false; ORead (Some 50000) (Some 1000);
              ORead (Some 50000) None; ORead (Some 70000) None] in
  Forall (applicable KSrw) ops /\ seeks_in_sync KSrw ops w /\
  map snd (trace KSrw ops w) =
    [RData [(0, 40000)]; RBool true; RNone; RData [(0, 40000); (40000, 10000)];
     RData [(50000, 15536); (65536, 34464)]; RData [(100000, 15536); (115536, 50000)]].
Proof.
  eexists. split; [reflexivity|]. cbv zeta. split; [repeat constructor|]. split.
  - vm_compute. repeat split; intros _; reflexivity.
  - vm_compute. reflexivity.
Qed.

Example C17_ex_binv : binv [7; 8; 9; 10] (mkbuf [(9, 2)] 8 2 2 false false).
Proof. unfold binv; simpl. repeat split; try lia; reflexivity. Qed.

(* seeks with negative offsets and CURRENT/END origins in a history that meets the side conditions *)
Example C17_ex_whence :
  exists w, init 8 4 true 32 = Some w /\
  let ops := [ORead (Some 4) None; OSeekX (-10) 1; OSeekX (-3) 0; OSeekX (-1) 2; OSeek 1 true; ORead (Some 2) None] in
  Forall (applicable KSsw) ops /\ seeks_in_sync KSsw ops w /\
  map snd (trace KSsw ops w) = [RData [(0, 4)]; RNum 4; RNum 4; RNum 4; RNum 1; RData [(1, 2)]].
Proof.
  eexists. split; [reflexivity|]. cbv zeta. split.
  - apply Forall_cons; [exact I|]. apply Forall_cons; [left; discriminate|].
    apply Forall_cons; [right; reflexivity|]. apply Forall_cons; [left; discriminate|].
    apply Forall_cons; [exact I|]. apply Forall_cons; [exact I|]. constructor.
  - split; [vm_compute; repeat split; try reflexivity; intros _; reflexivity | vm_compute; reflexivity].
Qed.
