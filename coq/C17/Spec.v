(* C17 - the property as a reference byte stream with a read cursor.

   [bytes_of] is the meaning of a run-length encoded byte string.  The reference knows
   only the stream and a cursor; an observed history (operation, result) is ACCEPTED when

     - every read returns bytes that follow the cursor, in order, without gap or repeat
       (any amount up to the request; for the bare buffer exactly what is available),
     - a seek that reports success puts the cursor at the requested offset,
     - a seek that reports failure leaves the cursor where it was,
     - nothing else moves the cursor.

   Loss shows up as a gap at the next read, duplication as a repeat, a dishonest seek as
   wrong bytes at the next read; loss at the very end of the stream is covered by the
   separate state invariants ("what was taken from the source and not yet returned is
   still stored") in Properties.v. *)
From Coq Require Import List NArith ZArith.
From PV Require Import C17.Model.
Import ListNotations.
Local Open Scope N_scope.

Fixpoint nseq_nat (o : N) (n : nat) : list N :=
  match n with O => [] | S n' => o :: nseq_nat (o + 1) n' end.

(* the bytes o, o+1, ..., o+l-1 *)
Definition nseq (o l : N) : list N := nseq_nat o (N.to_nat l).

Fixpoint bytes_of (d : data) : list N :=
  match d with [] => [] | (o, l) :: t => nseq o l ++ bytes_of t end.

Definition ntake (n : N) (l : list N) := firstn (N.to_nat n) l.
Definition nskip (n : N) (l : list N) := skipn (N.to_nat n) l.
(* Python s[c:c+n] *)
Definition slice (s : list N) (c n : N) := ntake n (nskip c s).

(* operations with their results, as seen by the caller *)
Fixpoint trace (k : kind) (ops : list op) (w : wst) : list (op * res) :=
  match ops with
  | [] => []
  | o :: t => let '(r, w') := step k o w in (o, r) :: trace k t w'
  end.

(* which operations exist for which object *)
Definition applicable (k : kind) (o : op) : Prop :=
  match k, o with
  | KBuf, (OAdd _ | OGet _ | OFits _ | OProt _) => True
  | KBuf, OSeek _ st => st = true
  | KBuf, ORead _ _ => False
  (* OSeekX carries the seeks OSeek cannot express: a negative offset, or a whence other than START *)
  | KBuf, OSeekX p wh => (p < 0)%Z /\ wh = 0
  | (KBio | KSsw), OSeekX p wh => wh <> 0 \/ (p < 0)%Z
  | (KSrw | KSio), OSeekX p wh => wh = 1 \/ (wh = 0 /\ (p < 0)%Z)
  | _, (OSeek _ _ | OProt _ | ORead _ _) => True
  | _, _ => False
  end.

(* ---- the bare buffer: the stream is what add() accepted so far *)
Fixpoint buf_spec (s : list N) (c : N) (tr : list (op * res)) : Prop :=
  match tr with
  | [] => True
  | (OAdd d, RNum k) :: t => k <= dlen d /\ buf_spec (s ++ ntake k (bytes_of d)) c t
  | (OGet n, RData d) :: t => bytes_of d = slice s c n /\ buf_spec s (c + dlen d) t
  | (OSeek p true, RBool true) :: t => buf_spec s p t
  | (OSeek p true, RBool false) :: t => buf_spec s c t
  | (OSeekX p 0, RBool true) :: t => (0 <= p)%Z /\ buf_spec s (Z.to_N p) t
  | (OSeekX p 0, RBool false) :: t => buf_spec s c t
  | (OProt _, RNone) :: t | (OProt _, RRaise) :: t | (OFits _, RBool _) :: t => buf_spec s c t
  | _ => False
  end.

(* ---- a wrapper over the identity source of length len *)
Definition read_ok (len c : N) (n : option N) (d : data) : Prop :=
  bytes_of d = nseq c (dlen d) /\ c + dlen d <= len /\
  match n with Some n => dlen d <= n | None => True end.

Definition seek_target (c p : N) (start : bool) : N := if start then p else c + p.

(* the absolute offset a seek(p, whence) asks for; it may be negative *)
Definition seek_target_z (len c : N) (p : Z) (wh : N) : Z :=
  if wh =? 0 then p else if wh =? 1 then (Z.of_N c + p)%Z else (Z.of_N len + p)%Z.

Fixpoint wrap_spec (len : N) (c : N) (tr : list (op * res)) : Prop :=
  match tr with
  | [] => True
  | (ORead n _, RData d) :: t => read_ok len c n d /\ wrap_spec len (c + dlen d) t
  (* miniaudio style: True/False *)
  | (OSeek p st, RBool true) :: t => wrap_spec len (seek_target c p st) t
  | (OSeek p st, RBool false) :: t => wrap_spec len c t
  (* io style: the new position is returned; success = it is the requested one *)
  | (OSeek p st, RNum r) :: t =>
      wrap_spec len (if r =? seek_target c p st then r else c) t
  (* any integer offset, any whence: success is possible only for an offset >= 0 *)
  | (OSeekX p wh, RBool true) :: t =>
      (0 <= seek_target_z len c p wh)%Z /\ wrap_spec len (Z.to_N (seek_target_z len c p wh)) t
  | (OSeekX p wh, RBool false) :: t => wrap_spec len c t
  | (OSeekX p wh, RNum r) :: t =>
      wrap_spec len (if (Z.of_N r =? seek_target_z len c p wh)%Z then r else c) t
  | (OProt _, RNone) :: t | (OProt _, RRaise) :: t => wrap_spec len c t
  | _ => False
  end.

(* unread part of the buffer *)
Definition unread (b : sbuf) : data :=
  if b_hr b then ddrop (b_pos b) (b_buf b) else b_buf b.

(* the cursor of the reference after an accepted history *)
Fixpoint spec_cursor (len c : N) (tr : list (op * res)) : N :=
  match tr with
  | [] => c
  | (ORead _ _, RData d) :: t | (OGet _, RData d) :: t => spec_cursor len (c + dlen d) t
  | (OSeek p st, RBool true) :: t => spec_cursor len (seek_target c p st) t
  | (OSeek p st, RNum r) :: t => spec_cursor len (if r =? seek_target c p st then r else c) t
  | (OSeekX p wh, RBool true) :: t => spec_cursor len (Z.to_N (seek_target_z len c p wh)) t
  | (OSeekX p wh, RNum r) :: t =>
      spec_cursor len (if (Z.of_N r =? seek_target_z len c p wh)%Z then r else c) t
  | _ :: t => spec_cursor len c t
  end.

(* the stream accepted by add() after a history (bare buffer) *)
Fixpoint spec_stream (s : list N) (tr : list (op * res)) : list N :=
  match tr with
  | [] => s
  | (OAdd d, RNum k) :: t => spec_stream (s ++ ntake k (bytes_of d)) t
  | _ :: t => spec_stream s t
  end.

(* "bytes taken from the reader = position + unread bytes stored": false from the moment a
   StreamReaderWrapper.read has bypassed the buffer and returned data *)
Definition synced (w : wst) : bool :=
  w_cur w =? b_pos (w_buf w) + buf_size (w_buf w).

(* side condition for StreamReaderWrapper: a seek that reports success is made only while
   the wrapper is in sync (i.e. no successful seek after a bypassing read) *)
Fixpoint seeks_in_sync (k : kind) (ops : list op) (w : wst) : Prop :=
  match ops with
  | [] => True
  | o :: t =>
      match o with
      | OSeek p true => fst (buf_seek p (w_buf w)) = true -> synced w = true
      (* io-style result of StreamableSourceWrapper: a relative seek "succeeds" when the (possibly stale)
         position happens to be the requested offset *)
      | OSeekX p wh => match k with KSsw => synced w = true | _ => True end
      | _ => True
      end /\ seeks_in_sync k t (snd (step k o w))
  end.

(* PatchedIceCastClient as seen by its reader: downloads are not observable *)
Definition iop_op (o : iop) : option op :=
  match o with
  | IDownload _ => None
  | IRead n => Some (ORead (Some n) None)
  | ISeek p => Some (OSeek p true)
  | IProt v => Some (OProt v)
  end.

Fixpoint ice_trace (block : N) (ops : list iop) (w : wst) : list (op * res) :=
  match ops with
  | [] => []
  | o :: t =>
      let '(r, w') := ice_step block o w in
      match iop_op o with
      | Some o' => (o', r) :: ice_trace block t w'
      | None => ice_trace block t w'
      end
  end.

Fixpoint ice_state (block : N) (ops : list iop) (w : wst) : wst :=
  match ops with
  | [] => w
  | o :: t => ice_state block t (snd (ice_step block o w))
  end.

(* every chunk obtained by one download iteration is at most the block that fits() checked *)
Definition chunks_within (block : N) (ops : list iop) : Prop :=
  forall c, In (IDownload c) ops -> c <= block.

(* ---- the producer side of PatchedIceCastClient in detail *)

Fixpoint ice2_trace (block meta : N) (ops : list iop) (s : ist) : list (op * res) :=
  match ops with
  | [] => []
  | o :: t =>
      let '(r, s') := ice2_step block meta o s in
      match iop_op o with
      | Some o' => (o', r) :: ice2_trace block meta t s'
      | None => ice2_trace block meta t s'
      end
  end.

Fixpoint ice2_state (block meta : N) (ops : list iop) (s : ist) : ist :=
  match ops with
  | [] => s
  | o :: t => ice2_state block meta t (snd (ice2_step block meta o s))
  end.

(* a well-formed ICY body: complete frames of m audio bytes (offsets o, o+1, ..), a length byte
   l and a metadata block of 16*l bytes *)
Fixpoint icy_body (m o : N) (ls : list N) : data :=
  match ls with
  | [] => []
  | l :: t => (o, m) :: (1000 + l, 1) :: (2000, 16 * l) :: icy_body m (o + m) t
  end.

(* ---- metadata probing: get_buffered_io_metadata on an io-style wrapper (BufferedIOBaseWrapper,
   StreamableSourceWrapper).  [script] is what the tag parser does with the file object - any reads
   and seeks; the helper itself is

       before = buffer.tell()
       if buffer.seek(0) != 0: return EMPTY_METADATA
       try:     return await get_metadata(buffer)
       finally: buffer.seek(0); buffer.seek(before)                                        *)
Definition io_probe (k : kind) (script : list op) (w : wst) : bool * wst :=
  let before := b_pos (w_buf w) in
  let '(r0, w0) := step k (OSeek 0 true) w in
  match r0 with
  | RNum 0 =>
      let w1 := run_state k script w0 in
      let w2 := snd (step k (OSeek 0 true) w1) in
      (true, snd (step k (OSeek before true) w2))
  | _ => (false, w0)
  end.

Definition no_protect (o : op) : Prop := match o with OProt _ => False | _ => True end.
