(* C17 - metadata probing leaves the stream where it was. *)
From Coq Require Import List Bool NArith ZArith Arith Lia.
From PV Require Import Common.Cases C17.Model C17.Spec C17.ProofsData C17.ProofsBuf C17.ProofsWrap.
Import ListNotations.
Local Open Scope N_scope.

(* protection is changed by the setter only; while it is on, the headroom is never discarded *)
Definition same_mode (b b' : sbuf) : Prop :=
  b_prot b' = b_prot b /\ b_head b' = b_head b /\ (b_prot b = true -> b_hr b' = b_hr b).

Lemma same_mode_refl b : same_mode b b.
Proof. unfold same_mode; auto. Qed.

Lemma same_mode_trans a b c : same_mode a b -> same_mode b c -> same_mode a c.
Proof.
  unfold same_mode. intros (A1 & A2 & A3) (B1 & B2 & B3). repeat split; try congruence.
  intro H. rewrite B3 by congruence. auto.
Qed.

Lemma get_mode n b : same_mode b (snd (buf_get n b)).
Proof.
  unfold same_mode, buf_get. destruct (b_prot b) eqn:Ep; cbn [snd b_prot b_hr b_head set_pos]; [auto|].
  destruct (b_hr b); [destruct (b_head b <=? _)|]; cbn [snd b_prot b_hr b_head set_pos]; repeat split; auto; discriminate.
Qed.

Lemma add_mode d b : same_mode b (snd (buf_add d b)).
Proof. unfold same_mode, buf_add, set_buf. cbn. auto. Qed.

Lemma seek_mode p b : same_mode b (snd (buf_seek p b)).
Proof.
  unfold buf_seek. destruct (p =? b_pos b); [apply same_mode_refl|].
  destruct (negb (b_hr b)); [apply same_mode_refl|].
  destruct (b_head b <=? p); [apply same_mode_refl|].
  destruct (N.min (b_head b) (dlen (b_buf b)) <=? p); [apply same_mode_refl|].
  unfold same_mode, set_pos. cbn. auto.
Qed.

Lemma seek_z_mode z b : same_mode b (snd (buf_seek_z z b)).
Proof. unfold buf_seek_z. destruct (z <? 0)%Z; [apply same_mode_refl | apply seek_mode]. Qed.

Lemma bio_read_mode size cap w : same_mode (w_buf w) (w_buf (snd (bio_read size cap w))).
Proof.
  unfold bio_read. destruct size as [[|q]|]; cbn [snd]; try apply same_mode_refl.
  - destruct ((0 <? buf_remaining (w_buf w)) && (buf_size (w_buf w) <? N.pos q)).
    + unfold src_read_g. cbn [with_buf w_buf snd fst].
      match goal with |- context [buf_get ?n ?b] => pose proof (get_mode n b) as G; destruct (buf_get n b) as [d b'] end.
      cbn [snd with_buf w_buf] in *. eapply same_mode_trans; [apply add_mode | exact G].
    + match goal with |- context [buf_get ?n ?b] => pose proof (get_mode n b) as G; destruct (buf_get n b) as [d b'] end.
      cbn [snd with_buf w_buf] in *. exact G.
  - match goal with |- context [buf_get ?n ?b] => pose proof (get_mode n b) as G; destruct (buf_get n b) as [d b'] end.
    cbn [snd with_buf w_buf] in *. exact G.
Qed.

Lemma bio_step_mode o w :
  no_protect o -> same_mode (w_buf w) (w_buf (snd (step KBio o w))).
Proof.
  intro Hn. destruct o as [d|n|n|p st|z wh|v|n cap]; cbn [step snd]; try apply same_mode_refl.
  - unfold bio_seek. destruct st; cbn [snd with_buf w_buf]; [apply seek_mode | apply same_mode_refl].
  - destruct (wh =? 0); cbn [snd with_buf w_buf]; [apply seek_z_mode | apply same_mode_refl].
  - contradiction.
  - pose proof (bio_read_mode n cap w) as M. destruct (bio_read n cap w) as [d w']. exact M.
Qed.

Lemma bio_run_mode : forall script w,
  Forall no_protect script -> same_mode (w_buf w) (w_buf (run_state KBio script w)).
Proof.
  induction script as [|o t IH]; intros w H; [apply same_mode_refl|].
  inversion H as [|? ? Ho Ht]; subst. cbn [run_state].
  eapply same_mode_trans; [apply (bio_step_mode o w Ho) | apply IH; exact Ht].
Qed.

(* with a protected headroom seek(0) always succeeds *)
Lemma seek0_protected acc b :
  binv acc b -> b_prot b = true -> exists b', buf_seek 0 b = (true, b') /\ b_pos b' = 0.
Proof.
  intros Hb Hp. pose proof Hb as (H1 & H2 & H3 & H). unfold buf_seek.
  destruct (0 =? b_pos b) eqn:E0.
  - apply N.eqb_eq in E0. exists b. auto.
  - apply N.eqb_neq in E0. destruct (b_hr b) eqn:Ehr.
    + destruct H as (_ & Hpos & _). cbn [negb].
      replace (b_head b <=? 0) with false by (symmetry; apply N.leb_gt; lia).
      replace (N.min (b_head b) (dlen (b_buf b)) <=? 0) with false by (symmetry; apply N.leb_gt; lia).
      eexists. split; [reflexivity|]. reflexivity.
    + destruct H as (Hq & _). congruence.
Qed.

Lemma probe_bufferedio script w :
  winv w -> Forall (applicable KBio) script -> Forall no_protect script ->
  let '(ran, w') := io_probe KBio script w in
  winv w' /\ w_len w' = w_len w /\
  (ran = false -> w' = w) /\
  (ran = true -> b_prot (w_buf w) = true ->
     b_pos (w_buf w') = b_pos (w_buf w) \/ b_pos (w_buf w') = 0).
Proof.
  intros Hw Hap Hnp. unfold io_probe. cbn [step].
  pose proof (bio_seek_spec 0 true w Hw) as S0. pose proof (seek_mode 0 (w_buf w)) as M0.
  destruct (bio_seek 0 true w) as [r0 w0] eqn:E0. destruct S0 as (Hw0 & Hr0 & Hl0 & Hc0).
  assert (M0' : same_mode (w_buf w) (w_buf w0)).
  { unfold bio_seek in E0. apply (f_equal snd) in E0. cbn [snd] in E0. subst w0. cbn [with_buf w_buf]. exact M0. }
  destruct r0 as [|q].
  - (* rewound: the parser runs, then seek(0), seek(before) *)
    set (w1 := run_state KBio script w0).
    assert (Hi0 : bio_inv 0 w0) by (split; [exact Hw0 | exact Hr0]).
    destruct (histories KBio bio_inv (fun _ _ => True) bio_step_ok script 0 w0 Hi0 Hap (chain_true _ _ _))
      as (_ & (Hw1 & _) & Hl1). fold w1 in Hw1, Hl1.
    pose proof (bio_run_mode script w0 Hnp) as M1. fold w1 in M1.
    pose proof (bio_seek_spec 0 true w1 Hw1) as S2.
    destruct (bio_seek 0 true w1) as [r2 w2] eqn:E2. destruct S2 as (Hw2 & Hr2 & Hl2 & Hc2). cbn [snd].
    pose proof (bio_seek_spec (b_pos (w_buf w)) true w2 Hw2) as S3.
    destruct (bio_seek (b_pos (w_buf w)) true w2) as [r3 w3] eqn:E3. destruct S3 as (Hw3 & Hr3 & Hl3 & Hc3). cbn [snd].
    split; [exact Hw3|]. split; [congruence|]. split; [discriminate|].
    intros _ Hprot.
    (* still protected after the parser, so the restoring seek(0) succeeds *)
    assert (P1 : b_prot (w_buf w1) = true).
    { destruct M0' as (A & _). destruct M1 as (B & _). congruence. }
    destruct Hw1 as [Hb1 _]. destruct (seek0_protected _ _ Hb1 P1) as (b2 & Es & Ep).
    assert (Z2 : b_pos (w_buf w2) = 0).
    { unfold bio_seek in E2. rewrite Es in E2. apply (f_equal snd) in E2. cbn [snd] in E2. subst w2. cbn [with_buf w_buf]. exact Ep. }
    destruct Hc3 as [[_ Hx] | ->]; [left; congruence | right; exact Z2].
  - (* seek(0) refused: nothing happens *)
    assert (w0 = w).
    { destruct Hc0 as [[_ Hx] | Hx]; [discriminate Hx | exact Hx]. }
    subst w0. split; [exact Hw|]. split; [reflexivity|]. split; [reflexivity|]. intro X; discriminate X.
Qed.
