(* C17 - SemiSeekableBuffer: the stream-fidelity invariant and its preservation. *)
From Coq Require Import List Bool NArith ZArith Arith Lia.
From PV Require Import Common.Cases C17.Model C17.Spec C17.ProofsData.
Import ListNotations.
Local Open Scope N_scope.

(* [acc] = everything add() has accepted so far, in order (ghost).
   While the headroom is kept the buffer stores all of it; afterwards exactly the part
   from the read position on.  In both cases the unread part of the stream is stored. *)
Definition binv (acc : list N) (b : sbuf) : Prop :=
  1 <= b_head b /\ b_head b <= b_size b /\ dlen (b_buf b) <= b_size b /\
  if b_hr b
  then bytes_of (b_buf b) = acc /\ b_pos b <= dlen (b_buf b) /\
       (b_prot b = false -> b_pos b < b_head b)
  else b_prot b = false /\ b_head b <= b_pos b /\
       bytes_of (b_buf b) = nskip (b_pos b) acc /\ b_pos b <= N.of_nat (length acc).

Lemma binv_new size head prot b :
  1 <= head -> buf_new size head prot = Some b -> binv [] b.
Proof.
  unfold buf_new. intros H1 H. destruct (size <? head) eqn:E; [discriminate|].
  apply N.ltb_ge in E. inversion H; subst b. unfold binv; simpl. repeat split; lia.
Qed.

Lemma binv_unread acc b :
  binv acc b -> bytes_of (unread b) = nskip (b_pos b) acc /\ buf_size b = dlen (unread b).
Proof.
  unfold binv, unread, buf_size. intros (_ & _ & _ & H). destruct (b_hr b).
  - destruct H as (E & Hp & _). rewrite bytes_ddrop, E, dlen_ddrop. split; reflexivity.
  - destruct H as (_ & _ & E & _). split; [exact E | lia].
Qed.

Lemma binv_size acc b :
  binv acc b -> b_pos b + buf_size b = N.of_nat (length acc) /\ b_pos b <= N.of_nat (length acc).
Proof.
  intro H. destruct (binv_unread _ _ H) as [E1 E2].
  assert (L : dlen (unread b) = N.of_nat (length acc) - b_pos b).
  { rewrite <- bytes_length, E1, nskip_length. reflexivity. }
  assert (P : b_pos b <= N.of_nat (length acc)).
  { unfold binv in H. destruct H as (_ & _ & _ & H). destruct (b_hr b).
    - destruct H as (E & Hp & _). rewrite <- E, bytes_length. exact Hp.
    - tauto. }
  split; [lia | exact P].
Qed.

(* Python's int arithmetic never goes negative where the model uses truncated N subtraction *)
Lemma binv_no_truncation acc b :
  binv acc b ->
  (if b_hr b then b_pos b else 0) <= dlen (b_buf b) /\ dlen (b_buf b) <= b_size b.
Proof.
  unfold binv. intros (_ & _ & H3 & H). split; [|exact H3].
  destruct (b_hr b); [tauto | lia].
Qed.

(* ---------------------------------------------------------------- add *)

Lemma add_spec acc d b :
  binv acc b ->
  let '(k, b') := buf_add d b in
  k = N.min (dlen d) (buf_remaining b) /\
  binv (acc ++ ntake k (bytes_of d)) b' /\
  b_pos b' = b_pos b /\ b_hr b' = b_hr b /\ b_prot b' = b_prot b /\
  b_size b' = b_size b /\ b_head b' = b_head b /\
  dlen (b_buf b') = dlen (b_buf b) + k.
Proof.
  destruct b as [buf size head pos hr prot]. unfold binv, buf_add, buf_remaining; simpl.
  intros (H1 & H2 & H3 & H).
  set (k := N.min (dlen d) (size - dlen buf)).
  split; [reflexivity|]. rewrite dlen_app, dlen_dtake.
  split; [| repeat split; try reflexivity; lia].
  split; [exact H1|]. split; [exact H2|]. split; [lia|].
  rewrite bytes_app, bytes_dtake. destruct hr.
  - destruct H as (E & Hp & Hu). split; [now rewrite E | split; [lia | exact Hu]].
  - destruct H as (Hq & Hh & E & Hl). repeat split; try assumption.
    + rewrite nskip_app_le by exact Hl. now rewrite E.
    + rewrite app_length. lia.
Qed.

(* a chunk that fits is stored completely *)
Lemma add_fits acc d b :
  binv acc b -> dlen d <= buf_remaining b ->
  fst (buf_add d b) = dlen d /\ binv (acc ++ bytes_of d) (snd (buf_add d b)).
Proof.
  intros H Hf. pose proof (add_spec acc d b H) as S.
  destruct (buf_add d b) as [k b'] eqn:E. simpl.
  destruct S as (Hk & Hb & _). assert (Hk' : k = dlen d) by lia. clear Hk. subst k.
  split; [reflexivity|]. rewrite ntake_all in Hb by (rewrite bytes_length; lia). exact Hb.
Qed.

(* ---------------------------------------------------------------- get *)

Lemma get_spec acc n b :
  binv acc b ->
  let '(d, b') := buf_get n b in
  bytes_of d = slice acc (b_pos b) n /\
  dlen d = N.min n (buf_size b) /\
  b_pos b' = b_pos b + dlen d /\
  binv acc b' /\
  b_prot b' = b_prot b /\ b_size b' = b_size b /\ b_head b' = b_head b.
Proof.
  destruct b as [buf size head pos hr prot]. unfold binv, buf_get, buf_size, slice; simpl.
  intros (H1 & H2 & H3 & H). destruct hr.
  - destruct H as (E & Hp & Hu).
    set (d := dtake n (ddrop pos buf)).
    assert (Bd : bytes_of d = ntake n (nskip pos acc)).
    { unfold d. now rewrite bytes_dtake, bytes_ddrop, E. }
    assert (Ld : dlen d = N.min n (dlen buf - pos)).
    { unfold d. now rewrite dlen_dtake, dlen_ddrop. }
    destruct prot.
    + simpl. repeat split; try assumption; try reflexivity; try lia; try discriminate.
    + destruct (head <=? pos + dlen d) eqn:Eh.
      * apply N.leb_le in Eh. simpl. repeat split; try assumption; try reflexivity.
        -- rewrite dlen_ddrop. lia.
        -- now rewrite bytes_ddrop, E.
        -- rewrite <- E, bytes_length. lia.
      * apply N.leb_gt in Eh. simpl. repeat split; try assumption; try reflexivity; lia.
  - destruct H as (Hq & Hh & E & Hl). subst prot.
    set (d := dtake n buf).
    assert (Bd : bytes_of d = ntake n (nskip pos acc)).
    { unfold d. now rewrite bytes_dtake, E. }
    assert (Ld : dlen d = N.min n (dlen buf)).
    { unfold d. now rewrite dlen_dtake. }
    simpl. repeat split; try assumption; try reflexivity; try lia.
    + rewrite dlen_ddrop. lia.
    + rewrite bytes_ddrop, E, nskip_nskip. reflexivity.
    + assert (dlen buf = N.of_nat (length acc) - pos).
      { rewrite <- bytes_length, E, nskip_length. reflexivity. }
      lia.
Qed.

(* ---------------------------------------------------------------- seek *)

Lemma seek_true acc p b b' :
  binv acc b -> buf_seek p b = (true, b') ->
  b_pos b' = p /\ binv acc b' /\
  b_buf b' = b_buf b /\ b_size b' = b_size b /\ b_head b' = b_head b /\
  b_hr b' = b_hr b /\ b_prot b' = b_prot b.
Proof.
  destruct b as [buf size head pos hr prot]. unfold binv, buf_seek; simpl.
  intros (H1 & H2 & H3 & H). destruct (p =? pos) eqn:E0.
  - apply N.eqb_eq in E0. subst p. intro X; inversion X; subst b'. simpl. tauto.
  - destruct hr; simpl; [|discriminate].
    destruct (head <=? p) eqn:E1; [discriminate|].
    destruct (N.min head (dlen buf) <=? p) eqn:E2; [discriminate|].
    apply N.leb_gt in E1, E2.
    intro X; inversion X; subst b'. simpl. destruct H as (E & Hp & Hu).
    repeat split; try assumption; try reflexivity; lia.
Qed.

Lemma seek_false p b b' : buf_seek p b = (false, b') -> b' = b.
Proof.
  unfold buf_seek. destruct (p =? b_pos b); [discriminate|].
  destruct (negb (b_hr b)); [now intro X; inversion X|].
  destruct (b_head b <=? p); [now intro X; inversion X|].
  destruct (N.min (b_head b) (dlen (b_buf b)) <=? p); [now intro X; inversion X|discriminate].
Qed.

(* ---------------------------------------------------------------- protect *)

Lemma protect_spec acc v b b' :
  binv acc b -> buf_protect v b = Some b' ->
  binv acc b' /\ b_pos b' = b_pos b /\ b_buf b' = b_buf b /\ b_hr b' = b_hr b /\
  b_size b' = b_size b /\ b_head b' = b_head b.
Proof.
  destruct b as [buf size head pos hr prot]. unfold binv, buf_protect; simpl.
  intros (H1 & H2 & H3 & H). destruct (Bool.eqb v prot) eqn:Ev.
  - intro X; inversion X; subst b'. simpl. tauto.
  - destruct (pos =? 0) eqn:E0; simpl; [|discriminate].
    apply N.eqb_eq in E0. subst pos.
    intro X; inversion X; subst b'. simpl.
    repeat split; try assumption; try reflexivity.
    destruct hr; [|destruct H as (_ & Hh & _); lia].
    destruct H as (E & Hp & Hu). repeat split; try assumption. intros _. lia.
Qed.

(* ---------------------------------------------------------------- histories *)

Lemma buffer_histories : forall ops acc b cur len,
  binv acc b -> Forall (applicable KBuf) ops ->
  buf_spec acc (b_pos b) (trace KBuf ops (mkw b cur len)) /\
  binv (spec_stream acc (trace KBuf ops (mkw b cur len)))
       (w_buf (run_state KBuf ops (mkw b cur len))) /\
  b_pos (w_buf (run_state KBuf ops (mkw b cur len))) =
    spec_cursor 0 (b_pos b) (trace KBuf ops (mkw b cur len)).
Proof.
  induction ops as [|o ops IH]; intros acc b cur len Hb Hap; [simpl; auto|].
  inversion Hap as [|? ? Ho Hap']; subst.
  cbn [trace run_state]. destruct o as [d|n|n|p st|z wh|v|n cap]; cbn [step w_buf with_buf w_cur w_len].
  - (* add *)
    pose proof (add_spec acc d b Hb) as S. destruct (buf_add d b) as [r b'].
    destruct S as (Hk & Hb' & Hp & _). cbn [snd buf_spec spec_stream spec_cursor with_buf w_cur w_len].
    destruct (IH _ b' cur len Hb' Hap') as (T1 & T2 & T3). rewrite Hp in T1, T3.
    split; [split; [lia | exact T1]|]. split; [exact T2 | exact T3].
  - (* get *)
    pose proof (get_spec acc n b Hb) as S. destruct (buf_get n b) as [d b'].
    destruct S as (Hd & _ & Hp & Hb' & _). cbn [snd buf_spec spec_stream spec_cursor with_buf w_cur w_len].
    destruct (IH _ b' cur len Hb' Hap') as (T1 & T2 & T3). rewrite Hp in T1, T3.
    split; [split; [exact Hd | exact T1]|]. split; [exact T2 | exact T3].
  - (* fits *)
    cbn [snd buf_spec spec_stream spec_cursor]. apply IH; auto.
  - (* seek *)
    simpl in Ho. subst st.
    destruct (buf_seek p b) as [[|] b'] eqn:E; cbn [snd buf_spec spec_stream spec_cursor seek_target with_buf w_cur w_len].
    + destruct (seek_true acc p b b' Hb E) as (Hp & Hb' & _).
      destruct (IH _ b' cur len Hb' Hap') as (T1 & T2 & T3). rewrite Hp in T1, T3. auto.
    + apply seek_false in E. subst b'. apply IH; auto.
  - (* seek to a negative offset: refused, nothing changes *)
    simpl in Ho. destruct Ho as [Hneg ->]. cbn [N.eqb]. unfold buf_seek_z.
    replace (z <? 0)%Z with true by (symmetry; apply Z.ltb_lt; exact Hneg).
    cbn [snd buf_spec spec_stream spec_cursor with_buf w_buf w_cur w_len]. apply IH; auto.
  - (* protect *)
    destruct (buf_protect v b) as [b'|] eqn:E; cbn [snd buf_spec spec_stream spec_cursor with_buf w_cur w_len].
    + destruct (protect_spec acc v b b' Hb E) as (Hb' & Hp & _).
      destruct (IH _ b' cur len Hb' Hap') as (T1 & T2 & T3). rewrite Hp in T1, T3. auto.
    + apply IH; auto.
  - (* read: not a buffer operation *)
    simpl in Ho. contradiction.
Qed.
