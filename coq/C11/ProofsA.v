(* C11 - refinement: what the registry-and-pointers model reports is what the history-based
   specification says. *)
From Coq Require Import List Bool ZArith NArith Lia.
From PV Require Import Common.Cases C11.Model C11.Spec.
Import ListNotations.

(* ------------------------------------------------------------------ association lists *)
Section Assoc.
  Context {V : Type}.
  Implicit Types l : list (N * V).

  Lemma aget_adel_same k l : aget k (adel k l) = None.
  Proof.
    induction l as [|[k' v] t IH]; simpl; [reflexivity|].
    destruct (N.eqb k' k) eqn:E; [exact IH|]. simpl. rewrite E. exact IH.
  Qed.

  Lemma aget_adel_other k k' l : k' <> k -> aget k' (adel k l) = aget k' l.
  Proof.
    intros H. induction l as [|[k0 v] t IH]; simpl; [reflexivity|].
    destruct (N.eqb k0 k) eqn:E.
    - apply N.eqb_eq in E. subst k0.
      destruct (N.eqb k k') eqn:E2; [apply N.eqb_eq in E2; congruence|exact IH].
    - simpl. destruct (N.eqb k0 k'); [reflexivity|exact IH].
  Qed.

  Lemma aget_adel k k' l : aget k' (adel k l) = if N.eqb k k' then None else aget k' l.
  Proof.
    destruct (N.eqb_spec k k') as [->|H]; [apply aget_adel_same|].
    apply aget_adel_other. congruence.
  Qed.

  Lemma aget_aset k k' v l : aget k' (aset k v l) = if N.eqb k k' then Some v else aget k' l.
  Proof.
    unfold aset. simpl. destruct (N.eqb_spec k k') as [->|H]; [reflexivity|].
    apply aget_adel_other. congruence.
  Qed.
End Assoc.

(* ------------------------------------------------------------------ per-client step *)
(* does the player exist in the client's dictionary (get_player creates, a remove of a
   valid identifier deletes; a remove of "" creates and keeps) *)
Fixpoint pexists (x : pid) (e : list msg) : bool :=
  match e with
  | [] => false
  | m :: r =>
      match mplayer m with
      | Some p => if N.eqb p x
                  then match m with RemovePlayer _ _ _ => N.eqb x 0 | _ => true end
                  else pexists x r
      | None => pexists x r
      end
  end.

(* what a message does to the client it is addressed to *)
Definition cstep (m : msg) (cl : client) : client :=
  match m with
  | SetState _ _ p ps cmds q => upd_player p (handle_set_state ps cmds q) cl
  | UpdateContentItem _ _ p upd => upd_player p (handle_content_item_update upd) cl
  | SetNowPlayingClient _ _ => cl
  | SetNowPlayingPlayer _ _ p => set_active_player (Some p) (upd_player p (fun x => x) cl)
  | UpdateClient _ dn => set_dname (name_or dn (cl_dname cl)) cl
  | RemoveClient _ => cl
  | RemovePlayer _ _ p => fst (remove_player p cl)
  | SetDefaultCommands _ _ l => set_cmds l cl
  end.

Definition set_active_client (m : msg) (s : state) : state :=
  match m with
  | SetNowPlayingClient c _ => {| s_active := Some c; s_clients := s_clients s |}
  | _ => s
  end.

(* [step] written out: the wake flag is the wake rule evaluated on the final state *)
Definition step_old (s : state) (m : msg) : state * bool :=
  match m with
  | SetState c dn p ps cmds q =>
      let s' := with_client c dn (upd_player p (handle_set_state ps cmds q)) s in
      (s', state_updated s' None (Some p))
  | UpdateContentItem c dn p upd =>
      let s' := with_client c dn (upd_player p (handle_content_item_update upd)) s in
      (s', state_updated s' None (Some p))
  | SetNowPlayingClient c dn =>
      let s1 := with_client c dn (fun x => x) s in
      let s' := {| s_active := Some c; s_clients := s_clients s1 |} in
      (s', state_updated s' None None)
  | SetNowPlayingPlayer c dn p =>
      let s' := with_client c dn
                  (fun cl => set_active_player (Some p) (upd_player p (fun x => x) cl)) s in
      (s', state_updated s' (Some c) None)
  | UpdateClient c dn =>
      let s' := with_client c dn (fun cl => set_dname (name_or dn (cl_dname cl)) cl) s in
      (s', state_updated s' (Some c) None)
  | RemoveClient c =>
      match aget c (s_clients s) with
      | None => (s, false)
      | Some _ =>
          let cls := adel c (s_clients s) in
          if opt_beq N.eqb (s_active s) (Some c)
          then let s' := {| s_active := None; s_clients := cls |} in
               (s', state_updated s' None None)
          else ({| s_active := s_active s; s_clients := cls |}, false)
      end
  | RemovePlayer c dn p =>
      let r := remove_player p (the_client c dn s) in
      let s' := put_client c (fst r) s in
      if snd r then (s', state_updated s' (Some c) None) else (s', false)
  | SetDefaultCommands c dn cmds =>
      let s' := with_client c dn (set_cmds cmds) s in
      (s', state_updated s' None None)
  end.

Lemma notify_flag s cl pl :
  match notify s cl pl with Some _ => true | None => false end = state_updated s cl pl.
Proof. unfold notify. destruct (state_updated s cl pl); reflexivity. Qed.

Lemma step_eq s m : step s m = step_old s m.
Proof.
  unfold step. destruct m; cbn [step_w step_old fst snd]; try (rewrite notify_flag; reflexivity).
  - destruct (aget c (s_clients s)); [|reflexivity].
    destruct (opt_beq N.eqb (s_active s) (Some c)); cbn [fst snd]; [rewrite notify_flag|]; reflexivity.
  - destruct (snd (remove_player p (the_client c dn s))); cbn [fst snd]; [rewrite notify_flag|]; reflexivity.
Qed.

(* every wake-up is the handler's last action: the listener runs in the final state *)
Lemma notify_some s cl pl sw : notify s cl pl = Some sw -> sw = s.
Proof. unfold notify. destruct (state_updated s cl pl); congruence. Qed.

Lemma wake_is_final s m sw : snd (step_w s m) = Some sw -> sw = fst (step_w s m).
Proof.
  destruct m; cbn [step_w fst snd]; try apply notify_some.
  - destruct (aget c (s_clients s)); [|discriminate].
    destruct (opt_beq N.eqb (s_active s) (Some c)); cbn [fst snd]; [apply notify_some|discriminate].
  - destruct (snd (remove_player p (the_client c dn s))); cbn [fst snd]; [apply notify_some|discriminate].
Qed.

Lemma step_fst s m :
  is_rc m = false ->
  fst (step s m) = set_active_client m (with_client (mclient m) (mdname m) (cstep m) s).
Proof.
  rewrite step_eq. destruct m; intro H; try discriminate; try reflexivity.
  simpl. destruct (snd (remove_player p (the_client c dn s))); reflexivity.
Qed.

Definition players_rel (pls : list (pid * player)) (e : list msg) : Prop :=
  forall x, aget x pls = if pexists x e then Some (spec_player x e) else None.

Record client_rel (cl : client) (e : list msg) : Prop := {
  cr_active : cl_active cl = spec_ap e;
  cr_cmds : cl_cmds cl = spec_cmds e;
  cr_players : players_rel (cl_players cl) e }.

Lemma pexists_false x e : pexists x e = false -> spec_player x e = new_player.
Proof.
  induction e as [|m r IH]; [reflexivity|].
  destruct m; cbn [pexists mplayer spec_player]; intro H; try (apply IH; exact H).
  - destruct (N.eqb p x); [discriminate|apply IH; exact H].
  - destruct (N.eqb p x); [discriminate|apply IH; exact H].
  - destruct (N.eqb p x); [discriminate|apply IH; exact H].
  - destruct (N.eqb p x); [rewrite H; reflexivity|apply IH; exact H].
Qed.

Lemma the_player_spec cl e x :
  players_rel (cl_players cl) e -> the_player x cl = spec_player x e.
Proof.
  intros H. unfold the_player. rewrite (H x).
  destruct (pexists x e) eqn:E; [reflexivity|]. symmetry. apply pexists_false. exact E.
Qed.

Lemma new_client_rel dn : client_rel (new_client dn) [].
Proof. constructor; try reflexivity. intro x. reflexivity. Qed.

Lemma players_upd cl e p f m :
  players_rel (cl_players cl) e ->
  (forall x, pexists x (m :: e) = if N.eqb p x then true else pexists x e) ->
  (forall x, spec_player x (m :: e) = if N.eqb p x then f (spec_player x e) else spec_player x e) ->
  players_rel (cl_players (upd_player p f cl)) (m :: e).
Proof.
  intros Hp He Hs x. unfold upd_player, put_player. cbn [cl_players].
  rewrite aget_aset, He, Hs, (the_player_spec cl e p Hp).
  destruct (N.eqb_spec p x) as [->|N]; [reflexivity|apply Hp].
Qed.

Lemma cstep_rel m cl e : is_rc m = false -> client_rel cl e -> client_rel (cstep m cl) (m :: e).
Proof.
  intros Hm [Ha Hc Hp]. destruct m; try discriminate; cbn [cstep].
  - (* set state *)
    constructor; [exact Ha|exact Hc|].
    apply players_upd; [exact Hp| |]; intro x; cbn [pexists mplayer spec_player];
      destruct (N.eqb p x); reflexivity.
  - (* content item update *)
    constructor; [exact Ha|exact Hc|].
    apply players_upd; [exact Hp| |]; intro x; cbn [pexists mplayer spec_player];
      destruct (N.eqb p x); reflexivity.
  - (* set now playing client *)
    constructor; [exact Ha|exact Hc|]. intro x. cbn [pexists mplayer spec_player]. apply Hp.
  - (* set now playing player *)
    constructor; [reflexivity|exact Hc|].
    unfold set_active_player. cbn [cl_players].
    apply players_upd; [exact Hp| |]; intro x; cbn [pexists mplayer spec_player];
      destruct (N.eqb p x); reflexivity.
  - (* update client *)
    constructor; [exact Ha|exact Hc|]. intro x. cbn [pexists mplayer spec_player]. apply Hp.
  - (* remove player *)
    unfold remove_player.
    assert (Hp1 : players_rel (cl_players (upd_player p (fun y => y) cl))
                    (SetNowPlayingPlayer c dn p :: e)).
    { apply players_upd; [exact Hp| |]; intro x; cbn [pexists mplayer spec_player];
        destruct (N.eqb p x); reflexivity. }
    destruct (N.eqb_spec p 0) as [E0|E0]; cbn [fst].
    + (* "" is not a valid identifier: the player was created and stays *)
      subst p. constructor; [exact Ha|exact Hc|].
      intro x. rewrite (Hp1 x). cbn [pexists mplayer spec_player].
      destruct (N.eqb_spec 0 x) as [<-|N]; [reflexivity|].
      cbn [andb]. reflexivity.
    + assert (Hact : cl_active (upd_player p (fun y => y) cl) = spec_ap e) by exact Ha.
      assert (Hpl : forall act,
                 players_rel (cl_players (set_active_player act
                                            (del_player p (upd_player p (fun y => y) cl))))
                             (RemovePlayer c dn p :: e)).
      { intros act x. unfold set_active_player, del_player. cbn [cl_players].
        rewrite aget_adel, (Hp1 x). cbn [pexists mplayer spec_player].
        destruct (N.eqb_spec p x) as [<-|N].
        - destruct (N.eqb_spec p 0) as [E|_]; [contradiction|reflexivity].
        - reflexivity. }
      assert (Hsp : spec_ap (RemovePlayer c dn p :: e) =
                    match spec_ap e with
                    | Some a => if N.eqb a p then None else Some a
                    | None => None
                    end).
      { cbn [spec_ap]. destruct (N.eqb_spec p 0) as [E|_]; [contradiction|reflexivity]. }
      destruct (N.eqb p (active_player_id (upd_player p (fun y => y) cl))) eqn:W; cbn [fst].
      * constructor; [|exact Hc|exact (Hpl None)].
        cbn [set_active_player cl_active]. rewrite Hsp.
        unfold active_player_id in W. rewrite Hact in W.
        destruct (spec_ap e) as [a|]; [|reflexivity].
        rewrite N.eqb_sym in W. rewrite W. reflexivity.
      * constructor; [|exact Hc|].
        -- unfold del_player. cbn [cl_active]. rewrite Hsp.
           unfold active_player_id in W. rewrite Hact in W. rewrite Hact.
           destruct (spec_ap e) as [a|]; [|reflexivity].
           rewrite N.eqb_sym in W. rewrite W. reflexivity.
        -- exact (Hpl (cl_active (upd_player p (fun y => y) cl))).
  - (* set default supported commands *)
    constructor; [exact Ha|reflexivity|]. intro x. cbn [pexists mplayer spec_player]. apply Hp.
Qed.

(* display name: the first message of an epoch creates the client with its name *)
Definition pre_dname (m : msg) (e : list msg) (cl : client) : Prop :=
  match e with
  | [] => cl_dname cl = name_or (mdname m) None
  | _ :: _ => cl_dname cl = spec_dname e
  end.

Lemma name_or_idem dn : name_or dn (name_or dn None) = name_or dn None.
Proof. unfold name_or. destruct (N.eqb dn 0); reflexivity. Qed.

Lemma cstep_dname m cl e :
  is_rc m = false -> pre_dname m e cl -> cl_dname (cstep m cl) = spec_dname (m :: e).
Proof.
  intros Hm H.
  assert (K : forall cl', cl_dname cl' = cl_dname cl ->
              (forall c dn, m <> UpdateClient c dn) -> cl_dname cl' = spec_dname (m :: e)).
  { intros cl' E NU. rewrite E. destruct e as [|m0 r]; cbn [pre_dname] in H.
    - cbn [spec_dname]. exact H.
    - rewrite H. destruct m; try reflexivity. exfalso. eapply NU. reflexivity. }
  destruct m; try discriminate; cbn [cstep].
  - apply K; [reflexivity|discriminate].
  - apply K; [reflexivity|discriminate].
  - apply K; [reflexivity|discriminate].
  - apply K; [reflexivity|discriminate].
  - (* update client *)
    cbn [set_dname cl_dname]. destruct e as [|m0 r]; cbn [pre_dname] in H; rewrite H.
    + cbn [spec_dname mdname]. apply name_or_idem.
    + reflexivity.
  - apply K; [|discriminate]. unfold remove_player.
    destruct (N.eqb p 0); [reflexivity|].
    destruct (N.eqb p (active_player_id (upd_player p (fun x => x) cl))); reflexivity.
  - apply K; [reflexivity|discriminate].
Qed.

(* ------------------------------------------------------------------ the whole manager *)
Definition crel (o : option client) (e : list msg) : Prop :=
  match o with
  | Some cl => e <> [] /\ cl_dname cl = spec_dname e /\ client_rel cl e
  | None => e = []
  end.

Definition R (s : state) (rh : list msg) : Prop :=
  s_active s = spec_active rh /\ forall c, crel (aget c (s_clients s)) (epoch c rh).

Lemma active_exists rh a : spec_active rh = Some a -> epoch a rh <> [].
Proof.
  induction rh as [|m r IH]; [discriminate|].
  destruct m; cbn [spec_active epoch mclient is_rc]; intro H;
    try (destruct (N.eqb c a); [discriminate|apply IH; exact H]).
  - (* set now playing client *)
    injection H as ->. rewrite N.eqb_refl. discriminate.
  - (* remove client *)
    destruct (spec_active r) as [a'|]; [|discriminate].
    destruct (N.eqb_spec a' c) as [->|N]; [discriminate|].
    injection H as <-. destruct (N.eqb_spec c a') as [->|_]; [contradiction|].
    apply IH. reflexivity.
Qed.

Lemma spec_active_other m rh :
  is_rc m = false ->
  spec_active (m :: rh) = match m with SetNowPlayingClient c _ => Some c | _ => spec_active rh end.
Proof. destruct m; intro H; try discriminate; reflexivity. Qed.

Lemma epoch_cons m c rh :
  is_rc m = false ->
  epoch c (m :: rh) = if N.eqb (mclient m) c then m :: epoch c rh else epoch c rh.
Proof. intro H. cbn [epoch]. rewrite H. reflexivity. Qed.

Lemma R_init : R init [].
Proof. split; [reflexivity|]. intro c. reflexivity. Qed.

Lemma R_step s rh m : R s rh -> R (fst (step s m)) (m :: rh).
Proof.
  intros [Ha Hc]. destruct (is_rc m) eqn:Hm.
  - (* remove client *)
    destruct m; try discriminate. rewrite step_eq. cbn [step_old].
    pose proof (Hc c) as Hcc.
    destruct (aget c (s_clients s)) as [cl|] eqn:G.
    + assert (Hcl : forall c0, crel (aget c0 (adel c (s_clients s))) (epoch c0 (RemoveClient c :: rh))).
      { intro c0. rewrite aget_adel. cbn [epoch mclient is_rc].
        destruct (N.eqb_spec c c0) as [->|N]; [reflexivity|apply Hc]. }
      destruct (opt_beq N.eqb (s_active s) (Some c)) eqn:Act; cbn [fst]; split; cbn [s_active s_clients];
        try exact Hcl; cbn [spec_active]; rewrite <- Ha.
      * destruct (s_active s) as [a|]; [|discriminate]. cbn [opt_beq] in Act. rewrite Act. reflexivity.
      * destruct (s_active s) as [a|]; [|reflexivity]. cbn [opt_beq] in Act. rewrite Act. reflexivity.
    + cbn [fst]. cbn [crel] in Hcc. split.
      * cbn [spec_active]. rewrite <- Ha. destruct (s_active s) as [a|] eqn:Sa; [|reflexivity].
        destruct (N.eqb_spec a c) as [->|N]; [|reflexivity].
        exfalso. symmetry in Ha. apply active_exists in Ha. contradiction.
      * intro c0. cbn [epoch mclient is_rc].
        destruct (N.eqb_spec c c0) as [<-|N]; [rewrite G; reflexivity|apply Hc].
  - rewrite (step_fst s m Hm). split.
    + rewrite (spec_active_other m rh Hm). destruct m; try exact Ha. reflexivity.
    + intro c.
      assert (E : s_clients (set_active_client m (with_client (mclient m) (mdname m) (cstep m) s))
                  = aset (mclient m) (cstep m (the_client (mclient m) (mdname m) s)) (s_clients s)).
      { destruct m; reflexivity. }
      rewrite E, aget_aset, (epoch_cons m c rh Hm).
      destruct (N.eqb_spec (mclient m) c) as [<-|N]; [|apply Hc].
      pose proof (Hc (mclient m)) as Hcc. unfold the_client.
      destruct (aget (mclient m) (s_clients s)) as [cl|]; cbn [crel] in Hcc |- *.
      * destruct Hcc as (Ne & Hd & Hr). split; [discriminate|]. split.
        -- apply cstep_dname; [exact Hm|]. unfold pre_dname.
           destruct (epoch (mclient m) rh); [contradiction|exact Hd].
        -- apply cstep_rel; assumption.
      * rewrite Hcc. split; [discriminate|]. split.
        -- apply cstep_dname; [exact Hm|]. reflexivity.
        -- apply cstep_rel; [exact Hm|apply new_client_rel].
Qed.

Lemma R_run_gen h : forall s rh, R s rh -> R (fold_left (fun s m => fst (step s m)) h s) (rev h ++ rh).
Proof.
  induction h as [|m t IH]; intros s rh H; [exact H|].
  cbn [fold_left rev]. rewrite <- app_assoc. cbn [app]. apply IH. apply R_step. exact H.
Qed.

Lemma R_run h : R (run h) (rev h).
Proof. unfold run. rewrite <- (app_nil_r (rev h)). apply R_run_gen. exact R_init. Qed.

Lemma R_observe now s rh : R s rh -> observe now s = reported now rh.
Proof.
  intros [Ha Hc]. unfold observe, reported, app, playing, idle. rewrite Ha.
  destruct (spec_active rh) as [c|] eqn:A; [|reflexivity].
  pose proof (Hc c) as Hcc. apply active_exists in A.
  destruct (aget c (s_clients s)) as [cl|]; cbn [crel] in Hcc; [|contradiction].
  destruct Hcc as (_ & Hd & [Hact Hcm Hp]).
  rewrite Hd, Hcm. f_equal. unfold effective. rewrite Hact.
  destruct (spec_ap (epoch c rh)) as [a|]; rewrite (the_player_spec cl _ _ Hp); reflexivity.
Qed.

Theorem refines now h : observe now (run h) = reported now (rev h).
Proof. apply R_observe. apply R_run. Qed.
