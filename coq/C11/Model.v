(* C11 - model of the MRP now-playing bookkeeping.

   Mirrors, as the code stands in /repo:
     pyatv/protocols/mrp/player_state.py   PlayerState, Client, PlayerStateManager
     pyatv/protocols/mrp/__init__.py       build_playing_instance, MrpMetadata.playing/.app
     pyatv/interface.py                    Playing._post_process

   Conventions
   - strings (bundle identifiers, player identifiers, titles ...) are N; 0 is the empty
     string "" (which is also what protobuf returns for an unset string field);
     player identifier 1 is DEFAULT_PLAYER_ID "MediaRemote-DefaultPlayer".
   - Python objects held by reference (the active Client, Client._active_player) are
     represented by their dictionary key.  That the reference and the key always agree
     (a client/player that leaves its dictionary also leaves the active pointer) is part
     of what the differential run checks.
   - dictionaries are association lists; a look-up of a missing key is None.
   - floats: elapsedTime and duration are given in half seconds (Z), duration may also be
     NaN; playbackRate (a 32 bit float in the protocol) is given in units of 2^-23, so
     1.0 = 8388608 and the next float above 1.0 is 8388609.  For 32 bit floats
     math.isclose(x, 0.0) is x = 0 and math.isclose(x, 1.0) is x = 1 (rel_tol 1e-9 is
     smaller than half an ulp), which is how the two tests are written below.
   - the wall clock is a parameter [now] (Cocoa seconds), elapsedTimeTimestamp an integer.
   - playbackQueue.location is taken non-negative (N).
   NO proofs in this file. *)
From Coq Require Import List Bool ZArith NArith.
From PV Require Import Common.Cases.
Import ListNotations.
Open Scope Z_scope.

Definition cid := N.
Definition pid := N.
Definition DEFAULT_PLAYER : pid := 1%N.

(* ------------------------------------------------------------------ association lists *)
Fixpoint aget {V} (k : N) (l : list (N * V)) : option V :=
  match l with
  | [] => None
  | (k', v) :: t => if N.eqb k' k then Some v else aget k t
  end.
Fixpoint adel {V} (k : N) (l : list (N * V)) : list (N * V) :=
  match l with
  | [] => []
  | (k', v) :: t => if N.eqb k' k then adel k t else (k', v) :: adel k t
  end.
Definition aset {V} (k : N) (v : V) (l : list (N * V)) : list (N * V) := (k, v) :: adel k l.

(* ------------------------------------------------------------------ data *)
Inductive dur := DNaN | DFin (halves : Z).

(* the ContentItemMetadata fields build_playing_instance reads *)
Record meta := {
  m_title : option N; m_artist : option N; m_album : option N; m_genre : option N;
  m_series : option N; m_content : option N;
  m_season : option Z; m_episode : option Z; m_itunes : option Z;
  m_duration : option dur; m_elapsed : option Z; m_ts : option Z;
  m_rate : option Z; m_media : option N }.

Definition meta_empty : meta :=
  {| m_title := None; m_artist := None; m_album := None; m_genre := None;
     m_series := None; m_content := None; m_season := None; m_episode := None;
     m_itunes := None; m_duration := None; m_elapsed := None; m_ts := None;
     m_rate := None; m_media := None |}.

Definition or_else {A} (a b : option A) : option A := match a with Some _ => a | None => b end.

(* protobuf MergeFrom on optional scalars: a field set in src replaces the one in dst *)
Definition meta_merge (dst src : meta) : meta :=
  {| m_title := or_else (m_title src) (m_title dst);
     m_artist := or_else (m_artist src) (m_artist dst);
     m_album := or_else (m_album src) (m_album dst);
     m_genre := or_else (m_genre src) (m_genre dst);
     m_series := or_else (m_series src) (m_series dst);
     m_content := or_else (m_content src) (m_content dst);
     m_season := or_else (m_season src) (m_season dst);
     m_episode := or_else (m_episode src) (m_episode dst);
     m_itunes := or_else (m_itunes src) (m_itunes dst);
     m_duration := or_else (m_duration src) (m_duration dst);
     m_elapsed := or_else (m_elapsed src) (m_elapsed dst);
     m_ts := or_else (m_ts src) (m_ts dst);
     m_rate := or_else (m_rate src) (m_rate dst);
     m_media := or_else (m_media src) (m_media dst) |}.

Record item := { i_id : N; i_meta : meta }.

(* CommandInfo: command number, shuffleMode, repeatMode (0 when unset) *)
Record cmd := { c_cmd : N; c_shuffle : N; c_repeat : N }.

(* PlayerState: _playback_state, supported_commands, items, location *)
Record player := {
  p_state : option N; p_cmds : list cmd; p_items : list item; p_loc : N }.
Definition new_player : player :=
  {| p_state := None; p_cmds := []; p_items := []; p_loc := 0%N |}.

(* Client: display_name, _active_player, players, supported_commands *)
Record client := {
  cl_dname : option N; cl_active : option pid;
  cl_players : list (pid * player); cl_cmds : list cmd }.

(* PlayerStateManager: _active_client, _clients *)
Record state := { s_active : option cid; s_clients : list (cid * client) }.
Definition init : state := {| s_active := None; s_clients := [] |}.

(* The eight message kinds.  c / dn are playerPath.client.bundleIdentifier / .displayName
   (or .client of the client messages), p is playerPath.player.identifier. *)
Inductive msg :=
| SetState (c : cid) (dn : N) (p : pid)
    (ps : option N) (cmds : option (list cmd)) (queue : option (list item * N))
| UpdateContentItem (c : cid) (dn : N) (p : pid) (upd : list item)
| SetNowPlayingClient (c : cid) (dn : N)
| SetNowPlayingPlayer (c : cid) (dn : N) (p : pid)
| UpdateClient (c : cid) (dn : N)
| RemoveClient (c : cid)
| RemovePlayer (c : cid) (dn : N) (p : pid)
| SetDefaultCommands (c : cid) (dn : N) (cmds : list cmd).

(* ------------------------------------------------------------------ PlayerState *)

(* handle_set_state *)
Definition handle_set_state (ps : option N) (cmds : option (list cmd))
    (queue : option (list item * N)) (pl : player) : player :=
  let st := match ps with Some v => Some v | None => p_state pl end in
  let cm := match cmds with Some l => l | None => p_cmds pl end in
  match queue with
  | Some (its, loc) => {| p_state := st; p_cmds := cm; p_items := its; p_loc := loc |}
  | None => {| p_state := st; p_cmds := cm; p_items := p_items pl; p_loc := p_loc pl |}
  end.

(* handle_content_item_update: for every updated item, every existing item with the same
   identifier gets the metadata merged *)
Definition merge_one (u : item) (its : list item) : list item :=
  map (fun e => if N.eqb (i_id u) (i_id e)
                then {| i_id := i_id e; i_meta := meta_merge (i_meta e) (i_meta u) |}
                else e) its.
Definition handle_content_item_update (upd : list item) (pl : player) : player :=
  {| p_state := p_state pl; p_cmds := p_cmds pl;
     p_items := fold_left (fun its u => merge_one u its) upd (p_items pl);
     p_loc := p_loc pl |}.

(* PlayerState.metadata / item_identifier: the item at [location], if there is one *)
Definition current_item (pl : player) : option item := nth_error (p_items pl) (N.to_nat (p_loc pl)).
Definition field {A} (f : meta -> option A) (pl : player) : option A :=
  match current_item pl with Some it => f (i_meta it) | None => None end.

Definition RATE_ONE : Z := 8388608.

(* PlayerState.playback_state; pb.PlaybackState: Unknown 0, Playing 1, Paused 2,
   Stopped 3, Interrupted 4, Seeking 5 *)
Definition playback_state (pl : player) : option N :=
  match p_state pl with
  | None => None
  | Some st =>
      if N.eqb st 2 then
        match current_item pl with Some _ => Some 2%N | None => None end
      else if negb (N.eqb st 1) then Some st
      else match field m_rate pl with
           | None => Some st
           | Some r =>
               if Z.eqb r 0 then Some 1%N          (* isclose(rate, 0.0), state is Playing *)
               else if Z.eqb r RATE_ONE then Some 1%N
               else Some 5%N
           end
  end.

(* ------------------------------------------------------------------ Client / manager *)
Definition name_or (dn : N) (old : option N) : option N :=
  if N.eqb dn 0 then old else Some dn.            (* client.displayName or self.display_name *)

Definition new_client (dn : N) : client :=
  {| cl_dname := name_or dn None; cl_active := None; cl_players := []; cl_cmds := [] |}.

(* get_client: get or create *)
Definition the_client (c : cid) (dn : N) (s : state) : client :=
  match aget c (s_clients s) with Some cl => cl | None => new_client dn end.
Definition put_client (c : cid) (cl : client) (s : state) : state :=
  {| s_active := s_active s; s_clients := aset c cl (s_clients s) |}.
(* Client.get_player: get or create *)
Definition the_player (p : pid) (cl : client) : player :=
  match aget p (cl_players cl) with Some pl => pl | None => new_player end.
Definition put_player (p : pid) (pl : player) (cl : client) : client :=
  {| cl_dname := cl_dname cl; cl_active := cl_active cl;
     cl_players := aset p pl (cl_players cl); cl_cmds := cl_cmds cl |}.
(* get the player (creating it), apply f to it *)
Definition upd_player (p : pid) (f : player -> player) (cl : client) : client :=
  put_player p (f (the_player p cl)) cl.
Definition with_client (c : cid) (dn : N) (f : client -> client) (s : state) : state :=
  put_client c (f (the_client c dn s)) s.

(* identifier of Client.active_player: the explicit one, else the default player while
   it exists, else a fresh PlayerState whose identifier is "" *)
Definition active_player_id (cl : client) : pid :=
  match cl_active cl with
  | Some a => a
  | None => match aget DEFAULT_PLAYER (cl_players cl) with Some _ => DEFAULT_PLAYER | None => 0%N end
  end.
(* identifier of PlayerStateManager.playing *)
Definition playing_id (s : state) : pid :=
  match s_active s with
  | None => 0%N
  | Some c => match aget c (s_clients s) with Some cl => active_player_id cl | None => 0%N end
  end.

(* _state_updated(client, player): is the listener woken?  [client == self.client] is
   identity (None == None holds), [player == self.playing] compares identifiers. *)
Definition state_updated (s : state) (cl : option cid) (pl : option pid) : bool :=
  let is_active_client := opt_beq N.eqb cl (s_active s) in
  let is_active_player := match pl with Some p => N.eqb p (playing_id s) | None => false end in
  let is_always := match cl, pl with None, None => true | _, _ => false end in
  is_active_client || is_active_player || is_always.

Definition set_active_player (a : option pid) (cl : client) : client :=
  {| cl_dname := cl_dname cl; cl_active := a; cl_players := cl_players cl; cl_cmds := cl_cmds cl |}.
Definition del_player (p : pid) (cl : client) : client :=
  {| cl_dname := cl_dname cl; cl_active := cl_active cl;
     cl_players := adel p (cl_players cl); cl_cmds := cl_cmds cl |}.
Definition set_dname (d : option N) (cl : client) : client :=
  {| cl_dname := d; cl_active := cl_active cl; cl_players := cl_players cl; cl_cmds := cl_cmds cl |}.
Definition set_cmds (l : list cmd) (cl : client) : client :=
  {| cl_dname := cl_dname cl; cl_active := cl_active cl; cl_players := cl_players cl; cl_cmds := l |}.

(* _handle_remove_player on the client (after get_player created what was missing) *)
Definition remove_player (p : pid) (cl : client) : client * bool :=
  let cl1 := upd_player p (fun x => x) cl in
  if N.eqb p 0 then (cl1, false)                      (* not is_valid *)
  else
    let was_active := N.eqb p (active_player_id cl1) in
    let cl2 := del_player p cl1 in
    if was_active then (set_active_player None cl2, true) else (cl2, false).

(* `await self._state_updated(client, player)` executed when the manager is in state s:
   the listener, if woken, runs (and may read metadata.playing()) while the manager is in
   exactly that state *)
Definition notify (s : state) (cl : option cid) (pl : option pid) : option state :=
  if state_updated s cl pl then Some s else None.

(* one message: the state after the handler has returned, and - if listener.state_updated()
   was called - the state the manager was in DURING that call *)
Definition step_w (s : state) (m : msg) : state * option state :=
  match m with
  | SetState c dn p ps cmds q =>
      let s' := with_client c dn (upd_player p (handle_set_state ps cmds q)) s in
      (s', notify s' None (Some p))
  | UpdateContentItem c dn p upd =>
      let s' := with_client c dn (upd_player p (handle_content_item_update upd)) s in
      (s', notify s' None (Some p))
  | SetNowPlayingClient c dn =>
      let s1 := with_client c dn (fun x => x) s in
      let s' := {| s_active := Some c; s_clients := s_clients s1 |} in
      (s', notify s' None None)
  | SetNowPlayingPlayer c dn p =>
      let s' := with_client c dn
                  (fun cl => set_active_player (Some p) (upd_player p (fun x => x) cl)) s in
      (s', notify s' (Some c) None)
  | UpdateClient c dn =>
      let s' := with_client c dn (fun cl => set_dname (name_or dn (cl_dname cl)) cl) s in
      (s', notify s' (Some c) None)
  | RemoveClient c =>
      match aget c (s_clients s) with
      | None => (s, None)
      | Some _ =>
          let cls := adel c (s_clients s) in
          if opt_beq N.eqb (s_active s) (Some c)
          then let s' := {| s_active := None; s_clients := cls |} in
               (s', notify s' None None)
          else ({| s_active := s_active s; s_clients := cls |}, None)
      end
  | RemovePlayer c dn p =>
      let r := remove_player p (the_client c dn s) in
      let s' := put_client c (fst r) s in
      if snd r then (s', notify s' (Some c) None) else (s', None)
  | SetDefaultCommands c dn cmds =>
      let s' := with_client c dn (set_cmds cmds) s in
      (s', notify s' None None)
  end.

(* new state and whether the listener was woken *)
Definition step (s : state) (m : msg) : state * bool :=
  let r := step_w s m in (fst r, match snd r with Some _ => true | None => false end).

Definition run (h : list msg) : state := fold_left (fun s m => fst (step s m)) h init.

(* ------------------------------------------------------------------ what is reported *)
Inductive devstate := Idle | Playing | Paused | Stopped | Loading | Seeking.
Inductive mediatype := MUnknown | MMusic | MVideo.
Inductive shufflestate := ShOff | ShAlbums | ShSongs.
Inductive repeatstate := RpOff | RpTrack | RpAll.

Definition device_state (pl : player) : devstate :=
  match playback_state pl with
  | None => Idle
  | Some 1%N => Playing
  | Some 2%N => Paused
  | Some 3%N => Stopped
  | Some 4%N => Loading
  | Some 5%N => Seeking
  | Some _ => Paused
  end.

Definition media_type (pl : player) : mediatype :=
  match current_item pl with
  | None => MUnknown
  | Some it => match m_media (i_meta it) with
               | Some 1%N => MMusic | Some 2%N => MVideo | _ => MUnknown end
  end.

Definition total_time (pl : player) : option Z :=
  match field m_duration pl with
  | None => None
  | Some DNaN => None
  | Some (DFin d) => Some (Z.quot d 2)                 (* int(duration) *)
  end.

Definition is_playing (d : devstate) : bool := match d with Playing => true | _ => false end.

Definition position (now : Z) (pl : player) : option Z :=
  match field m_ts pl with
  | None => None
  | Some t =>
      if Z.eqb t 0 then None                           (* not elapsed_timestamp *)
      else
        let e := match field m_elapsed pl with Some e => e | None => 0 end in
        let r := match field m_rate pl with Some r => r | None => 0 end in
        if is_playing (device_state pl) && negb (Z.eqb r 0)
        then Some (Z.quot (e + 2 * (now - t)) 2)       (* int(elapsed_time + diff) *)
        else Some (Z.quot e 2)
  end.

(* command_info: first match in the player's commands, then the client's *)
Definition command_info (n : N) (own parent : list cmd) : option cmd :=
  find (fun c => N.eqb (c_cmd c) n) (own ++ parent).

Definition shuffle (own parent : list cmd) : shufflestate :=
  match command_info 47 own parent with
  | None => ShOff
  | Some c => if N.eqb (c_shuffle c) 1 then ShOff
              else if N.eqb (c_shuffle c) 2 then ShAlbums else ShSongs
  end.
Definition repeat_mode (own parent : list cmd) : repeatstate :=
  match command_info 46 own parent with
  | None => RpOff
  | Some c => if N.eqb (c_repeat c) 2 then RpTrack
              else if N.eqb (c_repeat c) 3 then RpAll else RpOff
  end.

(* Playing._post_process *)
Definition post_process (pos total : option Z) : option Z :=
  match pos with
  | None => None
  | Some p =>
      if Z.eqb p 0 then Some p                         (* if self._position: *)
      else
        let p1 := match total with
                  | None => p
                  | Some t => if Z.eqb t 0 then p else Z.min p t     (* if self._total_time: *)
                  end in
        Some (Z.max p1 0)
  end.

Record view := {
  v_media : mediatype; v_state : devstate;
  v_title : option N; v_artist : option N; v_album : option N; v_genre : option N;
  v_total : option Z; v_pos : option Z;
  v_shuffle : shufflestate; v_repeat : repeatstate; v_hash : option N;
  v_series : option N; v_season : option Z; v_episode : option Z;
  v_content : option N; v_itunes : option Z }.

(* build_playing_instance(state) followed by Playing.__init__; [parent] is
   state.parent.supported_commands *)
Definition view_of (now : Z) (pl : player) (parent : list cmd) : view :=
  let tot := total_time pl in
  {| v_media := media_type pl; v_state := device_state pl;
     v_title := field m_title pl; v_artist := field m_artist pl;
     v_album := field m_album pl; v_genre := field m_genre pl;
     v_total := tot; v_pos := post_process (position now pl) tot;
     v_shuffle := shuffle (p_cmds pl) parent; v_repeat := repeat_mode (p_cmds pl) parent;
     v_hash := match current_item pl with Some it => Some (i_id it) | None => None end;
     v_series := field m_series pl; v_season := field m_season pl;
     v_episode := field m_episode pl; v_content := field m_content pl;
     v_itunes := field m_itunes pl |}.

(* PlayerStateManager.playing together with its parent's default commands *)
Definition playing (s : state) : player * list cmd :=
  match s_active s with
  | None => (new_player, [])
  | Some c =>
      match aget c (s_clients s) with
      | None => (new_player, [])
      | Some cl =>
          (match cl_active cl with
           | Some a => the_player a cl
           | None => the_player DEFAULT_PLAYER cl
           end, cl_cmds cl)
      end
  end.

(* MrpMetadata.app: (display_name, bundle_identifier) of the active client *)
Definition app (s : state) : option (option N * cid) :=
  match s_active s with
  | None => None
  | Some c => match aget c (s_clients s) with
              | Some cl => Some (cl_dname cl, c)
              | None => Some (None, c)
              end
  end.

Definition observe (now : Z) (s : state) : option (option N * cid) * view :=
  (app s, let '(pl, parent) := playing s in view_of now pl parent).

(* ------------------------------------------------------------------ correspondence *)
Definition zN (o : option N) : option Z := match o with Some n => Some (Z.of_N n) | None => None end.
Definition flat (o : option (option N * cid) * view) : list (option Z) :=
  let '(a, v) := o in
  (match a with None => [None; None] | Some (d, c) => [Some (Z.of_N c); zN d] end) ++
  [ Some (match v_media v with MUnknown => 0 | MMusic => 1 | MVideo => 2 end);
    Some (match v_state v with Idle => 0 | Playing => 1 | Paused => 2 | Stopped => 3
                             | Loading => 4 | Seeking => 5 end);
    zN (v_title v); zN (v_artist v); zN (v_album v); zN (v_genre v);
    v_total v; v_pos v;
    Some (match v_shuffle v with ShOff => 0 | ShAlbums => 1 | ShSongs => 2 end);
    Some (match v_repeat v with RpOff => 0 | RpTrack => 1 | RpAll => 2 end);
    (* Playing.hash falls back to a digest of title/artist/album/total time when the item
       identifier is missing or ""; the harness maps that digest to None *)
    match v_hash v with Some 0%N => None | x => zN x end; zN (v_series v); v_season v; v_episode v; zN (v_content v); v_itunes v ].

(* per message: what is reported after it, and what the listener saw when it was woken *)
Definition wobs := (list (option Z) * option (list (option Z)))%type.
Fixpoint trace (now : Z) (s : state) (h : list msg) : list wobs :=
  match h with
  | [] => []
  | m :: t =>
      let r := step_w s m in
      (flat (observe now (fst r)),
       match snd r with Some sw => Some (flat (observe now sw)) | None => None end)
      :: trace now (fst r) t
  end.

Definition flat_beq := list_beq (opt_beq Z.eqb).
Definition obs_beq (a b : wobs) : bool :=
  flat_beq (fst a) (fst b) && opt_beq flat_beq (snd a) (snd b).

(* (now, history, observation before any message, per message: (observation after it, the
   LAST observation made inside listener.state_updated() while it was handled, if woken))
   as seen on the implementation *)
Definition check_case (c : Z * list msg * list (option Z) * list wobs) : bool :=
  let '(now, h, o0, tr) := c in
  flat_beq (flat (observe now init)) o0 && list_beq obs_beq (trace now init h) tr.

(* exhaustive enumeration: every sequence of length n over alphabet A (in the order of
   itertools.product), each preceded by [prefix]; expected = (index into table of the final
   observation, index of the observation at wake-up if woken) of the LAST message of each
   sequence.  Returns the indices that disagree. *)
Fixpoint seqs (A : list msg) (n : nat) : list (list msg) :=
  match n with
  | O => [[]]
  | S k => flat_map (fun m => map (cons m) (seqs A k)) A
  end.
Definition final (now : Z) (h : list msg) : wobs :=
  last (trace now init h) (flat (observe now init), None).
Fixpoint bad_from_N {A} (f : A -> bool) (i : N) (l : list A) : list N :=
  match l with
  | [] => []
  | x :: t => if f x then bad_from_N f (N.succ i) t else i :: bad_from_N f (N.succ i) t
  end.
Definition check_enum (now : Z) (prefix A : list msg) (n : nat)
    (table : list (list (option Z))) (expected : list (nat * option nat)) : option (list N) :=
  let hs := seqs A n in
  if Nat.eqb (length hs) (length expected)
  then Some (bad_from_N
               (fun x => obs_beq (final now (prefix ++ fst x))
                                 (nth (fst (snd x)) table [],
                                  match snd (snd x) with
                                  | Some i => Some (nth i table [])
                                  | None => None
                                  end))
               0%N (combine hs expected))
  else None.

(* Playing(position=pos, total_time=total).position = res *)
Definition check_clamp (c : option Z * option Z * option Z) : bool :=
  let '(pos, total, res) := c in opt_beq Z.eqb (post_process pos total) res.
