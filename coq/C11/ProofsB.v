(* C11 - consequences of the refinement, wake completeness, position clamp. *)
From Coq Require Import List Bool ZArith NArith Lia.
From PV Require Import Common.Cases C11.Model C11.Spec C11.ProofsA.
Import ListNotations.

Lemma rev_snoc {A} (h : list A) m : rev (h ++ [m]) = m :: rev h.
Proof. rewrite rev_app_distr. reflexivity. Qed.

Lemma run_snoc h m : run (h ++ [m]) = fst (step (run h) m).
Proof. unfold run. rewrite fold_left_app. reflexivity. Qed.

(* ------------------------------------------------------------------ observation, unfolded *)
Definition cur_player (cl : client) : player :=
  match cl_active cl with Some a => the_player a cl | None => the_player DEFAULT_PLAYER cl end.

Lemma observe_eq now s :
  observe now s =
  match s_active s with
  | None => idle now
  | Some c => match aget c (s_clients s) with
              | Some cl => (Some (cl_dname cl, c), view_of now (cur_player cl) (cl_cmds cl))
              | None => (Some (None, c), view_of now new_player [])
              end
  end.
Proof.
  unfold observe, app, playing, idle, cur_player.
  destruct (s_active s) as [c|]; [|reflexivity].
  destruct (aget c (s_clients s)) as [cl|]; [|reflexivity].
  destruct (cl_active cl); reflexivity.
Qed.

(* the active client is registered *)
Definition wf (s : state) : Prop :=
  forall c, s_active s = Some c -> exists cl, aget c (s_clients s) = Some cl.

Lemma wf_run h : wf (run h).
Proof.
  intros c A. destruct (R_run h) as [Ha Hc]. rewrite Ha in A. apply active_exists in A.
  specialize (Hc c). destruct (aget c (s_clients (run h))) as [cl|]; [eauto|contradiction].
Qed.

(* replacing a client's record is invisible unless it is the active client and what is
   reported from it changes *)
Lemma observe_put now s c cl' :
  (s_active s = Some c ->
   exists cl, aget c (s_clients s) = Some cl /\ cl_dname cl' = cl_dname cl /\
              cur_player cl' = cur_player cl /\ cl_cmds cl' = cl_cmds cl) ->
  observe now (put_client c cl' s) = observe now s.
Proof.
  intro H. rewrite !observe_eq. unfold put_client. cbn [s_active s_clients].
  destruct (s_active s) as [c0|]; [|reflexivity].
  rewrite aget_aset. destruct (N.eqb_spec c c0) as [->|N]; [|reflexivity].
  destruct (H eq_refl) as (cl & G & E1 & E2 & E3). rewrite G, E1, E2, E3. reflexivity.
Qed.

Lemma observe_put_other now s c cl' :
  s_active s <> Some c -> observe now (put_client c cl' s) = observe now s.
Proof. intro H. apply observe_put. intro A. contradiction. Qed.

(* a player that is not the one reported can be updated or created without effect *)
Lemma cur_player_upd p f cl :
  N.eqb p (active_player_id (upd_player p f cl)) = false ->
  cur_player (upd_player p f cl) = cur_player cl.
Proof.
  unfold active_player_id, cur_player, upd_player, put_player, the_player.
  cbn [cl_active cl_players]. intro H.
  destruct (cl_active cl) as [a|].
  - rewrite aget_aset, H. reflexivity.
  - rewrite aget_aset in H |- *.
    destruct (N.eqb_spec p DEFAULT_PLAYER) as [->|N]; [|reflexivity].
    rewrite N.eqb_refl in H. discriminate.
Qed.

Lemma cur_player_remove p cl :
  snd (remove_player p cl) = false -> cur_player (fst (remove_player p cl)) = cur_player cl.
Proof.
  unfold remove_player.
  destruct (N.eqb_spec p 0) as [->|N0]; cbn [fst snd].
  - (* "" : only created *)
    intros _. unfold cur_player, upd_player, put_player, the_player. cbn [cl_active cl_players].
    destruct (cl_active cl) as [a|]; rewrite aget_aset.
    + destruct (N.eqb_spec 0 a) as [<-|N]; reflexivity.
    + reflexivity.
  - destruct (N.eqb p (active_player_id (upd_player p (fun x => x) cl))) eqn:W; cbn [fst snd];
      [discriminate|]. intros _.
    rewrite <- (cur_player_upd p (fun x => x) cl W).
    unfold active_player_id in W.
    unfold cur_player, del_player, the_player. cbn [cl_active cl_players].
    destruct (cl_active (upd_player p (fun x => x) cl)) as [a|].
    + rewrite aget_adel, W. reflexivity.
    + rewrite aget_adel.
      destruct (N.eqb_spec p DEFAULT_PLAYER) as [->|N]; [|reflexivity].
      unfold upd_player, put_player in W. cbn [cl_players] in W.
      rewrite aget_aset in W. compute in W. discriminate.
Qed.

Lemma state_updated_player_false s p :
  state_updated s None (Some p) = false ->
  exists c0, s_active s = Some c0 /\ N.eqb p (playing_id s) = false.
Proof.
  unfold state_updated. destruct (s_active s) as [c0|]; cbn [opt_beq]; [|discriminate].
  rewrite orb_false_r. cbn [orb]. intro H. exists c0. split; [reflexivity|exact H].
Qed.

Lemma state_updated_client_false s c :
  state_updated s (Some c) None = false -> s_active s <> Some c.
Proof.
  unfold state_updated. rewrite !orb_false_r. intros H A. rewrite A in H. cbn [opt_beq] in H.
  rewrite N.eqb_refl in H. discriminate.
Qed.

Lemma state_updated_always s : state_updated s None None = true.
Proof. unfold state_updated. apply orb_true_r. Qed.

(* player-state messages (set state, content item update) that do not wake *)
Lemma silent_player_update now s c dn p f :
  wf s ->
  state_updated (with_client c dn (upd_player p f) s) None (Some p) = false ->
  observe now (with_client c dn (upd_player p f) s) = observe now s.
Proof.
  intros Hwf W. apply state_updated_player_false in W as (c0 & A & Hp).
  unfold with_client in *. cbn [put_client s_active] in A.
  apply observe_put. intro A'. destruct (Hwf c A') as (cl & G).
  exists cl. split; [exact G|]. unfold the_client. rewrite G.
  split; [reflexivity|]. split; [|reflexivity].
  apply cur_player_upd.
  unfold playing_id, put_client in Hp. cbn [s_active s_clients] in Hp.
  rewrite A', aget_aset, N.eqb_refl in Hp. unfold the_client in Hp. rewrite G in Hp. exact Hp.
Qed.

(* If a message did not wake the listener, what is reported did not change. *)
Lemma silent_step now s m :
  wf s -> snd (step s m) = false -> observe now (fst (step s m)) = observe now s.
Proof.
  intros Hwf W. rewrite step_eq in *. destruct m; cbn [step_old] in *; cbn [fst snd] in *.
  - apply silent_player_update; assumption.
  - apply silent_player_update; assumption.
  - rewrite state_updated_always in W. discriminate.
  - apply state_updated_client_false in W. apply observe_put_other. exact W.
  - apply state_updated_client_false in W. apply observe_put_other. exact W.
  - (* remove client *)
    destruct (aget c (s_clients s)) as [cl|] eqn:G; [|reflexivity].
    destruct (opt_beq N.eqb (s_active s) (Some c)) eqn:Act; cbn [fst snd] in *; [discriminate|].
    rewrite !observe_eq. cbn [s_active s_clients].
    destruct (s_active s) as [c0|]; [|reflexivity].
    cbn [opt_beq] in Act. rewrite aget_adel, N.eqb_sym, Act. reflexivity.
  - (* remove player *)
    destruct (snd (remove_player p (the_client c dn s))) eqn:Sr; cbn [fst snd] in *.
    + apply state_updated_client_false in W. apply observe_put_other. exact W.
    + apply observe_put. intro A. destruct (Hwf c A) as (cl & G). exists cl.
      split; [exact G|]. unfold the_client in *. rewrite G in *.
      split; [|split].
      * unfold remove_player. destruct (N.eqb p 0); [reflexivity|].
        destruct (N.eqb p (active_player_id (upd_player p (fun x => x) cl))); reflexivity.
      * apply cur_player_remove. exact Sr.
      * unfold remove_player. destruct (N.eqb p 0); [reflexivity|].
        destruct (N.eqb p (active_player_id (upd_player p (fun x => x) cl))); reflexivity.
  - rewrite state_updated_always in W. discriminate.
Qed.

Theorem wake_complete now h m :
  observe now (run (h ++ [m])) <> observe now (run h) -> snd (step (run h) m) = true.
Proof.
  intro H. destruct (snd (step (run h) m)) eqn:W; [reflexivity|].
  exfalso. apply H. rewrite run_snoc. apply silent_step; [apply wf_run|exact W].
Qed.

(* ... and the listener is woken while the manager already is in the new state: what it reads
   inside state_updated() is the new report *)
Lemma step_w_fst s m : fst (step_w s m) = fst (step s m).
Proof. reflexivity. Qed.

Theorem wake_complete_w now h m :
  observe now (run (h ++ [m])) <> observe now (run h) ->
  snd (step_w (run h) m) = Some (run (h ++ [m])).
Proof.
  intro H. apply wake_complete in H. unfold step in H. cbn [snd] in H.
  destruct (snd (step_w (run h) m)) as [sw|] eqn:W; [|discriminate].
  apply wake_is_final in W. rewrite W, run_snoc. reflexivity.
Qed.

Theorem wake_sees_final h m sw :
  snd (step_w (run h) m) = Some sw -> sw = run (h ++ [m]).
Proof. intro W. apply wake_is_final in W. rewrite W, run_snoc. reflexivity. Qed.

(* ------------------------------------------------------------------ other players *)
Definition elsewhere (rh : list msg) (m : msg) : Prop :=
  is_player_update m = true /\
  (spec_active rh <> Some (mclient m) \/
   mplayer m <> Some (effective (epoch (mclient m) rh))).

Lemma spec_dname_cons m e :
  e <> [] -> (forall c dn, m <> UpdateClient c dn) -> spec_dname (m :: e) = spec_dname e.
Proof.
  intros Ne NU. destruct e as [|m0 r]; [contradiction|].
  destruct m; try reflexivity. exfalso. eapply NU. reflexivity.
Qed.

Lemma reported_elsewhere now rh m : elsewhere rh m -> reported now (m :: rh) = reported now rh.
Proof.
  intros [U H]. unfold reported.
  assert (Hrc : is_rc m = false) by (destruct m; try discriminate; reflexivity).
  rewrite (spec_active_other m rh Hrc).
  replace (match m with SetNowPlayingClient c _ => Some c | _ => spec_active rh end)
    with (spec_active rh) by (destruct m; try discriminate; reflexivity).
  destruct (spec_active rh) as [c0|] eqn:A; [|reflexivity].
  rewrite (epoch_cons m c0 rh Hrc).
  destruct (N.eqb_spec (mclient m) c0) as [E|N]; [|reflexivity].
  destruct H as [H|H]; [congruence|]. rewrite E in H.
  pose proof (active_exists rh c0 A) as Ne.
  assert (Hap : spec_ap (m :: epoch c0 rh) = spec_ap (epoch c0 rh))
    by (destruct m; try discriminate; reflexivity).
  assert (Hcm : spec_cmds (m :: epoch c0 rh) = spec_cmds (epoch c0 rh))
    by (destruct m; try discriminate; reflexivity).
  assert (Hdn : spec_dname (m :: epoch c0 rh) = spec_dname (epoch c0 rh))
    by (apply spec_dname_cons; [exact Ne|intros c dn ->; discriminate]).
  unfold effective in *. rewrite Hap, Hcm, Hdn. f_equal. f_equal.
  set (x := match spec_ap (epoch c0 rh) with Some a => a | None => DEFAULT_PLAYER end) in *.
  destruct m; try discriminate; cbn [mplayer] in H; cbn [spec_player];
    (destruct (N.eqb_spec p x) as [->|Np]; [congruence|reflexivity]).
Qed.

(* player updates do not move the pointers *)
Lemma elsewhere_stable rh m m' : is_player_update m = true -> elsewhere (m :: rh) m' <-> elsewhere rh m'.
Proof.
  intro U.
  assert (Hrc : is_rc m = false) by (destruct m; try discriminate; reflexivity).
  assert (Ha : spec_active (m :: rh) = spec_active rh) by (destruct m; try discriminate; reflexivity).
  assert (He : forall c, effective (epoch c (m :: rh)) = effective (epoch c rh)).
  { intro c. rewrite (epoch_cons m c rh Hrc). destruct (N.eqb (mclient m) c); [|reflexivity].
    unfold effective. destruct m; try discriminate; reflexivity. }
  unfold elsewhere. rewrite Ha, He. reflexivity.
Qed.

Theorem other_players_irrelevant now h h' :
  Forall (elsewhere (rev h)) h' -> observe now (run (h ++ h')) = observe now (run h).
Proof.
  revert h. induction h' as [|m t IH]; intros h F.
  - rewrite app_nil_r. reflexivity.
  - inversion F as [|? ? Hm Ht]; subst.
    replace (h ++ m :: t) with ((h ++ [m]) ++ t) by (rewrite <- app_assoc; reflexivity).
    rewrite IH.
    + rewrite !refines, rev_snoc. apply reported_elsewhere. exact Hm.
    + rewrite rev_snoc.
      eapply Forall_impl; [|exact Ht]. intros m' Hm'.
      apply elsewhere_stable; [exact (proj1 Hm)|exact Hm'].
Qed.

(* ------------------------------------------------------------------ removal *)
Theorem remove_active_client now h c :
  spec_active (rev h) = Some c -> observe now (run (h ++ [RemoveClient c])) = idle now.
Proof.
  intro A. rewrite refines, rev_snoc. unfold reported. cbn [spec_active].
  rewrite A, N.eqb_refl. reflexivity.
Qed.

Theorem remove_active_player now h c dn p :
  spec_active (rev h) = Some c ->
  effective (epoch c (rev h)) = p -> p <> 0%N ->
  observe now (run (h ++ [RemovePlayer c dn p])) =
  (Some (spec_dname (epoch c (rev h)), c),
   view_of now (if N.eqb p DEFAULT_PLAYER then new_player
                else spec_player DEFAULT_PLAYER (epoch c (rev h)))
           (spec_cmds (epoch c (rev h)))).
Proof.
  intros A E N0. rewrite refines, rev_snoc. unfold reported.
  cbn [spec_active]. rewrite A. cbn [epoch mclient is_rc]. rewrite N.eqb_refl.
  pose proof (active_exists _ _ A) as Ne.
  set (e := epoch c (rev h)) in *.
  rewrite (spec_dname_cons (RemovePlayer c dn p) e Ne) by (intros ? ?; discriminate).
  assert (Hap : spec_ap (RemovePlayer c dn p :: e) = None).
  { cbn [spec_ap]. destruct (N.eqb_spec p 0) as [|_]; [contradiction|].
    unfold effective in E. destruct (spec_ap e) as [a|]; [|reflexivity].
    subst a. rewrite N.eqb_refl. reflexivity. }
  unfold effective at 1. rewrite Hap. cbn [spec_cmds spec_player].
  replace (N.eqb DEFAULT_PLAYER 0) with false by reflexivity. rewrite andb_true_r.
  reflexivity.
Qed.

(* ------------------------------------------------------------------ position clamp *)
Lemma post_process_bounds pos total p :
  post_process pos total = Some p ->
  0 <= p /\ (forall t, total = Some t -> 0 < t -> p <= t).
Proof.
  unfold post_process. destruct pos as [q|]; [|discriminate].
  destruct (Z.eqb_spec q 0) as [->|Nq].
  - intro H. injection H as <-. split; [lia|]. intros; lia.
  - intro H. injection H as <-. split; [lia|].
    intros t -> Ht. destruct (Z.eqb_spec t 0) as [->|_]; lia.
Qed.

Lemma post_process_faithful p total :
  0 <= p -> (forall t, total = Some t -> p <= t) -> post_process (Some p) total = Some p.
Proof.
  intros Hp Ht. unfold post_process. destruct (Z.eqb_spec p 0) as [->|N]; [reflexivity|].
  f_equal. destruct total as [t|]; [|lia].
  specialize (Ht t eq_refl). destruct (Z.eqb t 0); lia.
Qed.

Lemma observe_view now s :
  snd (observe now s) = view_of now (fst (playing s)) (snd (playing s)).
Proof. unfold observe. destruct (playing s); reflexivity. Qed.

Theorem position_clamped now h p :
  v_pos (snd (observe now (run h))) = Some p ->
  0 <= p /\ (forall t, v_total (snd (observe now (run h))) = Some t -> 0 < t -> p <= t).
Proof. rewrite observe_view. cbn [view_of v_pos v_total]. apply post_process_bounds. Qed.

(* ------------------------------------------------------------------ latest state wins *)
(* a complete set-state for the reported player replaces everything known about it *)
Theorem full_set_state_reported now h c dn p ps cmds items loc :
  spec_active (rev h) = Some c -> effective (epoch c (rev h)) = p ->
  observe now (run (h ++ [SetState c dn p (Some ps) (Some cmds) (Some (items, loc))])) =
  (Some (spec_dname (epoch c (rev h)), c),
   view_of now {| p_state := Some ps; p_cmds := cmds; p_items := items; p_loc := loc |}
           (spec_cmds (epoch c (rev h)))).
Proof.
  intros A E. rewrite refines, rev_snoc. unfold reported. cbn [spec_active]. rewrite A.
  cbn [epoch mclient is_rc]. rewrite N.eqb_refl.
  pose proof (active_exists _ _ A) as Ne.
  set (e := epoch c (rev h)) in *.
  rewrite (spec_dname_cons _ e Ne) by (intros ? ?; discriminate).
  unfold effective in *. cbn [spec_ap spec_cmds]. rewrite E. cbn [spec_player].
  rewrite N.eqb_refl. reflexivity.
Qed.
