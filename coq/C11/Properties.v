(* C11 - property theorems only.  Histories [h] are in arrival order; the specification
   functions of Spec.v read them most-recent-first, hence [rev h].
   [run h] is the state of the modelled PlayerStateManager after h, [observe now s] what
   metadata.app / metadata.playing() report from it when the wall clock shows [now],
   [snd (step s m)] whether handling m called listener.state_updated(). *)
From Coq Require Import List Bool ZArith NArith.
From PV Require Import C11.Model C11.Spec C11.ProofsA C11.ProofsB.
Import ListNotations.
Open Scope Z_scope.

(* What is reported after ANY message sequence is the latest state of the active player of
   the active client, as defined on the history alone (Spec.reported): the client named by the
   latest set-now-playing-client not removed since; of the messages addressed to that client
   since its last removal, the player named by the latest set-now-playing-player not removed
   since (else the default player); and of that player only the set-state / content-item
   updates addressed to it since it was last removed. *)
Theorem C11_refines : forall now h, observe now (run h) = reported now (rev h).
Proof. exact refines. Qed.
Print Assumptions C11_refines.

(* Any number of set-state / content-item-update messages about players other than the
   active player of the active client never change what is reported. *)
Theorem C11_other_players_irrelevant : forall now h h',
  Forall (fun m =>
            is_player_update m = true /\
            (spec_active (rev h) <> Some (mclient m) \/
             mplayer m <> Some (effective (epoch (mclient m) (rev h))))) h' ->
  observe now (run (h ++ h')) = observe now (run h).
Proof. exact other_players_irrelevant. Qed.
Print Assumptions C11_other_players_irrelevant.

(* "Most recent state": a complete set-state addressed to the active player of the active
   client is reported as is, whatever was known about that player before. *)
Theorem C11_latest_state_reported : forall now h c dn p ps cmds items loc,
  spec_active (rev h) = Some c -> effective (epoch c (rev h)) = p ->
  observe now (run (h ++ [SetState c dn p (Some ps) (Some cmds) (Some (items, loc))])) =
  (Some (spec_dname (epoch c (rev h)), c),
   view_of now {| p_state := Some ps; p_cmds := cmds; p_items := items; p_loc := loc |}
           (spec_cmds (epoch c (rev h)))).
Proof. exact full_set_state_reported. Qed.
Print Assumptions C11_latest_state_reported.

(* Removing the active client returns the report to idle (no app, idle player). *)
Theorem C11_remove_active_client_idle : forall now h c,
  spec_active (rev h) = Some c ->
  observe now (run (h ++ [RemoveClient c])) = (None, view_of now new_player []).
Proof. exact remove_active_client. Qed.
Print Assumptions C11_remove_active_client_idle.

(* Removing the active player of the active client (explicitly active, or the implicitly
   active default player) keeps the app and falls back to the default player's state - or to
   the idle player when it was the default player that went away. *)
Theorem C11_remove_active_player_falls_back : forall now h c dn p,
  spec_active (rev h) = Some c ->
  effective (epoch c (rev h)) = p -> p <> 0%N ->
  observe now (run (h ++ [RemovePlayer c dn p])) =
  (Some (spec_dname (epoch c (rev h)), c),
   view_of now (if N.eqb p DEFAULT_PLAYER then new_player
                else spec_player DEFAULT_PLAYER (epoch c (rev h)))
           (spec_cmds (epoch c (rev h)))).
Proof. exact remove_active_player. Qed.
Print Assumptions C11_remove_active_player_falls_back.

(* Whenever a message changes what is reported, the listener is woken by that message - and
   it is woken while the manager already is in the state reached after the message
   ([step_w] carries the state during the call of state_updated()): a listener that reads
   metadata.playing() inside state_updated(), as MrpPushUpdater does, sees the NEW report. *)
Theorem C11_wake_complete : forall now h m,
  observe now (run (h ++ [m])) <> observe now (run h) ->
  snd (step_w (run h) m) = Some (run (h ++ [m])) /\ snd (step (run h) m) = true.
Proof. intros now h m H. split; [exact (wake_complete_w now h m H)|exact (wake_complete now h m H)]. Qed.
Print Assumptions C11_wake_complete.

(* Every wake-up (also one that changes nothing) is the handler's last action: the state the
   listener runs in is the state after the message, so what it reads is never stale. *)
Theorem C11_wake_sees_final_state : forall now h m sw,
  snd (step_w (run h) m) = Some sw ->
  sw = run (h ++ [m]) /\ observe now sw = observe now (run (h ++ [m])).
Proof. intros now h m sw W. apply wake_sees_final in W. subst sw. split; reflexivity. Qed.
Print Assumptions C11_wake_sees_final_state.

(* The reported position is never negative, and never beyond a positive total time. *)
Theorem C11_position_clamped : forall now h p,
  v_pos (snd (observe now (run h))) = Some p ->
  0 <= p /\ (forall t, v_total (snd (observe now (run h))) = Some t -> 0 < t -> p <= t).
Proof. exact position_clamped. Qed.
Print Assumptions C11_position_clamped.

(* ... but a total time of 0 is treated as unknown (`if self._total_time:`): a paused player
   10 s into an item whose duration is 0 is reported at position 10 of 0.  [known finding
   C11:clamp:zero-total] *)
Definition zero_total_history : list msg :=
  [ SetNowPlayingClient 1%N 0%N;
    SetState 1%N 0%N 1%N (Some 2%N) None
      (Some ([ {| i_id := 1%N; i_meta :=
                  {| m_title := Some 1%N; m_artist := None; m_album := None; m_genre := None;
                     m_series := None; m_content := None; m_season := None; m_episode := None;
                     m_itunes := None; m_duration := Some (DFin 0); m_elapsed := Some 20;
                     m_ts := Some 5; m_rate := None; m_media := None |} |} ], 0%N)) ].
Theorem C11_position_zero_total_refuted : exists now h p,
  v_pos (snd (observe now (run h))) = Some p /\
  v_total (snd (observe now (run h))) = Some 0 /\ 0 < p.
Proof. exists 100, zero_total_history, 10. vm_compute. repeat split. Qed.
Print Assumptions C11_position_zero_total_refuted.

(* The same three facts for interface.Playing on its own, for every position / total time. *)
Theorem C11_playing_clamped : forall pos total p,
  post_process pos total = Some p ->
  0 <= p /\ (forall t, total = Some t -> 0 < t -> p <= t).
Proof. exact post_process_bounds. Qed.
Print Assumptions C11_playing_clamped.

Theorem C11_playing_position_faithful : forall p total,
  0 <= p -> (forall t, total = Some t -> p <= t) -> post_process (Some p) total = Some p.
Proof. exact post_process_faithful. Qed.
Print Assumptions C11_playing_position_faithful.

Theorem C11_playing_zero_total_refuted : exists pos p,
  post_process (Some pos) (Some 0) = Some p /\ 0 < p.
Proof. exists 10, 10. vm_compute. repeat split. Qed.
Print Assumptions C11_playing_zero_total_refuted.

(* ------------------------------------------------------------------ non-vacuity *)
Definition song (title : N) : item :=
  {| i_id := 1%N; i_meta :=
     {| m_title := Some title; m_artist := None; m_album := None; m_genre := None;
        m_series := None; m_content := None; m_season := None; m_episode := None;
        m_itunes := None; m_duration := Some (DFin 100); m_elapsed := Some 20;
        m_ts := Some 96; m_rate := Some RATE_ONE; m_media := Some 1%N |} |}.

(* client 1 active, its player 2 explicitly active and playing; default player paused *)
Definition ex_h : list msg :=
  [ SetState 1%N 4%N 1%N (Some 2%N) None (Some ([song 3], 0%N));
    SetNowPlayingClient 1%N 0%N;
    SetNowPlayingPlayer 1%N 0%N 2%N;
    SetState 1%N 0%N 2%N (Some 1%N) None (Some ([song 1], 0%N)) ].

Example C11_ex_reported :
  flat (observe 100 (run ex_h)) =
  [Some 1; Some 4; Some 1; Some 1; Some 1; None; None; None; Some 50; Some 14;
   Some 0; Some 0; Some 1; None; None; None; None; None]%Z.
Proof. vm_compute. reflexivity. Qed.

(* the hypothesis of C11_other_players_irrelevant is met by real traffic for other players *)
Example C11_ex_elsewhere :
  Forall (fun m =>
            is_player_update m = true /\
            (spec_active (rev ex_h) <> Some (mclient m) \/
             mplayer m <> Some (effective (epoch (mclient m) (rev ex_h)))))
    [ SetState 1%N 0%N 3%N (Some 1%N) None (Some ([song 2], 0%N));
      UpdateContentItem 1%N 0%N 1%N [song 2];
      SetState 2%N 5%N 2%N (Some 1%N) None (Some ([song 2], 0%N)) ].
Proof.
  apply Forall_cons; [split; [reflexivity|right; vm_compute; discriminate]|].
  apply Forall_cons; [split; [reflexivity|right; vm_compute; discriminate]|].
  apply Forall_cons; [split; [reflexivity|left; vm_compute; discriminate]|].
  apply Forall_nil.
Qed.

(* the premise of C11_wake_complete is satisfiable: an update of the active player changes
   the report (and the theorem then says the listener was woken) *)
Example C11_ex_change :
  observe 100 (run (ex_h ++ [UpdateContentItem 1%N 0%N 2%N [song 2]])) <> observe 100 (run ex_h).
Proof. intro H. vm_compute in H. discriminate. Qed.

(* the hypotheses of C11_remove_active_player_falls_back hold for ex_h, and the fallback is
   the (non-idle) default player *)
Example C11_ex_fallback :
  spec_active (rev ex_h) = Some 1%N /\ effective (epoch 1%N (rev ex_h)) = 2%N /\
  flat (observe 100 (run (ex_h ++ [RemovePlayer 1%N 0%N 2%N]))) =
  [Some 1; Some 4; Some 1; Some 2; Some 3; None; None; None; Some 50; Some 10;
   Some 0; Some 0; Some 1; None; None; None; None; None]%Z.
Proof. vm_compute. repeat split. Qed.

(* regression witness of the missed wake-up repaired by 3107610: removing the implicitly
   active default player changes the report, and the (fixed) code wakes the listener *)
Definition old_wake_witness : list msg :=
  [ SetNowPlayingClient 1%N 0%N; SetState 1%N 0%N 1%N (Some 1%N) None (Some ([song 1], 0%N)) ].
Example C11_ex_default_player_removed :
  observe 100 (run (old_wake_witness ++ [RemovePlayer 1%N 0%N 1%N])) <> observe 100 (run old_wake_witness) /\
  snd (step (run old_wake_witness) (RemovePlayer 1%N 0%N 1%N)) = true /\
  snd (step_w (run old_wake_witness) (RemovePlayer 1%N 0%N 1%N)) =
    Some (run (old_wake_witness ++ [RemovePlayer 1%N 0%N 1%N])).
Proof. split; [intro H; vm_compute in H; discriminate|split; vm_compute; reflexivity]. Qed.
