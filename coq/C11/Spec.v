(* C11 - the property as a function of the message HISTORY (most recent message first),
   written from the property text: no registry, no get-or-create, no pointers.

     - the active client is the one named by the latest set-now-playing-client, unless it
       has been removed since;
     - only the messages addressed to that client since its last removal matter ([epoch]);
     - its active player is the one named by the latest set-now-playing-player, unless that
       player has been removed since; without one it is the default player;
     - the state of that player is what the set-state / content-item-update messages
       addressed to it, since it was last removed, add up to;
     - app name: the name carried by the first message of the epoch, later changed only by
       update-client; default commands: the latest set-default-supported-commands.

   What one set-state / content-item-update does to a player and how a player state is
   turned into the reported values (handle_set_state, handle_content_item_update, view_of)
   is shared with the model; the bookkeeping is not. *)
From Coq Require Import List Bool ZArith NArith.
From PV Require Import C11.Model.
Import ListNotations.

Definition mclient (m : msg) : cid :=
  match m with
  | SetState c _ _ _ _ _ | UpdateContentItem c _ _ _ | SetNowPlayingClient c _
  | SetNowPlayingPlayer c _ _ | UpdateClient c _ | RemoveClient c | RemovePlayer c _ _
  | SetDefaultCommands c _ _ => c
  end.
Definition mdname (m : msg) : N :=
  match m with
  | SetState _ d _ _ _ _ | UpdateContentItem _ d _ _ | SetNowPlayingClient _ d
  | SetNowPlayingPlayer _ d _ | UpdateClient _ d | RemovePlayer _ d _
  | SetDefaultCommands _ d _ => d
  | RemoveClient _ => 0%N
  end.
(* player identifier a message is addressed to, if it names one *)
Definition mplayer (m : msg) : option pid :=
  match m with
  | SetState _ _ p _ _ _ | UpdateContentItem _ _ p _ | SetNowPlayingPlayer _ _ p
  | RemovePlayer _ _ p => Some p
  | _ => None
  end.
(* set-state and content-item-update: the messages that carry a player's state *)
Definition is_player_update (m : msg) : bool :=
  match m with SetState _ _ _ _ _ _ | UpdateContentItem _ _ _ _ => true | _ => false end.
Definition is_rc (m : msg) : bool := match m with RemoveClient _ => true | _ => false end.

Fixpoint spec_active (rh : list msg) : option cid :=
  match rh with
  | [] => None
  | SetNowPlayingClient c _ :: _ => Some c
  | RemoveClient c :: r =>
      match spec_active r with
      | Some a => if N.eqb a c then None else Some a
      | None => None
      end
  | _ :: r => spec_active r
  end.

(* messages addressed to client c since it was last removed *)
Fixpoint epoch (c : cid) (rh : list msg) : list msg :=
  match rh with
  | [] => []
  | m :: r =>
      if N.eqb (mclient m) c
      then (if is_rc m then [] else m :: epoch c r)
      else epoch c r
  end.

Fixpoint spec_dname (e : list msg) : option N :=
  match e with
  | [] => None
  | m :: r =>
      match r with
      | [] => name_or (mdname m) None
      | _ :: _ => match m with
                  | UpdateClient _ dn => name_or dn (spec_dname r)
                  | _ => spec_dname r
                  end
      end
  end.

Fixpoint spec_cmds (e : list msg) : list cmd :=
  match e with
  | [] => []
  | SetDefaultCommands _ _ l :: _ => l
  | _ :: r => spec_cmds r
  end.

Fixpoint spec_ap (e : list msg) : option pid :=
  match e with
  | [] => None
  | SetNowPlayingPlayer _ _ p :: _ => Some p
  | RemovePlayer _ _ p :: r =>
      if N.eqb p 0 then spec_ap r
      else match spec_ap r with
           | Some a => if N.eqb a p then None else Some a
           | None => None
           end
  | _ :: r => spec_ap r
  end.

Fixpoint spec_player (p : pid) (e : list msg) : player :=
  match e with
  | [] => new_player
  | m :: r =>
      match m with
      | SetState _ _ p' ps cmds q =>
          if N.eqb p' p then handle_set_state ps cmds q (spec_player p r) else spec_player p r
      | UpdateContentItem _ _ p' upd =>
          if N.eqb p' p then handle_content_item_update upd (spec_player p r) else spec_player p r
      | RemovePlayer _ _ p' =>
          if N.eqb p' p && negb (N.eqb p 0) then new_player else spec_player p r
      | _ => spec_player p r
      end
  end.

(* the player whose state is reported for an epoch *)
Definition effective (e : list msg) : pid :=
  match spec_ap e with Some a => a | None => DEFAULT_PLAYER end.

Definition idle (now : Z) : option (option N * cid) * view := (None, view_of now new_player []).

Definition reported (now : Z) (rh : list msg) : option (option N * cid) * view :=
  match spec_active rh with
  | None => idle now
  | Some c =>
      let e := epoch c rh in
      (Some (spec_dname e, c), view_of now (spec_player (effective e) e) (spec_cmds e))
  end.
