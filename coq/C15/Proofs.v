From Coq Require Import List Bool Arith NArith Lia.
From PV Require Import Common.Cases C15.Model.
Import ListNotations.

(* ---- association lists ---------------------------------------------------------- *)

Lemma lookup_fdel_same p d : lookup p (fdel p d) = None.
Proof.
  induction d as [|[q c] t IH]; simpl; [reflexivity|].
  destruct (Nat.eqb p q) eqn:E; [assumption|]. simpl. now rewrite E.
Qed.

Lemma lookup_fdel_other p q d : p <> q -> lookup q (fdel p d) = lookup q d.
Proof.
  intro N. induction d as [|[r c] t IH]; simpl; [reflexivity|].
  destruct (Nat.eqb p r) eqn:E.
  - apply Nat.eqb_eq in E; subst r.
    destruct (Nat.eqb q p) eqn:E2; [apply Nat.eqb_eq in E2; congruence|assumption].
  - simpl. now rewrite IH.
Qed.

Lemma lookup_fset_same p c d : lookup p (fset p c d) = Some c.
Proof. unfold fset; simpl. now rewrite Nat.eqb_refl. Qed.

Lemma lookup_fset_other p q c d : p <> q -> lookup q (fset p c d) = lookup q d.
Proof.
  intro N. unfold fset; simpl.
  destruct (Nat.eqb q p) eqn:E; [apply Nat.eqb_eq in E; congruence|].
  now apply lookup_fdel_other.
Qed.

Lemma lookup_fappend_other p q x d : p <> q -> lookup q (fappend p x d) = lookup q d.
Proof. intro N. unfold fappend. destruct (lookup p d); now apply lookup_fset_other. Qed.

Lemma lookup_fappend_same p x d c : lookup p d = Some c -> lookup p (fappend p x d) = Some (c ++ x).
Proof. intro H. unfold fappend. rewrite H. apply lookup_fset_same. Qed.

(* a crash only touches the files that are open *)
Lemma crash_disks_other q : forall pending d c,
  (forall p b, In (p, b) pending -> p <> q) ->
  In c (crash_disks pending d) -> lookup q c = lookup q d.
Proof.
  induction pending as [|[p b] t IH]; intros d c Hp Hin; simpl in Hin.
  - destruct Hin as [<-|[]]. reflexivity.
  - apply in_flat_map in Hin as (x & _ & Hin).
    rewrite (IH _ _ (fun p' b' H => Hp p' b' (or_intror H)) Hin).
    apply lookup_fappend_other. apply (Hp p b). now left.
Qed.

Lemma prefixes_spec : forall b x, In x (prefixes b) <-> exists n, x = firstn n b.
Proof.
  induction b as [|y t IH]; intro x; simpl.
  - split.
    + intros [<-|[]]. now exists 0.
    + intros [n ->]. left. now destruct n.
  - split.
    + intros [<-|H]; [now exists 0|].
      apply in_map_iff in H as (z & <- & Hz). apply IH in Hz as [n ->]. now exists (S n).
    + intros [[|n] ->]; simpl; [now left|]. right. apply in_map. apply IH. now exists n.
Qed.

Lemma overlay_nil d : overlay [] d = d.
Proof. induction d as [|[p c] r IH]; simpl; [reflexivity|]. now rewrite IH. Qed.

Lemma lookup_overlay tl q d :
  lookup q (overlay tl d) = match lookup q d with Some c => Some (visible tl q c) | None => None end.
Proof.
  induction d as [|[p c] r IH]; simpl; [reflexivity|].
  destruct (Nat.eqb q p) eqn:E; [|assumption]. apply Nat.eqb_eq in E. now subst.
Qed.

Lemma crash_at_notails s : tails s = [] -> crash_at s = crash_disks (bufs s) (disk s).
Proof.
  intro H. unfold crash_at. rewrite H. rewrite <- (map_id (crash_disks (bufs s) (disk s))) at 2.
  apply map_ext. apply overlay_nil.
Qed.

(* ---- run / exec / crash_states over concatenation ----------------------------------- *)

Lemma run_app : forall a b s,
  run (a ++ b) s = run a s ++ match exec a s with Some s' => run b s' | None => [] end.
Proof.
  induction a as [|o a IH]; intros b s; simpl; [reflexivity|].
  destruct (step o s) as [s'|]; [|reflexivity]. simpl. now rewrite IH.
Qed.

Lemma exec_app : forall a b s,
  exec (a ++ b) s = match exec a s with Some s' => exec b s' | None => None end.
Proof.
  induction a as [|o a IH]; intros b s; simpl; [reflexivity|].
  destruct (step o s) as [s'|]; [apply IH|reflexivity].
Qed.

Lemma crash_states_app a b s c :
  In c (crash_states (a ++ b) s) ->
  In c (crash_states a s) \/ exists s', exec a s = Some s' /\ In c (crash_states b s').
Proof.
  unfold crash_states. rewrite run_app. simpl. rewrite flat_map_app, !in_app_iff.
  intros [H|[H|H]]; [left; now left|left; now right|].
  destruct (exec a s) as [s'|]; [|contradiction].
  right. exists s'. split; [reflexivity|]. simpl. apply in_app_iff. now right.
Qed.

Lemma exec_in_run : forall ops s sf, exec ops s = Some sf -> In sf (s :: run ops s).
Proof.
  induction ops as [|o ops IH]; intros s sf H; simpl in *.
  - inversion H. now left.
  - destruct (step o s) as [s'|]; [|discriminate]. right. now apply IH.
Qed.

(* ---- the temp-file protocol ---------------------------------------------------------- *)

Section TmpRename.
Variables tmp target : path.
Hypothesis Hneq : tmp <> target.

Definition quiet (d0 : fs) (s : st) : Prop :=
  lookup target (disk s) = lookup target d0 /\ (forall p b, In (p, b) (bufs s) -> p = tmp) /\ tails s = [].

Lemma quiet_safe d0 s c : quiet d0 s -> In c (crash_at s) -> lookup target c = lookup target d0.
Proof.
  intros [Hd [Hb Ht]] Hin. rewrite (crash_at_notails s Ht) in Hin.
  rewrite (crash_disks_other target (bufs s) (disk s) c); [assumption| |assumption].
  intros p b Hp. rewrite (Hb p b Hp). assumption.
Qed.

Lemma writes_run rest : forall chunks D acc,
  exists mids,
    run (map (Write tmp) chunks ++ rest) {| disk := D; bufs := [(tmp, acc)]; tails := [] |}
      = mids ++ run rest {| disk := D; bufs := [(tmp, acc ++ concat chunks)]; tails := [] |}
    /\ exec (map (Write tmp) chunks) {| disk := D; bufs := [(tmp, acc)]; tails := [] |}
      = Some {| disk := D; bufs := [(tmp, acc ++ concat chunks)]; tails := [] |}
    /\ Forall (fun s => disk s = D /\ (exists b, bufs s = [(tmp, b)]) /\ tails s = []) mids.
Proof.
  induction chunks as [|c chunks IH]; intros D acc.
  - exists []. simpl. rewrite app_nil_r. repeat split. constructor.
  - simpl. rewrite Nat.eqb_refl. unfold fset. simpl. rewrite Nat.eqb_refl.
    destruct (IH D (acc ++ c)) as (mids & Hrun & Hex & Hall).
    exists ({| disk := D; bufs := [(tmp, acc ++ c)]; tails := [] |} :: mids).
    rewrite Hrun, Hex, <- app_assoc. repeat split.
    constructor; [|assumption]. simpl. split; [reflexivity|]. split; [now exists (acc ++ c)|reflexivity].
Qed.

(* the complete run of one save from any state without open files *)
Lemma save_run chunks d0 :
  exists mids sf,
    run (save_ops tmp target chunks) (init d0) = mids ++ [sf]
    /\ exec (save_ops tmp target chunks) (init d0) = Some sf
    /\ Forall (quiet d0) mids
    /\ lookup target (disk sf) = Some (concat chunks)
    /\ lookup tmp (disk sf) = None
    /\ bufs sf = []
    /\ tails sf = []
    /\ (forall q, q <> tmp -> q <> target -> lookup q (disk sf) = lookup q d0).
Proof.
  unfold save_ops, init.
  set (D := fset tmp [] d0).
  assert (HDt : lookup tmp D = Some []) by apply lookup_fset_same.
  assert (HDo : forall q, tmp <> q -> lookup q D = lookup q d0)
    by (intros q N; now apply lookup_fset_other).
  destruct (writes_run [Flush tmp; Fsync tmp; Close tmp; Rename tmp target] chunks D [])
    as (mids & Hrun & _ & Hall).
  destruct (writes_run [] chunks D []) as (_ & _ & Hex & _).
  cbn [app] in Hrun, Hex.
  set (new := concat chunks) in *.
  (* the four closing calls, computed *)
  set (D1 := fappend tmp new D).
  assert (H1t : lookup tmp D1 = Some new) by (unfold D1; now rewrite (lookup_fappend_same tmp new D [] HDt)).
  assert (H1o : forall q, tmp <> q -> lookup q D1 = lookup q d0)
    by (intros q N; unfold D1; rewrite lookup_fappend_other by assumption; now apply HDo).
  set (D2 := fappend tmp [] D1).
  assert (H2t : lookup tmp D2 = Some new)
    by (unfold D2; rewrite (lookup_fappend_same tmp [] D1 new H1t); now rewrite app_nil_r).
  assert (H2o : forall q, tmp <> q -> lookup q D2 = lookup q d0)
    by (intros q N; unfold D2; rewrite lookup_fappend_other by assumption; now apply H1o).
  set (sA := {| disk := D1; bufs := [(tmp, [])]; tails := [] |}).
  set (sC := {| disk := D2; bufs := []; tails := [] |}).
  set (sF := {| disk := fset target new (fdel tmp D2); bufs := []; tails := [] |}).
  assert (Htail : run [Flush tmp; Fsync tmp; Close tmp; Rename tmp target]
                      {| disk := D; bufs := [(tmp, new)]; tails := [] |} = [sA; sA; sC; sF]
                  /\ exec [Flush tmp; Fsync tmp; Close tmp; Rename tmp target]
                      {| disk := D; bufs := [(tmp, new)]; tails := [] |} = Some sF).
  { simpl. rewrite !Nat.eqb_refl. unfold fset at 1 3. simpl. rewrite !Nat.eqb_refl. simpl.
    fold D1. fold sA. simpl. rewrite !Nat.eqb_refl. simpl. fold D2. rewrite H2t. simpl.
    fold sC. fold sF. split; reflexivity. }
  destruct Htail as [Htr Hte].
  exists ({| disk := D; bufs := [(tmp, [])]; tails := [] |} :: mids ++ [sA; sA; sC]), sF.
  repeat split.
  - simpl. fold D. unfold fset at 2. simpl.
    rewrite Hrun, Htr, <- app_assoc. reflexivity.
  - simpl. fold D. unfold fset. simpl.
    rewrite exec_app, Hex. exact Hte.
  - constructor.
    + split; simpl; [now apply HDo|]. split; [|reflexivity]. intros p b [E|[]]. now inversion E.
    + apply Forall_app. split.
      * eapply Forall_impl; [|exact Hall]. intros s [Hd [(b & Hb) Ht]]. split; [|split; [|assumption]].
        -- rewrite Hd. now apply HDo.
        -- rewrite Hb. intros p b' [E|[]]. now inversion E.
      * repeat constructor; simpl; try (now apply H1o); try (now apply H2o);
          try (intros p b [E|[]]; now inversion E); try (intros p b []).
  - unfold sF; cbn [disk]. apply lookup_fset_same.
  - unfold sF; cbn [disk]. rewrite lookup_fset_other by (intro E; apply Hneq; now symmetry).
    apply lookup_fdel_same.
  - intros q N1 N2. unfold sF; cbn [disk]. rewrite lookup_fset_other by (intro E; apply N2; now symmetry).
    rewrite lookup_fdel_other by (intro E; apply N1; now symmetry).
    apply H2o. intro E; apply N1; now symmetry.
Qed.

Theorem tmp_rename_atomic chunks d0 c :
  In c (crash_states (save_ops tmp target chunks) (init d0)) ->
  lookup target c = lookup target d0 \/ lookup target c = Some (concat chunks).
Proof.
  destruct (save_run chunks d0) as (mids & sf & Hrun & _ & Hq & Ht & _ & Hb & Htl & _).
  unfold crash_states. rewrite Hrun. cbn [flat_map]. rewrite in_app_iff, flat_map_app, in_app_iff.
  intros [H|[H|H]].
  - left. apply (quiet_safe d0 (init d0)); [|assumption]. split; [reflexivity|]. split; [|reflexivity]. intros p b [].
  - left. apply in_flat_map in H as (s & Hs & Hc).
    rewrite Forall_forall in Hq. exact (quiet_safe d0 s c (Hq s Hs) Hc).
  - right. simpl in H. rewrite app_nil_r in H. rewrite (crash_at_notails sf Htl) in H. rewrite Hb in H.
    simpl in H. destruct H as [<-|[]]. assumption.
Qed.

Theorem save_completes chunks d0 :
  exists sf, exec (save_ops tmp target chunks) (init d0) = Some sf
    /\ lookup target (disk sf) = Some (concat chunks)
    /\ lookup tmp (disk sf) = None
    /\ bufs sf = []
    /\ tails sf = []
    /\ (forall q, q <> tmp -> q <> target -> lookup q (disk sf) = lookup q d0).
Proof.
  destruct (save_run chunks d0) as (mids & sf & _ & Hex & _ & Ht & Htm & Hb & Htl & Ho).
  exists sf. repeat split; assumption.
Qed.

(* ---- a call of the save fails --------------------------------------------------------------- *)

Lemma crash_states_prefix pre post s c :
  In c (crash_states pre s) -> In c (crash_states (pre ++ post) s).
Proof.
  unfold crash_states. rewrite run_app. simpl. rewrite flat_map_app, !in_app_iff.
  intros [H|H]; [now left|right; now left].
Qed.

Lemma In_fdel p q b l : In (p, b) (fdel q l) -> In (p, b) l.
Proof.
  induction l as [|[r c] t IH]; simpl; [auto|].
  destruct (Nat.eqb q r); simpl; intro H; [right; now apply IH|].
  destruct H as [H|H]; [now left|right; now apply IH].
Qed.

(* calls that only concern the temporary file *)
Definition tmp_only (o : op) : Prop :=
  o = Close tmp \/ o = Flush tmp \/ o = Fsync tmp \/ (exists k, o = FlushShort tmp k) \/ (exists b, o = Write tmp b).

Lemma In_fset p q b c l : In (p, b) (fset q c l) -> p = q \/ In (p, b) l.
Proof. unfold fset. intros [H|H]; [left; now inversion H|right; eapply In_fdel; eassumption]. Qed.

Lemma quiet_step d0 o s s' : tmp_only o -> quiet d0 s -> step o s = Some s' -> quiet d0 s'.
Proof.
  intros T [Hd [Hb Ht]] H.
  destruct T as [->|[->|[->|[[k ->]|[b0 ->]]]]]; simpl in H;
    destruct (lookup tmp (bufs s)) as [b|]; try discriminate; inversion H; subst s'; clear H;
    repeat split; simpl; try assumption;
    try (rewrite lookup_fappend_other by assumption; assumption);
    try (intros p b' Hin; first [apply In_fdel in Hin; now apply (Hb p b')
                                | apply In_fset in Hin as [->|Hin]; [reflexivity|now apply (Hb p b')]]).
Qed.

Lemma quiet_run d0 : forall extra s, Forall tmp_only extra -> quiet d0 s -> Forall (quiet d0) (run extra s).
Proof.
  induction extra as [|o extra IH]; intros s F Q; simpl; [constructor|].
  inversion F; subst. destruct (step o s) as [s'|] eqn:St; [|constructor].
  pose proof (quiet_step d0 o s s' H1 Q St) as Q'. constructor; [assumption|now apply IH].
Qed.

(* any prefix of the protocol followed by calls that only concern the temporary file (the
   failing flush, the close of the `with` block): the storage file is as before or
   completely new at every crash point.  The rename is in no such list. *)
Theorem prefix_then_tmp_calls_atomic chunks d0 pre post extra c :
  save_ops tmp target chunks = pre ++ post ->
  Forall tmp_only extra ->
  In c (crash_states (pre ++ extra) (init d0)) ->
  lookup target c = lookup target d0 \/ lookup target c = Some (concat chunks).
Proof.
  intros Split Hx Hc.
  assert (P : forall c', In c' (crash_states pre (init d0)) ->
              lookup target c' = lookup target d0 \/ lookup target c' = Some (concat chunks)).
  { intros c' H. apply (tmp_rename_atomic chunks d0). rewrite Split. now apply crash_states_prefix. }
  apply crash_states_app in Hc as [Hc|(s' & Hex & Hc)]; [now apply P|].
  unfold crash_states in Hc. cbn [flat_map] in Hc.
  apply in_app_iff in Hc as [Hc|Hc].
  - apply P. unfold crash_states. apply in_flat_map. exists s'. split; [now apply exec_in_run|assumption].
  - (* s' is one of the states of the complete run *)
    destruct (save_run chunks d0) as (mids & sf & Hrun & _ & Hq & _ & _ & Hb & _).
    assert (Hin : In s' (init d0 :: mids ++ [sf])).
    { rewrite <- Hrun, Split, run_app. pose proof (exec_in_run pre (init d0) s' Hex) as X.
      destruct X as [X|X]; [now left|right]. apply in_app_iff. now left. }
    apply in_flat_map in Hc as (s'' & Hs'' & Hc).
    assert (Q : quiet d0 s' \/ s' = sf).
    { destruct Hin as [<-|Hin].
      - left. split; [reflexivity|]. split; [|reflexivity]. intros p b [].
      - apply in_app_iff in Hin as [Hin|[<-|[]]]; [left|now right].
        rewrite Forall_forall in Hq. now apply Hq. }
    destruct Q as [Q| ->].
    + left. apply (quiet_safe d0 s''); [|assumption].
      pose proof (quiet_run d0 extra s' Hx Q) as F. rewrite Forall_forall in F. now apply F.
    + (* after the rename nothing is open: every call in extra raises at once *)
      destruct extra as [|o extra]; [contradiction|]. simpl in Hs''.
      inversion Hx as [|? ? To _]; subst.
      assert (N : step o sf = None).
      { destruct To as [->|[->|[->|[[k ->]|[b0 ->]]]]]; simpl; now rewrite Hb. }
      rewrite N in Hs''. contradiction.
Qed.

Theorem prefix_then_close_atomic chunks d0 pre post extra c :
  save_ops tmp target chunks = pre ++ post ->
  extra = [] \/ extra = [Close tmp] ->
  In c (crash_states (pre ++ extra) (init d0)) ->
  lookup target c = lookup target d0 \/ lookup target c = Some (concat chunks).
Proof.
  intros Split Hx. apply (prefix_then_tmp_calls_atomic chunks d0 pre post); [assumption|].
  destruct Hx as [->| ->]; repeat constructor.
Qed.

Theorem short_write_atomic chunks d0 f k c :
  In c (crash_states (short_ops tmp f k (save_ops tmp target chunks)) (init d0)) ->
  lookup target c = lookup target d0 \/ lookup target c = Some (concat chunks).
Proof.
  unfold short_ops.
  apply (prefix_then_tmp_calls_atomic chunks d0 (firstn f (save_ops tmp target chunks))
           (skipn f (save_ops tmp target chunks))); [now rewrite firstn_skipn|].
  constructor; [right; right; right; left; now exists k|]. constructor; [now left|constructor].
Qed.

Theorem failed_save_atomic chunks d0 f c :
  In c (crash_states (fault_ops tmp d0 f (save_ops tmp target chunks)) (init d0)) ->
  lookup target c = lookup target d0 \/ lookup target c = Some (concat chunks).
Proof.
  unfold fault_ops.
  set (x := if still_open tmp d0 (firstn f (save_ops tmp target chunks))
               && negb (match nth_error (save_ops tmp target chunks) f with Some (Close _) => true | _ => false end)
            then [Close tmp] else []).
  intro H.
  apply (prefix_then_close_atomic chunks d0 (firstn f (save_ops tmp target chunks))
           (skipn f (save_ops tmp target chunks)) x c); [now rewrite firstn_skipn| |exact H].
  unfold x. destruct (still_open tmp d0 _ && _); [now right|now left].
Qed.

(* any number of saves one after the other: at every crash point the storage file holds
   the initial content or the complete content of one of the saves *)
Theorem repeated_saves : forall css d0 c,
  In c (crash_states (flat_map (save_ops tmp target) css) (init d0)) ->
  lookup target c = lookup target d0
  \/ exists chunks, In chunks css /\ lookup target c = Some (concat chunks).
Proof.
  induction css as [|chunks css IH]; intros d0 c H.
  - unfold crash_states in H. simpl in H. rewrite overlay_nil in H.
    destruct H as [<-|[]]. now left.
  - change (flat_map (save_ops tmp target) (chunks :: css)) with (save_ops tmp target chunks ++ flat_map (save_ops tmp target) css) in H. apply crash_states_app in H as [H|(s' & Hex & H)].
    + apply tmp_rename_atomic in H as [H|H]; [now left|].
      right. exists chunks. split; [now left|assumption].
    + destruct (save_completes chunks d0) as (sf & Hex' & Ht & _ & Hb & Htl & _).
      rewrite Hex in Hex'. inversion Hex'; subst s'.
      assert (E : sf = init (disk sf)) by (destruct sf; simpl in *; now subst).
      rewrite E in H. apply IH in H as [H|(ch & Hin & H)].
      * right. exists chunks. split; [now left|]. now rewrite H.
      * right. exists ch. split; [now right|assumption].
Qed.

End TmpRename.

(* ---- the in-place protocol ------------------------------------------------------------ *)

Lemma crash_states_intro ops s0 s c :
  In s (s0 :: run ops s0) -> tails s = [] -> In c (crash_disks (bufs s) (disk s)) ->
  In c (crash_states ops s0).
Proof.
  intros Hs Ht Hc. unfold crash_states. apply in_flat_map. exists s. split; [assumption|].
  now rewrite crash_at_notails.
Qed.

Theorem inplace_truncates target chunks d0 :
  In (fset target [] (fset target [] d0)) (crash_states (inplace_ops target chunks) (init d0)).
Proof.
  apply (crash_states_intro _ _ {| disk := fset target [] d0; bufs := [(target, [])]; tails := [] |}).
  - unfold inplace_ops. simpl. right. left. reflexivity.
  - reflexivity.
  - simpl. left. unfold fappend. rewrite lookup_fset_same. reflexivity.
Qed.

Theorem inplace_prefix target new d0 n :
  exists c, In c (crash_states (inplace_ops target [new]) (init d0))
            /\ lookup target c = Some (firstn n new).
Proof.
  exists (fappend target (firstn n new) (fset target [] d0)). split.
  - apply (crash_states_intro _ _ {| disk := fset target [] d0; bufs := [(target, new)]; tails := [] |}).
    + unfold inplace_ops. simpl. rewrite Nat.eqb_refl. simpl. right. right. left.
      unfold fset. simpl. rewrite Nat.eqb_refl. reflexivity.
    + reflexivity.
    + simpl. rewrite ?app_nil_r. apply in_flat_map. exists (firstn n new). split.
      * apply prefixes_spec. now exists n.
      * now left.
  - rewrite (lookup_fappend_same target (firstn n new) (fset target [] d0) []).
    + reflexivity.
    + apply lookup_fset_same.
Qed.

(* ---- a temporary file that is not truncated ------------------------------------------------ *)

Lemma final_in_crash_states ops s0 sf :
  exec ops s0 = Some sf -> bufs sf = [] -> In (overlay (tails sf) (disk sf)) (crash_states ops s0).
Proof.
  intros E B. unfold crash_states. apply in_flat_map. exists sf. split; [now apply exec_in_run|].
  unfold crash_at. rewrite B. simpl. now left.
Qed.

(* With a stale temporary file (left by an interrupted save) longer than the new content, the
   save that opens it without truncation COMPLETES with the storage file holding the new
   content followed by the tail of the stale one. *)
Theorem notrunc_mixes tmp target new stale d0 :
  tmp <> target -> lookup tmp d0 = Some stale ->
  exists c, In c (crash_states (notrunc_ops tmp target [new]) (init d0))
            /\ lookup target c = Some (new ++ skipn (List.length new) stale).
Proof.
  intros N S.
  assert (E : exists D T, exec (notrunc_ops tmp target [new]) (init d0)
              = Some {| disk := fset target (new ++ []) D; bufs := []; tails := T |}
              /\ lookup target T = Some stale).
  { unfold notrunc_ops, init. simpl. rewrite S. repeat (simpl; rewrite ?Nat.eqb_refl).
    rewrite (lookup_fappend_same tmp [] (fappend tmp new (fset tmp [] d0)) ([] ++ new)).
    2:{ apply lookup_fappend_same. apply lookup_fset_same. }
    simpl. do 2 eexists. split; [reflexivity|]. apply lookup_fset_same. }
  destruct E as (D & T & E & HT).
  eexists. split.
  - apply (final_in_crash_states _ _ _ E). reflexivity.
  - cbn [tails disk]. rewrite lookup_overlay, lookup_fset_same. unfold visible. rewrite HT.
    now rewrite app_nil_r.
Qed.
