(* C15 - model of the file-system protocol of FileStorage._save_file
   (pyatv/storage/file_storage.py:45) with crash points.

   The process can die at any instant.  What survives is the kernel's view of the files
   (everything handed over by write(2), every completed rename); what is lost is the data
   still sitting in the user-space buffer of an open Python file object.  Python may hand
   any prefix of that buffer to the kernel at any time (buffer full, partial write), so at a
   crash every open file holds its flushed content followed by ANY prefix of its pending
   buffer.  rename(2)/os.replace is atomic.  fsync does not change anything a process
   crash can observe; it is kept in the op list because the code issues it and the
   correspondence compares op lists.

   Paths are numbers (harness: 0 = storage file, 1 = storage file + ".tmp").
   Pending buffers follow the open file (the inode), so a rename of a file that is still
   open carries its buffer along.                                                        *)
From Coq Require Import List Bool Arith NArith.
From PV Require Import Common.Cases.
Import ListNotations.

Definition bytes := list N.
Definition path := nat.
Definition fs := list (path * bytes).          (* association list, first match wins *)

Fixpoint lookup (p : path) (d : fs) : option bytes :=
  match d with
  | [] => None
  | (q, c) :: t => if Nat.eqb p q then Some c else lookup p t
  end.

Fixpoint fdel (p : path) (d : fs) : fs :=
  match d with
  | [] => []
  | (q, c) :: t => if Nat.eqb p q then fdel p t else (q, c) :: fdel p t
  end.

Definition fset (p : path) (c : bytes) (d : fs) : fs := (p, c) :: fdel p d.

(* data reaching the file behind path p *)
Definition fappend (p : path) (x : bytes) (d : fs) : fs :=
  match lookup p d with
  | Some c => fset p (c ++ x) d
  | None => fset p x d
  end.

Inductive op :=
| OpenTrunc (p : path)              (* open(p, "w") / O_TRUNC: create or truncate, new empty buffer *)
| OpenNoTrunc (p : path)            (* os.open(p, O_WRONLY|O_CREAT) / "r+": create or keep the content; writing
                                       starts at offset 0 and overwrites the old content from its head *)
| Write (p : path) (bs : bytes)     (* fh.write: into the user-space buffer *)
| Flush (p : path)                  (* fh.flush: buffer handed to the kernel *)
| FlushShort (p : path) (k : nat)   (* the kernel accepts only the first k bytes of the buffer (disk full, quota,
                                       RLIMIT_FSIZE): a buffered writer retries the rest, gets ENOSPC/EFBIG and
                                       raises; an unbuffered one returns the short count.  The rest is lost. *)
| Fsync (p : path)                  (* os.fsync(fh.fileno()) *)
| Close (p : path)                  (* fh.close / end of the with block: flush, drop the handle *)
| Rename (a b : path).              (* os.replace(a, b) *)

(* bufs:  pending buffer of every open file
   tails: for a file opened WITHOUT truncation, the content it had at that moment; while (and
          after) it is written, [disk] holds what this handle has written so far and the
          file really contains that followed by the part of the old content not yet
          overwritten (see [visible]).  Empty as long as every open truncates. *)
Record st := { disk : fs; bufs : fs; tails : fs }.

Definition init (d : fs) : st := {| disk := d; bufs := []; tails := [] |}.

Definition visible (tl : fs) (p : path) (c : bytes) : bytes :=
  match lookup p tl with
  | Some t => c ++ skipn (List.length c) t
  | None => c
  end.

Fixpoint overlay (tl : fs) (d : fs) : fs :=
  match d with
  | [] => []
  | (p, c) :: r => (p, visible tl p c) :: overlay tl r
  end.

(* None = the call raises (no handle, no such file); nothing further is executed *)
Definition step (o : op) (s : st) : option st :=
  match o with
  | OpenTrunc p => Some {| disk := fset p [] (disk s); bufs := fset p [] (bufs s); tails := fdel p (tails s) |}
  | OpenNoTrunc p =>
      Some {| disk := fset p [] (disk s); bufs := fset p [] (bufs s);
              tails := match lookup p (disk s) with
                       | Some c => fset p (visible (tails s) p c) (tails s)
                       | None => fdel p (tails s)
                       end |}
  | Write p bs =>
      match lookup p (bufs s) with
      | Some b => Some {| disk := disk s; bufs := fset p (b ++ bs) (bufs s); tails := tails s |}
      | None => None
      end
  | Flush p =>
      match lookup p (bufs s) with
      | Some b => Some {| disk := fappend p b (disk s); bufs := fset p [] (bufs s); tails := tails s |}
      | None => None
      end
  | FlushShort p k =>
      match lookup p (bufs s) with
      | Some b => Some {| disk := fappend p (firstn k b) (disk s); bufs := fset p [] (bufs s); tails := tails s |}
      | None => None
      end
  | Fsync p =>
      match lookup p (bufs s) with
      | Some _ => Some s
      | None => None
      end
  | Close p =>
      match lookup p (bufs s) with
      | Some b => Some {| disk := fappend p b (disk s); bufs := fdel p (bufs s); tails := tails s |}
      | None => None
      end
  | Rename a b =>
      match lookup a (disk s) with
      | Some c =>
          Some {| disk := fset b c (fdel a (disk s));
                  bufs := match lookup a (bufs s) with
                          | Some pb => fset b pb (fdel a (bufs s))
                          | None => fdel b (bufs s)
                          end;
                  tails := match lookup a (tails s) with
                           | Some t => fset b t (fdel a (tails s))
                           | None => fdel b (tails s)
                           end |}
      | None => None
      end
  end.

(* the states after every non-empty prefix of the op list, up to the first raising op *)
Fixpoint run (ops : list op) (s : st) : list st :=
  match ops with
  | [] => []
  | o :: t => match step o s with
              | Some s' => s' :: run t s'
              | None => []
              end
  end.

(* the state after the whole op list (None: some call raised) *)
Fixpoint exec (ops : list op) (s : st) : option st :=
  match ops with
  | [] => Some s
  | o :: t => match step o s with
              | Some s' => exec t s'
              | None => None
              end
  end.

Fixpoint prefixes (b : bytes) : list bytes :=
  match b with
  | [] => [[]]
  | x :: t => [] :: map (cons x) (prefixes t)
  end.

(* every disk a crash can leave behind in state s *)
Fixpoint crash_disks (pending : fs) (d : fs) : list fs :=
  match pending with
  | [] => [d]
  | (p, b) :: t => flat_map (fun x => crash_disks t (fappend p x d)) (prefixes b)
  end.

Definition crash_at (s : st) : list fs := map (overlay (tails s)) (crash_disks (bufs s) (disk s)).

(* every crash point: before the first op, after every op, and inside every pending buffer *)
Definition crash_states (ops : list op) (s : st) : list fs :=
  flat_map crash_at (s :: run ops s).

(* The protocol issued by the code as it stands (temporary file, flush, fsync, rename). *)
Definition save_ops (tmp target : path) (chunks : list bytes) : list op :=
  OpenTrunc tmp :: map (Write tmp) chunks ++ [Flush tmp; Fsync tmp; Close tmp; Rename tmp target].

(* The same protocol with a temporary file that is NOT truncated when it is opened. *)
Definition notrunc_ops (tmp target : path) (chunks : list bytes) : list op :=
  OpenNoTrunc tmp :: map (Write tmp) chunks ++ [Flush tmp; Fsync tmp; Close tmp; Rename tmp target].

(* One of the calls fails (OSError): call number f of the list is not carried out, nothing after
   it is issued, and the exception leaves the `with` block, which closes the temporary file if
   it is open (unless the failing call was that close).  save() then raises. *)
Definition still_open (tmp : path) (d0 : fs) (pre : list op) : bool :=
  match exec pre (init d0) with
  | Some s => match lookup tmp (bufs s) with Some _ => true | None => false end
  | None => false
  end.

Definition fault_ops (tmp : path) (d0 : fs) (f : nat) (full : list op) : list op :=
  let pre := firstn f full in
  pre ++ (if still_open tmp d0 pre
             && negb (match nth_error full f with Some (Close _) => true | _ => false end)
          then [Close tmp] else []).

(* The flush (call number f) is a short write of k bytes: the buffered writer raises, the
   `with` block closes the file, save() raises - the rename is never reached. *)
Definition short_ops (tmp : path) (f k : nat) (full : list op) : list op :=
  firstn f full ++ [FlushShort tmp k; Close tmp].

(* The protocol issued before commit d7405e0 (open the storage file itself with "w"). *)
Definition inplace_ops (target : path) (chunks : list bytes) : list op :=
  OpenTrunc target :: map (Write target) chunks ++ [Close target].

(* ---- correspondence ------------------------------------------------------------- *)

Definition obytes_beq := opt_beq bytes_beq.

Definition op_eqb (a b : op) : bool :=
  match a, b with
  | OpenTrunc p, OpenTrunc q | OpenNoTrunc p, OpenNoTrunc q | Flush p, Flush q | Fsync p, Fsync q | Close p, Close q => Nat.eqb p q
  | Write p x, Write q y => Nat.eqb p q && bytes_beq x y
  | FlushShort p j, FlushShort q k => Nat.eqb p q && Nat.eqb j k
  | Rename a1 b1, Rename a2 b2 => Nat.eqb a1 a2 && Nat.eqb b1 b2
  | _, _ => false
  end.

Fixpoint writes_of (ops : list op) : list bytes :=
  match ops with
  | [] => []
  | Write _ bs :: t => bs :: writes_of t
  | _ :: t => writes_of t
  end.

(* the crash disk in which exactly the first j bytes of every pending buffer were written *)
Fixpoint crash_pick (j : nat) (pending : fs) (d : fs) : fs :=
  match pending with
  | [] => d
  | (p, b) :: t => crash_pick j t (fappend p (firstn j b) d)
  end.

(* content of a file as the harness reports it, relative to the old and the new content *)
Inductive desc := DAbsent | DOld | DNewPrefix (n : nat) | DRaw (b : bytes).

Definition interp (old : option bytes) (new : bytes) (x : desc) : option bytes :=
  match x with
  | DAbsent => None
  | DOld => old
  | DNewPrefix n => Some (firstn n new)
  | DRaw b => Some b
  end.

Definition state_after (k : nat) (ops : list op) (s : st) : option st :=
  nth_error (s :: run ops s) k.

Definition good_target (old : option bytes) (new : bytes) (c : fs) : bool :=
  obytes_beq (lookup 0 c) old || obytes_beq (lookup 0 c) (Some new).

(* one save observed on the implementation:
     old      content of the storage file before the save (None: no file)
     stale    content of a left-over temporary file before the save
     ops      the file-system calls recorded from the real _save_file, in order
     obs      for crash point (k ops completed, j pending bytes written): the real
              directory afterwards (storage file, temporary file)                      *)
Definition check_case
  (c : option bytes * option bytes * option (nat * option nat) * list op * list (nat * nat * desc * desc)) : bool :=
  let '(old, stale, fault, ops, obs) := c in
  let d0 := (match old with Some o => [(0, o)] | None => [] end)
            ++ (match stale with Some o => [(1, o)] | None => [] end) in
  let new := concat (writes_of ops) in
  (* the code issues exactly the protocol the theorem is about (or nothing at all) *)
  if negb (match fault, ops with
           | None, [] => true
           | None, _ => list_beq op_eqb ops (save_ops 1 0 (writes_of ops))
           (* fault = Some (f, None): call number f was made to fail;
              Some (f, Some k): call number f, the flush, was a short write of k bytes *)
           | Some (f, None), _ => list_beq op_eqb ops (fault_ops 1 d0 f (save_ops 1 0 (writes_of ops)))
           | Some (f, Some k), _ => list_beq op_eqb ops (short_ops 1 f k (save_ops 1 0 (writes_of ops)))
           end) then false else
  (* every crash state of the recorded op list keeps the storage file old or new (evaluated for
     short op lists; for any number of writes it is what C15_tmp_rename_atomic /
     C15_failed_save_atomic state about exactly this op list) *)
  (if Nat.leb (List.length ops) 12 then forallb (good_target old new) (crash_states ops (init d0)) else true)
  &&
  (* the model's crash states are the directory states the real run left behind *)
  forallb (fun o : nat * nat * desc * desc =>
        let '(k, j, dt, dtmp) := o in
        match state_after k ops (init d0) with
        | Some s =>
            let c := overlay (tails s) (crash_pick j (bufs s) (disk s)) in
            obytes_beq (lookup 0 c) (interp old new dt) && obytes_beq (lookup 1 c) (interp stale new dtmp)
        | None => false
        end) obs.

(* FileStorage.load on a fresh storage (file_storage.py:61): no file -> the storage stays
   empty; otherwise the whole file is parsed (json.loads + StorageModel validation), which
   either yields the devices or raises (None). *)
Definition load_file {A} (parse : bytes -> option A) (empty : A) (p : path) (d : fs) : option A :=
  match lookup p d with
  | None => Some empty
  | Some b => parse b
  end.
