(* C15 - property theorems only.  Each is closed by the lemmas of Proofs.v; Print Assumptions follows. *)
From Coq Require Import List Bool Arith NArith.
From PV Require Import C15.Model C15.Proofs.
Import ListNotations.

(* The protocol _save_file issues now (temporary file, flush, fsync, close, os.replace):
   at EVERY crash point - before the first call, after every call, and with any prefix of
   the pending buffer written - the storage file is exactly what it was before the save
   (including "did not exist") or exactly the complete new content.  For every old
   directory content (also one with a stale temporary file), every new content and every
   way of cutting the new content into write calls. *)
Theorem C15_tmp_rename_atomic : forall (tmp target : path) (chunks : list bytes) (d0 c : fs),
  tmp <> target ->
  In c (crash_states (save_ops tmp target chunks) (init d0)) ->
  lookup target c = lookup target d0 \/ lookup target c = Some (concat chunks).
Proof. intros tmp target chunks d0 c N. exact (tmp_rename_atomic tmp target N chunks d0 c). Qed.
Print Assumptions C15_tmp_rename_atomic.

(* Consequently load() in a fresh storage succeeds on every crash state and yields the
   complete previous or the complete new settings - for any parser under which the old
   file and the new content load (parse = json.loads + StorageModel validation). *)
Theorem C15_crash_state_loads :
  forall (A : Type) (parse : bytes -> option A) (empty : A)
         (tmp target : path) (chunks : list bytes) (d0 c : fs) (vold vnew : A),
  tmp <> target ->
  load_file parse empty target d0 = Some vold ->
  parse (concat chunks) = Some vnew ->
  In c (crash_states (save_ops tmp target chunks) (init d0)) ->
  load_file parse empty target c = Some vold \/ load_file parse empty target c = Some vnew.
Proof.
  intros A parse empty tmp target chunks d0 c vold vnew N Ho Hn Hc.
  destruct (tmp_rename_atomic tmp target N chunks d0 c Hc) as [E|E]; unfold load_file in *; rewrite E.
  - now left.
  - now right.
Qed.
Print Assumptions C15_crash_state_loads.

(* Without a crash the save completes: the storage file holds the new content, the
   temporary file is gone, no file is left open, nothing else was touched. *)
Theorem C15_save_completes : forall (tmp target : path) (chunks : list bytes) (d0 : fs),
  tmp <> target ->
  exists sf, exec (save_ops tmp target chunks) (init d0) = Some sf
    /\ lookup target (disk sf) = Some (concat chunks)
    /\ lookup tmp (disk sf) = None
    /\ bufs sf = []
    /\ tails sf = []
    /\ (forall q, q <> tmp -> q <> target -> lookup q (disk sf) = lookup q d0).
Proof. intros tmp target chunks d0 N. exact (save_completes tmp target N chunks d0). Qed.
Print Assumptions C15_save_completes.

(* One of the calls of the save fails (OSError from open / write / flush / fsync / os.replace):
   that call and everything after it is not carried out, the `with` block closes the temporary
   file, save() raises.  At every crash point of THAT run - and at its end - the storage file is
   still exactly the old or exactly the new content.  (An error path that opens the storage
   file itself to copy the data over is not this op list; C15_inplace_refuted says what a
   truncating open of the storage path costs.) *)
Theorem C15_failed_save_atomic : forall (tmp target : path) (chunks : list bytes) (d0 c : fs) (f : nat),
  tmp <> target ->
  In c (crash_states (fault_ops tmp d0 f (save_ops tmp target chunks)) (init d0)) ->
  lookup target c = lookup target d0 \/ lookup target c = Some (concat chunks).
Proof. intros tmp target chunks d0 c f N. exact (failed_save_atomic tmp target N chunks d0 f c). Qed.
Print Assumptions C15_failed_save_atomic.

(* The flush is a SHORT write (disk full, quota, RLIMIT_FSIZE: only k bytes are accepted): the
   buffered writer raises, the file is closed, save() raises - and at every crash point of that
   run the storage file is still exactly old or exactly new, for every k.  More generally:
   whatever calls concerning only the temporary file follow any prefix of the protocol, the
   storage file is untouched; the rename comes only after the complete content was flushed. *)
Theorem C15_short_write_atomic : forall (tmp target : path) (chunks : list bytes) (d0 c : fs) (f k : nat),
  tmp <> target ->
  In c (crash_states (short_ops tmp f k (save_ops tmp target chunks)) (init d0)) ->
  lookup target c = lookup target d0 \/ lookup target c = Some (concat chunks).
Proof. intros tmp target chunks d0 c f k N. exact (short_write_atomic tmp target N chunks d0 f k c). Qed.
Print Assumptions C15_short_write_atomic.

Theorem C15_prefix_then_tmp_calls_atomic :
  forall (tmp target : path) (chunks : list bytes) (d0 c : fs) (pre post extra : list op),
  tmp <> target ->
  save_ops tmp target chunks = pre ++ post ->
  Forall (tmp_only tmp) extra ->
  In c (crash_states (pre ++ extra) (init d0)) ->
  lookup target c = lookup target d0 \/ lookup target c = Some (concat chunks).
Proof. intros tmp target chunks d0 c pre post extra N. exact (prefix_then_tmp_calls_atomic tmp target N chunks d0 pre post extra c). Qed.
Print Assumptions C15_prefix_then_tmp_calls_atomic.

(* Any number of saves in a row, crash anywhere: the storage file holds the initial
   content or the complete content of one of the saves. *)
Theorem C15_repeated_saves : forall (tmp target : path) (css : list (list bytes)) (d0 c : fs),
  tmp <> target ->
  In c (crash_states (flat_map (save_ops tmp target) css) (init d0)) ->
  lookup target c = lookup target d0
  \/ exists chunks, In chunks css /\ lookup target c = Some (concat chunks).
Proof. intros tmp target css d0 c N. exact (repeated_saves tmp target N css d0 c). Qed.
Print Assumptions C15_repeated_saves.

(* A crash, a restart on whatever the crash left behind (stale temporary file included),
   and a crash during the next save: still nothing but complete contents. *)
Theorem C15_crash_then_resave : forall (tmp target : path) (ch1 ch2 : list bytes) (d0 c1 c2 : fs),
  tmp <> target ->
  In c1 (crash_states (save_ops tmp target ch1) (init d0)) ->
  In c2 (crash_states (save_ops tmp target ch2) (init c1)) ->
  lookup target c2 = lookup target d0 \/ lookup target c2 = Some (concat ch1)
  \/ lookup target c2 = Some (concat ch2).
Proof.
  intros tmp target ch1 ch2 d0 c1 c2 N H1 H2.
  destruct (tmp_rename_atomic tmp target N ch2 c1 c2 H2) as [E|E]; [|now right; right].
  destruct (tmp_rename_atomic tmp target N ch1 d0 c1 H1) as [E1|E1]; rewrite E, E1; auto.
Qed.
Print Assumptions C15_crash_then_resave.

(* The truncation of the temporary file at open is what makes a stale one irrelevant (the
   theorems above hold for EVERY d0, stale temporary file included).  Opened without
   truncation (os.open(tmp, O_WRONLY|O_CREAT), "r+"), a stale temporary file that is longer
   than the new content survives behind it: the save runs to completion and the storage file
   holds the new content followed by the tail of the stale one - a mixture that is neither
   old nor new, for every stale content longer than the new one. *)
Theorem C15_notrunc_refuted : forall (tmp target : path) (new stale : bytes) (d0 : fs),
  tmp <> target -> lookup tmp d0 = Some stale -> List.length new < List.length stale ->
  exists c, In c (crash_states (notrunc_ops tmp target [new]) (init d0))
    /\ lookup target c = Some (new ++ skipn (List.length new) stale)
    /\ lookup target c <> Some new.
Proof.
  intros tmp target new stale d0 N S L.
  destruct (notrunc_mixes tmp target new stale d0 N S) as (c & Hin & Hc).
  exists c. repeat split; try assumption. rewrite Hc. intro E. inversion E as [E'].
  assert (X : List.length (new ++ skipn (List.length new) stale) = List.length new) by now rewrite E'.
  rewrite app_length, skipn_length in X.
  assert (Y : List.length stale - List.length new = 0) by (apply (Nat.add_cancel_l _ _ (List.length new)); now rewrite Nat.add_0_r).
  apply Nat.sub_0_le in Y. exact (Nat.lt_irrefl _ (Nat.lt_le_trans _ _ _ L Y)).
Qed.
Print Assumptions C15_notrunc_refuted.

(* The protocol used before commit d7405e0 (open the storage file itself with "w"): for
   every non-empty old and new content there is a crash point - right after the open -
   at which the storage file is empty: neither old nor new, all stored credentials lost.
   A revert of the fix makes the recorded op list equal to inplace_ops. *)
Theorem C15_inplace_refuted : forall (target : path) (chunks : list bytes) (d0 : fs) (old : bytes),
  lookup target d0 = Some old -> old <> [] -> concat chunks <> [] ->
  exists c, In c (crash_states (inplace_ops target chunks) (init d0))
    /\ lookup target c = Some []
    /\ lookup target c <> lookup target d0
    /\ lookup target c <> Some (concat chunks).
Proof.
  intros target chunks d0 old Ho No Nn.
  exists (fset target [] (fset target [] d0)). split; [apply inplace_truncates|].
  rewrite lookup_fset_same, Ho. repeat split; intro E; inversion E; congruence.
Qed.
Print Assumptions C15_inplace_refuted.

(* ... and every truncation of the new content is a reachable crash state as well. *)
Theorem C15_inplace_truncated : forall (target : path) (new : bytes) (d0 : fs) (n : nat),
  exists c, In c (crash_states (inplace_ops target [new]) (init d0))
            /\ lookup target c = Some (firstn n new).
Proof. intros. apply inplace_prefix. Qed.
Print Assumptions C15_inplace_truncated.

(* Non-vacuity: a concrete directory with an old file and a stale temporary file; the
   crash state "3 of 5 pending bytes written" exists, is not the final state, and the
   storage file still holds the old content there. *)
Example C15_ex_mid_crash :
  let d0 := [(0, [111; 108; 100]%N); (1, [9; 9]%N)] in
  let c := [(1, [110; 101; 119]%N); (0, [111; 108; 100]%N)] in
  In c (crash_states (save_ops 1 0 [[110; 101]%N; [119; 33; 10]%N]) (init d0))
  /\ lookup 0 c = Some [111; 108; 100]%N.
Proof. vm_compute. intuition. Qed.

Example C15_ex_final :
  exec (save_ops 1 0 [[110; 101]%N; [119; 33; 10]%N]) (init [(0, [111; 108; 100]%N); (1, [9; 9]%N)])
  = Some {| disk := [(0, [110; 101; 119; 33; 10]%N)]; bufs := []; tails := [] |}.
Proof. vm_compute. reflexivity. Qed.

Example C15_ex_inplace :
  In [(0, [])] (crash_states (inplace_ops 0 [[110; 101; 119]%N]) (init [(0, [111; 108; 100]%N)])).
Proof. vm_compute. intuition. Qed.

(* two generations: a save of a long content was interrupted after its temporary file was
   written; the next save, of a short content, opens it without truncation *)
Example C15_ex_notrunc_mixture :
  exec (notrunc_ops 1 0 [[66; 10]%N]) (init [(0, [111]%N); (1, [65; 65; 65; 65; 10]%N)])
  = Some {| disk := [(0, [66; 10]%N)]; bufs := []; tails := [(0, [65; 65; 65; 65; 10]%N)] |}
  /\ In [(0, [66; 10; 65; 65; 10]%N)] (crash_states (notrunc_ops 1 0 [[66; 10]%N]) (init [(0, [111]%N); (1, [65; 65; 65; 65; 10]%N)])).
Proof. vm_compute. intuition. Qed.

Example C15_ex_fault_ops :
  fault_ops 1 [] 2 (save_ops 1 0 [[110]%N]) = [OpenTrunc 1; Write 1 [110]%N; Close 1]
  /\ fault_ops 1 [] 5 (save_ops 1 0 [[110]%N]) = [OpenTrunc 1; Write 1 [110]%N; Flush 1; Fsync 1; Close 1]
  /\ fault_ops 1 [] 0 (save_ops 1 0 [[110]%N]) = [].
Proof. vm_compute. repeat split. Qed.

(* a short write whose count is ignored (unbuffered file, return value of write() dropped): the
   save runs on to the rename and moves 2 of 5 bytes in place *)
Example C15_ex_short_write_ignored :
  exec [OpenTrunc 1; Write 1 [110; 101; 119; 33; 10]%N; FlushShort 1 2; Fsync 1; Close 1; Rename 1 0]
       (init [(0, [111; 108; 100]%N)])
  = Some {| disk := [(0, [110; 101]%N)]; bufs := []; tails := [] |}.
Proof. vm_compute. reflexivity. Qed.

Example C15_ex_short_ops :
  short_ops 1 2 3 (save_ops 1 0 [[110; 101; 119; 33; 10]%N])
  = [OpenTrunc 1; Write 1 [110; 101; 119; 33; 10]%N; FlushShort 1 3; Close 1].
Proof. vm_compute. reflexivity. Qed.
