From Coq Require Import List Arith Bool Lia.
From PV Require Import C19.Model.
Import ListNotations.

Definition sendres (x : it) : Prop := x = IOk \/ x = IFail.

(* "the history contains retries+1 consecutive failed sends before any cancellation";
   generalised to a loop that already counts [a] failed attempts *)
Definition dies (r a : nat) (h : list it) : Prop :=
  exists pre post k,
    h = pre ++ repeat IFail k ++ post /\ Forall sendres pre /\
    (k = S r \/ (pre = [] /\ k + a = S r)).

Lemma failure_of_run r : forall k a post,
  a <= r -> S r <= k + a -> In Failure (trace r a (repeat IFail k ++ post)).
Proof.
  induction k as [|k IH]; intros a post Ha Hk.
  - lia.
  - cbn [repeat app trace]. destruct (r <? S a) eqn:E.
    + simpl; auto.
    + apply Nat.ltb_ge in E. right. apply IH; lia.
Qed.

Lemma dies_failure r : forall h a, a <= r -> dies r a h -> In Failure (trace r a h).
Proof.
  intros h a Ha (pre & post & k & -> & Hpre & Hk).
  revert a Ha Hk. induction pre as [|p pre IH]; intros a Ha Hk.
  - cbn [app]. apply failure_of_run; [assumption|]. destruct Hk as [->|[_ Hk]]; lia.
  - inversion Hpre as [|? ? Hp Hpre']; subst.
    assert (Hk' : k = S r) by (destruct Hk as [Hk|[Hk _]]; [assumption|discriminate]).
    destruct Hp as [->| ->]; cbn [app trace].
    + right. apply IH; [assumption|lia|left; assumption].
    + destruct (r <? S a) eqn:E; [simpl; auto|].
      apply Nat.ltb_ge in E. right. apply IH; [assumption|lia|left; assumption].
Qed.

Lemma failure_dies r : forall h a, a <= r -> In Failure (trace r a h) -> dies r a h.
Proof.
  induction h as [|x t IH]; intros a Ha Hin.
  - contradiction.
  - destruct x; cbn [trace] in Hin.
    + destruct (a =? 0); simpl in Hin; intuition discriminate.
    + destruct Hin as [Hin|Hin]; [discriminate|].
      destruct (IH 0 ltac:(lia) Hin) as (pre & post & k & -> & Hpre & Hk).
      exists (IOk :: pre), post, k. repeat split.
      * constructor; [left; reflexivity|assumption].
      * left. destruct Hk as [Hk|[_ Hk]]; lia.
    + destruct (r <? S a) eqn:E.
      * apply Nat.ltb_lt in E. exists [], t, 1. repeat split; [constructor|right; split; [reflexivity|lia]].
      * apply Nat.ltb_ge in E. destruct Hin as [Hin|Hin]; [discriminate|].
        destruct (IH (S a) ltac:(lia) Hin) as (pre & post & k & -> & Hpre & Hk).
        destruct Hk as [Hk|[-> Hk]].
        -- exists (IFail :: pre), post, k. repeat split; [constructor; [right; reflexivity|assumption]|left; assumption].
        -- exists [], post, (S k). repeat split; [constructor|right; split; [reflexivity|lia]].
    + simpl in Hin; intuition discriminate.
Qed.

Theorem failure_iff_gen r a h : a <= r -> (In Failure (trace r a h) <-> dies r a h).
Proof. intro Ha; split; [apply failure_dies|apply dies_failure]; assumption. Qed.

(* Shape of every trace: some sends, then nothing (still running), or exactly one
   terminal call. *)
Inductive shape : list obs -> Prop :=
| sh_running n : shape (repeat Send n)
| sh_failed n : shape (repeat Send (S n) ++ [Failure])
| sh_finished n : shape (repeat Send n ++ [Finish]).

Lemma shape_cons l : shape l -> shape (Send :: l).
Proof.
  intros [n|n|n].
  - apply (sh_running (S n)).
  - apply (sh_failed (S n)).
  - apply (sh_finished (S n)).
Qed.

Lemma trace_shape r : forall h a, shape (trace r a h).
Proof.
  induction h as [|x t IH]; intro a; cbn [trace].
  - apply (sh_running 0).
  - destruct x.
    + destruct (a =? 0); [apply (sh_finished 0)|apply (sh_finished 1)].
    + apply shape_cons, IH.
    + destruct (r <? S a); [apply (sh_failed 0)|apply shape_cons, IH].
    + apply (sh_finished 1).
Qed.


Definition cnt (x : obs) (l : list obs) : nat := length (filter (obs_eqb x) l).

Lemma cnt_app x a b : cnt x (a ++ b) = cnt x a + cnt x b.
Proof. unfold cnt. rewrite filter_app, app_length. reflexivity. Qed.

Lemma cnt_repeat_send x n : x <> Send -> cnt x (repeat Send n) = 0.
Proof. intro H. induction n; [reflexivity|]. unfold cnt in *. simpl. destruct x; simpl; congruence. Qed.

(* at most one terminal call in total, and it is the last element *)
Lemma shape_terminal l : shape l ->
  cnt Failure l + cnt Finish l <= 1 /\
  (forall pre post, l = pre ++ Failure :: post -> post = []) /\
  (forall pre post, l = pre ++ Finish :: post -> post = []).
Proof.
  assert (Hns: forall n pre x post, x <> Send -> repeat Send n = pre ++ x :: post -> False).
  { intros n pre x post Hx E. assert (In x (repeat Send n)) by (rewrite E; apply in_elt).
    apply repeat_spec in H. congruence. }
  assert (Hlast: forall n y pre x post, x <> Send -> repeat Send n ++ [y] = pre ++ x :: post -> post = []).
  { induction n as [|n IH]; intros y pre x post Hx E.
    - destruct pre as [|p pre]; simpl in E.
      + now inversion E.
      + inversion E. destruct pre; discriminate.
    - destruct pre as [|p pre]; simpl in E.
      + inversion E; congruence.
      + inversion E. eapply IH; eauto. }
  intros [n|n|n]; rewrite ?cnt_app, ?cnt_repeat_send by discriminate; repeat split;
    try (cbn; lia); intros pre post E;
    try (exfalso; eapply Hns; [|exact E]; discriminate);
    try (eapply Hlast; [|exact E]; discriminate).
Qed.

(* cancellation before any fatal run: finish exactly once, failure never *)
Definition cancelled_first (r a : nat) (h : list it) : Prop :=
  exists pre c post, h = pre ++ c :: post /\ Forall sendres pre /\
    (c = ISleepCancel \/ c = ICancel) /\ ~ dies r a pre.

Lemma trace_app_live r : forall pre a rest,
  Forall sendres pre -> a <= r -> ~ dies r a pre ->
  exists a', a' <= r /\ trace r a (pre ++ rest) = repeat Send (length pre) ++ trace r a' rest.
Proof.
  induction pre as [|p pre IH]; intros a rest Hpre Ha Hnd.
  - exists a; split; [assumption|reflexivity].
  - inversion Hpre as [|? ? Hp Hpre']; subst.
    destruct Hp as [->| ->]; cbn [app trace length repeat].
    + destruct (IH 0 rest Hpre' ltac:(lia)) as (a' & Ha' & E).
      * intros (pr & po & k & E & F & K). apply Hnd.
        exists (IOk :: pr), po, k. subst pre. repeat split; [constructor; [left; reflexivity|assumption]|].
        left. destruct K as [K|[_ K]]; lia.
      * exists a'; split; [assumption|]. now rewrite E.
    + destruct (r <? S a) eqn:E.
      * exfalso. apply Nat.ltb_lt in E. apply Hnd. exists [], pre, 1.
        repeat split; [constructor|right; split; [reflexivity|lia]].
      * apply Nat.ltb_ge in E.
        destruct (IH (S a) rest Hpre' ltac:(lia)) as (a' & Ha' & E').
        -- intros (pr & po & k & E0 & F & K). apply Hnd. subst pre.
           destruct K as [K|[-> K]].
           ++ exists (IFail :: pr), po, k. repeat split; [constructor; [right; reflexivity|assumption]|left; assumption].
           ++ exists [], po, (S k). repeat split; [constructor|right; split; [reflexivity|lia]].
        -- exists a'; split; [assumption|]. now rewrite E'.
Qed.

Theorem cancel_gen r a h : a <= r -> cancelled_first r a h ->
  cnt Finish (trace r a h) = 1 /\ cnt Failure (trace r a h) = 0 /\
  exists n, trace r a h = repeat Send n ++ [Finish].
Proof.
  intros Ha (pre & c & post & -> & Hpre & Hc & Hnd).
  destruct (trace_app_live r pre a (c :: post) Hpre Ha Hnd) as (a' & Ha' & E).
  rewrite E.
  assert (T: exists m, trace r a' (c :: post) = repeat Send m ++ [Finish]).
  { destruct Hc as [->| ->]; cbn [trace].
    - destruct (a' =? 0); [exists 0|exists 1]; reflexivity.
    - exists 1; reflexivity. }
  destruct T as (m & ->).
  rewrite !cnt_app, !cnt_repeat_send by discriminate.
  repeat split; try reflexivity.
  exists (length pre + m). now rewrite repeat_app, app_assoc.
Qed.

(* number of sends: one per executed iteration, except a cancelled sleep *)
Lemma sends_le r : forall h a, cnt Send (trace r a h) <= length h.
Proof.
  induction h as [|x t IH]; intro a; cbn [trace length]; [cbn; lia|].
  destruct x.
  - destruct (a =? 0); cbn; lia.
  - change (Send :: trace r 0 t) with ([Send] ++ trace r 0 t). rewrite cnt_app. specialize (IH 0). cbn in *. lia.
  - destruct (r <? S a); [cbn; lia|].
    change (Send :: trace r (S a) t) with ([Send] ++ trace r (S a) t). rewrite cnt_app. specialize (IH (S a)). cbn in *. lia.
  - cbn; lia.
Qed.

(* while the device answers often enough, nothing terminal happens *)
Theorem alive_no_terminal r : forall h a, a <= r ->
  Forall sendres h -> ~ dies r a h -> trace r a h = repeat Send (length h).
Proof.
  intros h a Ha Hh Hnd.
  destruct (trace_app_live r h a [] Hh Ha Hnd) as (a' & _ & E).
  rewrite app_nil_r in E. rewrite E. cbn [trace]. now rewrite app_nil_r.
Qed.

(* finished <-> the trace carries a terminal call *)
Lemma finished_iff r : forall h a,
  finished r a h = true <-> (In Failure (trace r a h) \/ In Finish (trace r a h)).
Proof.
  induction h as [|x t IH]; intro a; cbn [finished trace].
  - split; [discriminate|intros [[]|[]]].
  - destruct x.
    + destruct (a =? 0); simpl; intuition.
    + rewrite IH. simpl. intuition discriminate.
    + destruct (r <? S a); [simpl; intuition|]. rewrite IH. simpl. intuition discriminate.
    + simpl; intuition.
Qed.

(* Detection bound: once the device stops answering, the loss is reported after at most
   retries+1 further keep-alives. *)
Lemma sends_dead_run r : forall n a, a <= r ->
  cnt Send (trace r a (repeat IFail n)) <= S r - a.
Proof.
  induction n as [|n IH]; intros a Ha; cbn [repeat trace].
  - apply Nat.le_0_l.
  - destruct (r <? S a) eqn:E.
    + change (cnt Send [Send; Failure]) with 1. lia.
    + apply Nat.ltb_ge in E. change (Send :: ?l) with ([Send] ++ l).
      rewrite cnt_app. specialize (IH (S a) E). change (cnt Send [Send]) with 1. lia.
Qed.

Lemma sends_until_detected r : forall pre a n, a <= r -> Forall sendres pre ->
  cnt Send (trace r a (pre ++ repeat IFail n)) <= length pre + S r.
Proof.
  induction pre as [|x t IH]; intros a n Ha F; cbn [app].
  - pose proof (sends_dead_run r n a Ha). change (length (@nil it)) with 0. lia.
  - apply Forall_cons_iff in F. destruct F as [Hx F].
    destruct Hx as [-> | ->]; cbn [trace length].
    + change (Send :: ?l) with ([Send] ++ l). rewrite cnt_app.
      specialize (IH 0 n (Nat.le_0_l r) F). change (cnt Send [Send]) with 1. lia.
    + destruct (r <? S a) eqn:E.
      * change (cnt Send [Send; Failure]) with 1. lia.
      * apply Nat.ltb_ge in E. change (Send :: ?l) with ([Send] ++ l). rewrite cnt_app.
        specialize (IH (S a) n E F). change (cnt Send [Send]) with 1. lia.
Qed.

Lemma in_cnt_pos x : forall l, In x l -> 1 <= cnt x l.
Proof.
  induction l as [|y l IH]; intros H; [destruct H|].
  unfold cnt in *. cbn [filter]. destruct H as [-> | H].
  - destruct x; cbn; lia.
  - specialize (IH H). destruct (obs_eqb x y); cbn [length]; lia.
Qed.

Lemma in_cnt_failure_one r h : In Failure (trace r 0 h) -> cnt Failure (trace r 0 h) = 1.
Proof.
  intro I. pose proof (in_cnt_pos _ _ I).
  destruct (shape_terminal _ (trace_shape r h 0)) as [B _]. lia.
Qed.
