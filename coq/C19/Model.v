(* C19 - model of pyatv.core.protocol.heartbeater (pyatv/core/protocol.py:35).

   One element of the history is the outcome of ONE iteration of the `while True`
   loop, as decided by the environment (the device and whoever cancels the task):

     ISleepCancel  the task is cancelled at the first suspension point of the
                   iteration: `await asyncio.sleep(interval)` when attempts = 0,
                   otherwise (no sleep is executed on a re-attempt) the send
     IOk           the send returns
     IFail         the send raises an ordinary exception
     ICancel       the task is cancelled while the send is awaited

   The observable trace is the list of calls made to the three collaborators. *)
From Coq Require Import List Arith Bool.
From PV Require Import Common.Cases.
Import ListNotations.

Inductive it := ISleepCancel | IOk | IFail | ICancel.
Inductive obs := Send | Failure | Finish.

Definition it_eqb (a b : it) : bool :=
  match a, b with
  | ISleepCancel, ISleepCancel | IOk, IOk | IFail, IFail | ICancel, ICancel => true
  | _, _ => false
  end.
Definition obs_eqb (a b : obs) : bool :=
  match a, b with Send, Send | Failure, Failure | Finish, Finish => true | _, _ => false end.

(* trace retries attempts history *)
Fixpoint trace (r a : nat) (h : list it) : list obs :=
  match h with
  | [] => []                                     (* still looping *)
  | ISleepCancel :: _ => if a =? 0 then [Finish] else [Send; Finish]
  | ICancel :: _ => [Send; Finish]
  | IOk :: t => Send :: trace r 0 t              (* else: attempts = 0 *)
  | IFail :: t =>
      if r <? S a                                (* attempts += 1; if attempts > retries *)
      then [Send; Failure]                       (* failure_func(exc); return *)
      else Send :: trace r (S a) t
  end.

(* has the coroutine returned after this history? *)
Fixpoint finished (r a : nat) (h : list it) : bool :=
  match h with
  | [] => false
  | ISleepCancel :: _ | ICancel :: _ => true
  | IOk :: t => finished r 0 t
  | IFail :: t => if r <? S a then true else finished r (S a) t
  end.

(* correspondence: (retries, history, trace observed on the implementation, returned?) *)
Definition check_case (c : nat * list it * list obs * bool) : bool :=
  let '(r, h, tr, fin) := c in
  list_beq obs_eqb (trace r 0 h) tr && Bool.eqb (finished r 0 h) fin.

(* call-site observation (MrpProtocol): only the sends and the connection close are visible;
   an unfinished loop may already have started the next send *)
Definition check_case_site (c : nat * list it * list obs * bool) : bool :=
  let '(r, h, tr, failed) := c in
  list_beq obs_eqb (trace r 0 h) tr && Bool.eqb (existsb (obs_eqb Failure) (trace r 0 h)) failed.
