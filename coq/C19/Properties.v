(* C19 - property theorems only.  Each is closed by `exact`; Print Assumptions follows. *)
From Coq Require Import List Arith Lia.
From PV Require Import C19.Model C19.Proofs.
Import ListNotations.

(* The connection is declared lost iff the history contains retries+1 consecutive failed
   keep-alives before any cancellation - for every retries and every history. *)
Theorem C19_failure_iff : forall r h,
  In Failure (trace r 0 h) <->
  exists pre post, h = pre ++ repeat IFail (S r) ++ post /\ Forall sendres pre.
Proof.
  intros r h. rewrite (failure_iff_gen r 0 h (Nat.le_0_l r)). unfold dies. split.
  - intros (pre & post & k & E & F & K). exists pre, post. split; [|assumption].
    destruct K as [->|[_ K]]; [assumption|]. now rewrite Nat.add_0_r in K; subst k.
  - intros (pre & post & E & F). exists pre, post, (S r). auto.
Qed.
Print Assumptions C19_failure_iff.

(* Reported exactly once, nothing afterwards (no further send, no finish), and the
   terminal call - if any - is the last thing the loop ever does. *)
Theorem C19_once_then_silent : forall r h,
  cnt Failure (trace r 0 h) + cnt Finish (trace r 0 h) <= 1 /\
  (forall pre post, trace r 0 h = pre ++ Failure :: post -> post = []) /\
  (forall pre post, trace r 0 h = pre ++ Finish :: post -> post = []).
Proof. intros r h. exact (shape_terminal _ (trace_shape r h 0)). Qed.
Print Assumptions C19_once_then_silent.

(* Extending the history after the loop has returned changes nothing. *)
Theorem C19_silent_after_return : forall r h more,
  finished r 0 h = true -> trace r 0 (h ++ more) = trace r 0 h.
Proof.
  intros r h more. generalize 0 as a. induction h as [|x t IH]; intros a; cbn [finished app trace].
  - discriminate.
  - destruct x; try reflexivity.
    + intro H. now rewrite IH.
    + destruct (r <? S a); [reflexivity|]. intro H. now rewrite IH.
Qed.
Print Assumptions C19_silent_after_return.

(* Cancelling before the fatal run: finish exactly once, failure never. *)
Theorem C19_cancel_never_failure : forall r h,
  cancelled_first r 0 h ->
  cnt Finish (trace r 0 h) = 1 /\ cnt Failure (trace r 0 h) = 0 /\
  exists n, trace r 0 h = repeat Send n ++ [Finish].
Proof. intros r h. exact (cancel_gen r 0 h (Nat.le_0_l r)). Qed.
Print Assumptions C19_cancel_never_failure.

(* While the device keeps answering often enough nothing is reported and one
   keep-alive is sent per iteration. *)
Theorem C19_alive_no_report : forall r h,
  Forall sendres h -> ~ dies r 0 h -> trace r 0 h = repeat Send (length h).
Proof. intros r h. exact (alive_no_terminal r h 0 (Nat.le_0_l r)). Qed.
Print Assumptions C19_alive_no_report.

(* Detection is bounded: if from some point on every keep-alive fails (at least retries+1
   of them), the loss is reported, and no more than retries+1 keep-alives beyond the
   answered prefix are ever sent - for every retries, every prefix, every n. *)
Theorem C19_dead_detected_within_bound : forall r pre n,
  Forall sendres pre -> S r <= n ->
  In Failure (trace r 0 (pre ++ repeat IFail n)) /\
  cnt Failure (trace r 0 (pre ++ repeat IFail n)) = 1 /\
  cnt Send (trace r 0 (pre ++ repeat IFail n)) <= length pre + S r.
Proof.
  intros r pre n F N. assert (I : In Failure (trace r 0 (pre ++ repeat IFail n))).
  { apply C19_failure_iff. exists pre, (repeat IFail (n - S r)). split; [|assumption].
    rewrite <- repeat_app. do 2 f_equal. lia. }
  split; [exact I|]. split; [|exact (sends_until_detected r pre 0 n (Nat.le_0_l r) F)].
  exact (in_cnt_failure_one r _ I).
Qed.
Print Assumptions C19_dead_detected_within_bound.

(* Non-vacuity: the hypotheses are met by concrete non-trivial histories. *)
Example C19_ex_dies : In Failure (trace 1 0 [IOk; IFail; IOk; IFail; IFail; IOk]).
Proof. apply C19_failure_iff. exists [IOk; IFail; IOk], [IOk]. split; [reflexivity|].
  repeat constructor; (left; reflexivity) || (right; reflexivity). Qed.
Example C19_ex_cancel : cancelled_first 1 0 [IFail; IOk; IFail; ICancel; IFail].
Proof.
  exists [IFail; IOk; IFail], ICancel, [IFail]. repeat split; auto.
  - repeat constructor; (left; reflexivity) || (right; reflexivity).
  - intro D. apply (dies_failure 1 _ 0 (Nat.le_0_l 1)) in D. vm_compute in D. intuition discriminate.
Qed.
