(* C18 - the skeletons in Gen.v are regenerated from /repo's AST on every run; these theorems
   are therefore re-checked against what the code says now.  [exec] quantifies over EVERY
   placement of an exception or (at awaits) a cancellation, and over every resolution of the
   unmodelled conditions. *)
From Coq Require Import List Bool.
From PV Require Import Common.Skeleton C18.Gen.
Import ListNotations.

Definition P_exn_balanced (o : outcome) (s : st) : bool :=
  match o with Exn => P_balanced o s | _ => true end.

Lemma balanced_held o s : P_balanced o s = true -> held s = [].
Proof. unfold P_balanced. destruct (held s); [reflexivity|discriminate]. Qed.

(* stream_file: whatever fails or is cancelled, wherever: the playback manager is released, the
   takeover released, the audio file closed *)
Theorem C18_stream_file_releases_everything :
  forall o s', exec sk_stream_file s_init o s' -> held s' = [].
Proof.
  assert (H: exists r, an 4 sk_stream_file [s_init] = Some r /\ check P_balanced r = true)
    by (eexists; split; vm_compute; reflexivity).
  destruct H as (r & Ha & Hc). intros o s' He. apply (balanced_held o).
  exact (check_sound 4 _ _ _ _ Ha Hc o s' He).
Qed.
Print Assumptions C18_stream_file_releases_everything.

Theorem C18_play_url_releases_everything :
  forall o s', exec sk_play_url s_init o s' -> held s' = [].
Proof.
  assert (H: exists r, an 4 sk_play_url [s_init] = Some r /\ check P_balanced r = true)
    by (eexists; split; vm_compute; reflexivity).
  destruct H as (r & Ha & Hc). intros o s' He. apply (balanced_held o).
  exact (check_sound 4 _ _ _ _ Ha Hc o s' He).
Qed.
Print Assumptions C18_play_url_releases_everything.

Theorem C18_send_audio_releases_everything :
  forall o s', exec sk_send_audio s_init o s' -> held s' = [].
Proof.
  assert (H: exists r, an 4 sk_send_audio [s_init] = Some r /\ check P_balanced r = true)
    by (eexists; split; vm_compute; reflexivity).
  destruct H as (r & Ha & Hc). intros o s' He. apply (balanced_held o).
  exact (check_sound 4 _ _ _ _ Ha Hc o s' He).
Qed.
Print Assumptions C18_send_audio_releases_everything.

(* connect(): if it FAILS (raises), every protocol connection established so far and the
   session manager have been closed - for any number of protocols (the loop) and any failing one *)
Theorem C18_connect_failure_closes_everything :
  forall s', exec sk_connect s_init Exn s' -> held s' = [].
Proof.
  assert (H: exists r, an 4 sk_connect [s_init] = Some r /\ check P_exn_balanced r = true)
    by (eexists; split; vm_compute; reflexivity).
  destruct H as (r & Ha & Hc). intros s' He. apply (balanced_held Exn).
  exact (check_sound 4 _ _ _ _ Ha Hc Exn s' He).
Qed.
Print Assumptions C18_connect_failure_closes_everything.

(* non-vacuity: the skeletons do acquire things and do have failing executions *)
Example C18_ex_stream_file_can_fail_holding :
  exists r, an 4 sk_stream_file [s_init] = Some r /\ rE r <> [] /\ rC r <> [] /\ rN r <> [].
Proof. eexists; split; [vm_compute; reflexivity|]. repeat split; discriminate. Qed.
Example C18_ex_connect_success_holds :
  exists r, an 4 sk_connect [s_init] = Some r /\ existsb (fun s => negb (P_balanced Ret s)) (rR r) = true.
Proof. eexists; split; vm_compute; reflexivity. Qed.
