From Coq Require Import List Arith Bool Lia.
From PV Require Import C18.TakeoverModel.
Import ListNotations.

Lemma nth_error_ext {A} (a b : list A) : (forall j, nth_error a j = nth_error b j) -> a = b.
Proof.
  revert b; induction a as [|x a IH]; intros [|y b] H.
  - reflexivity.
  - specialize (H 0); discriminate.
  - specialize (H 0); discriminate.
  - f_equal.
    + specialize (H 0); simpl in H; congruence.
    + apply IH; intro j; exact (H (S j)).
Qed.

Lemma set_slot_length s i v : length (set_slot s i v) = length s.
Proof. revert i; induction s as [|x s IH]; intros [|i]; simpl; auto. Qed.

Lemma nth_set_slot s i v j :
  nth_error (set_slot s i v) j =
  if Nat.eqb j i then match nth_error s i with Some _ => Some v | None => None end
  else nth_error s j.
Proof.
  revert i j; induction s as [|x s IH]; intros i j.
  - destruct (Nat.eqb j i); destruct i; destruct j; reflexivity.
  - destruct i as [|i]; destruct j as [|j]; simpl; try reflexivity. apply IH.
Qed.

Definition clr (x : option (option nat)) : option (option nat) :=
  match x with Some _ => Some None | None => None end.

Lemma release_all_cons i t s : release_all (i :: t) s = release_all t (set_slot s i None).
Proof. reflexivity. Qed.

Lemma release_all_length t s : length (release_all t s) = length s.
Proof.
  revert s; induction t as [|i t IH]; intro s; [reflexivity|].
  rewrite release_all_cons, IH. apply set_slot_length.
Qed.

Lemma nth_release_all t s j :
  nth_error (release_all t s) j = if mem j t then clr (nth_error s j) else nth_error s j.
Proof.
  revert s; induction t as [|i t IH]; intro s; [reflexivity|].
  rewrite release_all_cons, IH, nth_set_slot. unfold mem; simpl existsb.
  destruct (Nat.eqb j i) eqn:E.
  - apply Nat.eqb_eq in E; subst j. simpl orb.
    destruct (existsb (Nat.eqb i) t); destruct (nth_error s i); reflexivity.
  - reflexivity.
Qed.

Lemma mem_app j a b : mem j (a ++ b) = mem j a || mem j b.
Proof. unfold mem. apply existsb_app. Qed.

Lemma mem_one j i : mem j [i] = Nat.eqb j i.
Proof. unfold mem; simpl. apply orb_false_r. Qed.

(* What take computes, relative to the slots s0 the call started from: [taken] are the
   interfaces this call has taken so far (all free in s0, now held by p in s). *)
Lemma take_spec p ifs : forall s taken s0,
  (forall j, nth_error s j = if mem j taken then Some (Some p) else nth_error s0 j) ->
  (forall j, mem j taken = true -> nth_error s0 j = Some None) ->
  match take p ifs s taken with
  | (s', None) => s' = s0
  | (s', Some t) =>
      (forall j, nth_error s' j = if mem j t then Some (Some p) else nth_error s0 j) /\
      (forall j, mem j t = true -> nth_error s0 j = Some None) /\
      (forall j, mem j t = true <-> (mem j taken = true \/ (In j ifs /\ j < length s0)))
  end.
Proof.
  induction ifs as [|i r IH]; intros s taken s0 H1 H2; simpl.
  - split; [exact H1|]. split; [exact H2|]. intro j; split; [auto|]. intros [H|[[] _]]; exact H.
  - destruct (nth_error s i) as [[q|]|] eqn:Ei.
    + (* refused *)
      apply nth_error_ext; intro j. rewrite nth_release_all, (H1 j).
      destruct (mem j taken) eqn:M; [simpl; symmetry; apply H2; exact M | reflexivity].
    + (* free: taken by this call *)
      assert (Mi : mem i taken = false /\ nth_error s0 i = Some None).
      { pose proof (H1 i) as Hi. rewrite Ei in Hi. destruct (mem i taken); [discriminate|auto]. }
      destruct Mi as [Mi Si].
      specialize (IH (set_slot s i (Some p)) (taken ++ [i]) s0).
      assert (A1 : forall j, nth_error (set_slot s i (Some p)) j =
                             if mem j (taken ++ [i]) then Some (Some p) else nth_error s0 j).
      { intro j. rewrite nth_set_slot, mem_app, mem_one, Ei, (H1 j).
        destruct (Nat.eqb j i) eqn:E.
        - rewrite orb_true_r. reflexivity.
        - rewrite orb_false_r. reflexivity. }
      assert (A2 : forall j, mem j (taken ++ [i]) = true -> nth_error s0 j = Some None).
      { intros j. rewrite mem_app, mem_one. intro M. apply orb_true_iff in M as [M|M].
        - apply H2; exact M.
        - apply Nat.eqb_eq in M; subst j; exact Si. }
      specialize (IH A1 A2).
      destruct (take p r (set_slot s i (Some p)) (taken ++ [i])) as [s' [t|]]; [|exact IH].
      destruct IH as (I1 & I2 & I3). split; [exact I1|]. split; [exact I2|].
      intro j. rewrite I3, mem_app, mem_one. split.
      * intros [M|[Hin Hl]].
        -- apply orb_true_iff in M as [M|M]; [left; exact M|].
           apply Nat.eqb_eq in M; subst j. right. split; [left; reflexivity|].
           apply nth_error_Some. rewrite Si. discriminate.
        -- right. split; [right; exact Hin | exact Hl].
      * intros [M|[[Hin|Hin] Hl]].
        -- left. rewrite M. reflexivity.
        -- subst j. left. rewrite Nat.eqb_refl. apply orb_true_r.
        -- right. split; assumption.
    + (* no relayer for this interface *)
      assert (Si : nth_error s0 i = None).
      { pose proof (H1 i) as Hi. rewrite Ei in Hi. destruct (mem i taken); [discriminate|auto]. }
      specialize (IH s taken s0 H1 H2).
      destruct (take p r s taken) as [s' [t|]]; [|exact IH].
      destruct IH as (I1 & I2 & I3). split; [exact I1|]. split; [exact I2|].
      intro j. rewrite I3. split.
      * intros [M|[Hin Hl]]; [left; exact M|]. right. split; [right; exact Hin|exact Hl].
      * intros [M|[[Hin|Hin] Hl]]; [left; exact M| |right; split; assumption].
        subst j. exfalso. apply nth_error_None in Si. lia.
Qed.

Lemma takeover_spec p ifs s :
  match takeover p ifs s with
  | (s', None) => s' = s
  | (s', Some t) =>
      (forall j, nth_error s' j = if mem j t then Some (Some p) else nth_error s j) /\
      (forall j, mem j t = true -> nth_error s j = Some None) /\
      (forall j, mem j t = true <-> (In j ifs /\ j < length s))
  end.
Proof.
  unfold takeover. pose proof (take_spec p ifs s [] s) as H.
  assert (A1 : forall j, nth_error s j = if mem j [] then Some (Some p) else nth_error s j) by reflexivity.
  assert (A2 : forall j, mem j [] = true -> nth_error s j = Some None) by (intros j M; discriminate).
  specialize (H A1 A2). destruct (take p ifs s []) as [s' [t|]]; [|exact H].
  destruct H as (H1 & H2 & H3). split; [exact H1|]. split; [exact H2|].
  intro j. rewrite H3. split; [intros [M|M]; [discriminate|exact M] | auto].
Qed.

Lemma takeover_refused_unchanged p ifs s s' : takeover p ifs s = (s', None) -> s' = s.
Proof. intro E. pose proof (takeover_spec p ifs s) as H. rewrite E in H. exact H. Qed.

Lemma takeover_release_restores p ifs s s' t :
  takeover p ifs s = (s', Some t) -> release_all t s' = s.
Proof.
  intro E. pose proof (takeover_spec p ifs s) as H. rewrite E in H. destruct H as (H1 & H2 & _).
  apply nth_error_ext; intro j. rewrite nth_release_all, (H1 j).
  destruct (mem j t) eqn:M; [simpl; symmetry; apply H2; exact M|reflexivity].
Qed.

Lemma takeover_length p ifs s s' r : takeover p ifs s = (s', r) -> length s' = length s.
Proof.
  intro E. pose proof (takeover_spec p ifs s) as H. rewrite E in H. destruct r as [t|]; [|subst; reflexivity].
  destruct H as (H1 & H2 & _).
  destruct (Nat.lt_trichotomy (length s') (length s)) as [L|[L|L]]; [exfalso|exact L|exfalso].
  - pose proof (H1 (length s')) as Hj. assert (N: nth_error s' (length s') = None) by (apply nth_error_None; lia).
    rewrite N in Hj. destruct (mem (length s') t); [discriminate|].
    symmetry in Hj. apply nth_error_None in Hj. lia.
  - pose proof (H1 (length s)) as Hj. assert (N: nth_error s (length s) = None) by (apply nth_error_None; lia).
    destruct (mem (length s) t) eqn:M.
    + apply H2 in M. rewrite N in M. discriminate.
    + rewrite N in Hj. apply nth_error_None in Hj. lia.
Qed.

(* ---- histories *)

Fixpoint disj (hs : list handle) : Prop :=
  match hs with
  | [] => True
  | h :: r => (forall j, mem j (h_taken h) = true -> owner r j = None) /\ disj r
  end.

Definition Inv (st : state) : Prop :=
  (forall j, j < length (st_slots st) -> nth_error (st_slots st) j = Some (owner (st_live st) j)) /\
  disj (st_live st).

Lemma inv_init n : Inv (init n).
Proof.
  split; [|exact I]. intros j Hj. simpl in *. rewrite repeat_length in Hj.
  rewrite (nth_error_repeat None Hj). reflexivity.
Qed.

Lemma remove_id_spec k hs : forall hs' h,
  disj hs -> remove_id k hs = (hs', Some h) ->
  disj hs' /\ forall j, owner hs' j = if mem j (h_taken h) then None else owner hs j.
Proof.
  induction hs as [|x r IH]; intros hs' h D E; simpl in E; [discriminate|].
  destruct D as [D1 D2].
  destruct (Nat.eqb (h_id x) k).
  - inversion E; subst. split; [exact D2|]. intro j. simpl.
    destruct (mem j (h_taken h)) eqn:M; [apply D1; exact M|reflexivity].
  - destruct (remove_id k r) as [r' f] eqn:R. inversion E; subst. clear E.
    destruct (IH r' h D2 eq_refl) as [I1 I2]. split.
    + split; [|exact I1]. intros j M. rewrite I2. destruct (mem j (h_taken h)); [reflexivity|apply D1; exact M].
    + intro j. simpl. destruct (mem j (h_taken x)) eqn:Mx; [|apply I2].
      destruct (mem j (h_taken h)) eqn:Mh; [|reflexivity].
      (* j in both x and h: h is in r, so owner r j would be Some, contradicting D1 *)
      exfalso. specialize (D1 j Mx). specialize (I2 j). rewrite Mh in I2.
      clear - R D1 Mh. revert r' R D1. induction r as [|y r IHr]; intros r' R D1; simpl in R; [discriminate|].
      simpl in D1. destruct (Nat.eqb (h_id y) k).
      * inversion R; subst. rewrite Mh in D1. discriminate.
      * destruct (remove_id k r) as [r'' f] eqn:R'. inversion R; subst.
        destruct (mem j (h_taken y)); [discriminate|]. eapply IHr; [reflexivity|exact D1].
Qed.

Lemma remove_id_none k hs hs' : remove_id k hs = (hs', None) -> hs' = hs.
Proof.
  revert hs'; induction hs as [|x r IH]; intros hs' E; simpl in E; [inversion E; reflexivity|].
  destruct (Nat.eqb (h_id x) k); [discriminate|].
  destruct (remove_id k r) as [r' f] eqn:R. inversion E; subst. f_equal. apply IH. reflexivity.
Qed.

Lemma step_length st o : length (st_slots (fst (step st o))) = length (st_slots st).
Proof.
  destruct o as [p ifs|k]; simpl.
  - destruct (takeover p ifs (st_slots st)) as [s' [t|]] eqn:E; simpl;
      eapply takeover_length; exact E.
  - destruct (remove_id k (st_live st)) as [hs [h|]]; simpl; [apply release_all_length|reflexivity].
Qed.

Lemma step_inv st o : Inv st -> Inv (fst (step st o)).
Proof.
  intros [I1 I2]. destruct o as [p ifs|k]; simpl.
  - pose proof (takeover_spec p ifs (st_slots st)) as H.
    pose proof (takeover_length p ifs (st_slots st)) as HL.
    destruct (takeover p ifs (st_slots st)) as [s' [t|]] eqn:E; simpl.
    + destruct H as (H1 & H2 & _). specialize (HL s' (Some t) eq_refl). split; simpl.
      * intros j Hj. rewrite (H1 j). destruct (mem j t); [reflexivity|]. apply I1. lia.
      * split; [|exact I2]. simpl. intros j M. specialize (H2 j M).
        assert (Hj : j < length (st_slots st)) by (apply nth_error_Some; rewrite H2; discriminate).
        specialize (I1 j Hj). rewrite H2 in I1. inversion I1; reflexivity.
    + subst s'. split; assumption.
  - destruct (remove_id k (st_live st)) as [hs [h|]] eqn:R; simpl; [|split; assumption].
    destruct (remove_id_spec k (st_live st) hs h I2 R) as [D O]. split; simpl; [|exact D].
    intros j Hj. rewrite release_all_length in Hj. rewrite nth_release_all, (O j), (I1 j Hj).
    destruct (mem j (h_taken h)); reflexivity.
Qed.

Lemma run_inv ops : forall st, Inv st -> Inv (run st ops).
Proof.
  induction ops as [|o r IH]; intros st H; [exact H|]. apply IH. apply step_inv. exact H.
Qed.

Lemma run_length ops : forall st, length (st_slots (run st ops)) = length (st_slots st).
Proof.
  induction ops as [|o r IH]; intro st; [reflexivity|]. unfold run in *; simpl. rewrite IH. apply step_length.
Qed.

Lemma held_iff_live_takeover n ops j :
  j < n -> nth_error (st_slots (run (init n) ops)) j = Some (owner (st_live (run (init n) ops)) j).
Proof.
  intro Hj. destruct (run_inv ops (init n) (inv_init n)) as [I _]. apply I.
  rewrite run_length. simpl. rewrite repeat_length. exact Hj.
Qed.

Lemma refused_changes_nothing st p ifs st' :
  step st (Take p ifs) = (st', false) -> st_slots st' = st_slots st /\ st_live st' = st_live st.
Proof.
  simpl. destruct (takeover p ifs (st_slots st)) as [s' [t|]] eqn:E; intro H; inversion H; subst; simpl.
  split; [|reflexivity]. eapply takeover_refused_unchanged. exact E.
Qed.

Lemma accepted_holds_all_requested st p ifs st' :
  step st (Take p ifs) = (st', true) ->
  forall j, j < length (st_slots st) ->
    nth_error (st_slots st') j = if existsb (Nat.eqb j) ifs then Some (Some p) else nth_error (st_slots st) j.
Proof.
  simpl. pose proof (takeover_spec p ifs (st_slots st)) as S.
  destruct (takeover p ifs (st_slots st)) as [s' [t|]] eqn:E; intro H; inversion H; subst; simpl.
  destruct S as (S1 & _ & S3). intros j Hj. rewrite (S1 j).
  destruct (mem j t) eqn:M.
  - apply S3 in M. destruct M as [Hin _].
    assert (X : existsb (Nat.eqb j) ifs = true) by (apply existsb_exists; exists j; split; [exact Hin|apply Nat.eqb_refl]).
    rewrite X. reflexivity.
  - destruct (existsb (Nat.eqb j) ifs) eqn:X; [|reflexivity].
    apply existsb_exists in X. destruct X as (x & Hin & Ex). apply Nat.eqb_eq in Ex; subst x.
    assert (M' : mem j t = true) by (apply S3; split; assumption). congruence.
Qed.

Lemma release_frees_exactly_own st k st' :
  Inv st -> step st (Release k) = (st', true) ->
  exists h, In h (st_live st) /\ h_id h = k /\
    forall j, nth_error (st_slots st') j =
              if mem j (h_taken h) then clr (nth_error (st_slots st) j) else nth_error (st_slots st) j.
Proof.
  intros _ H. simpl in H. destruct (remove_id k (st_live st)) as [hs [h|]] eqn:R; [|inversion H].
  inversion H; subst; simpl. exists h. split; [|split].
  - clear H. revert hs R. induction (st_live st) as [|x r IH]; intros hs R; simpl in R; [discriminate|].
    destruct (Nat.eqb (h_id x) k) eqn:E; [inversion R; subst; left; reflexivity|].
    destruct (remove_id k r) as [r' f] eqn:R'. inversion R; subst. right. eapply IH. reflexivity.
  - clear H. revert hs R. induction (st_live st) as [|x r IH]; intros hs R; simpl in R; [discriminate|].
    destruct (Nat.eqb (h_id x) k) eqn:E; [inversion R; subst; apply Nat.eqb_eq; exact E|].
    destruct (remove_id k r) as [r' f] eqn:R'. inversion R; subst. eapply IH. reflexivity.
  - intro j. apply nth_release_all.
Qed.
