(* C18 - "refused because another stream is active ... the interfaces it took over are released":
   the takeover bookkeeping of the facade, for every interleaving of takeovers (any protocol,
   any interface list, in any order, with interfaces that have no relayer) and releases.
   The model (TakeoverModel.v) is compared with the real FacadeAppleTV.takeover on every run. *)
From Coq Require Import List Arith Bool.
From PV Require Import C18.TakeoverModel C18.TakeoverProofs.
Import ListNotations.

(* A refused takeover leaves every interface exactly as it was - in particular it does not
   release what another stream holds - and creates no handle. *)
Theorem C18_takeover_refused_changes_nothing :
  forall st p ifs st', step st (Take p ifs) = (st', false) ->
    st_slots st' = st_slots st /\ st_live st' = st_live st.
Proof. exact refused_changes_nothing. Qed.
Print Assumptions C18_takeover_refused_changes_nothing.

(* An accepted takeover holds every requested interface that has a relayer, nothing else changes. *)
Theorem C18_takeover_accepted_holds_requested :
  forall st p ifs st', step st (Take p ifs) = (st', true) ->
    forall j, j < length (st_slots st) ->
      nth_error (st_slots st') j =
      if existsb (Nat.eqb j) ifs then Some (Some p) else nth_error (st_slots st) j.
Proof. exact accepted_holds_all_requested. Qed.
Print Assumptions C18_takeover_accepted_holds_requested.

(* Calling the returned release function undoes exactly this takeover. *)
Theorem C18_takeover_then_release_restores :
  forall p ifs s s' t, takeover p ifs s = (s', Some t) -> release_all t s' = s.
Proof. exact takeover_release_restores. Qed.
Print Assumptions C18_takeover_then_release_restores.

(* After ANY history of takeovers and releases (each handle released at most once), an
   interface is held by exactly the protocol whose accepted and not yet released takeover
   listed it, and is free otherwise. *)
Theorem C18_interface_held_iff_live_takeover :
  forall n ops j, j < n ->
    nth_error (st_slots (run (init n) ops)) j = Some (owner (st_live (run (init n) ops)) j).
Proof. exact held_iff_live_takeover. Qed.
Print Assumptions C18_interface_held_iff_live_takeover.

(* Releasing a handle frees the interfaces of that handle and touches no other. *)
Theorem C18_release_frees_exactly_own :
  forall st k st', Inv st -> step st (Release k) = (st', true) ->
    exists h, In h (st_live st) /\ h_id h = k /\
      forall j, nth_error (st_slots st') j =
                if mem j (h_taken h) then clr (nth_error (st_slots st) j) else nth_error (st_slots st) j.
Proof. exact release_frees_exactly_own. Qed.
Print Assumptions C18_release_frees_exactly_own.

(* non-vacuity: a history in which a takeover is refused half-way (the second protocol already
   took interface 2 before it meets interface 0 held by the first), one is accepted and one
   handle is released *)
Example C18_ex_takeover_history :
  run_obs (init 3) [Take 1 [0; 1]; Take 2 [2; 3; 0]; Take 2 [3; 2]; Release 0; Take 2 [0]] =
  [([Some 1; Some 1; None], true); ([Some 1; Some 1; None], false); ([Some 1; Some 1; Some 2], true);
   ([None; None; Some 2], true); ([Some 2; None; Some 2], true)].
Proof. vm_compute. reflexivity. Qed.
