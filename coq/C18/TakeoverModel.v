(* C18 - model of FacadeAppleTV.takeover / Relayer.takeover / Relayer.release
   (pyatv/core/facade.py, pyatv/core/relayer.py).

   One slot per interface that has a relayer; a slot holds the protocol (a number) that has
   taken the interface over, or None.  Interface numbers >= length have no relayer (the
   facade skips them).  takeover() walks the requested interfaces in the order given, takes
   each one that is free, and at the first one that is already taken over releases what THIS
   call has taken so far and fails (InvalidStateError).  On success it returns a closure that
   releases exactly the interfaces this call took; the model calls that closure a handle. *)
From Coq Require Import List Arith Bool.
Import ListNotations.

Definition slots := list (option nat).

Fixpoint set_slot (s : slots) (i : nat) (v : option nat) : slots :=
  match s, i with
  | [], _ => []
  | _ :: t, O => v :: t
  | x :: t, S j => x :: set_slot t j v
  end.

(* Relayer.release() clears the slot whoever holds it *)
Definition release_all (taken : list nat) (s : slots) : slots :=
  fold_left (fun acc i => set_slot acc i None) taken s.

Fixpoint take (p : nat) (ifs : list nat) (s : slots) (taken : list nat) : slots * option (list nat) :=
  match ifs with
  | [] => (s, Some taken)
  | i :: r =>
    match nth_error s i with
    | None => take p r s taken                              (* no relayer: ignored *)
    | Some (Some _) => (release_all taken s, None)          (* refused: roll back own part *)
    | Some None => take p r (set_slot s i (Some p)) (taken ++ [i])
    end
  end.

Definition takeover (p : nat) (ifs : list nat) (s : slots) := take p ifs s [].

(* ---- histories: any interleaving of takeovers by any protocols and releases of handles *)

Record handle := { h_id : nat; h_proto : nat; h_taken : list nat }.

Inductive op := Take (p : nat) (ifs : list nat) | Release (k : nat).

Record state := { st_slots : slots; st_live : list handle; st_next : nat }.

Definition init (n : nat) : state := {| st_slots := repeat None n; st_live := []; st_next := 0 |}.

Fixpoint remove_id (k : nat) (hs : list handle) : list handle * option handle :=
  match hs with
  | [] => ([], None)
  | h :: r => if Nat.eqb (h_id h) k then (r, Some h)
              else let '(r', f) := remove_id k r in (h :: r', f)
  end.

(* second component: did the operation succeed (takeover accepted / handle was live) *)
Definition step (st : state) (o : op) : state * bool :=
  match o with
  | Take p ifs =>
    match takeover p ifs (st_slots st) with
    | (s', Some t) => ({| st_slots := s';
                          st_live := {| h_id := st_next st; h_proto := p; h_taken := t |} :: st_live st;
                          st_next := S (st_next st) |}, true)
    | (s', None) => ({| st_slots := s'; st_live := st_live st; st_next := st_next st |}, false)
    end
  | Release k =>
    match remove_id k (st_live st) with
    | (hs, Some h) => ({| st_slots := release_all (h_taken h) (st_slots st); st_live := hs;
                          st_next := st_next st |}, true)
    | (_, None) => (st, false)       (* a handle is released once; the harness never does this *)
    end
  end.

Fixpoint run_obs (st : state) (ops : list op) : list (slots * bool) :=
  match ops with
  | [] => []
  | o :: r => let '(st', ok) := step st o in (st_slots st', ok) :: run_obs st' r
  end.

Definition run (st : state) (ops : list op) : state := fold_left (fun s o => fst (step s o)) ops st.

(* ---- specification side: who should own an interface *)
Definition mem (j : nat) (t : list nat) : bool := existsb (Nat.eqb j) t.

Fixpoint owner (hs : list handle) (j : nat) : option nat :=
  match hs with
  | [] => None
  | h :: r => if mem j (h_taken h) then Some (h_proto h) else owner r j
  end.

(* ---- correspondence: a case is (number of relayers, operations, what the real facade showed
   after every operation) *)
Definition onat_eqb (a b : option nat) : bool :=
  match a, b with None, None => true | Some x, Some y => Nat.eqb x y | _, _ => false end.

Fixpoint slots_eqb (a b : slots) : bool :=
  match a, b with
  | [], [] => true
  | x :: a', y :: b' => onat_eqb x y && slots_eqb a' b'
  | _, _ => false
  end.

Fixpoint obs_eqb (a b : list (slots * bool)) : bool :=
  match a, b with
  | [], [] => true
  | (s1, o1) :: a', (s2, o2) :: b' => slots_eqb s1 s2 && Bool.eqb o1 o2 && obs_eqb a' b'
  | _, _ => false
  end.

Definition check_takeover_case (c : nat * list op * list (slots * bool)) : bool :=
  let '(n, ops, seen) := c in obs_eqb (run_obs (init n) ops) seen.
