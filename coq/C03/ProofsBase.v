(* C03 - lemmas about dicts (association lists) and histories shared by the four models *)
From Coq Require Import List Bool Arith NArith Lia.
From PV Require Import C03.Model.
Import ListNotations.

(* ------------------------------------------------------------------ dict *)
Section AssocLemmas.
  Context {K V : Type} (eqb : K -> K -> bool).
  Hypothesis eqb_spec : forall a b, eqb a b = true <-> a = b.

  Lemma eqb_refl' k : eqb k k = true.
  Proof. now apply eqb_spec. Qed.

  Lemma eqb_neq k k' : k <> k' -> eqb k k' = false.
  Proof. intro H. destruct (eqb k k') eqn:E; [apply eqb_spec in E; contradiction|reflexivity]. Qed.

  Lemma eqb_false_neq k k' : eqb k k' = false -> k <> k'.
  Proof. intros E ->. rewrite eqb_refl' in E. discriminate. Qed.

  Lemma aget_adel_eq k (l : list (K * V)) : aget eqb k (adel eqb k l) = None.
  Proof.
    induction l as [|[k' v] t IH]; simpl; [reflexivity|].
    destruct (eqb k k') eqn:E; [assumption|]. simpl. now rewrite E.
  Qed.

  Lemma aget_adel_neq k k' (l : list (K * V)) : k <> k' -> aget eqb k (adel eqb k' l) = aget eqb k l.
  Proof.
    intro N. induction l as [|[k2 v] t IH]; simpl; [reflexivity|].
    destruct (eqb k' k2) eqn:E.
    - apply eqb_spec in E; subst k2. rewrite (eqb_neq _ _ N). assumption.
    - simpl. destruct (eqb k k2); [reflexivity|assumption].
  Qed.

  Lemma aget_aset_eq k v (l : list (K * V)) : aget eqb k (aset eqb k v l) = Some v.
  Proof. unfold aset; simpl. now rewrite eqb_refl'. Qed.

  Lemma aget_aset_neq k k' v (l : list (K * V)) : k <> k' -> aget eqb k (aset eqb k' v l) = aget eqb k l.
  Proof. intro N. unfold aset; simpl. rewrite (eqb_neq _ _ N). now apply aget_adel_neq. Qed.

  Lemma aget_adel_some k k' v (l : list (K * V)) :
    aget eqb k (adel eqb k' l) = Some v -> k <> k' /\ aget eqb k l = Some v.
  Proof.
    intro H. destruct (eqb k k') eqn:E.
    - apply eqb_spec in E; subst. rewrite aget_adel_eq in H. discriminate.
    - apply eqb_false_neq in E. split; [assumption|]. now rewrite aget_adel_neq in H.
  Qed.

  Lemma aget_aset_some k k' v v' (l : list (K * V)) :
    aget eqb k (aset eqb k' v' l) = Some v -> (k = k' /\ v = v') \/ (k <> k' /\ aget eqb k l = Some v).
  Proof.
    intro H. destruct (eqb k k') eqn:E.
    - apply eqb_spec in E; subst. rewrite aget_aset_eq in H. left. split; congruence.
    - apply eqb_false_neq in E. right. split; [assumption|]. now rewrite aget_aset_neq in H.
  Qed.

  Lemma aget_in k v (l : list (K * V)) : aget eqb k l = Some v -> In (k, v) l.
  Proof.
    induction l as [|[k' v'] t IH]; simpl; [discriminate|].
    destruct (eqb k k') eqn:E.
    - intro H; inversion H; subst. apply eqb_spec in E; subst. now left.
    - intro H. right. now apply IH.
  Qed.

  Lemma adel_nil_iff (l : list (K * V)) : l = [] -> forall k, aget eqb k l = None.
  Proof. intros -> k. reflexivity. Qed.

  Lemma aget_none_all (l : list (K * V)) : (forall k, aget eqb k l = None) -> l = [].
  Proof.
    destruct l as [|[k v] t]; [reflexivity|]. intro H. specialize (H k). simpl in H.
    rewrite eqb_refl' in H. discriminate.
  Qed.
End AssocLemmas.

(* from here on a dict update is only reasoned about through the lemmas above *)
Global Opaque aset.

Lemma nat_eqb_spec a b : Nat.eqb a b = true <-> a = b.
Proof. apply Nat.eqb_eq. Qed.
Lemma N_eqb_spec a b : N.eqb a b = true <-> a = b.
Proof. apply N.eqb_eq. Qed.

(* ------------------------------------------------------------- histories *)
Section RunLemmas.
  Context {St Ev Out : Type} (step : St -> Ev -> St * list Out).

  Lemma final_app s h1 h2 : final step s (h1 ++ h2) = final step (final step s h1) h2.
  Proof. revert s; induction h1 as [|e t IH]; intro s; simpl; [reflexivity|apply IH]. Qed.

  Lemma run_app s h1 h2 : run step s (h1 ++ h2) = run step s h1 ++ run step (final step s h1) h2.
  Proof. revert s; induction h1 as [|e t IH]; intro s; simpl; [reflexivity|now rewrite IH]. Qed.

  Lemma outs_app s h1 h2 : outs step s (h1 ++ h2) = outs step s h1 ++ outs step (final step s h1) h2.
  Proof. unfold outs. now rewrite run_app, concat_app. Qed.

  Lemma final_snoc s h e : final step s (h ++ [e]) = fst (step (final step s h) e).
  Proof. now rewrite final_app. Qed.

  Lemma outs_snoc s h e : outs step s (h ++ [e]) = outs step s h ++ snd (step (final step s h) e).
  Proof. rewrite outs_app. unfold outs at 2. simpl. now rewrite app_nil_r. Qed.

  (* an invariant relating the history so far, the outputs so far and the state *)
  Lemma run_invariant (I : list Ev -> list Out -> St -> Prop) s0 :
    I [] [] s0 ->
    (forall h o s e, I h o s -> I (h ++ [e]) (o ++ snd (step s e)) (fst (step s e))) ->
    forall h, I h (outs step s0 h) (final step s0 h).
  Proof.
    intros H0 Hs h. induction h as [|e h' IH] using rev_ind.
    - exact H0.
    - rewrite outs_snoc, final_snoc. apply Hs. exact IH.
  Qed.

  (* the same for hypotheses that are closed under taking prefixes *)
  Lemma run_invariant_pc (P : list Ev -> Prop) (I : list Ev -> list Out -> St -> Prop) s0 :
    (forall h e, P (h ++ [e]) -> P h) ->
    I [] [] s0 ->
    (forall h o s e, P (h ++ [e]) -> I h o s -> I (h ++ [e]) (o ++ snd (step s e)) (fst (step s e))) ->
    forall h, P h -> I h (outs step s0 h) (final step s0 h).
  Proof.
    intros Hp H0 Hs h. induction h as [|e h' IH] using rev_ind; intro Ph.
    - exact H0.
    - rewrite outs_snoc, final_snoc. apply Hs; [exact Ph|]. apply IH. now apply Hp in Ph.
  Qed.

  (* every output was produced by some step from a reachable state *)
  Lemma outs_in s0 h x :
    In x (outs step s0 h) ->
    exists pre e post, h = pre ++ e :: post /\ In x (snd (step (final step s0 pre) e)).
  Proof.
    induction h as [|e h' IH] using rev_ind.
    - intros [].
    - rewrite outs_snoc. intro H. apply in_app_or in H as [H|H].
      + destruct (IH H) as (pre & e' & post & -> & Hin).
        exists pre, e', (post ++ [e]). split; [now rewrite <- app_assoc|assumption].
      + exists h', e, []. split; [reflexivity|assumption].
  Qed.

  Lemma outs_of_step s0 pre e post x :
    In x (snd (step (final step s0 pre) e)) -> In x (outs step s0 (pre ++ e :: post)).
  Proof.
    intro H. rewrite outs_app. apply in_or_app. right. unfold outs. simpl.
    apply in_or_app. now left.
  Qed.
End RunLemmas.

(* ------------------------------------------------------------ dispatcher *)
Lemma dispatch_app a b : dispatch_calls (a ++ b) = dispatch_calls a ++ dispatch_calls b.
Proof. unfold dispatch_calls. now rewrite filter_app, map_app. Qed.

Lemma dispatch_in ls l : In l (dispatch_calls ls) <-> In (true, l) ls.
Proof.
  unfold dispatch_calls. rewrite in_map_iff. split.
  - intros ([b l'] & E & H). simpl in E. subst l'. apply filter_In in H as [H1 H2]. simpl in H2. now subst b.
  - intro H. exists (true, l). split; [reflexivity|]. apply filter_In. now split.
Qed.

Lemma dispatch_rejecting a l b : dispatch_calls (a ++ (false, l) :: b) = dispatch_calls (a ++ b).
Proof. rewrite !dispatch_app. reflexivity. Qed.

Lemma dispatch_accepting a l b :
  dispatch_calls (a ++ (true, l) :: b) = dispatch_calls a ++ l :: dispatch_calls b.
Proof. rewrite dispatch_app. reflexivity. Qed.

Lemma dispatch_nodup ls : NoDup (map snd ls) -> NoDup (dispatch_calls ls).
Proof.
  unfold dispatch_calls. induction ls as [|[b l] t IH]; simpl; intro N; [constructor|].
  inversion N; subst. destruct b; simpl; [|auto]. constructor; [|auto].
  intro H. apply H1. apply in_map_iff in H as (x & E & Hx). apply filter_In in Hx as [Hx _].
  apply in_map_iff. eauto.
Qed.
