(* C03 - plain HTTP: FIFO deque of pending requests *)
From Coq Require Import List Bool Arith NArith Lia.
From PV Require Import C03.Model C03.Spec C03.ProofsBase.
Import ListNotations.

Notation wget := (aget Nat.eqb).

Lemma h_reqs_app a b : h_reqs (a ++ b) = h_reqs a ++ h_reqs b.
Proof. apply flat_map_app. Qed.
Lemma h_resps_app a b : h_resps (a ++ b) = h_resps a ++ h_resps b.
Proof. apply flat_map_app. Qed.

Lemma in_skipn {A} (x : A) n l : In x (skipn n l) -> In x l.
Proof.
  revert l; induction n as [|n IH]; intros l; simpl; [auto|]. destruct l; [auto|]. intro H. right. auto.
Qed.

Lemma nodup_skipn {A} (l : list A) : forall n m x,
  NoDup l -> nth_error l n = Some x -> n < m -> ~ In x (skipn m l).
Proof.
  induction l as [|a l IH]; intros n m x N E L.
  - destruct n; discriminate.
  - destruct m; [lia|]. simpl. inversion N; subst. destruct n; simpl in E.
    + inversion E; subst. intro H. apply in_skipn in H. contradiction.
    + apply (IH n m x); auto. lia.
Qed.

Lemma skipn_cons {A} (l : list A) : forall n v t,
  skipn n l = v :: t -> nth_error l n = Some v /\ skipn (S n) l = t.
Proof.
  induction l as [|a l IH]; intros n v t.
  - destruct n; discriminate.
  - destruct n; simpl.
    + intro H; inversion H; subst. auto.
    + intro H. apply IH in H as [H1 H2]. split; [assumption|]. exact H2.
Qed.

Lemma skipn_app_le {A} (l m : list A) n : n <= length l -> skipn n (l ++ m) = skipn n l ++ m.
Proof.
  intro H. rewrite skipn_app. replace (n - length l) with 0 by lia. reflexivity.
Qed.

Lemma q_remove_notin w q : ~ In w q -> q_remove w q = q.
Proof.
  induction q as [|x t IH]; simpl; [reflexivity|]. intro H.
  destruct (Nat.eqb w x) eqn:E.
  - apply Nat.eqb_eq in E. subst. exfalso. apply H. now left.
  - f_equal. apply IH. intro. apply H. now right.
Qed.

Lemma nth_error_snoc {A} (l : list A) x : nth_error (l ++ [x]) (length l) = Some x.
Proof. rewrite nth_error_app2 by lia. now rewrite Nat.sub_diag. Qed.

Lemma nth_error_ext {A} (l m : list A) n x : nth_error l n = Some x -> nth_error (l ++ m) n = Some x.
Proof.
  intro H. rewrite nth_error_app1; [assumption|]. apply nth_error_Some. congruence.
Qed.

(* the hypotheses of the FIFO theorem, closed under prefixes *)
Definition h_fifo_ok (h : list hev) : Prop :=
  NoDup (h_reqs h) /\ (forall e, In e h -> h_is_abort e = false) /\ h_device_ok h.

Lemma fifo_ok_prefix h e : h_fifo_ok (h ++ [e]) -> h_fifo_ok h.
Proof.
  intros (N & A & D). repeat split.
  - rewrite h_reqs_app in N. destruct e; simpl in N; rewrite ?app_nil_r in N; auto.
    apply NoDup_remove in N. now rewrite app_nil_r in N.
  - intros x Hx. apply A. apply in_or_app; now left.
  - intros pre post ->. apply (D pre (post ++ [e])). now rewrite app_assoc.
Qed.

Definition matched (R : list nat) (A : list hresp) (w : nat) (r : hresp) : Prop :=
  exists n, nth_error R n = Some w /\ nth_error A n = Some r.

Lemma matched_ext R A R' A' w r : matched R A w r -> matched (R ++ R') (A ++ A') w r.
Proof. intros (n & H1 & H2). exists n. split; now apply nth_error_ext. Qed.

Record HI (h : list hev) (o : list hout) (s : hst) : Prop := {
  hi_q : h_q s = skipn (length (h_resps h)) (h_reqs h);
  hi_w : forall w a r, wget w (h_wait s) = Some (a, Some r) -> matched (h_reqs h) (h_resps h) w r;
  hi_o : forall x w r, In x o -> h_got x = Some (w, r) -> matched (h_reqs h) (h_resps h) w r
}.

Lemma got_hres_out w x : exists r, h_got (hres_out w x) = Some (w, r) /\
  (x = HROk r \/ x = HRAuth r \/ x = HRHttp r).
Proof. destruct x as [r|r|r]; exists r; simpl; auto. Qed.

Lemma classify_resp a r : h_classify a r = HROk r \/ h_classify a r = HRAuth r \/ h_classify a r = HRHttp r.
Proof.
  unfold h_classify. destruct (N.eqb (h_code r) 403); auto. destruct (N.eqb (h_code r) 401).
  - destruct a; auto.
  - destruct ((N.leb 200 (h_code r) && N.ltb (h_code r) 300) || a); auto.
Qed.

Ltac hnorm := rewrite ?h_reqs_app, ?h_resps_app; simpl; rewrite ?app_nil_r.

Lemma HI_step h o s e :
  h_fifo_ok (h ++ [e]) -> HI h o s -> HI (h ++ [e]) (o ++ snd (hstep s e)) (fst (hstep s e)).
Proof.
  intros F [Q W O]. pose proof (fifo_ok_prefix _ _ F) as F0.
  destruct F as (N & Ab & D).
  assert (Dh : length (h_resps h) <= length (h_reqs h)) by (apply (D h [e]); reflexivity).
  assert (Dh' : length (h_resps (h ++ [e])) <= length (h_reqs (h ++ [e]))).
  { apply (D (h ++ [e]) []). now rewrite app_nil_r. }
  rewrite h_reqs_app, h_resps_app in *.
  destruct e as [w a|r|w|w|w|w]; simpl in *; rewrite ?app_nil_r in *.
  - (* HReq *) split; hnorm.
    + rewrite Q. symmetry. now apply skipn_app_le.
    + intros w1 a1 r1 H. apply (aget_aset_some _ nat_eqb_spec) in H as [[_ H]|[_ H]]; [discriminate|].
      rewrite <- (app_nil_r (h_resps h)). apply matched_ext. eauto.
    + intros x w1 r1 Hx G. rewrite <- (app_nil_r (h_resps h)). apply matched_ext. eauto.
  - (* HResp *) rewrite app_length in Dh'. simpl in Dh'.
    unfold h_resp. destruct (h_q s) as [|v q'] eqn:Eq.
    { exfalso. assert (L : length (skipn (length (h_resps h)) (h_reqs h)) = 0) by (now rewrite <- Q).
      rewrite skipn_length in L. lia. }
    symmetry in Q. apply skipn_cons in Q as [Qv Qt].
    split; hnorm.
    + rewrite app_length. simpl. rewrite Nat.add_1_r. now symmetry.
    + intros w1 a1 r1 H.
      assert (Old : wget w1 (h_wait s) = Some (a1, Some r1) -> matched (h_reqs h) (h_resps h ++ [r]) w1 r1).
      { intro H'. rewrite <- (app_nil_r (h_reqs h)). apply matched_ext. eauto. }
      destruct (wget v (h_wait s)) as [[al sl]|] eqn:Ev; [|auto].
      apply (aget_aset_some _ nat_eqb_spec) in H as [[-> H]|[_ H]]; [|auto].
      inversion H; subst. exists (length (h_resps h)). split; [assumption|apply nth_error_snoc].
    + intros x w1 r1 Hx G. rewrite <- (app_nil_r (h_reqs h)). apply matched_ext. eauto.
  - (* HWake *) unfold h_wake. destruct (wget w (h_wait s)) as [[a [r|]]|] eqn:Ew; simpl;
      try (rewrite app_nil_r; split; hnorm; auto).
    assert (M : matched (h_reqs h) (h_resps h) w r) by eauto.
    split; hnorm.
    + rewrite q_remove_notin; [assumption|]. rewrite Q. destruct M as (n & M1 & M2).
      apply (nodup_skipn _ n); auto. apply nth_error_Some. congruence.
    + intros w1 a1 r1 H. apply (aget_adel_some _ nat_eqb_spec) in H as [_ H]. eauto.
    + intros x w1 r1 Hx G. apply in_app_or in Hx as [Hx|[<-|[]]]; [eauto|].
      destruct (classify_resp a r) as [C|[C|C]]; rewrite C in G; simpl in G; inversion G; subst; assumption.
  - exfalso. specialize (Ab (HTimeout w)). simpl in Ab. assert (true = false) by (apply Ab; apply in_or_app; right; now left). discriminate.
  - exfalso. specialize (Ab (HCancel w)). simpl in Ab. assert (true = false) by (apply Ab; apply in_or_app; right; now left). discriminate.
  - (* HReqFail *) split; hnorm; auto.
    intros x w1 r1 Hx G. apply in_app_or in Hx as [Hx|[<-|[]]]; [eauto|discriminate].
Qed.

Lemma HI_reach h : h_fifo_ok h -> HI h (outs hstep h_init h) (final hstep h_init h).
Proof.
  apply (run_invariant_pc hstep h_fifo_ok HI).
  - apply fifo_ok_prefix.
  - split; simpl; try reflexivity; try discriminate. intros; contradiction.
  - intros. now apply HI_step.
Qed.

Lemma http_fifo h : h_fifo_ok h ->
  forall x w r, In x (outs hstep h_init h) -> h_got x = Some (w, r) ->
  exists n, nth_error (h_reqs h) n = Some w /\ nth_error (h_resps h) n = Some r.
Proof. intros F x w r Hx G. exact (hi_o _ _ _ (HI_reach h F) x w r Hx G). Qed.

(* executable form of h_device_ok, for concrete histories *)
Fixpoint dev_okb (nreq nresp : nat) (h : list hev) : bool :=
  match h with
  | [] => true
  | HReq _ _ :: t => dev_okb (S nreq) nresp t
  | HResp _ :: t => (S nresp <=? nreq) && dev_okb nreq (S nresp) t
  | _ :: t => dev_okb nreq nresp t
  end.

Lemma dev_okb_gen h : forall a b, dev_okb a b h = true -> b <= a ->
  forall pre post, h = pre ++ post -> b + length (h_resps pre) <= a + length (h_reqs pre).
Proof.
  induction h as [|e t IH]; intros a b H L pre post E.
  - destruct pre; [simpl; lia|discriminate].
  - destruct pre as [|e' pre]; [simpl; lia|]. simpl in E. inversion E; subst e' t. clear E.
    destruct e; cbn [dev_okb h_reqs h_resps flat_map app length] in *.
    + specialize (IH (S a) b H ltac:(lia) pre post eq_refl). fold (h_reqs pre). fold (h_resps pre). lia.
    + apply andb_true_iff in H as [H1 H2]. apply Nat.leb_le in H1. fold (h_reqs pre). fold (h_resps pre).
      specialize (IH a (S b) H2 H1 pre post eq_refl). lia.
    + now apply IH with (post := post).
    + now apply IH with (post := post).
    + now apply IH with (post := post).
    + now apply IH with (post := post).
Qed.

Lemma dev_okb_sound h : dev_okb 0 0 h = true -> h_device_ok h.
Proof. intros H pre post E. pose proof (dev_okb_gen h 0 0 H (le_n 0) pre post E). lia. Qed.
