(* C03 - Companion: transaction id / auth frame type -> SharedData *)
From Coq Require Import List Bool Arith NArith Lia.
From PV Require Import C03.Model C03.Spec C03.ProofsBase.
Import ListNotations.

Lemma ckey_eqb_spec a b : ckey_eqb a b = true <-> a = b.
Proof.
  destruct a, b; simpl; try (split; [discriminate|intro H; inversion H]);
    rewrite N.eqb_eq; split; congruence.
Qed.

Notation qget := (aget ckey_eqb).
Notation wget := (aget Nat.eqb).

(* frame_received, factored: a frame is an answer, an event, or ignored *)
Lemma cstep_frame s f :
  cstep s (CFrame f) =
  match c_frame_answer f with
  | Some (key, d) => (c_pop key d s, [])
  | None => (s, match c_frame_event f with Some tag => [CListen tag] | None => [] end)
  end.
Proof.
  unfold c_frame_answer, c_frame_event, cstep.
  destruct (memN (f_type f) opack_frames) eqn:Eo; destruct (memN (f_type f) auth_frames) eqn:Ea;
    cbn [orb andb negb]; try reflexivity.
  - destruct (f_body f) as [|t x ic tag em]; reflexivity.
  - destruct (f_body f) as [|t x ic tag em]; [reflexivity|].
    destruct t as [[|[[p|p|]|p|]]|]; try reflexivity; destruct x; try reflexivity; destruct ic; reflexivity.
  - destruct (f_body f) as [|t x ic tag em]; reflexivity.
Qed.

Lemma event_not_answer f tag : c_frame_event f = Some tag -> c_frame_answer f = None.
Proof.
  unfold c_frame_answer, c_frame_event.
  destruct (memN (f_type f) opack_frames); destruct (memN (f_type f) auth_frames); cbn [orb andb negb];
    try discriminate.
  destruct (f_body f) as [|t x ic tg em]; [discriminate|].
  destruct t as [[|[[p|p|]|p|]]|]; try discriminate. reflexivity.
Qed.

(* events reach the listener exactly once, whatever the state, and change nothing *)
Lemma event_once s f tag : c_frame_event f = Some tag -> cstep s (CFrame f) = (s, [CListen tag]).
Proof. intro H. rewrite cstep_frame, (event_not_answer _ _ H), H. reflexivity. Qed.

(* no frame hands anything to a caller directly, and at most one listener call results *)
Lemma frame_outputs s f :
  snd (cstep s (CFrame f)) = [] \/ exists tag, c_frame_event f = Some tag /\ snd (cstep s (CFrame f)) = [CListen tag].
Proof.
  rewrite cstep_frame. destruct (c_frame_answer f) as [[key d]|]; [now left|].
  destruct (c_frame_event f) as [tag|]; [right; eauto|now left].
Qed.

Lemma c_set_some o d wt w x :
  wget w (c_set o d wt) = Some x -> (w = o /\ x = Some d /\ wget o wt <> None) \/ wget w wt = Some x.
Proof.
  unfold c_set. destruct (wget o wt) eqn:E; [|auto].
  intro H. apply (aget_aset_some _ nat_eqb_spec) in H as [[-> ->]|[_ H]]; [left|auto].
  repeat split; congruence.
Qed.

Lemma c_set_none o d wt w : wget w wt = None -> wget w (c_set o d wt) = None.
Proof.
  unfold c_set. destruct (wget o wt) eqn:E; [|auto]. intro H.
  destruct (Nat.eq_dec w o) as [->|N]; [congruence|]. now rewrite (aget_aset_neq _ nat_eqb_spec).
Qed.

Lemma c_set_keeps o d wt w x : wget w wt = Some x -> exists y, wget w (c_set o d wt) = Some y.
Proof.
  unfold c_set. destruct (wget o wt) eqn:E; [|eauto]. intro H.
  destruct (Nat.eq_dec w o) as [->|N].
  - rewrite (aget_aset_eq _ nat_eqb_spec). eauto.
  - rewrite (aget_aset_neq _ nat_eqb_spec); eauto.
Qed.

(* --------------------------------------------------------------------------
   C1  what a request returns (or the "_em" error it raises) was carried by a frame
       that bears the identifier assigned to that request and arrived after it.   *)
Definition c_made (x0 : N) (h : list cev) (w : nat) (key : ckey) (h1 : list cev) (r : cev) (h2 : list cev) : Prop :=
  h = h1 ++ r :: h2 /\ c_req_of r = Some w /\ c_key_at (final cstep (c_init x0) h1) r = Some key.

Definition CA (x0 : N) (h : list cev) (s : cst) : Prop :=
  (forall key o, qget key (c_q s) = Some o -> exists h1 r h2, c_made x0 h o key h1 r h2) /\
  (forall w p em, wget w (c_wait s) = Some (Some (p, em)) ->
     exists key h1 r h2 f h3, c_made x0 (h1 ++ r :: h2) w key h1 r h2 /\ h = (h1 ++ r :: h2) ++ CFrame f :: h3 /\
                              c_frame_answer f = Some (key, (p, em))).

Lemma made_snoc x0 h w key h1 r h2 e :
  c_made x0 h w key h1 r h2 -> c_made x0 (h ++ [e]) w key h1 r (h2 ++ [e]).
Proof. unfold c_made. intros (-> & R & K). rewrite <- app_assoc. simpl. auto. Qed.

Lemma CA_weaken x0 h s s' e :
  CA x0 h s ->
  (forall key o, qget key (c_q s') = Some o -> qget key (c_q s) = Some o) ->
  (forall w d, wget w (c_wait s') = Some (Some d) -> wget w (c_wait s) = Some (Some d)) ->
  CA x0 (h ++ [e]) s'.
Proof.
  intros [Q W] Hq Hw. split.
  - intros key o H. apply Hq in H. destruct (Q _ _ H) as (h1 & r & h2 & M).
    exists h1, r, (h2 ++ [e]). now apply made_snoc.
  - intros w p em H. apply Hw in H. destruct (W _ _ _ H) as (key & h1 & r & h2 & f & h3 & M & -> & A).
    exists key, h1, r, h2, f, (h3 ++ [e]). split; [exact M|split; [|exact A]]. now rewrite <- app_assoc.
Qed.

Lemma CA_req x0 h s e w :
  CA x0 h s -> s = final cstep (c_init x0) h -> c_req_of e = Some w ->
  forall key, c_key_at s e = Some key ->
  CA x0 (h ++ [e]) (MkC (N.succ (c_next s)) (aset ckey_eqb key w (c_q s)) (aset Nat.eqb w None (c_wait s))).
Proof.
  intros [Q W] Es R key K. split; simpl.
  - intros key' o H. apply (aget_aset_some _ ckey_eqb_spec) in H as [[-> ->]|[_ H]].
    + exists h, e, []. repeat split; auto. now rewrite <- Es.
    + destruct (Q _ _ H) as (h1 & r & h2 & M). exists h1, r, (h2 ++ [e]). now apply made_snoc.
  - intros w' p em H. apply (aget_aset_some _ nat_eqb_spec) in H as [[_ H]|[_ H]]; [discriminate|].
    destruct (W _ _ _ H) as (key' & h1 & r & h2 & f & h3 & M & -> & A).
    exists key', h1, r, h2, f, (h3 ++ [e]). split; [exact M|split; [|exact A]]. now rewrite <- app_assoc.
Qed.

Lemma CA_step x0 h e :
  CA x0 h (final cstep (c_init x0) h) -> CA x0 (h ++ [e]) (fst (cstep (final cstep (c_init x0) h) e)).
Proof.
  set (s := final cstep (c_init x0) h). intro I.
  destruct e as [w|w ft|f|w|w|w|w|].
  - simpl. now apply (CA_req x0 h s (CReq w) w).
  - simpl. now apply (CA_req x0 h s (CReqAuth w ft) w).
  - rewrite cstep_frame. destruct (c_frame_answer f) as [[key d]|] eqn:Ea; simpl;
      [|apply (CA_weaken x0 h s); auto].
    unfold c_pop. destruct (qget key (c_q s)) as [o|] eqn:Eq; [|apply (CA_weaken x0 h s); auto].
    destruct I as [Q W]. split; simpl.
    + intros key' o' H. apply (aget_adel_some _ ckey_eqb_spec) in H as [_ H].
      destruct (Q _ _ H) as (h1 & r & h2 & M). exists h1, r, (h2 ++ [CFrame f]). now apply made_snoc.
    + intros w p em H. apply c_set_some in H as [(-> & H & _)|H].
      * inversion H; subst. destruct (Q _ _ Eq) as (h1 & r & h2 & M).
        exists key, h1, r, h2, f, []. destruct M as (-> & R & K). repeat split; auto.
      * destruct (W _ _ _ H) as (key' & h1 & r & h2 & f' & h3 & M & -> & A).
        exists key', h1, r, h2, f', (h3 ++ [CFrame f]). split; [exact M|split; [|exact A]]. now rewrite <- app_assoc.
  - simpl. destruct (wget w (c_wait s)) as [[[p em]|]|] eqn:E; simpl; apply (CA_weaken x0 h s); simpl; auto.
    intros w' d H. now apply (aget_adel_some _ nat_eqb_spec) in H.
  - simpl. destruct (wget w (c_wait s)) as [d|] eqn:E; simpl; apply (CA_weaken x0 h s); simpl; auto.
    intros w' d' H. now apply (aget_adel_some _ nat_eqb_spec) in H.
  - simpl. destruct (wget w (c_wait s)) as [d|] eqn:E; simpl; apply (CA_weaken x0 h s); simpl; auto.
    intros w' d' H. now apply (aget_adel_some _ nat_eqb_spec) in H.
  - simpl. apply (CA_weaken x0 h s); simpl; auto.
  - simpl. apply (CA_weaken x0 h s); simpl; auto.
Qed.

Lemma CA_reach x0 h : CA x0 h (final cstep (c_init x0) h).
Proof.
  induction h as [|e h IH] using rev_ind.
  - split; simpl; intros; discriminate.
  - rewrite final_snoc. now apply CA_step.
Qed.

Lemma comp_deliver_matches x0 pre e w p (err : bool) :
  In (if err then CProtoErr w p else CDeliver w p) (snd (cstep (final cstep (c_init x0) pre) e)) ->
  e = CWake w /\
  exists key h1 r h2 f h3,
    pre = h1 ++ r :: h2 ++ CFrame f :: h3 /\ c_req_of r = Some w /\
    c_key_at (final cstep (c_init x0) h1) r = Some key /\ c_frame_answer f = Some (key, (p, err)).
Proof.
  destruct (CA_reach x0 pre) as [Q W]. set (s := final cstep (c_init x0) pre) in *.
  destruct e as [w'|w' ft|f|w'|w'|w'|w'|].
  - simpl. intros [].
  - simpl. intros [].
  - destruct (frame_outputs s f) as [->|(tag & _ & ->)]; [intros []|].
    intros [H|[]]. destruct err; discriminate.
  - simpl. destruct (wget w' (c_wait s)) as [[[p' em]|]|] eqn:E; simpl; [|intros []|intros []].
    intros [H|[]]. assert (w' = w /\ p' = p /\ em = err) as (-> & -> & ->).
    { destruct em, err; inversion H; auto. }
    split; [reflexivity|].
    destruct (W _ _ _ E) as (key & h1 & r & h2 & f & h3 & (_ & R & K) & Ep & A).
    exists key, h1, r, h2, f, h3. rewrite <- app_assoc in Ep. auto.
  - simpl. destruct (wget w' (c_wait s)); simpl; [|intros []]. intros [H|[]]. destruct err; discriminate.
  - simpl. destruct (wget w' (c_wait s)); simpl; [|intros []]. intros [H|[]]. destruct err; discriminate.
  - simpl. intros [H|[]]. destruct err; discriminate.
  - simpl. intros [].
Qed.

(* --------------------------------------------------------------------------
   C4  transaction ids are never reused                                        *)
Lemma c_next_step s e : (c_next s <= c_next (fst (cstep s e)))%N.
Proof.
  destruct e as [w|w ft|f|w|w|w|w|]; try (simpl; lia).
  - rewrite cstep_frame. destruct (c_frame_answer f) as [[key d]|]; simpl; [|lia].
    unfold c_pop. destruct (qget key (c_q s)); simpl; lia.
  - simpl. destruct (wget w (c_wait s)) as [[[p em]|]|]; simpl; lia.
  - simpl. destruct (wget w (c_wait s)); simpl; lia.
  - simpl. destruct (wget w (c_wait s)); simpl; lia.
Qed.

Lemma c_next_mono s h : (c_next s <= c_next (final cstep s h))%N.
Proof.
  revert s. induction h as [|e t IH]; intro s; simpl; [lia|].
  pose proof (c_next_step s e). specialize (IH (fst (cstep s e))). lia.
Qed.

Lemma xid_unique x0 h1 r1 h2 r2 xa xb :
  c_key_at (final cstep (c_init x0) h1) r1 = Some (CX xa) ->
  c_key_at (final cstep (c_init x0) (h1 ++ r1 :: h2)) r2 = Some (CX xb) ->
  (xa < xb)%N.
Proof.
  rewrite final_app. set (s := final cstep (c_init x0) h1). simpl.
  intros K1 K2. destruct r1; simpl in K1; try discriminate. inversion K1; subst xa.
  simpl in K2. destruct r2; simpl in K2; try discriminate. inversion K2; subst xb.
  simpl. pose proof (c_next_mono (MkC (N.succ (c_next s)) (aset ckey_eqb (CX (c_next s)) w (c_q s)) (aset Nat.eqb w None (c_wait s))) h2).
  simpl in H. lia.
Qed.

(* --------------------------------------------------------------------------
   C2  conservation: the content of a frame is handed out at most as often as
       frames with that content arrived.                                        *)
Definition cntN (p : N) (l : list N) : nat := count_occ N.eq_dec l p.
Lemma cntN_app p a b : cntN p (a ++ b) = cntN p a + cntN p b.
Proof. apply count_occ_app. Qed.

Definition c_held (l : list (nat * option (N * bool))) : list N :=
  flat_map (fun e => match snd e with Some (p, _) => [p] | None => [] end) l.

Lemma c_held_adel_le p w l : cntN p (c_held (adel Nat.eqb w l)) <= cntN p (c_held l).
Proof.
  induction l as [|[w' d] t IH]; simpl; [lia|].
  destruct (Nat.eqb w w'); simpl; destruct d as [[q em]|]; simpl; unfold cntN in *; simpl;
    try destruct (N.eq_dec q p); lia.
Qed.

Lemma c_held_adel_get p w em l :
  wget w l = Some (Some (p, em)) -> S (cntN p (c_held (adel Nat.eqb w l))) <= cntN p (c_held l).
Proof.
  induction l as [|[w' d] t IH]; simpl; [discriminate|].
  destruct (Nat.eqb w w') eqn:E.
  - intro H; inversion H; subst. simpl. pose proof (c_held_adel_le p w t). unfold cntN in *. simpl.
    destruct (N.eq_dec p p); [lia|contradiction].
  - intro H. specialize (IH H). simpl. destruct d as [[q em']|]; simpl; unfold cntN in *; simpl;
      try destruct (N.eq_dec q p); lia.
Qed.

Local Transparent aset.
Lemma c_held_set_le p o q em l :
  cntN p (c_held (c_set o (q, em) l)) <= cntN p (c_held l) + (if N.eq_dec q p then 1 else 0).
Proof.
  unfold c_set. destruct (wget o l); [|lia]. unfold aset. simpl.
  pose proof (c_held_adel_le p o l). unfold cntN in *. simpl. destruct (N.eq_dec q p); lia.
Qed.
Lemma c_held_aset_none p w l : cntN p (c_held (aset Nat.eqb w None l)) <= cntN p (c_held l).
Proof. unfold aset. simpl. apply c_held_adel_le. Qed.
Global Opaque aset.

Lemma c_out_tags_app a b : c_out_tags (a ++ b) = c_out_tags a ++ c_out_tags b.
Proof. apply flat_map_app. Qed.
Lemma c_frame_tags_app a b : c_frame_tags (a ++ b) = c_frame_tags a ++ c_frame_tags b.
Proof. apply flat_map_app. Qed.

Lemma answer_tag f key p em : c_frame_answer f = Some (key, (p, em)) ->
  exists t x ic, f_body f = BDict t x ic p em.
Proof.
  unfold c_frame_answer. destruct (memN (f_type f) opack_frames || memN (f_type f) auth_frames); [|discriminate].
  destruct (f_body f) as [|t x ic tag em']; [discriminate|].
  destruct (memN (f_type f) auth_frames).
  - intro H; inversion H; subst. eauto.
  - destruct t as [[|[[q|q|]|q|]]|]; try discriminate. destruct x; [|discriminate].
    intro H; inversion H; subst. eauto.
Qed.

Lemma event_tag f p : c_frame_event f = Some p -> exists x em, f_body f = BDict (Some 1%N) x true p em.
Proof.
  unfold c_frame_event. destruct (memN (f_type f) opack_frames && negb (memN (f_type f) auth_frames)); [|discriminate].
  destruct (f_body f) as [|t x ic tag em']; [discriminate|].
  destruct t as [[|[[q|q|]|q|]]|]; try discriminate. destruct ic; [|discriminate].
  intro H; inversion H; subst. eauto.
Qed.

Definition CC (h : list cev) (o : list cout) (s : cst) : Prop :=
  forall p, cntN p (c_out_tags o) + cntN p (c_held (c_wait s)) <= cntN p (c_frame_tags h).

Lemma CC_step h o s e : CC h o s -> CC (h ++ [e]) (o ++ snd (cstep s e)) (fst (cstep s e)).
Proof.
  intros H p. specialize (H p). rewrite c_out_tags_app, c_frame_tags_app, !cntN_app.
  destruct e as [w|w ft|f|w|w|w|w|].
  - simpl. pose proof (c_held_aset_none p w (c_wait s)). unfold cntN in *; simpl. lia.
  - simpl. pose proof (c_held_aset_none p w (c_wait s)). unfold cntN in *; simpl. lia.
  - rewrite cstep_frame. destruct (c_frame_answer f) as [[key [q em]]|] eqn:Ea.
    + destruct (answer_tag _ _ _ _ Ea) as (t & x & ic & Eb). unfold c_pop.
      destruct (qget key (c_q s)) as [o'|]; simpl; rewrite Eb.
      * pose proof (c_held_set_le p o' q em (c_wait s)). unfold cntN in *; simpl.
        destruct (N.eq_dec q p); lia.
      * unfold cntN in *; simpl. destruct (N.eq_dec q p); lia.
    + destruct (c_frame_event f) as [q|] eqn:Ee; simpl.
      * destruct (event_tag _ _ Ee) as (x & em & Eb). rewrite Eb. unfold cntN in *; simpl.
        destruct (N.eq_dec q p); lia.
      * unfold cntN in *; simpl. lia.
  - simpl. destruct (wget w (c_wait s)) as [[[q em]|]|] eqn:E; simpl; try (unfold cntN in *; simpl; lia).
    destruct (N.eq_dec q p) as [->|N].
    + pose proof (c_held_adel_get p w em _ E). destruct em; unfold cntN in *; simpl;
        destruct (N.eq_dec p p); try contradiction; lia.
    + pose proof (c_held_adel_le p w (c_wait s)). destruct em; unfold cntN in *; simpl;
        destruct (N.eq_dec q p); try contradiction; lia.
  - simpl. destruct (wget w (c_wait s)) as [d|] eqn:E; simpl; [|unfold cntN in *; simpl; lia].
    pose proof (c_held_adel_le p w (c_wait s)). unfold cntN in *; simpl. lia.
  - simpl. destruct (wget w (c_wait s)) as [d|] eqn:E; simpl; [|unfold cntN in *; simpl; lia].
    pose proof (c_held_adel_le p w (c_wait s)). unfold cntN in *; simpl. lia.
  - simpl. unfold cntN in *; simpl. lia.
  - simpl. unfold cntN in *; simpl. lia.
Qed.

Lemma comp_deliver_once x0 h p :
  cntN p (c_out_tags (outs cstep (c_init x0) h)) <= cntN p (c_frame_tags h).
Proof.
  assert (H : CC h (outs cstep (c_init x0) h) (final cstep (c_init x0) h)).
  { apply (run_invariant cstep CC); [intro q; simpl; lia|]. intros. now apply CC_step. }
  specialize (H p). lia.
Qed.

(* --------------------------------------------------------------------------
   C5/C6  one outcome per request; a pending request that times out gets a
          timeout error (waiter numbers not reused)                             *)
Definition c_pending (w : nat) (o : list cout) : Prop := forall x, In x o -> ~ c_mentions w x.
Definition c_mentionsb (w : nat) (x : cout) : bool :=
  match x with
  | CDeliver w' _ | CProtoErr w' _ | CTimeoutErr w' | CCancelled w' => Nat.eqb w' w
  | CListen _ | CSendErr _ => false
  end.
Definition c_outcomes (w : nat) (o : list cout) : nat := length (filter (c_mentionsb w) o).

Lemma c_mentionsb_spec w x : c_mentionsb w x = true <-> c_mentions w x.
Proof. destruct x; simpl; try apply Nat.eqb_eq; (split; [discriminate|intros []]). Qed.

Lemma c_pending_outcomes w o : c_pending w o -> c_outcomes w o = 0.
Proof.
  unfold c_pending, c_outcomes. induction o as [|x t IH]; intro H; simpl; [reflexivity|].
  destruct (c_mentionsb w x) eqn:E.
  - apply c_mentionsb_spec in E. exfalso. apply (H x); [now left|assumption].
  - apply IH. intros y Hy. apply H. now right.
Qed.

Lemma c_outcomes_app w a b : c_outcomes w (a ++ b) = c_outcomes w a + c_outcomes w b.
Proof. unfold c_outcomes. now rewrite filter_app, app_length. Qed.

Lemma c_req_waiters_app a b : c_req_waiters (a ++ b) = c_req_waiters a ++ c_req_waiters b.
Proof. apply flat_map_app. Qed.

Lemma in_c_req_waiters e w h : In e h -> c_req_of e = Some w -> In w (c_req_waiters h).
Proof. intros H R. unfold c_req_waiters. apply in_flat_map. exists e. rewrite R. simpl; auto. Qed.

Record CI (h : list cev) (o : list cout) (s : cst) : Prop := {
  ci_a1 : forall w d, wget w (c_wait s) = Some d -> In w (c_req_waiters h) /\ c_pending w o;
  ci_a2 : forall w, In w (c_req_waiters h) -> c_pending w o -> exists d, wget w (c_wait s) = Some d;
  ci_d : forall w x, In x o -> c_mentions w x -> In w (c_req_waiters h);
  ci_e : forall w, c_outcomes w o <= 1
}.

Lemma nodup_snoc' {A} (l : list A) x : NoDup (l ++ [x]) -> NoDup l /\ ~ In x l.
Proof. intro H. apply NoDup_remove in H. now rewrite app_nil_r in H. Qed.

Lemma c_fresh_prefix h e : NoDup (c_req_waiters (h ++ [e])) -> NoDup (c_req_waiters h).
Proof.
  rewrite c_req_waiters_app. simpl. destruct (c_req_of e); simpl; rewrite ?app_nil_r; auto.
  intro H. now apply nodup_snoc' in H.
Qed.

(* a step that only touches data slots / the queue map, no outcome *)
Lemma CI_silent h o s s' e :
  c_req_of e = None -> CI h o s ->
  (forall w, wget w (c_wait s') = None <-> wget w (c_wait s) = None) ->
  CI (h ++ [e]) o s'.
Proof.
  intros R [A1 A2 D E] Hw.
  assert (Rw : c_req_waiters (h ++ [e]) = c_req_waiters h).
  { rewrite c_req_waiters_app. simpl. rewrite R. simpl. now rewrite app_nil_r. }
  split; rewrite ?Rw; auto.
  - intros w d H. destruct (wget w (c_wait s)) as [d'|] eqn:E'; [eauto|].
    apply Hw in E'. congruence.
  - intros w Hr P. destruct (A2 w Hr P) as [d H].
    destruct (wget w (c_wait s')) as [d'|] eqn:E'; [eauto|]. apply Hw in E'. congruence.
Qed.

Lemma CI_finish h o s w d x e :
  c_req_of e = None -> CI h o s -> wget w (c_wait s) = Some d -> c_mentions w x ->
  (forall w1, w1 <> w -> ~ c_mentions w1 x) ->
  CI (h ++ [e]) (o ++ [x]) (MkC (c_next s) (c_q s) (adel Nat.eqb w (c_wait s))).
Proof.
  intros R [A1 A2 D E] Hw M Mw.
  assert (Rw : c_req_waiters (h ++ [e]) = c_req_waiters h).
  { rewrite c_req_waiters_app. simpl. rewrite R. simpl. now rewrite app_nil_r. }
  destruct (A1 _ _ Hw) as [Rq Pw].
  split; rewrite ?Rw; simpl.
  - intros w1 d1 H. apply (aget_adel_some _ nat_eqb_spec) in H as [N H].
    destruct (A1 _ _ H) as [R1 P1]. split; [assumption|].
    intros y Hy. apply in_app_or in Hy as [Hy|[<-|[]]]; [now apply P1|now apply Mw].
  - intros w1 R1 P1. assert (N : w1 <> w).
    { intros ->. apply (P1 x); [apply in_or_app; right; now left|assumption]. }
    destruct (A2 w1 R1) as [d1 H1].
    { intros y Hy. apply P1. apply in_or_app; now left. }
    exists d1. now rewrite (aget_adel_neq _ nat_eqb_spec).
  - intros w1 y Hy My. apply in_app_or in Hy as [Hy|[<-|[]]]; [now apply (D w1 y)|].
    destruct (Nat.eq_dec w1 w) as [->|N]; [assumption|exfalso; now apply (Mw w1)].
  - intros w1. rewrite c_outcomes_app. unfold c_outcomes at 2. simpl.
    destruct (c_mentionsb w1 x) eqn:Eb; simpl; [|specialize (E w1); lia].
    apply c_mentionsb_spec in Eb.
    assert (w1 = w) by (destruct (Nat.eq_dec w1 w); [assumption|exfalso; now apply (Mw w1)]). subst.
    rewrite (c_pending_outcomes _ _ Pw). lia.
Qed.

Lemma CI_req h o s e w key :
  NoDup (c_req_waiters (h ++ [e])) -> c_req_of e = Some w -> CI h o s ->
  CI (h ++ [e]) o (MkC (N.succ (c_next s)) (aset ckey_eqb key w (c_q s)) (aset Nat.eqb w None (c_wait s))).
Proof.
  intros F R [A1 A2 D E].
  assert (Rw : c_req_waiters (h ++ [e]) = c_req_waiters h ++ [w]).
  { rewrite c_req_waiters_app. simpl. rewrite R. reflexivity. }
  rewrite Rw in F. apply nodup_snoc' in F as [_ Nw].
  assert (Pw : c_pending w o) by (intros x Hx M; apply Nw; eapply D; eauto).
  split; rewrite ?Rw; simpl; auto.
  - intros w1 d1 H. apply (aget_aset_some _ nat_eqb_spec) in H as [[-> H]|[N H]].
    + split; [apply in_or_app; right; now left|assumption].
    + destruct (A1 _ _ H). split; [apply in_or_app; now left|assumption].
  - intros w1 H P1. apply in_app_or in H as [H|[<-|[]]].
    + assert (w1 <> w) by (intros ->; contradiction).
      rewrite (aget_aset_neq _ nat_eqb_spec) by assumption. now apply A2.
    + rewrite (aget_aset_eq _ nat_eqb_spec). eauto.
  - intros w1 x Hx M. apply in_or_app; left. eapply D; eauto.
Qed.

Lemma CI_silent_out h o s x : (forall w, ~ c_mentions w x) -> CI h o s -> CI h (o ++ [x]) s.
Proof.
  intros Nx [A1 A2 D E]. split.
  - intros w d H. destruct (A1 _ _ H) as [R P]. split; [assumption|].
    intros y Hy. apply in_app_or in Hy as [Hy|[<-|[]]]; [now apply P|apply Nx].
  - intros w R P. apply (A2 w R). intros y Hy. apply P. apply in_or_app; now left.
  - intros w y Hy M. apply in_app_or in Hy as [Hy|[<-|[]]]; [now apply (D w y)|]. exfalso. now apply (Nx w).
  - intros w. rewrite c_outcomes_app. unfold c_outcomes at 2. simpl.
    destruct (c_mentionsb w x) eqn:Eb; simpl; [|specialize (E w); lia].
    apply c_mentionsb_spec in Eb. exfalso. now apply (Nx w).
Qed.

Lemma CI_step h o s e :
  NoDup (c_req_waiters (h ++ [e])) -> CI h o s -> CI (h ++ [e]) (o ++ snd (cstep s e)) (fst (cstep s e)).
Proof.
  intros F I. destruct e as [w|w ft|f|w|w|w|w|].
  - simpl. rewrite app_nil_r. now apply (CI_req h o s (CReq w) w).
  - simpl. rewrite app_nil_r. now apply (CI_req h o s (CReqAuth w ft) w).
  - rewrite cstep_frame. destruct (c_frame_answer f) as [[key d]|] eqn:Ea; simpl.
    + rewrite app_nil_r. apply (CI_silent h o s); auto. intro w. unfold c_pop.
      destruct (qget key (c_q s)) as [o'|]; simpl; [|tauto]. split.
      * intro H. destruct (wget w (c_wait s)) eqn:E'; [|reflexivity].
        destruct (c_set_keeps o' d _ _ _ E') as [y Hy]. congruence.
      * apply c_set_none.
    + destruct (c_frame_event f) as [tag|]; [|rewrite app_nil_r; apply (CI_silent h o s); auto; tauto].
      destruct I as [A1 A2 D E]. apply (CI_silent h _ s); auto; [|tauto]. split.
      * intros w d H. destruct (A1 _ _ H) as [R P]. split; [assumption|].
        intros x Hx. apply in_app_or in Hx as [Hx|[<-|[]]]; [now apply P|intros []].
      * intros w R P. apply (A2 w R). intros x Hx. apply P. apply in_or_app; now left.
      * intros w x Hx M. apply in_app_or in Hx as [Hx|[<-|[]]]; [now apply (D w x)|destruct M].
      * intros w. rewrite c_outcomes_app. unfold c_outcomes at 2. simpl. specialize (E w). lia.
  - simpl. destruct (wget w (c_wait s)) as [[[p em]|]|] eqn:E; simpl;
      try (rewrite app_nil_r; apply (CI_silent h o s); auto; tauto).
    eapply CI_finish; eauto.
    + destruct em; reflexivity.
    + intros w1 N M. destruct em; simpl in M; congruence.
  - simpl. destruct (wget w (c_wait s)) as [d|] eqn:E; simpl;
      try (rewrite app_nil_r; apply (CI_silent h o s); auto; tauto).
    eapply CI_finish; eauto; try reflexivity; try (intros w1 N M; simpl in M; congruence).
  - simpl. destruct (wget w (c_wait s)) as [d|] eqn:E; simpl;
      try (rewrite app_nil_r; apply (CI_silent h o s); auto; tauto).
    eapply CI_finish; eauto; try reflexivity; try (intros w1 N M; simpl in M; congruence).
  - simpl. apply (CI_silent h _ s); auto; [|simpl; tauto].
    apply CI_silent_out; [intros w' []|assumption].
  - simpl. rewrite app_nil_r. apply (CI_silent h o s); auto. simpl; tauto.
Qed.

Lemma CI_reach x0 h : NoDup (c_req_waiters h) ->
  CI h (outs cstep (c_init x0) h) (final cstep (c_init x0) h).
Proof.
  apply (run_invariant_pc cstep (fun h => NoDup (c_req_waiters h)) CI).
  - apply c_fresh_prefix.
  - split; simpl; try discriminate; try (intros; contradiction). intros; unfold c_outcomes; simpl; lia.
  - intros. now apply CI_step.
Qed.

Lemma comp_outcome_once x0 h w : NoDup (c_req_waiters h) -> c_outcomes w (outs cstep (c_init x0) h) <= 1.
Proof. intro F. apply (ci_e _ _ _ (CI_reach x0 h F)). Qed.

Lemma comp_timeout_reported x0 pre w : NoDup (c_req_waiters pre) ->
  In w (c_req_waiters pre) -> c_pending w (outs cstep (c_init x0) pre) ->
  snd (cstep (final cstep (c_init x0) pre) (CTimeout w)) = [CTimeoutErr w].
Proof.
  intros F R P. destruct (ci_a2 _ _ _ (CI_reach x0 pre F) w R P) as [d Hd].
  simpl. rewrite Hd. reflexivity.
Qed.

(* once a request has ended nothing is ever handed to it again: its slot is gone for good *)
Lemma comp_ended_silent x0 pre w x e : NoDup (c_req_waiters (pre ++ [e])) ->
  In x (outs cstep (c_init x0) pre) -> c_mentions w x ->
  forall y, In y (snd (cstep (final cstep (c_init x0) pre) e)) -> ~ c_mentions w y.
Proof.
  intros F Hx M y Hy My.
  pose proof (CI_reach x0 (pre ++ [e]) F) as I.
  pose proof (ci_e _ _ _ I w) as E. rewrite outs_snoc, c_outcomes_app in E.
  assert (1 <= c_outcomes w (outs cstep (c_init x0) pre)).
  { unfold c_outcomes. apply in_split in Hx as (l1 & l2 & ->). rewrite filter_app, app_length. simpl.
    rewrite (proj2 (c_mentionsb_spec w x) M). simpl. lia. }
  assert (1 <= c_outcomes w (snd (cstep (final cstep (c_init x0) pre) e))).
  { unfold c_outcomes. apply in_split in Hy as (l1 & l2 & ->). rewrite filter_app, app_length. simpl.
    rewrite (proj2 (c_mentionsb_spec w y) My). simpl. lia. }
  lia.
Qed.

(* a fire-and-forget send uses up its own transaction id: no later exchange waits under it *)
Lemma send_xid_not_reused x0 h1 h2 r xb :
  c_key_at (final cstep (c_init x0) (h1 ++ CSend :: h2)) r = Some (CX xb) ->
  (c_next (final cstep (c_init x0) h1) < xb)%N.
Proof.
  rewrite final_app. set (s := final cstep (c_init x0) h1). simpl.
  intro K. destruct r; simpl in K; try discriminate. inversion K; subst xb.
  pose proof (c_next_mono (MkC (N.succ (c_next s)) (c_q s) (c_wait s)) h2). simpl in H. lia.
Qed.
