(* C03 - vocabulary in which the property is stated: projections of a history (what the
   environment did) and of the outputs (what callers and listeners observed). *)
From Coq Require Import List Bool Arith NArith.
From PV Require Import C03.Model.
Import ListNotations.

(* ------------------------------------------------------------------- MRP *)
Definition m_req_keys (h : list mev) : list mkey :=
  flat_map (fun e => match e with MReq _ k => [k] | _ => [] end) h.
Definition m_req_waiters (h : list mev) : list nat :=
  flat_map (fun e => match e with MReq w _ => [w] | _ => [] end) h.
Definition m_msg_tags (h : list mev) : list N :=
  flat_map (fun e => match e with MMsg m => [m_tag m] | _ => [] end) h.
(* tags of the device messages handed to somebody: a caller or the listeners *)
Definition m_out_tags (o : list mout) : list N :=
  flat_map (fun x => match x with MDeliver _ (Some p) => [p] | MListen _ p => [p] | _ => [] end) o.
(* the output is the outcome of request w *)
Definition m_mentions (w : nat) (x : mout) : Prop :=
  match x with
  | MDeliver w' _ | MTimeoutErr w' | MKeyErr w' | MCancelled w' => w' = w
  | MListen _ _ | MSendErr _ => False     (* a request whose send failed was never registered *)
  end.
(* request w has not ended yet *)
Definition m_pending (w : nat) (o : list mout) : Prop := forall x, In x o -> ~ m_mentions w x.
(* a request under key k is outstanding: it was made and has not ended (returned, failed, timed out
   or been cancelled) *)
Definition m_live (h : list mev) (o : list mout) (k : mkey) : Prop :=
  exists w, In (MReq w k) h /\ m_pending w o.
(* identifiers are not reused: uuid4 for generated identifiers; for "type_<n>" keys this is the
   protocol's promise that only one such exchange is in flight *)
Definition m_fresh (h : list mev) : Prop := NoDup (m_req_keys h) /\ NoDup (m_req_waiters h).

(* ------------------------------------------------------------- Companion *)
Definition c_req_of (e : cev) : option nat :=
  match e with CReq w | CReqAuth w _ => Some w | _ => None end.
Definition c_req_waiters (h : list cev) : list nat :=
  flat_map (fun e => match c_req_of e with Some w => [w] | None => [] end) h.
(* identifier under which a request made in state s waits *)
Definition c_key_at (s : cst) (e : cev) : option ckey :=
  match e with
  | CReq _ => Some (CX (c_next s))
  | CReqAuth _ ft => Some (CAuth (auth_ident ft))
  | _ => None
  end.
(* identifier and content that frame_received extracts from a frame, if it is a response *)
Definition c_frame_answer (f : cframe) : option (ckey * (N * bool)) :=
  if memN (f_type f) opack_frames || memN (f_type f) auth_frames then
    match f_body f with
    | BNotDict => None
    | BDict t x _ tag em =>
        if memN (f_type f) auth_frames then Some (CAuth (f_type f), (tag, em))
        else match t, x with
             | Some 3%N, Some xid => Some (CX xid, (tag, em))
             | _, _ => None
             end
    end
  else None.
(* the frame is an event *)
Definition c_frame_event (f : cframe) : option N :=
  if memN (f_type f) opack_frames && negb (memN (f_type f) auth_frames) then
    match f_body f with
    | BDict (Some 1%N) _ true tag _ => Some tag
    | _ => None
    end
  else None.
Definition c_frame_tags (h : list cev) : list N :=
  flat_map (fun e => match e with
                     | CFrame f => match f_body f with BDict _ _ _ tag _ => [tag] | BNotDict => [] end
                     | _ => []
                     end) h.
Definition c_out_tags (o : list cout) : list N :=
  flat_map (fun x => match x with CDeliver _ p | CProtoErr _ p | CListen p => [p] | _ => [] end) o.
Definition c_mentions (w : nat) (x : cout) : Prop :=
  match x with
  | CDeliver w' _ | CProtoErr w' _ | CTimeoutErr w' | CCancelled w' => w' = w
  | CListen _ | CSendErr _ => False
  end.

(* ------------------------------------------------------------ HTTP / RTSP *)
Definition h_reqs (h : list hev) : list nat :=
  flat_map (fun e => match e with HReq w _ => [w] | _ => [] end) h.
Definition h_resps (h : list hev) : list hresp :=
  flat_map (fun e => match e with HResp r => [r] | _ => [] end) h.
Definition h_is_abort (e : hev) : bool :=
  match e with HTimeout _ | HCancel _ => true | _ => false end.
(* the outcome of request w caused by response r *)
Definition h_got (x : hout) : option (nat * hresp) :=
  match x with
  | HDeliver w r | HAuthErr w r | HHttpErr w r => Some (w, r)
  | _ => None
  end.
(* a device that answers requests: never more responses than requests so far *)
Definition h_device_ok (h : list hev) : Prop :=
  forall pre post, h = pre ++ post -> length (h_resps pre) <= length (h_reqs pre).

(* every call of exchange() uses up a CSeq, also when its write fails *)
Definition r_reqs_of (h : list rtev) : list nat :=
  flat_map (fun e => match e with RReq w _ | RReqFail w => [w] | _ => [] end) h.
Definition r_resps (h : list rtev) : list hresp :=
  flat_map (fun e => match e with RResp r => [r] | _ => [] end) h.
Definition r_is_abort (e : rtev) : bool :=
  match e with RTimeout _ | RCancel _ | RReqFail _ => true | _ => false end.
Definition ok2xx (r : hresp) : Prop := (N.leb 200 (h_code r) && N.ltb (h_code r) 300) = true.
(* no request is runnable: everybody is blocked (or done) *)
Definition r_quiescent (s : rst) : Prop :=
  (forall w a r, aget Nat.eqb w (h_wait (r_http s)) = Some (a, Some r) -> False) /\
  (forall w c o r, aget Nat.eqb w (r_ph2 s) = Some c -> aget Nat.eqb w (r_ph1 s) = None ->
                   aget Nat.eqb c (r_reqs s) = Some (o, Some r) -> False).
