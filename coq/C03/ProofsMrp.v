(* C03 - MRP: identifier -> OutstandingMessage map *)
From Coq Require Import List Bool Arith NArith Lia.
From PV Require Import C03.Model C03.Spec C03.ProofsBase.
Import ListNotations.

Lemma mkey_eqb_spec a b : mkey_eqb a b = true <-> a = b.
Proof.
  destruct a, b; simpl; try (split; [discriminate|intro H; inversion H]);
    rewrite N.eqb_eq; split; congruence.
Qed.

Notation mget := (aget mkey_eqb).
Notation wget := (aget Nat.eqb).

Lemma m_release_key o wt w k v :
  wget w (m_release o wt) = Some (k, v) -> exists v', wget w wt = Some (k, v').
Proof.
  unfold m_release. destruct (wget o wt) as [[k0 v0]|] eqn:E; [|eauto].
  intro H. apply (aget_aset_some _ nat_eqb_spec) in H as [[-> H]|[_ H]]; [|eauto].
  inversion H; subst. eauto.
Qed.

Lemma m_release_key' o wt w k v :
  wget w wt = Some (k, v) -> exists v', wget w (m_release o wt) = Some (k, v').
Proof.
  unfold m_release. destruct (wget o wt) as [[k0 v0]|] eqn:E; [|eauto].
  intro H. destruct (Nat.eq_dec w o) as [->|N].
  - rewrite (aget_aset_eq _ nat_eqb_spec). rewrite E in H. inversion H; subst. eauto.
  - rewrite (aget_aset_neq _ nat_eqb_spec) by assumption. eauto.
Qed.

Lemma m_release_none o wt w : wget w wt = None -> wget w (m_release o wt) = None.
Proof.
  unfold m_release. destruct (wget o wt) as [[k0 v0]|] eqn:E; [|auto].
  intro H. destruct (Nat.eq_dec w o) as [->|N]; [congruence|].
  now rewrite (aget_aset_neq _ nat_eqb_spec).
Qed.

Lemma m_release_self w wt k v :
  wget w wt = Some (k, v) -> wget w (m_release w wt) = Some (k, S v).
Proof. unfold m_release. intros ->. apply (aget_aset_eq _ nat_eqb_spec). Qed.

Global Opaque m_release.

(* --------------------------------------------------------------------------
   T1  what a request returns is a message that carries the request's identifier
       and arrived after the request was made - for every history.            *)
Definition IA (h : list mev) (s : mst) : Prop :=
  (forall w k v, wget w (m_wait s) = Some (k, v) -> exists h1 h2, h = h1 ++ MReq w k :: h2) /\
  (forall k o p, mget k (m_out s) = Some (o, Some p) ->
     exists m h1 h3, h = h1 ++ MMsg m :: h3 /\ mkey_of m = k /\ m_tag m = p /\
       forall w v, wget w (m_wait s) = Some (k, v) -> exists h0 h2, h1 = h0 ++ MReq w k :: h2).

Lemma split_snoc {A} (h h1 h2 : list A) (x e : A) :
  h = h1 ++ x :: h2 -> h ++ [e] = h1 ++ x :: (h2 ++ [e]).
Proof. intros ->. now rewrite <- app_assoc. Qed.

Lemma IA_step h s e : IA h s -> IA (h ++ [e]) (fst (mstep s e)).
Proof.
  intros [B A]. destruct e as [w k|m|w|w|w|w]; simpl.
  - (* MReq *) split.
    + intros w' k' v H. apply (aget_aset_some _ nat_eqb_spec) in H as [[-> H]|[_ H]].
      * inversion H; subst. exists h, []. reflexivity.
      * destruct (B _ _ _ H) as (h1 & h2 & E). exists h1, (h2 ++ [MReq w k]). now apply split_snoc.
    + intros k' o p H. apply (aget_aset_some _ mkey_eqb_spec) in H as [[_ H]|[N H]]; [discriminate|].
      destruct (A _ _ _ H) as (m & h1 & h3 & E & K & T & W).
      exists m, h1, (h3 ++ [MReq w k]). repeat split; [now apply split_snoc|assumption..|].
      intros w' v' H'. apply (aget_aset_some _ nat_eqb_spec) in H' as [[_ H']|[_ H']].
      * inversion H'; subst. contradiction.
      * eauto.
  - (* MMsg *) destruct (mget (mkey_of m) (m_out s)) as [[o r]|] eqn:E; simpl.
    + split.
      * intros w k v H. apply m_release_key in H as [v' H].
        destruct (B _ _ _ H) as (h1 & h2 & E'). exists h1, (h2 ++ [MMsg m]). now apply split_snoc.
      * intros k o' p H. apply (aget_aset_some _ mkey_eqb_spec) in H as [[-> H]|[N H]].
        -- inversion H; subst. exists m, h, []. repeat split.
           intros w v H'. apply m_release_key in H' as [v' H']. eauto.
        -- destruct (A _ _ _ H) as (m' & h1 & h3 & E' & K & T & W).
           exists m', h1, (h3 ++ [MMsg m]). repeat split; [now apply split_snoc|assumption..|].
           intros w v H'. apply m_release_key in H' as [v' H']. eauto.
    + split.
      * intros w k v H. destruct (B _ _ _ H) as (h1 & h2 & E'). exists h1, (h2 ++ [MMsg m]). now apply split_snoc.
      * intros k o p H. destruct (A _ _ _ H) as (m' & h1 & h3 & E' & K & T & W).
        exists m', h1, (h3 ++ [MMsg m]). repeat split; [now apply split_snoc|assumption..].
  - (* MWake *)
    assert (G : forall s', (forall w' k v, wget w' (m_wait s') = Some (k, v) -> wget w' (m_wait s) = Some (k, v)) ->
                           (forall k o p, mget k (m_out s') = Some (o, Some p) -> mget k (m_out s) = Some (o, Some p)) ->
                           IA (h ++ [MWake w]) s').
    { intros s' Hw Ho. split.
      - intros w' k v H. apply Hw in H. destruct (B _ _ _ H) as (h1 & h2 & E').
        exists h1, (h2 ++ [MWake w]). now apply split_snoc.
      - intros k o p H. apply Ho in H. destruct (A _ _ _ H) as (m' & h1 & h3 & E' & K & T & W).
        exists m', h1, (h3 ++ [MWake w]). repeat split; [now apply split_snoc|assumption..|].
        intros w' v H'. apply Hw in H'. eauto. }
    destruct (wget w (m_wait s)) as [[k [|v]]|] eqn:E; simpl; try solve [apply G; auto].
    destruct (mget k (m_out s)) as [[o r]|] eqn:E2; simpl; apply G; simpl; auto.
    + intros w' k' v' H. now apply (aget_adel_some _ nat_eqb_spec) in H.
    + intros k' o' p H. now apply (aget_adel_some _ mkey_eqb_spec) in H.
    + intros w' k' v' H. now apply (aget_adel_some _ nat_eqb_spec) in H.
  - (* MTimeout *)
    assert (G : forall s', (forall w' k v, wget w' (m_wait s') = Some (k, v) -> wget w' (m_wait s) = Some (k, v)) ->
                           (forall k o p, mget k (m_out s') = Some (o, Some p) -> mget k (m_out s) = Some (o, Some p)) ->
                           IA (h ++ [MTimeout w]) s').
    { intros s' Hw Ho. split.
      - intros w' k v H. apply Hw in H. destruct (B _ _ _ H) as (h1 & h2 & E').
        exists h1, (h2 ++ [MTimeout w]). now apply split_snoc.
      - intros k o p H. apply Ho in H. destruct (A _ _ _ H) as (m' & h1 & h3 & E' & K & T & W).
        exists m', h1, (h3 ++ [MTimeout w]). repeat split; [now apply split_snoc|assumption..|].
        intros w' v H'. apply Hw in H'. eauto. }
    destruct (wget w (m_wait s)) as [[k v]|] eqn:E; simpl; apply G; simpl; auto.
    + intros w' k' v' H. now apply (aget_adel_some _ nat_eqb_spec) in H.
    + intros k' o' p H. now apply (aget_adel_some _ mkey_eqb_spec) in H.
  - (* MCancel *)
    assert (G : forall s', (forall w' k v, wget w' (m_wait s') = Some (k, v) -> wget w' (m_wait s) = Some (k, v)) ->
                           (forall k o p, mget k (m_out s') = Some (o, Some p) -> mget k (m_out s) = Some (o, Some p)) ->
                           IA (h ++ [MCancel w]) s').
    { intros s' Hw Ho. split.
      - intros w' k v H. apply Hw in H. destruct (B _ _ _ H) as (h1 & h2 & E').
        exists h1, (h2 ++ [MCancel w]). now apply split_snoc.
      - intros k o p H. apply Ho in H. destruct (A _ _ _ H) as (m' & h1 & h3 & E' & K & T & W).
        exists m', h1, (h3 ++ [MCancel w]). repeat split; [now apply split_snoc|assumption..|].
        intros w' v H'. apply Hw in H'. eauto. }
    destruct (wget w (m_wait s)) as [[k v]|] eqn:E; simpl; apply G; simpl; auto.
    + intros w' k' v' H. now apply (aget_adel_some _ nat_eqb_spec) in H.
    + intros k' o' p H. now apply (aget_adel_some _ mkey_eqb_spec) in H.
  - (* MReqFail *) split.
    + intros w' k v H. destruct (B _ _ _ H) as (h1 & h2 & E').
      exists h1, (h2 ++ [MReqFail w]). now apply split_snoc.
    + intros k o p H. destruct (A _ _ _ H) as (m' & h1 & h3 & E' & K & T & W).
      exists m', h1, (h3 ++ [MReqFail w]). repeat split; [now apply split_snoc|assumption..].
Qed.

Lemma IA_reach h : IA h (final mstep m_init h).
Proof.
  apply (run_invariant mstep (fun h _ s => IA h s)).
  - split; simpl; intros; discriminate.
  - intros h' o s e H. now apply IA_step.
Qed.

Lemma deliver_matches pre e w p :
  In (MDeliver w (Some p)) (snd (mstep (final mstep m_init pre) e)) ->
  e = MWake w /\
  exists k m h1 h2 h3, pre = h1 ++ MReq w k :: h2 ++ MMsg m :: h3 /\ mkey_of m = k /\ m_tag m = p.
Proof.
  destruct (IA_reach pre) as [B A]. set (s := final mstep m_init pre) in *.
  destruct e as [w' k|m|w'|w'|w'|w']; simpl.
  - intros [].
  - destruct (mget (mkey_of m) (m_out s)) as [[o r]|]; simpl; [intros []|intros [H|[]]; discriminate].
  - destruct (wget w' (m_wait s)) as [[k [|v]]|] eqn:E; simpl; [intros []| |intros []].
    destruct (mget k (m_out s)) as [[o r]|] eqn:E2; simpl; (intros [H|[]]); try discriminate.
    inversion H; subst; clear H. split; [reflexivity|].
    destruct (A _ _ _ E2) as (m & h1 & h3 & Ep & K & T & W).
    destruct (W _ _ E) as (h0 & h2 & E1). subst h1.
    exists k, m, h0, h2, h3. rewrite <- app_assoc in Ep. auto.
  - destruct (wget w' (m_wait s)) as [[k v]|]; simpl; [|intros []]. intros [H0|[]]; discriminate.
  - destruct (wget w' (m_wait s)) as [[k v]|]; simpl; [|intros []]. intros [H0|[]]; discriminate.
  - intros [H0|[]]; discriminate.
Qed.

(* --------------------------------------------------------------------------
   T2  conservation: a device message is handed out (to a caller or to the
       listeners) at most as often as it arrived.                            *)
Definition cnt (p : N) (l : list N) : nat := count_occ N.eq_dec l p.

Lemma cnt_app p a b : cnt p (a ++ b) = cnt p a + cnt p b.
Proof. apply count_occ_app. Qed.

Definition m_held (l : list (mkey * (nat * option N))) : list N :=
  flat_map (fun e => match snd (snd e) with Some p => [p] | None => [] end) l.

Lemma held_adel_le p k l : cnt p (m_held (adel mkey_eqb k l)) <= cnt p (m_held l).
Proof.
  induction l as [|[k' [o r]] t IH]; simpl; [lia|].
  destruct (mkey_eqb k k'); simpl; destruct r as [q|]; simpl; unfold cnt in *; simpl;
    try destruct (N.eq_dec q p); lia.
Qed.

Lemma held_adel_get p k o l :
  mget k l = Some (o, Some p) -> S (cnt p (m_held (adel mkey_eqb k l))) <= cnt p (m_held l).
Proof.
  induction l as [|[k' [o' r]] t IH]; simpl; [discriminate|].
  destruct (mkey_eqb k k') eqn:E.
  - intro H; inversion H; subst. simpl. pose proof (held_adel_le p k t). unfold cnt in *. simpl.
    destruct (N.eq_dec p p); [lia|contradiction].
  - intro H. specialize (IH H). simpl. destruct r as [q|]; simpl; unfold cnt in *; simpl;
      try destruct (N.eq_dec q p); lia.
Qed.

Lemma out_tags_app a b : m_out_tags (a ++ b) = m_out_tags a ++ m_out_tags b.
Proof. apply flat_map_app. Qed.
Lemma msg_tags_app a b : m_msg_tags (a ++ b) = m_msg_tags a ++ m_msg_tags b.
Proof. apply flat_map_app. Qed.

Definition IC (h : list mev) (o : list mout) (s : mst) : Prop :=
  forall p, cnt p (m_out_tags o) + cnt p (m_held (m_out s)) <= cnt p (m_msg_tags h).

Local Transparent aset.
Lemma IC_step h o s e : IC h o s -> IC (h ++ [e]) (o ++ snd (mstep s e)) (fst (mstep s e)).
Proof.
  intros H p. specialize (H p). rewrite out_tags_app, msg_tags_app, !cnt_app.
  destruct e as [w k|m|w|w|w|w]; simpl.
  - pose proof (held_adel_le p k (m_out s)). unfold cnt in *; simpl. lia.
  - destruct (mget (mkey_of m) (m_out s)) as [[o' r]|] eqn:E; simpl.
    + pose proof (held_adel_le p (mkey_of m) (m_out s)). unfold cnt in *; simpl.
      destruct (N.eq_dec (m_tag m) p); lia.
    + unfold cnt in *; simpl. destruct (N.eq_dec (m_tag m) p); lia.
  - destruct (wget w (m_wait s)) as [[k [|v]]|] eqn:E; simpl; try (unfold cnt in *; simpl; lia).
    destruct (mget k (m_out s)) as [[o' r]|] eqn:E2; simpl; [|unfold cnt in *; simpl; lia].
    destruct r as [q|]; simpl.
    + destruct (N.eq_dec q p) as [->|N].
      * pose proof (held_adel_get p k o' _ E2). unfold cnt in *; simpl.
        destruct (N.eq_dec p p); [lia|contradiction].
      * pose proof (held_adel_le p k (m_out s)). unfold cnt in *; simpl.
        destruct (N.eq_dec q p); [contradiction|lia].
    + pose proof (held_adel_le p k (m_out s)). unfold cnt in *; simpl. lia.
  - destruct (wget w (m_wait s)) as [[k v]|] eqn:E; simpl; try (unfold cnt in *; simpl; lia).
    pose proof (held_adel_le p k (m_out s)). unfold cnt in *; simpl. lia.
  - destruct (wget w (m_wait s)) as [[k v]|] eqn:E; simpl; try (unfold cnt in *; simpl; lia).
    pose proof (held_adel_le p k (m_out s)). unfold cnt in *; simpl. lia.
  - unfold cnt in *; simpl. lia.
Qed.

Global Opaque aset.

Lemma deliver_once h p :
  cnt p (m_out_tags (outs mstep m_init h)) <= cnt p (m_msg_tags h).
Proof.
  pose proof (run_invariant mstep IC m_init) as R.
  assert (H : IC h (outs mstep m_init h) (final mstep m_init h)).
  { apply R; [intro q; simpl; lia|]. intros. now apply IC_step. }
  specialize (H p). lia.
Qed.

Lemma deliver_once_nodup h :
  NoDup (m_msg_tags h) -> NoDup (m_out_tags (outs mstep m_init h)).
Proof.
  intro N. apply (NoDup_count_occ N.eq_dec). intro p.
  pose proof (deliver_once h p). unfold cnt in *.
  rewrite (NoDup_count_occ N.eq_dec) in N. specialize (N p). lia.
Qed.

(* --------------------------------------------------------------------------
   T3-T6  under freshness of identifiers: exact characterisation of the map,
          hence of what happens to every message, timeout and wake-up.        *)
Definition m_mentionsb (w : nat) (x : mout) : bool :=
  match x with
  | MDeliver w' _ | MTimeoutErr w' | MKeyErr w' | MCancelled w' => Nat.eqb w' w
  | MListen _ _ | MSendErr _ => false
  end.
Definition m_outcomes (w : nat) (o : list mout) : nat := length (filter (m_mentionsb w) o).

Lemma m_mentionsb_spec w x : m_mentionsb w x = true <-> m_mentions w x.
Proof. destruct x; simpl; try apply Nat.eqb_eq; (split; [discriminate|intros []]). Qed.

Lemma pending_outcomes w o : m_pending w o -> m_outcomes w o = 0.
Proof.
  unfold m_pending, m_outcomes. induction o as [|x t IH]; intro H; simpl; [reflexivity|].
  destruct (m_mentionsb w x) eqn:E.
  - apply m_mentionsb_spec in E. exfalso. apply (H x); [now left|assumption].
  - apply IH. intros y Hy. apply H. now right.
Qed.

Lemma outcomes_snoc w o x :
  m_outcomes w (o ++ [x]) = m_outcomes w o + (if m_mentionsb w x then 1 else 0).
Proof.
  unfold m_outcomes. rewrite filter_app, app_length. simpl. destruct (m_mentionsb w x); reflexivity.
Qed.

Lemma in_req_keys w k h : In (MReq w k) h -> In k (m_req_keys h) /\ In w (m_req_waiters h).
Proof.
  unfold m_req_keys, m_req_waiters. intro H. split; apply in_flat_map; exists (MReq w k); simpl; auto.
Qed.

Lemma nodup_snoc {A} (l : list A) x : NoDup (l ++ [x]) -> NoDup l /\ ~ In x l.
Proof. intro H. apply NoDup_remove in H. now rewrite app_nil_r in H. Qed.

Lemma req_keys_app a b : m_req_keys (a ++ b) = m_req_keys a ++ m_req_keys b.
Proof. apply flat_map_app. Qed.
Lemma req_waiters_app a b : m_req_waiters (a ++ b) = m_req_waiters a ++ m_req_waiters b.
Proof. apply flat_map_app. Qed.

Lemma fresh_prefix h e : m_fresh (h ++ [e]) -> m_fresh h.
Proof.
  unfold m_fresh. rewrite req_keys_app, req_waiters_app. intros [K W].
  destruct e; simpl in *; rewrite ?app_nil_r in *; try (split; assumption).
  split; [now apply nodup_snoc in K|now apply nodup_snoc in W].
Qed.

Lemma fresh_new h w k :
  m_fresh (h ++ [MReq w k]) -> (forall k', ~ In (MReq w k') h) /\ (forall w', ~ In (MReq w' k) h).
Proof.
  unfold m_fresh. rewrite req_keys_app, req_waiters_app. simpl. intros [K W].
  apply nodup_snoc in K as [_ K]. apply nodup_snoc in W as [_ W].
  split; intros x H; apply in_req_keys in H as [H1 H2]; contradiction.
Qed.

Lemma fresh_inj h : m_fresh h -> forall w k w' k', In (MReq w k) h -> In (MReq w' k') h ->
  (k = k' -> w = w') /\ (w = w' -> k = k').
Proof.
  induction h as [|e h IH] using rev_ind; [intros _ w k w' k' []|].
  intros F w k w' k' H1 H2. pose proof (fresh_prefix _ _ F) as F'.
  apply in_app_or in H1 as [H1|[H1|[]]]; apply in_app_or in H2 as [H2|[H2|[]]].
  - now apply IH.
  - subst e. destruct (fresh_new _ _ _ F) as [A B]. split; intros ->; exfalso; [eapply B|eapply A]; eauto.
  - subst e. destruct (fresh_new _ _ _ F) as [A B]. split; intros <-; exfalso; [eapply B|eapply A]; eauto.
  - subst e. inversion H2; subst. auto.
Qed.

Record I3 (h : list mev) (o : list mout) (s : mst) : Prop := {
  i_a1 : forall w k v, wget w (m_wait s) = Some (k, v) -> In (MReq w k) h /\ m_pending w o;
  i_a2 : forall w k, In (MReq w k) h -> m_pending w o -> exists v, wget w (m_wait s) = Some (k, v);
  i_b : forall k ow r, mget k (m_out s) = Some (ow, r) -> In (MReq ow k) h /\ m_pending ow o;
  i_c : forall w k, In (MReq w k) h -> m_pending w o -> exists r, mget k (m_out s) = Some (w, r);
  i_d : forall w x, In x o -> m_mentions w x -> exists k, In (MReq w k) h;
  i_e : forall w, m_outcomes w o <= 1
}.

(* the history grows by an event that is not a request; nothing else changes *)
Lemma I3_noop h o s e : (forall w k, e <> MReq w k) -> I3 h o s -> I3 (h ++ [e]) o s.
Proof.
  intros Ne [A1 A2 B C D E]. split; auto.
  - intros w k v H. destruct (A1 _ _ _ H). split; [apply in_or_app; now left|assumption].
  - intros w k H. apply in_app_or in H as [H|[H|[]]]; [now apply A2|]. exfalso. eapply Ne; eauto.
  - intros k ow r H. destruct (B _ _ _ H). split; [apply in_or_app; now left|assumption].
  - intros w k H. apply in_app_or in H as [H|[H|[]]]; [now apply C|]. exfalso. eapply Ne; eauto.
  - intros w x Hx M. destruct (D _ _ Hx M) as [k Hk]. exists k. apply in_or_app; now left.
Qed.

(* request w ends with outcome x (returned / timed out / cancelled); its registration is removed *)
Lemma I3_finish_del h o s w k v x :
  m_fresh h -> I3 h o s -> wget w (m_wait s) = Some (k, v) -> m_mentions w x ->
  I3 h (o ++ [x]) (MkM (adel mkey_eqb k (m_out s)) (adel Nat.eqb w (m_wait s))).
Proof.
  intros F [A1 A2 B C D E] Hw M. destruct (A1 _ _ _ Hw) as [Rw Pw].
  assert (Mw : forall w1, w1 <> w -> ~ m_mentions w1 x).
  { intros w1 N M1. destruct x; simpl in *; congruence. }
  split; simpl.
  - intros w1 k1 v1 H. apply (aget_adel_some _ nat_eqb_spec) in H as [N H].
    destruct (A1 _ _ _ H) as [R1 P1]. split; [assumption|].
    intros y Hy. apply in_app_or in Hy as [Hy|[<-|[]]]; [now apply P1|now apply Mw].
  - intros w1 k1 R1 P1. assert (N : w1 <> w).
    { intros ->. apply (P1 x); [apply in_or_app; right; now left|assumption]. }
    destruct (A2 w1 k1 R1) as [v1 H1].
    { intros y Hy. apply P1. apply in_or_app; now left. }
    exists v1. now rewrite (aget_adel_neq _ nat_eqb_spec).
  - intros k1 ow r H. apply (aget_adel_some _ mkey_eqb_spec) in H as [N H].
    destruct (B _ _ _ H) as [R1 C1]. split; [assumption|].
    intros y Hy. apply in_app_or in Hy as [Hy|[<-|[]]]; [now apply C1|].
    intro My. assert (ow = w) by (destruct (Nat.eq_dec ow w); [assumption|exfalso; now apply (Mw ow)]). subst ow.
    apply N. now apply (fresh_inj h F w k1 w k).
  - intros w1 k1 R1 C1. assert (N : w1 <> w).
    { intros ->. apply (C1 x); [apply in_or_app; right; now left|assumption]. }
    destruct (C w1 k1 R1) as [r H].
    { intros y Hy. apply C1. apply in_or_app; now left. }
    exists r. rewrite (aget_adel_neq _ mkey_eqb_spec); [assumption|].
    intros ->. apply N. now apply (fresh_inj h F w1 k w k).
  - intros w1 y Hy My. apply in_app_or in Hy as [Hy|[<-|[]]]; [now apply (D w1 y)|].
    destruct (Nat.eq_dec w1 w) as [->|N]; [eauto|exfalso; now apply (Mw w1)].
  - intros w1. rewrite outcomes_snoc. destruct (m_mentionsb w1 x) eqn:Eb; [|specialize (E w1); lia].
    apply m_mentionsb_spec in Eb.
    assert (w1 = w) by (destruct (Nat.eq_dec w1 w); [assumption|exfalso; now apply (Mw w1)]). subst.
    rewrite (pending_outcomes _ _ Pw). lia.
Qed.

(* an output that is nobody's outcome (a listener call, a failed send) *)
Lemma I3_silent_out h o s x : (forall w, ~ m_mentions w x) -> I3 h o s -> I3 h (o ++ [x]) s.
Proof.
  intros Nx [A1 A2 B C D E]. split; auto.
  - intros w k v H. destruct (A1 _ _ _ H) as [R P]. split; [assumption|].
    intros y Hy. apply in_app_or in Hy as [Hy|[<-|[]]]; [now apply P|apply Nx].
  - intros w k R P. apply (A2 w k R). intros y Hy. apply P. apply in_or_app; now left.
  - intros k ow r H. destruct (B _ _ _ H) as [R C1]. split; [assumption|].
    intros y Hy. apply in_app_or in Hy as [Hy|[<-|[]]]; [now apply C1|apply Nx].
  - intros w k R C1. apply (C w k R). intros y Hy. apply C1. apply in_or_app; now left.
  - intros w y Hy M. apply in_app_or in Hy as [Hy|[<-|[]]]; [now apply (D w y)|]. exfalso. now apply (Nx w).
  - intros w. rewrite outcomes_snoc. destruct (m_mentionsb w x) eqn:Eb; [|specialize (E w); lia].
    apply m_mentionsb_spec in Eb. exfalso. now apply (Nx w).
Qed.

Lemma I3_step h o s e :
  m_fresh (h ++ [e]) -> I3 h o s -> I3 (h ++ [e]) (o ++ snd (mstep s e)) (fst (mstep s e)).
Proof.
  intros F I. pose proof (fresh_prefix _ _ F) as F0.
  destruct e as [w k|m|w|w|w|w]; simpl.
  - (* MReq *)
    destruct (fresh_new _ _ _ F) as [Nw Nk]. destruct I as [A1 A2 B C D E]. rewrite app_nil_r.
    assert (Pw : m_pending w o).
    { intros x Hx M. destruct (D _ _ Hx M) as [k' Hk]. now apply (Nw k'). }
    split; simpl; auto.
    + intros w1 k1 v1 H. apply (aget_aset_some _ nat_eqb_spec) in H as [[-> H]|[N H]].
      * inversion H; subst. split; [apply in_or_app; right; now left|assumption].
      * destruct (A1 _ _ _ H). split; [apply in_or_app; now left|assumption].
    + intros w1 k1 H P1. apply in_app_or in H as [H|[H|[]]].
      * assert (w1 <> w) by (intros ->; now apply (Nw k1)).
        rewrite (aget_aset_neq _ nat_eqb_spec) by assumption. now apply A2.
      * inversion H; subst. rewrite (aget_aset_eq _ nat_eqb_spec). eauto.
    + intros k1 ow r H. apply (aget_aset_some _ mkey_eqb_spec) in H as [[-> H]|[N H]].
      * inversion H; subst. split; [apply in_or_app; right; now left|assumption].
      * destruct (B _ _ _ H). split; [apply in_or_app; now left|assumption].
    + intros w1 k1 H C1. apply in_app_or in H as [H|[H|[]]].
      * assert (k1 <> k) by (intros ->; now apply (Nk w1)).
        rewrite (aget_aset_neq _ mkey_eqb_spec) by assumption. now apply C.
      * inversion H; subst. rewrite (aget_aset_eq _ mkey_eqb_spec). eauto.
    + intros w1 x Hx M. destruct (D _ _ Hx M) as [k' Hk]. exists k'. apply in_or_app; now left.
  - (* MMsg *)
    destruct (mget (mkey_of m) (m_out s)) as [[ow r]|] eqn:Eo; simpl.
    + rewrite app_nil_r. apply I3_noop; [intros; discriminate|].
      destruct I as [A1 A2 B C D E]. split; simpl; auto.
      * intros w k v H. apply m_release_key in H as [v' H]. eauto.
      * intros w k R P. destruct (A2 _ _ R P) as [v H]. eapply m_release_key'; eauto.
      * intros k ow' r' H. apply (aget_aset_some _ mkey_eqb_spec) in H as [[-> H]|[N H]]; [|eauto].
        inversion H; subst. eauto.
      * intros w k R C1. destruct (C _ _ R C1) as [r' H].
        destruct (mkey_eqb k (mkey_of m)) eqn:Ek.
        -- apply mkey_eqb_spec in Ek. subst k. rewrite (aget_aset_eq _ mkey_eqb_spec).
           rewrite Eo in H. inversion H; subst. eauto.
        -- rewrite (aget_aset_neq _ mkey_eqb_spec); [eauto|]. intros ->.
           rewrite (proj2 (mkey_eqb_spec _ _) eq_refl) in Ek. discriminate.
    + apply I3_noop; [intros; discriminate|].
      destruct I as [A1 A2 B C D E]. split; auto.
      * intros w k v H. destruct (A1 _ _ _ H) as [R P]. split; [assumption|].
        intros x Hx. apply in_app_or in Hx as [Hx|[<-|[]]]; [now apply P|intros []].
      * intros w k R P. apply (A2 w k R). intros x Hx. apply P. apply in_or_app; now left.
      * intros k ow r H. destruct (B _ _ _ H) as [R C1]. split; [assumption|].
        intros x Hx. apply in_app_or in Hx as [Hx|[<-|[]]]; [now apply C1|intros []].
      * intros w k R C1. apply (C w k R). intros x Hx. apply C1. apply in_or_app; now left.
      * intros w x Hx M. apply in_app_or in Hx as [Hx|[<-|[]]]; [now apply (D w x)|destruct M].
      * intros w. rewrite outcomes_snoc. simpl. specialize (E w). lia.
  - (* MWake *)
    destruct (wget w (m_wait s)) as [[k [|v]]|] eqn:Ew; simpl;
      try (rewrite app_nil_r; apply I3_noop; [intros; discriminate|assumption]).
    destruct (i_a1 _ _ _ I _ _ _ Ew) as [R P].
    destruct (i_c _ _ _ I _ _ R P) as [r Er]. rewrite Er. simpl.
    apply I3_noop; [intros; discriminate|].
    eapply I3_finish_del; eauto. reflexivity.
  - (* MTimeout *)
    destruct (wget w (m_wait s)) as [[k v]|] eqn:Ew; simpl;
      try (rewrite app_nil_r; apply I3_noop; [intros; discriminate|assumption]).
    apply I3_noop; [intros; discriminate|].
    eapply I3_finish_del; eauto. reflexivity.
  - (* MCancel *)
    destruct (wget w (m_wait s)) as [[k v]|] eqn:Ew; simpl;
      try (rewrite app_nil_r; apply I3_noop; [intros; discriminate|assumption]).
    apply I3_noop; [intros; discriminate|].
    eapply I3_finish_del; eauto. reflexivity.
  - (* MReqFail *)
    apply I3_noop; [intros; discriminate|]. apply I3_silent_out; [intros w' []|assumption].
Qed.

Lemma I3_reach h : m_fresh h -> I3 h (outs mstep m_init h) (final mstep m_init h).
Proof.
  apply (run_invariant_pc mstep m_fresh I3).
  - apply fresh_prefix.
  - split; simpl; try discriminate; try (intros; contradiction). intros; unfold m_outcomes; simpl; lia.
  - intros. now apply I3_step.
Qed.

Lemma live_iff pre : m_fresh pre ->
  forall k, m_live pre (outs mstep m_init pre) k <-> mget k (m_out (final mstep m_init pre)) <> None.
Proof.
  intros F k. pose proof (I3_reach pre F) as I. split.
  - intros (w & R & C). destruct (i_c _ _ _ I _ _ R C) as [r H]. congruence.
  - intro H. destruct (mget k (m_out (final mstep m_init pre))) as [[ow r]|] eqn:E; [|congruence].
    destruct (i_b _ _ _ I _ _ _ E) as [R C]. exists ow. split; assumption.
Qed.

Lemma unsolicited_iff pre m : m_fresh pre ->
  (m_live pre (outs mstep m_init pre) (mkey_of m) ->
     snd (mstep (final mstep m_init pre) (MMsg m)) = []) /\
  (~ m_live pre (outs mstep m_init pre) (mkey_of m) ->
     snd (mstep (final mstep m_init pre) (MMsg m)) = [MListen (m_type m) (m_tag m)]).
Proof.
  intro F. pose proof (live_iff pre F (mkey_of m)) as L. simpl.
  destruct (mget (mkey_of m) (m_out (final mstep m_init pre))) as [[ow r]|] eqn:E; simpl; split; intro H; auto.
  - exfalso. apply H. apply L. congruence.
  - exfalso. apply L in H. congruence.
Qed.

(* an entry of the map is only ever created by a request - no freshness needed *)
Lemma entry_requested h : forall k ow r,
  mget k (m_out (final mstep m_init h)) = Some (ow, r) -> exists w, In (MReq w k) h.
Proof.
  induction h as [|e h IH] using rev_ind; [discriminate|].
  intros k ow r. rewrite final_snoc.
  assert (Ext : (exists w, In (MReq w k) h) -> exists w, In (MReq w k) (h ++ [e])).
  { intros [w Hw]. exists w. apply in_or_app; now left. }
  set (s := final mstep m_init h) in *. destruct e as [w k'|m|w|w|w|w]; simpl.
  - intro H. apply (aget_aset_some _ mkey_eqb_spec) in H as [[-> _]|[_ H]].
    + exists w. apply in_or_app; right; now left.
    + eauto.
  - destruct (mget (mkey_of m) (m_out s)) as [[o' r']|] eqn:E'; simpl; [|eauto].
    intro H. apply (aget_aset_some _ mkey_eqb_spec) in H as [[-> _]|[_ H]]; eauto.
  - destruct (wget w (m_wait s)) as [[k' [|v]]|]; simpl; eauto.
    destruct (mget k' (m_out s)) as [[o' r']|]; simpl; eauto.
    intro H. apply (aget_adel_some _ mkey_eqb_spec) in H as [_ H]. eauto.
  - destruct (wget w (m_wait s)) as [[k' v]|]; simpl; eauto.
    intro H. apply (aget_adel_some _ mkey_eqb_spec) in H as [_ H]. eauto.
  - destruct (wget w (m_wait s)) as [[k' v]|]; simpl; eauto.
    intro H. apply (aget_adel_some _ mkey_eqb_spec) in H as [_ H]. eauto.
  - eauto.
Qed.

Lemma never_requested_listen pre m :
  (forall w, ~ In (MReq w (mkey_of m)) pre) ->
  snd (mstep (final mstep m_init pre) (MMsg m)) = [MListen (m_type m) (m_tag m)].
Proof.
  intro H. simpl.
  destruct (mget (mkey_of m) (m_out (final mstep m_init pre))) as [[ow r]|] eqn:E; simpl; auto.
  exfalso. destruct (entry_requested _ _ _ _ E) as [w Hw]. exact (H w Hw).
Qed.

Lemma ended_not_live pre w k x : m_fresh pre ->
  In (MReq w k) pre -> In x (outs mstep m_init pre) -> m_mentions w x ->
  ~ m_live pre (outs mstep m_init pre) k.
Proof.
  intros F R Hx M (w' & R' & C).
  assert (w' = w) by (now apply (fresh_inj pre F w' k w k)). subst w'.
  now apply (C x).
Qed.

(* after request w has ended - returned, failed, timed out or been cancelled - a message under its
   identifier goes to the listeners *)
Lemma ended_isolated pre w k x m : m_fresh pre ->
  In (MReq w k) pre -> In x (outs mstep m_init pre) -> m_mentions w x -> mkey_of m = k ->
  snd (mstep (final mstep m_init pre) (MMsg m)) = [MListen (m_type m) (m_tag m)].
Proof.
  intros F R Hx M K. apply (unsolicited_iff pre m F). rewrite K. eapply ended_not_live; eauto.
Qed.

Lemma timeout_isolated pre w k m : m_fresh pre ->
  In (MReq w k) pre -> In (MTimeoutErr w) (outs mstep m_init pre) -> mkey_of m = k ->
  snd (mstep (final mstep m_init pre) (MMsg m)) = [MListen (m_type m) (m_tag m)].
Proof. intros F R T K. eapply ended_isolated; eauto. reflexivity. Qed.

Lemma cancel_isolated pre w k m : m_fresh pre ->
  In (MReq w k) pre -> In (MCancelled w) (outs mstep m_init pre) -> mkey_of m = k ->
  snd (mstep (final mstep m_init pre) (MMsg m)) = [MListen (m_type m) (m_tag m)].
Proof. intros F R T K. eapply ended_isolated; eauto. reflexivity. Qed.

Lemma outcome_once h w : m_fresh h -> m_outcomes w (outs mstep m_init h) <= 1.
Proof. intro F. apply (i_e _ _ _ (I3_reach h F)). Qed.

Lemma timeout_reported pre w k : m_fresh pre ->
  In (MReq w k) pre -> m_pending w (outs mstep m_init pre) ->
  snd (mstep (final mstep m_init pre) (MTimeout w)) = [MTimeoutErr w].
Proof.
  intros F R P. pose proof (I3_reach pre F) as I.
  destruct (i_a2 _ _ _ I _ _ R P) as [v Hv].
  simpl. rewrite Hv. reflexivity.
Qed.

Lemma answer_delivered pre w k m : m_fresh pre ->
  In (MReq w k) pre -> m_pending w (outs mstep m_init pre) -> mkey_of m = k ->
  let s1 := fst (mstep (final mstep m_init pre) (MMsg m)) in
  snd (mstep (final mstep m_init pre) (MMsg m)) = [] /\
  snd (mstep s1 (MWake w)) = [MDeliver w (Some (m_tag m))].
Proof.
  intros F R P K. pose proof (I3_reach pre F) as I.
  destruct (i_a2 _ _ _ I _ _ R P) as [v Hv].
  destruct (i_c _ _ _ I _ _ R P) as [r Hr].
  simpl. rewrite K, Hr. simpl. split; [reflexivity|].
  rewrite (m_release_self _ _ _ _ Hv). rewrite (aget_aset_eq _ mkey_eqb_spec). reflexivity.
Qed.
