(* C03 - property theorems (under construction) *)
From PV Require Import C03.Model.
