(* C03 - a response reaches exactly the request that it answers.
   Property theorems only; every one is about ALL histories of the model (arbitrary
   interleavings of requests, device messages, wake-ups, timeouts and cancellations). *)
From Coq Require Import List Bool Arith NArith Lia.
From PV Require Import C03.Model C03.Spec C03.ProofsBase C03.ProofsMrp C03.ProofsComp C03.ProofsHttp C03.ProofsRtsp C03.ProofsPerm.
Import ListNotations.

(* ======================================================================= MRP *)

(* deliver_matches: whatever send_and_receive returns to request w is a device message
   that carries w's identifier and arrived after w's request - no side condition. *)
Theorem C03_mrp_deliver_matches : forall pre e w p,
  In (MDeliver w (Some p)) (snd (mstep (final mstep m_init pre) e)) ->
  e = MWake w /\
  exists k m h1 h2 h3, pre = h1 ++ MReq w k :: h2 ++ MMsg m :: h3 /\ mkey_of m = k /\ m_tag m = p.
Proof. exact deliver_matches. Qed.
Print Assumptions C03_mrp_deliver_matches.

(* deliver_once: a message is handed out - to a caller or to the listeners - at most as
   often as it arrived; with distinct messages nothing is handed out twice. *)
Theorem C03_mrp_deliver_once : forall h,
  (forall p, count_occ N.eq_dec (m_out_tags (outs mstep m_init h)) p <= count_occ N.eq_dec (m_msg_tags h) p) /\
  (NoDup (m_msg_tags h) -> NoDup (m_out_tags (outs mstep m_init h))).
Proof. intro h. split; [intro p; exact (deliver_once h p)|exact (deliver_once_nodup h)]. Qed.
Print Assumptions C03_mrp_deliver_once.

(* unsolicited_once: with fresh identifiers, a message goes to the listeners exactly once
   iff no request is registered under its identifier, and is kept for that request otherwise. *)
Theorem C03_mrp_unsolicited_once : forall pre m, m_fresh pre ->
  (m_live pre (outs mstep m_init pre) (mkey_of m) ->
     snd (mstep (final mstep m_init pre) (MMsg m)) = []) /\
  (~ m_live pre (outs mstep m_init pre) (mkey_of m) ->
     snd (mstep (final mstep m_init pre) (MMsg m)) = [MListen (m_type m) (m_tag m)]).
Proof. exact unsolicited_iff. Qed.
Print Assumptions C03_mrp_unsolicited_once.

(* ... in particular (no freshness needed) a message whose identifier was never requested *)
Theorem C03_mrp_unsolicited_never_requested : forall pre m,
  (forall w, ~ In (MReq w (mkey_of m)) pre) ->
  snd (mstep (final mstep m_init pre) (MMsg m)) = [MListen (m_type m) (m_tag m)].
Proof. exact never_requested_listen. Qed.
Print Assumptions C03_mrp_unsolicited_never_requested.

(* timeout_isolated: after request w timed out, a late answer to it reaches no caller at
   all - it is dispatched to the listeners like any unsolicited message. *)
Theorem C03_mrp_timeout_isolated : forall pre w k m, m_fresh pre ->
  In (MReq w k) pre -> In (MTimeoutErr w) (outs mstep m_init pre) -> mkey_of m = k ->
  snd (mstep (final mstep m_init pre) (MMsg m)) = [MListen (m_type m) (m_tag m)].
Proof. exact timeout_isolated. Qed.
Print Assumptions C03_mrp_timeout_isolated.

(* the same after a cancellation (pyatv fix 581a057): a request abandoned by its caller leaves
   no entry behind, so its late answer - and for "type_<n>" keys every later message of that
   type - is dispatched to the listeners instead of being swallowed. *)
Theorem C03_mrp_cancel_isolated : forall pre w k m, m_fresh pre ->
  In (MReq w k) pre -> In (MCancelled w) (outs mstep m_init pre) -> mkey_of m = k ->
  snd (mstep (final mstep m_init pre) (MMsg m)) = [MListen (m_type m) (m_tag m)].
Proof. exact cancel_isolated. Qed.
Print Assumptions C03_mrp_cancel_isolated.

(* every request ends at most once (so nothing is handed to it after it timed out) *)
Theorem C03_mrp_outcome_once : forall h w, m_fresh h ->
  length (filter (m_mentionsb w) (outs mstep m_init h)) <= 1.
Proof. intros h w F. exact (outcome_once h w F). Qed.
Print Assumptions C03_mrp_outcome_once.

(* a pending request whose timer fires gets the timeout error *)
Theorem C03_mrp_timeout_reported : forall pre w k, m_fresh pre ->
  In (MReq w k) pre -> m_pending w (outs mstep m_init pre) ->
  snd (mstep (final mstep m_init pre) (MTimeout w)) = [MTimeoutErr w].
Proof. exact timeout_reported. Qed.
Print Assumptions C03_mrp_timeout_reported.

(* and the answer that arrives while the request is pending is what it returns *)
Theorem C03_mrp_answer_delivered : forall pre w k m, m_fresh pre ->
  In (MReq w k) pre -> m_pending w (outs mstep m_init pre) -> mkey_of m = k ->
  snd (mstep (final mstep m_init pre) (MMsg m)) = [] /\
  snd (mstep (fst (mstep (final mstep m_init pre) (MMsg m))) (MWake w)) = [MDeliver w (Some (m_tag m))].
Proof. exact answer_delivered. Qed.
Print Assumptions C03_mrp_answer_delivered.

(* ================================================================= Companion *)

(* deliver_matches: what exchange_opack/exchange_auth returns (or the "_em" error it raises)
   was carried by a frame bearing the identifier assigned to that request, arriving after it. *)
Theorem C03_comp_deliver_matches : forall x0 pre e w p (err : bool),
  In (if err then CProtoErr w p else CDeliver w p) (snd (cstep (final cstep (c_init x0) pre) e)) ->
  e = CWake w /\
  exists key h1 r h2 f h3,
    pre = h1 ++ r :: h2 ++ CFrame f :: h3 /\ c_req_of r = Some w /\
    c_key_at (final cstep (c_init x0) h1) r = Some key /\ c_frame_answer f = Some (key, (p, err)).
Proof. exact comp_deliver_matches. Qed.
Print Assumptions C03_comp_deliver_matches.

Theorem C03_comp_deliver_once : forall x0 h p,
  count_occ N.eq_dec (c_out_tags (outs cstep (c_init x0) h)) p <= count_occ N.eq_dec (c_frame_tags h) p.
Proof. exact comp_deliver_once. Qed.
Print Assumptions C03_comp_deliver_once.

(* unsolicited_once: an event reaches the listener exactly once in every state and touches
   no request; no frame of any kind produces more than that one listener call. *)
Theorem C03_comp_unsolicited_once : forall s f,
  (forall tag, c_frame_event f = Some tag -> cstep s (CFrame f) = (s, [CListen tag])) /\
  (snd (cstep s (CFrame f)) = [] \/
   exists tag, c_frame_event f = Some tag /\ snd (cstep s (CFrame f)) = [CListen tag]).
Proof. intros s f. split; [intro tag; exact (event_once s f tag)|exact (frame_outputs s f)]. Qed.
Print Assumptions C03_comp_unsolicited_once.

(* timeout_isolated: transaction ids are never reused - together with deliver_matches, the
   late answer to an abandoned request can never be taken for the answer to a later one. *)
Theorem C03_comp_xid_never_reused : forall x0 h1 r1 h2 r2 xa xb,
  c_key_at (final cstep (c_init x0) h1) r1 = Some (CX xa) ->
  c_key_at (final cstep (c_init x0) (h1 ++ r1 :: h2)) r2 = Some (CX xb) ->
  (xa < xb)%N.
Proof. exact xid_unique. Qed.
Print Assumptions C03_comp_xid_never_reused.

(* the same for a fire-and-forget send_opack (an event sent to the device): the id it carries - the
   value of the counter at that moment - is never given to a later exchange, so a Response frame
   the device sends back for that event can (by deliver_matches) never reach a caller. *)
Theorem C03_comp_event_xid_never_reused : forall x0 h1 h2 r xb,
  c_key_at (final cstep (c_init x0) (h1 ++ CSend :: h2)) r = Some (CX xb) ->
  (c_next (final cstep (c_init x0) h1) < xb)%N.
Proof. exact send_xid_not_reused. Qed.
Print Assumptions C03_comp_event_xid_never_reused.

Theorem C03_comp_outcome_once : forall x0 h w, NoDup (c_req_waiters h) ->
  length (filter (c_mentionsb w) (outs cstep (c_init x0) h)) <= 1.
Proof. intros x0 h w F. exact (comp_outcome_once x0 h w F). Qed.
Print Assumptions C03_comp_outcome_once.

Theorem C03_comp_timeout_reported : forall x0 pre w, NoDup (c_req_waiters pre) ->
  In w (c_req_waiters pre) -> (forall x, In x (outs cstep (c_init x0) pre) -> ~ c_mentions w x) ->
  snd (cstep (final cstep (c_init x0) pre) (CTimeout w)) = [CTimeoutErr w].
Proof. exact comp_timeout_reported. Qed.
Print Assumptions C03_comp_timeout_reported.

(* after a request has ended (e.g. by timeout) no later event hands it anything *)
Theorem C03_comp_ended_silent : forall x0 pre w x e, NoDup (c_req_waiters (pre ++ [e])) ->
  In x (outs cstep (c_init x0) pre) -> c_mentions w x ->
  forall y, In y (snd (cstep (final cstep (c_init x0) pre) e)) -> ~ c_mentions w y.
Proof. exact comp_ended_silent. Qed.
Print Assumptions C03_comp_ended_silent.

(* ====================================================================== HTTP *)

(* http_fifo: no timeout/cancellation, a device that never sends more responses than it got
   requests: whatever a request is handed (value or status error) is the k-th response for
   the k-th request. *)
Theorem C03_http_fifo : forall h,
  NoDup (h_reqs h) -> (forall e, In e h -> h_is_abort e = false) -> h_device_ok h ->
  forall x w r, In x (outs hstep h_init h) -> h_got x = Some (w, r) ->
  exists n, nth_error (h_reqs h) n = Some w /\ nth_error (h_resps h) n = Some r.
Proof. intros h N A D. apply http_fifo. repeat split; assumption. Qed.
Print Assumptions C03_http_fifo.

(* http_late_refuted: with a timeout the conclusion fails - Req a; Timeout a; Req b; Resp(for a)
   hands a's answer to b.  (known finding C03:http:late-response-to-next-request) *)
Theorem C03_http_late_refuted : exists h,
  NoDup (h_reqs h) /\ h_device_ok h /\
  exists w r, In (HDeliver w r) (outs hstep h_init h) /\
    nth_error (h_resps h) 0 = Some r /\ nth_error (h_reqs h) 0 <> Some w /\ In (HTimeoutErr 0) (outs hstep h_init h).
Proof.
  exists [HReq 0 false; HTimeout 0; HReq 1 false; HResp (MkResp None 200 10); HWake 1].
  split; [repeat constructor; simpl; intuition discriminate|].
  split; [apply dev_okb_sound; reflexivity|].
  exists 1, (MkResp None 200 10). vm_compute. intuition discriminate.
Qed.
Print Assumptions C03_http_late_refuted.

(* ====================================================================== RTSP *)

(* what exchange() RETURNS always carries the CSeq of that very request (the number of
   requests made before it) and was sent by the device - for every history. *)
Theorem C03_rtsp_return_matches : forall pre e w r,
  In (HDeliver w r) (snd (rstep (final rstep r_init pre) e)) ->
  e = RWake w /\
  exists h1 a h2, pre = h1 ++ RReq w a :: h2 /\ h_cseq r = Some (length (r_reqs_of h1)) /\ In (RResp r) pre.
Proof. exact rtsp_return_matches. Qed.
Print Assumptions C03_rtsp_return_matches.

(* rtsp_permutation: requests from distinct callers; the device answers each request exactly once
   (a response carries the CSeq of a request already made; no CSeq twice) with 2xx, in ANY order
   and with any interleaving of requests, arrivals and wake-ups; no timer fires.  Once every
   request has been answered and nothing is runnable any more, every caller has returned the
   response that carries its own CSeq. *)
Theorem C03_rtsp_permutation : forall h,
  NoDup (r_reqs_of h) -> (forall e, In e h -> r_is_abort e = false) ->
  (forall r, In r (r_resps h) -> ok2xx r) -> NoDup (map h_cseq (r_resps h)) ->
  (forall pre post, h = pre ++ post ->
     forall r, In r (r_resps pre) -> exists c, h_cseq r = Some c /\ c < length (r_reqs_of pre)) ->
  length (r_resps h) = length (r_reqs_of h) -> r_quiescent (final rstep r_init h) ->
  forall c w, nth_error (r_reqs_of h) c = Some w ->
  exists r, In r (r_resps h) /\ h_cseq r = Some c /\ In (HDeliver w r) (outs rstep r_init h).
Proof.
  intros h N Ab Ok Nc An L Q. apply rtsp_permutation_all; auto. repeat split; assumption.
Qed.
Print Assumptions C03_rtsp_permutation.

(* rtsp_error_refuted: the same is false for the errors exchange() RAISES: two requests, the
   device answers the second (CSeq 1) with 500 first - the first request raises that HttpError and
   the second one times out.  (known finding C03:rtsp:error-status-before-cseq-match) *)
Theorem C03_rtsp_error_refuted : exists h r,
  r_reqs_of h = [0; 1] /\ map h_cseq (r_resps h) = [Some 1; Some 0] /\
  h_cseq r = Some 1 /\ In (HHttpErr 0 r) (outs rstep r_init h) /\ In (HTimeoutErr 1) (outs rstep r_init h).
Proof.
  exists [RReq 0 false; RReq 1 false; RResp (MkResp (Some 1) 500 11); RWake 0;
          RResp (MkResp (Some 0) 200 10); RWake 1; RTimeout 1], (MkResp (Some 1) 500 11).
  vm_compute. intuition.
Qed.
Print Assumptions C03_rtsp_error_refuted.

(* ============================================== send faults and the dispatcher *)

(* a request whose write fails (transport.write / send_processor / connection.send raising) leaves
   nothing behind that could take a later response: MRP and plain HTTP are unchanged, Companion
   only uses up the transaction id, RTSP uses up the CSeq and keeps an entry nobody waits on - the
   FIFO of the connection is untouched.  (The FIFO and matching theorems above hold for histories
   that contain such failed sends: h_reqs / c_req_waiters count the requests that were SENT.) *)
Theorem C03_send_fault_leaves_no_waiter : forall w,
  (forall s, mstep s (MReqFail w) = (s, [MSendErr w])) /\
  (forall s, hstep s (HReqFail w) = (s, [HSendErr w])) /\
  (forall s, c_q (fst (cstep s (CReqFail w))) = c_q s /\ c_wait (fst (cstep s (CReqFail w))) = c_wait s /\
             (c_next s < c_next (fst (cstep s (CReqFail w))))%N) /\
  (forall s, r_http (fst (rstep s (RReqFail w))) = r_http s /\ r_ph1 (fst (rstep s (RReqFail w))) = r_ph1 s /\
             r_ph2 (fst (rstep s (RReqFail w))) = r_ph2 s).
Proof. intro w. repeat split; simpl; lia. Qed.
Print Assumptions C03_send_fault_leaves_no_waiter.

(* MessageDispatcher.dispatch: exactly the listeners whose filter accepts the message are called,
   in registration order, each once; a listener that rejects it does not affect any other listener. *)
Theorem C03_dispatch_each_accepting_listener_once : forall a l b,
  (forall x, In x (dispatch_calls (a ++ b)) <-> In (true, x) (a ++ b)) /\
  dispatch_calls (a ++ (false, l) :: b) = dispatch_calls (a ++ b) /\
  dispatch_calls (a ++ (true, l) :: b) = dispatch_calls a ++ l :: dispatch_calls b /\
  (NoDup (map snd (a ++ b)) -> NoDup (dispatch_calls (a ++ b))).
Proof.
  intros a l b. split; [intro x; apply dispatch_in|]. split; [apply dispatch_rejecting|].
  split; [apply dispatch_accepting|apply dispatch_nodup].
Qed.
Print Assumptions C03_dispatch_each_accepting_listener_once.

(* ========================================================= non-vacuity examples *)
Example C03_ex_mrp_fresh :
  let h := [MReq 0 (KId 7); MReq 1 (KType 34); MMsg (MkMsg None 34 5); MMsg (MkMsg (Some 7%N) 2 6);
            MWake 1; MTimeout 0; MMsg (MkMsg (Some 7%N) 2 8); MReq 2 (KType 2); MCancel 2; MMsg (MkMsg None 2 9)] in
  m_fresh h /\ outs mstep m_init h = [MDeliver 1 (Some 5%N); MTimeoutErr 0; MListen 2 8; MCancelled 2; MListen 2 9].
Proof. split; [split; repeat constructor; simpl; intuition discriminate|reflexivity]. Qed.

Example C03_ex_http_fifo :
  let h := [HReq 0 false; HReq 1 true; HResp (MkResp None 200 1); HReq 2 false; HResp (MkResp None 404 2);
            HWake 1; HWake 0; HResp (MkResp None 500 3); HWake 2] in
  NoDup (h_reqs h) /\ (forall e, In e h -> h_is_abort e = false) /\ h_device_ok h /\
  outs hstep h_init h = [HDeliver 1 (MkResp None 404 2); HDeliver 0 (MkResp None 200 1); HHttpErr 2 (MkResp None 500 3)].
Proof.
  repeat split.
  - repeat constructor; simpl; intuition discriminate.
  - intros e H. simpl in H. repeat (destruct H as [<-|H]; [reflexivity|]). destruct H.
  - apply dev_okb_sound. reflexivity.
Qed.

Example C03_ex_comp :
  let h := [CReq 0; CReq 1; CFrame (MkFrame 8 (BDict (Some 3%N) (Some 101%N) false 5 false));
            CFrame (MkFrame 8 (BDict (Some 1%N) None true 9 false)); CWake 1; CTimeout 0;
            CFrame (MkFrame 8 (BDict (Some 3%N) (Some 100%N) false 6 false)); CReq 2; CWake 2] in
  NoDup (c_req_waiters h) /\ outs cstep (c_init 100) h = [CListen 9; CDeliver 1 5; CTimeoutErr 0].
Proof. split; [repeat constructor; simpl; intuition discriminate|reflexivity]. Qed.

Example C03_ex_rtsp_permutation :
  let h := [RReq 0 false; RReq 1 false; RResp (MkResp (Some 1) 200 11); RReq 2 true; RWake 0;
            RResp (MkResp (Some 2) 204 12); RResp (MkResp (Some 0) 200 10); RWake 2; RWake 1; RWake 0; RWake 2] in
  r_perm_ok h /\ length (r_resps h) = length (r_reqs_of h) /\ r_quiescent (final rstep r_init h) /\
  outs rstep r_init h = [HDeliver 1 (MkResp (Some 1) 200 11); HDeliver 0 (MkResp (Some 0) 200 10);
                         HDeliver 2 (MkResp (Some 2) 204 12)].
Proof.
  repeat split.
  - repeat constructor; simpl; intuition discriminate.
  - intros e H. simpl in H. repeat (destruct H as [<-|H]; [reflexivity|]). destruct H.
  - intros r H. simpl in H. repeat (destruct H as [<-|H]; [reflexivity|]). destruct H.
  - repeat constructor; simpl; intuition discriminate.
  - apply ans_okb_sound. reflexivity.
  - vm_compute. intros; discriminate.
  - vm_compute. intros; discriminate.
Qed.
