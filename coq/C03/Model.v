(* C03 - executable models of the four request/response dispatchers of pyatv.

   Granularity: one event is one atomic piece of code - a synchronous callback
   (message_received / frame_received / one parsed response in data_received), the
   code a request runs up to its first suspension, the resumption of a suspended
   request ("Wake"), the firing of the request's timeout timer ("Timeout"), or the
   cancellation of the requesting task ("Cancel").  Nothing is assumed about the
   order in which the event loop schedules these: a history is an arbitrary list of
   events, and an event that cannot happen in the current state (waking a request that
   is not runnable, timing out one that already finished) is a no-op.

   A request is named by its waiter number (nat).  Objects that pyatv creates per
   request (the asyncio.Semaphore in OutstandingMessage, the SharedData, the
   PendingRequest, the RTSP asyncio.Event) are named by the waiter that created them.

   Anchors (line numbers of /repo at the time of writing):
     MRP        pyatv/protocols/mrp/protocol.py:235 send_and_receive, :264 _receive,
                :285 message_received
     Companion  pyatv/protocols/companion/protocol.py:125 exchange_auth, :143 exchange_opack,
                :155 _exchange_generic_opack, :188 frame_received, :209 _handle_auth,
                :217 _handle_opack; pyatv/support/collections.py:151 SharedData
     HTTP       pyatv/support/http.py:386 data_received, :437 send_and_receive
     RTSP       pyatv/support/rtsp.py:255 exchange                                   *)
From Coq Require Import List Bool Arith NArith.
From PV Require Import Common.Cases.
Import ListNotations.

(* ------------------------------------------------------------------ dict *)
Section Assoc.
  Context {K V : Type} (eqb : K -> K -> bool).
  Fixpoint aget (k : K) (l : list (K * V)) : option V :=
    match l with
    | [] => None
    | (k', v) :: t => if eqb k k' then Some v else aget k t
    end.
  Fixpoint adel (k : K) (l : list (K * V)) : list (K * V) :=
    match l with
    | [] => []
    | (k', v) :: t => if eqb k k' then adel k t else (k', v) :: adel k t
    end.
  (* d[k] = v *)
  Definition aset (k : K) (v : V) (l : list (K * V)) : list (K * V) := (k, v) :: adel k l.
End Assoc.

(* ------------------------------------------------------------- histories *)
Section Run.
  Context {St Ev Out : Type} (step : St -> Ev -> St * list Out).
  (* outputs, one list per event *)
  Fixpoint run (s : St) (h : list Ev) : list (list Out) :=
    match h with
    | [] => []
    | e :: t => snd (step s e) :: run (fst (step s e)) t
    end.
  Fixpoint final (s : St) (h : list Ev) : St :=
    match h with
    | [] => s
    | e :: t => final (fst (step s e)) t
    end.
  Definition outs (s : St) (h : list Ev) : list Out := concat (run s h).
End Run.

(* =================================================================== MRP *)
(* identifier under which a request waits: the generated UUID, or "type_<n>" when
   generate_identifier=False; for an incoming message: message.identifier or "type_<n>" *)
Inductive mkey := KId (i : N) | KType (t : N).
Definition mkey_eqb (a b : mkey) : bool :=
  match a, b with
  | KId x, KId y => N.eqb x y
  | KType x, KType y => N.eqb x y
  | _, _ => false
  end.

Record mmsg := MkMsg { m_ident : option N; m_type : N; m_tag : N }.
Definition mkey_of (m : mmsg) : mkey :=
  match m_ident m with Some i => KId i | None => KType (m_type m) end.

Inductive mev :=
| MReq (w : nat) (k : mkey)      (* send_and_receive up to `await semaphore.acquire()` *)
| MMsg (m : mmsg)                (* message_received *)
| MWake (w : nat)                (* the acquire of w returns and _receive runs to its end *)
| MTimeout (w : nat)             (* async_timeout fires: except-branch of _receive *)
| MCancel (w : nat)              (* the task is cancelled: same except-branch (BaseException) *)
| MReqFail (w : nat).            (* connection.send raises (write error): nothing has been registered yet *)

Inductive mout :=
| MDeliver (w : nat) (r : option N)   (* value returned; None = the placeholder ProtocolMessage() *)
| MListen (t : N) (tag : N)           (* self.dispatch(message.type, message) *)
| MTimeoutErr (w : nat)
| MKeyErr (w : nat)                   (* KeyError out of `self._outstanding[identifier].response` after a wake-up *)
| MCancelled (w : nat)
| MSendErr (w : nat).                  (* the exception of the failed write, raised in the caller *)

Record mst := MkM {
  m_out : list (mkey * (nat * option N));   (* _outstanding: identifier -> (semaphore, response) *)
  m_wait : list (nat * (mkey * nat))        (* suspended requests: identifier, value of own semaphore *)
}.
Definition m_init : mst := MkM [] [].

Definition m_release (o : nat) (wt : list (nat * (mkey * nat))) :=
  match aget Nat.eqb o wt with
  | Some (k, v) => aset Nat.eqb o (k, S v) wt
  | None => wt                                  (* nobody is blocked on that semaphore *)
  end.

Definition mstep (s : mst) (e : mev) : mst * list mout :=
  match e with
  | MReq w k =>
      (MkM (aset mkey_eqb k (w, None) (m_out s)) (aset Nat.eqb w (k, 0) (m_wait s)), [])
  | MMsg m =>
      let k := mkey_of m in
      match aget mkey_eqb k (m_out s) with
      | Some (o, _) =>
          (MkM (aset mkey_eqb k (o, Some (m_tag m)) (m_out s)) (m_release o (m_wait s)), [])
      | None => (s, [MListen (m_type m) (m_tag m)])
      end
  | MWake w =>
      match aget Nat.eqb w (m_wait s) with
      | Some (k, S _) =>
          match aget mkey_eqb k (m_out s) with
          | Some (_, r) =>
              (MkM (adel mkey_eqb k (m_out s)) (adel Nat.eqb w (m_wait s)), [MDeliver w r])
          | None => (MkM (m_out s) (adel Nat.eqb w (m_wait s)), [MKeyErr w])
          end
      | _ => (s, [])
      end
  | MTimeout w =>
      (* `except BaseException: self._outstanding.pop(identifier, None); raise` *)
      match aget Nat.eqb w (m_wait s) with
      | Some (k, _) =>
          (MkM (adel mkey_eqb k (m_out s)) (adel Nat.eqb w (m_wait s)), [MTimeoutErr w])
      | None => (s, [])
      end
  | MCancel w =>
      (* the same except-branch: the entry (if still there) goes on cancellation too *)
      match aget Nat.eqb w (m_wait s) with
      | Some (k, _) =>
          (MkM (adel mkey_eqb k (m_out s)) (adel Nat.eqb w (m_wait s)), [MCancelled w])
      | None => (s, [])
      end
  | MReqFail w => (s, [MSendErr w])
  end.

(* ============================================================= Companion *)
Inductive ckey := CX (x : N) | CAuth (ft : N).
Definition ckey_eqb (a b : ckey) : bool :=
  match a, b with
  | CX x, CX y => N.eqb x y
  | CAuth x, CAuth y => N.eqb x y
  | _, _ => false
  end.

(* decoded OPACK payload of a frame, as far as frame_received looks at it *)
Inductive cbody :=
| BNotDict
| BDict (t : option N) (x : option N) (has_ic : bool) (tag : N) (em : bool).
      (* "_t", "_x", both "_i" and "_c" present, content tag, "_em" present *)
Record cframe := MkFrame { f_type : N; f_body : cbody }.

Definition auth_frames : list N := [3; 4; 5; 6]%N.      (* PS_Start PS_Next PV_Start PV_Next *)
Definition opack_frames : list N := [7; 8; 9]%N.        (* U_OPACK E_OPACK P_OPACK *)
Definition memN (x : N) (l : list N) : bool := existsb (N.eqb x) l.

Definition auth_ident (ft : N) : N :=
  if N.eqb ft 3 then 4 else if N.eqb ft 5 then 6 else ft.

Inductive cev :=
| CReq (w : nat)                 (* exchange_opack up to the await inside SharedData.wait *)
| CReqAuth (w : nat) (ft : N)    (* exchange_auth ... *)
| CFrame (f : cframe)            (* frame_received *)
| CWake (w : nat)
| CTimeout (w : nat)             (* asyncio.wait_for expires *)
| CCancel (w : nat)
| CReqFail (w : nat)             (* connection.send raises: the transaction id is used up, nothing is queued *)
| CSend.                         (* send_opack without "_x" (fire-and-forget event): uses up a transaction id *)

Inductive cout :=
| CDeliver (w : nat) (tag : N)
| CProtoErr (w : nat) (tag : N)  (* "_em" in the response: ProtocolError in the caller *)
| CListen (tag : N)              (* listener.event_received(_i, _c) *)
| CTimeoutErr (w : nat)
| CCancelled (w : nat)
| CSendErr (w : nat).

Record cst := MkC {
  c_next : N;                                 (* self._xid *)
  c_q : list (ckey * nat);                    (* self._queues: identifier -> SharedData *)
  c_wait : list (nat * option (N * bool))     (* suspended requests: data of own SharedData, if set *)
}.
Definition c_init (x0 : N) : cst := MkC x0 [] [].

Definition c_set (o : nat) (d : N * bool) (wt : list (nat * option (N * bool))) :=
  match aget Nat.eqb o wt with
  | Some _ => aset Nat.eqb o (Some d) wt
  | None => wt
  end.

Definition c_pop (k : ckey) (d : N * bool) (s : cst) : cst :=
  match aget ckey_eqb k (c_q s) with
  | Some o => MkC (c_next s) (adel ckey_eqb k (c_q s)) (c_set o d (c_wait s))
  | None => s
  end.

Definition cstep (s : cst) (e : cev) : cst * list cout :=
  match e with
  | CReq w =>
      (MkC (N.succ (c_next s)) (aset ckey_eqb (CX (c_next s)) w (c_q s))
           (aset Nat.eqb w None (c_wait s)), [])
  | CReqAuth w ft =>
      (* send_opack adds (and consumes) an "_x" here as well *)
      (MkC (N.succ (c_next s)) (aset ckey_eqb (CAuth (auth_ident ft)) w (c_q s))
           (aset Nat.eqb w None (c_wait s)), [])
  | CFrame f =>
      if memN (f_type f) opack_frames || memN (f_type f) auth_frames then
        match f_body f with
        | BNotDict => (s, [])
        | BDict t x has_ic tag em =>
            if memN (f_type f) auth_frames then (c_pop (CAuth (f_type f)) (tag, em) s, [])
            else
              match t with
              | Some 1%N => if has_ic then (s, [CListen tag]) else (s, [])   (* KeyError is swallowed *)
              | Some 3%N =>
                  match x with
                  | Some xid => (c_pop (CX xid) (tag, em) s, [])
                  | None => (s, [])
                  end
              | _ => (s, [])
              end
        end
      else (s, [])
  | CWake w =>
      match aget Nat.eqb w (c_wait s) with
      | Some (Some (tag, em)) =>
          (MkC (c_next s) (c_q s) (adel Nat.eqb w (c_wait s)),
           [if em then CProtoErr w tag else CDeliver w tag])
      | _ => (s, [])
      end
  | CTimeout w =>
      match aget Nat.eqb w (c_wait s) with
      | Some _ => (MkC (c_next s) (c_q s) (adel Nat.eqb w (c_wait s)), [CTimeoutErr w])
      | None => (s, [])
      end
  | CCancel w =>
      match aget Nat.eqb w (c_wait s) with
      | Some _ => (MkC (c_next s) (c_q s) (adel Nat.eqb w (c_wait s)), [CCancelled w])
      | None => (s, [])
      end
  | CReqFail w => (MkC (N.succ (c_next s)) (c_q s) (c_wait s), [CSendErr w])
  | CSend => (MkC (N.succ (c_next s)) (c_q s) (c_wait s), [])
  end.

(* ================================================================== HTTP *)
Record hresp := MkResp { h_cseq : option nat; h_code : N; h_tag : N }.

(* what connection.send_and_receive does with a response once the request resumes *)
Inductive hres := HROk (r : hresp) | HRAuth (r : hresp) | HRHttp (r : hresp).
Definition h_classify (allow : bool) (r : hresp) : hres :=
  if N.eqb (h_code r) 403 then HRAuth r
  else if N.eqb (h_code r) 401 then (if allow then HROk r else HRAuth r)
  else if (N.leb 200 (h_code r) && N.ltb (h_code r) 300) || allow then HROk r
  else HRHttp r.

Record hst := MkH {
  h_q : list nat;                                  (* self._requests, oldest first *)
  h_wait : list (nat * (bool * option hresp))      (* suspended: allow_error, pending_request.response *)
}.
Definition h_init : hst := MkH [] [].

Fixpoint q_remove (w : nat) (q : list nat) : list nat :=
  match q with
  | [] => []
  | x :: t => if Nat.eqb w x then t else x :: q_remove w t
  end.

Definition h_req (w : nat) (allow : bool) (s : hst) : hst :=
  MkH (h_q s ++ [w]) (aset Nat.eqb w (allow, None) (h_wait s)).

(* one complete response parsed by data_received *)
Definition h_resp (r : hresp) (s : hst) : hst :=
  match h_q s with
  | v :: q' =>
      MkH q' (match aget Nat.eqb v (h_wait s) with
              | Some (allow, _) => aset Nat.eqb v (allow, Some r) (h_wait s)
              | None => h_wait s
              end)
  | [] => s                                        (* "Got response without having a request" *)
  end.

Definition h_wake (w : nat) (s : hst) : option (hst * hres) :=
  match aget Nat.eqb w (h_wait s) with
  | Some (allow, Some r) =>
      Some (MkH (q_remove w (h_q s)) (adel Nat.eqb w (h_wait s)), h_classify allow r)
  | _ => None
  end.

(* timeout or cancellation: the finally-clause removes the request from the deque *)
Definition h_abort (w : nat) (s : hst) : option hst :=
  match aget Nat.eqb w (h_wait s) with
  | Some _ => Some (MkH (q_remove w (h_q s)) (adel Nat.eqb w (h_wait s)))
  | None => None
  end.

Inductive hev :=
| HReq (w : nat) (allow : bool) | HResp (r : hresp) | HWake (w : nat) | HTimeout (w : nat) | HCancel (w : nat)
| HReqFail (w : nat).     (* transport.write / send_processor raises: the request was never queued *)
Inductive hout :=
| HDeliver (w : nat) (r : hresp)
| HAuthErr (w : nat) (r : hresp)      (* AuthenticationError caused by response r *)
| HHttpErr (w : nat) (r : hresp)      (* HttpError caused by response r *)
| HTimeoutErr (w : nat)
| HCancelled (w : nat)
| HSendErr (w : nat).

Definition hres_out (w : nat) (x : hres) : hout :=
  match x with HROk r => HDeliver w r | HRAuth r => HAuthErr w r | HRHttp r => HHttpErr w r end.

Definition hstep (s : hst) (e : hev) : hst * list hout :=
  match e with
  | HReq w allow => (h_req w allow s, [])
  | HResp r => (h_resp r s, [])
  | HWake w =>
      match h_wake w s with
      | Some (s', x) => (s', [hres_out w x])
      | None => (s, [])
      end
  | HTimeout w =>
      match h_abort w s with Some s' => (s', [HTimeoutErr w]) | None => (s, []) end
  | HCancel w =>
      match h_abort w s with Some s' => (s', [HCancelled w]) | None => (s, []) end
  | HReqFail w => (s, [HSendErr w])
  end.

(* ================================================================== RTSP *)
Record rst := MkR {
  r_http : hst;
  r_next : nat;                                    (* self.cseq *)
  r_reqs : list (nat * (nat * option hresp));      (* self.requests: CSeq -> (Event, response) *)
  r_ph1 : list (nat * nat);                        (* inside connection.send_and_receive: own CSeq *)
  r_ph2 : list (nat * nat)                         (* waiting for the Event of the own CSeq *)
}.
Definition r_init : rst := MkR h_init 0 [] [] [].

Inductive rtev :=
| RReq (w : nat) (allow : bool) | RResp (r : hresp) | RWake (w : nat) | RTimeout (w : nat) | RCancel (w : nat)
| RReqFail (w : nat).     (* the write fails inside connection.send_and_receive: CSeq used, self.requests[cseq] stays *)

(* "insert response for correct CSeq and activate event" *)
Definition r_file (r : hresp) (reqs : list (nat * (nat * option hresp))) :=
  match h_cseq r with
  | Some c =>
      match aget Nat.eqb c reqs with
      | Some (o, _) => aset Nat.eqb c (o, Some r) reqs
      | None => reqs
      end
  | None => reqs
  end.

Definition rstep (s : rst) (e : rtev) : rst * list hout :=
  match e with
  | RReq w allow =>
      (MkR (h_req w allow (r_http s)) (S (r_next s))
           (aset Nat.eqb (r_next s) (w, None) (r_reqs s))
           (aset Nat.eqb w (r_next s) (r_ph1 s)) (r_ph2 s), [])
  | RResp r => (MkR (h_resp r (r_http s)) (r_next s) (r_reqs s) (r_ph1 s) (r_ph2 s), [])
  | RWake w =>
      match aget Nat.eqb w (r_ph1 s) with
      | Some c =>
          match h_wake w (r_http s) with
          | Some (hs', HROk r) =>
              let reqs' := r_file r (r_reqs s) in
              match aget Nat.eqb c reqs' with
              | Some (_, Some r') =>         (* own Event already set: no suspension *)
                  (MkR hs' (r_next s) (adel Nat.eqb c reqs') (adel Nat.eqb w (r_ph1 s)) (r_ph2 s),
                   [HDeliver w r'])
              | _ =>
                  (MkR hs' (r_next s) reqs' (adel Nat.eqb w (r_ph1 s)) (aset Nat.eqb w c (r_ph2 s)), [])
              end
          | Some (hs', x) =>                 (* the HTTP layer raises; self.requests[cseq] stays behind *)
              (MkR hs' (r_next s) (r_reqs s) (adel Nat.eqb w (r_ph1 s)) (r_ph2 s), [hres_out w x])
          | None => (s, [])
          end
      | None =>
          match aget Nat.eqb w (r_ph2 s) with
          | Some c =>
              match aget Nat.eqb c (r_reqs s) with
              | Some (_, Some r') =>
                  (MkR (r_http s) (r_next s) (adel Nat.eqb c (r_reqs s)) (r_ph1 s) (adel Nat.eqb w (r_ph2 s)),
                   [HDeliver w r'])
              | _ => (s, [])
              end
          | None => (s, [])
          end
      end
  | RReqFail w =>
      (MkR (r_http s) (S (r_next s)) (aset Nat.eqb (r_next s) (w, None) (r_reqs s)) (r_ph1 s) (r_ph2 s),
       [HSendErr w])
  | RTimeout w | RCancel w =>
      let o := match e with RTimeout _ => HTimeoutErr w | _ => HCancelled w end in
      match aget Nat.eqb w (r_ph1 s) with
      | Some c =>
          match h_abort w (r_http s) with
          | Some hs' => (MkR hs' (r_next s) (r_reqs s) (adel Nat.eqb w (r_ph1 s)) (r_ph2 s), [o])
          | None => (s, [])
          end
      | None =>
          match aget Nat.eqb w (r_ph2 s) with
          | Some c =>
              (MkR (r_http s) (r_next s) (adel Nat.eqb c (r_reqs s)) (r_ph1 s) (adel Nat.eqb w (r_ph2 s)), [o])
          | None => (s, [])
          end
      end
  end.

(* ============================================================ dispatcher *)
(* MessageDispatcher.dispatch (pyatv/core/protocol.py:97): the listeners registered for the type, in
   registration order, each with the verdict of its message_filter on this message; the calls made *)
Definition dispatch_calls (ls : list (bool * nat)) : list nat := map snd (filter fst ls).

(* ======================================================== correspondence *)
Definition optN_eqb := opt_beq N.eqb.
Definition mout_eqb (a b : mout) : bool :=
  match a, b with
  | MDeliver w r, MDeliver w' r' => Nat.eqb w w' && optN_eqb r r'
  | MListen t g, MListen t' g' => N.eqb t t' && N.eqb g g'
  | MTimeoutErr w, MTimeoutErr w' | MKeyErr w, MKeyErr w' | MCancelled w, MCancelled w'
  | MSendErr w, MSendErr w' => Nat.eqb w w'
  | _, _ => false
  end.
Definition m_is_listen (o : mout) : bool := match o with MListen _ _ => true | _ => false end.
Definition m_heard (types : list N) (o : mout) : bool :=
  match o with MListen t _ => memN t types | _ => false end.

(* The run lets the event loop settle after every operation of the script: at those points of the
   history (given as prefix lengths) no request may be runnable - a request whose answer has been
   stored must already have resumed.  (Without this a lost wake-up would pass as "the timeout won".) *)
Definition settled_at {St Ev Out} (step : St -> Ev -> St * list Out) (s0 : St) (runnable : St -> bool)
           (h : list Ev) (points : list nat) : bool :=
  forallb (fun n => negb (runnable (final step s0 (firstn n h)))) points.

Definition m_runnable (s : mst) : bool :=
  existsb (fun e => match snd (snd e) with 0 => false | S _ => true end) (m_wait s).
Definition c_runnable (s : cst) : bool :=
  existsb (fun e => match snd e with Some _ => true | None => false end) (c_wait s).
Definition h_runnable (s : hst) : bool :=
  existsb (fun e => match snd (snd e) with Some _ => true | None => false end) (h_wait s).
Definition r_runnable (s : rst) : bool :=
  h_runnable (r_http s)
  || existsb (fun e => match aget Nat.eqb (fst e) (r_ph1 s), aget Nat.eqb (snd e) (r_reqs s) with
                       | None, Some (_, Some _) => true
                       | _, _ => false
                       end) (r_ph2 s).

(* history, types that have a listener, outcomes of the requests in completion order,
   listener calls in call order, settle points; every request must have finished *)
Definition mrp_check (c : list mev * list N * list mout * list mout * list nat) : bool :=
  let '(h, types, outcomes, heard, pts) := c in
  let o := outs mstep m_init h in
  list_beq mout_eqb (filter (fun x => negb (m_is_listen x)) o) outcomes
  && list_beq mout_eqb (filter (m_heard types) o) heard
  && settled_at mstep m_init m_runnable h pts
  && match m_wait (final mstep m_init h) with [] => true | _ => false end.

Definition cout_eqb (a b : cout) : bool :=
  match a, b with
  | CDeliver w g, CDeliver w' g' | CProtoErr w g, CProtoErr w' g' => Nat.eqb w w' && N.eqb g g'
  | CListen g, CListen g' => N.eqb g g'
  | CTimeoutErr w, CTimeoutErr w' | CCancelled w, CCancelled w' | CSendErr w, CSendErr w' => Nat.eqb w w'
  | _, _ => false
  end.
Definition c_is_listen (o : cout) : bool := match o with CListen _ => true | _ => false end.

Definition comp_check (c : N * list cev * list cout * list cout * list nat) : bool :=
  let '(x0, h, outcomes, heard, pts) := c in
  let o := outs cstep (c_init x0) h in
  list_beq cout_eqb (filter (fun x => negb (c_is_listen x)) o) outcomes
  && list_beq cout_eqb (filter c_is_listen o) heard
  && settled_at cstep (c_init x0) c_runnable h pts
  && match c_wait (final cstep (c_init x0) h) with [] => true | _ => false end.

Definition hresp_eqb (a b : hresp) : bool :=
  opt_beq Nat.eqb (h_cseq a) (h_cseq b) && N.eqb (h_code a) (h_code b) && N.eqb (h_tag a) (h_tag b).
Definition hout_eqb (a b : hout) : bool :=
  match a, b with
  | HDeliver w r, HDeliver w' r' | HHttpErr w r, HHttpErr w' r' => Nat.eqb w w' && hresp_eqb r r'
  | HAuthErr w _, HAuthErr w' _ => Nat.eqb w w'   (* "not authenticated" does not say which response *)
  | HTimeoutErr w, HTimeoutErr w' | HCancelled w, HCancelled w' | HSendErr w, HSendErr w' => Nat.eqb w w'
  | _, _ => false
  end.

Definition http_check (c : list hev * list hout * list nat) : bool :=
  let '(h, outcomes, pts) := c in
  list_beq hout_eqb (outs hstep h_init h) outcomes
  && settled_at hstep h_init h_runnable h pts
  && match h_wait (final hstep h_init h) with [] => true | _ => false end.

Definition rtsp_check (c : list rtev * list hout * list nat) : bool :=
  let '(h, outcomes, pts) := c in
  let f := final rstep r_init h in
  list_beq hout_eqb (outs rstep r_init h) outcomes
  && settled_at rstep r_init r_runnable h pts
  && match r_ph1 f, r_ph2 f with [], [] => true | _, _ => false end.

(* listeners of the type with their filter verdicts, listeners that were called (in call order) *)
Definition disp_check (c : list (bool * nat) * list nat) : bool :=
  list_beq Nat.eqb (dispatch_calls (fst c)) (snd c).
