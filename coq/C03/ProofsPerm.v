(* C03 - RTSP: if the device answers every request (any order, all 2xx) every caller gets its own answer *)
From Coq Require Import List Bool Arith NArith Lia.
From PV Require Import C03.Model C03.Spec C03.ProofsBase C03.ProofsHttp C03.ProofsRtsp.
Import ListNotations.

Notation cget := (aget Nat.eqb).

Lemma nodup_nth_inj {A} (l : list A) i j x :
  NoDup l -> nth_error l i = Some x -> nth_error l j = Some x -> i = j.
Proof.
  intros N Hi Hj. rewrite NoDup_nth_error in N. apply N; [|congruence].
  apply nth_error_Some. congruence.
Qed.

Lemma cseq_inj (A : list hresp) : NoDup (map h_cseq A) ->
  forall r1 r2, In r1 A -> In r2 A -> h_cseq r1 = h_cseq r2 -> r1 = r2.
Proof.
  induction A as [|a t IH]; intros N r1 r2 H1 H2 E; [destruct H1|].
  simpl in N. inversion N as [|? ? Na Nt]; subst.
  destruct H1 as [<-|H1]; destruct H2 as [<-|H2]; auto.
  - exfalso. apply Na. rewrite E. now apply in_map.
  - exfalso. apply Na. rewrite <- E. now apply in_map.
Qed.

Lemma classify_2xx a r : ok2xx r -> h_classify a r = HROk r.
Proof.
  unfold ok2xx, h_classify. intro H. apply andb_true_iff in H as [H1 H2].
  apply N.leb_le in H1. apply N.ltb_lt in H2.
  destruct (N.eqb (h_code r) 403) eqn:E1; [apply N.eqb_eq in E1; lia|].
  destruct (N.eqb (h_code r) 401) eqn:E2; [apply N.eqb_eq in E2; lia|].
  assert (N.leb 200 (h_code r) = true) as -> by (apply N.leb_le; lia).
  assert (N.ltb (h_code r) 300 = true) as -> by (apply N.ltb_lt; lia).
  reflexivity.
Qed.

Lemma bounded_nodup_length (l : list nat) n : NoDup l -> (forall x, In x l -> x < n) -> length l <= n.
Proof.
  intros N B. rewrite <- (seq_length n 0). apply NoDup_incl_length; [assumption|].
  intros x Hx. apply in_seq. specialize (B x Hx). lia.
Qed.

(* ------------------------------------------------------------- hypotheses *)
Definition r_answers_ok (h : list rtev) : Prop :=
  forall pre post, h = pre ++ post ->
  forall r, In r (r_resps pre) -> exists c, h_cseq r = Some c /\ c < length (r_reqs_of pre).

Definition r_perm_ok (h : list rtev) : Prop :=
  NoDup (r_reqs_of h) /\ (forall e, In e h -> r_is_abort e = false) /\
  (forall r, In r (r_resps h) -> ok2xx r) /\ NoDup (map h_cseq (r_resps h)) /\ r_answers_ok h.

Lemma perm_ok_prefix h e : r_perm_ok (h ++ [e]) -> r_perm_ok h.
Proof.
  intros (N & Ab & Ok & Nc & An). repeat split.
  - rewrite r_reqs_of_app in N. destruct e; simpl in N; rewrite ?app_nil_r in N; auto;
      apply NoDup_remove in N; now rewrite app_nil_r in N.
  - intros x Hx. apply Ab. apply in_or_app; now left.
  - intros r Hr. apply Ok. rewrite r_resps_app. apply in_or_app; now left.
  - rewrite r_resps_app, map_app in Nc. destruct e; simpl in Nc; rewrite ?app_nil_r in Nc; auto.
    apply NoDup_remove in Nc. now rewrite app_nil_r in Nc.
  - intros pre post ->. apply (An pre (post ++ [e])). now rewrite app_assoc.
Qed.

Lemma perm_ok_cseq h : r_perm_ok h ->
  forall r, In r (r_resps h) -> exists c, h_cseq r = Some c /\ c < length (r_reqs_of h).
Proof. intros (_ & _ & _ & _ & An) r Hr. apply (An h []); [now rewrite app_nil_r|assumption]. Qed.

Lemma perm_ok_count h : r_perm_ok h -> length (r_resps h) <= length (r_reqs_of h).
Proof.
  intro P. pose proof (perm_ok_cseq h P) as C. destruct P as (_ & _ & _ & Nc & _).
  set (A := r_resps h) in *. set (n := length (r_reqs_of h)) in *.
  (* the list of CSeq numbers *)
  assert (exists l, map h_cseq A = map Some l) as [l El].
  { clear Nc. induction A as [|a t IH]; [exists []; reflexivity|].
    destruct IH as [l El]; [intros r Hr; apply C; now right|].
    destruct (C a (or_introl eq_refl)) as (c & Ec & _). exists (c :: l). simpl. now rewrite Ec, El. }
  assert (Nl : NoDup l).
  { rewrite El in Nc. revert Nc. clear. induction l as [|x t IH]; [constructor|].
    simpl. intro N. inversion N; subst. constructor; [|auto]. intro H. apply H1. now apply in_map. }
  assert (Bl : forall x, In x l -> x < n).
  { intros x Hx. assert (In (Some x) (map h_cseq A)) by (rewrite El; now apply in_map).
    apply in_map_iff in H as (r & Er & Hr). destruct (C r Hr) as (c & Ec & Lc). congruence. }
  pose proof (bounded_nodup_length l n Nl Bl).
  assert (length A = length l) by (rewrite <- (map_length h_cseq A), El, map_length; reflexivity). lia.
Qed.

(* -------------------------------------------------------------- invariant *)
Record RP (R : list nat) (A : list hresp) (o : list hout) (s : rst) : Prop := {
  p_next : r_next s = length R;
  p_q : h_q (r_http s) = skipn (length A) R;
  p_qph : forall v, In v (h_q (r_http s)) -> exists c, cget v (r_ph1 s) = Some c;
  p_ph1 : forall w c, cget w (r_ph1 s) = Some c ->
            nth_error R c = Some w /\
            (exists a slot, cget w (h_wait (r_http s)) = Some (a, slot) /\
                            (slot = None -> In w (h_q (r_http s))) /\
                            (forall r, slot = Some r -> nth_error A c = Some r)) /\
            (exists sl, cget c (r_reqs s) = Some (w, sl));
  p_ph2 : forall w c, cget w (r_ph2 s) = Some c ->
            nth_error R c = Some w /\ cget w (r_ph1 s) = None /\ cget w (h_wait (r_http s)) = None /\
            (exists sl, cget c (r_reqs s) = Some (w, sl));
  p_reqs : forall c ow sl, cget c (r_reqs s) = Some (ow, sl) ->
            nth_error R c = Some ow /\ (forall r, sl = Some r -> h_cseq r = Some c /\ In r A);
  p_acc : forall c w, nth_error R c = Some w ->
            cget w (r_ph1 s) = Some c \/ cget w (r_ph2 s) = Some c \/
            (exists r, In r A /\ h_cseq r = Some c /\ In (HDeliver w r) o);
  p_resp : forall i r c w, nth_error A i = Some r -> h_cseq r = Some c -> nth_error R c = Some w ->
            (exists v a, nth_error R i = Some v /\ cget v (h_wait (r_http s)) = Some (a, Some r)) \/
            cget c (r_reqs s) = Some (w, Some r) \/
            In (HDeliver w r) o
}.

Lemma nth_lt {A} (l : list A) i x : nth_error l i = Some x -> i < length l.
Proof. intro H. apply nth_error_Some. congruence. Qed.

Lemma nth_in {A} (l : list A) i x : nth_error l i = Some x -> In x l.
Proof. apply nth_error_In. Qed.

Lemma nth_snoc_inv {A} (l : list A) x i y :
  nth_error (l ++ [x]) i = Some y -> nth_error l i = Some y \/ (i = length l /\ y = x).
Proof.
  intro H. destruct (Nat.lt_ge_cases i (length l)) as [L|L].
  - left. now rewrite nth_error_app1 in H.
  - right. rewrite nth_error_app2 in H by assumption.
    destruct (i - length l) as [|k] eqn:E; simpl in H.
    + inversion H. split; [lia|reflexivity].
    + destruct k; discriminate.
Qed.

Lemma RP_req R A o s w a :
  NoDup (R ++ [w]) -> length A <= length R ->
  (forall r, In r A -> exists c, h_cseq r = Some c /\ c < length R) ->
  RP R A o s -> RP (R ++ [w]) A o (fst (rstep s (RReq w a))).
Proof.
  intros N LA CA [Pn Pq Pqp P1 P2 Pr Pa Ps].
  apply NoDup_remove in N as [N Nw]. rewrite app_nil_r in N, Nw.
  assert (NwR : forall c, nth_error R c <> Some w) by (intros c H; apply Nw; eapply nth_in; eauto).
  simpl. split; simpl.
  - rewrite app_length. simpl. lia.
  - rewrite Pq. symmetry. now apply skipn_app_le.
  - intros v Hv. apply in_app_or in Hv as [Hv|[<-|[]]].
    + destruct (Pqp v Hv) as [c Hc]. destruct (P1 _ _ Hc) as (Rc & _ & _).
      exists c. rewrite (aget_aset_neq _ nat_eqb_spec); [assumption|]. intros ->. now apply (NwR c).
    + exists (r_next s). apply (aget_aset_eq _ nat_eqb_spec).
  - intros w1 c1 H. apply (aget_aset_some _ nat_eqb_spec) in H as [[-> ->]|[Nw1 H]].
    + rewrite Pn. split; [apply nth_error_snoc|]. split.
      * exists a, None. rewrite (aget_aset_eq _ nat_eqb_spec). split; [reflexivity|]. split.
        -- intros _. apply in_or_app; right; now left.
        -- intros r Hr; discriminate.
      * exists None. apply (aget_aset_eq _ nat_eqb_spec).
    + destruct (P1 _ _ H) as (Rc & (a1 & sl & Hw & Hq & Hs) & (sl' & Hr)).
      split; [now apply nth_error_ext|]. split.
      * exists a1, sl. rewrite (aget_aset_neq _ nat_eqb_spec) by assumption. split; [assumption|]. split; [|assumption].
        intro E. apply in_or_app; left. auto.
      * exists sl'. rewrite (aget_aset_neq _ nat_eqb_spec); [assumption|]. apply nth_lt in Rc. lia.
  - intros w1 c1 H. destruct (P2 _ _ H) as (Rc & H1 & Hw & (sl & Hr)).
    assert (w1 <> w) by (intros ->; now apply (NwR c1)).
    split; [now apply nth_error_ext|]. split; [|split].
    + now rewrite (aget_aset_neq _ nat_eqb_spec).
    + now rewrite (aget_aset_neq _ nat_eqb_spec).
    + exists sl. rewrite (aget_aset_neq _ nat_eqb_spec); [assumption|]. apply nth_lt in Rc. lia.
  - intros c ow sl H. apply (aget_aset_some _ nat_eqb_spec) in H as [[-> H]|[_ H]].
    + inversion H; subst. rewrite Pn. split; [apply nth_error_snoc|]. intros r Hr; discriminate.
    + destruct (Pr _ _ _ H) as [Rc Hs]. split; [now apply nth_error_ext|assumption].
  - intros c w1 H. apply nth_snoc_inv in H as [H|[-> ->]].
    + assert (w1 <> w) by (intros ->; now apply (NwR c)).
      destruct (Pa _ _ H) as [G|[G|G]]; [left|right; left|right; right]; auto.
      now rewrite (aget_aset_neq _ nat_eqb_spec).
    + left. rewrite Pn. apply (aget_aset_eq _ nat_eqb_spec).
  - intros i r c w1 Hi Hc Hw.
    destruct (CA r (nth_in _ _ _ Hi)) as (c' & Ec & Lc). assert (c' = c) by congruence. subst c'.
    apply nth_snoc_inv in Hw as [Hw|[-> _]]; [|lia].
    destruct (Ps _ _ _ _ Hi Hc Hw) as [(v & a1 & Rv & Hv)|[G|G]]; [left|right; left|right; right]; auto.
    + exists v, a1. split; [now apply nth_error_ext|].
      rewrite (aget_aset_neq _ nat_eqb_spec); [assumption|]. intros ->. now apply (NwR i).
    + rewrite (aget_aset_neq _ nat_eqb_spec); [assumption|]. lia.
Qed.

Lemma RP_resp R A o s r :
  NoDup R -> S (length A) <= length R ->
  RP R A o s -> RP R (A ++ [r]) o (fst (rstep s (RResp r))).
Proof.
  intros N LA [Pn Pq Pqp P1 P2 Pr Pa Ps].
  simpl. unfold h_resp. destruct (h_q (r_http s)) as [|v q'] eqn:Eq.
  { exfalso. assert (L : length (skipn (length A) R) = 0) by (now rewrite <- Pq).
    rewrite skipn_length in L. lia. }
  symmetry in Pq. apply skipn_cons in Pq as [Rv Qt].
  destruct (Pqp v (or_introl eq_refl)) as [cv Hcv].
  destruct (P1 _ _ Hcv) as (Rcv & (av & slv & Hwv & _ & _) & _).
  assert (cv = length A) by (eapply nodup_nth_inj; eauto). subst cv.
  rewrite Hwv.
  split; simpl.
  - assumption.
  - rewrite app_length. simpl. rewrite Nat.add_1_r. now symmetry.
  - intros v1 Hv1. apply Pqp. now right.
  - intros w c H. destruct (P1 _ _ H) as (Rc & (a1 & sl & Hw & Hq & Hs) & Hr).
    split; [assumption|]. split; [|assumption].
    destruct (Nat.eq_dec w v) as [->|Nv].
    + assert (c = length A) by (eapply nodup_nth_inj; eauto). subst c.
      exists av, (Some r). rewrite (aget_aset_eq _ nat_eqb_spec). split; [reflexivity|]. split; [discriminate|].
      intros r0 E. inversion E; subst. apply nth_error_snoc.
    + exists a1, sl. rewrite (aget_aset_neq _ nat_eqb_spec) by assumption. split; [assumption|]. split.
      * intro E. destruct (Hq E) as [->|G]; [contradiction|assumption].
      * intros r0 E. apply nth_error_ext. auto.
  - intros w c H. destruct (P2 _ _ H) as (Rc & H1 & Hw & Hr).
    split; [assumption|]. split; [assumption|]. split; [|assumption].
    rewrite (aget_aset_neq _ nat_eqb_spec); [assumption|]. intros ->. congruence.
  - intros c ow sl H. destruct (Pr _ _ _ H) as [Rc Hs]. split; [assumption|].
    intros r0 E. destruct (Hs r0 E). split; [assumption|apply in_or_app; now left].
  - intros c w H. destruct (Pa _ _ H) as [G|[G|(r0 & G1 & G2 & G3)]]; auto.
    right; right. exists r0. split; [apply in_or_app; now left|auto].
  - intros i r0 c w Hi Hc Hw. apply nth_snoc_inv in Hi as [Hi|[-> ->]].
    + destruct (Ps _ _ _ _ Hi Hc Hw) as [(v1 & a1 & Rv1 & Hv1)|[G|G]]; auto.
      left. exists v1, a1. split; [assumption|].
      rewrite (aget_aset_neq _ nat_eqb_spec); [assumption|]. intros ->.
      assert (i = length A) by (eapply nodup_nth_inj; eauto). apply nth_lt in Hi. lia.
    + left. exists v, av. split; [assumption|apply (aget_aset_eq _ nat_eqb_spec)].
Qed.

Lemma r_file_neq r reqs c : h_cseq r <> Some c -> cget c (r_file r reqs) = cget c reqs.
Proof.
  unfold r_file. destruct (h_cseq r) as [c0|]; [|reflexivity]. intro H.
  destruct (cget c0 reqs) as [[o0 s0]|]; [|reflexivity].
  apply (aget_aset_neq _ nat_eqb_spec). congruence.
Qed.

Lemma r_file_eq r reqs c ow sl :
  h_cseq r = Some c -> cget c reqs = Some (ow, sl) -> cget c (r_file r reqs) = Some (ow, Some r).
Proof. unfold r_file. intros -> ->. apply (aget_aset_eq _ nat_eqb_spec). Qed.

Lemma r_file_none r reqs c : h_cseq r = Some c -> cget c reqs = None -> r_file r reqs = reqs.
Proof. unfold r_file. intros -> ->. reflexivity. Qed.

Lemma q_remove_in w v q : In v q -> v <> w -> In v (q_remove w q).
Proof.
  induction q as [|x t IH]; simpl; [auto|]. intros [->|H] N.
  - destruct (Nat.eqb w v) eqn:E; [apply Nat.eqb_eq in E; congruence|now left].
  - destruct (Nat.eqb w x); [assumption|right; auto].
Qed.

Section Wake.
  Variables (R : list nat) (A : list hresp).
  Hypothesis NR : NoDup R.
  Hypothesis NC : NoDup (map h_cseq A).
  Hypothesis CA : forall r, In r A -> exists c, h_cseq r = Some c /\ c < length R.
  Hypothesis OK : forall r, In r A -> ok2xx r.

  Lemma RP_noop o s : RP R A o s -> RP R A (o ++ []) s.
  Proof. now rewrite app_nil_r. Qed.

  (* phase 2: the own event is set *)
  Lemma RP_wake2 o s w c ow r' :
    RP R A o s -> cget w (r_ph1 s) = None -> cget w (r_ph2 s) = Some c ->
    cget c (r_reqs s) = Some (ow, Some r') ->
    RP R A (o ++ [HDeliver w r'])
       (MkR (r_http s) (r_next s) (adel Nat.eqb c (r_reqs s)) (r_ph1 s) (adel Nat.eqb w (r_ph2 s))).
  Proof.
    intros [Pn Pq Pqp P1 P2 Pr Pa Ps] E1 E2 Eo.
    destruct (P2 _ _ E2) as (Rc & _ & Hw & _).
    destruct (Pr _ _ _ Eo) as [Rc' Hs]. assert (ow = w) by congruence. subst ow.
    destruct (Hs r' eq_refl) as [Cr' Ar'].
    assert (Diff : forall w1 c1, nth_error R c1 = Some w1 -> w1 <> w -> c1 <> c).
    { intros w1 c1 H1 N1 ->. congruence. }
    split; simpl; auto.
    - intros w1 c1 H. destruct (P1 _ _ H) as (Rc1 & Hh & (sl & Hr)).
      assert (w1 <> w) by (intros ->; congruence).
      split; [assumption|]. split; [assumption|]. exists sl.
      rewrite (aget_adel_neq _ nat_eqb_spec); eauto.
    - intros w1 c1 H. apply (aget_adel_some _ nat_eqb_spec) in H as [Nw H].
      destruct (P2 _ _ H) as (Rc1 & H1 & Hw1 & (sl & Hr)).
      split; [assumption|]. split; [assumption|]. split; [assumption|]. exists sl.
      rewrite (aget_adel_neq _ nat_eqb_spec); eauto.
    - intros c1 ow sl H. apply (aget_adel_some _ nat_eqb_spec) in H as [_ H]. eauto.
    - intros c1 w1 H. destruct (Nat.eq_dec w1 w) as [->|Nw].
      + assert (c1 = c) by (apply (nodup_nth_inj R c1 c w NR); assumption). subst c1.
        right; right. exists r'. repeat split; auto. apply in_or_app; right; now left.
      + destruct (Pa _ _ H) as [G|[G|(r0 & G1 & G2 & G3)]]; auto.
        * right; left. now rewrite (aget_adel_neq _ nat_eqb_spec).
        * right; right. exists r0. repeat split; auto. apply in_or_app; now left.
    - intros i r0 c0 w0 Hi Hc H0.
      destruct (Ps _ _ _ _ Hi Hc H0) as [G|[G|G]]; auto.
      + destruct (Nat.eq_dec c0 c) as [->|Nc].
        * rewrite Eo in G. inversion G; subst. right; right. apply in_or_app; right; now left.
        * right; left. now rewrite (aget_adel_neq _ nat_eqb_spec).
      + right; right. apply in_or_app; now left.
  Qed.

  (* phase 1: the FIFO response r (the c-th to arrive) is handed to request w *)
  Lemma RP_wake1 o s w c a r :
    RP R A o s -> cget w (r_ph1 s) = Some c -> cget w (h_wait (r_http s)) = Some (a, Some r) ->
    let hs' := MkH (h_q (r_http s)) (adel Nat.eqb w (h_wait (r_http s))) in
    let reqs1 := r_file r (r_reqs s) in
    RP R A (o ++ match cget c reqs1 with Some (_, Some r') => [HDeliver w r'] | _ => [] end)
       (match cget c reqs1 with
        | Some (_, Some r') => MkR hs' (r_next s) (adel Nat.eqb c reqs1) (adel Nat.eqb w (r_ph1 s)) (r_ph2 s)
        | _ => MkR hs' (r_next s) reqs1 (adel Nat.eqb w (r_ph1 s)) (aset Nat.eqb w c (r_ph2 s))
        end).
  Proof.
    intros I E1 Ew hs' reqs1. pose proof I as [Pn Pq Pqp P1 P2 Pr Pa Ps].
    destruct (P1 _ _ E1) as (Rc & (a0 & sl0 & Hw0 & _ & Hs0) & (slc & Hrc)).
    rewrite Ew in Hw0. inversion Hw0; subst a0 sl0. clear Hw0.
    pose proof (Hs0 r eq_refl) as Ac. pose proof (nth_in _ _ _ Ac) as Ar.
    destruct (CA r Ar) as (cr & Ecr & Lcr).
    destruct (nth_error R cr) as [wr|] eqn:Rcr; [|apply nth_error_None in Rcr; lia].
    assert (Wq : ~ In w (h_q (r_http s))).
    { rewrite Pq. apply (nodup_skipn _ c); auto. now apply nth_lt in Ac. }
    assert (Ph2w : cget w (r_ph2 s) = None).
    { destruct (cget w (r_ph2 s)) as [c2|] eqn:E2; [|reflexivity].
      destruct (P2 _ _ E2) as (_ & H1 & _). congruence. }
    (* the map after filing r *)
    assert (Q1 : forall c1 ow sl, cget c1 reqs1 = Some (ow, sl) ->
                 nth_error R c1 = Some ow /\ (forall r0, sl = Some r0 -> h_cseq r0 = Some c1 /\ In r0 A)).
    { intros c1 ow sl H. destruct (Nat.eq_dec c1 cr) as [->|Nc].
      - destruct (cget cr (r_reqs s)) as [[o0 s0]|] eqn:E0.
        + unfold reqs1 in H. rewrite (r_file_eq _ _ _ _ _ Ecr E0) in H. inversion H; subst.
          destruct (Pr _ _ _ E0) as [G _]. split; [assumption|]. intros r0 Er. inversion Er; subst. auto.
        + unfold reqs1 in H. rewrite (r_file_none _ _ _ Ecr E0) in H. congruence.
      - unfold reqs1 in H. rewrite r_file_neq in H by congruence. eauto. }
    assert (Q2 : forall c1 ow sl, cget c1 (r_reqs s) = Some (ow, sl) -> exists sl', cget c1 reqs1 = Some (ow, sl')).
    { intros c1 ow sl H. destruct (Nat.eq_dec c1 cr) as [->|Nc].
      - exists (Some r). unfold reqs1. eapply r_file_eq; eauto.
      - exists sl. unfold reqs1. rewrite r_file_neq by congruence. assumption. }
    assert (Q3 : forall i r0 c0 w0, nth_error A i = Some r0 -> h_cseq r0 = Some c0 -> nth_error R c0 = Some w0 ->
                 (exists v a1, nth_error R i = Some v /\ cget v (adel Nat.eqb w (h_wait (r_http s))) = Some (a1, Some r0)) \/
                 cget c0 reqs1 = Some (w0, Some r0) \/ In (HDeliver w0 r0) o).
    { intros i r0 c0 w0 Hi Hc H0. destruct (Ps _ _ _ _ Hi Hc H0) as [(v & a1 & Rv & Hv)|[G|G]]; auto.
      - destruct (Nat.eq_dec v w) as [->|Nv].
        + rewrite Ew in Hv. inversion Hv; subst a1 r0. clear Hv.
          assert (c0 = cr) by congruence. subst c0. assert (w0 = wr) by congruence. subst w0.
          destruct (cget cr (r_reqs s)) as [[o0 s0]|] eqn:E0.
          * destruct (Pr _ _ _ E0) as [G _]. assert (o0 = wr) by congruence. subst o0.
            right; left. unfold reqs1. eapply r_file_eq; eauto.
          * destruct (Pa _ _ Rcr) as [G|[G|(r1 & G1 & G2 & G3)]].
            -- destruct (P1 _ _ G) as (_ & _ & (sl & Hr)). congruence.
            -- destruct (P2 _ _ G) as (_ & _ & _ & (sl & Hr)). congruence.
            -- assert (r1 = r) by (apply (cseq_inj A NC); auto; congruence). subst. auto.
        + left. exists v, a1. split; [assumption|]. now rewrite (aget_adel_neq _ nat_eqb_spec).
      - right; left. destruct (Nat.eq_dec c0 cr) as [->|Nc].
        + unfold reqs1. rewrite (r_file_eq _ _ _ _ _ Ecr G).
          destruct (Pr _ _ _ G) as [_ Hs]. destruct (Hs r0 eq_refl) as [_ Ar0].
          assert (r0 = r) by (apply (cseq_inj A NC); auto; congruence). now subst.
        + unfold reqs1. rewrite r_file_neq by congruence. assumption. }
    (* facts shared by both outcomes *)
    assert (Hq' : forall v, In v (h_q (r_http s)) -> exists c1, cget v (adel Nat.eqb w (r_ph1 s)) = Some c1).
    { intros v Hv. destruct (Pqp v Hv) as [c1 Hc1]. exists c1.
      rewrite (aget_adel_neq _ nat_eqb_spec); [assumption|]. intros ->. contradiction. }
    assert (H1' : forall reqs', (forall c1 ow sl, c1 <> c -> cget c1 reqs1 = Some (ow, sl) -> cget c1 reqs' = Some (ow, sl)) ->
                 forall w1 c1, cget w1 (adel Nat.eqb w (r_ph1 s)) = Some c1 ->
                 nth_error R c1 = Some w1 /\
                 (exists a1 slot, cget w1 (adel Nat.eqb w (h_wait (r_http s))) = Some (a1, slot) /\
                                  (slot = None -> In w1 (h_q (r_http s))) /\
                                  (forall r0, slot = Some r0 -> nth_error A c1 = Some r0)) /\
                 (exists sl, cget c1 reqs' = Some (w1, sl))).
    { intros reqs' Hk w1 c1 H. apply (aget_adel_some _ nat_eqb_spec) in H as [Nw H].
      destruct (P1 _ _ H) as (Rc1 & (a1 & sl & Hw & Hq & Hs) & (sl' & Hr)).
      split; [assumption|]. split.
      - exists a1, sl. rewrite (aget_adel_neq _ nat_eqb_spec) by assumption. auto.
      - destruct (Q2 _ _ _ Hr) as [sl'' Hr']. exists sl''. apply Hk; [|assumption].
        intros ->. congruence. }
    destruct (cget c reqs1) as [[ow [r'|]]|] eqn:Eo.
    - (* own event already set: return r' *)
      destruct (Q1 _ _ _ Eo) as [Rc' Hs']. assert (ow = w) by congruence. subst ow.
      destruct (Hs' r' eq_refl) as [Cr' Ar'].
      split; simpl; auto.
      + apply H1'. intros c1 ow sl Nc H. now rewrite (aget_adel_neq _ nat_eqb_spec).
      + intros w1 c1 H. destruct (P2 _ _ H) as (Rc1 & H1 & Hw1 & (sl & Hr)).
        assert (w1 <> w) by (intros ->; congruence).
        split; [assumption|]. split; [now rewrite (aget_adel_neq _ nat_eqb_spec)|].
        split; [now rewrite (aget_adel_neq _ nat_eqb_spec)|].
        destruct (Q2 _ _ _ Hr) as [sl' Hr']. exists sl'.
        rewrite (aget_adel_neq _ nat_eqb_spec); [assumption|]. intros ->. congruence.
      + intros c1 ow sl H. apply (aget_adel_some _ nat_eqb_spec) in H as [_ H]. eauto.
      + intros c1 w1 H. destruct (Nat.eq_dec w1 w) as [->|Nw].
        * assert (c1 = c) by (apply (nodup_nth_inj R c1 c w NR); assumption). subst c1.
          right; right. exists r'. repeat split; auto. apply in_or_app; right; now left.
        * destruct (Pa _ _ H) as [G|[G|(r0 & G1 & G2 & G3)]]; auto.
          -- left. now rewrite (aget_adel_neq _ nat_eqb_spec).
          -- right; right. exists r0. repeat split; auto. apply in_or_app; now left.
      + intros i r0 c0 w0 Hi Hc H0. destruct (Q3 _ _ _ _ Hi Hc H0) as [G|[G|G]]; auto.
        * destruct (Nat.eq_dec c0 c) as [->|Nc].
          -- rewrite Eo in G. inversion G; subst. right; right. apply in_or_app; right; now left.
          -- right; left. now rewrite (aget_adel_neq _ nat_eqb_spec).
        * right; right. apply in_or_app; now left.
    - (* wait for the own event *)
      rewrite app_nil_r.
      destruct (Q1 _ _ _ Eo) as [Rc' _]. assert (ow = w) by congruence. subst ow.
      split; simpl; auto.
      + intros w1 c1 H. apply (aget_aset_some _ nat_eqb_spec) in H as [[-> ->]|[Nw H]].
        * split; [assumption|]. split; [apply (aget_adel_eq Nat.eqb)|].
          split; [apply (aget_adel_eq Nat.eqb)|]. eauto.
        * destruct (P2 _ _ H) as (Rc1 & H1 & Hw1 & (sl & Hr)).
          split; [assumption|]. split; [now rewrite (aget_adel_neq _ nat_eqb_spec)|].
          split; [now rewrite (aget_adel_neq _ nat_eqb_spec)|].
          destruct (Q2 _ _ _ Hr) as [sl' Hr']. eauto.
      + intros c1 w1 H. destruct (Nat.eq_dec w1 w) as [->|Nw].
        * assert (c1 = c) by (apply (nodup_nth_inj R c1 c w NR); assumption). subst c1.
          right; left. apply (aget_aset_eq _ nat_eqb_spec).
        * destruct (Pa _ _ H) as [G|[G|G]]; auto.
          -- left. now rewrite (aget_adel_neq _ nat_eqb_spec).
          -- right; left. now rewrite (aget_aset_neq _ nat_eqb_spec).
    - (* the own entry always exists *)
      exfalso. destruct (Q2 _ _ _ Hrc) as [sl' Hr']. congruence.
  Qed.
End Wake.

Lemma rstep_wake1 s w c a r :
  cget w (r_ph1 s) = Some c -> cget w (h_wait (r_http s)) = Some (a, Some r) ->
  h_classify a r = HROk r -> ~ In w (h_q (r_http s)) ->
  let hs' := MkH (h_q (r_http s)) (adel Nat.eqb w (h_wait (r_http s))) in
  let reqs1 := r_file r (r_reqs s) in
  rstep s (RWake w) =
  (match cget c reqs1 with
   | Some (_, Some r') => MkR hs' (r_next s) (adel Nat.eqb c reqs1) (adel Nat.eqb w (r_ph1 s)) (r_ph2 s)
   | _ => MkR hs' (r_next s) reqs1 (adel Nat.eqb w (r_ph1 s)) (aset Nat.eqb w c (r_ph2 s))
   end,
   match cget c reqs1 with Some (_, Some r') => [HDeliver w r'] | _ => [] end).
Proof.
  intros E1 Ew Ec Nq. simpl. rewrite E1. unfold h_wake. rewrite Ew, Ec.
  rewrite (q_remove_notin _ _ Nq).
  destruct (cget c (r_file r (r_reqs s))) as [[ow [r'|]]|]; reflexivity.
Qed.

Lemma RP_step h o s e :
  r_perm_ok (h ++ [e]) -> RP (r_reqs_of h) (r_resps h) o s ->
  RP (r_reqs_of (h ++ [e])) (r_resps (h ++ [e])) (o ++ snd (rstep s e)) (fst (rstep s e)).
Proof.
  intros P I. pose proof (perm_ok_prefix _ _ P) as P0.
  pose proof (perm_ok_count _ P0) as L0. pose proof (perm_ok_count _ P) as L1.
  pose proof (perm_ok_cseq _ P0) as C0.
  destruct P0 as (N0 & _ & Ok0 & Nc0 & _). destruct P as (N & Ab & _ & _ & _).
  rewrite r_reqs_of_app, r_resps_app in *.
  destruct e as [w a|r|w|w|w|w]; cbn [r_reqs_of r_resps flat_map app] in *; rewrite ?app_nil_r in *.
  - (* RReq *) rewrite ?app_nil_r. now apply RP_req.
  - (* RResp *) rewrite ?app_nil_r. rewrite app_length in L1. simpl in L1.
    apply RP_resp; [assumption|lia|assumption].
  - (* RWake *)
    destruct (cget w (r_ph1 s)) as [c|] eqn:E1.
    + destruct (p_ph1 _ _ _ _ I _ _ E1) as (Rc & (a & sl & Hw & Hq & Hs) & _).
      destruct sl as [r|].
      * pose proof (Hs r eq_refl) as Ac.
        assert (Nq : ~ In w (h_q (r_http s))).
        { rewrite (p_q _ _ _ _ I). apply (nodup_skipn _ c); auto. now apply nth_lt in Ac. }
        rewrite (rstep_wake1 s w c a r E1 Hw (classify_2xx a r (Ok0 r (nth_in _ _ _ Ac))) Nq).
        cbn [fst snd]. now apply RP_wake1 with (a := a).
      * assert (E : rstep s (RWake w) = (s, [])).
        { simpl. rewrite E1. unfold h_wake. now rewrite Hw. }
        rewrite E. simpl. now rewrite app_nil_r.
    + destruct (cget w (r_ph2 s)) as [c|] eqn:E2.
      * destruct (p_ph2 _ _ _ _ I _ _ E2) as (_ & _ & _ & (sl & Hr)).
        destruct sl as [r'|].
        -- assert (E : rstep s (RWake w) =
                       (MkR (r_http s) (r_next s) (adel Nat.eqb c (r_reqs s)) (r_ph1 s) (adel Nat.eqb w (r_ph2 s)),
                        [HDeliver w r'])).
           { simpl. now rewrite E1, E2, Hr. }
           rewrite E. cbn [fst snd]. now apply RP_wake2 with (ow := w).
        -- assert (E : rstep s (RWake w) = (s, [])) by (simpl; now rewrite E1, E2, Hr).
           rewrite E. simpl. now rewrite app_nil_r.
      * assert (E : rstep s (RWake w) = (s, [])) by (simpl; now rewrite E1, E2).
        rewrite E. simpl. now rewrite app_nil_r.
  - exfalso. assert (true = false) by (apply (Ab (RTimeout w)); apply in_or_app; right; now left). discriminate.
  - exfalso. assert (true = false) by (apply (Ab (RCancel w)); apply in_or_app; right; now left). discriminate.
  - exfalso. assert (true = false) by (apply (Ab (RReqFail w)); apply in_or_app; right; now left). discriminate.
Qed.

Lemma RP_reach h : r_perm_ok h ->
  RP (r_reqs_of h) (r_resps h) (outs rstep r_init h) (final rstep r_init h).
Proof.
  apply (run_invariant_pc rstep r_perm_ok (fun h o s => RP (r_reqs_of h) (r_resps h) o s)).
  - apply perm_ok_prefix.
  - split; simpl; try reflexivity; try discriminate; try (intros; contradiction).
    + intros c w H. destruct c; discriminate.
    + intros i r c w H. destruct i; discriminate.
  - intros. now apply RP_step.
Qed.

(* rtsp_permutation: every request answered (2xx, any order, any interleaving of wake-ups, no
   timer fired), nothing runnable left: every caller has returned the response with its own CSeq *)
Lemma rtsp_permutation h : r_perm_ok h ->
  length (r_resps h) = length (r_reqs_of h) -> r_quiescent (final rstep r_init h) ->
  forall r c w, In r (r_resps h) -> h_cseq r = Some c -> nth_error (r_reqs_of h) c = Some w ->
  In (HDeliver w r) (outs rstep r_init h).
Proof.
  intros P L [Q1 Q2] r c w Hr Hc Hw. pose proof (RP_reach h P) as I.
  destruct P as (NR & _ & _ & NC & _).
  set (s := final rstep r_init h) in *. set (o := outs rstep r_init h) in *.
  apply In_nth_error in Hr as [i Hi].
  destruct (p_resp _ _ _ _ I _ _ _ _ Hi Hc Hw) as [(v & a & _ & Hv)|[G|G]]; [|clear Hi|assumption].
  - exfalso. exact (Q1 _ _ _ Hv).
  - destruct (p_acc _ _ _ _ I _ _ Hw) as [H1|[H2|(r1 & A1 & C1 & D1)]].
    + exfalso. destruct (p_ph1 _ _ _ _ I _ _ H1) as (_ & (a & sl & Hh & Hq & _) & _).
      destruct sl as [r1|]; [exact (Q1 _ _ _ Hh)|].
      specialize (Hq eq_refl). rewrite (p_q _ _ _ _ I), L, skipn_all in Hq. destruct Hq.
    + exfalso. destruct (p_ph2 _ _ _ _ I _ _ H2) as (_ & H1 & _). exact (Q2 _ _ _ _ H2 H1 G).
    + destruct (p_reqs _ _ _ _ I _ _ _ G) as [_ Hs]. destruct (Hs r eq_refl) as [_ Ar].
      assert (r1 = r) by (apply (cseq_inj _ NC); auto; congruence). now subst.
Qed.

(* ... and since the CSeq numbers are then exactly 0..n-1, literally every caller *)
Lemma rtsp_permutation_all h : r_perm_ok h ->
  length (r_resps h) = length (r_reqs_of h) -> r_quiescent (final rstep r_init h) ->
  forall c w, nth_error (r_reqs_of h) c = Some w ->
  exists r, In r (r_resps h) /\ h_cseq r = Some c /\ In (HDeliver w r) (outs rstep r_init h).
Proof.
  intros P L Q c w Hw. pose proof (perm_ok_cseq h P) as C.
  assert (exists r, In r (r_resps h) /\ h_cseq r = Some c) as (r & Hr & Hc).
  { destruct P as (_ & _ & _ & NC & _). set (A := r_resps h) in *. set (n := length (r_reqs_of h)) in *.
    assert (exists l, map h_cseq A = map Some l) as [l El].
    { clear NC L. induction A as [|a t IH]; [exists []; reflexivity|].
      destruct IH as [l El]; [intros r Hr; apply C; now right|].
      destruct (C a (or_introl eq_refl)) as (c0 & Ec & _). exists (c0 :: l). simpl. now rewrite Ec, El. }
    assert (Nl : NoDup l).
    { rewrite El in NC. revert NC. clear. induction l as [|x t IH]; [constructor|].
      simpl. intro N. inversion N; subst. constructor; [|auto]. intro H. apply H1. now apply in_map. }
    assert (Ll : length l = n) by (rewrite <- L, <- (map_length h_cseq A), El, map_length; reflexivity).
    assert (Bl : incl l (seq 0 n)).
    { intros x Hx. assert (In (Some x) (map h_cseq A)) by (rewrite El; now apply in_map).
      apply in_map_iff in H as (r & Er & Hr). destruct (C r Hr) as (c0 & Ec & Lc).
      apply in_seq. assert (x = c0) by congruence. lia. }
    assert (In c l).
    { apply (@NoDup_length_incl nat l (seq 0 n) Nl); [rewrite seq_length; lia|assumption|].
      apply in_seq. apply nth_lt in Hw. fold n in Hw. lia. }
    assert (In (Some c) (map h_cseq A)) by (rewrite El; now apply in_map).
    apply in_map_iff in H0 as (r & Er & Hr). eauto. }
  exists r. repeat split; auto. eapply rtsp_permutation; eauto.
Qed.

(* executable form of r_answers_ok, for concrete histories *)
Fixpoint ans_okb (n : nat) (h : list rtev) : bool :=
  match h with
  | [] => true
  | RReq _ _ :: t | RReqFail _ :: t => ans_okb (S n) t
  | RResp r :: t => match h_cseq r with Some c => c <? n | None => false end && ans_okb n t
  | _ :: t => ans_okb n t
  end.

Lemma ans_okb_gen h : forall n, ans_okb n h = true ->
  forall pre post, h = pre ++ post ->
  forall r, In r (r_resps pre) -> exists c, h_cseq r = Some c /\ c < n + length (r_reqs_of pre).
Proof.
  induction h as [|e t IH]; intros n H pre post E r Hr.
  - destruct pre; [destruct Hr|discriminate].
  - destruct pre as [|e' pre]; [destruct Hr|]. simpl in E. inversion E; subst e' t. clear E.
    destruct e; cbn [ans_okb r_reqs_of r_resps flat_map app length] in *;
      fold (r_reqs_of pre) in *; fold (r_resps pre) in *.
    + destruct (IH (S n) H pre post eq_refl r Hr) as (c & Ec & Lc). exists c. split; [assumption|lia].
    + apply andb_true_iff in H as [H1 H2]. destruct Hr as [<-|Hr].
      * destruct (h_cseq r0) as [c|]; [|discriminate]. apply Nat.ltb_lt in H1. exists c. split; [reflexivity|lia].
      * destruct (IH n H2 pre post eq_refl r Hr) as (c & Ec & Lc). exists c. split; [assumption|lia].
    + exact (IH n H pre post eq_refl r Hr).
    + exact (IH n H pre post eq_refl r Hr).
    + exact (IH n H pre post eq_refl r Hr).
    + destruct (IH (S n) H pre post eq_refl r Hr) as (c & Ec & Lc). exists c. split; [assumption|lia].
Qed.

Lemma ans_okb_sound h : ans_okb 0 h = true -> r_answers_ok h.
Proof. intros H pre post E r Hr. exact (ans_okb_gen h 0 H pre post E r Hr). Qed.
