(* C03 - RTSP: CSeq re-matching on top of the FIFO HTTP connection *)
From Coq Require Import List Bool Arith NArith Lia.
From PV Require Import C03.Model C03.Spec C03.ProofsBase C03.ProofsHttp.
Import ListNotations.

Notation cget := (aget Nat.eqb).

Lemma r_reqs_of_app a b : r_reqs_of (a ++ b) = r_reqs_of a ++ r_reqs_of b.
Proof. apply flat_map_app. Qed.
Lemma r_resps_app a b : r_resps (a ++ b) = r_resps a ++ r_resps b.
Proof. apply flat_map_app. Qed.

(* ---- the HTTP layer as used by RTSP *)
Lemma h_resp_slot r s w a r1 :
  wget w (h_wait (h_resp r s)) = Some (a, Some r1) -> r1 = r \/ wget w (h_wait s) = Some (a, Some r1).
Proof.
  unfold h_resp. destruct (h_q s) as [|v q']; [auto|]. simpl.
  destruct (wget v (h_wait s)) as [[al sl]|] eqn:E; [|auto].
  intro H. apply (aget_aset_some _ nat_eqb_spec) in H as [[-> H]|[_ H]]; [|auto].
  inversion H; subst. now left.
Qed.

Lemma h_wake_inv w s s' x :
  h_wake w s = Some (s', x) ->
  exists a r, wget w (h_wait s) = Some (a, Some r) /\ x = h_classify a r /\
              s' = MkH (q_remove w (h_q s)) (adel Nat.eqb w (h_wait s)).
Proof.
  unfold h_wake. destruct (wget w (h_wait s)) as [[a [r|]]|]; try discriminate.
  intro H; inversion H; subst. eauto.
Qed.

Lemma h_abort_inv w s s' :
  h_abort w s = Some s' -> s' = MkH (q_remove w (h_q s)) (adel Nat.eqb w (h_wait s)).
Proof. unfold h_abort. destruct (wget w (h_wait s)); [|discriminate]. intro H; now inversion H. Qed.

Lemma classify_ok a r r' : h_classify a r = HROk r' -> r' = r.
Proof.
  unfold h_classify. destruct (N.eqb (h_code r) 403); [discriminate|].
  destruct (N.eqb (h_code r) 401).
  - destruct a; [|discriminate]. intro H; now inversion H.
  - destruct ((N.leb 200 (h_code r) && N.ltb (h_code r) 300) || a); [|discriminate]. intro H; now inversion H.
Qed.

Lemma r_file_get r reqs c o r' :
  cget c (r_file r reqs) = Some (o, Some r') ->
  (h_cseq r = Some c /\ r' = r) \/ cget c reqs = Some (o, Some r').
Proof.
  unfold r_file. destruct (h_cseq r) as [c0|]; [|auto].
  destruct (cget c0 reqs) as [[o0 s0]|] eqn:E; [|auto].
  intro H. apply (aget_aset_some _ nat_eqb_spec) in H as [[-> H]|[_ H]]; [|auto].
  inversion H; subst. now left.
Qed.

(* --------------------------------------------------------------------------
   R1  whatever exchange() RETURNS carries the CSeq of that very request - for
       every history (errors, timeouts, any order)                              *)
Record RA (h : list rtev) (s : rst) : Prop := {
  ra_f : forall c o r, cget c (r_reqs s) = Some (o, Some r) -> h_cseq r = Some c /\ In (RResp r) h;
  ra_h : forall w a r, wget w (h_wait (r_http s)) = Some (a, Some r) -> In (RResp r) h;
  ra_p : forall w c, wget w (r_ph1 s) = Some c \/ wget w (r_ph2 s) = Some c ->
           exists h1 a h2, h = h1 ++ RReq w a :: h2 /\ c = r_next (final rstep r_init h1)
}.

Lemma RA_weaken h s s' e :
  RA h s ->
  (forall c o r, cget c (r_reqs s') = Some (o, Some r) -> cget c (r_reqs s) = Some (o, Some r)) ->
  (forall w a r, wget w (h_wait (r_http s')) = Some (a, Some r) -> wget w (h_wait (r_http s)) = Some (a, Some r)) ->
  (forall w c, wget w (r_ph1 s') = Some c \/ wget w (r_ph2 s') = Some c ->
               wget w (r_ph1 s) = Some c \/ wget w (r_ph2 s) = Some c) ->
  RA (h ++ [e]) s'.
Proof.
  intros [F H P] Hf Hh Hp. split.
  - intros c o r G. apply Hf in G. destruct (F _ _ _ G). split; [assumption|apply in_or_app; now left].
  - intros w a r G. apply Hh in G. apply in_or_app; left. eauto.
  - intros w c G. apply Hp in G. destruct (P _ _ G) as (h1 & a & h2 & -> & E).
    exists h1, a, (h2 ++ [e]). split; [now rewrite <- app_assoc|assumption].
Qed.

Lemma RA_step h e :
  RA h (final rstep r_init h) -> RA (h ++ [e]) (fst (rstep (final rstep r_init h) e)).
Proof.
  set (s := final rstep r_init h). intro I. pose proof I as [F H P].
  destruct e as [w a|r|w|w|w|w].
  - (* RReq *) simpl. split; simpl.
    + intros c o r G. apply (aget_aset_some _ nat_eqb_spec) in G as [[_ G]|[_ G]]; [discriminate|].
      destruct (F _ _ _ G). split; [assumption|apply in_or_app; now left].
    + intros w1 a1 r G. apply (aget_aset_some _ nat_eqb_spec) in G as [[_ G]|[_ G]]; [discriminate|].
      apply in_or_app; left. eauto.
    + intros w1 c [G|G].
      * apply (aget_aset_some _ nat_eqb_spec) in G as [[-> ->]|[_ G]].
        -- exists h, a, []. split; reflexivity.
        -- destruct (P w1 c (or_introl G)) as (h1 & a1 & h2 & -> & E).
           exists h1, a1, (h2 ++ [RReq w a]). split; [now rewrite <- app_assoc|assumption].
      * destruct (P w1 c (or_intror G)) as (h1 & a1 & h2 & -> & E).
        exists h1, a1, (h2 ++ [RReq w a]). split; [now rewrite <- app_assoc|assumption].
  - (* RResp *) simpl. split; simpl.
    + intros c o r1 G. destruct (F _ _ _ G). split; [assumption|apply in_or_app; now left].
    + intros w a r1 G. apply h_resp_slot in G as [->|G].
      * apply in_or_app; right; now left.
      * apply in_or_app; left. eauto.
    + intros w c G. destruct (P _ _ G) as (h1 & a1 & h2 & -> & E).
      exists h1, a1, (h2 ++ [RResp r]). split; [now rewrite <- app_assoc|assumption].
  - (* RWake *) simpl. destruct (wget w (r_ph1 s)) as [c|] eqn:E1.
    + destruct (h_wake w (r_http s)) as [[hs' x]|] eqn:Ew; [|apply (RA_weaken h s); auto].
      apply h_wake_inv in Ew as (a & r & Ea & -> & ->).
      assert (Hh : forall w1 a1 r1, wget w1 (adel Nat.eqb w (h_wait (r_http s))) = Some (a1, Some r1) ->
                                    wget w1 (h_wait (r_http s)) = Some (a1, Some r1)).
      { intros w1 a1 r1 G. now apply (aget_adel_some _ nat_eqb_spec) in G. }
      assert (Hp1 : forall w1 c1, wget w1 (adel Nat.eqb w (r_ph1 s)) = Some c1 -> wget w1 (r_ph1 s) = Some c1).
      { intros w1 c1 G. now apply (aget_adel_some _ nat_eqb_spec) in G. }
      destruct (h_classify a r) as [r0|r0|r0] eqn:Ec;
        try solve [simpl; apply (RA_weaken h s); simpl; auto; intros w1 c1 [G|G]; auto].
      apply classify_ok in Ec. subst r0.
      assert (Ff : forall c1 o r1, cget c1 (r_file r (r_reqs s)) = Some (o, Some r1) ->
                                   h_cseq r1 = Some c1 /\ In (RResp r1) h).
      { intros c1 o r1 G. apply r_file_get in G as [[G1 ->]|G]; [|eauto]. split; [assumption|eauto]. }
      destruct (cget c (r_file r (r_reqs s))) as [[o [r'|]]|] eqn:Eo; simpl.
      * split; simpl.
        -- intros c1 o1 r1 G. apply (aget_adel_some _ nat_eqb_spec) in G as [_ G].
           destruct (Ff _ _ _ G). split; [assumption|apply in_or_app; now left].
        -- intros w1 a1 r1 G. apply Hh in G. apply in_or_app; left. eauto.
        -- intros w1 c1 [G|G]; [apply Hp1 in G; destruct (P w1 c1 (or_introl G)) as (h1 & a1 & h2 & -> & E)
                               |destruct (P w1 c1 (or_intror G)) as (h1 & a1 & h2 & -> & E)];
             exists h1, a1, (h2 ++ [RWake w]); (split; [now rewrite <- app_assoc|assumption]).
      * split; simpl.
        -- intros c1 o1 r1 G. destruct (Ff _ _ _ G). split; [assumption|apply in_or_app; now left].
        -- intros w1 a1 r1 G. apply Hh in G. apply in_or_app; left. eauto.
        -- intros w1 c1 [G|G].
           ++ apply Hp1 in G. destruct (P w1 c1 (or_introl G)) as (h1 & a1 & h2 & -> & E).
              exists h1, a1, (h2 ++ [RWake w]). split; [now rewrite <- app_assoc|assumption].
           ++ apply (aget_aset_some _ nat_eqb_spec) in G as [[-> ->]|[_ G]];
                [destruct (P w c (or_introl E1)) as (h1 & a1 & h2 & -> & E)
                |destruct (P w1 c1 (or_intror G)) as (h1 & a1 & h2 & -> & E)];
                exists h1, a1, (h2 ++ [RWake w]); (split; [now rewrite <- app_assoc|assumption]).
      * split; simpl.
        -- intros c1 o1 r1 G. destruct (Ff _ _ _ G). split; [assumption|apply in_or_app; now left].
        -- intros w1 a1 r1 G. apply Hh in G. apply in_or_app; left. eauto.
        -- intros w1 c1 [G|G].
           ++ apply Hp1 in G. destruct (P w1 c1 (or_introl G)) as (h1 & a1 & h2 & -> & E).
              exists h1, a1, (h2 ++ [RWake w]). split; [now rewrite <- app_assoc|assumption].
           ++ apply (aget_aset_some _ nat_eqb_spec) in G as [[-> ->]|[_ G]];
                [destruct (P w c (or_introl E1)) as (h1 & a1 & h2 & -> & E)
                |destruct (P w1 c1 (or_intror G)) as (h1 & a1 & h2 & -> & E)];
                exists h1, a1, (h2 ++ [RWake w]); (split; [now rewrite <- app_assoc|assumption]).
    + destruct (wget w (r_ph2 s)) as [c|] eqn:E2; [|apply (RA_weaken h s); auto].
      destruct (cget c (r_reqs s)) as [[o [r'|]]|] eqn:Eo; simpl; try solve [apply (RA_weaken h s); auto].
      apply (RA_weaken h s); simpl; auto.
      * intros c1 o1 r1 G. now apply (aget_adel_some _ nat_eqb_spec) in G.
      * intros w1 c1 [G|G]; auto. apply (aget_adel_some _ nat_eqb_spec) in G as [_ G]. auto.
  - (* RTimeout *) simpl. destruct (wget w (r_ph1 s)) as [c|] eqn:E1.
    + destruct (h_abort w (r_http s)) as [hs'|] eqn:Ea; [|apply (RA_weaken h s); auto].
      apply h_abort_inv in Ea. subst hs'. simpl. apply (RA_weaken h s); simpl; auto.
      * intros w1 a1 r1 G. now apply (aget_adel_some _ nat_eqb_spec) in G.
      * intros w1 c1 [G|G]; auto. apply (aget_adel_some _ nat_eqb_spec) in G as [_ G]. auto.
    + destruct (wget w (r_ph2 s)) as [c|] eqn:E2; [|apply (RA_weaken h s); auto].
      simpl. apply (RA_weaken h s); simpl; auto.
      * intros c1 o1 r1 G. now apply (aget_adel_some _ nat_eqb_spec) in G.
      * intros w1 c1 [G|G]; auto. apply (aget_adel_some _ nat_eqb_spec) in G as [_ G]. auto.
  - (* RCancel *) simpl. destruct (wget w (r_ph1 s)) as [c|] eqn:E1.
    + destruct (h_abort w (r_http s)) as [hs'|] eqn:Ea; [|apply (RA_weaken h s); auto].
      apply h_abort_inv in Ea. subst hs'. simpl. apply (RA_weaken h s); simpl; auto.
      * intros w1 a1 r1 G. now apply (aget_adel_some _ nat_eqb_spec) in G.
      * intros w1 c1 [G|G]; auto. apply (aget_adel_some _ nat_eqb_spec) in G as [_ G]. auto.
    + destruct (wget w (r_ph2 s)) as [c|] eqn:E2; [|apply (RA_weaken h s); auto].
      simpl. apply (RA_weaken h s); simpl; auto.
      * intros c1 o1 r1 G. now apply (aget_adel_some _ nat_eqb_spec) in G.
      * intros w1 c1 [G|G]; auto. apply (aget_adel_some _ nat_eqb_spec) in G as [_ G]. auto.
  - (* RReqFail *) simpl. apply (RA_weaken h s); simpl; auto.
    intros c o r G. apply (aget_aset_some _ nat_eqb_spec) in G as [[_ G]|[_ G]]; [discriminate|assumption].
Qed.

Lemma RA_reach h : RA h (final rstep r_init h).
Proof.
  induction h as [|e h IH] using rev_ind.
  - split; simpl; try discriminate. intros w c [G|G]; discriminate.
  - rewrite final_snoc. now apply RA_step.
Qed.

Lemma r_next_count h : r_next (final rstep r_init h) = length (r_reqs_of h).
Proof.
  induction h as [|e h IH] using rev_ind; [reflexivity|].
  rewrite final_snoc, r_reqs_of_app, app_length. set (s := final rstep r_init h) in *.
  destruct e as [w a|r|w|w|w|w]; simpl.
  - lia.
  - lia.
  - destruct (wget w (r_ph1 s)).
    + destruct (h_wake w (r_http s)) as [[hs' [r|r|r]]|]; simpl; try lia.
      destruct (cget n (r_file r (r_reqs s))) as [[o [r'|]]|]; simpl; lia.
    + destruct (wget w (r_ph2 s)); [|simpl; lia].
      destruct (cget n (r_reqs s)) as [[o [r'|]]|]; simpl; lia.
  - destruct (wget w (r_ph1 s)).
    + destruct (h_abort w (r_http s)); simpl; lia.
    + destruct (wget w (r_ph2 s)); simpl; lia.
  - destruct (wget w (r_ph1 s)).
    + destruct (h_abort w (r_http s)); simpl; lia.
    + destruct (wget w (r_ph2 s)); simpl; lia.
  - lia.
Qed.

Lemma rtsp_return_matches pre e w r :
  In (HDeliver w r) (snd (rstep (final rstep r_init pre) e)) ->
  e = RWake w /\
  exists h1 a h2, pre = h1 ++ RReq w a :: h2 /\ h_cseq r = Some (length (r_reqs_of h1)) /\ In (RResp r) pre.
Proof.
  pose proof (RA_reach pre) as [F H P]. set (s := final rstep r_init pre) in *.
  destruct e as [w' a|r0|w'|w'|w'|w'].
  - simpl. intros [].
  - simpl. intros [].
  - simpl. destruct (wget w' (r_ph1 s)) as [c|] eqn:E1.
    + destruct (h_wake w' (r_http s)) as [[hs' x]|] eqn:Ew; [|intros []].
      apply h_wake_inv in Ew as (a & r1 & Ea & -> & ->).
      destruct (h_classify a r1) as [r0|r0|r0] eqn:Ec; try (simpl; intros [G|[]]; discriminate).
      apply classify_ok in Ec. subst r0.
      destruct (cget c (r_file r1 (r_reqs s))) as [[o [r'|]]|] eqn:Eo; simpl; [|intros []|intros []].
      intros [G|[]]. inversion G; subst. split; [reflexivity|].
      destruct (P w c (or_introl E1)) as (h1 & a1 & h2 & Ep & Ecs).
      exists h1, a1, h2. rewrite <- r_next_count, <- Ecs. split; [assumption|].
      apply r_file_get in Eo as [[G1 ->]|G1]; [split; eauto|]. destruct (F _ _ _ G1). auto.
    + destruct (wget w' (r_ph2 s)) as [c|] eqn:E2; [|intros []].
      destruct (cget c (r_reqs s)) as [[o [r'|]]|] eqn:Eo; simpl; [|intros []|intros []].
      intros [G|[]]. inversion G; subst. split; [reflexivity|].
      destruct (P w c (or_intror E2)) as (h1 & a1 & h2 & Ep & Ecs).
      exists h1, a1, h2. rewrite <- r_next_count, <- Ecs. destruct (F _ _ _ Eo). auto.
  - simpl. destruct (wget w' (r_ph1 s)).
    + destruct (h_abort w' (r_http s)); simpl; [intros [G|[]]; discriminate|intros []].
    + destruct (wget w' (r_ph2 s)); simpl; [intros [G|[]]; discriminate|intros []].
  - simpl. destruct (wget w' (r_ph1 s)).
    + destruct (h_abort w' (r_http s)); simpl; [intros [G|[]]; discriminate|intros []].
    + destruct (wget w' (r_ph2 s)); simpl; [intros [G|[]]; discriminate|intros []].
  - simpl. intros [G|[]]; discriminate.
Qed.
