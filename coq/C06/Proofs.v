(* C06 - lemmas about the decision logic of Model.v (oracles universally quantified). *)
From Coq Require Import NArith List Bool.
From PV Require Import Common.Cases Common.Skeleton C04.TlvModel C04.TlvProofs C06.Model.
Import ListNotations.
Local Open Scope N_scope.

Lemma bytes_beq_eq a b : bytes_beq a b = true <-> a = b.
Proof. unfold bytes_beq. apply list_beq_eq. intros x y. apply N.eqb_eq. Qed.

Lemma bytes_beq_false a b : bytes_beq a b = false <-> a <> b.
Proof.
  split.
  - intros H E. apply bytes_beq_eq in E. congruence.
  - intro H. destruct (bytes_beq a b) eqn:E; [|reflexivity]. apply bytes_beq_eq in E. contradiction.
Qed.

(* the exception classes a reply (as opposed to the transport) can cause *)
Definition reply_error (e : exn) : Prop :=
  e = EAuthentication \/ e = EValueError \/ e = EInvalidTag \/ e = EIndexError \/ e = EKeyError.

Section P.
  Variable x25519 : bytes -> bytes -> option bytes.
  Variable hkdf : bytes -> bytes -> bytes -> bytes.
  Variable dec : bytes -> bytes -> bytes -> option bytes.
  Variable enc : bytes -> bytes -> bytes -> bytes.
  Variable pk_load : bytes -> bool.
  Variable sig_ok : bytes -> bytes -> bytes -> bool.
  Variable sign : bytes -> bytes -> option bytes.

  Notation verify1 := (verify1 x25519 hkdf dec enc pk_load sig_ok sign).
  Notation verify_credentials := (verify_credentials x25519 hkdf dec enc pk_load sig_ok sign).
  Notation connect := (connect x25519 hkdf dec enc pk_load sig_ok sign).
  Notation m3_sent := (m3_sent x25519 hkdf dec enc pk_load sig_ok sign).

  Definition session_key (h : handler) (spub : bytes) (shared : bytes) : Prop :=
    x25519 (v_priv h) spub = Some shared.

  (* everything verify1 asks, answered yes *)
  Definition proves_identity (h : handler) (c : creds) (spub encd reply : bytes) : Prop :=
    exists shared pt t ident sg dsig,
      x25519 (v_priv h) spub = Some shared /\
      dec (hkdf salt_pv info_pv shared) nonce_m2 encd = Some pt /\
      read_tlv pt = TOk t /\
      get T_Identifier t = Some ident /\
      get T_Signature t = Some sg /\
      ident = atv_id c /\
      pk_load (ltpk c) = true /\
      sig_ok (ltpk c) (spub ++ ident ++ v_pub h) sg = true /\
      sign (ltsk c) (v_pub h ++ client_id c ++ spub) = Some dsig /\
      reply = enc (hkdf salt_pv info_pv shared) nonce_m3
                  (write_tlv [(T_Identifier, client_id c); (T_Signature, dsig)]).

  Lemma verify1_accept_iff h c spub encd reply :
    verify1 h c spub encd = Accept reply <-> proves_identity h c spub encd reply.
  Proof.
    unfold Model.verify1, proves_identity. split.
    - intro H.
      destruct (x25519 (v_priv h) spub) as [shared|] eqn:Ex; [|discriminate].
      destruct (dec (hkdf salt_pv info_pv shared) nonce_m2 encd) as [pt|] eqn:Ed; [|discriminate].
      destruct (read_tlv pt) as [t| |] eqn:Et; try discriminate.
      destruct (get T_Identifier t) as [ident|] eqn:Ei; [|discriminate].
      destruct (get T_Signature t) as [sg|] eqn:Es; [|discriminate].
      destruct (bytes_beq ident (atv_id c)) eqn:Eb; cbn [negb] in H; [|discriminate].
      destruct (pk_load (ltpk c)) eqn:Ep; cbn [negb] in H; [|discriminate].
      destruct (sig_ok (ltpk c) (spub ++ ident ++ v_pub h) sg) eqn:Eg; cbn [negb] in H; [|discriminate].
      destruct (sign (ltsk c) (v_pub h ++ client_id c ++ spub)) as [dsig|] eqn:En; [|discriminate].
      inversion H; subst reply. apply bytes_beq_eq in Eb.
      exists shared, pt, t, ident, sg, dsig. repeat split; auto.
    - intros (shared & pt & t & ident & sg & dsig & Ex & Ed & Et & Ei & Es & Eid & Ep & Eg & En & Er).
      rewrite Ex, Ed, Et, Ei, Es.
      assert (Eb: bytes_beq ident (atv_id c) = true) by (apply bytes_beq_eq; exact Eid).
      rewrite Eb, Ep, Eg, En. cbn [negb]. now subst reply.
  Qed.

  (* verify1 raises nothing but the five reply-error classes *)
  Lemma verify1_raise_class h c spub encd e :
    verify1 h c spub encd = Raises e -> reply_error e.
  Proof.
    unfold Model.verify1, reply_error. intro H.
    destruct (x25519 (v_priv h) spub) as [shared|]; [|inversion H; auto].
    destruct (dec (hkdf salt_pv info_pv shared) nonce_m2 encd) as [pt|]; [|inversion H; auto].
    pose proof (read_tlv_terminates pt) as Hterm.
    destruct (read_tlv pt) as [t| |]; [|inversion H; auto 6|congruence].
    destruct (get T_Identifier t) as [ident|]; [|inversion H; auto 6].
    destruct (get T_Signature t) as [sg|]; [|inversion H; auto 6].
    destruct (negb (bytes_beq ident (atv_id c))); [inversion H; auto|].
    destruct (negb (pk_load (ltpk c))); [inversion H; auto|].
    destruct (negb (sig_ok (ltpk c) (spub ++ ident ++ v_pub h) sg)); [inversion H; auto|].
    destruct (sign (ltsk c) (v_pub h ++ client_id c ++ spub)); [discriminate|inversion H; auto].
  Qed.

  (* AuthenticationError from verify1 itself: exactly a readable reply with the wrong identifier
     or (key loadable and) a signature that does not verify *)
  Lemma verify1_auth_error_iff h c spub encd :
    verify1 h c spub encd = Raises EAuthentication <->
    exists shared pt t ident sg,
      x25519 (v_priv h) spub = Some shared /\
      dec (hkdf salt_pv info_pv shared) nonce_m2 encd = Some pt /\
      read_tlv pt = TOk t /\ get T_Identifier t = Some ident /\ get T_Signature t = Some sg /\
      (ident <> atv_id c \/
       (ident = atv_id c /\ pk_load (ltpk c) = true /\ sig_ok (ltpk c) (spub ++ ident ++ v_pub h) sg = false)).
  Proof.
    unfold Model.verify1. split.
    - intro H.
      destruct (x25519 (v_priv h) spub) as [shared|] eqn:Ex; [|discriminate].
      destruct (dec (hkdf salt_pv info_pv shared) nonce_m2 encd) as [pt|] eqn:Ed; [|discriminate].
      destruct (read_tlv pt) as [t| |] eqn:Et; try discriminate.
      destruct (get T_Identifier t) as [ident|] eqn:Ei; [|discriminate].
      destruct (get T_Signature t) as [sg|] eqn:Es; [|discriminate].
      exists shared, pt, t, ident, sg. repeat (split; [reflexivity || assumption|]).
      destruct (bytes_beq ident (atv_id c)) eqn:Eb; cbn [negb] in H.
      + apply bytes_beq_eq in Eb. right. split; [assumption|].
        destruct (pk_load (ltpk c)) eqn:Ep; cbn [negb] in H; [|discriminate]. split; [reflexivity|].
        destruct (sig_ok (ltpk c) (spub ++ ident ++ v_pub h) sg) eqn:Eg; cbn [negb] in H; [|reflexivity].
        destruct (sign (ltsk c) (v_pub h ++ client_id c ++ spub)); discriminate.
      + left. now apply bytes_beq_false.
    - intros (shared & pt & t & ident & sg & Ex & Ed & Et & Ei & Es & Hor).
      rewrite Ex, Ed, Et, Ei, Es. destruct Hor as [Hne | (He & Ep & Eg)].
      + apply bytes_beq_false in Hne. now rewrite Hne.
      + assert (Eb: bytes_beq ident (atv_id c) = true) by (apply bytes_beq_eq; exact He).
        now rewrite Eb, Ep, Eg.
  Qed.

  (* an honest accessory's reply - the two items written by write_tlv, decrypted intact - is
     accepted exactly when identifier and signature are the right ones (uses the TLV8 round-trip
     theorem of C04) *)
  Lemma read_honest ident sg :
    read_tlv (write_tlv [(T_Identifier, ident); (T_Signature, sg)]) = TOk [(T_Identifier, ident); (T_Signature, sg)].
  Proof.
    apply tlv_roundtrip. cbn. constructor.
    - intros [H|[]]. discriminate.
    - constructor; [intros []|constructor].
  Qed.

  Lemma verify1_honest_reply h c spub encd shared ident sg :
    x25519 (v_priv h) spub = Some shared ->
    dec (hkdf salt_pv info_pv shared) nonce_m2 encd = Some (write_tlv [(T_Identifier, ident); (T_Signature, sg)]) ->
    forall reply,
    verify1 h c spub encd = Accept reply <->
    ident = atv_id c /\ pk_load (ltpk c) = true /\
    sig_ok (ltpk c) (spub ++ ident ++ v_pub h) sg = true /\
    exists dsig, sign (ltsk c) (v_pub h ++ client_id c ++ spub) = Some dsig /\
      reply = enc (hkdf salt_pv info_pv shared) nonce_m3 (write_tlv [(T_Identifier, client_id c); (T_Signature, dsig)]).
  Proof.
    intros Ex Ed reply. rewrite verify1_accept_iff. unfold proves_identity. split.
    - intros (shared' & pt & t & ident' & sg' & dsig & Ex' & Ed' & Et & Ei & Es & Eid & Ep & Eg & En & Er).
      assert (shared' = shared) by congruence. subst shared'.
      assert (pt = write_tlv [(T_Identifier, ident); (T_Signature, sg)]) by congruence. subst pt.
      rewrite read_honest in Et. inversion Et; subst t.
      cbn in Ei, Es. injection Ei as Ei. injection Es as Es. rewrite <- Ei in *. rewrite <- Es in *.
      split; [assumption|]. split; [assumption|]. split; [assumption|]. exists dsig. split; assumption.
    - intros (Eid & Ep & Eg & dsig & En & Er).
      exists shared, (write_tlv [(T_Identifier, ident); (T_Signature, sg)]), [(T_Identifier, ident); (T_Signature, sg)], ident, sg, dsig.
      pose proof (read_honest ident sg) as Hr.
      repeat split; auto.
  Qed.

  (* ---- verify_credentials ---- *)
  Lemma pairing_data_error k p pd e : pairing_data k p pd = inr e -> e = EAuthentication \/ e = EIndexError.
  Proof.
    unfold pairing_data. intro H.
    assert (G: match read_tlv pd with
               | TOk t => if chk_error k && has_tag T_Error t then inr EAuthentication else inl t
               | TIndexError => inr EIndexError
               | TOutOfFuel => inr EOther
               end = inr e -> e = EAuthentication \/ e = EIndexError).
    { pose proof (read_tlv_terminates pd) as Hterm.
      destruct (read_tlv pd) as [t| |]; [|intro G; inversion G; auto|congruence].
      destruct (chk_error k && has_tag T_Error t); intro G; inversion G; auto. }
    destruct p; [exact (G H)| |exact (G H)].
    destruct pd; [inversion H; auto|exact (G H)].
  Qed.

  (* the answer to the last message matters only where the code looks at it *)
  Definition m4_ok (k : pcfg) (p : proto) (pd4 : bytes) : Prop :=
    chk_m4 k = true -> exists t4, pairing_data k p pd4 = inl t4.

  Lemma verify_credentials_accept_iff k p h c f1 pd f3 pd4 reply :
    verify_credentials k p h c f1 pd f3 pd4 = Accept reply <->
    f1 = None /\ f3 = None /\ m4_ok k p pd4 /\
    exists t spub encd,
      pairing_data k p pd = inl t /\ get T_PublicKey t = Some spub /\ get T_EncryptedData t = Some encd /\
      proves_identity h c spub encd reply.
  Proof.
    unfold Model.verify_credentials, m4_ok. split.
    - intro H. destruct f1; [discriminate|].
      destruct (pairing_data k p pd) as [t|] eqn:Ep; [|discriminate].
      destruct (get T_PublicKey t) as [spub|] eqn:Es; [|discriminate].
      destruct (get T_EncryptedData t) as [encd|] eqn:Ee; [|discriminate].
      destruct (verify1 h c spub encd) as [r|] eqn:Ev; [|discriminate].
      destruct f3; [discriminate|].
      assert (Hr: r = reply /\ (chk_m4 k = true -> exists t4, pairing_data k p pd4 = inl t4)).
      { destruct (chk_m4 k).
        - destruct (pairing_data k p pd4) as [t4|] eqn:E4; [|discriminate]. inversion H. split; [reflexivity|]. intros _. now exists t4.
        - inversion H. split; [reflexivity|discriminate]. }
      destruct Hr as [-> H4].
      split; [reflexivity|]. split; [reflexivity|]. split; [exact H4|]. exists t, spub, encd.
      split; [reflexivity|]. split; [assumption|]. split; [assumption|].
      now apply verify1_accept_iff.
    - intros (-> & -> & H4 & t & spub & encd & Ep & Es & Ee & Hp).
      rewrite Ep, Es, Ee. apply verify1_accept_iff in Hp. rewrite Hp.
      destruct (chk_m4 k); [|reflexivity]. destruct (H4 eq_refl) as [t4 E4]. now rewrite E4.
  Qed.

  (* without a transport fault only reply errors are raised *)
  Lemma verify_credentials_raise_class k p h c pd pd4 e :
    verify_credentials k p h c None pd None pd4 = Raises e -> reply_error e.
  Proof.
    unfold Model.verify_credentials, reply_error. intro H.
    destruct (pairing_data k p pd) as [t|e0] eqn:Ep.
    - destruct (get T_PublicKey t) as [spub|]; [|inversion H; auto 6].
      destruct (get T_EncryptedData t) as [encd|]; [|inversion H; auto 6].
      destruct (verify1 h c spub encd) as [r|e1] eqn:Ev.
      + destruct (chk_m4 k); [|discriminate].
        destruct (pairing_data k p pd4) as [t4|e4] eqn:E4; [discriminate|].
        inversion H; subst e4. apply pairing_data_error in E4. destruct E4 as [->| ->]; auto 6.
      + inversion H; subst e1. exact (verify1_raise_class _ _ _ _ _ Ev).
    - inversion H; subst e0. apply pairing_data_error in Ep. destruct Ep as [->| ->]; auto 6.
  Qed.

  (* with a fault, the fault is what is raised unless the reply was already refused *)
  Lemma verify_credentials_fault k p h c f1 pd f3 pd4 e :
    verify_credentials k p h c f1 pd f3 pd4 = Raises e ->
    f1 = Some e \/ f3 = Some e \/ (f1 = None /\ verify_credentials k p h c None pd None pd4 = Raises e).
  Proof.
    unfold Model.verify_credentials. intro H. destruct f1 as [e1|]; [inversion H; auto|].
    destruct (pairing_data k p pd) as [t|e0]; [|auto].
    destruct (get T_PublicKey t) as [spub|]; [|auto].
    destruct (get T_EncryptedData t) as [encd|]; [|auto].
    destruct (verify1 h c spub encd) as [r|e1]; [|auto].
    destruct f3 as [e3|]; [inversion H; auto|auto].
  Qed.

  (* the third message that leaves is our own signature TLV under the session key: it is sent
     exactly when everything up to and including verify1 succeeded *)
  Lemma m3_sent_iff k p h c f1 pd m :
    m3_sent k p h c f1 pd = Some m <->
    f1 = None /\ exists t spub encd,
      pairing_data k p pd = inl t /\ get T_PublicKey t = Some spub /\ get T_EncryptedData t = Some encd /\
      proves_identity h c spub encd m.
  Proof.
    unfold Model.m3_sent.
    assert (Hpd: forall x, pairing_data {| chk_error := chk_error k; chk_m4 := false |} p x = pairing_data k p x) by reflexivity.
    destruct (verify_credentials {| chk_error := chk_error k; chk_m4 := false |} p h c f1 pd None []) as [r|e] eqn:E.
    - apply verify_credentials_accept_iff in E as (F1 & _ & _ & t & spub & encd & Ep & Es & Ee & Hp).
      rewrite Hpd in Ep. split.
      + intro H. inversion H; subst r. split; [exact F1|]. now exists t, spub, encd.
      + intros (_ & t' & spub' & encd' & Ep' & Es' & Ee' & Hp').
        assert (t' = t) by congruence. subst t'. assert (spub' = spub) by congruence. assert (encd' = encd) by congruence. subst.
        apply verify1_accept_iff in Hp, Hp'. congruence.
    - split; [discriminate|].
      intros (F1 & t & spub & encd & Ep & Es & Ee & Hp). exfalso.
      assert (A: verify_credentials {| chk_error := chk_error k; chk_m4 := false |} p h c f1 pd None [] = Accept m).
      { apply verify_credentials_accept_iff. split; [exact F1|]. split; [reflexivity|]. split; [intro X; discriminate X|].
        exists t, spub, encd. rewrite Hpd. auto. }
      congruence.
  Qed.

  (* ---- connect ---- *)
  Lemma connect_keys_iff k p h c f1 pd f3 pd4 :
    keys (connect k p h c f1 pd f3 pd4) = true <-> exists reply, verify_credentials k p h c f1 pd f3 pd4 = Accept reply.
  Proof.
    unfold Model.connect. destruct (verify_credentials k p h c f1 pd f3 pd4) as [r|e]; cbn; split.
    - intros _. now exists r.
    - reflexivity.
    - discriminate.
    - intros [r H]. discriminate.
  Qed.

  Lemma connect_keys_iff_ok k p h c f1 pd f3 pd4 :
    keys (connect k p h c f1 pd f3 pd4) = true <-> raised (connect k p h c f1 pd f3 pd4) = None.
  Proof.
    unfold Model.connect. destruct (verify_credentials k p h c f1 pd f3 pd4); cbn; split; intro H; try reflexivity; discriminate.
  Qed.

  Lemma surface_reply_error p e : reply_error e -> surface p e = EAuthentication.
  Proof. intros [->|[->|[->|[->| ->]]]]; destruct p; reflexivity. Qed.

  Lemma connect_reject k p h c pd pd4 :
    keys (connect k p h c None pd None pd4) = false ->
    raised (connect k p h c None pd None pd4) = Some EAuthentication.
  Proof.
    unfold Model.connect. destruct (verify_credentials k p h c None pd None pd4) as [r|e] eqn:E; cbn; [discriminate|].
    intros _. f_equal. apply surface_reply_error. exact (verify_credentials_raise_class _ _ _ _ _ _ _ E).
  Qed.
End P.

(* ---- the two exception mappings ---- *)
Lemma error_handler_cases e :
  (error_handler e = EAuthentication) \/
  ((e = EOSError \/ e = ETimeout) /\ error_handler e = EConnectionFailed) \/
  ((e = EBackOff \/ e = ENoCredentials \/ e = ECancelled) /\ error_handler e = e).
Proof. destruct e; cbn; auto 8. Qed.

Lemma airplay_map_cases e :
  (airplay_map e = EAuthentication) \/
  ((e = EProtocol \/ e = EOSError \/ e = ETimeout \/ e = ECancelled) /\ airplay_map e = e).
Proof. destruct e; cbn; auto 8. Qed.

Definition all_exn : list exn :=
  [EAuthentication; EProtocol; EConnectionFailed; EBackOff; ENoCredentials; EInvalidResponse; EInvalidState;
   EOSError; ETimeout; EValueError; EKeyError; EIndexError; EInvalidTag; EOther; ECancelled].
Lemma all_exn_complete e : In e all_exn.
Proof. destruct e; cbn; auto 20. Qed.

(* ---- which procedure runs ---- *)
Lemma extract_stored c a k : auth_type c = Some k -> extract_credentials (Some c) a = SelCreds c.
Proof. intro H. unfold extract_credentials. now rewrite H. Qed.

Lemma selected_stored c a k : auth_type c = Some k -> selected_procedure (Some c) a = Some (proc_of k).
Proof. intro H. unfold selected_procedure. rewrite (extract_stored c a k H). now rewrite H. Qed.

Lemma auth_type_transient : auth_type TRANSIENT_CREDENTIALS = Some KTransient.
Proof. reflexivity. Qed.
Lemma auth_type_none : auth_type NO_CREDENTIALS = Some KNull.
Proof. reflexivity. Qed.

Lemma extract_announced a c :
  extract_credentials None a = SelCreds c -> c = TRANSIENT_CREDENTIALS \/ c = NO_CREDENTIALS.
Proof.
  unfold extract_credentials. destruct (announced_flags a) as [n|]; [|discriminate].
  destruct (supports_transient n); intro H; inversion H; auto.
Qed.

(* credentials of type HAP: all four fields present and the key is not the transient marker *)
Lemma auth_type_hap c :
  auth_type c = Some KHAP <->
  ltpk c <> [] /\ ltsk c <> [] /\ atv_id c <> [] /\ client_id c <> [] /\ ltpk c <> transient_marker.
Proof.
  unfold auth_type.
  destruct (bytes_beq (ltpk c) transient_marker) eqn:Eb.
  - apply bytes_beq_eq in Eb. rewrite Eb. cbn [is_empty transient_marker andb negb].
    split; [discriminate|]. intros (_ & _ & _ & _ & H). congruence.
  - apply bytes_beq_false in Eb.
    destruct (ltpk c) as [|a1 l1], (ltsk c) as [|a2 l2], (atv_id c) as [|a3 l3], (client_id c) as [|a4 l4]; cbn [is_empty andb negb];
      (split; [intro H; try discriminate H | intros (H1 & H2 & H3 & H4 & H5); try congruence]).
    + repeat (split; [discriminate|]). exact Eb.
Qed.

(* ---- history ---- *)
Section H.
  Variable x25519 : bytes -> bytes -> option bytes.
  Variable hkdf : bytes -> bytes -> bytes -> bytes.
  Variable dec : bytes -> bytes -> bytes -> option bytes.
  Variable enc : bytes -> bytes -> bytes -> bytes.
  Variable pk_load : bytes -> bool.
  Variable sig_ok : bytes -> bytes -> bytes -> bool.
  Variable sign : bytes -> bytes -> option bytes.
  Notation run_history := (run_history x25519 hkdf dec enc pk_load sig_ok sign).
  Notation connect_stored := (connect_stored x25519 hkdf dec enc pk_load sig_ok sign).

  Lemma history_connect k p : forall pre init h f1 pd f3 pd4 post,
    nth_error (run_history k p init (pre ++ Connect h f1 pd f3 pd4 :: post)) (connects_in pre)
    = Some (connect_stored k p (creds_after init pre) h f1 pd f3 pd4).
  Proof.
    induction pre as [|e pre IH]; intros init h f1 pd f3 pd4 post.
    - reflexivity.
    - destruct e as [c|h0 g1 pd0 g3 pd40]; cbn [app Model.run_history creds_after fold_left connects_in filter length].
      + apply IH.
      + cbn [nth_error]. apply IH.
  Qed.
End H.

(* ---- the whole connect ---- *)
Lemma facade_none rs : facade_connect rs = None <-> Forall (fun r => raised r = None) rs.
Proof.
  induction rs as [|r t IH]; cbn; split; intro H.
  - constructor.
  - reflexivity.
  - destruct (raised r) eqn:E; [discriminate|]. constructor; [exact E|now apply IH].
  - inversion H as [|? ? H1 H2]; subst. rewrite H1. now apply IH.
Qed.

Lemma facade_first pre r post e :
  Forall (fun x => raised x = None) pre -> raised r = Some e -> facade_connect (pre ++ r :: post) = Some e.
Proof.
  induction pre as [|x pre IH]; cbn; intros Hp Hr.
  - now rewrite Hr.
  - inversion Hp as [|? ? H1 H2]; subst. rewrite H1. now apply IH.
Qed.

(* a decidable predicate checked by the analyser on a list of skeletons holds on every execution *)
Lemma lift (P : Skeleton.outcome -> st -> bool) (l : list cmd) :
  forallb (fun c => match an 4 c [s_init] with Some r => check P r | None => false end) l = true ->
  forall c, In c l -> forall o s', exec c s_init o s' -> P o s' = true.
Proof.
  intros H c Hin o s' He. rewrite forallb_forall in H. specialize (H c Hin).
  destruct (an 4 c [s_init]) as [r|] eqn:Ea; [|discriminate].
  exact (check_sound 4 c s_init r P Ea H o s' He).
Qed.
