(* C06 - property theorems only.  The cryptographic primitives are universally quantified
   function arguments (x25519, hkdf, dec, enc, pk_load, sig_ok, sign): every theorem holds for
   whatever they answer.  What they answer for a forged reply is Ed25519's / the AEAD's business
   and is NOT proved here.  Gen.v is regenerated from /repo's AST on every run. *)
From Coq Require Import NArith List Bool.
From PV Require Import Common.Cases Common.Skeleton C04.TlvModel C06.Model C06.Proofs C06.Gen.
Import ListNotations.
Local Open Scope N_scope.

(* ---------------------------------------------------------------- (1) the decision *)

(* verify1 accepts - and hands back the third message - iff the key exchange gave a secret, the
   AEAD authenticated the ciphertext under the key derived from it, the plaintext is a TLV with
   Identifier and Signature, the identifier IS the stored one, the stored long-term key loads and
   the signature verifies under it over  session_pub || identifier || own_pub, and our own
   signature could be made; the third message is then the encryption, under the same key, of
   exactly the TLV {Identifier: client_id, Signature: sign(own_pub || client_id || session_pub)}. *)
Theorem C06_verify1_accept_iff :
  forall x25519 hkdf dec enc pk_load sig_ok sign h c spub encd reply,
  verify1 x25519 hkdf dec enc pk_load sig_ok sign h c spub encd = Accept reply <->
  exists shared pt t ident sg dsig,
    x25519 (v_priv h) spub = Some shared /\
    dec (hkdf salt_pv info_pv shared) nonce_m2 encd = Some pt /\
    read_tlv pt = TOk t /\
    get T_Identifier t = Some ident /\
    get T_Signature t = Some sg /\
    ident = atv_id c /\
    pk_load (ltpk c) = true /\
    sig_ok (ltpk c) (spub ++ ident ++ v_pub h) sg = true /\
    sign (ltsk c) (v_pub h ++ client_id c ++ spub) = Some dsig /\
    reply = enc (hkdf salt_pv info_pv shared) nonce_m3
                (write_tlv [(T_Identifier, client_id c); (T_Signature, dsig)]).
Proof. intros. exact (verify1_accept_iff _ _ _ _ _ _ _ h c spub encd reply). Qed.
Print Assumptions C06_verify1_accept_iff.

(* any other answer of the oracles: one of five exception classes, nothing else *)
Theorem C06_verify1_reject_classes :
  forall x25519 hkdf dec enc pk_load sig_ok sign h c spub encd e,
  verify1 x25519 hkdf dec enc pk_load sig_ok sign h c spub encd = Raises e ->
  e = EAuthentication \/ e = EValueError \/ e = EInvalidTag \/ e = EIndexError \/ e = EKeyError.
Proof. intros until e. exact (verify1_raise_class _ _ _ _ _ _ _ h c spub encd e). Qed.
Print Assumptions C06_verify1_reject_classes.

(* AuthenticationError out of verify1 itself: exactly "readable reply, wrong identifier" or
   "right identifier, signature does not verify under the stored key" *)
Theorem C06_verify1_auth_error_iff :
  forall x25519 hkdf dec enc pk_load sig_ok sign h c spub encd,
  verify1 x25519 hkdf dec enc pk_load sig_ok sign h c spub encd = Raises EAuthentication <->
  exists shared pt t ident sg,
    x25519 (v_priv h) spub = Some shared /\
    dec (hkdf salt_pv info_pv shared) nonce_m2 encd = Some pt /\
    read_tlv pt = TOk t /\ get T_Identifier t = Some ident /\ get T_Signature t = Some sg /\
    (ident <> atv_id c \/
     (ident = atv_id c /\ pk_load (ltpk c) = true /\ sig_ok (ltpk c) (spub ++ ident ++ v_pub h) sg = false)).
Proof. intros. exact (verify1_auth_error_iff _ _ _ _ _ _ _ h c spub encd). Qed.
Print Assumptions C06_verify1_auth_error_iff.

(* An honest accessory's reply (the two items as write_tlv emits them, any lengths - this uses the
   TLV8 round-trip theorem of C04) is accepted iff identifier and signature are the right ones. *)
Theorem C06_verify1_honest_reply :
  forall x25519 hkdf dec enc pk_load sig_ok sign h c spub encd shared ident sg,
  x25519 (v_priv h) spub = Some shared ->
  dec (hkdf salt_pv info_pv shared) nonce_m2 encd = Some (write_tlv [(T_Identifier, ident); (T_Signature, sg)]) ->
  forall reply,
  verify1 x25519 hkdf dec enc pk_load sig_ok sign h c spub encd = Accept reply <->
  ident = atv_id c /\ pk_load (ltpk c) = true /\
  sig_ok (ltpk c) (spub ++ ident ++ v_pub h) sg = true /\
  exists dsig, sign (ltsk c) (v_pub h ++ client_id c ++ spub) = Some dsig /\
    reply = enc (hkdf salt_pv info_pv shared) nonce_m3 (write_tlv [(T_Identifier, client_id c); (T_Signature, dsig)]).
Proof. intros until sg. exact (verify1_honest_reply _ _ _ _ _ _ _ h c spub encd shared ident sg). Qed.
Print Assumptions C06_verify1_honest_reply.

(* ---------------------------------------------------------------- (2) the three procedures *)

(* verify_credentials() of MRP / Companion / AirPlay - for either value of the two per-module
   facts k (Gen.cfg gives the current ones) - returns iff both exchanges got an answer, the first
   answer's pairing data parses (and has no Error item where the module checks that), carries
   PublicKey and EncryptedData, verify1 accepted them, and - where the module looks at the last
   answer - that one parses too. *)
Theorem C06_verify_credentials_accept_iff :
  forall x25519 hkdf dec enc pk_load sig_ok sign k p h c f1 pd f3 pd4 reply,
  verify_credentials x25519 hkdf dec enc pk_load sig_ok sign k p h c f1 pd f3 pd4 = Accept reply <->
  f1 = None /\ f3 = None /\
  (chk_m4 k = true -> exists t4, pairing_data k p pd4 = inl t4) /\
  exists t spub encd,
    pairing_data k p pd = inl t /\ get T_PublicKey t = Some spub /\ get T_EncryptedData t = Some encd /\
    verify1 x25519 hkdf dec enc pk_load sig_ok sign h c spub encd = Accept reply.
Proof.
  intros. rewrite verify_credentials_accept_iff. unfold m4_ok.
  split; intros (H1 & H3 & H4 & t & spub & encd & Hp & Hs & He & Hv); (split; [exact H1|split; [exact H3|split; [exact H4|]]]);
    exists t, spub, encd; (split; [exact Hp|split; [exact Hs|split; [exact He|]]]);
    now apply verify1_accept_iff.
Qed.
Print Assumptions C06_verify_credentials_accept_iff.

(* The third message leaves exactly when everything up to and including verify1 succeeded, and
   it is then the encryption of our own signature TLV (see C06_verify1_accept_iff). *)
Theorem C06_third_message_only_after_accept :
  forall x25519 hkdf dec enc pk_load sig_ok sign k p h c f1 pd m,
  m3_sent x25519 hkdf dec enc pk_load sig_ok sign k p h c f1 pd = Some m <->
  f1 = None /\ exists t spub encd,
    pairing_data k p pd = inl t /\ get T_PublicKey t = Some spub /\ get T_EncryptedData t = Some encd /\
    verify1 x25519 hkdf dec enc pk_load sig_ok sign h c spub encd = Accept m.
Proof.
  intros. rewrite m3_sent_iff.
  split; intros (H1 & t & spub & encd & Hp & Hs & He & Hv); (split; [exact H1|]);
    exists t, spub, encd; (split; [exact Hp|split; [exact Hs|split; [exact He|]]]);
    now apply verify1_accept_iff.
Qed.
Print Assumptions C06_third_message_only_after_accept.

(* ---------------------------------------------------------------- (3) what the caller sees *)

(* start() / verify_connection(): keys are installed iff verify_credentials returned, iff nothing
   is raised. *)
Theorem C06_keys_iff_verified :
  forall x25519 hkdf dec enc pk_load sig_ok sign k p h c f1 pd f3 pd4,
  (keys (connect x25519 hkdf dec enc pk_load sig_ok sign k p h c f1 pd f3 pd4) = true <->
   exists reply, verify_credentials x25519 hkdf dec enc pk_load sig_ok sign k p h c f1 pd f3 pd4 = Accept reply) /\
  (keys (connect x25519 hkdf dec enc pk_load sig_ok sign k p h c f1 pd f3 pd4) = true <->
   raised (connect x25519 hkdf dec enc pk_load sig_ok sign k p h c f1 pd f3 pd4) = None).
Proof. intros. split; [apply connect_keys_iff|apply connect_keys_iff_ok]. Qed.
Print Assumptions C06_keys_iff_verified.

(* THE PROPERTY (decision level): for all three protocols, if connecting ends with encryption
   keys installed then the accessory's reply made every check of C06_verify1_accept_iff succeed -
   in particular it carried the stored identifier and a signature, valid under the stored
   long-term key, over both session public keys of THIS session (own_pub is the key generated by
   this verify round, which is what excludes a reply recorded in another session). *)
Theorem C06_trusted_only_if_identity_proved :
  forall x25519 hkdf dec enc pk_load sig_ok sign k p h c f1 pd f3 pd4,
  keys (connect x25519 hkdf dec enc pk_load sig_ok sign k p h c f1 pd f3 pd4) = true ->
  exists t spub encd shared pt it sg,
    pairing_data k p pd = inl t /\ get T_PublicKey t = Some spub /\ get T_EncryptedData t = Some encd /\
    x25519 (v_priv h) spub = Some shared /\
    dec (hkdf salt_pv info_pv shared) nonce_m2 encd = Some pt /\
    read_tlv pt = TOk it /\
    get T_Identifier it = Some (atv_id c) /\
    get T_Signature it = Some sg /\
    sig_ok (ltpk c) (spub ++ atv_id c ++ v_pub h) sg = true.
Proof.
  intros until pd4. intro K. apply connect_keys_iff in K as [reply K].
  apply verify_credentials_accept_iff in K as (_ & _ & _ & t & spub & encd & Hp & Hs & He & Hv).
  destruct Hv as (shared & pt & it & ident & sg & dsig & Ex & Ed & Et & Ei & Es & Eid & Ep & Eg & En & Er).
  subst ident. exists t, spub, encd, shared, pt, it, sg. repeat (split; [assumption|]). assumption.
Qed.
Print Assumptions C06_trusted_only_if_identity_proved.

(* ... and any other reply (no transport fault): AuthenticationError, no keys - all protocols. *)
Theorem C06_any_other_reply_is_authentication_error :
  forall x25519 hkdf dec enc pk_load sig_ok sign k p h c pd pd4,
  (forall reply, verify_credentials x25519 hkdf dec enc pk_load sig_ok sign k p h c None pd None pd4 <> Accept reply) ->
  raised (connect x25519 hkdf dec enc pk_load sig_ok sign k p h c None pd None pd4) = Some EAuthentication /\
  keys (connect x25519 hkdf dec enc pk_load sig_ok sign k p h c None pd None pd4) = false.
Proof.
  intros until pd4. intro H.
  assert (K: keys (connect x25519 hkdf dec enc pk_load sig_ok sign k p h c None pd None pd4) = false).
  { destruct (keys (connect x25519 hkdf dec enc pk_load sig_ok sign k p h c None pd None pd4)) eqn:E; [|reflexivity].
    apply connect_keys_iff in E as [r E]. now apply H in E. }
  split; [now apply connect_reject|exact K].
Qed.
Print Assumptions C06_any_other_reply_is_authentication_error.

(* ---------------------------------------------------------------- (3b) which procedure runs *)

(* Credentials that are STORED decide: extract_credentials returns exactly them and pair_verify
   builds the procedure of their type - whatever the (unauthenticated) announcement says.  In
   particular stored HAP credentials (all four fields, key not the "transient" marker) always
   get the HAP Pair-Verify against the stored key and identifier. *)
Theorem C06_stored_credentials_select_procedure :
  forall c k, auth_type c = Some k ->
  forall a, extract_credentials (Some c) a = SelCreds c /\ selected_procedure (Some c) a = Some (proc_of k).
Proof. intros c k H a. split; [exact (extract_stored c a k H)|exact (selected_stored c a k H)]. Qed.
Print Assumptions C06_stored_credentials_select_procedure.

Theorem C06_stored_hap_credentials_get_hap_verify :
  forall c, ltpk c <> [] -> ltsk c <> [] -> atv_id c <> [] -> client_id c <> [] -> ltpk c <> transient_marker ->
  forall a, selected_procedure (Some c) a = Some PHap.
Proof.
  intros c H1 H2 H3 H4 H5 a.
  assert (K: auth_type c = Some KHAP) by (apply auth_type_hap; auto).
  exact (selected_stored c a KHAP K).
Qed.
Print Assumptions C06_stored_hap_credentials_get_hap_verify.

(* An announcement alone never produces credentials that name an identity: only the transient
   marker or none. *)
Theorem C06_announcement_selects_no_identity :
  forall a c, extract_credentials None a = SelCreds c ->
  (c = TRANSIENT_CREDENTIALS /\ auth_type c = Some KTransient) \/ (c = NO_CREDENTIALS /\ auth_type c = Some KNull).
Proof. intros a c H. apply extract_announced in H as [-> | ->]; [left|right]; split; reflexivity. Qed.
Print Assumptions C06_announcement_selects_no_identity.

(* verify_connection(extract_credentials(service), connection) with stored HAP credentials IS the
   HAP verification of (3), for every announcement and whatever the other procedures do: keys
   installed => the reply proved the stored identity. *)
Theorem C06_announcement_cannot_downgrade_stored_identity :
  forall x25519 hkdf dec enc pk_load sig_ok sign c a other k h f1 pd f3 pd4,
  auth_type c = Some KHAP ->
  airplay_glue x25519 hkdf dec enc pk_load sig_ok sign (Some c) a other k h f1 pd f3 pd4
    = connect x25519 hkdf dec enc pk_load sig_ok sign k AirPlay h c f1 pd f3 pd4 /\
  (keys (airplay_glue x25519 hkdf dec enc pk_load sig_ok sign (Some c) a other k h f1 pd f3 pd4) = true ->
   exists t spub encd shared pt it sg,
     pairing_data k AirPlay pd = inl t /\ get T_PublicKey t = Some spub /\ get T_EncryptedData t = Some encd /\
     x25519 (v_priv h) spub = Some shared /\
     dec (hkdf salt_pv info_pv shared) nonce_m2 encd = Some pt /\
     read_tlv pt = TOk it /\
     get T_Identifier it = Some (atv_id c) /\
     get T_Signature it = Some sg /\
     sig_ok (ltpk c) (spub ++ atv_id c ++ v_pub h) sg = true).
Proof.
  intros until pd4. intro K.
  assert (E: airplay_glue x25519 hkdf dec enc pk_load sig_ok sign (Some c) a other k h f1 pd f3 pd4
             = connect x25519 hkdf dec enc pk_load sig_ok sign k AirPlay h c f1 pd f3 pd4).
  { unfold airplay_glue. rewrite (extract_stored c a KHAP K). now rewrite K. }
  split; [exact E|]. rewrite E. apply C06_trusted_only_if_identity_proved.
Qed.
Print Assumptions C06_announcement_cannot_downgrade_stored_identity.

(* ---------------------------------------------------------------- (3c) history *)

(* The credentials may be replaced while a protocol object exists.  Every connect of the object
   is the connect of (3) against the credentials stored AT THAT MOMENT - it depends on nothing
   else of the history (not on what was stored when the object was created, not on earlier
   connects); so keys after that connect => the reply proved the identity stored then. *)
Theorem C06_connect_uses_credentials_stored_at_connect_time :
  forall x25519 hkdf dec enc pk_load sig_ok sign k p init pre h f1 pd f3 pd4 post,
  nth_error (run_history x25519 hkdf dec enc pk_load sig_ok sign k p init (pre ++ Connect h f1 pd f3 pd4 :: post)) (connects_in pre)
  = Some (connect_stored x25519 hkdf dec enc pk_load sig_ok sign k p (creds_after init pre) h f1 pd f3 pd4) /\
  (keys (connect_stored x25519 hkdf dec enc pk_load sig_ok sign k p (creds_after init pre) h f1 pd f3 pd4) = true ->
   exists c t spub encd shared pt it sg,
     creds_after init pre = Some c /\
     pairing_data k p pd = inl t /\ get T_PublicKey t = Some spub /\ get T_EncryptedData t = Some encd /\
     x25519 (v_priv h) spub = Some shared /\
     dec (hkdf salt_pv info_pv shared) nonce_m2 encd = Some pt /\
     read_tlv pt = TOk it /\
     get T_Identifier it = Some (atv_id c) /\
     get T_Signature it = Some sg /\
     sig_ok (ltpk c) (spub ++ atv_id c ++ v_pub h) sg = true).
Proof.
  intros. split; [apply history_connect|].
  unfold connect_stored. destruct (creds_after init pre) as [c|]; [|discriminate].
  intro K. apply C06_trusted_only_if_identity_proved in K as (t & spub & encd & shared & pt & it & sg & K).
  exists c, t, spub, encd, shared, pt, it, sg. split; [reflexivity|exact K].
Qed.
Print Assumptions C06_connect_uses_credentials_stored_at_connect_time.

(* ---------------------------------------------------------------- (3d) the stream entry points *)

(* AirPlayV1.setup/play_url and AirPlayV2.setup/play_url with stored HAP credentials - for either
   way the v1 entry points may verify (Gen.v1_mapped): the accessory is USED (ANNOUNCE / SETUP /
   play sent), and on v2 keys installed, only if verify_credentials returned, i.e. only if the
   reply proved the stored identity; otherwise the entry point raises and nothing further is sent. *)
Theorem C06_stream_used_only_if_identity_proved :
  forall x25519 hkdf dec enc pk_load sig_ok sign v1m v1k v k h c f1 pd f3 pd4,
  let r := stream_entry x25519 hkdf dec enc pk_load sig_ok sign v1m v1k v k h c f1 pd f3 pd4 in
  (e_used r = true \/ e_keys r = true ->
   e_raised r = None /\
   exists t spub encd shared pt it sg,
     pairing_data k AirPlay pd = inl t /\ get T_PublicKey t = Some spub /\ get T_EncryptedData t = Some encd /\
     x25519 (v_priv h) spub = Some shared /\
     dec (hkdf salt_pv info_pv shared) nonce_m2 encd = Some pt /\
     read_tlv pt = TOk it /\
     get T_Identifier it = Some (atv_id c) /\
     get T_Signature it = Some sg /\
     sig_ok (ltpk c) (spub ++ atv_id c ++ v_pub h) sg = true) /\
  (e_used r = false -> exists e, e_raised r = Some e /\ e_keys r = false).
Proof.
  intros. subst r. unfold stream_entry.
  destruct (verify_credentials x25519 hkdf dec enc pk_load sig_ok sign k AirPlay h c f1 pd f3 pd4) as [reply|e] eqn:E; cbn.
  - split; [|discriminate]. intros _. split; [reflexivity|].
    assert (K: keys (connect x25519 hkdf dec enc pk_load sig_ok sign k AirPlay h c f1 pd f3 pd4) = true)
      by (apply connect_keys_iff; now exists reply).
    exact (C06_trusted_only_if_identity_proved _ _ _ _ _ _ _ _ _ _ _ _ _ _ _ K).
  - split; [intros [H|H]; discriminate|]. intros _. eexists. split; reflexivity.
Qed.
Print Assumptions C06_stream_used_only_if_identity_proved.

(* Where the entry point goes through verify_connection (v2; v1 iff v1_mapped) every reply that
   is not accepted - no transport fault - surfaces as AuthenticationError ... *)
Theorem C06_stream_mapped_reject_is_authentication_error :
  forall x25519 hkdf dec enc pk_load sig_ok sign v1k v k h c pd pd4,
  e_used (stream_entry x25519 hkdf dec enc pk_load sig_ok sign true v1k v k h c None pd None pd4) = false ->
  e_raised (stream_entry x25519 hkdf dec enc pk_load sig_ok sign true v1k v k h c None pd None pd4) = Some EAuthentication.
Proof.
  intros until pd4. unfold stream_entry.
  destruct (verify_credentials x25519 hkdf dec enc pk_load sig_ok sign k AirPlay h c None pd None pd4) as [reply|e] eqn:E; cbn; [discriminate|].
  intros _. destruct v; cbn; f_equal; apply (surface_reply_error AirPlay); exact (verify_credentials_raise_class _ _ _ _ _ _ _ _ _ _ _ _ _ _ E).
Qed.
Print Assumptions C06_stream_mapped_reject_is_authentication_error.

(* ... but NOT where v1 calls verify_credentials() bare (the code as it stands when Gen.v1_mapped is
   false): a flipped ciphertext bit surfaces from AirPlayV1.setup/play_url as InvalidTag.  Witness:
   the tables of the example below. *)
Theorem C06_stream_v1_unmapped_wrong_exception_refuted :
  exists x25519 hkdf dec enc pk_load sig_ok sign k h c pd pd4,
  stream_entry x25519 hkdf dec enc pk_load sig_ok sign false false V1 k h c None pd None pd4
  = {| e_raised := Some EInvalidTag; e_used := false; e_keys := false |}.
Proof.
  exists (fun _ _ => Some [9]), (fun _ _ _ => [5]), (fun _ _ _ => None), (fun _ _ _ => []), (fun _ => true), (fun _ _ _ => true), (fun _ _ => None).
  exists {| chk_error := true; chk_m4 := false |}, {| v_priv := [7]; v_pub := [4] |},
         {| ltpk := [3]; ltsk := [6]; atv_id := [65]; client_id := [67] |},
         (write_tlv [(T_PublicKey, [1; 2]); (T_EncryptedData, [43])]), [].
  vm_compute. reflexivity.
Qed.
Print Assumptions C06_stream_v1_unmapped_wrong_exception_refuted.

(* ---------------------------------------------------------------- (3e) the whole connect *)

(* pyatv.connect() over any number of queued protocols: it returns a device iff every protocol's
   connect returned; if the verification of ANY protocol - at any position in the set-up order -
   is refused (no transport fault), connect() raises, and when the protocols before it connected
   it raises exactly AuthenticationError; that protocol has no keys. *)
Theorem C06_connect_fails_if_any_verification_fails :
  forall x25519 hkdf dec enc pk_load sig_ok sign pre post k p h c pd pd4,
  let r := connect x25519 hkdf dec enc pk_load sig_ok sign k p h c None pd None pd4 in
  (facade_connect (pre ++ r :: post) = None <-> Forall (fun x => raised x = None) (pre ++ r :: post)) /\
  ((forall reply, verify_credentials x25519 hkdf dec enc pk_load sig_ok sign k p h c None pd None pd4 <> Accept reply) ->
   keys r = false /\
   facade_connect (pre ++ r :: post) <> None /\
   (Forall (fun x => raised x = None) pre -> facade_connect (pre ++ r :: post) = Some EAuthentication)).
Proof.
  intros. split; [apply facade_none|]. intro H.
  destruct (C06_any_other_reply_is_authentication_error _ _ _ _ _ _ _ _ _ _ _ _ _ H) as [R K]. fold r in R, K.
  split; [exact K|]. split.
  - intro N. apply facade_none in N. apply Forall_app in N as [_ N]. inversion N as [|? ? N1 _]; subst. congruence.
  - intro Hp. now apply facade_first.
Qed.
Print Assumptions C06_connect_fails_if_any_verification_fails.

(* The RAOP service embedded in an AirPlay 2 service verifies with the AirPlay service's stored
   credentials: stored HAP credentials there => HAP Pair-Verify for them, whatever is announced. *)
Theorem C06_embedded_raop_uses_airplay_credentials :
  forall c a, auth_type c = Some KHAP ->
  extract_credentials (embedded_raop_credentials (Some c)) a = SelCreds c /\
  selected_procedure (embedded_raop_credentials (Some c)) a = Some PHap.
Proof. intros c a K. exact (C06_stored_credentials_select_procedure c KHAP K a). Qed.
Print Assumptions C06_embedded_raop_uses_airplay_credentials.

(* Exception mapping, every class: MRP and Companion (error_handler) give AuthenticationError
   except OSError/timeout -> ConnectionFailedError and BackOffError / NoCredentialsError /
   cancellation unchanged; AirPlay (verify_connection) gives AuthenticationError except
   ProtocolError / OSError / timeout / cancellation unchanged.  With a transport fault the class
   is that of the fault unless the reply had already been refused. *)
Theorem C06_error_mapping :
  forall e,
  (surface MRP e = surface Companion e) /\
  (surface MRP e = EAuthentication \/
   ((e = EOSError \/ e = ETimeout) /\ surface MRP e = EConnectionFailed) \/
   ((e = EBackOff \/ e = ENoCredentials \/ e = ECancelled) /\ surface MRP e = e)) /\
  (surface AirPlay e = EAuthentication \/
   ((e = EProtocol \/ e = EOSError \/ e = ETimeout \/ e = ECancelled) /\ surface AirPlay e = e)).
Proof. intro e. split; [reflexivity|]. split; [apply error_handler_cases|apply airplay_map_cases]. Qed.
Print Assumptions C06_error_mapping.

Theorem C06_fault_or_reply_error :
  forall x25519 hkdf dec enc pk_load sig_ok sign k p h c f1 pd f3 pd4 e,
  raised (connect x25519 hkdf dec enc pk_load sig_ok sign k p h c f1 pd f3 pd4) = Some e ->
  keys (connect x25519 hkdf dec enc pk_load sig_ok sign k p h c f1 pd f3 pd4) = false /\
  (e = EAuthentication \/ exists f, (f1 = Some f \/ f3 = Some f) /\ e = surface p f).
Proof.
  intros until e. unfold connect.
  destruct (verify_credentials x25519 hkdf dec enc pk_load sig_ok sign k p h c f1 pd f3 pd4) as [r|e0] eqn:E; cbn; [discriminate|].
  intro H. inversion H; subst e. split; [reflexivity|].
  apply verify_credentials_fault in E as [E|[E|[_ E]]].
  - right. exists e0. auto.
  - right. exists e0. auto.
  - left. apply surface_reply_error. exact (verify_credentials_raise_class _ _ _ _ _ _ _ _ _ _ _ _ _ _ E).
Qed.
Print Assumptions C06_fault_or_reply_error.

(* The two mappings as the translator read them off the source this run (Gen.v) are the ones of
   the model - for every exception class. *)
Theorem C06_generated_clauses_are_the_model :
  forall e,
  interp clauses_error_handler EAuthentication e = error_handler e /\
  interp clauses_verify_connection EAuthentication e = airplay_map e.
Proof.
  assert (H: forallb (fun e => exn_beq (interp clauses_error_handler EAuthentication e) (error_handler e)
                            && exn_beq (interp clauses_verify_connection EAuthentication e) (airplay_map e)) all_exn = true)
    by (vm_compute; reflexivity).
  intro e. rewrite forallb_forall in H. specialize (H e (all_exn_complete e)).
  apply andb_prop in H as [H1 H2]. split; apply internal_exn_dec_bl; assumption.
Qed.
Print Assumptions C06_generated_clauses_are_the_model.

(* ---------------------------------------------------------------- (4) keys only after verify *)
(* Skeletons regenerated from the AST.  Write 0 = verify_credentials() returned normally,
   Write 1 = enable_encryption(...) returned / send_processor assigned, Write 2 = verify1(...)
   returned normally (procedure inlined), Write 3 = receive_processor assigned.  [exec] ranges
   over every placement of an exception at any call and a cancellation at any await, and every
   resolution of the unmodelled conditions. *)
Definition has_keys (s : st) : bool := Skeleton.has 1 (written s) || Skeleton.has 3 (written s).
Definition P_keys_after_verify (o : Skeleton.outcome) (s : st) : bool :=
  P_requires 1%nat 0%nat o s && P_requires 3%nat 0%nat o s.
Definition P_keys_after_verify1 (_ : Skeleton.outcome) (s : st) : bool :=
  implb (has_keys s) (Skeleton.has 0 (written s) && Skeleton.has 2 (written s))
  && implb (Skeleton.has 0 (written s)) (Skeleton.has 2 (written s)).
Definition P_failure_no_keys (o : Skeleton.outcome) (s : st) : bool :=
  match o with Exn | Cancel => negb (has_keys s) | _ => true end.

Definition all_skeletons : list cmd :=
  [sk_mrp_start; sk_mrp_enable_encryption; sk_companion_start; sk_companion_setup_encryption;
   sk_airplay_verify_connection; sk_airplay_verify_connection_hap].
Definition inlined_skeletons : list cmd :=
  [sk_mrp_start; sk_mrp_enable_encryption; sk_companion_start; sk_companion_setup_encryption;
   sk_airplay_verify_connection_hap].
(* functions in which nothing follows the installation of the keys *)
Definition setup_skeletons : list cmd :=
  [sk_mrp_enable_encryption; sk_companion_start; sk_companion_setup_encryption;
   sk_airplay_verify_connection; sk_airplay_verify_connection_hap].


(* On EVERY execution of MrpProtocol.start, CompanionProtocol.start, verify_connection (and of
   _enable_encryption / _setup_encryption alone): keys installed => verify_credentials() had
   returned normally before (P_requires of Common/Skeleton.v, for both key effects); equivalently,
   every execution on which the verification did not return normally ends without keys. *)
Theorem C06_keys_only_after_verify :
  forall c, In c all_skeletons ->
  forall o s', exec c s_init o s' ->
  (has_keys s' = true -> Skeleton.has 0 (written s') = true) /\
  (Skeleton.has 0 (written s') = false -> has_keys s' = false).
Proof.
  intros c Hin o s' He.
  assert (H: forallb (fun c => match an 4 c [s_init] with Some r => check P_keys_after_verify r | None => false end) all_skeletons = true)
    by (vm_compute; reflexivity).
  pose proof (lift _ _ H c Hin o s' He) as P. unfold P_keys_after_verify, P_requires in P.
  apply andb_prop in P as [P1 P3]. unfold has_keys. revert P1 P3.
  destruct (Skeleton.has 1 (written s')), (Skeleton.has 3 (written s')), (Skeleton.has 0 (written s')); cbn; intros P1 P3; split; intro; congruence.
Qed.
Print Assumptions C06_keys_only_after_verify.

(* With the procedure's verify_credentials inlined: keys installed => verify1() had returned
   normally; and verify_credentials() returns normally only after verify1() did. *)
Theorem C06_keys_only_after_verify1 :
  forall c, In c inlined_skeletons ->
  forall o s', exec c s_init o s' ->
  (has_keys s' = true -> Skeleton.has 0 (written s') = true /\ Skeleton.has 2 (written s') = true) /\
  (Skeleton.has 0 (written s') = true -> Skeleton.has 2 (written s') = true).
Proof.
  intros c Hin o s' He.
  assert (H: forallb (fun c => match an 4 c [s_init] with Some r => check P_keys_after_verify1 r | None => false end) inlined_skeletons = true)
    by (vm_compute; reflexivity).
  pose proof (lift _ _ H c Hin o s' He) as P. unfold P_keys_after_verify1 in P.
  apply andb_prop in P as [P1 P2]. split.
  - intro Hk. rewrite Hk in P1. cbn in P1. now apply andb_prop in P1.
  - intro Hv. now rewrite Hv in P2.
Qed.
Print Assumptions C06_keys_only_after_verify1.

(* Every failing or cancelled execution of the set-up functions leaves the connection without
   keys (MrpProtocol.start as a whole is excluded: it goes on talking to the device after
   encryption is on, and a failure there is not a verification failure). *)
Theorem C06_failed_setup_leaves_no_keys :
  forall c, In c setup_skeletons ->
  forall o s', exec c s_init o s' -> (o = Exn \/ o = Cancel) -> has_keys s' = false.
Proof.
  intros c Hin o s' He Ho.
  assert (H: forallb (fun c => match an 4 c [s_init] with Some r => check P_failure_no_keys r | None => false end) setup_skeletons = true)
    by (vm_compute; reflexivity).
  pose proof (lift _ _ H c Hin o s' He) as P. unfold P_failure_no_keys in P.
  destruct Ho as [-> | ->]; now apply negb_true_iff in P.
Qed.
Print Assumptions C06_failed_setup_leaves_no_keys.

(* ---------------------------------------------------------------- non-vacuity *)
(* every skeleton does install keys on some normally completed execution *)
Example C06_ex_skeletons_install_keys :
  forallb (fun c => match an 4 c [s_init] with
                    | Some r => existsb has_keys (rN r ++ rR r) && negb (match rE r with [] => true | _ => false end)
                    | None => false end) all_skeletons = true.
Proof. vm_compute; reflexivity. Qed.

(* the accept condition is satisfiable: oracles under which a concrete reply is accepted and a
   reply with another identifier / a failing signature is refused with AuthenticationError *)
Definition ex_tables (good : bool) : tables :=
  {| t_x := [([[7]; [1; 2]], Some [9])];
     t_hkdf := [([salt_pv; info_pv; [9]], [5; 5])];
     t_dec := [([[5; 5]; nonce_m2; [42]], Some (write_tlv [(T_Identifier, [65; 66]); (T_Signature, [1; 1; 1])]))];
     t_enc := [([[5; 5]; nonce_m3; write_tlv [(T_Identifier, [67]); (T_Signature, [8; 8])]], [77; 77; 77])];
     t_pk := [([[3; 3]], true)];
     t_sig := [([[3; 3]; [1; 2] ++ [65; 66] ++ [4; 4]; [1; 1; 1]], good)];
     t_sign := [([[6]; [4; 4] ++ [67] ++ [1; 2]], Some [8; 8])] |}.
Definition ex_h := {| v_priv := [7]; v_pub := [4; 4] |}.
Definition ex_c (id : bytes) := {| ltpk := [3; 3]; ltsk := [6]; atv_id := id; client_id := [67] |}.
Definition ex_pd := write_tlv [(T_SeqNo, [2]); (T_PublicKey, [1; 2]); (T_EncryptedData, [42])].

Definition ex_m4 := write_tlv [(T_SeqNo, [4])].

Example C06_ex_accept :
  forall p, t_connect (ex_tables true) (cfg p) p ex_h (ex_c [65; 66]) None ex_pd None ex_m4 = {| raised := None; keys := true |}
         /\ t_verify_credentials (ex_tables true) (cfg p) p ex_h (ex_c [65; 66]) None ex_pd None ex_m4 = Accept [77; 77; 77].
Proof. intros []; split; vm_compute; reflexivity. Qed.
Example C06_ex_wrong_identifier :
  forall p, t_connect (ex_tables true) (cfg p) p ex_h (ex_c [65; 67]) None ex_pd None ex_m4 = {| raised := Some EAuthentication; keys := false |}.
Proof. intros []; vm_compute; reflexivity. Qed.
Example C06_ex_bad_signature :
  forall p, t_connect (ex_tables false) (cfg p) p ex_h (ex_c [65; 66]) None ex_pd None ex_m4 = {| raised := Some EAuthentication; keys := false |}.
Proof. intros []; vm_compute; reflexivity. Qed.
Example C06_ex_flipped_ciphertext :
  forall p, t_verify_credentials (ex_tables true) (cfg p) p ex_h (ex_c [65; 66]) None
              (write_tlv [(T_SeqNo, [2]); (T_PublicKey, [1; 2]); (T_EncryptedData, [43])]) None ex_m4 = Raises EInvalidTag
         /\ t_connect (ex_tables true) (cfg p) p ex_h (ex_c [65; 66]) None
              (write_tlv [(T_SeqNo, [2]); (T_PublicKey, [1; 2]); (T_EncryptedData, [43])]) None ex_m4 = {| raised := Some EAuthentication; keys := false |}.
Proof. intros []; split; vm_compute; reflexivity. Qed.
