(* C06 - a device is trusted only if it proves the paired identity.

   Model of
     pyatv/auth/hap_srp.py            SRPAuthHandler.verify1
     pyatv/protocols/mrp/auth.py      MrpPairVerifyProcedure.verify_credentials, _get_pairing_data
     pyatv/protocols/companion/auth.py CompanionPairVerifyProcedure.verify_credentials, _get_pairing_data
     pyatv/protocols/airplay/auth/hap.py AirPlayHapPairVerifyProcedure.verify_credentials, _get_pairing_data
     pyatv/support/__init__.py        error_handler (fallback = AuthenticationError)
     pyatv/protocols/airplay/auth/__init__.py verify_connection (exception mapping, keys)
     pyatv/protocols/mrp/protocol.py  MrpProtocol.start/_enable_encryption   (keys after verify)
     pyatv/protocols/companion/protocol.py CompanionProtocol.start/_setup_encryption
   as the code stands (AirPlay mapping as repaired by ce803f2).  Two facts that differ between
   the three auth modules and have changed over time (does _get_pairing_data look for an Error
   item; is the answer to the last message looked at) are parameters [pcfg] of the model; their
   current values are read off the source by the translator on every run (Gen.cfg).

   Cryptography is NOT modelled: X25519, HKDF, ChaCha20-Poly1305 and Ed25519 are Section
   variables (oracles).  TLV8 is the real model of C04 (read_tlv / write_tlv).
   No proofs in this file. *)
From Coq Require Import NArith List Bool.
From PV Require Import Common.Cases C04.TlvModel.
Import ListNotations.
Local Open Scope N_scope.

Definition bytes := list N.

(* Python exception classes that can travel through the verification (an instance of a
   subclass counts as its listed base: HttpError as EProtocol, ConnectionResetError as EOSError,
   RecursionError/TypeError/... as EOther) *)
Inductive exn :=
| EAuthentication | EProtocol | EConnectionFailed | EBackOff | ENoCredentials
| EInvalidResponse | EInvalidState
| EOSError | ETimeout                    (* asyncio.TimeoutError *)
| EValueError | EKeyError | EIndexError
| EInvalidTag                            (* cryptography.exceptions.InvalidTag *)
| EOther                                 (* any other subclass of Exception *)
| ECancelled.                            (* asyncio.CancelledError: BaseException *)

Inductive outcome := Accept (reply : bytes) | Raises (e : exn).

Definition exn_beq_cancel (e : exn) : bool := match e with ECancelled => true | _ => false end.

(* dict lookup on a parsed TLV (read_tlv keeps one entry per tag) *)
Definition get (tag : N) (t : tlv) : option bytes :=
  match find (fun kv => fst kv =? tag) t with
  | Some kv => Some (snd kv)
  | None => None
  end.
Definition has_tag (tag : N) (t : tlv) : bool :=
  match get tag t with Some _ => true | None => false end.

(* TlvValue *)
Definition T_Identifier : N := 1.
Definition T_PublicKey : N := 3.
Definition T_EncryptedData : N := 5.
Definition T_SeqNo : N := 6.
Definition T_Error : N := 7.
Definition T_Signature : N := 10.

(* "Pair-Verify-Encrypt-Salt", "Pair-Verify-Encrypt-Info" *)
Definition salt_pv : bytes :=
  [80; 97; 105; 114; 45; 86; 101; 114; 105; 102; 121; 45; 69; 110; 99; 114; 121; 112; 116; 45; 83; 97; 108; 116].
Definition info_pv : bytes :=
  [80; 97; 105; 114; 45; 86; 101; 114; 105; 102; 121; 45; 69; 110; 99; 114; 121; 112; 116; 45; 73; 110; 102; 111].
(* nonce="PV-Msg02"/"PV-Msg03", left-padded to 12 bytes by Chacha20Cipher._pad_nonce *)
Definition nonce_m2 : bytes := [0; 0; 0; 0; 80; 86; 45; 77; 115; 103; 48; 50].
Definition nonce_m3 : bytes := [0; 0; 0; 0; 80; 86; 45; 77; 115; 103; 48; 51].

(* HapCredentials *)
Record creds := { ltpk : bytes; ltsk : bytes; atv_id : bytes; client_id : bytes }.
(* what SRPAuthHandler.initialize() left behind: _verify_private (only ever handed to X25519)
   and _public_bytes *)
Record handler := { v_priv : bytes; v_pub : bytes }.

Inductive proto := MRP | Companion | AirPlay.

(* Two facts about each protocol's auth module that differ between the modules and over time;
   the translator reads them off the source on every run (coq/C06/Gen.v, [cfg]) and every theorem
   is proved for BOTH values of each:
     chk_error  _get_pairing_data raises AuthenticationError when the TLV has an Error item
     chk_m4     verify_credentials passes the answer to its LAST message through
                _get_pairing_data as well (otherwise that answer is ignored) *)
Record pcfg := { chk_error : bool; chk_m4 : bool }.

Section Verify.
  (* X25519PublicKey.from_public_bytes(peer) then own.exchange(..): None = ValueError
     (wrong length, or all-zero shared secret) *)
  Variable x25519 : bytes -> bytes -> option bytes.
  (* hkdf_expand salt info secret *)
  Variable hkdf : bytes -> bytes -> bytes -> bytes.
  (* ChaCha20Poly1305(key).decrypt(nonce, data, None): None = InvalidTag *)
  Variable dec : bytes -> bytes -> bytes -> option bytes.
  Variable enc : bytes -> bytes -> bytes -> bytes.
  (* Ed25519PublicKey.from_public_bytes succeeds (else ValueError) *)
  Variable pk_load : bytes -> bool.
  (* Ed25519 verify: pk msg sig; false = InvalidSignature *)
  Variable sig_ok : bytes -> bytes -> bytes -> bool.
  (* Ed25519PrivateKey.from_private_bytes(sk).sign(msg): None = ValueError (bad key length) *)
  Variable sign : bytes -> bytes -> option bytes.

  (* SRPAuthHandler.verify1(credentials, session_pub_key, encrypted) - statement order kept *)
  Definition verify1 (h : handler) (c : creds) (spub encd : bytes) : outcome :=
    match x25519 (v_priv h) spub with
    | None => Raises EValueError
    | Some shared =>
      let key := hkdf salt_pv info_pv shared in
      match dec key nonce_m2 encd with
      | None => Raises EInvalidTag
      | Some pt =>
        match read_tlv pt with
        | TIndexError => Raises EIndexError
        | TOutOfFuel => Raises EOther            (* never: TlvProofs.read_tlv_terminates *)
        | TOk t =>
          match get T_Identifier t with
          | None => Raises EKeyError
          | Some ident =>
            match get T_Signature t with
            | None => Raises EKeyError
            | Some sg =>
              if negb (bytes_beq ident (atv_id c)) then Raises EAuthentication   (* "incorrect device response" *)
              else if negb (pk_load (ltpk c)) then Raises EValueError
              else if negb (sig_ok (ltpk c) (spub ++ ident ++ v_pub h) sg)
                   then Raises EAuthentication                                    (* "signature error" *)
              else match sign (ltsk c) (v_pub h ++ client_id c ++ spub) with
                   | None => Raises EValueError
                   | Some dsig =>
                     Accept (enc key nonce_m3
                               (write_tlv [(T_Identifier, client_id c); (T_Signature, dsig)]))
                   end
            end
          end
        end
      end
    end.

  (* _get_pairing_data of the three auth modules, applied to the pairing-data bytes of an
     answer.  Companion: `if not pairing_data` comes first. *)
  Definition pairing_data (k : pcfg) (p : proto) (pd : bytes) : tlv + exn :=
    match p, pd with
    | Companion, [] => inr EAuthentication
    | _, _ =>
      match read_tlv pd with
      | TIndexError => inr EIndexError
      | TOutOfFuel => inr EOther
      | TOk t => if chk_error k && has_tag T_Error t then inr EAuthentication else inl t
      end
    end.

  (* verify_credentials(): f1 / f3 = what the transport does to the first / second exchange
     (None: an answer arrives; Some e: send_and_receive / exchange_auth / http.post raises e);
     pd / pd4 = pairing data of the answers to the first / last message. *)
  Definition verify_credentials (k : pcfg) (p : proto) (h : handler) (c : creds)
             (f1 : option exn) (pd : bytes) (f3 : option exn) (pd4 : bytes) : outcome :=
    match f1 with
    | Some e => Raises e
    | None =>
      match pairing_data k p pd with
      | inr e => Raises e
      | inl t =>
        match get T_PublicKey t with
        | None => Raises EKeyError
        | Some spub =>
          match get T_EncryptedData t with
          | None => Raises EKeyError
          | Some encd =>
            match verify1 h c spub encd with
            | Raises e => Raises e
            | Accept reply =>
              match f3 with
              | Some e => Raises e
              | None =>
                if chk_m4 k
                then match pairing_data k p pd4 with
                     | inr e => Raises e
                     | inl _ => Accept reply
                     end
                else Accept reply
              end
            end
          end
        end
      end
    end.

  (* the encrypted data of the third message, if one is sent *)
  Definition m3_sent (k : pcfg) (p : proto) (h : handler) (c : creds) (f1 : option exn) (pd : bytes) : option bytes :=
    match verify_credentials {| chk_error := chk_error k; chk_m4 := false |} p h c f1 pd None [] with
    | Accept reply => Some reply
    | Raises _ => None
    end.
End Verify.

(* pyatv/support/__init__.py error_handler(func, fallback) with fallback = AuthenticationError,
   as used by MrpProtocol.start and CompanionProtocol.start *)
Definition error_handler (e : exn) : exn :=
  match e with
  | EOSError | ETimeout => EConnectionFailed
  | EBackOff | ENoCredentials => e
  | ECancelled => ECancelled               (* not an Exception: no clause catches it *)
  | _ => EAuthentication
  end.

(* the try/except of verify_connection (pyatv/protocols/airplay/auth/__init__.py) *)
Definition airplay_map (e : exn) : exn :=
  match e with
  | EAuthentication | EProtocol | EOSError | ETimeout => e
  | ECancelled => ECancelled
  | _ => EAuthentication
  end.

Definition surface (p : proto) (e : exn) : exn :=
  match p with
  | AirPlay => airplay_map e
  | _ => error_handler e
  end.

(* The same two mappings as DATA: the except-clauses as they are read off the source by the
   translator (coq/C06/Gen.v, regenerated on every run), interpreted with Python's rules: the
   first clause naming a class the exception is an instance of handles it; no clause: it
   propagates unchanged. *)
Inductive cls :=
| CBaseException | CException | CCancelledError | COSError | CTimeoutError
| CAuthenticationError | CProtocolError | CConnectionFailedError | CBackOffError
| CNoCredentialsError | CInvalidResponseError | CInvalidStateError
| CValueError | CKeyError | CIndexError | CInvalidTag.

(* isinstance(e, c) for the class families of [exn]; asyncio.TimeoutError is the builtin
   TimeoutError, a subclass of OSError (Python >= 3.11) *)
Definition is_a (e : exn) (c : cls) : bool :=
  match c with
  | CBaseException => true
  | CException => negb (exn_beq_cancel e)
  | CCancelledError => exn_beq_cancel e
  | COSError => match e with EOSError | ETimeout => true | _ => false end
  | CTimeoutError => match e with ETimeout => true | _ => false end
  | CAuthenticationError => match e with EAuthentication => true | _ => false end
  | CProtocolError => match e with EProtocol => true | _ => false end
  | CConnectionFailedError => match e with EConnectionFailed => true | _ => false end
  | CBackOffError => match e with EBackOff => true | _ => false end
  | CNoCredentialsError => match e with ENoCredentials => true | _ => false end
  | CInvalidResponseError => match e with EInvalidResponse => true | _ => false end
  | CInvalidStateError => match e with EInvalidState => true | _ => false end
  | CValueError => match e with EValueError => true | _ => false end
  | CKeyError => match e with EKeyError => true | _ => false end
  | CIndexError => match e with EIndexError => true | _ => false end
  | CInvalidTag => match e with EInvalidTag => true | _ => false end
  end.

Inductive action := Reraise | RaiseCls (e : exn) | RaiseFallback.
Definition clause := (list cls * action)%type.

Fixpoint interp (cl : list clause) (fallback : exn) (e : exn) : exn :=
  match cl with
  | [] => e
  | (cs, a) :: rest =>
    if existsb (is_a e) cs
    then match a with Reraise => e | RaiseCls x => x | RaiseFallback => fallback end
    else interp rest fallback e
  end.

(* ------------------------------------------------------------------ which procedure runs *)
(* The glue in front of the verification (AirPlay/RAOP): extract_credentials(service) picks the
   credentials, pair_verify(credentials, connection) picks the procedure from their type.
   pyatv/auth/hap_pairing.py HapCredentials._get_auth_type; pyatv/protocols/airplay/auth/__init__.py
   extract_credentials, pair_verify.  The service's Zeroconf properties are unauthenticated data
   announced by whoever answers on the network. *)
Inductive ckind := KNull | KLegacy | KHAP | KTransient.
Inductive procedure := PNull | PLegacy | PHap | PTransient.

Definition transient_marker : bytes := [116; 114; 97; 110; 115; 105; 101; 110; 116].   (* b"transient" *)
Definition is_empty (b : bytes) : bool := match b with [] => true | _ => false end.

(* None: InvalidCredentialsError("invalid credentials type") *)
Definition auth_type (c : creds) : option ckind :=
  if is_empty (ltpk c) && is_empty (ltsk c) && is_empty (atv_id c) && is_empty (client_id c) then Some KNull
  else if bytes_beq (ltpk c) transient_marker then Some KTransient
  else if is_empty (ltpk c) && negb (is_empty (ltsk c)) && is_empty (atv_id c) && negb (is_empty (client_id c)) then Some KLegacy
  else if negb (is_empty (ltpk c)) && negb (is_empty (ltsk c)) && negb (is_empty (atv_id c)) && negb (is_empty (client_id c)) then Some KHAP
  else None.

(* pair_verify: Null -> NullPairVerifyProcedure, Legacy -> AirPlayLegacyPairVerifyProcedure,
   HAP -> AirPlayHapPairVerifyProcedure, anything else -> AirPlayHapTransientPairVerifyProcedure *)
Definition proc_of (k : ckind) : procedure :=
  match k with KNull => PNull | KLegacy => PLegacy | KHAP => PHap | KTransient => PTransient end.

(* an announced feature string: absent, not matching parse_features' pattern, or a flag word *)
Inductive fval := FAbsent | FGarbage | FFlags (n : N).
(* the announced properties extract_credentials may look at ("model" and everything else is
   carried by the cases but is not an input of the model: the code as it stands ignores them) *)
Record announce := { a_features : fval; a_ft : fval }.

(* parse_features(properties.get("features", properties.get("ft", "0x0"))): None = ValueError *)
Definition announced_flags (a : announce) : option N :=
  match a_features a with
  | FFlags n => Some n
  | FGarbage => None
  | FAbsent => match a_ft a with FFlags n => Some n | FGarbage => None | FAbsent => Some 0 end
  end.

(* SupportsSystemPairing = 1 << 43, SupportsCoreUtilsPairingAndEncryption = 1 << 48 *)
Definition supports_transient (n : N) : bool := N.testbit n 43 || N.testbit n 48.

Definition TRANSIENT_CREDENTIALS : creds := {| ltpk := transient_marker; ltsk := []; atv_id := []; client_id := [] |}.
Definition NO_CREDENTIALS : creds := {| ltpk := []; ltsk := []; atv_id := []; client_id := [] |}.

Inductive selres := SelCreds (c : creds) | SelRaises (e : exn).

(* stored = the parsed fields of service.credentials (None: no credentials stored); building the
   HapCredentials object raises InvalidCredentialsError (EOther) for an impossible combination *)
Definition extract_credentials (stored : option creds) (a : announce) : selres :=
  match stored with
  | Some c => match auth_type c with Some _ => SelCreds c | None => SelRaises EOther end
  | None =>
    match announced_flags a with
    | None => SelRaises EValueError
    | Some n => SelCreds (if supports_transient n then TRANSIENT_CREDENTIALS else NO_CREDENTIALS)
    end
  end.

Definition selected_procedure (stored : option creds) (a : announce) : option procedure :=
  match extract_credentials stored a with
  | SelCreds c => option_map proc_of (auth_type c)
  | SelRaises _ => None
  end.

(* start() / verify_connection(): what the caller sees and whether enable_encryption was called /
   send_processor+receive_processor were installed *)
Record conn := { raised : option exn; keys : bool }.

Section Connect.
  Variable x25519 : bytes -> bytes -> option bytes.
  Variable hkdf : bytes -> bytes -> bytes -> bytes.
  Variable dec : bytes -> bytes -> bytes -> option bytes.
  Variable enc : bytes -> bytes -> bytes -> bytes.
  Variable pk_load : bytes -> bool.
  Variable sig_ok : bytes -> bytes -> bytes -> bool.
  Variable sign : bytes -> bytes -> option bytes.

  Definition connect (k : pcfg) (p : proto) (h : handler) (c : creds)
             (f1 : option exn) (pd : bytes) (f3 : option exn) (pd4 : bytes) : conn :=
    match verify_credentials x25519 hkdf dec enc pk_load sig_ok sign k p h c f1 pd f3 pd4 with
    | Accept _ => {| raised := None; keys := true |}
    | Raises e => {| raised := Some (surface p e); keys := false |}
    end.

  (* verify_connection(extract_credentials(service), connection) as atvproxy, the AirPlay set-up
     and RAOP use it; [other] stands for whatever the non-HAP procedures do (transient pairing,
     legacy, none): they prove no stored identity and are outside this property *)
  Definition airplay_glue (stored : option creds) (a : announce) (other : procedure -> conn)
             (k : pcfg) (h : handler) (f1 : option exn) (pd : bytes) (f3 : option exn) (pd4 : bytes) : conn :=
    match extract_credentials stored a with
    | SelRaises e => {| raised := Some e; keys := false |}
    | SelCreds c =>
      match auth_type c with
      | Some KHAP => connect k AirPlay h c f1 pd f3 pd4
      | Some kd => other (proc_of kd)
      | None => {| raised := Some EOther; keys := false |}
      end
    end.

  (* ---- the stream entry points (pyatv/protocols/raop/protocols/airplayv1.py, airplayv2.py):
     AirPlayV1.setup / play_url run pair_verify(credentials, connection).verify_credentials()
     and then use the accessory (ANNOUNCE/SETUP or /play); AirPlayV2.setup / play_url go through
     verify_connection (exception mapping, keys).  [v1_mapped] / [v1_keys] (Gen.v, read off the
     source): the v1 entry points map the exceptions like verify_connection / install keys (both
     true when they call verify_connection themselves).  Credentials of type HAP. *)
  Inductive version := V1 | V2.
  Record entry := { e_raised : option exn; e_used : bool; e_keys : bool }.

  Definition stream_entry (v1_mapped v1_keys : bool) (v : version) (k : pcfg) (h : handler) (c : creds)
             (f1 : option exn) (pd : bytes) (f3 : option exn) (pd4 : bytes) : entry :=
    let mapped := match v with V2 => true | V1 => v1_mapped end in
    match verify_credentials x25519 hkdf dec enc pk_load sig_ok sign k AirPlay h c f1 pd f3 pd4 with
    | Accept _ => {| e_raised := None; e_used := true; e_keys := match v with V2 => true | V1 => v1_keys end |}
    | Raises e => {| e_raised := Some (if mapped then surface AirPlay e else e); e_used := false; e_keys := false |}
    end.

  (* ---- history: the credentials stored in the service may be replaced (device paired again)
     between the construction of a protocol object and its start()/connect, or between two
     connects of an object that can connect again.  MrpProtocol.start/_enable_encryption,
     CompanionProtocol.start/_setup_encryption, AirPlayStream.create_airplay_protocol and
     RaopStream.stream_file read service.credentials when they connect. *)
  Inductive event :=
  | SetCreds (c : option creds)                 (* service.credentials := ... (None: removed) *)
  | Connect (h : handler) (f1 : option exn) (pd : bytes) (f3 : option exn) (pd4 : bytes).

  (* connecting with what is stored NOW; nothing stored: no verification, no keys *)
  Definition connect_stored (k : pcfg) (p : proto) (cur : option creds) h f1 pd f3 pd4 : conn :=
    match cur with
    | None => {| raised := None; keys := false |}
    | Some c => connect k p h c f1 pd f3 pd4
    end.

  (* the results of the connects of one object, in order; [cur] = stored when it was created *)
  Fixpoint run_history (k : pcfg) (p : proto) (cur : option creds) (evs : list event) : list conn :=
    match evs with
    | [] => []
    | SetCreds c :: r => run_history k p c r
    | Connect h f1 pd f3 pd4 :: r => connect_stored k p cur h f1 pd f3 pd4 :: run_history k p cur r
    end.
End Connect.

(* ------------------------------------------------------------------ the whole connect *)
(* pyatv.connect() / FacadeAppleTV.connect (pyatv/core/facade.py): the connect functions of the
   queued protocols run in set-up order; the first one that raises ends connect() with that
   exception (pyatv.connect then closes what was connected and re-raises: no device object).
   [rs] = what each protocol's connect would do, in set-up order. *)
Fixpoint facade_connect (rs : list conn) : option exn :=
  match rs with
  | [] => None
  | r :: t => match raised r with Some e => Some e | None => facade_connect t end
  end.

(* pyatv/protocols/airplay/__init__.py setup(): the RAOP service synthesised for a device with
   HasUnifiedAdvertiserInfo and no RAOP service of its own carries the AirPlay service's stored
   credentials (and password) *)
Definition embedded_raop_credentials (airplay_stored : option creds) : option creds := airplay_stored.

(* ------------------------------------------------------------------ correspondence cases *)
(* The oracles are instantiated by finite tables holding what the harness computed itself with
   the `cryptography` package for this case; a query that is not in a table gets the rejecting
   answer. *)
Fixpoint assoc {V} (k : list bytes) (l : list (list bytes * V)) (d : V) : V :=
  match l with
  | [] => d
  | (k', v) :: r => if list_beq bytes_beq k k' then v else assoc k r d
  end.

Record tables := {
  t_x : list (list bytes * option bytes);      (* [priv; peer]          -> shared *)
  t_hkdf : list (list bytes * bytes);          (* [salt; info; secret]  -> key *)
  t_dec : list (list bytes * option bytes);    (* [key; nonce; ct]      -> plaintext *)
  t_enc : list (list bytes * bytes);           (* [key; nonce; pt]      -> ciphertext *)
  t_pk : list (list bytes * bool);             (* [pk]                  -> loads *)
  t_sig : list (list bytes * bool);            (* [pk; msg; sig]        -> verifies *)
  t_sign : list (list bytes * option bytes) }. (* [sk; msg]             -> signature *)

Definition o_x T a b := assoc [a; b] (t_x T) None.
Definition o_hkdf T a b c := assoc [a; b; c] (t_hkdf T) [].
Definition o_dec T a b c := assoc [a; b; c] (t_dec T) None.
Definition o_enc T a b c := assoc [a; b; c] (t_enc T) [].
Definition o_pk T a := assoc [a] (t_pk T) false.
Definition o_sig T a b c := assoc [a; b; c] (t_sig T) false.
Definition o_sign T a b := assoc [a; b] (t_sign T) None.

Definition t_verify1 T := verify1 (o_x T) (o_hkdf T) (o_dec T) (o_enc T) (o_pk T) (o_sig T) (o_sign T).
Definition t_verify_credentials T :=
  verify_credentials (o_x T) (o_hkdf T) (o_dec T) (o_enc T) (o_pk T) (o_sig T) (o_sign T).
Definition creds_after (init : option creds) (evs : list event) : option creds :=
  fold_left (fun cur e => match e with SetCreds c => c | Connect _ _ _ _ _ => cur end) evs init.
Definition connects_in (evs : list event) : nat :=
  length (filter (fun e => match e with Connect _ _ _ _ _ => true | SetCreds _ => false end) evs).

Definition t_connect T := connect (o_x T) (o_hkdf T) (o_dec T) (o_enc T) (o_pk T) (o_sig T) (o_sign T).

Scheme Equality for exn.
Definition outcome_beq (a b : outcome) : bool :=
  match a, b with
  | Accept x, Accept y => bytes_beq x y
  | Raises x, Raises y => exn_beq x y
  | _, _ => false
  end.

(* observation of one protocol run: what verify_credentials raised (None: it returned True),
   the EncryptedData of the third message if one was sent, and - when the run went through
   start()/verify_connection() - what that raised and whether keys were installed *)
Definition pobs := (proto * option exn * option bytes * option (option exn * bool))%type.

Definition raised_of (o : outcome) : option exn :=
  match o with Accept _ => None | Raises e => Some e end.

Definition check_pobs (cfg : proto -> pcfg) T h c f1 pd f3 pd4 (o : pobs) : bool :=
  let '(p, raw, m3, top) := o in
  opt_beq exn_beq (raised_of (t_verify_credentials T (cfg p) p h c f1 pd f3 pd4)) raw
  && opt_beq bytes_beq (m3_sent (o_x T) (o_hkdf T) (o_dec T) (o_enc T) (o_pk T) (o_sig T) (o_sign T) (cfg p) p h c f1 pd) m3
  && match top with
     | None => true
     | Some (surf, k) =>
       opt_beq exn_beq (raised (t_connect T (cfg p) p h c f1 pd f3 pd4)) surf
       && Bool.eqb (keys (t_connect T (cfg p) p h c f1 pd f3 pd4)) k
     end.

(* one case: handler, credentials, tables, transport faults, pairing data of the two answers, the
   observation of a direct verify1 call on the two fields (when the harness found both), and
   the observations of the protocol runs.  [cfg] comes from Gen.v. *)
Definition pcase := (handler * creds * tables * option exn * bytes * option exn * bytes * option outcome * list pobs)%type.

Definition check_v1 T h c (pd : bytes) (v : option outcome) : bool :=
  match v with
  | None => true
  | Some o =>
    match read_tlv pd with
    | TOk t =>
      match get T_PublicKey t, get T_EncryptedData t with
      | Some spub, Some encd => outcome_beq (t_verify1 T h c spub encd) o
      | _, _ => false
      end
    | _ => false
    end
  end.

Definition check_case (cfg : proto -> pcfg) (x : pcase) : bool :=
  let '(h, c, T, f1, pd, f3, pd4, v, obs) := x in
  check_v1 T h c pd v && forallb (check_pobs cfg T h c f1 pd f3 pd4) obs.

(* ---- selection cases: (stored fields, announcement, what extract_credentials returned/raised,
   which procedure class pair_verify built) *)
Definition creds_beq (a b : creds) : bool :=
  bytes_beq (ltpk a) (ltpk b) && bytes_beq (ltsk a) (ltsk b) && bytes_beq (atv_id a) (atv_id b) && bytes_beq (client_id a) (client_id b).
Definition selres_beq (a b : selres) : bool :=
  match a, b with
  | SelCreds x, SelCreds y => creds_beq x y
  | SelRaises x, SelRaises y => exn_beq x y
  | _, _ => false
  end.
Scheme Equality for procedure.
Definition scase := (option creds * announce * selres * option procedure)%type.
Definition check_sel (x : scase) : bool :=
  let '(stored, a, r, p) := x in
  selres_beq (extract_credentials stored a) r && opt_beq procedure_beq (selected_procedure stored a) p.

(* ---- stream entry cases: observation = (version, what verify_credentials raised, third message,
   what the entry point raised BEFORE using the accessory (None: it went on to use it), whether
   further requests were sent, whether keys were installed) *)
Scheme Equality for version.
Definition stobs := (version * option exn * option bytes * option exn * bool * bool)%type.
Definition stcase := (handler * creds * tables * bytes * bytes * list stobs)%type.
Definition t_stream T := stream_entry (o_x T) (o_hkdf T) (o_dec T) (o_enc T) (o_pk T) (o_sig T) (o_sign T).
Definition check_stobs (v1m v1k : bool) (cfg : proto -> pcfg) T h c pd pd4 (o : stobs) : bool :=
  let '(v, raw, m3, surf, used, k) := o in
  let r := t_stream T v1m v1k v (cfg AirPlay) h c None pd None pd4 in
  opt_beq exn_beq (raised_of (t_verify_credentials T (cfg AirPlay) AirPlay h c None pd None pd4)) raw
  && opt_beq bytes_beq (m3_sent (o_x T) (o_hkdf T) (o_dec T) (o_enc T) (o_pk T) (o_sig T) (o_sign T) (cfg AirPlay) AirPlay h c None pd) m3
  && opt_beq exn_beq (e_raised r) surf && Bool.eqb (e_used r) used && Bool.eqb (e_keys r) k.
Definition check_stream (v1m v1k : bool) (cfg : proto -> pcfg) (x : stcase) : bool :=
  let '(h, c, T, pd, pd4, obs) := x in forallb (check_stobs v1m v1k cfg T h c pd pd4) obs.

(* ---- whole-connect cases: what each queued protocol's connect raised (None: returned), in
   set-up order up to and including the last one that ran, and what pyatv.connect() raised *)
Definition fcase := (list (option exn) * option exn)%type.
Definition check_facade (x : fcase) : bool :=
  let '(rs, overall) := x in
  opt_beq exn_beq (facade_connect (map (fun r => {| raised := r; keys := match r with None => true | Some _ => false end |}) rs)) overall.
