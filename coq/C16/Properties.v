(* C16 - property theorems only.  Each is closed by `exact`/a few lines; Print Assumptions follows.

   Vocabulary (Spec.v): [file_stream c seq0 src sched] runs the model of
   StreamClient._stream_data on a FileSource holding the sample bytes [src], under the
   schedule [sched] (per lap: was stop() called, value of frames_behind -> 0..3 compensation
   packets); its result is the final state ([s_out] = datagrams handed to the audio
   transport, oldest first; [s_backlog] = the PacketFifo) and the way the loop ended.
   [wf_cfg] = what StreamContext.reset()/RtspSession guarantee; [ts_fit] = all RTP
   timestamps below 2^32; [Nat.even (length src)] = the sample buffer has an even number of
   bytes (always true unless channels*bytes_per_sample and the frame count are both odd -
   see C16_odd_length_refuted). *)
From Coq Require Import List Arith Bool NArith ZArith Lia.
From PV Require Import Common.Cases C16.Model C16.Spec C16.ProofsA C16.ProofsB C16.ProofsC C16.ProofsD C16.ProofsE C16.Long.
Import ListNotations.
Local Open Scope nat_scope.

(* Completeness and order: for EVERY source length, frame size, latency, start sequence number
   and every schedule that lets the loop run to its end, the payloads of the datagrams,
   concatenated, are exactly the source (16-bit byte-swapped as _to_audio_samples does), the
   zero padding that completes the last packet, and ceil(latency/352) packets of silence;
   nothing is sent twice, nothing is missing, nothing else is sent. *)
Theorem C16_payload_conserved : forall c seq0 src sched,
  wf_cfg c seq0 -> Nat.even (length src) = true -> ts_fit c (all_packets c src) ->
  no_stop sched -> all_packets c src < length sched ->
  snd (file_stream c seq0 src sched) = Finished /\
  length (s_out (fst (file_stream c seq0 src sched))) = all_packets c src /\
  concat (map payload_of (s_out (fst (file_stream c seq0 src sched))))
  = swap16 src ++ zeros ((packet_size c - length src mod packet_size c) mod packet_size c)
    ++ zeros (packet_size c * silence_packets c).
Proof. exact file_payload_conserved. Qed.
Print Assumptions C16_payload_conserved.

(* Header of the i-th datagram, for EVERY schedule (also when stop() ends the stream early):
   version byte, first-packet marker on datagram 0 only, sequence number (seq0+i) mod 2^16,
   timestamp latency+352*i, session id, and the full packet size. *)
Theorem C16_header_fields : forall c seq0 src sched i,
  wf_cfg c seq0 -> Nat.even (length src) = true -> ts_fit c (all_packets c src) ->
  i < length (s_out (fst (file_stream c seq0 src sched))) ->
  let d := nth i (s_out (fst (file_stream c seq0 src sched))) [] in
  nthb d 0 = 128%N /\
  nthb d 1 = (if i =? 0 then 224%N else 96%N) /\
  seq_of_dgram d = ((seq0 + N.of_nat i) mod SEQMOD)%N /\
  ts_of d = (c_latency c + 352 * N.of_nat i)%N /\
  ssrc_of d = c_ssrc c /\
  length d = 12 + packet_size c.
Proof. intros c seq0 src sched i Hwf He Hts. exact (file_fields c seq0 src sched Hwf He Hts i). Qed.
Print Assumptions C16_header_fields.

(* consecutive sequence numbers modulo 2^16 *)
Theorem C16_seq_consecutive_mod : forall c seq0 src sched i,
  wf_cfg c seq0 -> Nat.even (length src) = true -> ts_fit c (all_packets c src) ->
  S i < length (s_out (fst (file_stream c seq0 src sched))) ->
  seq_of_dgram (nth (S i) (s_out (fst (file_stream c seq0 src sched))) [])
  = ((seq_of_dgram (nth i (s_out (fst (file_stream c seq0 src sched))) []) + 1) mod SEQMOD)%N.
Proof.
  intros c seq0 src sched i Hwf He Hts H.
  destruct (file_fields c seq0 src sched Hwf He Hts (S i) H) as (_ & _ & -> & _).
  destruct (file_fields c seq0 src sched Hwf He Hts i ltac:(lia)) as (_ & _ & -> & _).
  symmetry. apply (seqof_S seq0 i).
Qed.
Print Assumptions C16_seq_consecutive_mod.

(* timestamps advance by the frames per packet *)
Theorem C16_ts_step : forall c seq0 src sched i,
  wf_cfg c seq0 -> Nat.even (length src) = true -> ts_fit c (all_packets c src) ->
  S i < length (s_out (fst (file_stream c seq0 src sched))) ->
  ts_of (nth (S i) (s_out (fst (file_stream c seq0 src sched))) [])
  = (ts_of (nth i (s_out (fst (file_stream c seq0 src sched))) []) + 352)%N.
Proof.
  intros c seq0 src sched i Hwf He Hts H.
  destruct (file_fields c seq0 src sched Hwf He Hts (S i) H) as (_ & _ & _ & -> & _).
  destruct (file_fields c seq0 src sched Hwf He Hts i ltac:(lia)) as (_ & _ & _ & -> & _).
  lia.
Qed.
Print Assumptions C16_ts_step.

(* the first-packet marker is on the first datagram and on no other *)
Theorem C16_marker_first_only : forall c seq0 src sched i,
  wf_cfg c seq0 -> Nat.even (length src) = true -> ts_fit c (all_packets c src) ->
  i < length (s_out (fst (file_stream c seq0 src sched))) ->
  (nthb (nth i (s_out (fst (file_stream c seq0 src sched))) []) 1 = 224%N <-> i = 0).
Proof.
  intros c seq0 src sched i Hwf He Hts H.
  destruct (file_fields c seq0 src sched Hwf He Hts i H) as (_ & -> & _).
  destruct i; cbn [Nat.eqb]; split; intro; try reflexivity; try discriminate.
Qed.
Print Assumptions C16_marker_first_only.

(* Whatever the schedule (compensation, stop()): the loop never raises, what has been sent is a
   prefix of the complete stream, and if the loop ended by itself everything was sent. *)
Theorem C16_any_schedule_prefix : forall c seq0 src sched,
  wf_cfg c seq0 -> Nat.even (length src) = true -> ts_fit c (all_packets c src) ->
  (forall e, snd (file_stream c seq0 src sched) <> Raised e) /\
  s_out (fst (file_stream c seq0 src sched))
  = firstn (length (s_out (fst (file_stream c seq0 src sched))))
           (s_out (fst (file_stream c seq0 src (plain_sched (S (all_packets c src)))))) /\
  (snd (file_stream c seq0 src sched) = Finished ->
   length (s_out (fst (file_stream c seq0 src sched))) = all_packets c src).
Proof.
  intros c seq0 src sched Hwf He Hts. split; [|split].
  - exact (file_no_raise c seq0 src sched Hwf He Hts).
  - exact (file_prefix c seq0 src sched Hwf He Hts).
  - exact (file_finished_complete c seq0 src sched Hwf He Hts).
Qed.
Print Assumptions C16_any_schedule_prefix.

(* pacing is irrelevant: two runs that are not stopped end in the same state *)
Theorem C16_schedule_irrelevant : forall c seq0 src s1 s2,
  wf_cfg c seq0 -> Nat.even (length src) = true -> ts_fit c (all_packets c src) ->
  no_stop s1 -> no_stop s2 -> all_packets c src < length s1 -> all_packets c src < length s2 ->
  file_stream c seq0 src s1 = file_stream c seq0 src s2.
Proof. exact file_schedule_irrelevant. Qed.
Print Assumptions C16_schedule_irrelevant.

(* The backlog holds exactly the most recent min(n, limit) datagrams (limit = 1000 in pyatv),
   byte-identical, keyed by their sequence number, in sending order; the context has advanced
   by one sequence number and 352 frames per datagram. *)
Theorem C16_backlog_most_recent : forall c seq0 src sched,
  wf_cfg c seq0 -> Nat.even (length src) = true -> ts_fit c (all_packets c src) ->
  let out := s_out (fst (file_stream c seq0 src sched)) in
  s_backlog (fst (file_stream c seq0 src sched))
  = map (fun d => (seq_of_dgram d, d)) (skipn (length out - Nat.min (length out) (c_lim c)) out) /\
  s_seq (fst (file_stream c seq0 src sched)) = ((seq0 + N.of_nat (length out)) mod SEQMOD)%N /\
  s_head (fst (file_stream c seq0 src sched)) = (c_start c + 352 * N.of_nat (length out))%N.
Proof.
  intros c seq0 src sched Hwf He Hts out. split.
  - exact (file_backlog c seq0 src sched Hwf He Hts).
  - exact (file_context c seq0 src sched Hwf He Hts).
Qed.
Print Assumptions C16_backlog_most_recent.

(* Retransmission, at any point of any run: the request (first, count) is answered by exactly
   the datagrams among the most recent [c_lim c] whose sequence number is (first + t) mod 2^16
   for some t < count - also when the window spans the wrap -, each repeated byte for byte
   behind the 4-byte retransmit header, and by nothing else. *)
Theorem C16_retransmit_exact : forall c seq0 src sched first count,
  wf_cfg c seq0 -> Nat.even (length src) = true -> ts_fit c (all_packets c src) ->
  (first < SEQMOD)%N -> (count < SEQMOD)%N ->
  let out := s_out (fst (file_stream c seq0 src sched)) in
  let rs := retransmit (s_backlog (fst (file_stream c seq0 src sched))) first count in
  control_received (s_backlog (fst (file_stream c seq0 src sched))) (retransmit_request first count) = Ok rs /\
  (forall i t, recent (c_lim c) (length out) i -> t < N.to_nat count ->
               ((first + N.of_nat t) mod SEQMOD)%N = seq_of_dgram (nth i out []) ->
               In (retransmit_reply (nth i out [])) rs) /\
  (forall x, In x rs ->
     exists i t, recent (c_lim c) (length out) i /\ t < N.to_nat count /\
                 ((first + N.of_nat t) mod SEQMOD)%N = seq_of_dgram (nth i out []) /\
                 x = retransmit_reply (nth i out [])) /\
  length rs <= N.to_nat count.
Proof.
  intros c seq0 src sched first count Hwf He Hts H1 H2.
  exact (file_retransmit c seq0 src sched Hwf He Hts first count H1 H2).
Qed.
Print Assumptions C16_retransmit_exact.

(* Any source obeying the readframes contract loosely (non-empty chunks of at most one packet,
   possibly short before the end, e.g. a buffer underrun): every chunk is sent once, in order,
   zero padded to a full packet, followed by the silence. *)
Theorem C16_chunk_source_payloads : forall c seq0 chunks sched,
  wf_cfg c seq0 -> chunks_ok c chunks -> ts_fit c (length chunks + silence_packets c) ->
  no_stop sched -> length chunks + silence_packets c < length sched ->
  snd (chunk_stream c seq0 chunks sched) = Finished /\
  map payload_of (s_out (fst (chunk_stream c seq0 chunks sched)))
  = map (padded (packet_size c)) chunks ++ repeat (zeros (packet_size c)) (silence_packets c).
Proof. exact chunk_payloads. Qed.
Print Assumptions C16_chunk_source_payloads.

(* The side condition on the parity of the buffer is exact: a 353-frame source of one 8-bit
   channel (353 bytes) makes the stream raise ValueError after the first packet; the last
   frame is never sent.  (Reproduced on the implementation by the harness:
   key C16:samples:odd-length-chunk.) *)
Theorem C16_odd_length_refuted :
  exists c seq0 src sched,
    wf_cfg c seq0 /\ ts_fit c (all_packets c src) /\ no_stop sched /\ all_packets c src < length sched /\
    snd (file_stream c seq0 src sched) = Raised ValueError /\
    length (s_out (fst (file_stream c seq0 src sched))) = 1 /\ data_packets c src = 2.
Proof.
  exists {| c_send := send_audio_packet V1; c_fs := 1; c_latency := 704; c_start := 5000; c_ssrc := 7; c_lim := 1000; c_close := None |},
         65535%N, (repeat 9%N 353), (plain_sched 6).
  split; [|split; [|split; [|split; [|split; [|split]]]]].
  - split; [exact plain_v1|]. cbn; unfold SEQMOD, TSLIM; repeat split; lia.
  - vm_compute. discriminate.
  - apply Forall_forall. intros l Hl. apply repeat_spec in Hl. subst l. reflexivity.
  - vm_compute. lia.
  - vm_compute. reflexivity.
  - vm_compute. reflexivity.
  - vm_compute. reflexivity.
Qed.
Print Assumptions C16_odd_length_refuted.

(* The side condition [ts_fit] is exact as well: the header encoder (struct format 'I') raises
   as soon as the RTP time reaches 2^32 (about 27 hours at 44.1 kHz) - the timestamp does
   not wrap. *)
Theorem C16_timestamp_limit : forall c first s frames,
  (TSLIM <= rtptime c s)%N -> emit c first s frames = (s, Raise StructError).
Proof. exact emit_ts_limit. Qed.
Print Assumptions C16_timestamp_limit.

(* The protocol objects.  StreamClient stores in the backlog whatever send_audio_packet RETURNS;
   for the retransmission to be byte-identical that must be the datagram that was sent.  All
   three variants in pyatv meet the obligation (AirPlayV1; AirPlayV2 without and with the
   ChaCha20 audio cipher, where the wire packet is header ++ ciphertext ++ 8 nonce bytes), and
   the first two are "plain" (header ++ audio), so every theorem above applies to them. *)
Theorem C16_protocols_return_what_they_sent :
  returns_what_it_sent (send_audio_packet V1) /\ returns_what_it_sent (send_audio_packet V2plain) /\
  returns_what_it_sent (send_audio_packet V2cipher) /\
  plain_protocol (send_audio_packet V1) /\ plain_protocol (send_audio_packet V2plain).
Proof. exact (conj returns_v1 (conj returns_v2plain (conj returns_v2cipher (conj plain_v1 plain_v2plain)))). Qed.
Print Assumptions C16_protocols_return_what_they_sent.

(* For ANY protocol object meeting the obligation - any configuration, any source script (also one
   that raises), any schedule, any point of the run: every backlog entry is a datagram that went
   out on the audio transport, and every answer to a retransmit request is such a datagram, byte
   for byte, behind the 4-byte retransmit header. *)
Theorem C16_retransmit_byte_identical_any_protocol : forall c seq0 script sched,
  returns_what_it_sent (c_send c) ->
  (forall k v, In (k, v) (s_backlog (fst (stream c seq0 script sched))) ->
               In v (s_out (fst (stream c seq0 script sched)))) /\
  (forall first count x,
     In x (retransmit (s_backlog (fst (stream c seq0 script sched))) first count) ->
     exists d, In d (s_out (fst (stream c seq0 script sched))) /\
               x = [128; 214]%N ++ firstn 2 (skipn 2 d) ++ d).
Proof.
  intros c seq0 script sched H. split.
  - exact (stream_inv c H seq0 script sched).
  - intros first count x. exact (retransmit_identical c H seq0 script sched first count x).
Qed.
Print Assumptions C16_retransmit_byte_identical_any_protocol.

(* The obligation is needed: a protocol object that encrypts for the wire but returns the
   unencrypted packet makes the control client retransmit bytes that were never sent. *)
Theorem C16_unfaithful_protocol_refuted :
  exists c seq0 script sched first count x,
    ~ returns_what_it_sent (c_send c) /\
    In x (retransmit (s_backlog (fst (stream c seq0 script sched))) first count) /\
    forall d, In d (s_out (fst (stream c seq0 script sched))) -> x <> [128; 214]%N ++ firstn 2 (skipn 2 d) ++ d.
Proof.
  exists {| c_send := fun n h a => (fst (send_audio_packet V2cipher n h a), h ++ a);
            c_fs := 1; c_latency := 352; c_start := 0; c_ssrc := 1; c_lim := 1000; c_close := None |},
         7%N, [Ok [1; 2]%N], (plain_sched 4), 7%N, 1%N.
  eexists. split; [|split].
  - intro H. specialize (H 0 [] [1%N]). vm_compute in H. discriminate.
  - vm_compute. left. reflexivity.
  - intros d Hd. vm_compute in Hd. destruct Hd as [<-|[<-|[]]]; vm_compute; discriminate.
Qed.
Print Assumptions C16_unfaithful_protocol_refuted.

(* Several streams on one connection (the library keeps ONE StreamContext and calls reset() in
   send_audio): whatever state an earlier stream - complete, stopped, failed - left the context
   in, the next stream behaves exactly like a first stream started at the new sequence number and
   timestamp.  Hence every theorem of this file holds for the second, third, ... stream. *)
Theorem C16_next_stream_like_first : forall c prev seq0 script sched,
  next_stream c prev seq0 script sched = stream c seq0 script sched.
Proof. intros c prev seq0 script sched. reflexivity. Qed.
Print Assumptions C16_next_stream_like_first.

(* ... and that rests on reset() clearing padding_sent: with a reset that keeps it, a stream that
   follows a completed one sends nothing at all (no audio, no silence). *)
Theorem C16_reset_must_clear_padding :
  exists c seq0 script sched,
    wf_cfg c seq0 /\ no_stop sched /\
    let first := fst (stream c seq0 script sched) in
    snd (stream c seq0 script sched) = Finished /\ length (s_out first) = 2 /\
    s_out (fst (laps c sched 0
                  (stale_reset {| s_seq := s_seq first; s_head := s_head first; s_pad := s_pad first;
                                  s_src := script; s_reads := O; s_backlog := []; s_out := [] |}
                               seq0 (c_start c)))) = [].
Proof.
  exists {| c_send := send_audio_packet V1; c_fs := 1; c_latency := 352; c_start := 0; c_ssrc := 1; c_lim := 1000;
            c_close := None |}, 7%N, [Ok [1; 2]%N], (plain_sched 4).
  split; [|split].
  - split; [exact plain_v1|]. cbn; unfold SEQMOD, TSLIM; repeat split; lia.
  - apply Forall_forall. intros l Hl. apply repeat_spec in Hl. subst l. reflexivity.
  - vm_compute. repeat split; reflexivity.
Qed.
Print Assumptions C16_reset_must_clear_padding.

(* Streams of ANY length, in particular longer than 2^16 packets (the sequence number comes back to
   its start value): the 12-byte headers of the datagrams are given by the closed form
   [hdrs_from] (datagram i: marker iff i = 0, sequence (seq0+i) mod 2^16, timestamp
   latency+352*i), hence so is every summary computed from them ([sum_model] computes it without building the list).  This is what the harness's
   compact comparison of a 65536+k packet run rests on. *)
Theorem C16_long_stream_headers : forall c seq0 src sched,
  wf_cfg c seq0 -> Nat.even (length src) = true -> ts_fit c (all_packets c src) ->
  no_stop sched -> all_packets c src < length sched ->
  map (firstn 12) (s_out (fst (file_stream c seq0 src sched)))
  = hdrs_from (c_latency c) (c_ssrc c) seq0 0 (all_packets c src) /\
  summarize (map (firstn 12) (s_out (fst (file_stream c seq0 src sched))))
  = sum_model (c_latency c) (c_ssrc c) seq0 (N.of_nat (all_packets c src)).
Proof.
  intros c seq0 src sched Hwf He Hts Hns Hlen.
  pose proof (long_headers c seq0 src sched Hwf He Hts Hns Hlen) as H. split; [exact H|].
  rewrite H, sum_model_spec, Nat2N.id. reflexivity.
Qed.
Print Assumptions C16_long_stream_headers.

(* ------------------------------------------------------------------ non-vacuity *)
(* pyatv's real parameters (AirPlay v2 without audio cipher): stereo 16 bit, latency 22050+44100, backlog 1000, start at 65534 *)
Definition real_cfg : cfg :=
  {| c_send := send_audio_packet V2plain; c_fs := 4; c_latency := 66150; c_start := 123456789; c_ssrc := 305419896; c_lim := PACKET_BACKLOG_SIZE;
     c_close := None |}.

Example C16_ex_wf : wf_cfg real_cfg 65534 /\ ts_fit real_cfg (all_packets real_cfg (repeat 1%N 3520))
                    /\ silence_packets real_cfg = 188.
Proof.
  split; [|split].
  - split; [exact plain_v2plain|]. cbn; unfold SEQMOD, TSLIM, PACKET_BACKLOG_SIZE; repeat split; lia.
  - vm_compute. discriminate.
  - reflexivity.
Qed.

(* a 2.5-packet source started at sequence 65534 with a short latency: 3 data + 2 silence
   packets; the request (first=65534, count=4) spans the wrap and is answered with 4 replies
   carrying sequence numbers 65534, 65535, 0, 1 *)
Example C16_ex_wrap :
  let c := {| c_send := send_audio_packet V1; c_fs := 4; c_latency := 704; c_start := 1000000; c_ssrc := 305419896; c_lim := 1000; c_close := None |} in
  let s := fst (file_stream c 65534 (pattern 7 3 3520) (plain_sched 8)) in
  length (s_out s) = 5 /\
  map seq_of_dgram (s_out s) = [65534; 65535; 0; 1; 2]%N /\
  map (fun r => firstn 4 r) (retransmit (s_backlog s) 65534 4)
  = [[128; 214; 255; 254]; [128; 214; 255; 255]; [128; 214; 0; 0]; [128; 214; 0; 1]]%N /\
  map (skipn 4) (retransmit (s_backlog s) 65534 4) = firstn 4 (s_out s).
Proof. vm_compute. repeat split; reflexivity. Qed.

(* 65540 headers starting at sequence 65000: exactly one marker (position 0), no break in the
   sequence numbers although they pass the start value again at position 65536 *)
Definition ex_view (s : hsum) := (h_markers s, h_seqbreaks s, h_tsbreaks s, h_count s, hseq (h_first s), hseq (h_last s)).
Example C16_ex_long :
  ex_view (sum_model 704 7 65000 65540) = ([0], [], [], 65540, 65000, 65003)%N.
Proof. vm_cast_no_check (@eq_refl (list N * list N * list N * N * N * N) ([0], [], [], 65540, 65000, 65003)%N). Qed.
