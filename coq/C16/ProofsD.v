(* C16 - the closed-form results restated in the vocabulary of Spec.v. *)
From Coq Require Import List Arith Bool NArith ZArith Lia ZifyBool.
From PV Require Import Common.Cases C16.Model C16.Spec C16.ProofsA C16.ProofsB C16.ProofsC.
Import ListNotations.
Ltac Zify.zify_post_hook ::= Z.to_euclidean_division_equations.
Local Open Scope nat_scope.

(* everything known about the state in which a stream of well-formed chunks ends *)
Record reached (c : cfg) (seq0 : N) (chunks : list bytes) (sched : list lap) (j : nat) : Prop := {
  r_le : j <= length chunks + silence_packets c;
  r_state : fst (chunk_stream c seq0 chunks sched)
            = st_at (c_fs c) (c_latency c) (c_start c) (c_ssrc c) (c_lim c) seq0 chunks j;
  r_noraise : forall e, snd (chunk_stream c seq0 chunks sched) <> Raised e;
  r_finished : snd (chunk_stream c seq0 chunks sched) = Finished -> j = length chunks + silence_packets c;
  r_complete : no_stop sched -> length chunks + silence_packets c < length sched ->
               j = length chunks + silence_packets c /\ snd (chunk_stream c seq0 chunks sched) = Finished
}.

Lemma chunk_reached c seq0 chunks sched :
  wf_cfg c seq0 -> chunks_ok c chunks -> ts_fit c (length chunks + silence_packets c) ->
  exists j, reached c seq0 chunks sched j.
Proof.
  destruct c as [send fs latency start ssrc lim close].
  unfold wf_cfg, chunks_ok, ts_fit, silence_packets. cbn [c_send c_fs c_latency c_start c_ssrc c_lim c_close].
  intros (Hsend & Hfs & Hlat & Hl1 & Hl2 & Hs0 & Hss & ->) Hch Hts.
  change (packet_size _) with (psz fs) in Hch.
  change (length chunks + N.to_nat ((latency + 351) / 352)) with (total latency chunks) in *.
  pose proof (stream_at send fs latency start ssrc lim seq0 chunks Hsend Hfs Hlat Hl1 Hl2 Hs0 Hss Hch Hts sched) as E.
  change (cf send fs latency start ssrc lim) with
    {| c_send := send; c_fs := fs; c_latency := latency; c_start := start; c_ssrc := ssrc; c_lim := lim;
       c_close := None |} in E.
  exists (fst (laps_spec latency chunks sched 0)).
  pose proof (laps_spec_le latency chunks sched 0 ltac:(lia)) as Hle.
  constructor; unfold chunk_stream, silence_packets; cbn [c_send c_fs c_latency c_start c_ssrc c_lim c_close];
    change (length chunks + N.to_nat ((latency + 351) / 352)) with (total latency chunks).
  - lia.
  - rewrite E. reflexivity.
  - rewrite E. cbn [snd]. intros e He. pose proof (laps_spec_outcome latency chunks sched 0) as Ho.
    rewrite He in Ho. exact Ho.
  - rewrite E. cbn [snd]. intro Hf. destruct (laps_spec_finished latency chunks sched 0 Hf) as [H|H]; [exact H|lia].
  - intros Hns Hlen. rewrite E. cbn [snd].
    rewrite (laps_spec_complete latency chunks sched 0 ltac:(lia) Hns ltac:(lia)). split; reflexivity.
Qed.

(* ------------------------------------------------------------------ consequences of [reached] *)
Section Reached.
  Variables (c : cfg) (seq0 : N) (chunks : list bytes) (sched : list lap) (j : nat).
  Hypothesis Hwf : wf_cfg c seq0.
  Hypothesis Hch : chunks_ok c chunks.
  Hypothesis Hts : ts_fit c (length chunks + silence_packets c).
  Hypothesis R : reached c seq0 chunks sched j.

  Notation P := (pkt (c_fs c) (c_latency c) (c_ssrc c) seq0 chunks).
  Notation out := (s_out (fst (chunk_stream c seq0 chunks sched))).
  Notation n := (length chunks + silence_packets c).

  Lemma reached_out : out = map P (seq 0 j).
  Proof. rewrite (r_state _ _ _ _ _ R). reflexivity. Qed.

  Lemma reached_len : length out = j.
  Proof. rewrite reached_out, map_length, seq_length. reflexivity. Qed.

  Lemma reached_nth i : i < j -> nth i out [] = P i.
  Proof.
    intro H. rewrite reached_out.
    rewrite (nth_indep _ [] (P 0)) by (rewrite map_length, seq_length; exact H).
    rewrite map_nth. rewrite seq_nth by exact H. reflexivity.
  Qed.

  Lemma hts' : (c_latency c + 352 * N.of_nat (total (c_latency c) chunks) <= TSLIM)%N.
  Proof. exact Hts. Qed.

  Lemma reached_fields i : i < j ->
    let d := nth i out [] in
    nthb d 0 = 128%N /\
    nthb d 1 = (if i =? 0 then 224%N else 96%N) /\
    seq_of_dgram d = ((seq0 + N.of_nat i) mod SEQMOD)%N /\
    ts_of d = (c_latency c + 352 * N.of_nat i)%N /\
    ssrc_of d = c_ssrc c /\
    length d = 12 + packet_size c.
  Proof.
    intros H d. subst d. rewrite (reached_nth i H).
    destruct Hwf as (_ & _ & _ & _ & _ & _ & Hss & _).
    assert (Hi : i < total (c_latency c) chunks) by (pose proof (r_le _ _ _ _ _ R); unfold total, nd, npad, silence_packets in *; lia).
    split; [reflexivity|]. split; [apply pkt_marker|]. split; [apply pkt_seq|].
    split; [apply (pkt_ts (c_fs c) (c_latency c) (c_ssrc c) seq0 chunks hts' i Hi)|].
    split; [|apply (pkt_length (c_fs c) (c_latency c) (c_ssrc c) seq0 chunks Hch)].
    unfold ssrc_of, pkt, hdr, nthb. cbn [app nth be16 be32]. unfold TSLIM in Hss. lia.
  Qed.

  Lemma reached_backlog :
    s_backlog (fst (chunk_stream c seq0 chunks sched))
    = map (fun d => (seq_of_dgram d, d)) (skipn (length out - Nat.min (length out) (c_lim c)) out).
  Proof.
    rewrite reached_len, reached_out. rewrite (r_state _ _ _ _ _ R). cbn [s_backlog st_at].
    apply backlog_of_out.
  Qed.

  Lemma reached_context :
    s_seq (fst (chunk_stream c seq0 chunks sched)) = ((seq0 + N.of_nat (length out)) mod SEQMOD)%N /\
    s_head (fst (chunk_stream c seq0 chunks sched)) = (c_start c + 352 * N.of_nat (length out))%N.
  Proof. rewrite reached_len. rewrite (r_state _ _ _ _ _ R). split; reflexivity. Qed.

  Lemma wf_lim : 1 <= c_lim c /\ (N.of_nat (c_lim c) < SEQMOD)%N.
  Proof. destruct Hwf as (_ & _ & _ & H1 & H2 & _). split; assumption. Qed.

  Lemma reached_retransmit_complete first count i t :
    recent (c_lim c) (length out) i -> t < N.to_nat count ->
    ((first + N.of_nat t) mod SEQMOD)%N = seq_of_dgram (nth i out []) ->
    In (retransmit_reply (nth i out []))
       (retransmit (s_backlog (fst (chunk_stream c seq0 chunks sched))) first count).
  Proof.
    unfold recent. rewrite reached_len. intros Hi Ht Hs.
    rewrite (reached_nth i) in * by lia. unfold retransmit_reply. rewrite pkt_seq in *.
    rewrite (r_state _ _ _ _ _ R). cbn [s_backlog st_at]. destruct wf_lim as [H1 H2].
    apply (retransmit_complete (c_fs c) (c_latency c) (c_ssrc c) (c_lim c) seq0 chunks H1 H2 j first count i t);
      [apply in_window; lia|exact Ht|exact Hs].
  Qed.

  Lemma reached_retransmit_sound first count x :
    In x (retransmit (s_backlog (fst (chunk_stream c seq0 chunks sched))) first count) ->
    exists i t, recent (c_lim c) (length out) i /\ t < N.to_nat count /\
                ((first + N.of_nat t) mod SEQMOD)%N = seq_of_dgram (nth i out []) /\
                x = retransmit_reply (nth i out []).
  Proof.
    intro H. rewrite (r_state _ _ _ _ _ R) in H at 1. cbn [s_backlog st_at] in H.
    apply (retransmit_sound (c_fs c) (c_latency c) (c_ssrc c) (c_lim c) seq0 chunks) in H
      as (i & t & Hi & Ht & Hs & ->).
    apply in_window in Hi. exists i, t. unfold recent. rewrite reached_len.
    rewrite (reached_nth i) by lia. unfold retransmit_reply. rewrite pkt_seq. auto.
  Qed.

  Lemma reached_payloads : j = n ->
    map payload_of out = map (padded (packet_size c)) chunks ++ repeat (zeros (packet_size c)) (silence_packets c).
  Proof.
    intro Hj. rewrite reached_out, Hj. unfold payload_of.
    change n with (total (c_latency c) chunks). rewrite out_payloads. apply payloads_all.
  Qed.
End Reached.

(* two runs of the same stream: the shorter output is a prefix of the longer *)
Lemma reached_prefix c seq0 chunks s1 s2 j1 j2 :
  reached c seq0 chunks s1 j1 -> reached c seq0 chunks s2 j2 -> j1 <= j2 ->
  s_out (fst (chunk_stream c seq0 chunks s1)) = firstn j1 (s_out (fst (chunk_stream c seq0 chunks s2))).
Proof.
  intros R1 R2 H. rewrite (reached_out _ _ _ _ _ R1), (reached_out _ _ _ _ _ R2). apply out_prefix, H.
Qed.

(* ------------------------------------------------------------------ FileSource *)
Lemma file_is_chunk c seq0 src sched :
  0 < c_fs c -> Nat.even (length src) = true ->
  file_stream c seq0 src sched = chunk_stream c seq0 (fchunks (c_fs c) src) sched /\
  chunks_ok c (fchunks (c_fs c) src) /\
  length (fchunks (c_fs c) src) = data_packets c src.
Proof.
  intros Hfs He. split; [|split].
  - unfold file_stream, chunk_stream. change (packet_size c) with (psz (c_fs c)).
    rewrite (fscript (c_fs c) src He). reflexivity.
  - apply (fchunks_ok (c_fs c) src Hfs He).
  - apply (fchunks_count (c_fs c) src Hfs).
Qed.

Lemma file_payload_conserved c seq0 src sched :
  wf_cfg c seq0 -> Nat.even (length src) = true -> ts_fit c (all_packets c src) ->
  no_stop sched -> all_packets c src < length sched ->
  snd (file_stream c seq0 src sched) = Finished /\
  length (s_out (fst (file_stream c seq0 src sched))) = all_packets c src /\
  concat (map payload_of (s_out (fst (file_stream c seq0 src sched))))
  = swap16 src ++ zeros ((packet_size c - length src mod packet_size c) mod packet_size c)
    ++ zeros (packet_size c * silence_packets c).
Proof.
  intros Hwf He Hts Hns Hlen.
  assert (Hfs : 0 < c_fs c) by apply (proj2 Hwf).
  destruct (file_is_chunk c seq0 src sched Hfs He) as (E & Hch & Hn).
  unfold all_packets in *. rewrite <- Hn in *.
  destruct (chunk_reached c seq0 _ sched Hwf Hch Hts) as [j R].
  destruct (r_complete _ _ _ _ _ R Hns Hlen) as [Hj Hf].
  rewrite E. split; [exact Hf|]. split; [rewrite (reached_len _ _ _ _ _ R); exact Hj|].
  rewrite (reached_payloads _ _ _ _ _ R Hj), concat_app.
  change (packet_size c) with (psz (c_fs c)).
  rewrite (fpayloads (c_fs c) src Hfs He), concat_repeat_zeros, <- app_assoc. reflexivity.
Qed.

(* a timestamp that does not fit 32 bits stops the stream with struct.error *)
Lemma emit_ts_limit c first s frames :
  (TSLIM <= rtptime c s)%N -> emit c first s frames = (s, Raise StructError).
Proof.
  intro H. unfold emit, audio_header. apply N.ltb_ge in H. rewrite H.
  rewrite andb_false_r. reflexivity.
Qed.

Lemma control_retransmit f first count :
  (first < SEQMOD)%N -> (count < SEQMOD)%N ->
  control_received f (retransmit_request first count) = Ok (retransmit f first count).
Proof.
  intros H1 H2. unfold control_received, retransmit_request, be16, nthb. cbn [app length nth Nat.ltb Nat.leb Nat.eqb].
  change (213 mod 128 =? 85)%N with true. cbv iota. unfold SEQMOD in *. do 2 f_equal; lia.
Qed.

(* ------------------------------------------------------------------ file streams, any schedule *)
Section FileAny.
  Variables (c : cfg) (seq0 : N) (src : bytes) (sched : list lap).
  Hypothesis Hwf : wf_cfg c seq0.
  Hypothesis He : Nat.even (length src) = true.
  Hypothesis Hts : ts_fit c (all_packets c src).

  Notation out := (s_out (fst (file_stream c seq0 src sched))).

  Lemma file_reached :
    exists j, file_stream c seq0 src sched = chunk_stream c seq0 (fchunks (c_fs c) src) sched /\
              chunks_ok c (fchunks (c_fs c) src) /\
              ts_fit c (length (fchunks (c_fs c) src) + silence_packets c) /\
              length (fchunks (c_fs c) src) + silence_packets c = all_packets c src /\
              reached c seq0 (fchunks (c_fs c) src) sched j.
  Proof.
    assert (Hfs : 0 < c_fs c) by apply (proj2 Hwf).
    destruct (file_is_chunk c seq0 src sched Hfs He) as (E & Hch & Hn).
    assert (Hts' : ts_fit c (length (fchunks (c_fs c) src) + silence_packets c))
      by (rewrite Hn; exact Hts).
    destruct (chunk_reached c seq0 _ sched Hwf Hch Hts') as [j R].
    exists j. split; [exact E|]. split; [exact Hch|]. split; [exact Hts'|]. split; [|exact R].
    rewrite Hn. reflexivity.
  Qed.

  Lemma file_fields i : i < length out ->
    let d := nth i out [] in
    nthb d 0 = 128%N /\
    nthb d 1 = (if i =? 0 then 224%N else 96%N) /\
    seq_of_dgram d = ((seq0 + N.of_nat i) mod SEQMOD)%N /\
    ts_of d = (c_latency c + 352 * N.of_nat i)%N /\
    ssrc_of d = c_ssrc c /\
    length d = 12 + packet_size c.
  Proof.
    destruct file_reached as (j & E & Hch & Hts' & _ & R). rewrite E.
    rewrite (reached_len _ _ _ _ _ R). apply (reached_fields c seq0 _ sched j Hwf Hch Hts' R).
  Qed.

  Lemma file_no_raise : forall e, snd (file_stream c seq0 src sched) <> Raised e.
  Proof. destruct file_reached as (j & E & _ & _ & _ & R). rewrite E. apply (r_noraise _ _ _ _ _ R). Qed.

  Lemma file_length_le : length out <= all_packets c src.
  Proof.
    destruct file_reached as (j & E & _ & _ & Hn & R). rewrite E, (reached_len _ _ _ _ _ R), <- Hn.
    apply (r_le _ _ _ _ _ R).
  Qed.

  Lemma file_finished_complete :
    snd (file_stream c seq0 src sched) = Finished -> length out = all_packets c src.
  Proof.
    destruct file_reached as (j & E & _ & _ & Hn & R). rewrite E, (reached_len _ _ _ _ _ R), <- Hn.
    apply (r_finished _ _ _ _ _ R).
  Qed.

  Lemma file_backlog :
    s_backlog (fst (file_stream c seq0 src sched))
    = map (fun d => (seq_of_dgram d, d)) (skipn (length out - Nat.min (length out) (c_lim c)) out).
  Proof. destruct file_reached as (j & E & _ & _ & _ & R). rewrite E. apply (reached_backlog _ _ _ _ _ R). Qed.

  Lemma file_context :
    s_seq (fst (file_stream c seq0 src sched)) = ((seq0 + N.of_nat (length out)) mod SEQMOD)%N /\
    s_head (fst (file_stream c seq0 src sched)) = (c_start c + 352 * N.of_nat (length out))%N.
  Proof. destruct file_reached as (j & E & _ & _ & _ & R). rewrite E. apply (reached_context _ _ _ _ _ R). Qed.

  Lemma file_retransmit first count :
    (first < SEQMOD)%N -> (count < SEQMOD)%N ->
    let rs := retransmit (s_backlog (fst (file_stream c seq0 src sched))) first count in
    control_received (s_backlog (fst (file_stream c seq0 src sched))) (retransmit_request first count) = Ok rs /\
    (forall i t, recent (c_lim c) (length out) i -> t < N.to_nat count ->
                 ((first + N.of_nat t) mod SEQMOD)%N = seq_of_dgram (nth i out []) ->
                 In (retransmit_reply (nth i out [])) rs) /\
    (forall x, In x rs ->
       exists i t, recent (c_lim c) (length out) i /\ t < N.to_nat count /\
                   ((first + N.of_nat t) mod SEQMOD)%N = seq_of_dgram (nth i out []) /\
                   x = retransmit_reply (nth i out [])) /\
    length rs <= N.to_nat count.
  Proof.
    intros H1 H2 rs. subst rs.
    split; [apply control_retransmit; assumption|].
    destruct file_reached as (j & E & Hch & Hts' & _ & R). rewrite E.
    split; [|split].
    - intros i t. apply (reached_retransmit_complete c seq0 _ sched j Hwf R).
    - intros x. apply (reached_retransmit_sound c seq0 _ sched j R).
    - apply retransmit_from_length.
  Qed.

  Lemma file_prefix :
    out = firstn (length out) (s_out (fst (file_stream c seq0 src (plain_sched (S (all_packets c src)))))).
  Proof.
    destruct file_reached as (j & E & Hch & Hts' & Hn & R). rewrite E.
    assert (Hfs : 0 < c_fs c) by apply (proj2 Hwf).
    destruct (file_is_chunk c seq0 src (plain_sched (S (all_packets c src))) Hfs He) as (E2 & _ & _).
    rewrite E2.
    destruct (chunk_reached c seq0 _ (plain_sched (S (all_packets c src))) Hwf Hch Hts') as [j2 R2].
    assert (Hj2 : j2 = all_packets c src).
    { rewrite <- Hn. apply (r_complete _ _ _ _ _ R2).
      - unfold no_stop, plain_sched. apply Forall_forall. intros l Hl. apply repeat_spec in Hl. subst l. reflexivity.
      - unfold plain_sched. rewrite repeat_length, Hn. lia. }
    rewrite (reached_len _ _ _ _ _ R). apply (reached_prefix c seq0 _ sched _ j j2 R R2).
    rewrite Hj2, <- Hn. apply (r_le _ _ _ _ _ R).
  Qed.
End FileAny.

(* two complete runs end in the same state whatever the compensation pattern was *)
Lemma file_schedule_irrelevant c seq0 src s1 s2 :
  wf_cfg c seq0 -> Nat.even (length src) = true -> ts_fit c (all_packets c src) ->
  no_stop s1 -> no_stop s2 -> all_packets c src < length s1 -> all_packets c src < length s2 ->
  file_stream c seq0 src s1 = file_stream c seq0 src s2.
Proof.
  intros Hwf He Hts N1 N2 L1 L2.
  destruct (file_reached c seq0 src s1 Hwf He Hts) as (j1 & E1 & _ & _ & Hn & R1).
  destruct (file_reached c seq0 src s2 Hwf He Hts) as (j2 & E2 & _ & _ & _ & R2).
  rewrite <- Hn in L1, L2.
  destruct (r_complete _ _ _ _ _ R1 N1 L1) as [J1 F1]. destruct (r_complete _ _ _ _ _ R2 N2 L2) as [J2 F2].
  rewrite E1, E2. apply injective_projections.
  - rewrite (r_state _ _ _ _ _ R1), (r_state _ _ _ _ _ R2), J1, J2. reflexivity.
  - rewrite F1, F2. reflexivity.
Qed.

(* sources that return short chunks before the end (buffer underrun): each chunk is padded *)
Lemma chunk_payloads c seq0 chunks sched :
  wf_cfg c seq0 -> chunks_ok c chunks -> ts_fit c (length chunks + silence_packets c) ->
  no_stop sched -> length chunks + silence_packets c < length sched ->
  snd (chunk_stream c seq0 chunks sched) = Finished /\
  map payload_of (s_out (fst (chunk_stream c seq0 chunks sched)))
  = map (padded (packet_size c)) chunks ++ repeat (zeros (packet_size c)) (silence_packets c).
Proof.
  intros Hwf Hch Hts Hns Hlen. destruct (chunk_reached c seq0 chunks sched Hwf Hch Hts) as [j R].
  destruct (r_complete _ _ _ _ _ R Hns Hlen) as [Hj Hf]. split; [exact Hf|].
  apply (reached_payloads _ _ _ _ _ R Hj).
Qed.
