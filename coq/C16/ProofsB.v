(* C16 - the send loop in closed form: after i calls of _send_packet the whole state
   (context, source, backlog, datagrams sent) is the explicit function [st_at i] of i, for
   every schedule of compensation packets and stop() calls. *)
From Coq Require Import List Arith Bool NArith ZArith Lia ZifyBool.
From PV Require Import Common.Cases C16.Model C16.ProofsA.
Import ListNotations.
Ltac Zify.zify_post_hook ::= Z.to_euclidean_division_equations.
Local Open Scope nat_scope.

Lemma fpp_N : N.of_nat FRAMES_PER_PACKET = 352%N.
Proof. reflexivity. Qed.

Lemma fpp_Z : Z.of_nat FRAMES_PER_PACKET = 352%Z.
Proof. reflexivity. Qed.

Lemma map_seq_evict {A} (f : nat -> A) a n : 1 <= n ->
  exists t, map f (seq a n) = f a :: t /\ t ++ [f (a + n)] = map f (seq (S a) n).
Proof.
  intro H. destruct n as [|n]; [lia|]. exists (map f (seq (S a) n)). split; [reflexivity|].
  rewrite (seq_S n (S a)), map_app. cbn [map]. do 3 f_equal. lia.
Qed.

Section Stream.
  Variable send : nat -> bytes -> bytes -> bytes * bytes.
  Variables (fs : nat) (latency start ssrc : N) (lim : nat) (seq0 : N) (chunks : list bytes).

  (* the transport never reports is_closing() in this section; the protocol object sends
     header ++ audio and returns the same bytes (AirPlayV1, AirPlayV2 without audio cipher) *)
  Definition cf : cfg :=
    {| c_send := send; c_fs := fs; c_latency := latency; c_start := start; c_ssrc := ssrc;
       c_lim := lim; c_close := None |}.

  Definition psz := FRAMES_PER_PACKET * fs.
  Definition nd := length chunks.                               (* data packets *)
  Definition npad := N.to_nat ((latency + 351) / 352).          (* silence packets: ceil(latency/352) *)
  Definition total := nd + npad.
  Definition payload i := if i <? nd then padded psz (nth i chunks []) else zeros psz.
  Definition seqof i := ((seq0 + N.of_nat i) mod SEQMOD)%N.
  Definition tsof i := (latency + 352 * N.of_nat i)%N.
  Definition hdr (first : bool) (sq ts : N) : bytes :=
    [128; if first then 224 else 96]%N ++ be16 sq ++ be32 ts ++ be32 ssrc.
  Definition pkt i := hdr (i =? 0) (seqof i) (tsof i) ++ payload i.
  Definition window i := seq (i - Nat.min i lim) (Nat.min i lim).
  Definition backlog_at i : fifo := map (fun j => (seqof j, pkt j)) (window i).

  Definition st_at i : st :=
    {| s_seq := seqof i; s_head := (start + 352 * N.of_nat i)%N; s_pad := (352 * N.of_nat (i - nd))%N;
       s_src := skipn i (map Ok chunks); s_reads := i; s_backlog := backlog_at i;
       s_out := map pkt (seq 0 i) |}.
  Definition st_read i : st :=
    {| s_seq := seqof i; s_head := (start + 352 * N.of_nat i)%N; s_pad := (352 * N.of_nat (i - nd))%N;
       s_src := skipn (S i) (map Ok chunks); s_reads := S i; s_backlog := backlog_at i;
       s_out := map pkt (seq 0 i) |}.
  Definition st_mid i : st :=
    {| s_seq := seqof i; s_head := (start + 352 * N.of_nat i)%N; s_pad := (352 * N.of_nat (S i - nd))%N;
       s_src := skipn (S i) (map Ok chunks); s_reads := S i; s_backlog := backlog_at i;
       s_out := map pkt (seq 0 i) |}.

  Hypothesis Hsend : forall n h a, send n h a = (h ++ a, h ++ a).
  Hypothesis Hfs : 0 < fs.
  Hypothesis Hlat : (0 < latency)%N.
  Hypothesis Hlim1 : 1 <= lim.
  Hypothesis Hlim2 : (N.of_nat lim < SEQMOD)%N.
  Hypothesis Hseq0 : (seq0 < SEQMOD)%N.
  Hypothesis Hssrc : (ssrc < TSLIM)%N.
  Hypothesis Hchunks : Forall (fun ch => ch <> [] /\ length ch <= psz) chunks.
  Hypothesis Hts : (latency + 352 * N.of_nat total <= TSLIM)%N.

  Lemma psz_eq : packet_size cf = psz.
  Proof. reflexivity. Qed.

  Lemma npad_spec : (352 * N.of_nat npad >= latency)%N /\ (0 < npad -> (352 * N.of_nat (npad - 1) < latency)%N).
  Proof. unfold npad. split; [lia|]. intro. lia. Qed.

  Lemma npad_pos : 0 < npad.
  Proof. unfold npad. lia. Qed.

  Lemma pad_lt i : i < total -> (latency <=? 352 * N.of_nat (i - nd))%N = false.
  Proof.
    intro H. apply N.leb_gt. destruct npad_spec as [_ H2]. pose proof npad_pos. unfold total in H.
    destruct (le_lt_dec i nd) as [L|L].
    - replace (i - nd) with 0 by lia. lia.
    - specialize (H2 ltac:(lia)). assert (i - nd <= npad - 1) by lia. lia.
  Qed.

  Lemma pad_ge : (latency <=? 352 * N.of_nat (total - nd))%N = true.
  Proof.
    apply N.leb_le. destruct npad_spec as [H1 _]. unfold total. replace (nd + npad - nd) with npad by lia. lia.
  Qed.

  Lemma payload_length i : length (payload i) = psz.
  Proof using Hchunks. clear Hsend Hfs Hlat Hlim1 Hlim2 Hseq0 Hssrc Hts; try clear send.
    unfold payload. destruct (i <? nd) eqn:E; [|apply zeros_length].
    apply Nat.ltb_lt in E. unfold padded.
    destruct (length (nth i chunks []) =? psz) eqn:E2; [now apply Nat.eqb_eq in E2|].
    rewrite app_length, zeros_length.
    pose proof (proj1 (Forall_forall _ _) Hchunks (nth i chunks []) (nth_In _ _ E)) as [_ Hl]. lia.
  Qed.

  Lemma frames_of_psz b : length b = psz -> frames_of cf b = 352%N.
  Proof.
    intro H. unfold frames_of. rewrite H. cbn [c_fs cf]. unfold psz.
    rewrite Nat.div_mul by lia. apply fpp_N.
  Qed.

  (* ---------------------------------------------------------------- sequence numbers *)
  Lemma seqof_lt i : (seqof i < SEQMOD)%N.
  Proof using. clear Hsend Hfs Hlat Hlim1 Hlim2 Hseq0 Hssrc Hchunks Hts; try clear send. unfold seqof, SEQMOD. lia. Qed.

  Lemma seqof_S i : ((seqof i + 1) mod SEQMOD)%N = seqof (S i).
  Proof using. clear Hsend Hfs Hlat Hlim1 Hlim2 Hseq0 Hssrc Hchunks Hts; try clear send. unfold seqof, SEQMOD. lia. Qed.

  Lemma seqof_neq j i : j < i -> (N.of_nat (i - j) < SEQMOD)%N -> seqof j <> seqof i.
  Proof using. clear Hsend Hfs Hlat Hlim1 Hlim2 Hseq0 Hssrc Hchunks Hts; try clear send. unfold seqof, SEQMOD. intros H1 H2 E. lia. Qed.

  (* ---------------------------------------------------------------- backlog *)
  Lemma window_length i : length (window i) = Nat.min i lim.
  Proof using. clear Hsend Hfs Hlat Hlim1 Hlim2 Hseq0 Hssrc Hchunks Hts; try clear send. unfold window. apply seq_length. Qed.

  Lemma in_window i j : In j (window i) <-> i - Nat.min i lim <= j < i.
  Proof using. clear Hsend Hfs Hlat Hlim1 Hlim2 Hseq0 Hssrc Hchunks Hts; try clear send. unfold window. rewrite in_seq. lia. Qed.

  Lemma backlog_mem i : fifo_mem (seqof i) (backlog_at i) = false.
  Proof using Hlim2. clear Hsend Hfs Hlat Hlim1 Hseq0 Hssrc Hchunks Hts; try clear send.
    unfold fifo_mem. destruct (existsb _ _) eqn:E; [|reflexivity]. exfalso.
    apply existsb_exists in E as [e [Hin He]]. unfold backlog_at in Hin.
    apply in_map_iff in Hin as [j [<- Hj]]. apply in_window in Hj. cbn [fst] in He.
    apply N.eqb_eq in He. revert He. apply seqof_neq; [lia|]. unfold SEQMOD in *. lia.
  Qed.

  Lemma backlog_set i :
    fifo_set lim (backlog_at i) (seqof i) (pkt i) = Ok (backlog_at (S i)).
  Proof using Hlim1 Hlim2. clear Hsend Hfs Hlat Hseq0 Hssrc Hchunks Hts; try clear send.
    unfold fifo_set. rewrite backlog_mem. unfold backlog_at at 1 2. rewrite map_length, window_length.
    destruct (lim <? Nat.min i lim + 1) eqn:E.
    - apply Nat.ltb_lt in E. assert (L : lim <= i) by lia.
      unfold window. rewrite Nat.min_r by lia.
      destruct (map_seq_evict (fun j => (seqof j, pkt j)) (i - lim) lim Hlim1) as (t & -> & Ht).
      f_equal. replace (i - lim + lim) with i in Ht by lia.
      apply (eq_trans Ht).
      unfold backlog_at, window. rewrite Nat.min_r by lia.
      replace (S i - lim) with (S (i - lim)) by lia. reflexivity.
    - apply Nat.ltb_ge in E. assert (L : i < lim) by lia. f_equal.
      unfold backlog_at, window. rewrite !Nat.min_l by lia.
      replace (i - i) with 0 by lia. replace (S i - S i) with 0 by lia.
      rewrite seq_S, map_app. reflexivity.
  Qed.

  (* ---------------------------------------------------------------- one _send_packet call *)
  Lemma readframes_at i :
    readframes (st_at i) = (st_read i, Ok (if i <? nd then nth i chunks [] else [])).
  Proof.
    unfold readframes, st_at, st_read. cbn [s_src s_seq s_head s_pad s_reads s_backlog s_out].
    destruct (i <? nd) eqn:E.
    - apply Nat.ltb_lt in E. unfold nd in E.
      rewrite (skipn_nth_cons (@Ok bytes []) i (map (@Ok bytes) chunks)) by (rewrite map_length; exact E).
      rewrite (map_nth (@Ok bytes) chunks ([] : bytes) i). reflexivity.
    - apply Nat.ltb_ge in E. unfold nd in E.
      rewrite (skipn_all2 (n := i)) by (rewrite map_length; lia).
      rewrite (skipn_all2 (n := S i)) by (rewrite map_length; lia). reflexivity.
  Qed.

  Lemma pad_frames_at i :
    pad_frames cf (st_read i) (if i <? nd then nth i chunks [] else []) = (payload i, st_mid i).
  Proof.
    unfold pad_frames, payload. rewrite psz_eq. destruct (i <? nd) eqn:E.
    - apply Nat.ltb_lt in E.
      pose proof (proj1 (Forall_forall _ _) Hchunks (nth i chunks []) (nth_In _ _ E)) as [Hne _].
      destruct (nth i chunks []) as [|b t] eqn:Ech; [congruence|].
      unfold padded. unfold st_read, st_mid.
      replace (i - nd) with 0 by lia. replace (S i - nd) with 0 by lia.
      destruct (length (b :: t) =? psz); reflexivity.
    - apply Nat.ltb_ge in E. rewrite (frames_of_psz _ (zeros_length psz)).
      unfold set_pad, st_read, st_mid. cbn [s_seq s_head s_pad s_src s_reads s_backlog s_out].
      do 2 f_equal. lia.
  Qed.

  Lemma header_at i first : i < total ->
    audio_header first (seqof i) (tsof i) ssrc = Ok (hdr first (seqof i) (tsof i)).
  Proof.
    intro H. unfold audio_header.
    assert (E1 : (seqof i <? SEQMOD)%N = true) by (apply N.ltb_lt, seqof_lt).
    assert (E2 : (tsof i <? TSLIM)%N = true) by (apply N.ltb_lt; unfold tsof; lia).
    assert (E3 : (ssrc <? TSLIM)%N = true) by (apply N.ltb_lt; exact Hssrc).
    rewrite E1, E2, E3. reflexivity.
  Qed.

  Lemma rtptime_mid i : rtptime cf (st_mid i) = tsof i.
  Proof. unfold rtptime, tsof. cbn [s_head st_mid c_latency c_start cf]. lia. Qed.

  Lemma emit_at i : i < total ->
    emit cf (i =? 0) (st_mid i) (payload i) = (st_at (S i), Ok 352%N).
  Proof.
    intro H. unfold emit. rewrite rtptime_mid. cbn [c_ssrc cf s_seq st_mid].
    rewrite (header_at i _ H). unfold is_closing. cbn [c_close cf c_lim c_send s_backlog st_mid].
    rewrite Hsend. fold (pkt i). rewrite backlog_set.
    rewrite (frames_of_psz _ (payload_length i)).
    unfold st_at. cbn [s_seq s_head s_pad s_src s_reads s_out st_mid]. rewrite seqof_S.
    do 2 f_equal.
    - lia.
    - rewrite seq_S, map_app. reflexivity.
  Qed.

  Lemma send_packet_at i : i < total ->
    send_packet cf (i =? 0) (st_at i) = (st_at (S i), Ok 352%N).
  Proof.
    intro H. unfold send_packet. cbn [c_latency cf]. change (s_pad (st_at i)) with (352 * N.of_nat (i - nd))%N.
    rewrite (pad_lt i H). rewrite readframes_at. change (c_fs cf) with fs.
    assert (E : (fs =? 0) = false) by (apply Nat.eqb_neq; lia). rewrite E.
    rewrite pad_frames_at. apply emit_at, H.
  Qed.

  Lemma send_packet_end first : send_packet cf first (st_at total) = (st_at total, Ok 0%N).
  Proof.
    unfold send_packet. cbn [c_latency cf]. change (s_pad (st_at total)) with (352 * N.of_nat (total - nd))%N.
    rewrite pad_ge. reflexivity.
  Qed.

  (* ---------------------------------------------------------------- compensation packets *)
  Lemma send_n_at : forall k i, 1 <= i -> i <= total ->
    send_n cf k (st_at i) =
    (st_at (Nat.min (i + k) total),
     Ok ((352 * N.of_nat (Nat.min (i + k) total - i))%N, i + k <=? total)).
  Proof.
    induction k as [|k IH]; intros i H1 H2.
    - cbn [send_n]. rewrite Nat.add_0_r, Nat.min_l by lia. rewrite Nat.sub_diag.
      assert (E : (i <=? total) = true) by (apply Nat.leb_le; lia). rewrite E. reflexivity.
    - cbn [send_n]. destruct (le_lt_dec total i) as [L|L].
      + assert (i = total) by lia. subst i. rewrite send_packet_end. cbn [N.eqb].
        rewrite Nat.min_r by lia. rewrite Nat.sub_diag.
        assert (E : (total + S k <=? total) = false) by (apply Nat.leb_gt; lia). rewrite E. reflexivity.
      + assert (E0 : (i =? 0) = false) by (apply Nat.eqb_neq; lia).
        pose proof (send_packet_at i L) as SP. rewrite E0 in SP. rewrite SP.
        change (352 =? 0)%N with false. cbv iota. rewrite IH by lia.
        replace (S i + k) with (i + S k) by lia. do 2 f_equal. f_equal. lia.
  Qed.

  (* ---------------------------------------------------------------- the lap loop *)
  (* index reached and way of ending, computed from the schedule alone *)
  Fixpoint laps_spec (sched : list lap) (i : nat) : nat * outcome :=
    match sched with
    | [] => (i, Running)
    | l :: t =>
        if l_stop l then (i, Stopped)
        else if i <? total then
          if S i + compensate (l_behind l) <=? total
          then laps_spec t (S i + compensate (l_behind l))
          else (total, Finished)
        else (i, Finished)
    end.

  Lemma compensate_small b : (Z.of_nat FRAMES_PER_PACKET <=? b)%Z = false -> compensate b = 0.
  Proof. intro H. unfold compensate. rewrite H. reflexivity. Qed.

  Lemma total_zero i : (352 * N.of_nat i =? 0)%N = (i =? 0).
  Proof.
    destruct (i =? 0) eqn:E.
    - apply Nat.eqb_eq in E. subst. reflexivity.
    - apply Nat.eqb_neq in E. apply N.eqb_neq. lia.
  Qed.

  Lemma laps_at : forall sched i, i <= total ->
    laps cf sched (352 * N.of_nat i)%N (st_at i)
    = (st_at (fst (laps_spec sched i)), snd (laps_spec sched i)).
  Proof.
    induction sched as [|l t IH]; intros i Hi; [reflexivity|].
    cbn [laps laps_spec]. destruct (l_stop l); [reflexivity|].
    rewrite total_zero.
    destruct (i <? total) eqn:E.
    - apply Nat.ltb_lt in E. rewrite (send_packet_at i E). change (352 =? 0)%N with false. cbv iota.
      assert (S1 : forall k, send_n cf k (st_at (S i)) =
                 (st_at (Nat.min (S i + k) total),
                  Ok ((352 * N.of_nat (Nat.min (S i + k) total - S i))%N, S i + k <=? total)))
        by (intro k; apply send_n_at; lia).
      destruct (Z.of_nat FRAMES_PER_PACKET <=? l_behind l)%Z eqn:EB.
      + rewrite S1. destruct (S i + compensate (l_behind l) <=? total) eqn:EC.
        * apply Nat.leb_le in EC. rewrite Nat.min_l by lia.
          replace (352 * N.of_nat i + 352 + 352 * N.of_nat (S i + compensate (l_behind l) - S i))%N
            with (352 * N.of_nat (S i + compensate (l_behind l)))%N by lia.
          apply IH. lia.
        * apply Nat.leb_gt in EC. rewrite Nat.min_r by lia. reflexivity.
      + rewrite (compensate_small _ EB). rewrite Nat.add_0_r.
        assert (EC : (S i <=? total) = true) by (apply Nat.leb_le; lia). rewrite EC.
        replace (352 * N.of_nat i + 352)%N with (352 * N.of_nat (S i))%N by lia.
        apply IH. lia.
    - apply Nat.ltb_ge in E. assert (i = total) by lia. subst i.
      rewrite send_packet_end. reflexivity.
  Qed.

  Lemma laps_spec_le : forall sched i, i <= total -> i <= fst (laps_spec sched i) <= total.
  Proof using. clear Hsend Hfs Hlat Hlim1 Hlim2 Hseq0 Hssrc Hchunks Hts; try clear send.
    induction sched as [|l t IH]; intros i Hi; cbn [laps_spec]; [cbn [fst]; lia|].
    destruct (l_stop l); [cbn [fst]; lia|].
    destruct (i <? total) eqn:E; [|cbn [fst]; lia].
    destruct (S i + compensate (l_behind l) <=? total) eqn:EC; [|cbn [fst]; lia].
    apply Nat.leb_le in EC. specialize (IH _ EC). lia.
  Qed.

  Lemma laps_spec_outcome : forall sched i, match snd (laps_spec sched i) with Raised _ => False | _ => True end.
  Proof.
    induction sched as [|l t IH]; intros i; cbn [laps_spec]; [exact I|].
    destruct (l_stop l); [exact I|].
    destruct (i <? total); [|exact I].
    destruct (S i + compensate (l_behind l) <=? total); [apply IH|exact I].
  Qed.

  Lemma laps_spec_finished : forall sched i, snd (laps_spec sched i) = Finished -> fst (laps_spec sched i) = total \/ total <= i.
  Proof using. clear Hsend Hfs Hlat Hlim1 Hlim2 Hseq0 Hssrc Hchunks Hts; try clear send.
    induction sched as [|l t IH]; intros i; cbn [laps_spec]; [discriminate|].
    destruct (l_stop l); [discriminate|].
    destruct (i <? total) eqn:E; [|apply Nat.ltb_ge in E; right; exact E].
    destruct (S i + compensate (l_behind l) <=? total) eqn:EC; [|left; reflexivity].
    intro H. destruct (IH _ H) as [H1|H1]; [left; exact H1|].
    apply Nat.leb_le in EC. left.
    pose proof (laps_spec_le t (S i + compensate (l_behind l)) EC). lia.
  Qed.

  (* every lap sends at least one packet: total - i + 1 laps without stop() suffice *)
  Lemma laps_spec_complete : forall sched i,
    i <= total -> Forall (fun l => l_stop l = false) sched -> total - i < length sched ->
    laps_spec sched i = (total, Finished).
  Proof using. clear Hsend Hfs Hlat Hlim1 Hlim2 Hseq0 Hssrc Hchunks Hts; try clear send.
    induction sched as [|l t IH]; intros i Hi Hs Hl; [cbn [length] in Hl; lia|].
    inversion Hs as [|? ? Hl0 Ht]; subst. cbn [laps_spec]. rewrite Hl0.
    destruct (i <? total) eqn:E.
    - apply Nat.ltb_lt in E.
      destruct (S i + compensate (l_behind l) <=? total) eqn:EC; [|reflexivity].
      apply Nat.leb_le in EC. apply IH; [lia|assumption|cbn [length] in Hl; lia].
    - apply Nat.ltb_ge in E. f_equal. lia.
  Qed.

  Lemma init_at : init seq0 start (map Ok chunks) = st_at 0.
  Proof.
    unfold init, st_at. cbn [skipn seq map Nat.sub]. unfold seqof.
    replace (seq0 + N.of_nat 0)%N with seq0 by lia. rewrite N.mod_small by exact Hseq0.
    f_equal; lia.
  Qed.

  Theorem stream_at sched :
    stream cf seq0 (map Ok chunks) sched = (st_at (fst (laps_spec sched 0)), snd (laps_spec sched 0)).
  Proof.
    unfold stream. cbn [c_start cf]. rewrite init_at. apply (laps_at sched 0). lia.
  Qed.

  (* ---------------------------------------------------------------- header fields of pkt i *)
  Lemma be16_dec n : (n < SEQMOD)%N -> (nthb (be16 n) 0 * 256 + nthb (be16 n) 1)%N = n.
  Proof using. clear Hsend Hfs Hlat Hlim1 Hlim2 Hseq0 Hssrc Hchunks Hts; try clear send. unfold be16, nthb, SEQMOD. cbn [nth]. lia. Qed.

  Lemma pkt_seq i : seq_of_dgram (pkt i) = seqof i.
  Proof using. clear Hsend Hfs Hlat Hlim1 Hlim2 Hseq0 Hssrc Hchunks Hts; try clear send.
    unfold seq_of_dgram, pkt, hdr, nthb. cbn [app nth be16].
    pose proof (seqof_lt i). unfold SEQMOD in *. lia.
  Qed.

  Lemma pkt_marker i : nthb (pkt i) 1 = if i =? 0 then 224%N else 96%N.
  Proof using. clear Hsend Hfs Hlat Hlim1 Hlim2 Hseq0 Hssrc Hchunks Hts; try clear send. unfold pkt, hdr, nthb. cbn [app nth]. reflexivity. Qed.

  Definition ts_of_dgram (d : bytes) : N :=
    (nthb d 4 * 16777216 + nthb d 5 * 65536 + nthb d 6 * 256 + nthb d 7)%N.

  Lemma pkt_ts i : i < total -> ts_of_dgram (pkt i) = tsof i.
  Proof using Hts. clear Hsend Hfs Hlat Hlim1 Hlim2 Hseq0 Hssrc Hchunks; try clear send.
    intro H. unfold ts_of_dgram, pkt, hdr, nthb. cbn [app nth be16 be32].
    assert (tsof i < TSLIM)%N by (unfold tsof; lia). unfold TSLIM in *. lia.
  Qed.

  Lemma pkt_payload i : skipn 12 (pkt i) = payload i.
  Proof using. clear Hsend Hfs Hlat Hlim1 Hlim2 Hseq0 Hssrc Hchunks Hts; try clear send. unfold pkt, hdr. cbn [app be16 be32 skipn]. reflexivity. Qed.

  Lemma pkt_length i : length (pkt i) = 12 + psz.
  Proof using Hchunks. clear Hsend Hfs Hlat Hlim1 Hlim2 Hseq0 Hssrc Hts; try clear send. unfold pkt, hdr. cbn [app be16 be32 length]. rewrite payload_length. reflexivity. Qed.

End Stream.
