(* C16 - lemmas about the byte swap, FileSource's chunking and small list facts. *)
From Coq Require Import List Arith Bool NArith ZArith Lia ZifyBool.
From PV Require Import Common.Cases C16.Model.
Import ListNotations.
Ltac Zify.zify_post_hook ::= Z.to_euclidean_division_equations.

(* ------------------------------------------------------------------ parity helpers *)
Lemma even_ex n : Nat.even n = true <-> exists k, n = 2 * k.
Proof. rewrite Nat.even_spec. unfold Nat.Even. reflexivity. Qed.

Lemma even_min a b : Nat.even a = true -> Nat.even b = true -> Nat.even (Nat.min a b) = true.
Proof. intros Ha Hb. destruct (Nat.min_spec a b) as [[_ ->]|[_ ->]]; assumption. Qed.

Lemma even_sub a b : Nat.even a = true -> Nat.even b = true -> Nat.even (a - b) = true.
Proof.
  intros Ha Hb. apply even_ex in Ha as [x ->]. apply even_ex in Hb as [y ->].
  apply even_ex. exists (x - y). lia.
Qed.

Lemma even_mul_352 n : Nat.even (FRAMES_PER_PACKET * n) = true.
Proof. apply even_ex. exists (176 * n). unfold FRAMES_PER_PACKET. lia. Qed.

(* ------------------------------------------------------------------ lists *)
Lemma list_pair_ind (P : list N -> Prop) :
  P [] -> (forall a, P [a]) -> (forall a b t, P t -> P (a :: b :: t)) -> forall l, P l.
Proof.
  intros H0 H1 H2. fix IH 1. intros [|a [|b t]]; [exact H0|apply H1|apply H2, IH].
Qed.

Lemma skipn_nth_cons {A} (d : A) : forall i (l : list A),
  i < length l -> skipn i l = nth i l d :: skipn (S i) l.
Proof.
  induction i as [|i IH]; intros [|x l] H; simpl in H; try lia.
  - reflexivity.
  - change (skipn (S i) (x :: l)) with (skipn i l). rewrite (IH l) by lia. reflexivity.
Qed.

Lemma skipn_seq : forall n a len, skipn n (seq a len) = seq (a + n) (len - n).
Proof.
  induction n as [|n IH]; intros a len.
  - rewrite Nat.add_0_r, Nat.sub_0_r. reflexivity.
  - destruct len as [|len]; [reflexivity|]. cbn [seq skipn]. rewrite IH.
    replace (S a + n) with (a + S n) by lia. reflexivity.
Qed.

Lemma firstn_seq : forall n a len, firstn n (seq a len) = seq a (Nat.min n len).
Proof.
  induction n as [|n IH]; intros a len; [reflexivity|].
  destruct len as [|len]; [reflexivity|]. cbn [seq firstn Nat.min]. rewrite IH. reflexivity.
Qed.

Lemma zeros_length n : length (zeros n) = n.
Proof. apply repeat_length. Qed.

Lemma zeros_app a b : zeros a ++ zeros b = zeros (a + b).
Proof. unfold zeros. symmetry. apply repeat_app. Qed.

(* ------------------------------------------------------------------ swap16 *)
Lemma swap16_length : forall l, Nat.even (length l) = true -> length (swap16 l) = length l.
Proof.
  induction l as [|a|a b t IH] using list_pair_ind; intro H.
  - reflexivity.
  - discriminate.
  - cbn [swap16 length]. rewrite IH; [reflexivity|exact H].
Qed.

Lemma swap16_app : forall x y, Nat.even (length x) = true -> swap16 (x ++ y) = swap16 x ++ swap16 y.
Proof.
  induction x as [|a|a b t IH] using list_pair_ind; intros y H.
  - reflexivity.
  - discriminate.
  - cbn [app swap16]. rewrite IH; [reflexivity|exact H].
Qed.

(* the swap loses nothing: applying it twice gives the bytes back *)
Lemma swap16_involutive : forall l, Nat.even (length l) = true -> swap16 (swap16 l) = l.
Proof.
  induction l as [|a|a b t IH] using list_pair_ind; intro H.
  - reflexivity.
  - discriminate.
  - cbn [swap16]. rewrite IH; [reflexivity|exact H].
Qed.

Lemma swap16_nonempty l : Nat.even (length l) = true -> l <> [] -> swap16 l <> [].
Proof.
  intros H N E. apply (f_equal (@length _)) in E. rewrite swap16_length in E by assumption.
  destruct l; [congruence|discriminate].
Qed.

(* ------------------------------------------------------------------ FileSource chunking *)
Fixpoint cut (fuel btr : nat) (rest : bytes) : list bytes :=
  match fuel with
  | O => []
  | S f =>
      match rest with
      | [] => []
      | _ :: _ => firstn btr rest :: cut f btr (skipn btr rest)
      end
  end.

Definition padded (ps : nat) (ch : bytes) : bytes :=
  if length ch =? ps then ch else ch ++ zeros (ps - length ch).

Lemma file_script_cut : forall fuel btr rest,
  Nat.even btr = true -> Nat.even (length rest) = true ->
  file_script fuel btr rest = map (fun ch => Ok (swap16 ch)) (cut fuel btr rest).
Proof.
  induction fuel as [|f IH]; intros btr rest Hb Hr; [reflexivity|].
  destruct rest as [|a r]; [reflexivity|].
  cbn [file_script cut map]. unfold file_read, to_audio_samples.
  assert (E : Nat.even (length (firstn btr (a :: r))) = true)
    by (rewrite firstn_length; apply even_min; assumption).
  rewrite E. f_equal. apply IH; [assumption|].
  rewrite skipn_length. apply even_sub; assumption.
Qed.

Lemma cut_chunks : forall fuel btr rest,
  0 < btr -> Nat.even btr = true -> Nat.even (length rest) = true ->
  Forall (fun ch => ch <> [] /\ length ch <= btr /\ Nat.even (length ch) = true) (cut fuel btr rest).
Proof.
  induction fuel as [|f IH]; intros btr rest Hp Hb Hr; [constructor|].
  destruct rest as [|a r]; [constructor|].
  cbn [cut]. constructor.
  - repeat split.
    + destruct btr; [lia|discriminate].
    + rewrite firstn_length. lia.
    + rewrite firstn_length. apply even_min; assumption.
  - apply IH; try assumption. rewrite skipn_length. apply even_sub; assumption.
Qed.

Lemma cut_count : forall fuel btr rest,
  0 < btr -> length rest <= fuel -> length (cut fuel btr rest) = (length rest + (btr - 1)) / btr.
Proof.
  induction fuel as [|f IH]; intros btr rest Hp Hf.
  - destruct rest; [|simpl in Hf; lia]. simpl. symmetry. apply Nat.div_small. lia.
  - destruct rest as [|a r].
    + simpl. symmetry. apply Nat.div_small. lia.
    + change (length (cut (S f) btr (a :: r))) with (S (length (cut f btr (skipn btr (a :: r))))).
      set (rest := a :: r) in *. assert (1 <= length rest) by (subst rest; cbn [length]; lia).
      rewrite IH; [|assumption|rewrite skipn_length; lia]. rewrite skipn_length.
      set (n := length rest) in *.
      destruct (le_lt_dec btr n) as [L|L].
      * replace (n + (btr - 1)) with ((n - btr + (btr - 1)) + 1 * btr) by lia.
        rewrite Nat.div_add by lia. lia.
      * replace (n - btr) with 0 by lia. rewrite (Nat.div_small (0 + (btr - 1))) by lia.
        replace (n + (btr - 1)) with ((n - 1) + 1 * btr) by lia.
        rewrite Nat.div_add by lia. rewrite Nat.div_small by lia. reflexivity.
Qed.

(* the packets' payloads, concatenated: the swapped source, zero padding of the last packet *)
Lemma concat_padded_cut : forall fuel btr rest,
  0 < btr -> Nat.even btr = true -> Nat.even (length rest) = true -> length rest <= fuel ->
  concat (map (fun ch => padded btr (swap16 ch)) (cut fuel btr rest))
  = swap16 rest ++ zeros ((btr - length rest mod btr) mod btr).
Proof.
  induction fuel as [|f IH]; intros btr rest Hp Hb Hr Hf.
  - destruct rest; [|simpl in Hf; lia]. simpl.
    rewrite Nat.mod_0_l, Nat.sub_0_r, Nat.mod_same by lia. reflexivity.
  - destruct rest as [|a r].
    + simpl. rewrite Nat.mod_0_l, Nat.sub_0_r, Nat.mod_same by lia. reflexivity.
    + cbn [cut map concat]. set (rest := a :: r) in *.
      assert (Ef : Nat.even (length (firstn btr rest)) = true)
        by (rewrite firstn_length; apply even_min; assumption).
      assert (Es : Nat.even (length (skipn btr rest)) = true)
        by (rewrite skipn_length; apply even_sub; assumption).
      rewrite IH; [|assumption|assumption|assumption|rewrite skipn_length; subst rest; cbn [length] in *; lia].
      assert (Hsw : swap16 rest = swap16 (firstn btr rest) ++ swap16 (skipn btr rest))
        by (rewrite <- swap16_app by assumption; rewrite firstn_skipn; reflexivity).
      rewrite Hsw.
      unfold padded. rewrite swap16_length by assumption. rewrite firstn_length, skipn_length.
      destruct (le_lt_dec btr (length rest)) as [L|L].
      * rewrite Nat.min_l by lia. rewrite Nat.eqb_refl. rewrite <- app_assoc. do 3 f_equal.
        replace (length rest) with ((length rest - btr) + 1 * btr) at 2 by lia.
        rewrite Nat.mod_add by lia. reflexivity.
      * rewrite Nat.min_r by lia.
        assert (N : length rest <> btr) by lia. apply Nat.eqb_neq in N. rewrite N.
        replace (length rest - btr) with 0 by lia.
        assert (S0 : skipn btr rest = []) by (apply skipn_all2; lia). rewrite S0.
        cbn [swap16]. rewrite app_nil_r.
        rewrite Nat.mod_0_l, Nat.sub_0_r, Nat.mod_same by lia. cbn [zeros repeat]. rewrite app_nil_r.
        do 2 f_equal.
        rewrite (Nat.mod_small (length rest)) by lia.
        assert (1 <= length rest) by (subst rest; cbn [length]; lia).
        rewrite Nat.mod_small by lia. reflexivity.
Qed.
