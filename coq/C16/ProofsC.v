(* C16 - retransmission from the backlog, and the FileSource instance of the stream theorems. *)
From Coq Require Import List Arith Bool NArith ZArith Lia ZifyBool.
From PV Require Import Common.Cases C16.Model C16.ProofsA C16.ProofsB.
Import ListNotations.
Ltac Zify.zify_post_hook ::= Z.to_euclidean_division_equations.
Local Open Scope nat_scope.

(* ------------------------------------------------------------------ generic list facts *)
Lemma map_nth_seq {A B} (f : A -> B) (d : A) : forall l,
  map (fun i => f (nth i l d)) (seq 0 (length l)) = map f l.
Proof.
  induction l as [|x l IH]; [reflexivity|].
  cbn [length seq map nth]. f_equal. rewrite <- seq_shift, map_map. exact IH.
Qed.

Lemma map_const_seq {A} (x : A) : forall n a, map (fun _ => x) (seq a n) = repeat x n.
Proof. induction n as [|n IH]; intro a; [reflexivity|]. cbn [seq map repeat]. f_equal. apply IH. Qed.

Lemma concat_repeat_zeros p : forall n, concat (repeat (zeros p) n) = zeros (p * n).
Proof.
  induction n as [|n IH].
  - rewrite Nat.mul_0_r. reflexivity.
  - cbn [repeat concat]. rewrite IH, zeros_app. f_equal. lia.
Qed.

(* what one answer to a retransmit request looks like *)
Definition reply (packet : bytes) : bytes := [128; 214]%N ++ firstn 2 (skipn 2 packet) ++ packet.

Lemma retransmit_from_in f x : forall n cur,
  In x (retransmit_from f cur n) <->
  exists t p, t < n /\ fifo_get ((cur + N.of_nat t) mod SEQMOD)%N f = Some p /\ x = reply p.
Proof.
  induction n as [|n IH]; intro cur.
  - cbn [retransmit_from]. split; [intros []|intros (t & p & H & _); lia].
  - cbn [retransmit_from]. rewrite in_app_iff, IH. split.
    + intros [H|(t & p & Ht & Hg & Hx)].
      * exists 0. destruct (fifo_get (cur mod SEQMOD)%N f) as [p|] eqn:E; [|destruct H].
        destruct H as [H|[]]. exists p. repeat split; [lia| |symmetry; exact H].
        replace (cur + N.of_nat 0)%N with cur by lia. exact E.
      * exists (S t), p. repeat split; [lia| |exact Hx].
        replace (cur + N.of_nat (S t))%N with (cur + 1 + N.of_nat t)%N by lia. exact Hg.
    + intros (t & p & Ht & Hg & Hx). destruct t as [|t].
      * left. replace (cur + N.of_nat 0)%N with cur in Hg by lia. rewrite Hg. left. symmetry. exact Hx.
      * right. exists t, p. repeat split; [lia| |exact Hx].
        replace (cur + 1 + N.of_nat t)%N with (cur + N.of_nat (S t))%N by lia. exact Hg.
Qed.

(* at most one answer per requested sequence number *)
Lemma retransmit_from_length f : forall n cur, length (retransmit_from f cur n) <= n.
Proof.
  induction n as [|n IH]; intro cur; [apply le_n|].
  cbn [retransmit_from]. rewrite app_length. specialize (IH (cur + 1)%N).
  destruct (fifo_get _ f); cbn [length]; unfold bytes in *; lia.
Qed.

Section Backlog.
  Variables (fs : nat) (latency start ssrc : N) (lim : nat) (seq0 : N) (chunks : list bytes).
  Hypothesis Hlim1 : 1 <= lim.
  Hypothesis Hlim2 : (N.of_nat lim < SEQMOD)%N.

  Notation seqof := (seqof seq0).
  Notation pkt := (pkt fs latency ssrc seq0 chunks).
  Notation window := (window lim).
  Notation backlog_at := (backlog_at fs latency ssrc lim seq0 chunks).

  Lemma window_inj i a b : In a (window i) -> In b (window i) -> seqof a = seqof b -> a = b.
  Proof.
    intros Ha Hb E. apply in_window in Ha. apply in_window in Hb.
    destruct (Nat.lt_trichotomy a b) as [L|[L|L]]; [|exact L|]; exfalso.
    - revert E. apply seqof_neq; [exact L|]. unfold SEQMOD in *. lia.
    - symmetry in E. revert E. apply seqof_neq; [exact L|]. unfold SEQMOD in *. lia.
  Qed.

  Lemma fifo_get_map (w : list nat) j :
    (forall a b, In a w -> In b w -> seqof a = seqof b -> a = b) -> In j w ->
    fifo_get (seqof j) (map (fun j => (seqof j, pkt j)) w) = Some (pkt j).
  Proof.
    unfold fifo_get. induction w as [|a w IH]; intros Hinj Hj; [destruct Hj|].
    cbn [map find fst]. destruct (seqof a =? seqof j)%N eqn:E.
    - apply N.eqb_eq in E. rewrite (Hinj a j (or_introl eq_refl) Hj E). reflexivity.
    - destruct Hj as [->|Hj]; [rewrite N.eqb_refl in E; discriminate|].
      apply IH; [|exact Hj]. intros x y Hx Hy. apply Hinj; right; assumption.
  Qed.

  Lemma fifo_get_at i j : In j (window i) -> fifo_get (seqof j) (backlog_at i) = Some (pkt j).
  Proof. intro H. apply fifo_get_map; [apply window_inj|exact H]. Qed.

  Lemma fifo_get_inv i s p : fifo_get s (backlog_at i) = Some p ->
    exists j, In j (window i) /\ seqof j = s /\ p = pkt j.
  Proof.
    unfold fifo_get. destruct (find _ _) as [e|] eqn:E; [|discriminate]. intro H. inversion H; subst p.
    apply find_some in E as [Hin He]. apply in_map_iff in Hin as [j [<- Hj]].
    exists j. cbn [fst snd] in *. apply N.eqb_eq in He. auto.
  Qed.

  Lemma reply_pkt j : reply (pkt j) = ([128; 214]%N ++ be16 (seqof j) ++ pkt j).
  Proof. reflexivity. Qed.

  (* completeness: a packet still in the backlog whose sequence number lies in the requested
     window (taken modulo 2^16) is sent again, byte for byte *)
  Lemma retransmit_complete i first count j t :
    In j (window i) -> t < N.to_nat count -> ((first + N.of_nat t) mod SEQMOD)%N = seqof j ->
    In ([128; 214]%N ++ be16 (seqof j) ++ pkt j) (retransmit (backlog_at i) first count).
  Proof.
    intros Hj Ht Hs. unfold retransmit. apply retransmit_from_in. exists t, (pkt j).
    split; [exact Ht|]. split; [|symmetry; apply reply_pkt]. rewrite Hs. apply fifo_get_at, Hj.
  Qed.

  (* soundness: nothing else is ever sent in answer *)
  Lemma retransmit_sound i first count x :
    In x (retransmit (backlog_at i) first count) ->
    exists j t, In j (window i) /\ t < N.to_nat count /\ ((first + N.of_nat t) mod SEQMOD)%N = seqof j
                /\ x = [128; 214]%N ++ be16 (seqof j) ++ pkt j.
  Proof.
    unfold retransmit. intro H. apply retransmit_from_in in H as (t & p & Ht & Hg & ->).
    apply fifo_get_inv in Hg as (j & Hj & Hs & ->). exists j, t.
    split; [exact Hj|]. split; [exact Ht|]. split; [symmetry; exact Hs|apply reply_pkt].
  Qed.
End Backlog.

(* ------------------------------------------------------------------ any chunk script *)
Section Chunks.
  Variables (fs : nat) (latency ssrc seq0 : N) (chunks : list bytes).

  Lemma payloads_all :
    map (payload fs chunks) (seq 0 (total latency chunks))
    = map (padded (psz fs)) chunks ++ repeat (zeros (psz fs)) (npad latency).
  Proof.
    unfold total. rewrite seq_app, map_app. f_equal.
    - unfold nd. rewrite <- (map_nth_seq (padded (psz fs)) [] chunks). apply map_ext_in.
      intros i Hi. apply in_seq in Hi. unfold payload, nd.
      assert (E : (i <? length chunks) = true) by (apply Nat.ltb_lt; lia). rewrite E. reflexivity.
    - rewrite <- (map_const_seq (zeros (psz fs)) (npad latency) (0 + nd chunks)). apply map_ext_in.
      intros i Hi. apply in_seq in Hi. unfold payload.
      assert (E : (i <? nd chunks) = false) by (apply Nat.ltb_ge; lia). rewrite E. reflexivity.
  Qed.

  Lemma out_payloads n :
    map (skipn 12) (map (pkt fs latency ssrc seq0 chunks) (seq 0 n)) = map (payload fs chunks) (seq 0 n).
  Proof. rewrite map_map. apply map_ext. intro i. apply pkt_payload. Qed.

  (* the backlog in terms of what was sent *)
  Lemma backlog_of_out lim i :
    backlog_at fs latency ssrc lim seq0 chunks i
    = map (fun d => (seq_of_dgram d, d))
          (skipn (i - Nat.min i lim) (map (pkt fs latency ssrc seq0 chunks) (seq 0 i))).
  Proof.
    unfold backlog_at, window. rewrite skipn_map, skipn_seq, map_map.
    replace (i - (i - Nat.min i lim)) with (Nat.min i lim) by lia.
    replace (0 + (i - Nat.min i lim)) with (i - Nat.min i lim) by lia.
    apply map_ext. intro j. rewrite pkt_seq. reflexivity.
  Qed.

  Lemma out_prefix i n : i <= n ->
    map (pkt fs latency ssrc seq0 chunks) (seq 0 i)
    = firstn i (map (pkt fs latency ssrc seq0 chunks) (seq 0 n)).
  Proof. intro H. rewrite firstn_map, firstn_seq, Nat.min_l by lia. reflexivity. Qed.
End Chunks.

(* ------------------------------------------------------------------ FileSource *)
Section File.
  Variables (fs : nat) (latency start ssrc : N) (lim : nat) (seq0 : N) (src : bytes).
  Hypothesis Hfs : 0 < fs.
  Hypothesis Heven : Nat.even (length src) = true.

  Definition fchunks : list bytes := map swap16 (cut (S (length src)) (psz fs) src).

  Lemma psz_pos : 0 < psz fs.
  Proof. unfold psz, FRAMES_PER_PACKET. lia. Qed.

  Lemma psz_even : Nat.even (psz fs) = true.
  Proof. apply even_mul_352. Qed.

  Lemma fscript : file_script (S (length src)) (psz fs) src = map Ok fchunks.
  Proof. unfold fchunks. rewrite map_map. apply file_script_cut; [apply psz_even|exact Heven]. Qed.

  Lemma fchunks_ok : Forall (fun ch => ch <> [] /\ length ch <= psz fs) fchunks.
  Proof.
    unfold fchunks. apply Forall_forall. intros x Hx. apply in_map_iff in Hx as [ch [<- Hch]].
    pose proof (proj1 (Forall_forall _ _) (cut_chunks (S (length src)) (psz fs) src psz_pos psz_even Heven) ch Hch)
      as (Hne & Hle & Hev).
    split; [apply swap16_nonempty; assumption|rewrite swap16_length; assumption].
  Qed.

  Lemma fchunks_count : length fchunks = (length src + (psz fs - 1)) / psz fs.
  Proof. unfold fchunks. rewrite map_length. apply cut_count; [apply psz_pos|lia]. Qed.

  Lemma fpayloads :
    concat (map (padded (psz fs)) fchunks)
    = swap16 src ++ zeros ((psz fs - length src mod psz fs) mod psz fs).
  Proof.
    unfold fchunks. rewrite map_map.
    apply concat_padded_cut; [apply psz_pos|apply psz_even|exact Heven|lia].
  Qed.

  Lemma payload_conserved :
    concat (map (skipn 12) (map (pkt fs latency ssrc seq0 fchunks) (seq 0 (total latency fchunks))))
    = swap16 src ++ zeros ((psz fs - length src mod psz fs) mod psz fs) ++ zeros (psz fs * npad latency).
  Proof.
    rewrite out_payloads, payloads_all, concat_app, fpayloads, concat_repeat_zeros.
    rewrite <- app_assoc. reflexivity.
  Qed.
End File.
