(* C16 - the vocabulary in which the property is stated (no reference to the closed forms
   used in the proofs). *)
From Coq Require Import List Arith Bool NArith ZArith.
From PV Require Import Common.Cases C16.Model.
Import ListNotations.
Local Open Scope nat_scope.

(* A session as StreamContext.reset()/RtspSession create it: positive frame size and latency
   (latency = 22050 + sample rate), a plain (unencrypted) protocol object, 16-bit start sequence number, 32-bit session id, a backlog
   limit between 1 and 65535 (pyatv: 1000), transport not closing. *)
(* The protocol object puts header ++ audio on the wire and returns the same bytes: AirPlayV1, and
   AirPlayV2 when no audio cipher is set. *)
Definition plain_protocol (send : nat -> bytes -> bytes -> bytes * bytes) : Prop :=
  forall n h a, send n h a = (h ++ a, h ++ a).

(* The obligation on ANY protocol object for retransmission to be byte-identical: the packet it
   returns (which StreamClient stores in the backlog) is the datagram it handed to the transport. *)
Definition returns_what_it_sent (send : nat -> bytes -> bytes -> bytes * bytes) : Prop :=
  forall n h a, snd (send n h a) = fst (send n h a).

Definition wf_cfg (c : cfg) (seq0 : N) : Prop :=
  plain_protocol (c_send c) /\ 0 < c_fs c /\ (0 < c_latency c)%N /\ 1 <= c_lim c /\ (N.of_nat (c_lim c) < SEQMOD)%N /\
  (seq0 < SEQMOD)%N /\ (c_ssrc c < TSLIM)%N /\ c_close c = None.

Definition no_stop (sched : list lap) : Prop := Forall (fun l => l_stop l = false) sched.

Definition data_packets (c : cfg) (src : bytes) : nat :=            (* ceil(len / packet_size) *)
  (length src + (packet_size c - 1)) / packet_size c.
Definition silence_packets (c : cfg) : nat := N.to_nat ((c_latency c + 351) / 352).   (* ceil(latency/352) *)
Definition all_packets (c : cfg) (src : bytes) : nat := data_packets c src + silence_packets c.

(* every RTP timestamp of the stream fits the 32-bit header field *)
Definition ts_fit (c : cfg) (npk : nat) : Prop := (c_latency c + 352 * N.of_nat npk <= TSLIM)%N.

(* streaming the sample buffer [src] of a FileSource *)
Definition file_stream (c : cfg) (seq0 : N) (src : bytes) (sched : list lap) : st * outcome :=
  stream c seq0 (file_script (S (length src)) (packet_size c) src) sched.

(* streaming a source whose successive readframes() calls return [chunks] *)
Definition chunk_stream (c : cfg) (seq0 : N) (chunks : list bytes) (sched : list lap) : st * outcome :=
  stream c seq0 (map Ok chunks) sched.

Definition chunks_ok (c : cfg) (chunks : list bytes) : Prop :=
  Forall (fun ch => ch <> [] /\ length ch <= packet_size c) chunks.

(* fields of an audio datagram *)
Definition payload_of (d : bytes) : bytes := skipn 12 d.
Definition ts_of (d : bytes) : N :=
  (nthb d 4 * 16777216 + nthb d 5 * 65536 + nthb d 6 * 256 + nthb d 7)%N.
Definition ssrc_of (d : bytes) : N :=
  (nthb d 8 * 16777216 + nthb d 9 * 65536 + nthb d 10 * 256 + nthb d 11)%N.

(* a schedule that lets the stream run to its end without compensation or stop() *)
Definition plain_sched (n : nat) : list lap := repeat {| l_stop := false; l_behind := 0%Z |} n.

(* the receiver's retransmit request (type 0x55 with marker bit, as Apple devices send it) *)
Definition retransmit_request (first count : N) : bytes := [128; 213; 0; 1]%N ++ be16 first ++ be16 count.

(* the reply that repeats datagram d *)
Definition retransmit_reply (d : bytes) : bytes := [128; 214]%N ++ be16 (seq_of_dgram d) ++ d.

(* position i is among the most recent [lim] of n datagrams sent *)
Definition recent (lim n i : nat) : Prop := n - Nat.min n lim <= i < n.

(* a reset() that forgets to clear padding_sent (for the refutation next to C16_next_stream_like_first) *)
Definition stale_reset (s : st) (seq_new now : N) : st :=
  {| s_seq := seq_new; s_head := now; s_pad := s_pad s; s_src := s_src s; s_reads := s_reads s;
     s_backlog := s_backlog s; s_out := s_out s |}.
