(* C16 - any protocol object: if send_audio_packet returns the datagram it sent, every backlog
   entry - hence every retransmission - is byte-identical to a datagram that went out on the
   audio transport.  Holds for every configuration, source script and schedule, also when the
   stream raises or ends early. *)
From Coq Require Import List Arith Bool NArith ZArith Lia.
From PV Require Import Common.Cases C16.Model C16.Spec C16.ProofsA C16.ProofsC.
Import ListNotations.
Local Open Scope nat_scope.

Definition bl_sent (s : st) : Prop := forall k v, In (k, v) (s_backlog s) -> In v (s_out s).

Lemma fifo_set_in lim f k v f' : fifo_set lim f k v = Ok f' ->
  forall e, In e f' -> In e f \/ e = (k, v).
Proof.
  unfold fifo_set. destruct (fifo_mem k f); [discriminate|].
  destruct (lim <? length f + 1).
  - destruct f as [|p t]; [discriminate|]. intro H. inversion H; subst f'. intros e He.
    apply in_app_iff in He as [He|[He|[]]]; [left; right; exact He|right; symmetry; exact He].
  - intro H. inversion H; subst f'. intros e He.
    apply in_app_iff in He as [He|[He|[]]]; [left; exact He|right; symmetry; exact He].
Qed.

Lemma fifo_get_in k f p : fifo_get k f = Some p -> exists k', In (k', p) f.
Proof.
  unfold fifo_get. destruct (find _ f) as [e|] eqn:E; [|discriminate]. intro H. inversion H; subst p.
  apply find_some in E as [Hin _]. exists (fst e). destruct e. exact Hin.
Qed.

Section AnyProtocol.
  Variable c : cfg.
  Hypothesis Hret : returns_what_it_sent (c_send c).

  Lemma emit_inv first s frames : bl_sent s -> bl_sent (fst (emit c first s frames)).
  Proof.
    intro I. unfold emit. destruct (audio_header _ _ _ _) as [header|e]; [|exact I].
    destruct (is_closing c s); [exact I|].
    pose proof (Hret (length (s_out s)) header frames) as R.
    destruct (c_send c (length (s_out s)) header frames) as [wire packet]. cbn [fst snd] in R. subst packet.
    destruct (fifo_set _ _ _ _) as [bl|e] eqn:F; cbn [fst]; intros k v Hin; cbn [s_backlog s_out] in *.
    - apply in_app_iff. destruct (fifo_set_in _ _ _ _ _ F _ Hin) as [H|H].
      + left. apply (I k v H).
      + right. inversion H. left. reflexivity.
    - apply in_app_iff. left. apply (I k v Hin).
  Qed.

  Lemma send_packet_inv first s : bl_sent s -> bl_sent (fst (send_packet c first s)).
  Proof.
    intro I. unfold send_packet. destruct (c_latency c <=? s_pad s)%N; [exact I|].
    assert (I1 : bl_sent (fst (readframes s))) by (unfold readframes; destruct (s_src s); exact I).
    destruct (readframes s) as [s1 r]. cbn [fst] in I1. destruct r as [frames0|e]; [|exact I1].
    destruct (c_fs c =? 0); [exact I1|].
    assert (I2 : bl_sent (snd (pad_frames c s1 frames0))).
    { unfold pad_frames. destruct frames0; [exact I1|]. destruct (length _ =? _); exact I1. }
    destruct (pad_frames c s1 frames0) as [frames s2]. cbn [snd] in I2. apply emit_inv, I2.
  Qed.

  Lemma send_n_inv : forall k s, bl_sent s -> bl_sent (fst (send_n c k s)).
  Proof.
    induction k as [|k IH]; intros s I; [exact I|]. cbn [send_n].
    pose proof (send_packet_inv false s I) as I1. destruct (send_packet c false s) as [s1 [sent|e]]; cbn [fst] in I1; [|exact I1].
    destruct (sent =? 0)%N; [exact I1|].
    pose proof (IH s1 I1) as I2. destruct (send_n c k s1) as [s2 [[t more]|e]]; exact I2.
  Qed.

  Lemma laps_inv : forall sched total s, bl_sent s -> bl_sent (fst (laps c sched total s)).
  Proof.
    induction sched as [|l t IH]; intros total s I; [exact I|]. cbn [laps].
    destruct (l_stop l); [exact I|].
    pose proof (send_packet_inv (total =? 0)%N s I) as I1.
    destruct (send_packet c (total =? 0)%N s) as [s1 [sent|e]]; cbn [fst] in I1; [|exact I1].
    destruct (sent =? 0)%N; [exact I1|].
    destruct (Z.of_nat FRAMES_PER_PACKET <=? l_behind l)%Z; [|apply IH, I1].
    pose proof (send_n_inv (compensate (l_behind l)) s1 I1) as I2.
    destruct (send_n c (compensate (l_behind l)) s1) as [s2 [[n more]|e]]; cbn [fst] in I2; [|exact I2].
    destruct more; [apply IH, I2|exact I2].
  Qed.

  Lemma stream_inv seq0 script sched : bl_sent (fst (stream c seq0 script sched)).
  Proof. unfold stream. apply laps_inv. intros k v []. Qed.

  Lemma retransmit_identical seq0 script sched first count x :
    In x (retransmit (s_backlog (fst (stream c seq0 script sched))) first count) ->
    exists d, In d (s_out (fst (stream c seq0 script sched))) /\
              x = [128; 214]%N ++ firstn 2 (skipn 2 d) ++ d.
  Proof.
    unfold retransmit. intro H. apply retransmit_from_in in H as (t & p & _ & Hg & ->).
    apply fifo_get_in in Hg as [k Hin]. exists p. split; [|reflexivity].
    apply (stream_inv seq0 script sched k p Hin).
  Qed.
End AnyProtocol.

Lemma returns_v1 : returns_what_it_sent (send_audio_packet V1).
Proof. intros n h a. reflexivity. Qed.
Lemma returns_v2plain : returns_what_it_sent (send_audio_packet V2plain).
Proof. intros n h a. reflexivity. Qed.
Lemma returns_v2cipher : returns_what_it_sent (send_audio_packet V2cipher).
Proof. intros n h a. reflexivity. Qed.

Lemma plain_v1 : plain_protocol (send_audio_packet V1).
Proof. intros n h a. reflexivity. Qed.
Lemma plain_v2plain : plain_protocol (send_audio_packet V2plain).
Proof. intros n h a. unfold send_audio_packet. rewrite app_nil_r. reflexivity. Qed.
