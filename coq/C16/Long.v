(* C16 - streams too long to be written out in a case file (more than 2^16 packets: the sequence
   number comes back to its start value).  The datagram headers the model produces are given in
   closed form by [model_hdr] - proved below to be the headers of [file_stream]'s output for
   EVERY length - and compared with the implementation through a compact summary
   ([summarize]) that the harness computes from the observed datagrams in the same way. *)
From Coq Require Import List Arith Bool NArith ZArith Lia.
From PV Require Import Common.Cases C16.Model C16.Spec C16.ProofsA C16.ProofsB C16.ProofsC C16.ProofsD.
Import ListNotations.
Local Open Scope nat_scope.

(* the 12 header bytes of datagram number iN *)
Definition model_hdr (latency ssrc seq0 iN : N) : bytes :=
  hdr ssrc (iN =? 0)%N ((seq0 + iN) mod SEQMOD)%N (latency + 352 * iN)%N.

Fixpoint hdrs_from (latency ssrc seq0 iN : N) (n : nat) : list bytes :=
  match n with
  | O => []
  | S m => model_hdr latency ssrc seq0 iN :: hdrs_from latency ssrc seq0 (iN + 1) m
  end.

(* ------------------------------------------------------------------ summary of a header list *)
Record hsum := {
  h_count : N;
  h_first : bytes;            (* first header *)
  h_last : bytes;             (* last header *)
  h_markers : list N;         (* positions whose type byte is 0xE0 *)
  h_odd : list N;             (* positions whose version/type bytes are neither 80 E0 nor 80 60 *)
  h_seqbreaks : list N;       (* positions i > 0 with seq(i) <> (seq(i-1)+1) mod 2^16 *)
  h_tsbreaks : list N;        (* positions i > 0 with ts(i) <> (ts(i-1)+352) mod 2^32 *)
  h_ssrcbreaks : list N       (* positions i > 0 whose ssrc differs from the previous one *)
}.

Definition hseq (h : bytes) : N := (nthb h 2 * 256 + nthb h 3)%N.
Definition hts (h : bytes) : N := (nthb h 4 * 16777216 + nthb h 5 * 65536 + nthb h 6 * 256 + nthb h 7)%N.
Definition hssrc (h : bytes) : N := (nthb h 8 * 16777216 + nthb h 9 * 65536 + nthb h 10 * 256 + nthb h 11)%N.

Definition hstep (acc : hsum) (h : bytes) : hsum :=
  let i := h_count acc in
  let p := h_last acc in
  let later := negb (i =? 0)%N in
  {| h_count := (i + 1)%N;
     h_first := if later then h_first acc else h;
     h_last := h;
     h_markers := if (nthb h 1 =? 224)%N then h_markers acc ++ [i] else h_markers acc;
     h_odd := if (nthb h 0 =? 128)%N && ((nthb h 1 =? 224)%N || (nthb h 1 =? 96)%N) then h_odd acc
              else h_odd acc ++ [i];
     h_seqbreaks := if later && negb (hseq h =? (hseq p + 1) mod SEQMOD)%N then h_seqbreaks acc ++ [i]
                    else h_seqbreaks acc;
     h_tsbreaks := if later && negb (hts h =? (hts p + 352) mod TSLIM)%N then h_tsbreaks acc ++ [i]
                   else h_tsbreaks acc;
     h_ssrcbreaks := if later && negb (hssrc h =? hssrc p)%N then h_ssrcbreaks acc ++ [i]
                     else h_ssrcbreaks acc |}.

Definition hsum0 : hsum :=
  {| h_count := 0; h_first := []; h_last := []; h_markers := []; h_odd := []; h_seqbreaks := [];
     h_tsbreaks := []; h_ssrcbreaks := [] |}.

Definition summarize (hs : list bytes) : hsum := fold_left hstep hs hsum0.

(* the same summary for the model's first n headers, computed without building the list
   (and without a unary number of that size) *)
Definition sum_step (latency ssrc seq0 : N) (st : N * hsum) : N * hsum :=
  (fst st + 1, hstep (snd st) (model_hdr latency ssrc seq0 (fst st)))%N.
Definition sum_model (latency ssrc seq0 n : N) : hsum :=
  snd (N.iter n (sum_step latency ssrc seq0) (0%N, hsum0)).

Definition nlist_beq := list_beq N.eqb.
Definition hsum_eqb (a b : hsum) : bool :=
  (h_count a =? h_count b)%N && bytes_beq (h_first a) (h_first b) && bytes_beq (h_last a) (h_last b)
  && nlist_beq (h_markers a) (h_markers b) && nlist_beq (h_odd a) (h_odd b)
  && nlist_beq (h_seqbreaks a) (h_seqbreaks b) && nlist_beq (h_tsbreaks a) (h_tsbreaks b)
  && nlist_beq (h_ssrcbreaks a) (h_ssrcbreaks b).

(* ------------------------------------------------------------------ the correspondence case *)
Record olong := {
  g_fs : N; g_latency : N; g_ssrc : N; g_seq0 : N; g_srclen : N;
  g_sum : hsum;                         (* summary of the headers observed on the implementation *)
  g_samples : list (N * bytes);         (* (position, header observed there) *)
  g_final : N * N * N                   (* rtpseq, head_ts - start_ts, padding_sent after the stream *)
}.

Definition check_long (g : olong) : bool :=
  let ps := (352 * g_fs g)%N in
  let n := ((g_srclen g + (ps - 1)) / ps + (g_latency g + 351) / 352)%N in       (* all_packets *)
  let '(fseq, fadv, fpad) := g_final g in
  hsum_eqb (sum_model (g_latency g) (g_ssrc g) (g_seq0 g) n) (g_sum g)
  && forallb (fun s => bytes_beq (model_hdr (g_latency g) (g_ssrc g) (g_seq0 g) (fst s)) (snd s)) (g_samples g)
  && (fseq =? (g_seq0 g + n) mod SEQMOD)%N && (fadv =? 352 * n)%N
  && (fpad =? 352 * ((g_latency g + 351) / 352))%N.

(* ------------------------------------------------------------------ model_hdr is the model's header *)
Lemma model_hdr_pkt fs latency ssrc seq0 chunks i :
  firstn 12 (pkt fs latency ssrc seq0 chunks i) = model_hdr latency ssrc seq0 (N.of_nat i).
Proof.
  unfold pkt, model_hdr, hdr, seqof, tsof. cbn [app be16 be32 firstn].
  assert (E : (N.of_nat i =? 0)%N = (i =? 0)) by (destruct i; reflexivity).
  rewrite E. reflexivity.
Qed.

Lemma hdrs_from_map latency ssrc seq0 : forall n a,
  hdrs_from latency ssrc seq0 (N.of_nat a) n
  = map (fun i => model_hdr latency ssrc seq0 (N.of_nat i)) (seq a n).
Proof.
  induction n as [|n IH]; intro a; [reflexivity|]. cbn [hdrs_from seq map]. f_equal.
  replace (N.of_nat a + 1)%N with (N.of_nat (S a)) by lia. apply IH.
Qed.

(* For every length: the headers of a complete file stream are [hdrs_from ... 0 all_packets]. *)
Lemma long_headers c seq0 src sched :
  wf_cfg c seq0 -> Nat.even (length src) = true -> ts_fit c (all_packets c src) ->
  no_stop sched -> all_packets c src < length sched ->
  map (firstn 12) (s_out (fst (file_stream c seq0 src sched)))
  = hdrs_from (c_latency c) (c_ssrc c) seq0 0 (all_packets c src).
Proof.
  intros Hwf He Hts Hns Hlen.
  destruct (file_reached c seq0 src sched Hwf He Hts) as (j & E & Hch & Hts' & Hn & R).
  rewrite <- Hn in Hlen. destruct (r_complete _ _ _ _ _ R Hns Hlen) as [Hj _].
  rewrite E, (reached_out _ _ _ _ _ R), Hj, Hn, map_map.
  change 0%N with (N.of_nat 0). rewrite hdrs_from_map. apply map_ext. intro i. apply model_hdr_pkt.
Qed.

Lemma iter_shift {A} (f : A -> A) : forall n x, Nat.iter (S n) f x = Nat.iter n f (f x).
Proof.
  induction n as [|n IH]; intro x; [reflexivity|].
  change (Nat.iter (S (S n)) f x) with (f (Nat.iter (S n) f x)). rewrite IH. reflexivity.
Qed.

Lemma sum_model_iter latency ssrc seq0 : forall n a acc,
  Nat.iter n (sum_step latency ssrc seq0) (a, acc)
  = ((a + N.of_nat n)%N, fold_left hstep (hdrs_from latency ssrc seq0 a n) acc).
Proof.
  induction n as [|n IH]; intros a acc.
  - cbn [Nat.iter hdrs_from fold_left N.of_nat]. rewrite N.add_0_r. reflexivity.
  - rewrite iter_shift. unfold sum_step at 2. cbn [fst snd]. rewrite IH.
    cbn [hdrs_from fold_left]. replace (a + 1 + N.of_nat n)%N with (a + N.of_nat (S n))%N by lia. reflexivity.
Qed.

Lemma sum_model_spec latency ssrc seq0 n :
  sum_model latency ssrc seq0 n = summarize (hdrs_from latency ssrc seq0 0 (N.to_nat n)).
Proof.
  unfold sum_model, summarize. rewrite N2Nat.inj_iter, sum_model_iter. reflexivity.
Qed.
