(* C16 - model of the RAOP audio sender.

   Mirrors, branch for branch, the code as it stands in /repo:

     pyatv/protocols/raop/audio_source.py   _to_audio_samples, FileSource.readframes
     pyatv/protocols/raop/fifo.py           PacketFifo.__setitem__/__getitem__/__contains__
     pyatv/protocols/raop/packets.py        AudioPacketHeader (>BBHII), RetransmitReqeust (>BBHHH)
     pyatv/protocols/raop/protocols/__init__.py  StreamContext (rtptime, frame_size, packet_size)
     pyatv/protocols/raop/protocols/airplayv1.py send_audio_packet
     pyatv/protocols/raop/stream_client.py  StreamClient._stream_data, _send_packet,
                                            _send_number_of_packets,
                                            ControlClient.datagram_received, _retransmit_lost_packets

   Bytes are [list N].  Sizes of byte strings are [nat] (they index lists), protocol
   fields (sequence number, timestamps, latency) are [N].

   The audio source is represented by the SCRIPT of results its successive
   [readframes(352)] calls return (list of [Ok chunk | Raise e]; once the script is used
   up the source answers NO_FRAMES for ever).  For buffered sources the abstraction is
   "eventually delivers all frames": an empty answer means end of audio only when the
   producer has finished (a source that answers nothing while its producer is merely late
   breaks the property - the send loop takes it for the end and starts the silence).  [file_script] is the script produced by
   FileSource for a given sample buffer.  Timing (Statistics/monotonic) is not modelled:
   the environment supplies, per lap of the send loop, the value [frames_behind] had and
   whether stop() was called; the theorems quantify over all such schedules.

   NO proofs in this file. *)
From Coq Require Import List Arith Bool NArith ZArith.
From PV Require Import Common.Cases.
Import ListNotations.
Local Open Scope N_scope.

Inductive exn := ValueError | StructError | IndexError | ZeroDivisionError.
Inductive res (A : Type) := Ok (a : A) | Raise (e : exn).
Arguments Ok {A} a.
Arguments Raise {A} e.

Definition bytes := list N.

(* ------------------------------------------------------------------ constants *)
Definition FRAMES_PER_PACKET : nat := 352.        (* pyatv/support/rtsp.py *)
Definition MAX_PACKETS_COMPENSATE : Z := 3.       (* stream_client.py *)
Definition PACKET_BACKLOG_SIZE : nat := 1000.     (* stream_client.py *)
Definition SEQMOD : N := 65536.                   (* 2**16 *)
Definition TSLIM : N := 4294967296.               (* 2**32, range of struct 'I' *)

(* ------------------------------------------------------------------ audio_source.py *)

(* array.array("h", data).byteswap().tobytes() on a little-endian host *)
Fixpoint swap16 (l : bytes) : bytes :=
  match l with
  | a :: b :: t => b :: a :: swap16 t
  | _ => []
  end.

(* _to_audio_samples(data: bytes): array("h", data) raises ValueError ("bytes length not
   a multiple of item size") for an odd number of bytes *)
Definition to_audio_samples (data : bytes) : res bytes :=
  if Nat.even (length data) then Ok (swap16 data) else Raise ValueError.

(* FileSource.readframes(nframes) with bytes_to_read = sample_size*channels*nframes =: btr.
   State: [rest] = self.samples[self.pos:]  ([] when pos >= len(samples)).
     if self.pos >= len(self.samples): return NO_FRAMES
     data = self.samples[pos : min(len, pos+btr)]; self.pos += btr
     return _to_audio_samples(data)                                              *)
Definition file_read (btr : nat) (rest : bytes) : bytes * res bytes :=
  match rest with
  | [] => ([], Ok [])
  | _ :: _ => (skipn btr rest, to_audio_samples (firstn btr rest))
  end.

(* the results of the first [fuel] readframes calls that return something *)
Fixpoint file_script (fuel : nat) (btr : nat) (rest : bytes) : list (res bytes) :=
  match fuel with
  | O => []
  | S f =>
      match rest with
      | [] => []
      | _ :: _ => let '(rest', r) := file_read btr rest in r :: file_script f btr rest'
      end
  end.

(* ------------------------------------------------------------------ fifo.py *)
Definition fifo := list (N * bytes).               (* dict in insertion order *)

Definition fifo_mem (k : N) (f : fifo) : bool := existsb (fun e => fst e =? k) f.

Definition fifo_get (k : N) (f : fifo) : option bytes :=
  match find (fun e => fst e =? k) f with Some e => Some (snd e) | None => None end.

(* __setitem__(index, value) *)
Definition fifo_set (lim : nat) (f : fifo) (k : N) (v : bytes) : res fifo :=
  if fifo_mem k f then Raise ValueError                    (* "already in FIFO" *)
  else if (lim <? length f + 1)%nat then                   (* len(self)+1 > upper_limit *)
    match f with
    | [] => Raise IndexError                               (* list(keys())[0] on empty dict *)
    | _ :: t => Ok (t ++ [(k, v)])                         (* del oldest, then insert *)
    end
  else Ok (f ++ [(k, v)]).

(* clear(): nothing is left - neither items nor any memory of their order *)
Definition fifo_clear (f : fifo) : fifo := [].

(* ------------------------------------------------------------------ packets.py *)
Definition be16 (n : N) : bytes := [n / 256; n mod 256].
Definition be32 (n : N) : bytes :=
  [n / 16777216; (n / 65536) mod 256; (n / 256) mod 256; n mod 256].

(* AudioPacketHeader.encode(0x80, 0xE0 if first else 0x60, seq, ts, ssrc)  struct ">BBHII" *)
Definition audio_header (first : bool) (seq ts ssrc : N) : res bytes :=
  if (seq <? SEQMOD) && (ts <? TSLIM) && (ssrc <? TSLIM)
  then Ok ([128; if first then 224 else 96] ++ be16 seq ++ be32 ts ++ be32 ssrc)
  else Raise StructError.

(* ------------------------------------------------------------------ StreamProtocol.send_audio_packet *)
(* Result: (datagram handed to transport.sendto, packet RETURNED to StreamClient - which is what
   StreamClient stores in the backlog).  [n] = number of audio packets this protocol object has
   sent before (= the out-counter of its audio cipher).

   The AEAD (ChaCha20-Poly1305, 8 byte counter nonce) is not modelled: [sym_enc] is an injective
   symbolic stand-in for encrypt(nonce = counter n, aad, plaintext); the harness checks against
   the real cipher that the bytes on the wire are that encryption. *)
Inductive protocol := V1 | V2plain | V2cipher.

Definition sym_enc (n : nat) (aad pt : bytes) : bytes := N.of_nat n :: aad ++ pt.

(* nonce[-8:] of _PACK_NONCE_WITH_4_BYTE_PAD(counter): the counter as 8 little-endian bytes *)
Fixpoint le_bytes (k : nat) (n : N) : bytes :=
  match k with O => [] | S k' => n mod 256 :: le_bytes k' (n / 256) end.
Definition nonce8 (n : nat) : bytes := le_bytes 8 (N.of_nat n).

Definition send_audio_packet (p : protocol) (n : nat) (header audio : bytes) : bytes * bytes :=
  match p with
  | V1 =>                                   (* airplayv1.py: packet = rtp_header + audio *)
      let packet := header ++ audio in (packet, packet)
  | V2plain =>                              (* airplayv2.py without cipher: nonce = b"" *)
      let packet := header ++ audio ++ [] in (packet, packet)
  | V2cipher =>                             (* airplayv2.py: aad = rtp_header[4:12]; audio = encrypt(audio, aad) *)
      let audio' := sym_enc n (firstn 8 (skipn 4 header)) audio in
      let packet := header ++ audio' ++ nonce8 n in (packet, packet)
  end.

(* ------------------------------------------------------------------ stream state *)
Record cfg := {
  c_send : nat -> bytes -> bytes -> bytes * bytes;   (* the protocol object's send_audio_packet *)
  c_fs : nat;          (* context.frame_size = channels * bytes_per_channel *)
  c_latency : N;       (* context.latency *)
  c_start : N;         (* context.start_ts *)
  c_ssrc : N;          (* rtsp.session_id *)
  c_lim : nat;         (* PacketFifo upper limit (PACKET_BACKLOG_SIZE) *)
  c_close : option nat (* transport.is_closing() is true once this many datagrams were sent *)
}.

Record st := {
  s_seq : N;                    (* context.rtpseq *)
  s_head : N;                   (* context.head_ts *)
  s_pad : N;                    (* context.padding_sent *)
  s_src : list (res bytes);     (* what the source will still return *)
  s_reads : nat;                (* number of readframes calls made *)
  s_backlog : fifo;             (* self._packet_backlog *)
  s_out : list bytes            (* datagrams handed to the audio transport, oldest first *)
}.

Definition packet_size (c : cfg) : nat := (FRAMES_PER_PACKET * c_fs c)%nat.
Definition zeros (n : nat) : bytes := repeat 0 n.

(* int(len(frames) / frame_size); frame_size = 0 is a ZeroDivisionError *)
Definition frames_of (c : cfg) (b : bytes) : N := N.of_nat (length b / c_fs c).

(* context.rtptime = head_ts - (start_ts - latency) *)
Definition rtptime (c : cfg) (s : st) : N := s_head s + c_latency c - c_start c.

Definition is_closing (c : cfg) (s : st) : bool :=
  match c_close c with Some n => (n <=? length (s_out s))%nat | None => false end.

(* source.readframes(FRAMES_PER_PACKET) *)
Definition readframes (s : st) : st * res bytes :=
  match s_src s with
  | [] => ({| s_seq := s_seq s; s_head := s_head s; s_pad := s_pad s; s_src := [];
              s_reads := S (s_reads s); s_backlog := s_backlog s; s_out := s_out s |}, Ok [])
  | r :: t => ({| s_seq := s_seq s; s_head := s_head s; s_pad := s_pad s; s_src := t;
                  s_reads := S (s_reads s); s_backlog := s_backlog s; s_out := s_out s |}, r)
  end.

Definition set_pad (s : st) (p : N) : st :=
  {| s_seq := s_seq s; s_head := s_head s; s_pad := p; s_src := s_src s;
     s_reads := s_reads s; s_backlog := s_backlog s; s_out := s_out s |}.

(* _send_packet, middle part: what is put in the packet for the frames just read
     if not frames:  frames = packet_size * b"\x00"; padding_sent += int(len(frames)/frame_size)
     elif len(frames) != packet_size:  frames += (packet_size - len(frames)) * b"\x00"        *)
Definition pad_frames (c : cfg) (s1 : st) (frames0 : bytes) : bytes * st :=
  let ps := packet_size c in
  match frames0 with
  | [] => (zeros ps, set_pad s1 (s_pad s1 + frames_of c (zeros ps)))        (* padding packet *)
  | _ :: _ =>
      if (length frames0 =? ps)%nat then (frames0, s1)
      else (frames0 ++ zeros (ps - length frames0), s1)                      (* pad last packet *)
  end.

(* _send_packet, last part: header, closing test, send, backlog, bookkeeping *)
Definition emit (c : cfg) (first : bool) (s2 : st) (frames : bytes) : st * res N :=
  match audio_header first (s_seq s2) (rtptime c s2) (c_ssrc c) with
  | Raise e => (s2, Raise e)
  | Ok header =>
      if is_closing c s2 then (s2, Ok 0)
      else
        (* rtpseq, packet = await self._protocol.send_audio_packet(transport, header, audio):
           [wire] went to transport.sendto, [packet] is what came back *)
        let '(wire, packet) := c_send c (length (s_out s2)) header frames in
        let out' := s_out s2 ++ [wire] in
        match fifo_set (c_lim c) (s_backlog s2) (s_seq s2) packet with      (* backlog[rtpseq] = packet *)
        | Raise e =>
            ({| s_seq := s_seq s2; s_head := s_head s2; s_pad := s_pad s2; s_src := s_src s2;
                s_reads := s_reads s2; s_backlog := s_backlog s2; s_out := out' |}, Raise e)
        | Ok bl =>
            ({| s_seq := (s_seq s2 + 1) mod SEQMOD;
                s_head := s_head s2 + frames_of c frames;
                s_pad := s_pad s2; s_src := s_src s2; s_reads := s_reads s2;
                s_backlog := bl; s_out := out' |}, Ok (frames_of c frames))
        end
  end.

(* StreamClient._send_packet(source, first_packet, transport); result = frames sent.
   (frame_size = 0 is outside the domain; the real code divides by it in the places shown
   above, the model reports it right after the read.) *)
Definition send_packet (c : cfg) (first : bool) (s : st) : st * res N :=
  if c_latency c <=? s_pad s then (s, Ok 0)                      (* padding_sent >= latency *)
  else
    let '(s1, r) := readframes s in
    match r with
    | Raise e => (s1, Raise e)
    | Ok frames0 =>
        if (c_fs c =? 0)%nat then (s1, Raise ZeroDivisionError) else
        let '(frames, s2) := pad_frames c s1 frames0 in
        emit c first s2 frames
    end.

(* _send_number_of_packets(source, transport, count) -> (total_frames, has_more) *)
Fixpoint send_n (c : cfg) (count : nat) (s : st) : st * res (N * bool) :=
  match count with
  | O => (s, Ok (0, true))
  | S k =>
      match send_packet c false s with
      | (s1, Raise e) => (s1, Raise e)
      | (s1, Ok sent) =>
          if sent =? 0 then (s1, Ok (0, false))
          else match send_n c k s1 with
               | (s2, Raise e) => (s2, Raise e)
               | (s2, Ok (t, more)) => (s2, Ok (sent + t, more))
               end
      end
  end.

(* one lap of the `while self._is_playing` loop, as seen by the environment *)
Record lap := {
  l_stop : bool;       (* stop() was called before this lap's loop test *)
  l_behind : Z         (* value of stats.frames_behind in this lap *)
}.

Inductive outcome := Finished | Stopped | Running | Raised (e : exn).

(* number of compensation packets: min(int(frames_behind / 352), 3) when behind >= 352 *)
Definition compensate (behind : Z) : nat :=
  if (Z.of_nat FRAMES_PER_PACKET <=? behind)%Z
  then Z.to_nat (Z.min (behind / Z.of_nat FRAMES_PER_PACKET) MAX_PACKETS_COMPENSATE)
  else O.

(* StreamClient._stream_data; [total] = stats.total_frames *)
Fixpoint laps (c : cfg) (sched : list lap) (total : N) (s : st) : st * outcome :=
  match sched with
  | [] => (s, Running)
  | l :: sched' =>
      if l_stop l then (s, Stopped)
      else
        match send_packet c (total =? 0) s with
        | (s1, Raise e) => (s1, Raised e)
        | (s1, Ok sent) =>
            if sent =? 0 then (s1, Finished)
            else
              let total1 := total + sent in
              if (Z.of_nat FRAMES_PER_PACKET <=? l_behind l)%Z then
                match send_n c (compensate (l_behind l)) s1 with
                | (s2, Raise e) => (s2, Raised e)
                | (s2, Ok (t, more)) =>
                    if more then laps c sched' (total1 + t) s2 else (s2, Finished)
                end
              else laps c sched' total1 s1
        end
  end.

Definition init (seq0 start : N) (script : list (res bytes)) : st :=
  {| s_seq := seq0; s_head := start; s_pad := 0; s_src := script; s_reads := O;
     s_backlog := []; s_out := [] |}.

Definition stream (c : cfg) (seq0 : N) (script : list (res bytes)) (sched : list lap) : st * outcome :=
  laps c sched 0 (init seq0 (c_start c) script).

(* StreamContext.reset(): rtpseq = randrange(2**16); start_ts = head_ts = now; padding_sent = 0
   (latency = 22050 + sample_rate is the configuration's).  [seq_new] and [now] are what the
   random generator and the clock deliver. *)
Definition ctx_reset (s : st) (seq_new now : N) : st :=
  {| s_seq := seq_new; s_head := now; s_pad := 0; s_src := s_src s; s_reads := s_reads s;
     s_backlog := s_backlog s; s_out := s_out s |}.

(* A further stream on the same StreamContext, whatever state [prev] an earlier stream left it in:
   stream_file creates a new StreamClient (empty backlog) - or the same StreamClient is used
   again, whose backlog send_audio() cleared in its finally - and a new audio transport around the
   connection's context, opens the new source, and send_audio() resets the context. *)
Definition next_stream (c : cfg) (prev : st) (seq_new : N) (script : list (res bytes)) (sched : list lap)
  : st * outcome :=
  laps c sched 0
    (ctx_reset {| s_seq := s_seq prev; s_head := s_head prev; s_pad := s_pad prev; s_src := script;
                  s_reads := O; s_backlog := fifo_clear (s_backlog prev); s_out := [] |} seq_new (c_start c)).

(* ------------------------------------------------------------------ control client *)

(* ControlClient._retransmit_lost_packets(request, addr) - datagrams sent on the control
   transport, in order.  [cur] = request.lost_seqno + i, [n] = iterations left of
   `for i in range(request.lost_packets)`. *)
Fixpoint retransmit_from (f : fifo) (cur : N) (n : nat) : list bytes :=
  match n with
  | O => []
  | S m =>
      let seqno := cur mod SEQMOD in                               (* (lost_seqno + i) % 2**16 *)
      match fifo_get seqno f with                                  (* if seqno in backlog *)
      | Some packet => [[128; 214] ++ firstn 2 (skipn 2 packet) ++ packet]
      | None => []
      end ++ retransmit_from f (cur + 1) m
  end.

Definition retransmit (f : fifo) (lost_seqno lost_packets : N) : list bytes :=
  retransmit_from f lost_seqno (N.to_nat lost_packets).

Definition nthb (l : bytes) (i : nat) : N := nth i l 0.

(* ControlClient.datagram_received(data, addr) *)
Definition control_received (f : fifo) (data : bytes) : res (list bytes) :=
  if (length data <? 2)%nat then Raise IndexError                  (* data[1] *)
  else if (nthb data 1) mod 128 =? 85 then                         (* & 0x7F == 0x55 *)
    if (length data =? 8)%nat                                      (* struct.unpack(">BBHHH") *)
    then Ok (retransmit f (nthb data 4 * 256 + nthb data 5) (nthb data 6 * 256 + nthb data 7))
    else Raise StructError
  else Ok [].

(* ------------------------------------------------------------------ correspondence *)

(* deterministic test pattern: byte i of the source is (i*a + b) mod 251 *)
Fixpoint pattern_from (a cur : N) (len : nat) : bytes :=
  match len with
  | O => []
  | S n => cur :: pattern_from a ((cur + a) mod 251) n
  end.
Definition pattern (a b : N) (len : nat) : bytes := pattern_from a (b mod 251) len.

Definition exn_eqb (a b : exn) : bool :=
  match a, b with
  | ValueError, ValueError | StructError, StructError | IndexError, IndexError
  | ZeroDivisionError, ZeroDivisionError => true
  | _, _ => false
  end.

(* What the harness can see of the way _stream_data ended: it returned (loop test failed or
   `break`) or it raised. *)
Inductive oend := OReturned | ORaised (e : exn).

Definition outcome_matches (a : outcome) (b : oend) : bool :=
  match a, b with
  | Finished, OReturned | Stopped, OReturned => true
  | Raised x, ORaised y => exn_eqb x y
  | _, _ => false
  end.

(* The records below are what the harness writes; every size is an [N] literal (converted
   here), so that no large nat literal is ever parsed. *)
Definition n2n := N.to_nat.

(* The datagrams observed on the audio transport, canonicalised by the harness: the 12 header
   bytes verbatim and the payload as swap16(next [o_len] bytes of the source) ++ [o_pad] zero
   bytes (checked byte for byte in Python). *)
Record odgram := { o_hdr : bytes; o_len : N; o_pad : N;
                   o_enc : option (N * bytes);   (* the audio cipher was called: (counter, aad) it was given *)
                   o_tail : bytes }.             (* bytes on the wire after the (encrypted) audio *)

Fixpoint rebuild (rest : bytes) (os : list odgram) : list bytes :=
  match os with
  | [] => []
  | o :: t =>
      let audio := swap16 (firstn (n2n (o_len o)) rest) ++ zeros (n2n (o_pad o)) in
      (o_hdr o ++ match o_enc o with
                  | Some (ctr, aad) => sym_enc (n2n ctr) aad audio
                  | None => audio
                  end ++ o_tail o)
      :: rebuild (skipn (n2n (o_len o)) rest) t
  end.

(* A control datagram received after [q_after] audio datagrams had been sent, and the replies
   seen: each reply canonicalised as (4 header bytes, index of the audio datagram it repeats,
   byte-identity checked in Python). *)
Record oreq := { q_after : N; q_data : bytes; q_raised : option exn; q_replies : list (bytes * N) }.

Fixpoint fifo_fold (lim : nat) (f : fifo) (ps : list (N * bytes)) : fifo :=
  match ps with
  | [] => f
  | (k, v) :: t => match fifo_set lim f k v with Ok f' => fifo_fold lim f' t | Raise _ => f end
  end.

Definition seq_of_dgram (d : bytes) : N := nthb d 2 * 256 + nthb d 3.

Definition check_req (lim : nat) (out : list bytes) (q : oreq) : bool :=
  let sent := firstn (n2n (q_after q)) out in
  let f := fifo_fold lim [] (map (fun d => (seq_of_dgram d, d)) sent) in
  match control_received f (q_data q), q_raised q with
  | Raise e, Some e' => exn_eqb e e'
  | Ok rs, None =>
      list_beq bytes_beq rs (map (fun r => fst r ++ nth (n2n (snd r)) out []) (q_replies q))
  | _, _ => false
  end.

Record ocase := {
  k_proto : protocol; k_fs : N; k_latency : N; k_start : N; k_ssrc : N; k_lim : N; k_close : option N;
  k_prev : N * N * N;                       (* rtpseq, head_ts, padding_sent of the context before send_audio's reset() *)
  k_seq0 : N;
  k_srclen : N; k_pa : N; k_pb : N;         (* source = pattern pa pb srclen *)
  k_sched : list lap;
  (* observed on the implementation *)
  k_outcome : oend;
  k_dgrams : list odgram;
  k_final : N * N * N * N;                  (* rtpseq, head_ts, padding_sent, readframes calls *)
  k_keys : list N;                          (* backlog keys in insertion order *)
  k_blfrom : N;                             (* backlog values = datagrams number blfrom.. (checked in Python) *)
  k_reqs : list oreq
}.

Definition check_case (k : ocase) : bool :=
  let c := {| c_send := send_audio_packet (k_proto k); c_fs := n2n (k_fs k); c_latency := k_latency k; c_start := k_start k; c_ssrc := k_ssrc k;
              c_lim := n2n (k_lim k);
              c_close := match k_close k with Some n => Some (n2n n) | None => None end |} in
  let src := pattern (k_pa k) (k_pb k) (n2n (k_srclen k)) in
  let script := file_script (S (n2n (k_srclen k))) (packet_size c) src in
  let '(pseq, phead, ppad) := k_prev k in
  let prev := {| s_seq := pseq; s_head := phead; s_pad := ppad; s_src := []; s_reads := O; s_backlog := [];
                 s_out := [] |} in
  let '(s, oc) := next_stream c prev (k_seq0 k) script (k_sched k) in
  let '(fseq, fhead, fpad, freads) := k_final k in
  outcome_matches oc (k_outcome k)
  && list_beq bytes_beq (s_out s) (rebuild src (k_dgrams k))
  && (s_seq s =? fseq) && (s_head s =? fhead) && (s_pad s =? fpad) && (N.of_nat (s_reads s) =? freads)
  && list_beq N.eqb (map fst (s_backlog s)) (k_keys k)
  && list_beq bytes_beq (map snd (s_backlog s)) (skipn (n2n (k_blfrom k)) (s_out s))
  && forallb (check_req (n2n (k_lim k)) (s_out s)) (k_reqs k).

(* direct cases for the small functions *)
Inductive small :=
| SmSwap (data : bytes) (r : res bytes)                      (* _to_audio_samples *)
| SmFifo (lim : N) (ops : list N) (keys : list N) (raised : option exn)    (* PacketFifo: insert keys, value = [key] *)
| SmFifoClear (lim : N) (ops1 ops2 : list N) (keys : list N) (raised : option exn).
                                      (* insert ops1, clear() (send_audio's finally), insert ops2 *)

Definition res_bytes_eqb (a b : res bytes) : bool :=
  match a, b with
  | Ok x, Ok y => bytes_beq x y
  | Raise x, Raise y => exn_eqb x y
  | _, _ => false
  end.

Fixpoint fifo_run (lim : nat) (f : fifo) (ops : list N) : fifo * option exn :=
  match ops with
  | [] => (f, None)
  | k :: t => match fifo_set lim f k [k] with
              | Ok f' => fifo_run lim f' t
              | Raise e => (f, Some e)
              end
  end.

Definition check_small (x : small) : bool :=
  match x with
  | SmSwap d r => res_bytes_eqb (to_audio_samples d) r
  | SmFifo lim ops keys raised =>
      let '(f, e) := fifo_run (N.to_nat lim) [] ops in
      list_beq N.eqb (map fst f) keys && opt_beq exn_eqb e raised
      && forallb (fun kv => bytes_beq (snd kv) [fst kv]) f
  | SmFifoClear lim ops1 ops2 keys raised =>
      let '(f1, _) := fifo_run (N.to_nat lim) [] ops1 in
      let '(f, e) := fifo_run (N.to_nat lim) (fifo_clear f1) ops2 in
      list_beq N.eqb (map fst f) keys && opt_beq exn_eqb e raised
      && forallb (fun kv => bytes_beq (snd kv) [fst kv]) f
  end.
