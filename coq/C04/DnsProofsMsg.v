(* C04 - DnsMessage.unpack reads everything the format relation of DnsSpec.v allows
   (compressed names anywhere a name may stand, A / PTR / TXT / SRV / opaque RDATA). *)
From Coq Require Import NArith ZArith List Bool Arith Lia ZifyBool.
From PV Require Import Common.Cases Common.Endian C04.DnsSpec C04.DnsModel C04.DnsProofs.
Import ListNotations.
Local Open Scope N_scope.

(* ------------------------------------------------------------------ spec value -> what unpack returns *)

Definition m_q (q : squestion) : question :=
  match q with SQ ls t c => Q (join_dot ls) t c end.
Definition m_rd (rd : srdata) : rdata :=
  match rd with
  | SA d => RA d
  | SPtr ls => RName (join_dot ls)
  | STxt t => RTxt t
  | SSrv p w port ls => RSrv p w port (join_dot ls)
  | SRaw b => RRaw b
  end.
Definition m_r (r : sresource) : resource :=
  match r with SR ls t c ttl n rd => R (join_dot ls) t c ttl n (m_rd rd) end.
Definition m_msg (m : smsg) : msg :=
  match m with SM id fl qs an ns ar => M id fl (map m_q qs) (map m_r an) (map m_r ns) (map m_r ar) end.

(* every label that has to be decoded is valid UTF-8 and does not start with "xn--" *)
Definition names_ok_q (q : squestion) : Prop := match q with SQ ls _ _ => Forall lab_dec_ok ls end.
Definition names_ok_rd (rd : srdata) : Prop :=
  match rd with SPtr ls => Forall lab_dec_ok ls | SSrv _ _ _ ls => Forall lab_dec_ok ls | _ => True end.
Definition names_ok_r (r : sresource) : Prop :=
  match r with SR ls _ _ _ _ rd => Forall lab_dec_ok ls /\ names_ok_rd rd end.
Definition names_ok (m : smsg) : Prop :=
  match m with SM _ _ qs an ns ar =>
    Forall names_ok_q qs /\ Forall names_ok_r an /\ Forall names_ok_r ns /\ Forall names_ok_r ar end.

(* ------------------------------------------------------------------ blocks *)

Lemma skipn_cons_nth {A} : forall p (l : list A) x t,
  skipn p l = x :: t -> nth_error l p = Some x /\ skipn (S p) l = t.
Proof.
  induction p as [|p IH]; intros l x t H.
  - cbn in H. subst l. split; reflexivity.
  - destruct l as [|a l]; [discriminate|]. cbn [skipn] in H. apply IH in H. exact H.
Qed.

Lemma block_at_nil buf p : block_at buf p [].
Proof. reflexivity. Qed.

Lemma block_at_cons buf p x bs :
  block_at buf p (x :: bs) -> nth_error buf p = Some x /\ block_at buf (S p) bs.
Proof.
  unfold block_at. cbn [length firstn]. destruct (skipn p buf) as [|y t] eqn:E; [discriminate|].
  intro H. injection H as H1 H2. subst y. apply skipn_cons_nth in E as [E1 E2]. split; [assumption|].
  rewrite E2. exact H2.
Qed.

Lemma nth_skipn_cons {A} : forall p (l : list A) x, nth_error l p = Some x -> skipn p l = x :: skipn (S p) l.
Proof.
  induction p as [|p IH]; intros [|a l] x H; try discriminate.
  - cbn in H. now inversion H.
  - cbn [nth_error] in H. cbn [skipn]. rewrite (IH l x H). reflexivity.
Qed.

Lemma block_at_cons_inv buf p x bs :
  nth_error buf p = Some x -> block_at buf (S p) bs -> block_at buf p (x :: bs).
Proof.
  unfold block_at. intros H1 H2. rewrite (nth_skipn_cons _ _ _ H1). cbn [length firstn]. now rewrite H2.
Qed.

Lemma block_at_app buf : forall a p b,
  block_at buf p (a ++ b) <-> block_at buf p a /\ block_at buf (p + length a) b.
Proof.
  induction a as [|x a IH]; intros p b.
  - cbn [app length]. rewrite Nat.add_0_r. split; [intro H; split; [apply block_at_nil|exact H]|tauto].
  - cbn [app length]. split.
    + intro H. apply block_at_cons in H as [H1 H2]. apply IH in H2 as [H2 H3]. split.
      * now apply block_at_cons_inv.
      * now replace (p + S (length a))%nat with (S p + length a)%nat by lia.
    + intros [H1 H2]. apply block_at_cons in H1 as [H0 H1]. apply block_at_cons_inv; [assumption|].
      apply IH. split; [assumption|]. now replace (S p + length a)%nat with (p + S (length a))%nat by lia.
Qed.

Lemma rd_block buf p bs : block_at buf p bs -> rd buf p (length bs) = (bs, (p + length bs)%nat).
Proof. unfold rd, block_at. intro H. now rewrite H. Qed.

Lemma rd_exact_block buf p bs n :
  block_at buf p bs -> length bs = n -> rd_exact buf p n = DOk (bs, (p + n)%nat).
Proof. intros H <-. unfold rd_exact. rewrite (rd_block _ _ _ H). now rewrite Nat.eqb_refl. Qed.

Lemma be2 v : v < 65536 -> be_dec (be_enc 2 v) = v.
Proof. intro H. apply be_dec_enc. exact H. Qed.
Lemma be4 v : v < 4294967296 -> be_dec (be_enc 4 v) = v.
Proof. intro H. apply be_dec_enc. exact H. Qed.

Lemma firstn_be k v x : firstn k (be_enc k v ++ x) = be_enc k v.
Proof. rewrite <- (be_enc_length k v) at 1. apply firstn_len_app. Qed.
Lemma skipn_be k v x : skipn k (be_enc k v ++ x) = x.
Proof. rewrite <- (be_enc_length k v) at 1. apply skipn_len_app. Qed.

Lemma name_at_end_gt buf p ls e : name_at buf p ls e -> (p < e)%nat.
Proof. induction 1; lia. Qed.

Lemma parse_domain_name_complete buf p ls e :
  name_at buf p ls e -> Forall lab_dec_ok ls -> parse_domain_name buf p = DOk (join_dot ls, e).
Proof. intros D H. unfold parse_domain_name. now rewrite (parse_name_complete_l _ _ _ _ D H). Qed.

(* ------------------------------------------------------------------ question *)

Lemma parse_question_complete buf p q e :
  question_at buf p q e -> names_ok_q q -> parse_question buf p = DOk (m_q q, e).
Proof.
  intros [p0 ls e0 t c Hn Ht Hc Hb] Hok. cbn in Hok. unfold parse_question.
  rewrite (parse_domain_name_complete _ _ _ _ Hn Hok). cbn [dbind fst snd].
  rewrite (rd_exact_block _ _ _ 4%nat Hb) by (rewrite app_length, !be_enc_length; reflexivity).
  cbn [dbind fst snd]. rewrite firstn_be, skipn_be, (be2 t Ht), (be2 c Hc). reflexivity.
Qed.

(* ------------------------------------------------------------------ TXT *)

Lemma lower_spec_eq : lower_spec = lower.
Proof. reflexivity. Qed.

Lemma bytes_beq_eq a b : bytes_beq a b = true <-> a = b.
Proof. apply list_beq_eq. intros x y. apply N.eqb_eq. Qed.

Lemma dset_fresh k v : forall d, ~ In k (map fst d) -> dset k v d = d ++ [(k, v)].
Proof.
  induction d as [|[k' v'] d IH]; intro H; [reflexivity|].
  cbn [dset]. destruct (bytes_beq k' k) eqn:E.
  - apply bytes_beq_eq in E. subst. exfalso. apply H. now left.
  - cbn [app]. rewrite IH; [reflexivity|]. intro X. apply H. now right.
Qed.

Lemma split_eq_none k : Forall (fun b => b < 128 /\ b <> 61) k -> split_eq k = None.
Proof.
  induction 1 as [|b k [_ Hb] _ IH]; [reflexivity|].
  cbn [split_eq]. replace (b =? 61) with false by (symmetry; now apply N.eqb_neq). now rewrite IH.
Qed.

Lemma split_eq_some k x : Forall (fun b => b < 128 /\ b <> 61) k -> split_eq (k ++ 61 :: x) = Some (k, x).
Proof.
  induction 1 as [|b k [_ Hb] _ IH]; [reflexivity|].
  cbn [app split_eq]. replace (b =? 61) with false by (symmetry; now apply N.eqb_neq). now rewrite IH.
Qed.

Lemma ascii_forallb k : Forall (fun b => b < 128 /\ b <> 61) k -> forallb is_ascii k = true.
Proof.
  induction 1 as [|b k [Hb _] _ IH]; [reflexivity|].
  cbn [forallb]. rewrite IH. unfold is_ascii. replace (b <? 128) with true by lia. reflexivity.
Qed.

Definition ent_ok (e : txt_entry) : Prop :=
  txt_key_ok (fst e) /\ (length (enc_txt_entry (fst e) (snd e)) <= 255)%nat.

Lemma txt_loop_complete buf : forall ents fuel pos out,
  Forall ent_ok ents ->
  NoDup (map fst out ++ map (fun e => map lower_spec (fst e)) ents) ->
  block_at buf pos (enc_txt ents) ->
  (length ents <= fuel)%nat ->
  parse_txt_loop fuel buf pos (pos + length (enc_txt ents)) out
  = DOk (out ++ txt_value ents, (pos + length (enc_txt ents))%nat).
Proof.
  induction ents as [|[k v] ents IH]; intros fuel pos out Hok Hnd Hb Hf.
  - cbn [enc_txt flat_map length txt_value map]. rewrite Nat.add_0_r, app_nil_r.
    destruct fuel; cbn [parse_txt_loop]; now rewrite Nat.ltb_irrefl.
  - inversion Hok as [|? ? [[Hk1 Hk2] Hlen] Hok']; subst. cbn [fst snd] in *.
    destruct fuel as [|f]; [cbn in Hf; lia|].
    change (enc_txt ((k, v) :: ents)) with (enc_string (enc_txt_entry k v) ++ enc_txt ents) in *.
    set (chunk := enc_txt_entry k v) in *.
    unfold enc_string in *. cbn [app] in Hb.
    apply block_at_cons in Hb as [Hb0 Hb]. apply block_at_app in Hb as [Hb1 Hb2].
    cbn [parse_txt_loop].
    replace (pos <? pos + length ((N.of_nat (length chunk) :: chunk) ++ enc_txt ents))%nat with true
      by (symmetry; apply Nat.ltb_lt; cbn [length app]; lia).
    rewrite Hb0. replace (N.to_nat (N.of_nat (length chunk))) with (length chunk) by lia.
    rewrite (rd_block _ _ _ Hb1).
    assert (Hkey : ~ In (map lower k) (map fst out)).
    { cbn [map fst] in Hnd. apply NoDup_remove_2 in Hnd. intro X. apply Hnd. apply in_or_app. now left. }
    assert (Hnd' : forall val, NoDup (map fst (out ++ [(map lower k, val)])
                                      ++ map (fun e => map lower_spec (fst e)) ents)).
    { intro val. rewrite map_app. cbn [map fst]. rewrite <- app_assoc. exact Hnd. }
    assert (Hpos : (pos + length ((N.of_nat (length chunk) :: chunk) ++ enc_txt ents)
                    = S pos + length chunk + length (enc_txt ents))%nat)
      by (cbn [length app]; rewrite app_length; lia).
    rewrite Hpos.
    assert (Hf' : (length ents <= f)%nat) by (cbn [length] in Hf; lia).
    destruct v as [x|]; subst chunk; cbn [enc_txt_entry] in *.
    + rewrite (split_eq_some k x Hk2).
      destruct k as [|b k']; [congruence|].
      rewrite (ascii_forallb _ Hk2).
      rewrite (dset_fresh _ x out Hkey).
      rewrite (IH f _ _ Hok' (Hnd' x) Hb2 Hf').
      cbn [txt_value map fst snd]. now rewrite <- app_assoc.
    + rewrite (split_eq_none k Hk2).
      rewrite (ascii_forallb _ Hk2).
      rewrite (dset_fresh _ [] out Hkey).
      rewrite (IH f _ _ Hok' (Hnd' []) Hb2 Hf').
      cbn [txt_value map fst snd]. now rewrite <- app_assoc.
Qed.

Lemma enc_txt_length_ge ents : Forall ent_ok ents -> (length ents <= length (enc_txt ents))%nat.
Proof.
  induction 1 as [|e ents _ _ IH]; [cbn; lia|].
  change (enc_txt (e :: ents)) with (enc_string (enc_txt_entry (fst e) (snd e)) ++ enc_txt ents).
  rewrite app_length. unfold enc_string. cbn [length]. lia.
Qed.

Lemma parse_txt_complete buf p ents :
  txt_ok ents -> block_at buf p (enc_txt ents) ->
  parse_txt buf p (length (enc_txt ents)) = DOk (txt_value ents, (p + length (enc_txt ents))%nat).
Proof.
  intros [Hok Hnd] Hb. unfold parse_txt.
  apply (txt_loop_complete buf ents _ p [] Hok Hnd Hb). now apply enc_txt_length_ge.
Qed.

(* ------------------------------------------------------------------ RDATA, resource record *)

Lemma srv_fields a b c :
  let d := be_enc 2 a ++ be_enc 2 b ++ be_enc 2 c in
  firstn 2 d = be_enc 2 a /\ firstn 2 (skipn 2 d) = be_enc 2 b /\ skipn 4 d = be_enc 2 c.
Proof. unfold be_enc. cbn. repeat split; reflexivity. Qed.

Lemma parse_rdata_complete buf t p n rd :
  rdata_at buf t p n rd -> names_ok_rd rd -> parse_rdata t buf p n = DOk (m_rd rd, (p + n)%nat).
Proof.
  intros D Hok. destruct D as [p d Hl Hb|p ls e Hn|p ents Ht Hb|p prio w port ls e H1 H2 H3 Hb Hn|ty p b T1 T2 T3 T4 Hb];
    unfold parse_rdata; cbn [N.eqb Pos.eqb].
  - cbn [Nat.eqb negb]. rewrite <- Hl at 1. rewrite (rd_block _ _ _ Hb). rewrite Hl. reflexivity.
  - cbn in Hok. rewrite (parse_domain_name_complete _ _ _ _ Hn Hok). cbn [dbind fst snd m_rd].
    pose proof (name_at_end_gt _ _ _ _ Hn). now replace (p + (e - p))%nat with e by lia.
  - rewrite (parse_txt_complete _ _ _ Ht Hb). reflexivity.
  - cbn in Hok. unfold parse_srv.
    rewrite (rd_exact_block _ _ _ 6%nat Hb) by (rewrite !app_length, !be_enc_length; reflexivity).
    cbn [dbind fst snd].
    rewrite (parse_domain_name_complete _ _ _ _ Hn Hok). cbn [dbind fst snd m_rd].
    destruct (srv_fields prio w port) as (F1 & F2 & F3). rewrite F1, F2, F3.
    rewrite (be2 _ H1), (be2 _ H2), (be2 _ H3).
    pose proof (name_at_end_gt _ _ _ _ Hn). now replace (p + (e - p))%nat with e by lia.
  - replace (ty =? 1) with false by (symmetry; now apply N.eqb_neq).
    replace (ty =? 12) with false by (symmetry; now apply N.eqb_neq).
    replace (ty =? 16) with false by (symmetry; now apply N.eqb_neq).
    replace (ty =? 33) with false by (symmetry; now apply N.eqb_neq).
    rewrite (rd_block _ _ _ Hb). reflexivity.
Qed.

Lemma rr_fields t c ttl n :
  let d := be_enc 2 t ++ be_enc 2 c ++ be_enc 4 ttl ++ be_enc 2 n in
  firstn 2 d = be_enc 2 t /\ firstn 2 (skipn 2 d) = be_enc 2 c /\
  firstn 4 (skipn 4 d) = be_enc 4 ttl /\ skipn 8 d = be_enc 2 n.
Proof. unfold be_enc. cbn. repeat split; reflexivity. Qed.

Lemma parse_resource_complete buf p r e :
  rr_at buf p r e -> names_ok_r r -> parse_resource buf p = DOk (m_r r, e).
Proof.
  intros [p0 ls e0 t c ttl n rd Hn Ht Hc Httl Hlen Hb Hrd] [Hok1 Hok2]. unfold parse_resource.
  rewrite (parse_domain_name_complete _ _ _ _ Hn Hok1). cbn [dbind fst snd].
  rewrite (rd_exact_block _ _ _ 10%nat Hb) by (rewrite !app_length, !be_enc_length; reflexivity).
  cbn [dbind fst snd].
  destruct (rr_fields t c ttl (N.of_nat n)) as (F1 & F2 & F3 & F4). rewrite F1, F2, F3, F4.
  rewrite (be2 _ Ht), (be2 _ Hc), (be4 _ Httl), (be2 _ Hlen).
  replace (N.to_nat (N.of_nat n)) with n by lia.
  rewrite (parse_rdata_complete _ _ _ _ _ Hrd Hok2). cbn [dbind fst snd].
  rewrite Nat.eqb_refl. reflexivity.
Qed.

(* ------------------------------------------------------------------ sections, message *)

Lemma parse_many_complete {A B} (one_at : nat -> A -> nat -> Prop) (one : nat -> dres (B * nat))
      (f : A -> B) (ok : A -> Prop) :
  (forall p x e, one_at p x e -> ok x -> one p = DOk (f x, e)) ->
  forall p xs e, many_at one_at p xs e -> Forall ok xs ->
  parse_many one (length xs) p = DOk (map f xs, e).
Proof.
  intros H p xs e D. induction D as [p|p x e xs e' D1 _ IH]; intro Hok; [reflexivity|].
  inversion Hok; subst. cbn [length parse_many map].
  rewrite (H _ _ _ D1) by assumption. cbn [dbind fst snd]. rewrite IH by assumption. reflexivity.
Qed.

Lemma hdr_fields a b c d e f :
  let h := be_enc 2 a ++ be_enc 2 b ++ be_enc 2 c ++ be_enc 2 d ++ be_enc 2 e ++ be_enc 2 f in
  firstn 2 (skipn (2 * 0) h) = be_enc 2 a /\ firstn 2 (skipn (2 * 1) h) = be_enc 2 b /\
  firstn 2 (skipn (2 * 2) h) = be_enc 2 c /\ firstn 2 (skipn (2 * 3) h) = be_enc 2 d /\
  firstn 2 (skipn (2 * 4) h) = be_enc 2 e /\ firstn 2 (skipn (2 * 5) h) = be_enc 2 f.
Proof. unfold be_enc. cbn. repeat split; reflexivity. Qed.

Theorem unpack_complete buf m :
  msg_at buf m -> names_ok m -> unpack_msg buf = DOk (m_msg m).
Proof.
  destruct m as [id fl qs an ns ar].
  intros (Hid & Hfl & Hq & Ha & Hn & Hr & Hb & e1 & e2 & e3 & e4 & Dq & Da & Dn & Dr) (Oq & Oa & On & Or).
  unfold unpack_msg.
  rewrite (rd_exact_block _ _ _ 12%nat Hb) by (rewrite !app_length, !be_enc_length; reflexivity).
  cbn [dbind fst snd].
  destruct (hdr_fields id fl (cnt qs) (cnt an) (cnt ns) (cnt ar)) as (F0 & F1 & F2 & F3 & F4 & F5).
  rewrite F0, F1, F2, F3, F4, F5.
  rewrite (be2 _ Hid), (be2 _ Hfl), (be2 _ Hq), (be2 _ Ha), (be2 _ Hn), (be2 _ Hr).
  unfold cnt. rewrite !Nat2N.id. cbn [Nat.add].
  rewrite (parse_many_complete _ _ m_q names_ok_q (parse_question_complete buf) _ _ _ Dq Oq).
  cbn [dbind fst snd].
  rewrite (parse_many_complete _ _ m_r names_ok_r (parse_resource_complete buf) _ _ _ Da Oa).
  cbn [dbind fst snd].
  rewrite (parse_many_complete _ _ m_r names_ok_r (parse_resource_complete buf) _ _ _ Dn On).
  cbn [dbind fst snd].
  rewrite (parse_many_complete _ _ m_r names_ok_r (parse_resource_complete buf) _ _ _ Dr Or).
  reflexivity.
Qed.

(* ------------------------------------------------------------------ C05: no loop of unpack runs dry *)

Lemma dbind_no_oof {A B} (r : dres A) (f : A -> dres B) :
  r <> DOutOfFuel -> (forall a, f a <> DOutOfFuel) -> dbind r f <> DOutOfFuel.
Proof. destruct r; cbn; auto; discriminate. Qed.

Lemma txt_loop_no_oof : forall fuel buf pos stop out,
  (stop - pos <= fuel)%nat -> parse_txt_loop fuel buf pos stop out <> DOutOfFuel.
Proof.
  induction fuel as [|f IH]; intros buf pos stop out H.
  - cbn [parse_txt_loop]. replace (pos <? stop)%nat with false by (symmetry; apply Nat.ltb_ge; lia).
    discriminate.
  - cbn [parse_txt_loop]. destruct (pos <? stop)%nat eqn:E; [|discriminate].
    apply Nat.ltb_lt in E.
    destruct (nth_error buf pos) as [len|]; [|discriminate].
    unfold rd. set (chunk := firstn (N.to_nat len) (skipn (S pos) buf)).
    assert (Hf : (stop - (S pos + length chunk) <= f)%nat) by lia.
    destruct (split_eq chunk) as [[k v]|].
    + destruct k; [now apply IH|]. destruct (forallb is_ascii (n :: k)); now apply IH.
    + destruct (forallb is_ascii chunk); [now apply IH|discriminate].
Qed.

Lemma parse_txt_no_oof buf pos len : parse_txt buf pos len <> DOutOfFuel.
Proof. unfold parse_txt. apply txt_loop_no_oof. lia. Qed.

Lemma parse_domain_name_no_oof buf pos : parse_domain_name buf pos <> DOutOfFuel.
Proof.
  unfold parse_domain_name. apply dbind_no_oof; [apply parse_name_fuel_enough_l|discriminate].
Qed.

Lemma rd_exact_no_oof buf pos n : rd_exact buf pos n <> DOutOfFuel.
Proof. unfold rd_exact. destruct (rd buf pos n). destruct (_ =? _)%nat; discriminate. Qed.

Lemma parse_rdata_no_oof t buf pos len : parse_rdata t buf pos len <> DOutOfFuel.
Proof.
  unfold parse_rdata.
  destruct (t =? 1).
  { destruct (negb _); [discriminate|]. destruct (rd buf pos 4). destruct (_ =? _)%nat; discriminate. }
  destruct (t =? 12).
  { apply dbind_no_oof; [apply parse_domain_name_no_oof|discriminate]. }
  destruct (t =? 16).
  { apply dbind_no_oof; [apply parse_txt_no_oof|discriminate]. }
  destruct (t =? 33).
  { unfold parse_srv. apply dbind_no_oof; [apply rd_exact_no_oof|]. intro a.
    apply dbind_no_oof; [apply parse_domain_name_no_oof|discriminate]. }
  destruct (rd buf pos len). discriminate.
Qed.

Lemma parse_question_no_oof buf pos : parse_question buf pos <> DOutOfFuel.
Proof.
  unfold parse_question. apply dbind_no_oof; [apply parse_domain_name_no_oof|]. intro a.
  apply dbind_no_oof; [apply rd_exact_no_oof|discriminate].
Qed.

Lemma parse_resource_no_oof buf pos : parse_resource buf pos <> DOutOfFuel.
Proof.
  unfold parse_resource. apply dbind_no_oof; [apply parse_domain_name_no_oof|]. intro a.
  apply dbind_no_oof; [apply rd_exact_no_oof|]. intro h.
  apply dbind_no_oof; [apply parse_rdata_no_oof|]. intro x.
  destruct (_ =? _)%nat; discriminate.
Qed.

Lemma parse_many_no_oof {A} (one : nat -> dres (A * nat)) :
  (forall p, one p <> DOutOfFuel) -> forall n pos, parse_many one n pos <> DOutOfFuel.
Proof.
  intros H n. induction n as [|n IH]; intro pos; cbn [parse_many]; [discriminate|].
  apply dbind_no_oof; [apply H|]. intro x. apply dbind_no_oof; [apply IH|discriminate].
Qed.

Theorem unpack_no_oof buf : unpack_msg buf <> DOutOfFuel.
Proof.
  unfold unpack_msg. apply dbind_no_oof; [apply rd_exact_no_oof|]. intro h.
  apply dbind_no_oof; [apply parse_many_no_oof, parse_question_no_oof|]. intro qs.
  apply dbind_no_oof; [apply parse_many_no_oof, parse_resource_no_oof|]. intro an.
  apply dbind_no_oof; [apply parse_many_no_oof, parse_resource_no_oof|]. intro ns.
  apply dbind_no_oof; [apply parse_many_no_oof, parse_resource_no_oof|]. intro ar.
  discriminate.
Qed.
