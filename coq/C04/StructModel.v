(* C04 - fixed binary headers built with pyatv/support/packet.py defpacket (struct, big endian).
   A format is a list of fields: unsigned integers of 1/2/4/8 bytes (B H I Q) and fixed
   size byte strings (Ns). *)
From Coq Require Import NArith List Bool Lia.
From PV Require Import Common.Cases Common.Endian.
Import ListNotations.
Local Open Scope N_scope.

Inductive field := FU (k : nat) | FS (n : nat).
Inductive value := VU (n : N) | VS (s : list N).

Definition fsize (f : field) : nat := match f with FU k => k | FS n => n end.
Definition calcsize (fmt : list field) : nat := fold_right (fun f a => (fsize f + a)%nat) 0%nat fmt.

(* struct.pack: struct.error when an integer does not fit or the argument count/type is wrong;
   a string shorter than its field is padded with zeros, a longer one truncated *)
Fixpoint encode (fmt : list field) (vs : list value) : option (list N) :=
  match fmt, vs with
  | [], [] => Some []
  | FU k :: fmt', VU n :: vs' =>
      if n <? 256 ^ N.of_nat k
      then option_map (app (be_enc k n)) (encode fmt' vs') else None
  | FS n :: fmt', VS s :: vs' =>
      option_map (app (firstn n s ++ repeat 0 (n - length s))) (encode fmt' vs')
  | _, _ => None
  end.

Fixpoint decode_exact (fmt : list field) (data : list N) : list value :=
  match fmt with
  | [] => []
  | FU k :: fmt' => VU (be_dec (firstn k data)) :: decode_exact fmt' (skipn k data)
  | FS n :: fmt' => VS (firstn n data) :: decode_exact fmt' (skipn n data)
  end.

(* decode(data, allow_excessive): struct.error unless the size matches exactly *)
Definition decode (fmt : list field) (allow_excessive : bool) (data : list N) : option (list value) :=
  let d := if allow_excessive then firstn (calcsize fmt) data else data in
  if Nat.eqb (length d) (calcsize fmt) then Some (decode_exact fmt d) else None.

Definition value_beq (a b : value) : bool :=
  match a, b with
  | VU x, VU y => N.eqb x y
  | VS x, VS y => bytes_beq x y
  | _, _ => false
  end.

Definition check_encode (c : list field * list value * option (list N)) : bool :=
  let '(fmt, vs, out) := c in opt_beq bytes_beq (encode fmt vs) out.
Definition check_decode (c : list field * bool * list N * option (list value)) : bool :=
  let '(fmt, ae, data, out) := c in opt_beq (list_beq value_beq) (decode fmt ae data) out.
