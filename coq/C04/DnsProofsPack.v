(* C04 - DnsMessage.pack writes the uncompressed RFC 1035 encoding, which the format relation
   accepts; with DnsProofsMsg.unpack_complete this gives the message round trip. *)
From Coq Require Import NArith ZArith List Bool Arith Lia ZifyBool.
From PV Require Import Common.Cases Common.Endian C04.DnsSpec C04.DnsModel C04.DnsProofs C04.DnsProofsMsg.
Import ListNotations.
Local Open Scope N_scope.

(* ------------------------------------------------------------------ names given as str *)

(* the labels that go on the wire: a trailing empty label (root) is not repeated *)
Definition norm_labels (ls : name) : name := if ends_empty ls then removelast ls else ls.
Definition wire_labels (s : list N) : name := norm_labels (str_labels s).

(* a str that qname_encode/parse_domain_name carry faithfully *)
Definition wf_str (s : list N) : Prop :=
  Forall label_wf (wire_labels s) /\ join_dot (wire_labels s) = s.

Lemma ends_empty_true ls : ends_empty ls = true -> ls = removelast ls ++ [[]].
Proof.
  unfold ends_empty. destruct ls as [|x l _] using rev_ind; [discriminate|].
  rewrite rev_app_distr. cbn [rev app]. destruct x; [|discriminate]. intros _.
  now rewrite removelast_last.
Qed.

Lemma qname_encode_norm ls : Forall label_ok (norm_labels ls) -> qname_encode ls = enc_name (norm_labels ls).
Proof.
  unfold qname_encode, norm_labels. destruct (ends_empty ls) eqn:E; intro H.
  - rewrite (ends_empty_true ls E) at 1. now apply qenc_labels_wf.
  - now apply qenc_labels_wf.
Qed.

Lemma label_wf_ok ls : Forall label_wf ls -> Forall label_ok ls.
Proof. intro H. eapply Forall_impl; [|exact H]. intros a [X _]. exact X. Qed.
Lemma label_wf_dec ls : Forall label_wf ls -> Forall lab_dec_ok ls.
Proof. intro H. eapply Forall_impl; [|exact H]. intros a [_ X]. exact X. Qed.

Lemma qname_encode_str_wf s : wf_str s -> qname_encode_str s = enc_name (wire_labels s).
Proof. intros [H _]. unfold qname_encode_str. apply qname_encode_norm. now apply label_wf_ok. Qed.

(* ------------------------------------------------------------------ model value -> spec value *)

Definition s_q (q : question) : squestion := match q with Q s t c => SQ (wire_labels s) t c end.
Definition s_rd (rd : rdata) : srdata :=
  match rd with
  | RA d => SA d
  | RName s => SPtr (wire_labels s)
  | RTxt t => STxt t
  | RSrv p w port s => SSrv p w port (wire_labels s)
  | RRaw b => SRaw b
  end.
Definition s_r (r : resource) : sresource :=
  match r with R s t c ttl n rd => SR (wire_labels s) t c ttl n (s_rd rd) end.
Definition s_msg (m : msg) : smsg :=
  match m with M id fl qs an ns ar => SM id fl (map s_q qs) (map s_r an) (map s_r ns) (map s_r ar) end.

(* what DnsMessage.pack writes the way DnsMessage.unpack reads it back *)
Definition wf_q (q : question) : Prop :=
  match q with Q s t c => wf_str s /\ t < 65536 /\ c < 65536 end.
Definition wf_answer (r : resource) : Prop :=
  match r with
  | R s t c ttl n rd =>
      wf_str s /\ t = 12 /\ c < 65536 /\ ttl < 4294967296 /\
      exists tgt, rd = RName tgt /\ wf_str tgt /\
                  n = N.of_nat (length (qname_encode_str tgt)) /\ n < 65536
  end.
Definition wf_raw (r : resource) : Prop :=
  match r with
  | R s t c ttl n rd =>
      wf_str s /\ t < 65536 /\ t <> 1 /\ t <> 12 /\ t <> 16 /\ t <> 33 /\ c < 65536 /\ ttl < 4294967296 /\
      exists b, rd = RRaw b /\ n = N.of_nat (length b) /\ n < 65536
  end.
Definition wf_msg (m : msg) : Prop :=
  match m with
  | M id fl qs an ns ar =>
      id < 65536 /\ fl < 65536 /\ cnt qs < 65536 /\ cnt an < 65536 /\ cnt ns < 65536 /\ cnt ar < 65536 /\
      Forall wf_q qs /\ Forall wf_answer an /\ Forall wf_raw ns /\ Forall wf_raw ar
  end.

(* ------------------------------------------------------------------ pack = the spec encoder *)

Lemma pack_be2 v : v < 65536 -> pack_be 2 v = DOk (be_enc 2 v).
Proof. intro H. unfold pack_be. change (256 ^ N.of_nat 2) with 65536. now replace (v <? 65536) with true by lia. Qed.
Lemma pack_be4 v : v < 4294967296 -> pack_be 4 v = DOk (be_enc 4 v).
Proof. intro H. unfold pack_be. change (256 ^ N.of_nat 4) with 4294967296. now replace (v <? 4294967296) with true by lia. Qed.

Lemma pack_list_ok {A} (f : A -> dres (list N)) (g : A -> list N) l :
  Forall (fun x => f x = DOk (g x)) l -> pack_list f l = DOk (flat_map g l).
Proof. induction 1 as [|x l H _ IH]; [reflexivity|]. cbn [pack_list flat_map]. now rewrite H, IH. Qed.

Lemma pack_question_ok q : wf_q q -> pack_question q = DOk (enc_question (s_q q)).
Proof.
  destruct q as [s t c]. intros (Hs & Ht & Hc). cbn [pack_question s_q enc_question].
  rewrite (pack_be2 _ Ht), (pack_be2 _ Hc). cbn [dbind]. now rewrite (qname_encode_str_wf s Hs).
Qed.

Lemma pack_answer_ok r : wf_answer r -> pack_answer r = DOk (enc_rr (s_r r)).
Proof.
  destruct r as [s t c ttl n rd]. intros (Hs & -> & Hc & Httl & tgt & -> & Htgt & -> & Hn).
  cbn [pack_answer s_r s_rd enc_rr enc_rdata].
  rewrite (pack_be2 12) by lia. rewrite (pack_be2 _ Hc), (pack_be4 _ Httl), (pack_be2 _ Hn). cbn [dbind].
  now rewrite (qname_encode_str_wf s Hs), (qname_encode_str_wf tgt Htgt).
Qed.

Lemma pack_resource_ok r : wf_raw r -> pack_resource r = DOk (enc_rr (s_r r)).
Proof.
  destruct r as [s t c ttl n rd]. intros (Hs & Ht & _ & _ & _ & _ & Hc & Httl & b & -> & -> & Hn).
  cbn [pack_resource s_r s_rd enc_rr enc_rdata].
  rewrite (pack_be2 _ Ht), (pack_be2 _ Hc), (pack_be4 _ Httl), (pack_be2 _ Hn). cbn [dbind].
  now rewrite (qname_encode_str_wf s Hs).
Qed.

Lemma cnt_map {A B} (f : A -> B) l : cnt (map f l) = cnt l.
Proof. unfold cnt. now rewrite map_length. Qed.

Lemma pack_msg_sound m : wf_msg m -> pack_msg m = DOk (enc_msg (s_msg m)).
Proof.
  destruct m as [id fl qs an ns ar].
  intros (Hid & Hfl & Hq & Ha & Hn & Hr & Wq & Wa & Wn & Wr).
  cbn [pack_msg s_msg enc_msg]. unfold pack_header. fold (cnt qs) (cnt an) (cnt ns) (cnt ar).
  rewrite (pack_be2 _ Hid), (pack_be2 _ Hfl), (pack_be2 _ Hq), (pack_be2 _ Ha), (pack_be2 _ Hn), (pack_be2 _ Hr).
  cbn [dbind].
  rewrite (pack_list_ok pack_question (fun q => enc_question (s_q q)) qs)
    by (eapply Forall_impl; [|exact Wq]; apply pack_question_ok).
  rewrite (pack_list_ok pack_answer (fun r => enc_rr (s_r r)) an)
    by (eapply Forall_impl; [|exact Wa]; apply pack_answer_ok).
  rewrite (pack_list_ok pack_resource (fun r => enc_rr (s_r r)) ns)
    by (eapply Forall_impl; [|exact Wn]; apply pack_resource_ok).
  rewrite (pack_list_ok pack_resource (fun r => enc_rr (s_r r)) ar)
    by (eapply Forall_impl; [|exact Wr]; apply pack_resource_ok).
  cbn [dbind]. rewrite !cnt_map, !flat_map_concat_map, !map_map. reflexivity.
Qed.

(* ------------------------------------------------------------------ the spec encoder is in the format *)

Lemma block_at_mid a bs c : block_at (a ++ bs ++ c) (length a) bs.
Proof. unfold block_at. rewrite skipn_len_app. apply firstn_len_app. Qed.

(* spec-level side conditions of the uncompressed encoding *)
Definition sq_ok (q : squestion) : Prop :=
  match q with SQ ls t c => Forall label_ok ls /\ t < 65536 /\ c < 65536 end.
Inductive srd_ok : N -> N -> srdata -> Prop :=
| OK_PTR : forall ls, Forall label_ok ls -> srd_ok 12 (N.of_nat (length (enc_name ls))) (SPtr ls)
| OK_RAW : forall t b, t <> 1 -> t <> 12 -> t <> 16 -> t <> 33 -> srd_ok t (N.of_nat (length b)) (SRaw b)
| OK_A : forall d, length d = 4%nat -> srd_ok 1 4 (SA d)
| OK_SRV : forall p w port ls, p < 65536 -> w < 65536 -> port < 65536 -> Forall label_ok ls ->
    srd_ok 33 (N.of_nat (6 + length (enc_name ls))) (SSrv p w port ls).
Definition sr_ok (r : sresource) : Prop :=
  match r with
  | SR ls t c ttl n rd => Forall label_ok ls /\ t < 65536 /\ c < 65536 /\ ttl < 4294967296 /\ n < 65536 /\ srd_ok t n rd
  end.

Lemma question_enc_at pre rest q : sq_ok q ->
  question_at (pre ++ enc_question q ++ rest) (length pre) q (length pre + length (enc_question q)).
Proof.
  destruct q as [ls t c]. intros (Hl & Ht & Hc). cbn [enc_question].
  replace (length pre + length (enc_name ls ++ be_enc 2 t ++ be_enc 2 c))%nat
    with (length pre + length (enc_name ls) + 4)%nat
    by (rewrite !app_length, !be_enc_length; lia).
  rewrite <- !app_assoc. constructor; try assumption.
  - apply (enc_name_at ls pre (be_enc 2 t ++ be_enc 2 c ++ rest) Hl).
  - rewrite <- app_length. rewrite (app_assoc pre), (app_assoc (be_enc 2 t)). apply block_at_mid.
Qed.

Lemma rdata_enc_at pre rest t n rd : srd_ok t n rd ->
  rdata_at (pre ++ enc_rdata rd ++ rest) t (length pre) (N.to_nat n) rd /\ N.to_nat n = length (enc_rdata rd).
Proof.
  intros [ls Hl|ty b T1 T2 T3 T4|d Hd|p w port ls Hp Hw Hport Hl]; cbn [enc_rdata]; rewrite ?Nat2N.id.
  - split; [|reflexivity].
    pose proof (enc_name_at ls pre rest Hl) as H.
    pose proof (RD_PTR _ _ _ _ H) as G.
    now replace (length pre + length (enc_name ls) - length pre)%nat with (length (enc_name ls)) in G by lia.
  - split; [|reflexivity]. apply RD_RAW; try assumption. apply block_at_mid.
  - change (N.to_nat 4) with 4%nat. split; [|now rewrite Hd]. apply RD_A; [assumption|]. apply block_at_mid.
  - split; [|rewrite !app_length, !be_enc_length; lia].
    set (hd := be_enc 2 p ++ be_enc 2 w ++ be_enc 2 port).
    assert (Hhd : length hd = 6%nat) by (unfold hd; rewrite !app_length, !be_enc_length; reflexivity).
    replace ((be_enc 2 p ++ be_enc 2 w ++ be_enc 2 port ++ enc_name ls) ++ rest)
      with (hd ++ enc_name ls ++ rest) by (unfold hd; now rewrite <- !app_assoc).
    pose proof (enc_name_at ls (pre ++ hd) rest Hl) as H.
    rewrite app_length, Hhd in H. rewrite <- app_assoc in H.
    assert (Hb : block_at (pre ++ hd ++ enc_name ls ++ rest) (length pre) hd) by apply block_at_mid.
    pose proof (RD_SRV _ _ _ _ _ _ _ Hp Hw Hport Hb H) as G.
    now replace (length pre + 6 + length (enc_name ls) - length pre)%nat with (6 + length (enc_name ls))%nat in G by lia.
Qed.

Lemma rr_enc_at pre rest r : sr_ok r ->
  rr_at (pre ++ enc_rr r ++ rest) (length pre) r (length pre + length (enc_rr r)).
Proof.
  destruct r as [ls t c ttl n rd]. intros (Hl & Ht & Hc & Httl & Hn & Hrd). cbn [enc_rr].
  set (hd := be_enc 2 t ++ be_enc 2 c ++ be_enc 4 ttl ++ be_enc 2 n).
  assert (Hhd : length hd = 10%nat) by (unfold hd; rewrite !app_length, !be_enc_length; reflexivity).
  replace (enc_name ls ++ be_enc 2 t ++ be_enc 2 c ++ be_enc 4 ttl ++ be_enc 2 n ++ enc_rdata rd)
    with (enc_name ls ++ hd ++ enc_rdata rd) by (unfold hd; now rewrite <- !app_assoc).
  destruct (rdata_enc_at ((pre ++ enc_name ls) ++ hd) rest t n rd Hrd) as [Hrd' Hlen].
  replace (length pre + length (enc_name ls ++ hd ++ enc_rdata rd))%nat
    with (length pre + length (enc_name ls) + 10 + N.to_nat n)%nat
    by (rewrite !app_length, Hhd, Hlen; lia).
  replace (pre ++ (enc_name ls ++ hd ++ enc_rdata rd) ++ rest)
    with (pre ++ enc_name ls ++ (hd ++ enc_rdata rd ++ rest)) by (now rewrite <- !app_assoc).
  assert (G : rr_at (pre ++ enc_name ls ++ hd ++ enc_rdata rd ++ rest) (length pre)
                    (SR ls t c ttl (N.of_nat (N.to_nat n)) rd)
                    (length pre + length (enc_name ls) + 10 + N.to_nat n)%nat).
  { apply RR; try assumption.
    - apply (enc_name_at ls pre _ Hl).
    - lia.
    - rewrite N2Nat.id. fold hd.
      rewrite <- app_length, (app_assoc pre). apply block_at_mid.
    - rewrite !app_length, Hhd in Hrd'. rewrite <- !app_assoc in Hrd'. exact Hrd'. }
  rewrite N2Nat.id in G. exact G.
Qed.

Lemma many_enc_at {A} (one_at : list N -> nat -> A -> nat -> Prop) (enc : A -> list N) (ok : A -> Prop) :
  (forall pre rest x, ok x -> one_at (pre ++ enc x ++ rest) (length pre) x (length pre + length (enc x))%nat) ->
  forall xs pre rest, Forall ok xs ->
  many_at (one_at (pre ++ flat_map enc xs ++ rest)) (length pre) xs (length pre + length (flat_map enc xs))%nat.
Proof.
  intros H xs. induction xs as [|x xs IH]; intros pre rest Hok.
  - cbn [flat_map length]. rewrite Nat.add_0_r. constructor.
  - inversion Hok; subst. cbn [flat_map].
    apply MA_cons with (e := (length pre + length (enc x))%nat).
    + rewrite <- app_assoc. now apply H.
    + specialize (IH (pre ++ enc x) rest). rewrite app_length in IH.
      rewrite <- !app_assoc in *. rewrite app_length, Nat.add_assoc. now apply IH.
Qed.

Definition sm_ok (m : smsg) : Prop :=
  match m with
  | SM id fl qs an ns ar =>
      id < 65536 /\ fl < 65536 /\ cnt qs < 65536 /\ cnt an < 65536 /\ cnt ns < 65536 /\ cnt ar < 65536 /\
      Forall sq_ok qs /\ Forall sr_ok an /\ Forall sr_ok ns /\ Forall sr_ok ar
  end.

(* what an uncompressing sender writes is a representation of the message *)
Theorem enc_msg_at m rest : sm_ok m -> msg_at (enc_msg m ++ rest) m.
Proof.
  destruct m as [id fl qs an ns ar].
  intros (Hid & Hfl & Hq & Ha & Hn & Hr & Oq & Oa & On & Or).
  cbn [enc_msg msg_at].
  set (hd := be_enc 2 id ++ be_enc 2 fl ++ be_enc 2 (cnt qs) ++ be_enc 2 (cnt an) ++ be_enc 2 (cnt ns) ++ be_enc 2 (cnt ar)).
  assert (Hhd : length hd = 12%nat) by (unfold hd; rewrite !app_length, !be_enc_length; reflexivity).
  set (Q := flat_map enc_question qs). set (A := flat_map enc_rr an).
  set (NS := flat_map enc_rr ns). set (AR := flat_map enc_rr ar).
  repeat (split; [assumption|]). split.
  - rewrite <- app_assoc. apply (block_at_mid [] hd).
  - exists (12 + length Q)%nat, (12 + length Q + length A)%nat, (12 + length Q + length A + length NS)%nat,
      (12 + length Q + length A + length NS + length AR)%nat.
    rewrite <- Hhd. repeat split.
    + pose proof (many_enc_at question_at enc_question sq_ok question_enc_at qs hd (A ++ NS ++ AR ++ rest) Oq) as H.
      fold Q in H. rewrite <- !app_assoc. exact H.
    + pose proof (many_enc_at rr_at enc_rr sr_ok rr_enc_at an (hd ++ Q) (NS ++ AR ++ rest) Oa) as H.
      fold A in H. rewrite app_length in H. rewrite <- !app_assoc in *. exact H.
    + pose proof (many_enc_at rr_at enc_rr sr_ok rr_enc_at ns ((hd ++ Q) ++ A) (AR ++ rest) On) as H.
      fold NS in H. rewrite !app_length in H. rewrite <- !app_assoc in *. exact H.
    + pose proof (many_enc_at rr_at enc_rr sr_ok rr_enc_at ar (((hd ++ Q) ++ A) ++ NS) rest Or) as H.
      fold AR in H. rewrite !app_length in H. rewrite <- !app_assoc in *. exact H.
Qed.

(* ------------------------------------------------------------------ round trip *)

Lemma wf_q_sq q : wf_q q -> sq_ok (s_q q) /\ names_ok_q (s_q q) /\ m_q (s_q q) = q.
Proof.
  destruct q as [s t c]. intros ([Hl Hj] & Ht & Hc). cbn. repeat split; auto using label_wf_ok, label_wf_dec.
  now rewrite Hj.
Qed.

Lemma wf_answer_sr r : wf_answer r -> sr_ok (s_r r) /\ names_ok_r (s_r r) /\ m_r (s_r r) = r.
Proof.
  destruct r as [s t c ttl n rd]. intros ([Hl Hj] & -> & Hc & Httl & tgt & -> & [Tl Tj] & -> & Hn).
  cbn [s_r s_rd sr_ok names_ok_r names_ok_rd m_r m_rd].
  rewrite (qname_encode_str_wf tgt (conj Tl Tj)) in *.
  repeat split; auto using label_wf_ok, label_wf_dec; try lia.
  - constructor. now apply label_wf_ok.
  - now rewrite Hj, Tj.
Qed.

Lemma wf_raw_sr r : wf_raw r -> sr_ok (s_r r) /\ names_ok_r (s_r r) /\ m_r (s_r r) = r.
Proof.
  destruct r as [s t c ttl n rd]. intros ([Hl Hj] & Ht & T1 & T2 & T3 & T4 & Hc & Httl & b & -> & -> & Hn).
  cbn [s_r s_rd sr_ok names_ok_r names_ok_rd m_r m_rd].
  repeat split; auto using label_wf_ok, label_wf_dec.
  - now constructor.
  - now rewrite Hj.
Qed.

Lemma Forall_map_id {A B} (f : A -> B) (g : B -> A) (P : A -> Prop) l :
  (forall x, P x -> g (f x) = x) -> Forall P l -> map g (map f l) = l.
Proof. intros H. induction 1 as [|x l Hx _ IH]; [reflexivity|]. cbn [map]. now rewrite H, IH. Qed.

Lemma Forall_map_prop {A B} (f : A -> B) (P : A -> Prop) (Q' : B -> Prop) l :
  (forall x, P x -> Q' (f x)) -> Forall P l -> Forall Q' (map f l).
Proof. intros H. induction 1; cbn [map]; constructor; auto. Qed.

Theorem message_roundtrip m rest :
  wf_msg m -> exists bs, pack_msg m = DOk bs /\ unpack_msg (bs ++ rest) = DOk m.
Proof.
  intro W. exists (enc_msg (s_msg m)). split; [now apply pack_msg_sound|].
  destruct m as [id fl qs an ns ar].
  destruct W as (Hid & Hfl & Hq & Ha & Hn & Hr & Wq & Wa & Wn & Wr).
  rewrite (unpack_complete (enc_msg (s_msg (M id fl qs an ns ar)) ++ rest) (s_msg (M id fl qs an ns ar))).
  - cbn [s_msg m_msg].
    rewrite (Forall_map_id s_q m_q wf_q qs) by (try assumption; intros x Hx; now apply wf_q_sq).
    rewrite (Forall_map_id s_r m_r wf_answer an) by (try assumption; intros x Hx; now apply wf_answer_sr).
    rewrite (Forall_map_id s_r m_r wf_raw ns) by (try assumption; intros x Hx; now apply wf_raw_sr).
    rewrite (Forall_map_id s_r m_r wf_raw ar) by (try assumption; intros x Hx; now apply wf_raw_sr).
    reflexivity.
  - apply enc_msg_at. cbn [s_msg sm_ok]. rewrite !cnt_map. repeat (split; [assumption|]).
    repeat split.
    + apply (Forall_map_prop s_q wf_q); [|assumption]. intros x Hx. now apply wf_q_sq.
    + apply (Forall_map_prop s_r wf_answer); [|assumption]. intros x Hx. now apply wf_answer_sr.
    + apply (Forall_map_prop s_r wf_raw); [|assumption]. intros x Hx. now apply wf_raw_sr.
    + apply (Forall_map_prop s_r wf_raw); [|assumption]. intros x Hx. now apply wf_raw_sr.
  - cbn [s_msg names_ok]. repeat split.
    + apply (Forall_map_prop s_q wf_q); [|assumption]. intros x Hx. now apply wf_q_sq.
    + apply (Forall_map_prop s_r wf_answer); [|assumption]. intros x Hx. now apply wf_answer_sr.
    + apply (Forall_map_prop s_r wf_raw); [|assumption]. intros x Hx. now apply wf_raw_sr.
    + apply (Forall_map_prop s_r wf_raw); [|assumption]. intros x Hx. now apply wf_raw_sr.
Qed.

(* ------------------------------------------------------------------ wf_str is decidable and inhabited *)

Definition label_wfb (l : list N) : bool :=
  (1 <=? length l)%nat && (length l <=? 63)%nat && negb (is_xn l) && utf8_valid l.
Definition wf_strb (s : list N) : bool :=
  forallb label_wfb (wire_labels s) && bytes_beq (join_dot (wire_labels s)) s.

Lemma label_wfb_sound l : label_wfb l = true -> label_wf l.
Proof.
  unfold label_wfb. rewrite !andb_true_iff, negb_true_iff, Nat.leb_le, Nat.leb_le.
  intros (((H1 & H2) & H3) & H4). repeat split; assumption.
Qed.

Lemma wf_strb_sound s : wf_strb s = true -> wf_str s.
Proof.
  unfold wf_strb, wf_str. rewrite andb_true_iff, forallb_forall, bytes_beq_eq. intros [H1 H2].
  split; [|assumption]. apply Forall_forall. intros l Hl. apply label_wfb_sound. now apply H1.
Qed.

Lemma split_nodot l : ~ In 46 l -> split_dot l = [l].
Proof.
  induction l as [|b t IH]; intro H; [reflexivity|].
  cbn [split_dot]. replace (b =? 46) with false by (symmetry; apply N.eqb_neq; intro; subst; apply H; now left).
  rewrite IH; [reflexivity|]. intro X. apply H. now right.
Qed.

Lemma split_app_dot l x : ~ In 46 l -> split_dot (l ++ 46 :: x) = l :: split_dot x.
Proof.
  induction l as [|b t IH]; intro H; [reflexivity|].
  cbn [app split_dot]. replace (b =? 46) with false by (symmetry; apply N.eqb_neq; intro; subst; apply H; now left).
  rewrite IH; [reflexivity|]. intro X. apply H. now right.
Qed.

Lemma join_dot_cons2 l l2 t : join_dot (l :: l2 :: t) = l ++ 46 :: join_dot (l2 :: t).
Proof. reflexivity. Qed.

Lemma split_join : forall ls, ls <> [] -> Forall (fun l => ~ In 46 l) ls -> split_dot (join_dot ls) = ls.
Proof.
  induction ls as [|l ls IH]; intros Hne H; [congruence|].
  inversion H as [|? ? Hl H']; subst. destruct ls as [|l2 t].
  - cbn [join_dot flat_map]. rewrite app_nil_r. now apply split_nodot.
  - rewrite join_dot_cons2, (split_app_dot _ _ Hl). rewrite IH; [reflexivity|discriminate|assumption].
Qed.

Lemma svc_scan_none : forall rest pre, Forall (fun l => starts_us l = false) rest -> svc_scan pre rest = None.
Proof.
  induction rest as [|l rest IH]; intros pre H; [reflexivity|].
  inversion H as [|? ? Hl H']; subst. destruct rest as [|nx tl]; [reflexivity|].
  cbn [svc_scan]. rewrite Hl. cbn [andb]. now apply IH.
Qed.

Theorem wf_str_plain labels :
  Forall label_wf labels -> Forall (fun l => ~ In 46 l /\ starts_us l = false) labels ->
  wf_str (join_dot labels).
Proof.
  intros Hw Hp. destruct labels as [|l ls] eqn:E.
  - split; [constructor|reflexivity].
  - rewrite <- E in *. assert (Hne : labels <> []) by (subst; discriminate).
    assert (Hs : str_labels (join_dot labels) = labels).
    { unfold str_labels. rewrite split_join; [|assumption|].
      - rewrite svc_scan_none; [reflexivity|]. eapply Forall_impl; [|exact Hp]. intros a [_ X]. exact X.
      - eapply Forall_impl; [|exact Hp]. intros a [X _]. exact X. }
    unfold wf_str, wire_labels, norm_labels. rewrite Hs.
    rewrite (ends_empty_wf labels (label_wf_ok _ Hw)). split; [assumption|reflexivity].
Qed.
