(* C04/C05 - lemmas about the DNS model (names). *)
From Coq Require Import NArith ZArith List Bool Arith Lia ZifyBool.
From PV Require Import Common.Cases Common.Endian C04.DnsSpec C04.DnsModel.
Import ListNotations.
Ltac Zify.zify_post_hook ::= Z.to_euclidean_division_equations.
Local Open Scope N_scope.

(* ------------------------------------------------------------------ list helpers *)

Lemma skipn_len_app {A} (a b : list A) : skipn (length a) (a ++ b) = b.
Proof. induction a; simpl; auto. Qed.

Lemma firstn_len_app {A} (a b : list A) : firstn (length a) (a ++ b) = a.
Proof. induction a; simpl; [destruct b|]; auto. now rewrite IHa. Qed.

Lemma nth_error_len_app {A} (a : list A) x b : nth_error (a ++ x :: b) (length a) = Some x.
Proof. induction a; simpl; auto. Qed.

Lemma app_reassoc {A} (pre : list A) x l m rest :
  pre ++ x :: (l ++ m) ++ rest = (pre ++ x :: l) ++ m ++ rest.
Proof. induction pre; cbn; [now rewrite <- app_assoc|now f_equal]. Qed.

Lemma last_cons_default {A} : forall (ts : list A) t p, last (t :: ts) p = last ts t.
Proof.
  induction ts as [|a ts IH]; intros t p; [reflexivity|].
  change (last (t :: a :: ts) p) with (last (a :: ts) p).
  now rewrite (IH a p), (IH a t).
Qed.

Lemma existsb_nat_false t l : existsb (Nat.eqb t) l = false <-> ~ In t l.
Proof.
  induction l as [|x l IH]; simpl; [intuition|].
  rewrite orb_false_iff, IH, Nat.eqb_neq. intuition.
Qed.

Lemma existsb_nat_true t l : existsb (Nat.eqb t) l = true <-> In t l.
Proof.
  induction l as [|x l IH]; simpl; [intuition discriminate|].
  rewrite orb_true_iff, IH, Nat.eqb_eq. intuition.
Qed.

(* ------------------------------------------------------------------ fuel is only a bound *)

Lemma loop_fuel_mono : forall f buf p acc comp vis r,
  parse_name_loop f buf p acc comp vis = r -> r <> DOutOfFuel ->
  forall k, parse_name_loop (f + k) buf p acc comp vis = r.
Proof.
  induction f as [|f IH]; intros buf p acc comp vis r H Hr k.
  - simpl in H. congruence.
  - cbn [plus]. cbn [parse_name_loop] in *.
    destruct (nth_error buf p) as [len|]; [|exact H].
    destruct (len =? 0); [exact H|].
    destruct (negb ((len / 64 =? 0) || (len / 64 =? 3))); [exact H|].
    destruct (len / 64 =? 3).
    + destruct (nth_error buf (S p)) as [lo|]; [|exact H].
      destruct (existsb _ vis); [exact H|]. now apply IH.
    + destruct (rd buf (S p) (N.to_nat len)) as [lab pos2].
      destruct (is_xn lab); [exact H|].
      destruct (utf8_valid lab); [|exact H]. now apply IH.
Qed.

(* ------------------------------------------------------------------ the format relation, sized *)

Inductive name_at_n (buf : list N) : nat -> nat -> list (list N) -> nat -> Prop :=
| NN_root : forall p,
    nth_error buf p = Some 0 ->
    name_at_n buf O p [] (S p)
| NN_label : forall n p len lab ls e,
    nth_error buf p = Some len -> 1 <= len <= 63 ->
    lab = firstn (N.to_nat len) (skipn (S p) buf) -> length lab = N.to_nat len ->
    name_at_n buf n (S p + N.to_nat len) ls e ->
    name_at_n buf (S n) p (lab :: ls) e
| NN_ptr : forall n p hi lo ls e',
    nth_error buf p = Some hi -> 192 <= hi < 256 ->
    nth_error buf (S p) = Some lo -> lo < 256 ->
    name_at_n buf n (N.to_nat ((hi - 192) * 256 + lo)) ls e' ->
    name_at_n buf (S n) p ls (S (S p)).

Lemma name_at_sized buf p ls e : name_at buf p ls e -> exists n, name_at_n buf n p ls e.
Proof.
  induction 1 as [p H|p len lab ls e H1 H2 H3 H4 _ [n IH]|p hi lo ls e' H1 H2 H3 H4 _ [n IH]].
  - exists O. now constructor.
  - exists (S n). econstructor; eauto.
  - exists (S n). econstructor; eauto.
Qed.

Lemma name_at_unsized buf n p ls e : name_at_n buf n p ls e -> name_at buf p ls e.
Proof. induction 1; econstructor; eauto. Qed.

(* the representation at an offset is unique, and so is its size *)
Lemma name_at_n_fun buf : forall n p ls e, name_at_n buf n p ls e ->
  forall n' ls' e', name_at_n buf n' p ls' e' -> n = n' /\ ls = ls' /\ e = e'.
Proof.
  induction 1 as [p H|n p len lab ls e H1 H2 H3 H4 _ IH|n p hi lo ls e' H1 H2 H3 H4 _ IH];
    intros n' ls' e0 D.
  - inversion D as [p' G|n0 p' len' lab' ls0 e1 G1 G2 G3 G4 G5|n0 p' hi' lo' ls0 e1 G1 G2 G3 G4 G5]; subst.
    + auto.
    + rewrite H in G1. inversion G1; subst. lia.
    + rewrite H in G1. inversion G1; subst. lia.
  - inversion D as [p' G|n0 p' len' lab' ls0 e1 G1 G2 G3 G4 G5|n0 p' hi' lo' ls0 e1 G1 G2 G3 G4 G5]; subst.
    + rewrite H1 in G. inversion G; subst. lia.
    + rewrite H1 in G1. inversion G1; subst len'.
      destruct (IH _ _ _ G5) as (-> & -> & ->). auto.
    + rewrite H1 in G1. inversion G1; subst. lia.
  - inversion D as [p' G|n0 p' len' lab' ls0 e1 G1 G2 G3 G4 G5|n0 p' hi' lo' ls0 e1 G1 G2 G3 G4 G5]; subst.
    + rewrite H1 in G. inversion G; subst. lia.
    + rewrite H1 in G1. inversion G1; subst. lia.
    + rewrite H1 in G1. inversion G1; subst hi'.
      rewrite H3 in G3. inversion G3; subst lo'.
      destruct (IH _ _ _ G5) as (-> & -> & _). auto.
Qed.

Definition lab_dec_ok (l : list N) : Prop := is_xn l = false /\ utf8_valid l = true.

(* decoder completeness, loop level *)
Lemma loop_complete buf : forall n p ls e, name_at_n buf n p ls e ->
  Forall lab_dec_ok ls ->
  forall fuel acc comp vis,
    (n < fuel)%nat ->
    (forall v, In v vis -> exists m ls' e', name_at_n buf m v ls' e' /\ (n <= m)%nat) ->
    parse_name_loop fuel buf p acc comp vis
    = DOk (acc ++ ls, match comp with Some c => c | None => e end).
Proof.
  induction 1 as [p H|n p len lab ls e H1 H2 H3 H4 D IH|n p hi lo ls e' H1 H2 H3 H4 D IH];
    intros Hok fuel acc comp vis Hf Hv; destruct fuel as [|f]; try lia; cbn [parse_name_loop].
  - rewrite H. cbn. now rewrite app_nil_r.
  - rewrite H1.
    replace (len =? 0) with false by lia.
    replace (len / 64) with 0 by lia. cbn [N.eqb orb negb].
    unfold rd. rewrite <- H3, H4.
    inversion Hok as [|? ? [X1 X2] Hok']; subst lab ls.
    rewrite X1, X2.
    rewrite (IH Hok' f (acc ++ [firstn (N.to_nat len) (skipn (S p) buf)]) comp vis);
      [now rewrite <- app_assoc| lia |].
    intros v Iv. destruct (Hv v Iv) as (m & l' & e0 & Dm & Hm). exists m, l', e0. split; [assumption|lia].
  - rewrite H1.
    replace (hi =? 0) with false by lia.
    replace (hi / 64) with 3 by lia. cbn [N.eqb orb negb Pos.eqb].
    rewrite H3.
    replace (hi mod 64) with (hi - 192) by lia.
    set (t := N.to_nat ((hi - 192) * 256 + lo)) in *.
    assert (Hnot : existsb (Nat.eqb t) vis = false).
    { apply existsb_nat_false. intro Iv. destruct (Hv t Iv) as (m & l' & e0 & Dm & Hm).
      destruct (name_at_n_fun _ _ _ _ _ D _ _ _ Dm) as (E & _). lia. }
    rewrite Hnot.
    rewrite (IH Hok f acc (match comp with None => Some (S (S p)) | Some c => Some c end) (t :: vis)); [| lia |].
    + destruct comp; reflexivity.
    + intros v [<-|Iv].
      * exists n, ls, e'. split; [assumption|lia].
      * destruct (Hv v Iv) as (m & l' & e0 & Dm & Hm). exists m, l', e0. split; [assumption|lia].
Qed.

(* ------------------------------------------------------------------ C05: the fuel bound *)

Lemma nodup_bounded_length (l : list nat) (b : nat) :
  NoDup l -> (forall x, In x l -> (x < b)%nat) -> (length l <= b)%nat.
Proof.
  intros Hn Hb. rewrite <- (seq_length b 0).
  apply NoDup_incl_length; [assumption|].
  intros x Ix. apply in_seq. specialize (Hb x Ix). lia.
Qed.

Definition below (b : nat) (l : list nat) : list nat := filter (fun v => (v <? b)%nat) l.

Lemma below_length_le b l : NoDup l -> (length (below b l) <= b)%nat.
Proof.
  intro Hn. apply nodup_bounded_length.
  - now apply NoDup_filter.
  - intros x Ix. apply filter_In in Ix as [_ Ix]. now apply Nat.ltb_lt in Ix.
Qed.

(* measure: (targets inside the buffer not yet visited) * (L+1) + distance to the end + 1 *)
Definition mu (L : nat) (p : nat) (vis : list nat) : nat :=
  ((L - length (below L vis)) * S L + (S L - Nat.min p L))%nat.

Lemma loop_fuel_enough : forall fuel buf p acc comp vis,
  NoDup vis -> (mu (length buf) p vis <= fuel)%nat ->
  parse_name_loop fuel buf p acc comp vis <> DOutOfFuel.
Proof.
  induction fuel as [|f IH]; intros buf p acc comp vis Hn Hm.
  - unfold mu in Hm. set (X := (_ * _)%nat) in Hm. lia.
  - cbn [parse_name_loop].
    destruct (nth_error buf p) as [len|] eqn:Hp; [|discriminate].
    assert (Hpl : (p < length buf)%nat) by (apply nth_error_Some; congruence).
    destruct (len =? 0); [discriminate|].
    destruct (negb ((len / 64 =? 0) || (len / 64 =? 3))); [discriminate|].
    destruct (len / 64 =? 3).
    + destruct (nth_error buf (S p)) as [lo|]; [|discriminate].
      set (t := N.to_nat (len mod 64 * 256 + lo)).
      destruct (existsb (Nat.eqb t) vis) eqn:Hex; [discriminate|].
      apply existsb_nat_false in Hex.
      apply IH; [constructor; assumption|].
      pose proof (below_length_le (length buf) (t :: vis) (NoDup_cons _ Hex Hn)) as Hb.
      unfold mu in *. unfold below in *. cbn [filter] in *.
      destruct (t <? length buf)%nat eqn:Ht.
      * cbn [length] in *. apply Nat.ltb_lt in Ht.
        set (V := length (filter (fun v => (v <? length buf)%nat) vis)) in *.
        set (L := length buf) in *.
        replace (L - V)%nat with (S (L - S V))%nat in Hm by lia.
        rewrite Nat.mul_succ_l in Hm. set (X := (_ * _)%nat) in *. lia.
      * apply Nat.ltb_ge in Ht.
        set (V := length (filter (fun v => (v <? length buf)%nat) vis)) in *.
        set (L := length buf) in *.
        replace (Nat.min t L) with L by lia. set (X := (_ * _)%nat) in *. lia.
    + unfold rd.
      set (lab := firstn (N.to_nat len) (skipn (S p) buf)).
      destruct (is_xn lab); [discriminate|].
      destruct (utf8_valid lab); [|discriminate].
      apply IH; [assumption|].
      assert (Hl : (length lab <= length buf - S p)%nat).
      { unfold lab. rewrite firstn_length, skipn_length. lia. }
      unfold mu in *.
      set (V := length (below (length buf) vis)) in *.
      set (L := length buf) in *. set (X := (_ * _)%nat) in *. lia.
Qed.

Lemma mu_init L p : (mu L p [] <= S L * S L)%nat.
Proof. unfold mu. cbn [below filter length]. rewrite Nat.sub_0_r. cbn [Nat.mul]. lia. Qed.

Lemma loop_name_fuel_no_oof buf p : parse_name_loop (name_fuel buf) buf p [] None [] <> DOutOfFuel.
Proof. unfold name_fuel. apply loop_fuel_enough; [constructor|apply mu_init]. Qed.

(* two finished runs agree *)
Lemma loop_fuel_agree f1 f2 buf p acc comp vis :
  parse_name_loop f1 buf p acc comp vis <> DOutOfFuel ->
  parse_name_loop f2 buf p acc comp vis <> DOutOfFuel ->
  parse_name_loop f1 buf p acc comp vis = parse_name_loop f2 buf p acc comp vis.
Proof.
  intros H1 H2.
  rewrite <- (loop_fuel_mono f1 buf p acc comp vis _ eq_refl H1 f2).
  rewrite <- (loop_fuel_mono f2 buf p acc comp vis _ eq_refl H2 f1).
  now rewrite Nat.add_comm.
Qed.

Lemma parse_name_try_eq buf p F :
  parse_name_loop F buf p [] None [] <> DOutOfFuel ->
  forall rounds f, (F <= f * 2 ^ rounds)%nat ->
  parse_name_try rounds f buf p = parse_name_loop F buf p [] None [].
Proof.
  intros HF. induction rounds as [|r IH]; intros f Hf; cbn [parse_name_try].
  - cbn [Nat.pow] in Hf. rewrite Nat.mul_1_r in Hf.
    replace f with (F + (f - F))%nat by lia. now apply loop_fuel_mono.
  - destruct (parse_name_loop f buf p [] None []) eqn:E.
    + rewrite <- E. apply loop_fuel_agree; [rewrite E; discriminate|assumption].
    + rewrite <- E. apply loop_fuel_agree; [rewrite E; discriminate|assumption].
    + apply IH. cbn [Nat.pow] in Hf. lia.
Qed.

(* the model's retry scheme is one run with (len+1)^2 units *)
Lemma parse_name_eq buf p :
  parse_name buf p = parse_name_loop (name_fuel buf) buf p [] None [].
Proof.
  unfold parse_name. apply parse_name_try_eq; [apply loop_name_fuel_no_oof|].
  unfold name_fuel. set (L := length buf).
  pose proof (Nat.pow_gt_lin_r 2 (S L) ltac:(lia)) as H.
  apply Nat.le_trans with (S (S L) * S L)%nat; [lia|]. apply Nat.mul_le_mono_l. lia.
Qed.

Lemma parse_name_fuel_enough_l buf p : parse_name buf p <> DOutOfFuel.
Proof. rewrite parse_name_eq. apply loop_name_fuel_no_oof. Qed.

(* ------------------------------------------------------------------ decoder completeness *)

Lemma parse_name_complete_l buf p ls e :
  name_at buf p ls e -> Forall lab_dec_ok ls -> parse_name buf p = DOk (ls, e).
Proof.
  intros D Hok. destruct (name_at_sized _ _ _ _ D) as [n Dn].
  assert (H : parse_name_loop (name_fuel buf + S n) buf p [] None [] = DOk (ls, e)).
  { apply (loop_complete buf n p ls e Dn Hok (name_fuel buf + S n)%nat [] None []); [lia|intros v []]. }
  rewrite <- H, parse_name_eq. symmetry. apply loop_fuel_mono; [reflexivity|apply loop_name_fuel_no_oof].
Qed.

(* ------------------------------------------------------------------ qname_encode *)

Definition label_wf (l : list N) : Prop := label_ok l /\ lab_dec_ok l.

Lemma truncate63_id l : (length l <= 63)%nat -> truncate63 (length l) l = l.
Proof.
  intro H. destruct (length l) eqn:E; cbn [truncate63]; [reflexivity|].
  replace (63 <? length l)%nat with false; [reflexivity|].
  symmetry. apply Nat.ltb_ge. lia.
Qed.

Lemma qenc_labels_wf ls : Forall label_ok ls -> qenc_labels (ls ++ [[]]) = enc_name ls.
Proof.
  unfold enc_name. induction 1 as [|l ls [H1 H2] _ IH]; [reflexivity|].
  cbn [app qenc_labels flat_map]. rewrite (truncate63_id l H2).
  replace (length l =? 0)%nat with false by (symmetry; apply Nat.eqb_neq; lia).
  rewrite IH. unfold enc_label. cbn [app]. now rewrite <- app_assoc.
Qed.

Lemma ends_empty_wf ls : Forall label_ok ls -> ends_empty ls = false.
Proof.
  intro H. unfold ends_empty. destruct ls as [|a ls] using rev_ind; [reflexivity|].
  rewrite rev_app_distr. cbn. apply Forall_app in H as [_ H]. inversion H as [|? ? [X _] _]; subst.
  destruct a; [cbn in X; lia|reflexivity].
Qed.

(* what pyatv sends for a well-formed label list is the RFC 1035 3.1 encoding *)
Lemma qname_encode_sound_l ls : Forall label_ok ls -> qname_encode ls = enc_name ls.
Proof. intro H. unfold qname_encode. rewrite (ends_empty_wf ls H). now apply qenc_labels_wf. Qed.

Lemma enc_name_cons l ls : enc_name (l :: ls) = N.of_nat (length l) :: l ++ enc_name ls.
Proof. unfold enc_name. cbn [flat_map enc_label app]. now rewrite <- app_assoc. Qed.

(* the uncompressed encoding represents the name, wherever it is placed *)
Lemma enc_name_at : forall ls pre rest, Forall label_ok ls ->
  name_at (pre ++ enc_name ls ++ rest) (length pre) ls (length pre + length (enc_name ls)).
Proof.
  induction ls as [|l ls IH]; intros pre rest H.
  - cbn. replace (length pre + 1)%nat with (S (length pre)) by lia.
    constructor. apply nth_error_len_app.
  - inversion H as [|? ? [H1 H2] H']; subst.
    rewrite enc_name_cons. cbn [app].
    assert (Hlen : N.to_nat (N.of_nat (length l)) = length l) by lia.
    assert (Hsk : skipn (S (length pre)) (pre ++ N.of_nat (length l) :: (l ++ enc_name ls) ++ rest)
                  = l ++ enc_name ls ++ rest).
    { replace (pre ++ N.of_nat (length l) :: (l ++ enc_name ls) ++ rest)
        with ((pre ++ [N.of_nat (length l)]) ++ l ++ enc_name ls ++ rest)
        by (rewrite <- !app_assoc; reflexivity).
      replace (S (length pre)) with (length (pre ++ [N.of_nat (length l)])) by (rewrite app_length; cbn; lia).
      apply skipn_len_app. }
    eapply NA_label with (len := N.of_nat (length l)).
    + apply nth_error_len_app.
    + lia.
    + rewrite Hsk, Hlen. now rewrite firstn_len_app.
    + lia.
    + specialize (IH (pre ++ N.of_nat (length l) :: l) rest H').
      replace (pre ++ N.of_nat (length l) :: (l ++ enc_name ls) ++ rest)
        with ((pre ++ N.of_nat (length l) :: l) ++ enc_name ls ++ rest)
        by (symmetry; apply app_reassoc).
      replace (S (length pre) + N.to_nat (N.of_nat (length l)))%nat
        with (length (pre ++ N.of_nat (length l) :: l)) by (rewrite app_length; cbn [length]; lia).
      replace (length pre + length (N.of_nat (length l) :: l ++ enc_name ls))%nat
        with (length (pre ++ N.of_nat (length l) :: l) + length (enc_name ls))%nat
        by (rewrite !app_length; cbn [length]; rewrite app_length; lia).
      exact IH.
Qed.

Lemma name_roundtrip_l ls pre rest :
  Forall label_wf ls ->
  parse_name (pre ++ qname_encode ls ++ rest) (length pre)
  = DOk (ls, (length pre + length (qname_encode ls))%nat).
Proof.
  intro H.
  assert (H1 : Forall label_ok ls) by (eapply Forall_impl; [|exact H]; intros a [X _]; exact X).
  assert (H2 : Forall lab_dec_ok ls) by (eapply Forall_impl; [|exact H]; intros a [_ X]; exact X).
  rewrite (qname_encode_sound_l ls H1).
  apply parse_name_complete_l; [|exact H2]. now apply enc_name_at.
Qed.

(* ------------------------------------------------------------------ pointer loops *)

(* a pointer at p whose target was already visited: ValueError, whatever else the state is *)
Lemma visited_target_rejected f buf p acc comp vis hi lo :
  nth_error buf p = Some hi -> 192 <= hi < 256 -> nth_error buf (S p) = Some lo ->
  In (N.to_nat ((hi - 192) * 256 + lo)) vis ->
  parse_name_loop (S f) buf p acc comp vis = DRaise EValue.
Proof.
  intros H1 H2 H3 H4. cbn [parse_name_loop]. rewrite H1.
  replace (hi =? 0) with false by lia.
  replace (hi / 64) with 3 by lia. cbn [N.eqb orb negb Pos.eqb].
  rewrite H3. replace (hi mod 64) with (hi - 192) by lia.
  apply existsb_nat_true in H4. now rewrite H4.
Qed.

(* ptr_at buf p t: the two octets at p are a compression pointer to t *)
Definition ptr_at (buf : list N) (p t : nat) : Prop :=
  exists hi lo, nth_error buf p = Some hi /\ 192 <= hi < 256 /\ nth_error buf (S p) = Some lo /\ lo < 256
                /\ t = N.to_nat ((hi - 192) * 256 + lo).

(* a path of pointers: p -> t1 -> t2 ... *)
Fixpoint ptr_path (buf : list N) (p : nat) (ts : list nat) : Prop :=
  match ts with
  | [] => True
  | t :: ts' => ptr_at buf p t /\ ptr_path buf t ts'
  end.

(* Following pointers p -> t1 -> ... -> tk and then a pointer back to one of t1..tk (or to a
   target visited before) is answered with ValueError as soon as there is fuel for the k+1 steps *)
Lemma ptr_cycle_rejected buf : forall ts p back acc comp vis f,
  ptr_path buf p ts -> ptr_at buf (last ts p) back -> In back (ts ++ vis) ->
  (length ts < f)%nat ->
  parse_name_loop f buf p acc comp vis = DRaise EValue.
Proof.
  induction ts as [|t ts IH]; intros p back acc comp vis f Hp Hb Hin Hf.
  - cbn in *. destruct Hb as (hi & lo & H1 & H2 & H3 & H4 & ->).
    destruct f as [|f]; [lia|]. now apply visited_target_rejected with (hi := hi) (lo := lo).
  - destruct Hp as [(hi & lo & H1 & H2 & H3 & H4 & Et) Hp].
    destruct f as [|f]; [cbn in Hf; lia|].
    destruct (in_dec Nat.eq_dec t vis) as [Iv|Nv].
    + subst t. now apply visited_target_rejected with (hi := hi) (lo := lo).
    + cbn [parse_name_loop]. rewrite H1.
      replace (hi =? 0) with false by lia.
      replace (hi / 64) with 3 by lia. cbn [N.eqb orb negb Pos.eqb].
      rewrite H3. replace (hi mod 64) with (hi - 192) by lia. rewrite <- Et.
      apply existsb_nat_false in Nv. rewrite Nv.
      apply IH with (back := back).
      * exact Hp.
      * rewrite <- (last_cons_default ts t p). exact Hb.
      * cbn [app] in Hin. destruct Hin as [<-|Hin].
        -- apply in_or_app. right. now left.
        -- apply in_app_or in Hin as [X|X]; apply in_or_app; [now left|right; now right].
      * cbn [length] in Hf. lia.
Qed.
