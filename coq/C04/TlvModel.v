(* C04 - HAP TLV8, pyatv/auth/hap_tlv8.py read_tlv / write_tlv (as fixed: an empty value is
   written as a zero-length item). A dict is an insertion-ordered association list. *)
From Coq Require Import NArith List Bool Lia.
From PV Require Import Common.Cases.
Import ListNotations.
Local Open Scope N_scope.

Definition tlv := list (N * list N).

(* the `while pos < len(value)` loop: fragments of at most 255 bytes *)
Fixpoint chunks (fuel : nat) (tag : N) (v : list N) : list N :=
  match fuel with
  | O => []
  | S f =>
      match v with
      | [] => []
      | _ => let c := firstn 255 v in
             tag :: N.of_nat (length c) :: c ++ chunks f tag (skipn 255 v)
      end
  end.

Definition write_item (tag : N) (v : list N) : list N :=
  match v with
  | [] => [tag; 0]
  | _ => chunks (length v) tag v
  end.

Definition write_tlv (d : tlv) : list N := flat_map (fun kv => write_item (fst kv) (snd kv)) d.

(* result[tag] += value  /  result[tag] = value *)
Fixpoint upd (tag : N) (v : list N) (r : tlv) : tlv :=
  match r with
  | [] => [(tag, v)]
  | (t, x) :: r' => if t =? tag then (t, x ++ v) :: r' else (t, x) :: upd tag v r'
  end.

Inductive tres := TOk (r : tlv) | TIndexError | TOutOfFuel.

(* _parse(data, pos, size, result): data[pos+1] raises IndexError when only the tag byte is
   left; the value slice silently truncates *)
Fixpoint read_tlv_f (fuel : nat) (data : list N) (r : tlv) : tres :=
  match data with
  | [] => TOk r
  | [_] => TIndexError
  | tag :: len :: rest =>
      match fuel with
      | O => TOutOfFuel
      | S f => read_tlv_f f (skipn (N.to_nat len) rest) (upd tag (firstn (N.to_nat len) rest) r)
      end
  end.

Definition read_tlv (data : list N) : tres := read_tlv_f (length data) data [].

Definition item_beq (a b : N * list N) := N.eqb (fst a) (fst b) && bytes_beq (snd a) (snd b).
Definition tres_beq (a b : tres) : bool :=
  match a, b with
  | TOk x, TOk y => list_beq item_beq x y
  | TIndexError, TIndexError => true
  | TOutOfFuel, TOutOfFuel => true
  | _, _ => false
  end.

(* correspondence cases *)
Definition check_write (c : tlv * list N) : bool := bytes_beq (write_tlv (fst c)) (snd c).
Definition check_read (c : list N * tres) : bool := tres_beq (read_tlv (fst c)) (snd c).
