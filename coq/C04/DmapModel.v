(* C04 - DMAP TLV, pyatv/protocols/dmap/parser.py _parse and pyatv/protocols/dmap/tags.py.
   Every tag builder (uintN_tag, bool_tag, raw_tag, string_tag, container_tag) produces
   name(4 bytes) ++ length(4 bytes, big endian) ++ payload; the parser walks absolute positions
   inside one buffer and recurses into containers. Python slices clamp to the buffer. *)
From Coq Require Import Arith NArith List Bool Lia.
From PV Require Import Common.Cases Common.Endian.
Import ListNotations.

Definition name := list N.

Inductive node := Leaf (payload : list N) | Cont (children : list (name * node)).
Definition items := list (name * node).

(* data[start:start+len] *)
Definition slice (data : list N) (start len : nat) : list N := firstn len (skipn start data).

Section Enc.
  Fixpoint enc_node (nm : name) (n : node) : list N :=
    match n with
    | Leaf p => nm ++ be_enc 4 (N.of_nat (length p)) ++ p
    | Cont ch =>
        let body := (fix go (l : items) : list N :=
                       match l with [] => [] | (k, v) :: t => enc_node k v ++ go t end) ch in
        nm ++ be_enc 4 (N.of_nat (length body)) ++ body
    end.
End Enc.

Fixpoint enc_items (l : items) : list N :=
  match l with [] => [] | (k, v) :: t => enc_node k v ++ enc_items t end.

Lemma enc_node_cont nm ch :
  enc_node nm (Cont ch) = nm ++ be_enc 4 (N.of_nat (length (enc_items ch))) ++ enc_items ch.
Proof.
  cbn [enc_node].
  assert (H: forall l, (fix go (l : items) : list N :=
      match l with [] => [] | (k, v) :: t => enc_node k v ++ go t end) l = enc_items l).
  { induction l as [|[k v] t IH]; [reflexivity|]. cbn [enc_items]. now rewrite IH. }
  now rewrite H.
Qed.

(* None = the recursion did not finish within [fuel] calls (Python: RecursionError) *)
Fixpoint parse (fuel : nat) (is_cont : name -> bool) (data : list N) (data_len pos : nat)
  : option items :=
  match fuel with
  | O => None
  | S f =>
      if data_len <=? pos then Some []
      else
        let nm := slice data pos 4 in
        let flen := N.to_nat (be_dec (slice data (pos + 4) 4)) in
        let p := pos + 8 in
        if is_cont nm then
          match parse f is_cont data (p + flen) p with
          | None => None
          | Some ch =>
              match parse f is_cont data data_len (p + flen) with
              | None => None
              | Some rest => Some ((nm, Cont ch) :: rest)
              end
          end
        else
          match parse f is_cont data data_len (p + flen) with
          | None => None
          | Some rest => Some ((nm, Leaf (slice data p flen)) :: rest)
          end
  end.

Definition parse_top (fuel : nat) (is_cont : name -> bool) (data : list N) : option items :=
  parse fuel is_cont data (length data) 0.

(* typed readers of tags.py on a payload *)
Definition read_uint (p : list N) : N := be_dec p.
Definition read_bool (p : list N) : bool := N.eqb (be_dec p) 1.

Fixpoint node_beq (a b : node) {struct a} : bool :=
  match a, b with
  | Leaf x, Leaf y => bytes_beq x y
  | Cont x, Cont y =>
      (fix go (l1 l2 : items) : bool :=
         match l1, l2 with
         | [], [] => true
         | (k1, v1) :: t1, (k2, v2) :: t2 => bytes_beq k1 k2 && node_beq v1 v2 && go t1 t2
         | _, _ => false
         end) x y
  | _, _ => false
  end.
Definition items_beq (a b : items) : bool := node_beq (Cont a) (Cont b).

(* correspondence: container names, data, fuel, expected *)
Definition check_parse (c : list name * list N * nat * option items) : bool :=
  let '(conts, data, fuel, exp) := c in
  opt_beq items_beq (parse_top fuel (fun nm => existsb (bytes_beq nm) conts) data) exp.
Definition check_enc (c : items * list N) : bool := bytes_beq (enc_items (fst c)) (snd c).
