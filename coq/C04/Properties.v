(* C04 - property theorems for varint, TLV8, fixed binary headers, credential strings and DMAP.
   (OPACK: OpackProperties.v, DNS: DnsProperties.v.)  Each theorem is closed by `exact`. *)
From Coq Require Import Arith NArith List.
From PV Require Import Common.Endian
  C04.VarintModel C04.VarintProofs C04.TlvModel C04.TlvProofs C04.StructModel C04.StructProofs
  C04.CredModel C04.CredProofs C04.DmapModel C04.DmapProofs C04.Gen.
Import ListNotations.

(* protobuf varint: every natural number, any trailing data *)
Theorem C04_varint_roundtrip : forall n rest, read_variant (write_variant n ++ rest) = Some (n, rest).
Proof. exact varint_roundtrip. Qed.
Print Assumptions C04_varint_roundtrip.

Theorem C04_varint_bytes : forall n, wf_bytes (write_variant n).
Proof. exact write_variant_wf. Qed.
Print Assumptions C04_varint_bytes.

(* TLV8: every dict with distinct tags, values of any length (0, 255, 256, ... fragments) *)
Theorem C04_tlv_roundtrip : forall d, NoDup (map fst d) -> read_tlv (write_tlv d) = TOk d.
Proof. exact tlv_roundtrip. Qed.
Print Assumptions C04_tlv_roundtrip.

Theorem C04_tlv_bytes : forall d,
  Forall (fun kv => (fst kv < 256)%N /\ wf_bytes (snd kv)) d -> wf_bytes (write_tlv d).
Proof. exact write_tlv_wf. Qed.
Print Assumptions C04_tlv_bytes.

(* struct headers: for EVERY format, decode (encode values) = values, exact size and with
   trailing data (allow_excessive) *)
Theorem C04_struct_roundtrip : forall fmt vs,
  Forall2 wf_val fmt vs ->
  exists out, encode fmt vs = Some out /\ decode fmt false out = Some vs /\
              forall extra, decode fmt true (out ++ extra) = Some vs.
Proof. exact struct_roundtrip. Qed.
Print Assumptions C04_struct_roundtrip.

(* the formats the code defines today (regenerated from /repo into Gen.v on every run) are the
   documented layouts: RTP header (version/flags, payload type, sequence number), NTP timing
   and sync packets, audio header (timestamp, ssrc), retransmit request, 32-byte data header *)
Theorem C04_formats_as_documented :
  fmt_RtpHeader = [FU 1; FU 1; FU 2] /\
  fmt_TimingPacket = [FU 1; FU 1; FU 2; FU 4; FU 4; FU 4; FU 4; FU 4; FU 4; FU 4] /\
  fmt_SyncPacket = [FU 1; FU 1; FU 2; FU 4; FU 4; FU 4; FU 4] /\
  fmt_AudioPacketHeader = [FU 1; FU 1; FU 2; FU 4; FU 4] /\
  fmt_RetransmitReqeust = [FU 1; FU 1; FU 2; FU 2; FU 2] /\
  fmt_DataHeader = [FU 4; FS 12; FS 4; FU 8; FU 4] /\
  map calcsize [fmt_RtpHeader; fmt_TimingPacket; fmt_SyncPacket; fmt_AudioPacketHeader;
                fmt_RetransmitReqeust; fmt_DataHeader] = [4; 32; 20; 12; 8; 32].
Proof. repeat split; reflexivity. Qed.
Print Assumptions C04_formats_as_documented.

(* credential strings: every valid credentials object, empty fields included *)
Theorem C04_credentials_roundtrip : forall c,
  wf_creds c -> valid_shape c = true -> parse_credentials (cred_str c) = POk c.
Proof. exact credentials_roundtrip. Qed.
Print Assumptions C04_credentials_roundtrip.

Theorem C04_credentials_legacy : forall cid sk,
  wf_bytes cid -> wf_bytes sk -> cid <> [] -> sk <> [] ->
  parse_credentials (hexlify cid ++ colon :: hexlify sk) =
  POk {| ltpk := []; ltsk := sk; atv_id := []; client_id := cid |}.
Proof. exact legacy_parse. Qed.
Print Assumptions C04_credentials_legacy.

(* DMAP: every tag tree (nested containers to any depth) decodes back to itself, for every
   container/leaf classification of the tag names *)
Theorem C04_dmap_roundtrip : forall is_cont its,
  wf_items is_cont its -> parse_top (size its) is_cont (enc_items its) = Some its.
Proof. exact dmap_roundtrip. Qed.
Print Assumptions C04_dmap_roundtrip.

Theorem C04_dmap_uint : forall k n, (n < 256 ^ N.of_nat k)%N -> read_uint (be_enc k n) = n.
Proof. exact uint_tag_roundtrip. Qed.
Print Assumptions C04_dmap_uint.

(* non-vacuity *)
Example C04_ex_tlv : NoDup (map fst [(6%N, [1%N]); (3%N, repeat 7%N 300); (9%N, [])]).
Proof. repeat constructor; simpl; intuition discriminate. Qed.
Example C04_ex_struct : Forall2 wf_val fmt_DataHeader
  [VU 32; VS (repeat 115%N 12); VS (repeat 0%N 4); VU 4294967296; VU 0].
Proof. repeat constructor; reflexivity. Qed.
Example C04_ex_cred : valid_shape {| ltpk := [1%N]; ltsk := [2%N]; atv_id := [3%N]; client_id := [4%N] |} = true.
Proof. reflexivity. Qed.
Example C04_ex_dmap :
  wf_items (fun nm => Common.Cases.bytes_beq nm [99; 109; 115; 116]%N)
    [([99; 109; 115; 116]%N, Cont [([109; 105; 110; 109]%N, Leaf [1; 2; 3]%N)]); ([99; 97; 112; 115]%N, Leaf [])].
Proof. cbn. repeat split; reflexivity || (vm_compute; reflexivity). Qed.
